(* Proofs/SameFunP.v — property C16: the evaluation model (Model/Eval.v) and the integral models
   (Model/MomentInt.v, Model/DiffOp.v through Model/Overlap.two_symm_integral) describe ONE family of
   functions.

   A FUNCTION DESCRIPTOR [fdesc] is a finite list of weighted primitive Cartesian Gaussians
   (weight, centre, exponent, monomial).  [descr s] extracts from a shell the descriptors of its functions,
   segment-major then component:
     Cartesian function (m, c)   : one term per primitive k with weight
                                   norm_cont[m][c] * (coeff[k][m] * norm_prim(l, c, alpha_k)), monomial c;
     spherical function (m, row) : the combination of the segment's Cartesian descriptors with the entries
                                   of the row of generate_transformation (Model/Spherical.shell_transform).
   EVALUATION side:  evaluate_deriv_basis_model / evaluate_basis_model return, row by row,
                     [deriv_spec o d r] / [eval_spec d r] of the descriptors [descr_basis basis]
                     (same_function_eval, same_function_eval_transformed).
   INTEGRAL side:    every processed shell-pair block of overlap / kinetic / moment integrals is the table
                     of [pair_spec I d1 d2] = sum_{t1 in d1} sum_{t2 in d2} w1 w2 I(t1, t2) over the SAME
                     descriptors, I being the E-functional of a pair of primitives (same_function_pblock_overlap etc.),
                     and the assembled matrices are these tables placed by two_symm_blocks.
   BRIDGE:           for ANY functional Lin on functions of a point that is additive, homogeneous,
                     extensional and returns w1 w2 I(t1, t2) on the product of two primitives (that is (B1) of
                     DESIGN 2.6 when Lin is the Lebesgue integral — trusted, a hypothesis here), Lin of the
                     product of two evaluated functions is the model's matrix entry and Lin of the density is
                     tr(P S) (lin_of_product, lin_of_density). *)
From Coq Require Import List Arith Lia Bool Field.
From GB Require Import Base.Field Base.FNum Base.Tables Gauss.Moment1D Model.Shell Model.MomentInt
  Model.Spherical Model.Assembly Model.Overlap Model.DiffOp Model.OneBody Model.Eval
  Proofs.BlockP Proofs.OverlapP Proofs.MomentIntP Proofs.DiffOpP Proofs.EvalP.
Import ListNotations.

(* ------------------------------------------------------------------ *)
(* list utilities                                                       *)
(* ------------------------------------------------------------------ *)
Section ListU.
Context {A B C D : Type}.

Lemma combine_map_both (f : A -> B) (g : A -> C) (l : list A) :
  combine (map f l) (map g l) = map (fun x => (f x, g x)) l.
Proof. induction l as [|a l IH]; cbn; [reflexivity|]. now rewrite IH. Qed.

Lemma combine_map_r' (g : B -> C) (l : list A) (l2 : list B) :
  combine l (map g l2) = map (fun p => (fst p, g (snd p))) (combine l l2).
Proof. revert l2; induction l as [|a l IH]; intros [|b l2]; cbn; [reflexivity..|]. now rewrite IH. Qed.

Lemma combine_map_l' (g : A -> C) (l : list A) (l2 : list B) :
  combine (map g l) l2 = map (fun p => (g (fst p), snd p)) (combine l l2).
Proof. revert l2; induction l as [|a l IH]; intros [|b l2]; cbn; [reflexivity..|]. now rewrite IH. Qed.

Lemma combine_swap (l : list A) (l2 : list B) :
  combine l l2 = map (fun p => (snd p, fst p)) (combine l2 l).
Proof. revert l2; induction l as [|a l IH]; intros [|b l2]; cbn; [reflexivity..|]. now rewrite IH. Qed.

Lemma map_as_mk (f : A -> B) (l : list A) (d : A) :
  map f l = mk (length l) (fun i => f (nth i l d)).
Proof.
  unfold mk. induction l as [|a l IH]; cbn [map length seq]; [reflexivity|].
  rewrite <- seq_shift, map_map. cbn [nth]. now rewrite IH.
Qed.

Lemma in_combine_seq (l : list A) n x i : In (x, i) (combine l (seq 0 n)) -> i < n.
Proof. intros H. apply in_combine_r in H. apply in_seq in H. lia. Qed.
End ListU.

Lemma map_mk' {A B} (f : A -> B) n g : map f (mk n g) = mk n (fun j => f (g j)).
Proof. unfold mk. now rewrite map_map. Qed.

Lemma combine_mk {A B} n (f : nat -> A) (g : nat -> B) :
  combine (mk n f) (mk n g) = mk n (fun i => (f i, g i)).
Proof. unfold mk. apply combine_map_both. Qed.

Lemma hd_mk {A} n (f : nat -> A) d : 0 < n -> hd d (mk n f) = f 0.
Proof. destruct n; [lia|]. reflexivity. Qed.

Lemma concat_map_map {A B} (f : A -> B) (ll : list (list A)) :
  map f (concat ll) = concat (map (map f) ll).
Proof. apply concat_map. Qed.

Lemma map_map_id {A} (l : list (list A)) : map (map (fun x : A => x)) l = l.
Proof. induction l as [|a l IH]; cbn; [reflexivity|]. now rewrite map_id, IH. Qed.

(* ------------------------------------------------------------------ *)
(* shell-pair blocks given by an entry function, through Assembly.shell_block:
   any element module (A, azero, aadd, ascale), no laws needed           *)
(* ------------------------------------------------------------------ *)
Section Blk4.
Context {F : Type} (K : Fops F).
Context {A : Type} (azero : A) (aadd : A -> A -> A) (ascale : F -> A -> A).

Definition blk4 (M1 L1 M2 L2 : nat) (e : nat -> nat -> nat -> nat -> A) : list (list (list (list A))) :=
  mk M1 (fun ma => mk L1 (fun ia => mk M2 (fun mb => mk L2 (fun ib => e ma ia mb ib)))).

Lemma blk4_ext M1 L1 M2 L2 e e' :
  (forall ma ia mb ib, ma < M1 -> ia < L1 -> mb < M2 -> ib < L2 -> e ma ia mb ib = e' ma ia mb ib) ->
  blk4 M1 L1 M2 L2 e = blk4 M1 L1 M2 L2 e'.
Proof.
  intros H. unfold blk4. apply mk_ext; intros ma Hma. apply mk_ext; intros ia Hia.
  apply mk_ext; intros mb Hmb. apply mk_ext; intros ib Hib. now apply H.
Qed.

(* sum_k trow[k] * g k over k < n (truncated to the length of trow): tensordot along one axis *)
Definition lcomb (trow : list F) (n : nat) (g : nat -> A) : A :=
  asum azero aadd (map (fun p => ascale (fst p) (g (snd p))) (combine trow (seq 0 n))).

Lemma lcomb_ext trow n g g' : (forall c, c < n -> g c = g' c) -> lcomb trow n g = lcomb trow n g'.
Proof.
  intros H. unfold lcomb. f_equal. apply map_ext_in. intros [t c] Hin. cbn [fst snd].
  f_equal. apply H. eapply in_combine_seq. exact Hin.
Qed.

Lemma normalise_blk4 M1 L1 M2 L2 (n1 n2 : nat -> nat -> F) e :
  normalise K ascale (mk M1 (fun m => mk L1 (n1 m))) (mk M2 (fun m => mk L2 (n2 m))) (blk4 M1 L1 M2 L2 e)
  = blk4 M1 L1 M2 L2 (fun ma ia mb ib => ascale (fmul K (n1 ma ia) (n2 mb ib)) (e ma ia mb ib)).
Proof.
  unfold normalise, blk4. rewrite combine_mk, map_mk'. apply mk_ext; intros ma _.
  rewrite combine_mk, map_mk'. apply mk_ext; intros ia _.
  rewrite combine_mk, map_mk'. apply mk_ext; intros mb _.
  rewrite combine_mk, map_mk'. apply mk_ext; intros ib _. reflexivity.
Qed.

Lemma fold_slab M2 L2 (ee : nat -> nat -> nat -> A) (G : list (F * nat)) :
  fold_right (slab_add aadd) (mk M2 (fun _ => mk L2 (fun _ => azero)))
    (map (fun ts : F * list (list A) => let '(t, sl) := ts in slab_scale ascale t sl)
         (map (fun p => (fst p, mk M2 (fun mb => mk L2 (fun ib => ee (snd p) mb ib)))) G))
  = mk M2 (fun mb => mk L2 (fun ib =>
      asum azero aadd (map (fun p => ascale (fst p) (ee (snd p) mb ib)) G))).
Proof.
  induction G as [|[t c] G IH]; cbn [map fold_right fst snd]; [reflexivity|].
  rewrite IH. unfold slab_add, slab_scale. rewrite !map_mk'. rewrite combine_mk, map_mk'.
  apply mk_ext; intros mb _. rewrite map_mk'. rewrite combine_mk, map_mk'. reflexivity.
Qed.

Lemma tleft_blk4 T M1 L1 M2 L2 e : 0 < L1 ->
  transform_left azero aadd ascale T (blk4 M1 L1 M2 L2 e)
  = blk4 M1 (length T) M2 L2 (fun ma r mb ib => lcomb (nth r T []) L1 (fun c => e ma c mb ib)).
Proof.
  intros HL. unfold transform_left, blk4 at 1. rewrite map_mk'. unfold blk4. apply mk_ext; intros ma _.
  rewrite (map_as_mk _ T []). apply mk_ext; intros r _.
  rewrite hd_mk by exact HL. unfold slab_zero. rewrite !map_mk'.
  unfold mk at 3. rewrite combine_map_r'.
  change (mk M2 (fun j => map (fun _ : A => azero) (mk L2 (fun ib => e ma 0 j ib))))
    with (mk M2 (fun j => map (fun _ : A => azero) (mk L2 (fun ib => e ma 0 j ib)))).
  assert (Ez : mk M2 (fun j => map (fun _ : A => azero) (mk L2 (fun ib => e ma 0 j ib)))
               = mk M2 (fun _ => mk L2 (fun _ => azero))).
  { apply mk_ext; intros mb _. now rewrite map_mk'. }
  rewrite Ez. rewrite (fold_slab M2 L2 (fun c mb ib => e ma c mb ib)). reflexivity.
Qed.

Lemma tright_blk4 T M1 L1 M2 L2 e :
  transform_right azero aadd ascale T (blk4 M1 L1 M2 L2 e)
  = blk4 M1 L1 M2 (length T) (fun ma ia mb r => lcomb (nth r T []) L2 (fun c => e ma ia mb c)).
Proof.
  unfold transform_right, blk4. rewrite map_mk'. apply mk_ext; intros ma _.
  rewrite map_mk'. apply mk_ext; intros ia _. rewrite map_mk'. apply mk_ext; intros mb _.
  unfold apply_rows. rewrite (map_as_mk _ T []). apply mk_ext; intros r _.
  unfold lcomb. f_equal. unfold mk. rewrite combine_map_r', map_map.
  apply map_ext. intros [t c]. reflexivity.
Qed.

Definition flat4 (M1 R1 M2 R2 : nat) (e : nat -> nat -> nat -> nat -> A) : list (list A) :=
  concat (mk M1 (fun ma => mk R1 (fun r1 => concat (mk M2 (fun mb => mk R2 (fun r2 => e ma r1 mb r2)))))).

Lemma flat4_ext M1 R1 M2 R2 e e' :
  (forall ma r1 mb r2, ma < M1 -> r1 < R1 -> mb < M2 -> r2 < R2 -> e ma r1 mb r2 = e' ma r1 mb r2) ->
  flat4 M1 R1 M2 R2 e = flat4 M1 R1 M2 R2 e'.
Proof.
  intros H. unfold flat4. f_equal. apply mk_ext; intros ma Hma. apply mk_ext; intros ia Hia. f_equal.
  apply mk_ext; intros mb Hmb. apply mk_ext; intros ib Hib. now apply H.
Qed.

Lemma flatten_blk4 M1 L1 M2 L2 e : flatten_block (blk4 M1 L1 M2 L2 e) = flat4 M1 L1 M2 L2 e.
Proof.
  unfold flatten_block, blk4, flat4. rewrite flat_map_concat_map, map_mk'. f_equal.
  apply mk_ext; intros ma _. now rewrite map_mk'.
Qed.

(* entries after the per-index processing *)
Definition eL (sph1 : bool) (T1 : list (list F)) (L1 : nat) (e : nat -> nat -> nat -> nat -> A) :=
  fun ma r mb ib => if sph1 then lcomb (nth r T1 []) L1 (fun c => e ma c mb ib) else e ma r mb ib.
Definition eR (sph2 : bool) (T2 : list (list F)) (L2 : nat) (e : nat -> nat -> nat -> nat -> A) :=
  fun ma r mb r2 => if sph2 then lcomb (nth r2 T2 []) L2 (fun c => e ma r mb c) else e ma r mb r2.
Definition rows_of (sph : bool) (T : list (list F)) (L : nat) : nat := if sph then length T else L.

Theorem shell_block_blk4 sph1 sph2 T1 T2 M1 L1 M2 L2 (n1 n2 : nat -> nat -> F) e : 0 < L1 ->
  shell_block K azero aadd ascale sph1 sph2 T1 T2
    (mk M1 (fun m => mk L1 (n1 m))) (mk M2 (fun m => mk L2 (n2 m))) (blk4 M1 L1 M2 L2 e)
  = flat4 M1 (rows_of sph1 T1 L1) M2 (rows_of sph2 T2 L2)
      (eR sph2 T2 L2 (eL sph1 T1 L1
         (fun ma ia mb ib => ascale (fmul K (n1 ma ia) (n2 mb ib)) (e ma ia mb ib)))).
Proof.
  intros HL. unfold shell_block. rewrite normalise_blk4.
  destruct sph1, sph2; unfold rows_of, eL, eR;
    rewrite ?(tleft_blk4 _ _ _ _ _ _ HL), ?tright_blk4; apply flatten_blk4.
Qed.

(* the table of a bilinear pairing of two families indexed like the block *)
Lemma outer_flat4 {D} (f : D -> D -> A) M1 R1 M2 R2 (d1 d2 : nat -> nat -> D) :
  map (fun x => map (fun y => f x y) (concat (mk M2 (fun mb => mk R2 (d2 mb)))))
      (concat (mk M1 (fun ma => mk R1 (d1 ma))))
  = flat4 M1 R1 M2 R2 (fun ma r1 mb r2 => f (d1 ma r1) (d2 mb r2)).
Proof.
  unfold flat4. rewrite concat_map_map, map_mk'. f_equal. apply mk_ext; intros ma _.
  rewrite map_mk'. apply mk_ext; intros r1 _.
  rewrite concat_map_map, map_mk'. f_equal. apply mk_ext; intros mb _. now rewrite map_mk'.
Qed.
End Blk4.

(* ------------------------------------------------------------------ *)
Section P.
Context {F : Type} (K : Fops F) (Kf : is_field K).
Add Field KF16 : Kf.
Hypothesis Hapx : forall x, fapx K x = x.
Local Open Scope F_scope.
Notation "0" := (f0 K) : F_scope.
Notation "1" := (f1 K) : F_scope.
Infix "+" := (fadd K) : F_scope.
Infix "*" := (fmul K) : F_scope.
Infix "-" := (fsub K) : F_scope.
Infix "/" := (fdiv K) : F_scope.
Notation "- x" := (fopp K x) : F_scope.
Notation "# n" := (ofnat K n) (at level 5) : F_scope.
Notation fpow := (FNum.fpow K).
Notation fsum := (FNum.fsum K).

(* ---------------- finite sums ---------------- *)
Lemma fsum_cons x l : fsum (x :: l) = x + fsum l.
Proof. reflexivity. Qed.

Lemma fsum_app l1 l2 : fsum (l1 ++ l2) = fsum l1 + fsum l2.
Proof. induction l1 as [|x l1 IH]; cbn [app]; rewrite ?fsum_cons; [cbn; ring|]. rewrite IH. ring. Qed.

Lemma fsum_scale {A} c (f : A -> F) l : fsum (map (fun x => c * f x) l) = c * fsum (map f l).
Proof. induction l as [|x l IH]; cbn [map]; rewrite ?fsum_cons; [cbn; ring|]. rewrite IH. ring. Qed.

Lemma fsum_add {A} (f g : A -> F) l :
  fsum (map (fun x => f x + g x) l) = fsum (map f l) + fsum (map g l).
Proof. induction l as [|x l IH]; cbn [map]; rewrite ?fsum_cons; [cbn; ring|]. rewrite IH. ring. Qed.

Lemma fsum_ext_in {A} (f g : A -> F) l : (forall x, In x l -> f x = g x) -> fsum (map f l) = fsum (map g l).
Proof. intros H. f_equal. now apply map_ext_in. Qed.

Lemma fsum_zero {A} (l : list A) : fsum (map (fun _ => 0) l) = 0.
Proof. induction l as [|x l IH]; cbn [map]; rewrite ?fsum_cons; [reflexivity|]. rewrite IH. ring. Qed.

Lemma fsum_concat (ll : list (list F)) : fsum (concat ll) = fsum (map fsum ll).
Proof. induction ll as [|l ll IH]; cbn [concat map]; [reflexivity|]. now rewrite fsum_app, fsum_cons, IH. Qed.

Lemma fsum_swap {A B} (g : A -> B -> F) la lb :
  fsum (map (fun a => fsum (map (fun b => g a b) lb)) la)
  = fsum (map (fun b => fsum (map (fun a => g a b) la)) lb).
Proof.
  induction la as [|a la IH]; cbn [map]; rewrite ?fsum_cons.
  - symmetry. apply fsum_zero.
  - rewrite IH. rewrite <- fsum_add. apply fsum_ext_in. intros b _. now rewrite fsum_cons.
Qed.

(* ------------------------------------------------------------------ *)
(* descriptors                                                          *)
(* ------------------------------------------------------------------ *)
(* a primitive Cartesian Gaussian (x-X)^a (y-Y)^b (z-Z)^c exp(-alpha |r-R|^2) and a weighted one *)
Record gprim := mkG { g_x : F; g_y : F; g_z : F; g_a : F; g_c : comp }.
Record pterm := mkT { t_w : F; t_g : gprim }.
Definition fdesc := list pterm.
Definition t_x t := g_x (t_g t).  Definition t_y t := g_y (t_g t).  Definition t_z t := g_z (t_g t).
Definition t_a t := g_a (t_g t).  Definition t_c t := g_c (t_g t).

Definition cx (c : comp) : nat := fst (fst c).
Definition cy (c : comp) : nat := snd (fst c).
Definition cz (c : comp) : nat := snd c.

(* value at the point r of the derivative of order o of one weighted primitive
     w (x-X)^a (y-Y)^b (z-Z)^c exp(-alpha |r-R|^2) ;
   u alpha l n x is the polynomial with d^n/dx^n [x^l e^{-alpha x^2}] = u e^{-alpha x^2} (C05) *)
Definition term_val (o : comp) (r : point (F:=F)) (t : pterm) : F :=
  let dx := fst (fst r) - t_x t in let dy := snd (fst r) - t_y t in let dz := snd r - t_z t in
  t_w t * (u K (t_a t) (cx (t_c t)) (cx o) dx * u K (t_a t) (cy (t_c t)) (cy o) dy
           * u K (t_a t) (cz (t_c t)) (cz o) dz)
  * fexp K (- (t_a t * (dx * dx + dy * dy + dz * dz))).
Definition deriv_spec (o : comp) (d : fdesc) (r : point (F:=F)) : F := fsum (map (term_val o r) d).
Definition eval_spec (d : fdesc) (r : point (F:=F)) : F := deriv_spec (0, 0, 0)%nat d r.

(* the value itself: sum_i w_i (x-X)^a (y-Y)^b (z-Z)^c exp(-alpha_i |r-R|^2) *)
Lemma eval_spec_unfold d r :
  eval_spec d r = fsum (map (fun t =>
    let dx := fst (fst r) - t_x t in let dy := snd (fst r) - t_y t in let dz := snd r - t_z t in
    t_w t * (fpow dx (cx (t_c t)) * fpow dy (cy (t_c t)) * fpow dz (cz (t_c t)))
    * fexp K (- (t_a t * (dx * dx + dy * dy + dz * dz)))) d).
Proof. reflexivity. Qed.

Definition dscale (s : F) (d : fdesc) : fdesc :=
  map (fun t => mkT (s * t_w t) (t_g t)) d.
(* sum_k trow[k] * ds[k] *)
Definition dcomb (trow : list F) (ds : list fdesc) : fdesc :=
  concat (map (fun p => dscale (fst p) (snd p)) (combine trow ds)).

Lemma deriv_spec_app o d1 d2 r : deriv_spec o (d1 ++ d2) r = deriv_spec o d1 r + deriv_spec o d2 r.
Proof. unfold deriv_spec. now rewrite map_app, fsum_app. Qed.

Lemma deriv_spec_dscale o s d r : deriv_spec o (dscale s d) r = s * deriv_spec o d r.
Proof.
  unfold deriv_spec, dscale. rewrite map_map, <- fsum_scale. apply fsum_ext_in. intros t _.
  unfold term_val, t_x, t_y, t_z, t_a, t_c. cbn [t_w t_g]. ring.
Qed.

Lemma deriv_spec_dcomb o trow ds r :
  deriv_spec o (dcomb trow ds) r
  = fsum (map (fun p => fst p * deriv_spec o (snd p) r) (combine trow ds)).
Proof.
  unfold dcomb. induction (combine trow ds) as [|[t d] L IH]; cbn [map concat fst snd]; [reflexivity|].
  now rewrite deriv_spec_app, deriv_spec_dscale, fsum_cons, IH.
Qed.

(* ---- the descriptors of a shell ---- *)
Definition ncf (s : shell F) (m ic : nat) : F := nth ic (nth m (norm_cont K s) []) 0.
Definition ncomp (s : shell F) : nat := length (comps_of s).
Definition compi (s : shell F) (ic : nat) : comp := nth ic (comps_of s) (0, 0, 0)%nat.

(* Cartesian function (segment m, component number ic): one term per primitive,
   weight = norm_cont * (coefficient * norm_prim) *)
Definition cart_desc (s : shell F) (m ic : nat) : fdesc :=
  map (fun ae => mkT (ncf s m ic * (nth m (snd ae) 0 * norm_prim K (s_l s) (compi s ic) (fst ae)))
                     (mkG (s_x s) (s_y s) (s_z s) (fst ae) (compi s ic)))
      (combine (s_exps s) (s_coeffs s)).

Definition seg_descs (s : shell F) (m : nat) : list fdesc :=
  let carts := mk (ncomp s) (cart_desc s m) in
  if s_sph s then map (fun trow => dcomb trow carts) (shell_transform K s) else carts.

(* segment-major, then component / spherical row *)
Definition descr (s : shell F) : list fdesc := concat (mk (nseg s) (seg_descs s)).
Definition descr_basis (basis : list (shell F)) : list fdesc := concat (map descr basis).

(* well-formed component list: not empty, no exponent above l *)
Definition comps_ok (s : shell F) : Prop :=
  comps_of s <> [] /\ forall c, In c (comps_of s) -> forall ax, (comp_ax ax c <= s_l s)%nat.

Lemma default_comps_nonempty l : default_comps l <> [].
Proof.
  unfold default_comps. rewrite <- cons_seq. cbn [flat_map]. rewrite Nat.sub_0_r, Nat.sub_diag.
  cbn [seq map app]. discriminate.
Qed.

Lemma default_comps_ok (s : shell F) : s_comps s = [] -> comps_ok s.
Proof.
  intros E. unfold comps_ok, comps_of. rewrite E. split; [apply default_comps_nonempty|].
  intros c Hc ax. now apply default_comps_le.
Qed.

Lemma ncomp_pos s : comps_ok s -> (0 < ncomp s)%nat.
Proof. intros [H _]. unfold ncomp. destruct (comps_of s); [congruence|cbn; lia]. Qed.

Lemma compi_in s ic : (ic < ncomp s)%nat -> In (compi s ic) (comps_of s).
Proof. intros H. apply nth_In. exact H. Qed.

Lemma norm_cont_mk s :
  norm_cont K s = mk (nseg s) (fun m => mk (ncomp s) (ncf s m)).
Proof.
  unfold ncf. unfold norm_cont at 1. apply mk_ext; intros m Hm. apply mk_ext; intros c Hc.
  unfold norm_cont. rewrite nth_mk by exact Hm. now rewrite nth_mk by exact Hc.
Qed.

Lemma nth_norms s ic : (ic < ncomp s)%nat ->
  nth ic (norms K s) [] = map (norm_prim K (s_l s) (compi s ic)) (s_exps s).
Proof.
  intros Hic. unfold norms, compi.
  rewrite (nth_indep _ [] (map (norm_prim K (s_l s) (0,0,0)%nat) (s_exps s)))
    by (rewrite map_length; exact Hic).
  now rewrite (map_nth (fun c => map (norm_prim K (s_l s) c) (s_exps s))).
Qed.

(* the descriptors as a doubly indexed family: segment m, row r (component or spherical row) *)
Definition dd (s : shell F) (m r : nat) : fdesc :=
  if s_sph s then dcomb (nth r (shell_transform K s) []) (mk (ncomp s) (cart_desc s m))
  else cart_desc s m r.
Definition nrows (s : shell F) : nat := rows_of (s_sph s) (shell_transform K s) (ncomp s).

Lemma descr_mk s : descr s = concat (mk (nseg s) (fun m => mk (nrows s) (dd s m))).
Proof.
  unfold descr, seg_descs, nrows, rows_of, dd. f_equal. apply mk_ext; intros m _.
  destruct (s_sph s); [|reflexivity]. now rewrite (map_as_mk _ (shell_transform K s) []).
Qed.

(* ------------------------------------------------------------------ *)
(* evaluation side                                                      *)
(* ------------------------------------------------------------------ *)
Section EvalSide.
Variables (o : comp) (pts : list (point (F:=F))).

(* the un-normalised entry (segment m, component ic, point p) of EvalDeriv.construct_array_contraction *)
Definition raw_entry (s : shell F) (m ic : nat) (p : point (F:=F)) : F :=
  fsum (map (fun ae => nth m (snd ae) 0 *
      (norm_prim K (s_l s) (compi s ic) (fst ae)
       * (u K (fst ae) (cx (compi s ic)) (cx o) (fst (fst p) - s_x s)
          * u K (fst ae) (cy (compi s ic)) (cy o) (snd (fst p) - s_y s)
          * u K (fst ae) (cz (compi s ic)) (cz o) (snd p - s_z s))
       * fexp K (- (fst ae * ((fst (fst p) - s_x s) * (fst (fst p) - s_x s)
                              + (snd (fst p) - s_y s) * (snd (fst p) - s_y s)
                              + (snd p - s_z s) * (snd p - s_z s))))))
    (combine (s_exps s) (s_coeffs s))).

Lemma block_general_mk (s : shell F) : comps_ok s ->
  block_with K (gen_mode K false (s_l s) o) (fun c => c) (fexp K) s o pts
  = mk (nseg s) (fun m => mk (ncomp s) (fun ic => map (raw_entry s m ic) pts)).
Proof.
  intros [_ Hle]. unfold block_with. cbv zeta. fold (ncomp s).
  apply mk_ext; intros m Hm. apply mk_ext; intros ic Hic.
  rewrite map_map. apply map_ext; intros p.
  unfold pt_mat. cbv zeta. rewrite nth_mk by exact Hm.
  unfold pt_vals. cbv zeta. rewrite map_map.
  rewrite (nth_map_combine _ (comps_of s) (norms K s) ic (0,0,0)%nat [] 0)
    by (rewrite ?length_norms; auto).
  fold (compi s ic).
  rewrite (nth_norms s ic Hic). unfold raw_entry.
  pose proof (Hle _ (compi_in s ic Hic)) as Hc.
  destruct (compi s ic) as [[ax ay] az] eqn:Ec.
  rewrite combine_map_both, map_map.
  rewrite combine_map_r', map_map.
  rewrite (combine_swap (s_exps s) (s_coeffs s)), map_map.
  apply fsum_ext_in. intros [crow alpha] _. cbn [fst snd].
  unfold prim_data. destruct p as [[px py] pz]. destruct o as [[ox oy] oz]. cbn [fst snd cx cy cz].
  pose proof (axis_row_general K Kf (s_l s) (ox, oy, oz) 0 alpha (px - s_x s) ax ltac:(lia) (Hc 0%nat)) as E0.
  pose proof (axis_row_general K Kf (s_l s) (ox, oy, oz) 1 alpha (py - s_y s) ay ltac:(lia) (Hc 1%nat)) as E1.
  pose proof (axis_row_general K Kf (s_l s) (ox, oy, oz) 2 alpha (pz - s_z s) az ltac:(lia) (Hc 2%nat)) as E2.
  cbn [comp_ax] in E0, E1, E2. rewrite E0, E1, E2. reflexivity.
Qed.

Lemma cart_entry (s : shell F) m ic p :
  ncf s m ic * raw_entry s m ic p = deriv_spec o (cart_desc s m ic) p.
Proof.
  unfold raw_entry, deriv_spec, cart_desc. rewrite map_map, <- fsum_scale.
  apply fsum_ext_in. intros [alpha crow] _. unfold term_val, t_x, t_y, t_z, t_a, t_c.
  cbn [fst snd t_w t_g g_x g_y g_z g_a g_c]. ring.
Qed.

(* vectors over the points: the module the one-index assembly works in *)
Notation vz l := (map (fun _ : F => 0) l).
Notation vadd := (fun x y : list F => map (fun ac : F * F => let '(a, c) := ac in a + c) (combine x y)).
Notation vsc := (fun (t : F) (x : list F) => map (fmul K t) x).

Lemma asum_vec (G : list (F * fdesc)) :
  asum (map (fun _ : point (F:=F) => 0) pts) vadd
       (map (fun td : F * list F => let '(t, x) := td in vsc t x)
            (map (fun p => (fst p, map (deriv_spec o (snd p)) pts)) G))
  = map (fun r => fsum (map (fun p => fst p * deriv_spec o (snd p) r) G)) pts.
Proof.
  unfold asum. induction G as [|[t d] G IH]; cbn [map fold_right fst snd].
  - apply map_ext. reflexivity.
  - rewrite IH. rewrite map_map, combine_map_both, map_map. apply map_ext. intros r.
    now rewrite fsum_cons.
Qed.

(* T applied to the rows (vectors over the points) of a non-empty list of descriptors:
   the rows of the combined descriptors *)
Lemma apply_rows_descs (T : list (list F)) (ds : list fdesc) : ds <> [] ->
  apply_rows (vz (hd [] (map (fun d => map (deriv_spec o d) pts) ds))) vadd vsc
             T (map (fun d => map (deriv_spec o d) pts) ds)
  = map (fun trow => map (deriv_spec o (dcomb trow ds)) pts) T.
Proof.
  intros Hne. unfold apply_rows. apply map_ext. intros trow.
  rewrite combine_map_r'.
  assert (Ez : vz (hd [] (map (fun d => map (deriv_spec o d) pts) ds))
               = map (fun _ : point (F:=F) => 0) pts).
  { destruct ds as [|d0 ds']; [congruence|]. cbn [map hd]. now rewrite map_map. }
  rewrite Ez, asum_vec. apply map_ext. intros r. now rewrite deriv_spec_dcomb.
Qed.

Lemma shell_rows_descr (s : shell F) : comps_ok s ->
  shell_rows K (fun x => x) (s_sph s) (shell_transform K s) (norm_cont K s)
    (block_with K (gen_mode K false (s_l s) o) (fun c => c) (fexp K) s o pts)
  = map (fun d => map (deriv_spec o d) pts) (descr s).
Proof.
  intros Hok. rewrite block_general_mk by exact Hok. rewrite norm_cont_mk.
  unfold shell_rows. cbv zeta.
  assert (Enorm : normalise1 K (mk (nseg s) (fun m => mk (ncomp s) (ncf s m)))
            (mk (nseg s) (fun m => mk (ncomp s) (fun ic => map (raw_entry s m ic) pts)))
          = mk (nseg s) (fun m => map (fun d => map (deriv_spec o d) pts) (mk (ncomp s) (cart_desc s m)))).
  { unfold normalise1. rewrite combine_mk, map_mk'. apply mk_ext; intros m Hm.
    rewrite combine_mk, !map_mk'. apply mk_ext; intros ic Hic.
    rewrite map_map. apply map_ext. intros p. apply cart_entry. }
  rewrite Enorm. unfold descr, seg_descs. rewrite concat_map_map.
  destruct (s_sph s).
  - f_equal. rewrite !map_mk'. apply mk_ext; intros m Hm.
    rewrite map_map_id. rewrite map_map.
    apply apply_rows_descs.
    pose proof (ncomp_pos s Hok). destruct (ncomp s); [lia|]. discriminate.
  - now rewrite map_mk'.
Qed.

(* (i) evaluation model = eval of the descriptors, same order, all shells / l / K / M / types *)
Theorem same_function_eval (basis : list (shell F)) :
  Forall comps_ok basis ->
  evaluate_deriv_basis_model K basis pts o None General
  = Some (map (fun d => map (deriv_spec o d) pts) (descr_basis basis)).
Proof.
  intros Hok. unfold evaluate_deriv_basis_model. cbn [accepts]. f_equal.
  unfold one_index. unfold descr_basis. rewrite concat_map_map, !map_map. f_equal.
  apply map_ext_in. intros s Hs. cbn [prep_fast p_shell p_T p_norm mode_of].
  rewrite Forall_forall in Hok. unfold norm_cont_diag. apply shell_rows_descr. now apply Hok.
Qed.

(* with a transformation matrix (tensordot(transform, array, (1, 0))): the rows are the values of
   the combined descriptors sum_k T[i][k] bf_k *)
Theorem same_function_eval_transformed (basis : list (shell F)) (T : list (list F)) :
  Forall comps_ok basis -> descr_basis basis <> [] ->
  evaluate_deriv_basis_model K basis pts o (Some T) General
  = Some (map (fun trow => map (deriv_spec o (dcomb trow (descr_basis basis))) pts) T).
Proof.
  intros Hok Hne.
  pose proof (same_function_eval basis Hok) as E. unfold evaluate_deriv_basis_model in *.
  cbn [accepts] in *. f_equal. injection E as E.
  set (blocks := map _ basis) in *.
  change (one_index K (fun x => x) blocks (Some T))
    with (apply_rows (vz (hd [] (one_index K (fun x => x) blocks None))) vadd vsc
            (map (map (fun x : F => x)) T) (one_index K (fun x => x) blocks None)).
  assert (E' : one_index K (fun x => x) blocks None
               = map (fun d => map (deriv_spec o d) pts) (descr_basis basis)) by exact E.
  rewrite E', map_map_id. now apply apply_rows_descs.
Qed.
End EvalSide.

Theorem same_function_eval_values (basis : list (shell F)) pts :
  Forall comps_ok basis ->
  evaluate_basis_model K basis pts None = map (fun d => map (eval_spec d) pts) (descr_basis basis).
Proof.
  intros Hok. pose proof (same_function_eval (0,0,0)%nat pts basis Hok) as E.
  unfold evaluate_deriv_basis_model in E. cbn [accepts] in E. injection E as E. exact E.
Qed.

(* ------------------------------------------------------------------ *)
(* integral side: bilinear pairing of descriptors                       *)
(* ------------------------------------------------------------------ *)
(* sum_{t1 in d1} sum_{t2 in d2} w1 w2 I(t1, t2), I a function of the two primitives only *)
Definition pair_spec (Ip : gprim -> gprim -> F) (d1 d2 : fdesc) : F :=
  fsum (map (fun t1 => fsum (map (fun t2 => t_w t1 * t_w t2 * Ip (t_g t1) (t_g t2)) d2)) d1).

Lemma pair_spec_flip Ip d1 d2 : pair_spec Ip d1 d2 = pair_spec (fun x y => Ip y x) d2 d1.
Proof.
  unfold pair_spec. rewrite fsum_swap. apply fsum_ext_in; intros t2 _.
  apply fsum_ext_in; intros t1 _. ring.
Qed.

Lemma pair_spec_app_l Ip d d' d2 : pair_spec Ip (d ++ d') d2 = pair_spec Ip d d2 + pair_spec Ip d' d2.
Proof. unfold pair_spec. now rewrite map_app, fsum_app. Qed.

Lemma pair_spec_dscale_l Ip c d d2 : pair_spec Ip (dscale c d) d2 = c * pair_spec Ip d d2.
Proof.
  unfold pair_spec, dscale. rewrite map_map, <- fsum_scale. apply fsum_ext_in; intros t1 _.
  cbn [t_w t_g]. rewrite <- fsum_scale. apply fsum_ext_in; intros t2 _. ring.
Qed.

Lemma pair_spec_dcomb_l Ip trow ds d2 :
  pair_spec Ip (dcomb trow ds) d2 = fsum (map (fun p => fst p * pair_spec Ip (snd p) d2) (combine trow ds)).
Proof.
  unfold dcomb. induction (combine trow ds) as [|[t d] L IH]; cbn [map concat fst snd]; [reflexivity|].
  now rewrite pair_spec_app_l, pair_spec_dscale_l, fsum_cons, IH.
Qed.

Lemma pair_spec_dcomb_r Ip d1 trow ds :
  pair_spec Ip d1 (dcomb trow ds) = fsum (map (fun p => fst p * pair_spec Ip d1 (snd p)) (combine trow ds)).
Proof.
  rewrite pair_spec_flip, pair_spec_dcomb_l. apply fsum_ext_in; intros p _.
  now rewrite (pair_spec_flip Ip d1 (snd p)).
Qed.

Lemma pair_spec_sym_on Ip d1 d2 :
  (forall t1 t2, In t1 d1 -> In t2 d2 -> Ip (t_g t1) (t_g t2) = Ip (t_g t2) (t_g t1)) ->
  pair_spec Ip d1 d2 = pair_spec Ip d2 d1.
Proof.
  intros H. rewrite pair_spec_flip. unfold pair_spec. apply fsum_ext_in; intros t2 H2.
  apply fsum_ext_in; intros t1 H1. now rewrite (H t1 t2 H1 H2).
Qed.

Lemma pair_spec_sym Ip d1 d2 : (forall x y, Ip x y = Ip y x) -> pair_spec Ip d1 d2 = pair_spec Ip d2 d1.
Proof. intros H. apply pair_spec_sym_on. intros. apply H. Qed.

Lemma pair_spec_maps {A B} Ip (f : A -> pterm) (g : B -> pterm) la lb :
  pair_spec Ip (map f la) (map g lb)
  = fsum (map (fun a => fsum (map (fun b => t_w (f a) * t_w (g b) * Ip (t_g (f a)) (t_g (g b))) lb)) la).
Proof. unfold pair_spec. rewrite map_map. apply fsum_ext_in; intros a _. now rewrite map_map. Qed.

(* tensordot of a transform row with entries that are pairings = pairing with the combined descriptor *)
Lemma lcomb_l Ip trow L (g : nat -> F) (cd : nat -> fdesc) d2 :
  (forall c, (c < L)%nat -> g c = pair_spec Ip (cd c) d2) ->
  lcomb 0 (fadd K) (fmul K) trow L g = pair_spec Ip (dcomb trow (mk L cd)) d2.
Proof.
  intros H. rewrite pair_spec_dcomb_l. unfold lcomb, mk. rewrite combine_map_r', map_map.
  change (asum 0 (fadd K)) with fsum. apply fsum_ext_in. intros [t c] Hin. cbn [fst snd].
  rewrite H; [reflexivity|]. eapply in_combine_seq. exact Hin.
Qed.

Lemma lcomb_r Ip trow L (g : nat -> F) d1 (cd : nat -> fdesc) :
  (forall c, (c < L)%nat -> g c = pair_spec Ip d1 (cd c)) ->
  lcomb 0 (fadd K) (fmul K) trow L g = pair_spec Ip d1 (dcomb trow (mk L cd)).
Proof.
  intros H. rewrite pair_spec_dcomb_r. unfold lcomb, mk. rewrite combine_map_r', map_map.
  change (asum 0 (fadd K)) with fsum. apply fsum_ext_in. intros [t c] Hin. cbn [fst snd].
  rewrite H; [reflexivity|]. eapply in_combine_seq. exact Hin.
Qed.

Lemma combine3 {A B C D} (g : A -> B) (h : A -> C) (l : list A) (l2 : list D) :
  combine (map g l) (combine (map h l) l2) = map (fun p => (g (fst p), (h (fst p), snd p))) (combine l l2).
Proof. revert l2; induction l as [|a l IH]; intros [|b l2]; cbn; [reflexivity..|]. now rewrite IH. Qed.

Section Pair.
Variables (sa sb : shell F).

(* every two-index kernel hands [block_of] the (K_b, K_a) matrices of primitive integrals of one
   pair of components: here as a function J alpha beta ca cb of the two exponents *)
Section Kernel.
Variable J : F -> F -> comp -> comp -> F.

Definition pfJ (ca cb : comp) : list (list F) :=
  map (fun beta => map (fun alpha => J alpha beta ca cb) (s_exps sa)) (s_exps sb).

(* the defining double sum over the primitives (coefficient x primitive norm on both sides) *)
Definition ES (ma ia mb ib : nat) : F :=
  fsum (map (fun bq =>
      fsum (map (fun ap => J (fst ap) (fst bq) (compi sa ia) (compi sb ib)
                           * norm_prim K (s_l sa) (compi sa ia) (fst ap) * nth ma (snd ap) 0)
                (combine (s_exps sa) (s_coeffs sa)))
      * norm_prim K (s_l sb) (compi sb ib) (fst bq) * nth mb (snd bq) 0)
    (combine (s_exps sb) (s_coeffs sb))).

Lemma entry_sum_pfJ ma ia mb ib : (ia < ncomp sa)%nat -> (ib < ncomp sb)%nat ->
  entry_sum K sa sb (pfJ (compi sa ia) (compi sb ib)) (nth ia (norms K sa) []) (nth ib (norms K sb) []) ma mb
  = ES ma ia mb ib.
Proof.
  intros Ha Hb. rewrite (nth_norms sa ia Ha), (nth_norms sb ib Hb). unfold entry_sum, pfJ, ES.
  rewrite combine3, map_map. apply fsum_ext_in; intros [beta crow_b] _. cbn [fst snd].
  now rewrite combine3, map_map.
Qed.
End Kernel.

Lemma block_of_blk4 pf :
  block_of K sa sb pf = blk4 (nseg sa) (ncomp sa) (nseg sb) (ncomp sb) (fun ma ia mb ib =>
    entry_sum K sa sb (pf (compi sa ia) (compi sb ib)) (nth ia (norms K sa) []) (nth ib (norms K sb) []) ma mb).
Proof.
  assert (E : block_of K sa sb pf = blk4 (nseg sa) (ncomp sa) (nseg sb) (ncomp sb) (fun ma ia mb ib =>
                nth ib (nth mb (nth ia (nth ma (block_of K sa sb pf) []) []) []) 0)).
  { unfold block_of at 1. cbv zeta. rewrite !combine_length, !length_norms, !Nat.min_id.
    fold (ncomp sa) (ncomp sb). apply blk4_ext. intros ma ia mb ib Hma Hia Hmb Hib.
    unfold block_of. cbv zeta. rewrite !combine_length, !length_norms, !Nat.min_id.
    fold (ncomp sa) (ncomp sb).
    rewrite (nth_mk _ _ _ ma Hma), (nth_mk _ _ _ ia Hia), (nth_mk _ _ _ mb Hmb), (nth_mk _ _ _ ib Hib).
    reflexivity. }
  rewrite E. apply blk4_ext. intros ma ia mb ib Hma Hia Hmb Hib.
  now apply block_of_entry.
Qed.

Lemma block_of_ext pf pf' : (forall ca cb, pf ca cb = pf' ca cb) -> block_of K sa sb pf = block_of K sa sb pf'.
Proof. intros H. rewrite !block_of_blk4. apply blk4_ext. intros. now rewrite H. Qed.

Lemma block_of_pfJ J :
  block_of K sa sb (pfJ J) = blk4 (nseg sa) (ncomp sa) (nseg sb) (ncomp sb) (ES J).
Proof. rewrite block_of_blk4. apply blk4_ext. intros. now apply entry_sum_pfJ. Qed.

(* ---- the processed block is the table of pairings of the descriptors ---- *)
Definition gp (s : shell F) (alpha : F) (ic : nat) : gprim := mkG (s_x s) (s_y s) (s_z s) alpha (compi s ic).

Section Processed.
Variables (J : F -> F -> comp -> comp -> F) (Ip : gprim -> gprim -> F).
(* the kernel's primitive integral is I of the two primitives *)
Hypothesis HJ : forall alpha beta ia ib,
  In alpha (s_exps sa) -> In beta (s_exps sb) -> (ia < ncomp sa)%nat -> (ib < ncomp sb)%nat ->
  J alpha beta (compi sa ia) (compi sb ib) = Ip (gp sa alpha ia) (gp sb beta ib).

Lemma core_entry ma ia mb ib : (ia < ncomp sa)%nat -> (ib < ncomp sb)%nat ->
  (ncf sa ma ia * ncf sb mb ib) * ES J ma ia mb ib = pair_spec Ip (cart_desc sa ma ia) (cart_desc sb mb ib).
Proof.
  intros Ha Hb. unfold cart_desc. rewrite pair_spec_maps, fsum_swap. unfold ES.
  rewrite <- fsum_scale. apply fsum_ext_in; intros [beta crow_b] Hinb. cbn [fst snd t_w t_g].
  transitivity ((ncf sa ma ia * ncf sb mb ib * norm_prim K (s_l sb) (compi sb ib) beta * nth mb crow_b 0)
                * fsum (map (fun ap => J (fst ap) beta (compi sa ia) (compi sb ib)
                                       * norm_prim K (s_l sa) (compi sa ia) (fst ap) * nth ma (snd ap) 0)
                            (combine (s_exps sa) (s_coeffs sa)))); [ring|].
  rewrite <- fsum_scale. apply fsum_ext_in; intros [alpha crow_a] Hina. cbn [fst snd].
  rewrite (HJ alpha beta ia ib (in_combine_l _ _ _ _ Hina) (in_combine_l _ _ _ _ Hinb) Ha Hb).
  unfold gp. ring.
Qed.

(* one entry after normalisation and the per-shell transforms *)
Lemma processed_entry ma r1 mb r2 : (r1 < nrows sa)%nat -> (r2 < nrows sb)%nat ->
  eR 0 (fadd K) (fmul K) (s_sph sb) (shell_transform K sb) (ncomp sb)
    (eL 0 (fadd K) (fmul K) (s_sph sa) (shell_transform K sa) (ncomp sa)
       (fun ma ia mb ib => (ncf sa ma ia * ncf sb mb ib) * ES J ma ia mb ib)) ma r1 mb r2
  = pair_spec Ip (dd sa ma r1) (dd sb mb r2).
Proof.
  intros Hr1 Hr2. unfold eR, eL, dd, nrows, rows_of in *.
  destruct (s_sph sa), (s_sph sb).
  - apply lcomb_r. intros c Hc. apply lcomb_l. intros c1 Hc1. now apply core_entry.
  - apply lcomb_l. intros c1 Hc1. now apply core_entry.
  - apply lcomb_r. intros c Hc. now apply core_entry.
  - now apply core_entry.
Qed.

Theorem processed_block_descr (blk : list (list (list (list F)))) :
  comps_ok sa ->
  blk = blk4 (nseg sa) (ncomp sa) (nseg sb) (ncomp sb) (ES J) ->
  shell_block K 0 (fadd K) (fmul K) (s_sph sa) (s_sph sb) (shell_transform K sa) (shell_transform K sb)
    (norm_cont K sa) (norm_cont K sb) blk
  = map (fun d1 => map (fun d2 => pair_spec Ip d1 d2) (descr sb)) (descr sa).
Proof.
  intros Hok ->. rewrite (norm_cont_mk sa), (norm_cont_mk sb).
  rewrite shell_block_blk4 by (now apply ncomp_pos).
  rewrite (descr_mk sa), (descr_mk sb), outer_flat4. fold (nrows sa) (nrows sb).
  apply flat4_ext. intros ma r1 mb r2 Hma Hr1 Hmb Hr2. now apply processed_entry.
Qed.
End Processed.
End Pair.

(* ------------------------------------------------------------------ *)
(* the kernels: overlap / moments (Model/MomentInt.v)                   *)
(* ------------------------------------------------------------------ *)
(* one axis: the E-functional value that (B1) reads as
   int (x-C)^k (x-A)^i (x-B)^j exp(-alpha (x-A)^2) exp(-beta (x-B)^2) dx  (C01_table_exact) *)
Definition mom1 (Cx Ax Bx alpha beta : F) (k i j : nat) : F :=
  base K Ax Bx alpha beta
  * T3 K (1 / twop K alpha beta) (PA K Ax Bx alpha beta) (PB K Ax Bx alpha beta) (PC K Ax Bx Cx alpha beta) k i j.

Definition Imom (Cx Cy Cz : F) (o : comp) (g1 g2 : gprim) : F :=
  mom1 Cx (g_x g1) (g_x g2) (g_a g1) (g_a g2) (cx o) (cx (g_c g1)) (cx (g_c g2))
  * mom1 Cy (g_y g1) (g_y g2) (g_a g1) (g_a g2) (cy o) (cy (g_c g1)) (cy (g_c g2))
  * mom1 Cz (g_z g1) (g_z g2) (g_a g1) (g_a g2) (cz o) (cz (g_c g1)) (cz (g_c g2)).
Definition Iov : gprim -> gprim -> F := Imom 0 0 0 (0, 0, 0)%nat.

Lemma mom1_sym Cx Ax Bx alpha beta k i j : mom1 Cx Ax Bx alpha beta k i j = mom1 Cx Bx Ax beta alpha k j i.
Proof.
  unfold mom1. rewrite (T3_swap K Kf).
  assert (Ep : psum K beta alpha = psum K alpha beta) by (unfold psum; ring).
  assert (Ew : Pw K Bx Ax beta alpha = Pw K Ax Bx alpha beta).
  { unfold Pw. rewrite Ep. f_equal. ring. }
  assert (Et : twop K beta alpha = twop K alpha beta) by (unfold twop; now rewrite Ep).
  assert (Eb : base K Bx Ax beta alpha = base K Ax Bx alpha beta).
  { unfold base, hmean. rewrite Ep. f_equal. f_equal. f_equal.
    transitivity (beta * alpha / psum K alpha beta * ((Ax - Bx) * (Ax - Bx))); [ring|].
    f_equal. f_equal. ring. }
  rewrite Eb, Et. unfold PA, PB, PC. now rewrite Ew.
Qed.

Lemma Imom_sym Cx Cy Cz o g1 g2 : Imom Cx Cy Cz o g1 g2 = Imom Cx Cy Cz o g2 g1.
Proof.
  unfold Imom.
  rewrite (mom1_sym Cx (g_x g1)), (mom1_sym Cy (g_y g1)), (mom1_sym Cz (g_z g1)). reflexivity.
Qed.

Lemma omax_ge o orders : In o orders ->
  (cx o <= omax orders)%nat /\ (cy o <= omax orders)%nat /\ (cz o <= omax orders)%nat.
Proof.
  induction orders as [|[[ox oy] oz] r IH]; intros Hin; [destruct Hin|].
  cbn [omax fold_right]. fold (omax r). destruct Hin as [<-|Hin].
  - cbn [cx cy cz fst snd]. lia.
  - specialize (IH Hin). lia.
Qed.

(* exponent pairs whose sum can be divided by *)
Definition exps_ok (sa sb : shell F) : Prop :=
  forall alpha beta, In alpha (s_exps sa) -> In beta (s_exps sb) -> psum K alpha beta <> 0.

Section MomentKernel.
Variables (Cx Cy Cz : F) (orders : list comp) (sa sb : shell F).
Hypothesis H2 : 1 + 1 <> 0.
Hypothesis Hoka : comps_ok sa.
Hypothesis Hokb : comps_ok sb.
Hypothesis Hexp : exps_ok sa sb.

Definition Jmm (o : comp) (alpha beta : F) (ca cb : comp) : F :=
  prim3 K (table K (s_x sa) (s_x sb) Cx alpha beta (s_l sa) (s_l sb) (omax orders),
           table K (s_y sa) (s_y sb) Cy alpha beta (s_l sa) (s_l sb) (omax orders),
           table K (s_z sa) (s_z sb) Cz alpha beta (s_l sa) (s_l sb) (omax orders)) o ca cb.

Lemma mm_block_pfJ :
  mm_block K Cx Cy Cz orders sa sb = map (fun o => block_of K sa sb (pfJ sa sb (Jmm o))) orders.
Proof.
  unfold mm_block. cbv zeta. apply map_ext. intros o. apply block_of_ext. intros ca cb.
  unfold tabs, pfJ. rewrite map_map. apply map_ext. intros beta. rewrite map_map. reflexivity.
Qed.

Lemma Jmm_spec o alpha beta ia ib :
  In o orders -> In alpha (s_exps sa) -> In beta (s_exps sb) -> (ia < ncomp sa)%nat -> (ib < ncomp sb)%nat ->
  Jmm o alpha beta (compi sa ia) (compi sb ib) = Imom Cx Cy Cz o (gp sa alpha ia) (gp sb beta ib).
Proof.
  intros Ho Ha Hb Hia Hib. unfold Jmm, Imom, gp. cbn [g_x g_y g_z g_a g_c].
  destruct Hoka as [_ Hla]. destruct Hokb as [_ Hlb].
  pose proof (Hla _ (compi_in sa ia Hia)) as Ca. pose proof (Hlb _ (compi_in sb ib Hib)) as Cb.
  destruct (omax_ge o orders Ho) as [Ox [Oy Oz]].
  destruct (compi sa ia) as [[ax ay] az]. destruct (compi sb ib) as [[bx by_] bz].
  destruct o as [[ox oy] oz]. cbn [cx cy cz fst snd] in *.
  unfold prim3. rewrite Hapx. unfold mom1.
  pose proof (Hexp alpha beta Ha Hb) as Hp.
  rewrite (table_correct K Kf (s_x sa) (s_x sb) Cx alpha beta (s_l sa) (s_l sb) (omax orders) Hp H2
             ox bx ax Ox (Cb 0%nat) (Ca 0%nat)).
  rewrite (table_correct K Kf (s_y sa) (s_y sb) Cy alpha beta (s_l sa) (s_l sb) (omax orders) Hp H2
             oy by_ ay Oy (Cb 1%nat) (Ca 1%nat)).
  rewrite (table_correct K Kf (s_z sa) (s_z sb) Cz alpha beta (s_l sa) (s_l sb) (omax orders) Hp H2
             oz bz az Oz (Cb 2%nat) (Ca 2%nat)).
  reflexivity.
Qed.
End MomentKernel.

Notation pblockF := (pblock K 0 (fadd K) (fmul K)).
Definition outer (f : fdesc -> fdesc -> F) (D1 D2 : list fdesc) : list (list F) :=
  map (fun d1 => map (fun d2 => f d1 d2) D2) D1.

Lemma overlap_block_blk4 sa sb :
  overlap_block K sa sb
  = blk4 (nseg sa) (ncomp sa) (nseg sb) (ncomp sb) (ES sa sb (Jmm 0 0 0 [(0,0,0)%nat] sa sb (0,0,0)%nat)).
Proof.
  unfold overlap_block. rewrite mm_block_pfJ. cbn [map hd]. apply block_of_pfJ.
Qed.

(* (ii) the processed overlap block of two shells = table of pairings of their descriptors *)
Theorem same_function_pblock_overlap sa sb :
  1 + 1 <> 0 -> comps_ok sa -> comps_ok sb -> exps_ok sa sb ->
  pblockF (overlap_block K) (prep K sa) (prep K sb) = outer (pair_spec Iov) (descr sa) (descr sb).
Proof.
  intros H2 Hoka Hokb Hexp. unfold pblock, prep. cbn [p_shell p_norm p_T].
  apply (processed_block_descr sa sb (Jmm 0 0 0 [(0,0,0)%nat] sa sb (0,0,0)%nat) Iov).
  - intros alpha beta ia ib Ha Hb Hia Hib.
    apply (Jmm_spec 0 0 0 [(0,0,0)%nat] sa sb H2 Hoka Hokb Hexp); auto. now left.
  - exact Hoka.
  - apply overlap_block_blk4.
Qed.

(* ------------------------------------------------------------------ *)
(* whole matrices: base_two_symm assembly of the pairing tables         *)
(* ------------------------------------------------------------------ *)
Definition dshell : shell F := mkShell F 0 0 0 0 [] [] false [] [].

Lemma nth_prep basis i : (i < length basis)%nat -> nth i (map (prep K) basis) (dummy_p K) = prep K (nth i basis dshell).
Proof.
  intros Hi. rewrite (nth_indep _ (dummy_p K) (prep K dshell)) by (now rewrite map_length).
  apply map_nth.
Qed.

(* any kernel whose processed blocks are pairing tables: the assembled matrix is made of these tables *)
Lemma two_symm_of_blocks (blockf : shell F -> shell F -> list (list (list (list F)))) (Ip : gprim -> gprim -> F)
      (basis : list (shell F)) :
  (forall sa sb, In sa basis -> In sb basis ->
     pblockF blockf (prep K sa) (prep K sb) = outer (pair_spec Ip) (descr sa) (descr sb)) ->
  two_symm_integral K 0 (fadd K) (fmul K) blockf basis None
  = two_symm_blocks 0 (length basis) (fun i j =>
      outer (pair_spec Ip) (descr (nth i basis dshell)) (descr (nth j basis dshell))).
Proof.
  intros H. rewrite two_symm_integral_unfold. cbv zeta. rewrite map_length.
  apply two_symm_blocks_ext_le. intros i j Hi Hj _.
  rewrite (nth_prep basis i Hi), (nth_prep basis j Hj). apply H; apply nth_In; assumption.
Qed.

(* the mirrored assembly of the tables of a symmetric pairing is the full table over the concatenation *)
Lemma hcat_outer {D} (f : D -> D -> F) (x : list D) (dss : list (list D)) : dss <> [] ->
  hcat (map (fun ds => map (fun a => map (f a) ds) x) dss) = map (fun a => map (f a) (concat dss)) x.
Proof.
  induction dss as [|d0 rest IH]; [congruence|]. intros _. destruct rest as [|d1 rest'].
  - cbn [map hcat concat]. now rewrite app_nil_r.
  - change (hcat (map (fun ds => map (fun a => map (f a) ds) x) (d0 :: d1 :: rest')))
      with (map (fun r12 : list F * list F => let '(r1, r2) := r12 in r1 ++ r2)
              (combine (map (fun a => map (f a) d0) x)
                       (hcat (map (fun ds => map (fun a => map (f a) ds) x) (d1 :: rest'))))).
    rewrite IH by discriminate. rewrite combine_map_both, map_map. apply map_ext. intros a.
    change (concat (d0 :: d1 :: rest')) with (d0 ++ concat (d1 :: rest')).
    rewrite (map_app (f a) d0). reflexivity.
Qed.

Lemma transpose_outer {D} (f : D -> D -> F) (x y : list D) : x <> [] ->
  transpose 0 (map (fun a => map (f a) y) x) = map (fun b => map (fun a => f a b) x) y.
Proof.
  intros Hx. unfold transpose.
  assert (Eh : length (hd [] (map (fun a => map (f a) y) x)) = length y).
  { destruct x as [|a0 x']; [congruence|]. cbn [map hd]. apply map_length. }
  rewrite Eh. destruct y as [|b0 y']; [reflexivity|].
  rewrite (map_as_mk (fun b => map (fun a => f a b) x) (b0 :: y') b0).
  apply mk_ext; intros c Hc. rewrite map_map. apply map_ext; intros a.
  rewrite (nth_indep _ 0 (f a b0)) by (rewrite map_length; exact Hc). now rewrite map_nth.
Qed.

Lemma two_symm_blocks_full {D} (f : D -> D -> F) n (ds : nat -> list D) :
  (forall i j a b, (i < n)%nat -> (j < n)%nat -> In a (ds i) -> In b (ds j) -> f a b = f b a) ->
  (forall i, (i < n)%nat -> ds i <> []) ->
  two_symm_blocks 0 n (fun i j => map (fun a => map (f a) (ds j)) (ds i))
  = map (fun a => map (f a) (concat (mk n ds))) (concat (mk n ds)).
Proof.
  intros Hsym Hne. unfold two_symm_blocks, vcat.
  destruct n as [|n']; [reflexivity|].
  rewrite concat_map_map, map_mk'. f_equal. apply mk_ext; intros i Hi.
  rewrite <- (hcat_outer f (ds i) (mk (S n') ds)) by (unfold mk; cbn; discriminate).
  rewrite map_mk'. f_equal. apply mk_ext; intros j Hj.
  destruct (Nat.leb i j); [reflexivity|].
  rewrite transpose_outer by (now apply Hne). apply map_ext_in; intros b Hb. apply map_ext_in; intros a Ha.
  apply (Hsym j i a b Hj Hi Ha Hb).
Qed.

(* number of functions of a shell: segments x (components | spherical rows) *)
Lemma length_concat_const {B} (l : list (list B)) R :
  (forall x, In x l -> length x = R) -> length (concat l) = (length l * R)%nat.
Proof.
  induction l as [|x l IH]; intros H; [reflexivity|]. cbn [concat length]. rewrite app_length.
  rewrite (H x (or_introl eq_refl)), IH by (intros y Hy; apply H; now right). lia.
Qed.

Lemma descr_length s : length (descr s) = (nseg s * nrows s)%nat.
Proof.
  rewrite descr_mk. rewrite (length_concat_const _ (nrows s)).
  - now rewrite mk_length.
  - intros x Hx. unfold mk in Hx. apply in_map_iff in Hx. destruct Hx as [m [<- _]]. apply mk_length.
Qed.

Lemma nrows_eq s : nrows s = if s_sph s then length (labels_of s) else ncomp s.
Proof.
  unfold nrows, rows_of. destruct (s_sph s); [|reflexivity].
  unfold shell_transform, sph_transform. now rewrite !map_length.
Qed.

(* a shell that has functions at all *)
Definition shell_wf (s : shell F) : Prop :=
  comps_ok s /\ (0 < nseg s)%nat /\ (s_sph s = true -> labels_of s <> []).

Lemma descr_nonempty s : shell_wf s -> descr s <> [].
Proof.
  intros [Hok [Hseg Hlab]] E. apply (f_equal (@length _)) in E. rewrite descr_length, nrows_eq in E.
  cbn [length] in E. pose proof (ncomp_pos s Hok).
  destruct (s_sph s).
  - specialize (Hlab eq_refl). destruct (labels_of s); [congruence|]. cbn [length] in E. lia.
  - lia.
Qed.

Lemma descr_basis_mk basis : descr_basis basis = concat (mk (length basis) (fun i => descr (nth i basis dshell))).
Proof. unfold descr_basis. now rewrite (map_as_mk descr basis dshell). Qed.

(* the exponents of the terms of a shell's descriptors are the shell's exponents *)
Definition dexps_in (s : shell F) (d : fdesc) : Prop := forall t, In t d -> In (g_a (t_g t)) (s_exps s).

Lemma cart_desc_exps s m ic : dexps_in s (cart_desc s m ic).
Proof.
  intros t Ht. unfold cart_desc in Ht. apply in_map_iff in Ht. destruct Ht as [[alpha crow] [<- Hin]].
  cbn [t_g g_a fst]. eapply in_combine_l. exact Hin.
Qed.

Lemma dcomb_exps s trow ds : (forall d, In d ds -> dexps_in s d) -> dexps_in s (dcomb trow ds).
Proof.
  intros H t Ht. unfold dcomb in Ht. apply in_concat in Ht. destruct Ht as [l [Hl Ht]].
  apply in_map_iff in Hl. destruct Hl as [[c d] [<- Hcd]]. cbn [fst snd] in Ht.
  unfold dscale in Ht. apply in_map_iff in Ht. destruct Ht as [t' [<- Ht']]. cbn [t_g].
  apply (H d); [|exact Ht']. eapply in_combine_r. exact Hcd.
Qed.

Lemma descr_exps s d : In d (descr s) -> dexps_in s d.
Proof.
  intros Hd. rewrite descr_mk in Hd. apply in_concat in Hd. destruct Hd as [l [Hl Hd]].
  unfold mk in Hl. apply in_map_iff in Hl. destruct Hl as [m [<- _]].
  unfold mk in Hd. apply in_map_iff in Hd. destruct Hd as [r [<- _]].
  unfold dd. destruct (s_sph s); [|apply cart_desc_exps].
  apply dcomb_exps. intros d' Hd'. unfold mk in Hd'. apply in_map_iff in Hd'. destruct Hd' as [c [<- _]].
  apply cart_desc_exps.
Qed.

Lemma two_symm_full (blockf : shell F -> shell F -> list (list (list (list F)))) (Ip : gprim -> gprim -> F)
      (basis : list (shell F)) :
  (forall sa sb g1 g2, In sa basis -> In sb basis -> In (g_a g1) (s_exps sa) -> In (g_a g2) (s_exps sb) ->
     Ip g1 g2 = Ip g2 g1) ->
  Forall shell_wf basis ->
  (forall sa sb, In sa basis -> In sb basis ->
     pblockF blockf (prep K sa) (prep K sb) = outer (pair_spec Ip) (descr sa) (descr sb)) ->
  two_symm_integral K 0 (fadd K) (fmul K) blockf basis None
  = outer (pair_spec Ip) (descr_basis basis) (descr_basis basis).
Proof.
  intros Hsym Hwf H. rewrite (two_symm_of_blocks blockf Ip basis H). rewrite descr_basis_mk.
  unfold outer. apply (two_symm_blocks_full (pair_spec Ip)).
  - intros i j a b Hi Hj Ha Hb. apply pair_spec_sym_on. intros t1 t2 H1 H2.
    apply (Hsym (nth i basis dshell) (nth j basis dshell)); try (now apply nth_In).
    + now apply (descr_exps _ a Ha).
    + now apply (descr_exps _ b Hb).
  - intros i Hi. apply descr_nonempty. rewrite Forall_forall in Hwf. apply Hwf. now apply nth_In.
Qed.

(* (ii) overlap_integral = the table of pairings of the SAME descriptor list that the evaluation
   model evaluates, in the same order *)
Theorem same_function_overlap (basis : list (shell F)) :
  1 + 1 <> 0 -> Forall shell_wf basis ->
  (forall sa sb, In sa basis -> In sb basis -> exps_ok sa sb) ->
  overlap_integral K basis None = outer (pair_spec Iov) (descr_basis basis) (descr_basis basis).
Proof.
  intros H2 Hwf Hexp. unfold overlap_integral. apply two_symm_full; [|exact Hwf|].
  - intros sa sb x y _ _ _ _. apply Imom_sym.
  - intros sa sb Ha Hb. rewrite Forall_forall in Hwf.
    apply same_function_pblock_overlap; auto; now apply Hwf.
Qed.

(* ------------------------------------------------------------------ *)
(* kinetic energy (Model/DiffOp.v)                                      *)
(* ------------------------------------------------------------------ *)
(* one axis: int phi_a d^k/dx^k phi_b dx as the E-functional expression (C02_diffop_is_derivative_of_right) *)
Definition dk1 (Ax Bx alpha beta : F) (k i j : nat) : F :=
  iterop (Bop K beta) k (Sfun K Ax Bx alpha beta) i j.
Definition Ider (o : comp) (g1 g2 : gprim) : F :=
  dk1 (g_x g1) (g_x g2) (g_a g1) (g_a g2) (cx o) (cx (g_c g1)) (cx (g_c g2))
  * dk1 (g_y g1) (g_y g2) (g_a g1) (g_a g2) (cy o) (cy (g_c g1)) (cy (g_c g2))
  * dk1 (g_z g1) (g_z g2) (g_a g1) (g_a g2) (cz o) (cz (g_c g1)) (cz (g_c g2)).
(* -1/2 int phi_a (d2/dx2 + d2/dy2 + d2/dz2) phi_b *)
Definition Ikin (g1 g2 : gprim) : F :=
  (- (1 / (1 + 1))) * ((Ider (2,0,0)%nat g1 g2 + Ider (0,2,0)%nat g1 g2) + Ider (0,0,2)%nat g1 g2).

Lemma zip4_blk4 (f : F -> F -> F) M1 L1 M2 L2 e1 e2 :
  zip4 f (blk4 M1 L1 M2 L2 e1) (blk4 M1 L1 M2 L2 e2)
  = blk4 M1 L1 M2 L2 (fun ma ia mb ib => f (e1 ma ia mb ib) (e2 ma ia mb ib)).
Proof.
  unfold zip4, blk4. rewrite combine_mk, map_mk'. apply mk_ext; intros ma _.
  rewrite combine_mk, map_mk'. apply mk_ext; intros ia _.
  rewrite combine_mk, map_mk'. apply mk_ext; intros mb _.
  rewrite combine_mk, map_mk'. apply mk_ext; intros ib _. reflexivity.
Qed.

Lemma map4_blk4 (f : F -> F) M1 L1 M2 L2 e :
  map4 f (blk4 M1 L1 M2 L2 e) = blk4 M1 L1 M2 L2 (fun ma ia mb ib => f (e ma ia mb ib)).
Proof.
  unfold map4, blk4. rewrite map_mk'. apply mk_ext; intros ma _. rewrite map_mk'. apply mk_ext; intros ia _.
  rewrite map_mk'. apply mk_ext; intros mb _. now rewrite map_mk'.
Qed.

Lemma ES_lin3 sa sb c (J1 J2 J3 : F -> F -> comp -> comp -> F) ma ia mb ib :
  c * ((ES sa sb J1 ma ia mb ib + ES sa sb J2 ma ia mb ib) + ES sa sb J3 ma ia mb ib)
  = ES sa sb (fun alpha beta ca cb => c * ((J1 alpha beta ca cb + J2 alpha beta ca cb) + J3 alpha beta ca cb))
       ma ia mb ib.
Proof.
  unfold ES. rewrite <- !fsum_add, <- fsum_scale. apply fsum_ext_in; intros bq _.
  set (Y := norm_prim K (s_l sb) (compi sb ib) (fst bq)). set (Z := nth mb (snd bq) 0).
  match goal with |- c * ((?S1 * Y * Z + ?S2 * Y * Z) + ?S3 * Y * Z) = ?R * Y * Z =>
    transitivity ((c * ((S1 + S2) + S3)) * Y * Z); [ring|] end.
  f_equal. f_equal. rewrite <- !fsum_add, <- fsum_scale. apply fsum_ext_in; intros ap _. ring.
Qed.

Section KineticKernel.
Variables (sa sb : shell F).
Hypothesis H2 : 1 + 1 <> 0.
Hypothesis Hoka : comps_ok sa.
Hypothesis Hokb : comps_ok sb.
Hypothesis Hexp : exps_ok sa sb.

Definition Jd (o : comp) (alpha beta : F) (ca cb : comp) : F :=
  prim3 K (dtable K (s_x sa) (s_x sb) alpha beta (s_l sa) (s_l sb) 2,
           dtable K (s_y sa) (s_y sb) alpha beta (s_l sa) (s_l sb) 2,
           dtable K (s_z sa) (s_z sb) alpha beta (s_l sa) (s_l sb) 2) o ca cb.
Definition Jkin (alpha beta : F) (ca cb : comp) : F :=
  (- (1 / (1 + 1))) * ((Jd (2,0,0)%nat alpha beta ca cb + Jd (0,2,0)%nat alpha beta ca cb)
                       + Jd (0,0,2)%nat alpha beta ca cb).

Lemma diffop_block_pfJ :
  diffop_block K [(2,0,0); (0,2,0); (0,0,2)]%nat sa sb
  = [block_of K sa sb (pfJ sa sb (Jd (2,0,0)%nat)); block_of K sa sb (pfJ sa sb (Jd (0,2,0)%nat));
     block_of K sa sb (pfJ sa sb (Jd (0,0,2)%nat))].
Proof.
  unfold diffop_block. cbv zeta. change (omax [(2,0,0); (0,2,0); (0,0,2)]%nat) with 2%nat. cbn [map].
  assert (E : forall o, block_of K sa sb (fun ca cb => map (map (fun t => prim3 K t o ca cb)) (dtabs K 2 sa sb))
                        = block_of K sa sb (pfJ sa sb (Jd o))).
  { intros o. apply block_of_ext. intros ca cb. unfold dtabs, pfJ. rewrite map_map. apply map_ext.
    intros beta. now rewrite map_map. }
  now rewrite !E.
Qed.

Lemma kinetic_block_blk4 :
  kinetic_block K sa sb = blk4 (nseg sa) (ncomp sa) (nseg sb) (ncomp sb) (ES sa sb Jkin).
Proof.
  unfold kinetic_block. rewrite diffop_block_pfJ, !block_of_pfJ, !zip4_blk4, map4_blk4.
  apply blk4_ext. intros ma ia mb ib _ _ _ _. apply ES_lin3.
Qed.

Lemma Jd_spec o alpha beta ia ib :
  (cx o <= 2)%nat -> (cy o <= 2)%nat -> (cz o <= 2)%nat ->
  In alpha (s_exps sa) -> In beta (s_exps sb) -> (ia < ncomp sa)%nat -> (ib < ncomp sb)%nat ->
  Jd o alpha beta (compi sa ia) (compi sb ib) = Ider o (gp sa alpha ia) (gp sb beta ib).
Proof.
  intros Ox Oy Oz Ha Hb Hia Hib. unfold Jd, Ider, gp, dk1. cbn [g_x g_y g_z g_a g_c].
  destruct Hoka as [_ Hla]. destruct Hokb as [_ Hlb].
  pose proof (Hla _ (compi_in sa ia Hia)) as Ca. pose proof (Hlb _ (compi_in sb ib Hib)) as Cb.
  destruct (compi sa ia) as [[ax ay] az]. destruct (compi sb ib) as [[bx by_] bz].
  destruct o as [[ox oy] oz]. cbn [cx cy cz fst snd] in *.
  unfold prim3. rewrite Hapx.
  pose proof (Hexp alpha beta Ha Hb) as Hp.
  rewrite (diffop_slice_is_deriv_b K Kf (s_x sa) (s_x sb) alpha beta (s_l sa) (s_l sb) 2 Hp H2
             ox bx ax Ox (Cb 0%nat) (Ca 0%nat)).
  rewrite (diffop_slice_is_deriv_b K Kf (s_y sa) (s_y sb) alpha beta (s_l sa) (s_l sb) 2 Hp H2
             oy by_ ay Oy (Cb 1%nat) (Ca 1%nat)).
  rewrite (diffop_slice_is_deriv_b K Kf (s_z sa) (s_z sb) alpha beta (s_l sa) (s_l sb) 2 Hp H2
             oz bz az Oz (Cb 2%nat) (Ca 2%nat)).
  reflexivity.
Qed.

Lemma Jkin_spec alpha beta ia ib :
  In alpha (s_exps sa) -> In beta (s_exps sb) -> (ia < ncomp sa)%nat -> (ib < ncomp sb)%nat ->
  Jkin alpha beta (compi sa ia) (compi sb ib) = Ikin (gp sa alpha ia) (gp sb beta ib).
Proof.
  intros Ha Hb Hia Hib. unfold Jkin, Ikin.
  rewrite !Jd_spec by (auto; cbn [cx cy cz fst snd]; lia). reflexivity.
Qed.
End KineticKernel.

Theorem same_function_pblock_kinetic sa sb :
  1 + 1 <> 0 -> comps_ok sa -> comps_ok sb -> exps_ok sa sb ->
  pblockF (kinetic_block K) (prep K sa) (prep K sb) = outer (pair_spec Ikin) (descr sa) (descr sb).
Proof.
  intros H2 Hoka Hokb Hexp. unfold pblock, prep. cbn [p_shell p_norm p_T].
  apply (processed_block_descr sa sb (Jkin sa sb) Ikin).
  - intros alpha beta ia ib Ha Hb Hia Hib. now apply Jkin_spec.
  - exact Hoka.
  - apply kinetic_block_blk4.
Qed.

(* kinetic_energy_integral: evaluated blocks i <= j are the pairing tables of (bf_i, bf_j) with the
   primitive pairing Ikin = E-functional of  -1/2 phi_a Laplacian(phi_b); the blocks below the diagonal are
   their transposes (base_two_symm.py:171-181).  (The table over the whole of descr_basis, as for the
   overlap, needs the symmetry Ikin(a,b) = Ikin(b,a), i.e. integration by parts on both sides: see
   same_function_kinetic below.) *)
Theorem same_function_kinetic_blocks (basis : list (shell F)) :
  1 + 1 <> 0 -> Forall comps_ok basis ->
  (forall sa sb, In sa basis -> In sb basis -> exps_ok sa sb) ->
  kinetic_integral K basis None
  = two_symm_blocks 0 (length basis) (fun i j =>
      outer (pair_spec Ikin) (descr (nth i basis dshell)) (descr (nth j basis dshell))).
Proof.
  intros H2 Hok Hexp. unfold kinetic_integral. apply two_symm_of_blocks.
  intros sa sb Ha Hb. rewrite Forall_forall in Hok. apply same_function_pblock_kinetic; auto.
Qed.

(* ---- symmetry of the kinetic pairing: integration by parts on both sides ---- *)
Lemma Sfun_swap Ax Bx alpha beta i j : Sfun K Bx Ax beta alpha j i = Sfun K Ax Bx alpha beta i j.
Proof.
  pose proof (mom1_sym 0 Bx Ax beta alpha 0 j i) as E. unfold mom1 in E. unfold Sfun.
  unfold T3 in *. rewrite !(S3_0_indep_c K) in E. rewrite !(S3_0_indep_c K). exact E.
Qed.

Lemma dk1_swap0 Ax Bx alpha beta i j : dk1 Bx Ax beta alpha 0 j i = dk1 Ax Bx alpha beta 0 i j.
Proof. unfold dk1. cbn [iterop]. apply Sfun_swap. Qed.

Lemma dk1_swap2 Ax Bx alpha beta i j : psum K alpha beta <> 0 -> 1 + 1 <> 0 ->
  dk1 Bx Ax beta alpha 2 j i = dk1 Ax Bx alpha beta 2 i j.
Proof.
  intros Hp H2. unfold dk1.
  rewrite <- (ibp_iter K Kf Ax Bx alpha beta Hp H2 2 i j).
  cbn [iterop]. unfold Bop, negA. rewrite !(Sfun_swap Ax Bx alpha beta). ring.
Qed.

Lemma Ikin_sym g1 g2 : psum K (g_a g1) (g_a g2) <> 0 -> 1 + 1 <> 0 -> Ikin g1 g2 = Ikin g2 g1.
Proof.
  intros Hp H2. unfold Ikin, Ider. cbn [cx cy cz fst snd].
  rewrite <- !(dk1_swap0 (g_x g1) (g_x g2)), <- !(dk1_swap0 (g_y g1) (g_y g2)), <- !(dk1_swap0 (g_z g1) (g_z g2)).
  rewrite <- (dk1_swap2 (g_x g1) (g_x g2) _ _ _ _ Hp H2), <- (dk1_swap2 (g_y g1) (g_y g2) _ _ _ _ Hp H2),
          <- (dk1_swap2 (g_z g1) (g_z g2) _ _ _ _ Hp H2).
  reflexivity.
Qed.

(* (ii) kinetic_energy_integral = table of the pairings Ikin over the same descriptor list, same order *)
Theorem same_function_kinetic (basis : list (shell F)) :
  1 + 1 <> 0 -> Forall shell_wf basis ->
  (forall sa sb, In sa basis -> In sb basis -> exps_ok sa sb) ->
  kinetic_integral K basis None = outer (pair_spec Ikin) (descr_basis basis) (descr_basis basis).
Proof.
  intros H2 Hwf Hexp. unfold kinetic_integral. apply two_symm_full; [|exact Hwf|].
  - intros sa sb g1 g2 Ha Hb H1 H3. apply Ikin_sym; [|exact H2]. now apply (Hexp sa sb Ha Hb).
  - intros sa sb Ha Hb. rewrite Forall_forall in Hwf.
    apply same_function_pblock_kinetic; auto; now apply Hwf.
Qed.

(* ------------------------------------------------------------------ *)
(* multipole moments: the trailing axis (one entry per requested order)  *)
(* ------------------------------------------------------------------ *)
Notation vz0 := (@vzero F).
Notation vad := (vadd K).
Notation vsc' := (vscale K).
Definition okv (n : nat) (v : list F) : Prop := length v = n \/ v = [].

Lemma nth_nil0 d : nth d (@nil F) 0 = 0.
Proof. destruct d; reflexivity. Qed.

Lemma nth_vscale d t v : nth d (vsc' t v) 0 = t * nth d v 0.
Proof.
  unfold vscale. destruct (Nat.lt_ge_cases d (length v)) as [H|H].
  - rewrite (nth_indep _ 0 (t * 0)) by (now rewrite map_length). apply (map_nth (fmul K t)).
  - rewrite !nth_overflow by (rewrite ?map_length; lia). ring.
Qed.

Lemma okv_vscale n t v : okv n v -> okv n (vsc' t v).
Proof. intros [H| ->]; [left; unfold vscale; now rewrite map_length|right; reflexivity]. Qed.

Lemma vadd_spec n d x y : okv n x -> okv n y ->
  nth d (vad x y) 0 = nth d x 0 + nth d y 0 /\ okv n (vad x y).
Proof.
  intros Hx Hy. destruct x as [|a x'].
  - cbn [vadd]. split; [rewrite nth_nil0; ring|exact Hy].
  - destruct y as [|b y'].
    + cbn [vadd]. split; [rewrite nth_nil0; ring|exact Hx].
    + destruct Hx as [Hx|Hx]; [|discriminate]. destruct Hy as [Hy|Hy]; [|discriminate].
      unfold vadd. split.
      * destruct (Nat.lt_ge_cases d n) as [H|H].
        -- rewrite (nth_map_combine _ (a :: x') (b :: y') d 0 0 0) by lia. reflexivity.
        -- rewrite !nth_overflow by (rewrite ?map_length, ?combine_length; lia). ring.
      * left. rewrite map_length, combine_length. lia.
Qed.

Lemma asum_vec_nth n d (L : list (F * list F)) : (forall p, In p L -> okv n (snd p)) ->
  nth d (asum vz0 vad (map (fun p => vsc' (fst p) (snd p)) L)) 0 = fsum (map (fun p => fst p * nth d (snd p) 0) L)
  /\ okv n (asum vz0 vad (map (fun p => vsc' (fst p) (snd p)) L)).
Proof.
  induction L as [|[t v] L IH]; intros H.
  - cbn. split; [apply nth_nil0|now right].
  - cbn [map asum fold_right fst snd]. destruct IH as [IH1 IH2]; [intros p Hp; apply H; now right|].
    unfold asum in IH1, IH2.
    destruct (vadd_spec n d (vsc' t v) (fold_right vad vz0 (map (fun p => vsc' (fst p) (snd p)) L))) as [E1 E2].
    { apply okv_vscale. apply (H (t, v)). now left. }
    { exact IH2. }
    split; [|exact E2]. rewrite E1, IH1, nth_vscale, fsum_cons. reflexivity.
Qed.

Lemma lcomb_vec n d trow L (g : nat -> list F) : (forall c, (c < L)%nat -> okv n (g c)) ->
  nth d (lcomb vz0 vad vsc' trow L g) 0 = lcomb 0 (fadd K) (fmul K) trow L (fun c => nth d (g c) 0)
  /\ okv n (lcomb vz0 vad vsc' trow L g).
Proof.
  intros H. unfold lcomb.
  assert (E : map (fun p : F * nat => vsc' (fst p) (g (snd p))) (combine trow (seq 0 L))
              = map (fun p => vsc' (fst p) (snd p)) (map (fun p : F * nat => (fst p, g (snd p))) (combine trow (seq 0 L))))
    by (now rewrite map_map).
  rewrite E.
  destruct (asum_vec_nth n d (map (fun p : F * nat => (fst p, g (snd p))) (combine trow (seq 0 L)))) as [E1 E2].
  { intros p Hp. apply in_map_iff in Hp. destruct Hp as [[t c] [<- Hin]]. cbn [snd]. apply H.
    eapply in_combine_seq. exact Hin. }
  split; [|exact E2]. rewrite E1, map_map. reflexivity.
Qed.

(* projection of a processed vector entry to the slot d = the processed scalar entry *)
Lemma proj_entry n d sph1 sph2 T1 T2 L1 L2 (ev : nat -> nat -> nat -> nat -> list F)
      (c0 : nat -> nat -> nat -> nat -> F) ma r1 mb r2 :
  (forall ma ia mb ib, (ia < L1)%nat -> (ib < L2)%nat -> okv n (ev ma ia mb ib)) ->
  (sph1 = false -> (r1 < L1)%nat) -> (sph2 = false -> (r2 < L2)%nat) ->
  nth d (eR vz0 vad vsc' sph2 T2 L2 (eL vz0 vad vsc' sph1 T1 L1
           (fun ma ia mb ib => vsc' (c0 ma ia mb ib) (ev ma ia mb ib))) ma r1 mb r2) 0
  = eR 0 (fadd K) (fmul K) sph2 T2 L2 (eL 0 (fadd K) (fmul K) sph1 T1 L1
           (fun ma ia mb ib => c0 ma ia mb ib * nth d (ev ma ia mb ib) 0)) ma r1 mb r2.
Proof.
  intros Hok H1 H2. unfold eR, eL. destruct sph1, sph2.
  - destruct (lcomb_vec n d (nth r2 T2 []) L2
                (fun c => lcomb vz0 vad vsc' (nth r1 T1 []) L1 (fun c1 => vsc' (c0 ma c1 mb c) (ev ma c1 mb c))))
      as [E _].
    { intros c Hc. refine (proj2 (lcomb_vec n d _ _ _ _)). intros c1 Hc1. apply okv_vscale. now apply Hok. }
    rewrite E. apply lcomb_ext. intros c Hc.
    destruct (lcomb_vec n d (nth r1 T1 []) L1 (fun c1 => vsc' (c0 ma c1 mb c) (ev ma c1 mb c))) as [E' _].
    { intros c1 Hc1. apply okv_vscale. now apply Hok. }
    rewrite E'. apply lcomb_ext. intros c1 Hc1. apply nth_vscale.
  - destruct (lcomb_vec n d (nth r1 T1 []) L1 (fun c1 => vsc' (c0 ma c1 mb r2) (ev ma c1 mb r2))) as [E' _].
    { intros c1 Hc1. apply okv_vscale. apply Hok; auto. }
    rewrite E'. apply lcomb_ext. intros c1 Hc1. apply nth_vscale.
  - destruct (lcomb_vec n d (nth r2 T2 []) L2 (fun c => vsc' (c0 ma r1 mb c) (ev ma r1 mb c))) as [E _].
    { intros c Hc. apply okv_vscale. apply Hok; auto. }
    rewrite E. apply lcomb_ext. intros c Hc. apply nth_vscale.
  - apply nth_vscale.
Qed.

Lemma map_flat4 {A B} (h : A -> B) M1 R1 M2 R2 e :
  map (map h) (flat4 M1 R1 M2 R2 e) = flat4 M1 R1 M2 R2 (fun ma r1 mb r2 => h (e ma r1 mb r2)).
Proof.
  unfold flat4. rewrite concat_map_map, map_mk'. f_equal. apply mk_ext; intros ma _.
  rewrite map_mk'. apply mk_ext; intros r1 _. rewrite concat_map_map, map_mk'. f_equal.
  apply mk_ext; intros mb _. now rewrite map_mk'.
Qed.

Section MomentVec.
Variables (Cx Cy Cz : F) (orders : list comp) (sa sb : shell F).
Hypothesis H2 : 1 + 1 <> 0.
Hypothesis Hoka : comps_ok sa.
Hypothesis Hokb : comps_ok sb.
Hypothesis Hexp : exps_ok sa sb.
Hypothesis Hord : orders <> [].

Lemma moment_block_blk4 :
  moment_block K Cx Cy Cz orders sa sb
  = blk4 (nseg sa) (ncomp sa) (nseg sb) (ncomp sb) (fun ma ia mb ib =>
      map (fun o => ES sa sb (Jmm Cx Cy Cz orders sa sb o) ma ia mb ib) orders).
Proof.
  unfold moment_block. cbv zeta. rewrite mm_block_pfJ.
  set (E := fun o => ES sa sb (Jmm Cx Cy Cz orders sa sb o)).
  assert (Em : map (fun o => block_of K sa sb (pfJ sa sb (Jmm Cx Cy Cz orders sa sb o))) orders
               = map (fun o => blk4 (nseg sa) (ncomp sa) (nseg sb) (ncomp sb) (E o)) orders).
  { apply map_ext. intros o. apply block_of_pfJ. }
  rewrite Em. change (fun ma ia mb ib => map (fun o => ES sa sb (Jmm Cx Cy Cz orders sa sb o) ma ia mb ib) orders)
    with (fun ma ia mb ib => map (fun o => E o ma ia mb ib) orders).
  clearbody E. clear Em. destruct orders as [|o0 rest]; [congruence|].
  cbn [map]. unfold blk4. rewrite mk_length.
  apply mk_ext; intros ma Hma. rewrite (nth_mk _ _ _ ma Hma), mk_length.
  apply mk_ext; intros ia Hia. rewrite (nth_mk _ _ _ ia Hia), mk_length.
  apply mk_ext; intros mb Hmb. rewrite (nth_mk _ _ _ mb Hmb), mk_length.
  apply mk_ext; intros ib Hib. rewrite (nth_mk _ _ _ ib Hib). f_equal.
  rewrite map_map. apply map_ext. intros o.
  now rewrite (nth_mk _ _ _ ma Hma), (nth_mk _ _ _ ia Hia), (nth_mk _ _ _ mb Hmb), (nth_mk _ _ _ ib Hib).
Qed.

(* slot d of the processed moment block = table of pairings with the moment functional of order d *)
Theorem same_function_pblock_moment d : (d < length orders)%nat ->
  map (map (fun v => nth d v 0))
      (pblock K vz0 vad vsc' (moment_block K Cx Cy Cz orders) (prep K sa) (prep K sb))
  = outer (pair_spec (Imom Cx Cy Cz (nth d orders (0,0,0)%nat))) (descr sa) (descr sb).
Proof.
  intros Hd. unfold pblock, prep. cbn [p_shell p_norm p_T].
  rewrite moment_block_blk4, (norm_cont_mk sa), (norm_cont_mk sb).
  rewrite shell_block_blk4 by (now apply ncomp_pos). rewrite map_flat4.
  unfold outer. rewrite (descr_mk sa), (descr_mk sb), outer_flat4. fold (nrows sa) (nrows sb).
  apply flat4_ext. intros ma r1 mb r2 Hma Hr1 Hmb Hr2.
  rewrite (proj_entry (length orders) d).
  - rewrite <- (processed_entry sa sb (Jmm Cx Cy Cz orders sa sb (nth d orders (0,0,0)%nat))
                  (Imom Cx Cy Cz (nth d orders (0,0,0)%nat))); [| |exact Hr1|exact Hr2].
    + unfold eR, eL. 
      assert (En : forall a b c e, nth d (map (fun o => ES sa sb (Jmm Cx Cy Cz orders sa sb o) a b c e) orders) 0
                                   = ES sa sb (Jmm Cx Cy Cz orders sa sb (nth d orders (0,0,0)%nat)) a b c e).
      { intros. rewrite (nth_indep _ 0 (ES sa sb (Jmm Cx Cy Cz orders sa sb (0,0,0)%nat) a b c e))
          by (now rewrite map_length).
        apply (map_nth (fun o => ES sa sb (Jmm Cx Cy Cz orders sa sb o) a b c e)). }
      destruct (s_sph sa), (s_sph sb);
        repeat (apply lcomb_ext; intros); now rewrite En.
    + intros alpha beta ia ib Ha Hb Hia Hib.
      apply (Jmm_spec Cx Cy Cz orders sa sb H2 Hoka Hokb Hexp); auto. now apply nth_In.
  - intros. left. apply map_length.
  - intros E. unfold nrows, rows_of in Hr1. now rewrite E in Hr1.
  - intros E. unfold nrows, rows_of in Hr2. now rewrite E in Hr2.
Qed.
End MomentVec.

(* naturality of the mirrored assembly under an entrywise map *)
Lemma combine_map2 {A B} (f : A -> B) (a b : list A) :
  combine (map f a) (map f b) = map (fun p => (f (fst p), f (snd p))) (combine a b).
Proof. revert b; induction a as [|x a IH]; intros [|y b]; cbn; [reflexivity..|]. now rewrite IH. Qed.

Lemma hcat_map {A B} (h : A -> B) (ms : list (list (list A))) :
  map (map h) (hcat ms) = hcat (map (map (map h)) ms).
Proof.
  induction ms as [|m rest IH]; [reflexivity|]. destruct rest as [|m' rest']; [reflexivity|].
  change (hcat (m :: m' :: rest'))
    with (map (fun r12 : list A * list A => let '(r1, r2) := r12 in r1 ++ r2) (combine m (hcat (m' :: rest')))).
  change (hcat (map (map (map h)) (m :: m' :: rest')))
    with (map (fun r12 : list B * list B => let '(r1, r2) := r12 in r1 ++ r2)
            (combine (map (map h) m) (hcat (map (map (map h)) (m' :: rest'))))).
  rewrite <- IH, combine_map2, !map_map. apply map_ext. intros [r1 r2]. cbn [fst snd]. apply map_app.
Qed.

Lemma transpose_map {A B} (h : A -> B) za (m : list (list A)) :
  transpose (h za) (map (map h) m) = map (map h) (transpose za m).
Proof.
  unfold transpose.
  assert (E : length (hd [] (map (map h) m)) = length (hd [] m)) by (destruct m; cbn; [reflexivity|apply map_length]).
  rewrite E, map_mk'. apply mk_ext; intros c _. rewrite !map_map. apply map_ext. intros row.
  apply (map_nth h).
Qed.

Lemma two_symm_blocks_map {A B} (h : A -> B) za n (bf : nat -> nat -> list (list A)) :
  map (map h) (two_symm_blocks za n bf) = two_symm_blocks (h za) n (fun i j => map (map h) (bf i j)).
Proof.
  unfold two_symm_blocks, vcat. rewrite concat_map_map, map_mk'. f_equal. apply mk_ext; intros i _.
  rewrite hcat_map, map_mk'. f_equal. apply mk_ext; intros j _.
  destruct (Nat.leb i j); [reflexivity|]. now rewrite transpose_map.
Qed.

(* (ii) moment_integral: slot d of every entry = pairing with the moment functional of order orders[d],
   over the same descriptor list in the same order *)
Theorem same_function_moment Cx Cy Cz (orders : list comp) (basis : list (shell F)) d :
  1 + 1 <> 0 -> Forall shell_wf basis ->
  (forall sa sb, In sa basis -> In sb basis -> exps_ok sa sb) ->
  (d < length orders)%nat ->
  map (map (fun v => nth d v 0)) (moment_integral K Cx Cy Cz orders basis None)
  = outer (pair_spec (Imom Cx Cy Cz (nth d orders (0,0,0)%nat))) (descr_basis basis) (descr_basis basis).
Proof.
  intros H2 Hwf Hexp Hd. unfold moment_integral. rewrite two_symm_integral_unfold. cbv zeta.
  rewrite map_length, two_symm_blocks_map. change (nth d vz0 0) with (nth d (@nil F) 0). rewrite nth_nil0.
  assert (Hne : orders <> []) by (destruct orders; [cbn in Hd; lia|discriminate]).
  rewrite Forall_forall in Hwf.
  rewrite (two_symm_blocks_ext_le 0 (length basis) _
             (fun i j => outer (pair_spec (Imom Cx Cy Cz (nth d orders (0,0,0)%nat)))
                               (descr (nth i basis dshell)) (descr (nth j basis dshell)))).
  - rewrite descr_basis_mk. unfold outer.
    apply (two_symm_blocks_full (pair_spec (Imom Cx Cy Cz (nth d orders (0,0,0)%nat)))).
    + intros i j a b _ _ _ _. apply pair_spec_sym. intros x y. apply Imom_sym.
    + intros i Hi. apply descr_nonempty. apply Hwf. now apply nth_In.
  - intros i j Hi Hj _. rewrite (nth_prep basis i Hi), (nth_prep basis j Hj).
    assert (Ii : In (nth i basis dshell) basis) by (now apply nth_In).
    assert (Ij : In (nth j basis dshell) basis) by (now apply nth_In).
    apply same_function_pblock_moment; auto; try (now apply Hwf).
Qed.

(* ------------------------------------------------------------------ *)
(* bridge: any linear functional that is right on products of two PRIMITIVES (B1) is right on
   products of two evaluated functions, on the density and on the kinetic-energy density       *)
(* ------------------------------------------------------------------ *)
Lemma fsum_mul {A B} (f : A -> F) (g : B -> F) la lb :
  fsum (map f la) * fsum (map g lb) = fsum (map (fun a => fsum (map (fun b => f a * g b) lb)) la).
Proof.
  transitivity (fsum (map (fun a => fsum (map g lb) * f a) la)).
  - rewrite fsum_scale. ring.
  - apply fsum_ext_in; intros a _. transitivity (f a * fsum (map g lb)); [ring|].
    now rewrite <- fsum_scale.
Qed.

(* sum_ab P_ab f(d_a, d_b) *)
Definition contract2 (P : list (list F)) (ds : list fdesc) (f : fdesc -> fdesc -> F) : F :=
  fsum (map (fun pa => fsum (map (fun pb => fst pb * f (snd pa) (snd pb)) (combine (fst pa) ds)))
            (combine P ds)).

(* unit-weight primitive: value and derivative at a point *)
Definition dval (o : comp) (g : gprim) (r : point (F:=F)) : F := term_val o r (mkT 1 g).

Lemma term_val_w o r t : term_val o r t = t_w t * dval o (t_g t) r.
Proof. unfold dval, term_val, t_x, t_y, t_z, t_a, t_c. cbn [t_w t_g]. ring. Qed.

Definition q_ov (g1 g2 : gprim) (r : point (F:=F)) : F := dval (0,0,0)%nat g1 r * dval (0,0,0)%nat g2 r.
Definition q_kin (g1 g2 : gprim) (r : point (F:=F)) : F :=
  (1 / (1 + 1)) * ((dval (1,0,0)%nat g1 r * dval (1,0,0)%nat g2 r + dval (0,1,0)%nat g1 r * dval (0,1,0)%nat g2 r)
                   + dval (0,0,1)%nat g1 r * dval (0,0,1)%nat g2 r).

(* bilinear extension of a pointwise form of two primitives to descriptors *)
Definition qq (q : gprim -> gprim -> point (F:=F) -> F) (d1 d2 : fdesc) (r : point (F:=F)) : F :=
  fsum (map (fun t1 => fsum (map (fun t2 => t_w t1 * t_w t2 * q (t_g t1) (t_g t2) r) d2)) d1).

Lemma deriv_product o d1 d2 r :
  deriv_spec o d1 r * deriv_spec o d2 r
  = fsum (map (fun t1 => fsum (map (fun t2 => t_w t1 * t_w t2 * (dval o (t_g t1) r * dval o (t_g t2) r)) d2)) d1).
Proof.
  unfold deriv_spec. rewrite fsum_mul. apply fsum_ext_in; intros t1 _. apply fsum_ext_in; intros t2 _.
  rewrite (term_val_w o r t1), (term_val_w o r t2). ring.
Qed.

(* phi_1(r) phi_2(r) *)
Lemma eval_product d1 d2 r : eval_spec d1 r * eval_spec d2 r = qq q_ov d1 d2 r.
Proof. unfold eval_spec. rewrite deriv_product. reflexivity. Qed.

(* 1/2 grad phi_1(r) . grad phi_2(r) *)
Lemma grad_product d1 d2 r :
  (1 / (1 + 1)) * ((deriv_spec (1,0,0)%nat d1 r * deriv_spec (1,0,0)%nat d2 r
                    + deriv_spec (0,1,0)%nat d1 r * deriv_spec (0,1,0)%nat d2 r)
                   + deriv_spec (0,0,1)%nat d1 r * deriv_spec (0,0,1)%nat d2 r)
  = qq q_kin d1 d2 r.
Proof.
  rewrite !deriv_product. unfold qq. rewrite <- !fsum_add, <- fsum_scale. apply fsum_ext_in; intros t1 _.
  rewrite <- !fsum_add, <- fsum_scale. apply fsum_ext_in; intros t2 _. unfold q_kin. ring.
Qed.

Section Bridge.
Variable Lin : (point (F:=F) -> F) -> F.
Hypothesis Lin_ext : forall f g, (forall r, f r = g r) -> Lin f = Lin g.
Hypothesis Lin_add : forall f g, Lin (fun r => f r + g r) = Lin f + Lin g.
Hypothesis Lin_scale : forall c f, Lin (fun r => c * f r) = c * Lin f.

Lemma Lin_zero : Lin (fun _ => 0) = 0.
Proof.
  transitivity (Lin (fun r : point (F:=F) => 0 * 0)); [apply Lin_ext; intros; ring|].
  rewrite (Lin_scale 0 (fun _ => 0)). ring.
Qed.

Lemma Lin_fsum {A} (h : A -> point (F:=F) -> F) l :
  Lin (fun r => fsum (map (fun x => h x r) l)) = fsum (map (fun x => Lin (h x)) l).
Proof.
  induction l as [|a l IH]; cbn [map].
  - apply Lin_zero.
  - transitivity (Lin (fun r => h a r + fsum (map (fun x => h x r) l))).
    + apply Lin_ext. intros r. apply fsum_cons.
    + now rewrite Lin_add, IH, fsum_cons.
Qed.

Variable q : gprim -> gprim -> point (F:=F) -> F.
Variable Ip : gprim -> gprim -> F.
(* (B1) for one pair of primitives *)
Hypothesis B1 : forall g1 g2, Lin (q g1 g2) = Ip g1 g2.

Theorem lin_pairing d1 d2 : Lin (qq q d1 d2) = pair_spec Ip d1 d2.
Proof.
  unfold qq, pair_spec.
  rewrite (Lin_fsum (fun t1 r => fsum (map (fun t2 => t_w t1 * t_w t2 * q (t_g t1) (t_g t2) r) d2))).
  apply fsum_ext_in; intros t1 _.
  rewrite (Lin_fsum (fun t2 r => t_w t1 * t_w t2 * q (t_g t1) (t_g t2) r)).
  apply fsum_ext_in; intros t2 _.
  now rewrite (Lin_scale (t_w t1 * t_w t2) (q (t_g t1) (t_g t2))), B1.
Qed.

(* trace identity: Lin of  sum_ab P_ab q(bf_a, bf_b)  =  sum_ab P_ab I(bf_a, bf_b)  (finite sums) *)
Theorem lin_contract P ds :
  Lin (fun r => contract2 P ds (fun da db => qq q da db r)) = contract2 P ds (pair_spec Ip).
Proof.
  unfold contract2.
  rewrite (Lin_fsum (fun pa r => fsum (map (fun pb => fst pb * qq q (snd pa) (snd pb) r) (combine (fst pa) ds)))).
  apply fsum_ext_in; intros pa _.
  rewrite (Lin_fsum (fun pb r => fst pb * qq q (snd pa) (snd pb) r)).
  apply fsum_ext_in; intros pb _.
  now rewrite (Lin_scale (fst pb) (qq q (snd pa) (snd pb))), lin_pairing.
Qed.
End Bridge.

Section BridgeInst.
Variable Lin : (point (F:=F) -> F) -> F.
Hypothesis Lin_ext : forall f g, (forall r, f r = g r) -> Lin f = Lin g.
Hypothesis Lin_add : forall f g, Lin (fun r => f r + g r) = Lin f + Lin g.
Hypothesis Lin_scale : forall c f, Lin (fun r => c * f r) = c * Lin f.

(* "integral" of the product of two evaluated functions = the overlap-model entry of the same descriptors *)
Theorem lin_of_product Ip : (forall g1 g2, Lin (q_ov g1 g2) = Ip g1 g2) ->
  forall d1 d2, Lin (fun r => eval_spec d1 r * eval_spec d2 r) = pair_spec Ip d1 d2.
Proof.
  intros B1 d1 d2. rewrite <- (lin_pairing Lin Lin_ext Lin_add Lin_scale q_ov Ip B1).
  apply Lin_ext. intros r. apply eval_product.
Qed.

(* "integral" of the density sum_ab P_ab phi_a phi_b = sum_ab P_ab S_ab = tr(P S) for symmetric P *)
Theorem lin_of_density Ip : (forall g1 g2, Lin (q_ov g1 g2) = Ip g1 g2) ->
  forall P ds, Lin (fun r => contract2 P ds (fun da db => eval_spec da r * eval_spec db r))
               = contract2 P ds (pair_spec Ip).
Proof.
  intros B1 P ds. rewrite <- (lin_contract Lin Lin_ext Lin_add Lin_scale q_ov Ip B1).
  apply Lin_ext. intros r. unfold contract2. apply fsum_ext_in; intros pa _.
  apply fsum_ext_in; intros pb _. now rewrite eval_product.
Qed.

(* the same for half the products of gradients (kinetic matrix) and the positive-definite
   kinetic-energy density (tr(P T)) *)
Theorem lin_of_grad_product Ip : (forall g1 g2, Lin (q_kin g1 g2) = Ip g1 g2) ->
  forall d1 d2,
  Lin (fun r => (1 / (1 + 1)) * ((deriv_spec (1,0,0)%nat d1 r * deriv_spec (1,0,0)%nat d2 r
                                  + deriv_spec (0,1,0)%nat d1 r * deriv_spec (0,1,0)%nat d2 r)
                                 + deriv_spec (0,0,1)%nat d1 r * deriv_spec (0,0,1)%nat d2 r))
  = pair_spec Ip d1 d2.
Proof.
  intros B1 d1 d2. rewrite <- (lin_pairing Lin Lin_ext Lin_add Lin_scale q_kin Ip B1).
  apply Lin_ext. intros r. apply grad_product.
Qed.

Theorem lin_of_posdef_ked Ip : (forall g1 g2, Lin (q_kin g1 g2) = Ip g1 g2) ->
  forall P ds,
  Lin (fun r => contract2 P ds (fun da db =>
         (1 / (1 + 1)) * ((deriv_spec (1,0,0)%nat da r * deriv_spec (1,0,0)%nat db r
                           + deriv_spec (0,1,0)%nat da r * deriv_spec (0,1,0)%nat db r)
                          + deriv_spec (0,0,1)%nat da r * deriv_spec (0,0,1)%nat db r)))
  = contract2 P ds (pair_spec Ip).
Proof.
  intros B1 P ds. rewrite <- (lin_contract Lin Lin_ext Lin_add Lin_scale q_kin Ip B1).
  apply Lin_ext. intros r. unfold contract2. apply fsum_ext_in; intros pa _.
  apply fsum_ext_in; intros pb _. now rewrite grad_product.
Qed.
End BridgeInst.

(* the hypotheses on Lin are satisfiable by a non-trivial functional: evaluation at a point *)
Lemma bridge_hyps_example (r0 : point (F:=F)) (q : gprim -> gprim -> point (F:=F) -> F) :
  let Lin := fun f : point (F:=F) -> F => f r0 in
  (forall f g, (forall r, f r = g r) -> Lin f = Lin g) /\
  (forall f g, Lin (fun r => f r + g r) = Lin f + Lin g) /\
  (forall c f, Lin (fun r => c * f r) = c * Lin f) /\
  (forall g1 g2, Lin (q g1 g2) = (fun g1 g2 => q g1 g2 r0) g1 g2).
Proof. cbv zeta. repeat split; intros; auto. Qed.

End P.

(* ------------------------------------------------------------------ *)
(* the headline statement                                               *)
(* ------------------------------------------------------------------ *)
(* One descriptor list [descr_basis basis] serves BOTH halves, in the same order and with the same
   weights and signs, for all shells, angular momenta, contraction lengths, segment numbers, coordinate
   types, points, derivative orders, moment origins and orders (no bound).  Not covered here: the optional
   `transform` argument of the two-index integrals (C09 relates it to the untransformed matrices; the
   one-index side with a transform is same_function_eval_transformed). *)
Theorem same_function_objects {F : Type} (K : Fops F) (Kf : is_field K) (Hapx : forall x, fapx K x = x)
        (basis : list (shell F)) (pts : list (point (F:=F))) (o : comp)
        (Cx Cy Cz : F) (orders : list comp) (d : nat) :
  fadd K (f1 K) (f1 K) <> f0 K -> Forall shell_wf basis ->
  (forall sa sb, In sa basis -> In sb basis -> exps_ok K sa sb) ->
  d < length orders ->
  let ds := descr_basis K basis in
  evaluate_deriv_basis_model K basis pts o None General = Some (map (fun bf => map (deriv_spec K o bf) pts) ds)
  /\ evaluate_basis_model K basis pts None = map (fun bf => map (eval_spec K bf) pts) ds
  /\ overlap_integral K basis None = outer (pair_spec K (Iov K)) ds ds
  /\ map (map (fun v => nth d v (f0 K))) (moment_integral K Cx Cy Cz orders basis None)
     = outer (pair_spec K (Imom K Cx Cy Cz (nth d orders (0, 0, 0)))) ds ds
  /\ kinetic_integral K basis None = outer (pair_spec K (Ikin K)) ds ds.
Proof.
  intros H2 Hwf Hexp Hd ds.
  assert (Hok : Forall comps_ok basis).
  { rewrite Forall_forall in *. intros s Hs. now destruct (Hwf s Hs). }
  repeat split.
  - now apply same_function_eval.
  - now apply same_function_eval_values.
  - now apply same_function_overlap.
  - now apply same_function_moment.
  - now apply same_function_kinetic.
Qed.

(* what a descriptor is (the definitions, restated): segment-major; Cartesian functions in the order of
   comps_of with weight norm_cont x coefficient x norm_prim; spherical functions = rows of
   generate_transformation applied to the segment's Cartesian descriptors *)
Lemma descr_structure {F : Type} (K : Fops F) (s : shell F) :
  descr K s = concat (mk (nseg s) (fun m =>
    let carts := mk (length (comps_of s)) (cart_desc K s m) in
    if s_sph s then map (fun trow => dcomb K trow carts) (shell_transform K s) else carts))
  /\ forall m ic,
     cart_desc K s m ic
     = map (fun ae : F * list F =>
              mkT (fmul K (nth ic (nth m (norm_cont K s) []) (f0 K))
                          (fmul K (nth m (snd ae) (f0 K))
                                  (norm_prim K (s_l s) (nth ic (comps_of s) (0, 0, 0)) (fst ae))))
                  (mkG (s_x s) (s_y s) (s_z s) (fst ae) (nth ic (comps_of s) (0, 0, 0))))
           (combine (s_exps s) (s_coeffs s)).
Proof. split; reflexivity. Qed.

(* ------------------------------------------------------------------ *)
(* concrete instance (Qc, vm_compute): a generalized Cartesian p shell (K = 2, M = 2) off the origin and a
   spherical d shell; the oracle closures are arbitrary computable functions (the identities are algebraic) *)
(* ------------------------------------------------------------------ *)
From Coq Require Import ZArith QArith Qcanon.
Module Ex.
Definition q (n : Z) (d : positive) : Qc := qc_of n d.
Definition KQ : Fops Qc :=
  QcK true (q 3 1) (fun x => x) (fun x => qc_div (q 1 1) (qc_add (q 1 1) (qc_mul x x))) (fun x => x) (fun _ x => x).
Definition sP : shell Qc :=
  mkShell Qc 1 (q 1 2) (q (-1) 4) (q 0 1) [q 1 2; q 5 4] [[q 1 1; q 1 2]; [q (-1) 4; q 2 1]] false [] [].
Definition sD : shell Qc :=
  mkShell Qc 2 (q 0 1) (q 1 4) (q (-1) 2) [q 3 4] [[q 1 1]] true [] [].
Definition basis : list (shell Qc) := [sP; sD].
Definition pts : list (point (F:=Qc)) := [(q 1 4, q 0 1, q (-3) 8); (q 0 1, q 1 4, q (-1) 2)].
Definition ds := descr_basis KQ basis.

Fixpoint list_eqb {A} (e : A -> A -> bool) (a b : list A) : bool :=
  match a, b with
  | [], [] => true
  | x :: a', y :: b' => e x y && list_eqb e a' b'
  | _, _ => false
  end.
Definition mat_eqb := list_eqb (list_eqb qc_eqb).

Lemma ex_sizes : length ds = 11%nat /\ length (descr KQ sP) = 6%nat /\ length (descr KQ sD) = 5%nat.
Proof. unfold ds, descr_basis, basis. cbn [map concat]. rewrite !app_length, !descr_length, !nrows_eq. cbn. auto. Qed.

Lemma ex_eval :
  mat_eqb (evaluate_basis_model KQ basis pts None) (map (fun bf => map (eval_spec KQ bf) pts) ds) = true.
Proof. vm_compute. reflexivity. Qed.

Lemma ex_deriv :
  match evaluate_deriv_basis_model KQ basis pts (1, 0, 2)%nat None General with
  | Some m => mat_eqb m (map (fun bf => map (deriv_spec KQ (1, 0, 2)%nat bf) pts) ds)
  | None => false
  end = true.
Proof. vm_compute. reflexivity. Qed.

Lemma ex_overlap : mat_eqb (overlap_integral KQ basis None) (outer (pair_spec KQ (Iov KQ)) ds ds) = true.
Proof. vm_compute. reflexivity. Qed.

Lemma ex_kinetic : mat_eqb (kinetic_integral KQ basis None) (outer (pair_spec KQ (Ikin KQ)) ds ds) = true.
Proof. vm_compute. reflexivity. Qed.

Lemma ex_moment :
  mat_eqb (map (map (fun v => nth 1 v (f0 KQ)))
             (moment_integral KQ (q 1 4) (q 0 1) (q (-1) 2) [(1, 0, 0); (0, 2, 1)]%nat basis None))
          (outer (pair_spec KQ (Imom KQ (q 1 4) (q 0 1) (q (-1) 2) (0, 2, 1)%nat)) ds ds) = true.
Proof. vm_compute. reflexivity. Qed.

(* the hypotheses of same_function_objects hold for this instance *)
Lemma ex_hyps :
  is_field KQ /\ (forall x, fapx KQ x = x) /\ fadd KQ (f1 KQ) (f1 KQ) <> f0 KQ /\ Forall shell_wf basis
  /\ (forall sa sb, In sa basis -> In sb basis -> exps_ok KQ sa sb).
Proof.
  split; [apply QcK_field|]. split; [reflexivity|]. split.
  { intro H. apply (f_equal this) in H. vm_compute in H. discriminate. }
  split.
  { assert (W : forall s : shell Qc, s_comps s = [] -> (0 < nseg s)%nat -> s_labels s = [] -> shell_wf s).
    { intros s Hc Hn Hl. split; [now apply default_comps_ok|]. split; [exact Hn|].
      intros _. unfold labels_of. rewrite Hl. unfold default_labels.
      destruct (Nat.eqb (s_l s) 1); [discriminate|]. intro E. apply (f_equal (@length _)) in E.
      rewrite app_length, !map_length, !seq_length in E. cbn in E. lia. }
    constructor; [apply W; [reflexivity|cbn; lia|reflexivity]|].
    constructor; [apply W; [reflexivity|cbn; lia|reflexivity]|constructor]. }
  intros sa sb Ha Hb alpha beta Hal Hbe H.
  apply (f_equal this) in H.
  cbn in Ha, Hb. destruct Ha as [<-|[<-|[]]]; destruct Hb as [<-|[<-|[]]]; cbn in Hal, Hbe;
    repeat (destruct Hal as [<-|Hal]; [|try contradiction]); 
    repeat (destruct Hbe as [<-|Hbe]; [|try contradiction]); vm_compute in H; discriminate.
Qed.
End Ex.
