(* Proofs/AssembledRealP.v — the premises of [diag_one_cart] discharged over the reals (RK = the model's
   number interface at R with the real sqrt / exp / PI, Proofs/ScreeningP.v).

     diag_one_cart_R              any Cartesian basis with positive exponents: the only premise left is
                                  0 < x for the self-overlaps x (sqrt x * sqrt x = x and x <> 0 follow).
                                  [0 < x is the positivity of the L2 norm of a contracted function; for a
                                  general contraction it is part of the analytic bridge (B3), not of algebra.]
     self_overlap_uncontracted_R  a shell with ONE primitive (alpha > 0, components of degree l):
                                  x = overlap_block(s,s)[m][c][m][c] = d_m^2  (uses CoreNormP.norm_prim_self_overlap)
     diag_one_uncontracted_R      hence, for every basis of uncontracted shells with non-zero coefficients,
                                  the diagonal of the assembled overlap matrix is 1 with NO premise left.
     ex_basis_R / diag_one_example_R   a concrete basis (s shell at the origin, generalized p shell M = 2 off
                                  centre) satisfying all hypotheses. *)
From Coq Require Import List Arith Lia Bool Reals Lra.
From GB Require Import Base.Field Base.FNum Base.Tables Model.Shell Model.MomentInt Model.Overlap
  Proofs.CoreSumP Proofs.CoreBlockP Proofs.CoreDiffP Proofs.CoreNormP Proofs.ScreeningP
  Proofs.BlockMatP Proofs.AssembledP Proofs.AssembledOverlapP.
Import ListNotations.
Local Open Scope R_scope.

Definition pos_exps_basis (bs : list (shell R)) : Prop :=
  forall s, In s bs -> forall x, In x (s_exps s) -> 0 < x.

Lemma basis_exps_pos_R (b1 b2 : list (shell R)) :
  pos_exps_basis b1 -> pos_exps_basis b2 -> basis_exps RK b1 b2.
Proof. intros H1 H2 sa sb Ha Hb. apply exps_ok_pos_R; [now apply H1 | now apply H2]. Qed.

Theorem diag_one_cart_R (bs : list (shell R)) :
  cart_basis bs -> basis_wf bs -> pos_exps_basis bs ->
  (forall i m c, (i < length bs)%nat -> (m < nseg (sh_at RK bs i))%nat -> (c < ncomp (sh_at RK bs i))%nat ->
     0 < nth4 RK m c m c (overlap_block RK (sh_at RK bs i) (sh_at RK bs i))) ->
  forall I, (I < btotal RK bs)%nat -> nth I (nth I (overlap_integral RK bs None) []) 0 = 1.
Proof.
  intros C W Hp Hx.
  apply (diag_one_cart_all RK RK_field fapx_id_R two_neq_0_R bs C W (basis_exps_pos_R bs bs Hp Hp)).
  intros i m c Hi Hm Hc. cbv zeta. specialize (Hx i m c Hi Hm Hc).
  set (x := nth4 RK m c m c (overlap_block RK (sh_at RK bs i) (sh_at RK bs i))) in *.
  split.
  - change (sqrt x * sqrt x = x). apply sqrt_sqrt. lra.
  - change (x <> 0). lra.
Qed.

(* homogeneous components: a_x + a_y + a_z = l *)
Definition comps_homog {F} (s : shell F) : Prop :=
  forall c, In c (comps_of s) -> (cx c + cy c + cz c = s_l s)%nat.

Lemma default_comps_sum l c : In c (default_comps l) -> (cx c + cy c + cz c = l)%nat.
Proof.
  unfold default_comps. intros H. apply in_flat_map in H. destruct H as [xx [Hxx H]].
  apply in_map_iff in H. destruct H as [yy [E Hyy]]. subst c.
  apply in_seq in Hxx. apply in_seq in Hyy. unfold cx, cy, cz. cbn [fst snd]. lia.
Qed.

Lemma comps_homog_default {F} (s : shell F) : s_comps s = [] -> comps_homog s.
Proof. intros Hc c Hin. unfold comps_of in Hin. rewrite Hc in Hin. now apply default_comps_sum. Qed.

Lemma comps_homog_le {F} (s : shell F) : comps_homog s -> forall c, In c (comps_of s) -> comp_le (s_l s) c.
Proof. intros H c Hin. specialize (H c Hin). unfold comp_le. lia. Qed.

(* an uncontracted shell *)
Definition uncontracted (s : shell R) (alpha : R) (row : list R) : Prop :=
  s_exps s = [alpha] /\ s_coeffs s = [row] /\ 0 < alpha /\ comps_homog s.

Lemma uncontracted_wf s alpha row : uncontracted s alpha row -> wf_shell s.
Proof.
  intros (He & Hc & _ & Hh). split; [unfold wf_coeffs; now rewrite He, Hc|]. now apply comps_homog_le.
Qed.

Theorem self_overlap_uncontracted_R (s : shell R) alpha row m c :
  uncontracted s alpha row -> (m < nseg s)%nat -> (c < ncomp s)%nat ->
  nth4 RK m c m c (overlap_block RK s s) = nth m row 0 * nth m row 0.
Proof.
  intros Hu Hm Hc. pose proof (uncontracted_wf s alpha row Hu) as Wf.
  destruct Hu as (He & Hco & Ha & Hh).
  assert (Hex : exps_ok RK s s).
  { apply exps_ok_pos_R; intros x Hx; rewrite He in Hx; destruct Hx as [<-|[]]; exact Ha. }
  rewrite (overlap_block_correct RK RK_field fapx_id_R two_neq_0_R s s m c m c Wf Wf Hex Hm Hc Hm Hc).
  set (cc := nth c (comps_of s) (0, 0, 0)%nat).
  assert (Hl : (cx cc + cy cc + cz cc = s_l s)%nat) by (apply Hh, nth_In; exact Hc).
  pose proof (norm_prim_self_overlap s cc alpha Ha Hl) as E1.
  unfold contracted. rewrite He, Hco. unfold mk. cbn [length seq map FNum.fsum fold_right nth].
  change (fadd RK) with Rplus. change (fmul RK) with Rmult. change (f0 RK) with 0.
  set (d := nth m row 0) in *. set (N := norm_prim RK (s_l s) cc alpha) in *.
  set (O := ovl_prim RK s s cc cc alpha alpha) in *.
  replace (d * d * N * N * O + 0 + 0) with (d * d * (N * N * O)) by ring.
  rewrite E1. ring.
Qed.

Definition uncontracted_basis (bs : list (shell R)) : Prop :=
  forall s, In s bs -> exists alpha row, uncontracted s alpha row /\ forall d, In d row -> d <> 0.

Theorem diag_one_uncontracted_R (bs : list (shell R)) :
  cart_basis bs -> uncontracted_basis bs ->
  forall I, (I < btotal RK bs)%nat -> nth I (nth I (overlap_integral RK bs None) []) 0 = 1.
Proof.
  intros C U. apply diag_one_cart_R; [exact C| | |].
  - intros s Hs. destruct (U s Hs) as (alpha & row & Hu & _). now apply (uncontracted_wf s alpha row).
  - intros s Hs x Hx. destruct (U s Hs) as (alpha & row & (He & _ & Ha & _) & _).
    rewrite He in Hx. destruct Hx as [<-|[]]. exact Ha.
  - intros i m c Hi Hm Hc. destruct (U (sh_at RK bs i) ltac:(now apply nth_In)) as (alpha & row & Hu & Hd).
    rewrite (self_overlap_uncontracted_R _ alpha row m c Hu Hm Hc).
    assert (Hnz : nth m row 0 <> 0).
    { apply Hd, nth_In. destruct Hu as (_ & Hco & _). unfold nseg in Hm. rewrite Hco in Hm. exact Hm. }
    nra.
Qed.

(* ---- a concrete basis satisfying every hypothesis ---- *)
Definition ex_s_R : shell R := mkShell R 0 0 0 0 [1 / 2] [[1]] false [] [].
Definition ex_p_R : shell R := mkShell R 1 1 0 (-1 / 2) [3 / 2] [[2; -1]] false [] [].
Definition ex_basis_R : list (shell R) := [ex_s_R; ex_p_R].

Lemma ex_basis_R_ok : cart_basis ex_basis_R /\ uncontracted_basis ex_basis_R /\ btotal RK ex_basis_R = 7%nat.
Proof.
  split; [|split].
  - intros s [<-|[<-|[]]]; split; try reflexivity; cbn; lia.
  - intros s [<-|[<-|[]]].
    + exists (1 / 2), [1]. split.
      * repeat split; try reflexivity; [lra|now apply comps_homog_default].
      * intros d [<-|[]]. lra.
    + exists (3 / 2), [2; -1]. split.
      * repeat split; try reflexivity; [lra|now apply comps_homog_default].
      * intros d [<-|[<-|[]]]; lra.
  - reflexivity.
Qed.

Example diag_one_example_R :
  forall I, (I < 7)%nat -> nth I (nth I (overlap_integral RK ex_basis_R None) []) 0 = 1.
Proof.
  destruct ex_basis_R_ok as (C & U & Ht). intros I HI. apply (diag_one_uncontracted_R ex_basis_R C U).
  rewrite Ht. exact HI.
Qed.
