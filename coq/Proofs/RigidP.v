(* Proofs/RigidP.v — lemmas behind property C12 (rigid motions), about the executable models.

   1. TRANSLATION.  Every model sees the centres (and points, charges, moment origin) only
      through differences.  Proved for the primitive/table level ([table], [plane0], [dtable],
      [vrr_prim], [eri_prim], [prim_data]) and lifted to the shell-pair / shell blocks
      ([mm_block], [moment_block], [overlap_block], [diffop_block], [kinetic_block],
      [momentum_block_re], [one_elec_point], [point_charge_block], [eri_block], [block_with],
      [eval_block]) and (section 4) to whole-basis functions ([overlap_integral], [kinetic_integral],
      [moment_integral], [point_charge_integral], [nuclear_attraction_integral],
      [evaluate_basis_model], [evaluate_deriv_basis_model]).  For exp / Boys arguments the ARGUMENT
      is shown unchanged.
   2. ORIGIN LAWS.  Binomial shift of the moment origin ([S3_origin_shift], [T3_origin_shift],
      [table_origin_shift]); angular momentum about a displaced origin = angular momentum
      - d x p for the primitive products ([angmom_prim_shift]) and, through the linearity of the
      contraction (section 3b), for every entry of the angular-momentum block ([angmom_block_shift]).
   3. SIGNED AXIS PERMUTATIONS (one reflection and two transpositions generate all 48).
      Reflection parity of the 1-D moments ([S3_parity], [T3_parity], [table_parity]) and of the 1-D
      derivative tables ([dtable_parity]); the 3-D primitive is a product over the axes, so exchanging
      two axes exchanges the component indices ([prim3_swap_xy], [prim3_swap_yz], norms:
      [norm_prim_swap_xy] ...), lifted to the contracted blocks ([mm_block_swap_xy],
      [overlap_block_swap_xy], [diffop_block_swap_xy], ..._yz; [mm_block_reflect_x],
      [overlap_block_reflect_x], [diffop_block_reflect_x]).  For the Boys-type integrals the law is
      stated at spec level: the per-axis s-polynomial of SPoly has parity (-1)^a under reflection of
      the axis ([Vf_parity], [Pc_parity_Phi], [Pc_parity_eval]) and the 3-D quantity is Phi of a product
      of per-axis polynomials, which is symmetric in the axes ([Phi_pmul_comm], [boys_spec_swap_xy] ...).
   5. The law for GENERAL rotations is written down ([rotation_law_overlap]) but NOT proved (it needs
      the representation of O(3) on degree-l polynomials); it is decided by the correspondence check
      harness/c12.py. *)
From Coq Require Import List Arith Lia Field Bool.
From GB Require Import Base.Field Base.FNum Base.Tables Gauss.Moment1D Gauss.SPoly Model.Shell
  Model.MomentInt Model.DiffOp Model.OneElec Model.TwoElec Model.Eval
  Model.Spherical Model.Assembly Model.Overlap Model.OneBody
  Proofs.MomentIntP Proofs.DiffOpP Proofs.EvalP Proofs.BlockP Proofs.OverlapP.
Import ListNotations.

Section Rigid.
Context {F : Type} (K : Fops F) (Kf : is_field K).
Add Field KFr : Kf.
Local Open Scope F_scope.
Notation "0" := (f0 K) : F_scope.
Notation "1" := (f1 K) : F_scope.
Infix "+" := (fadd K) : F_scope.
Infix "*" := (fmul K) : F_scope.
Infix "-" := (fsub K) : F_scope.
Infix "/" := (fdiv K) : F_scope.
Notation "- x" := (fopp K x) : F_scope.
Notation "# n" := (ofnat K n) (at level 5) : F_scope.
Notation fpow := (FNum.fpow K).
Notation sumn := (Tables.sumn 0 (fadd K)).

(* ================================================================== *)
(* 1. translation                                                       *)
(* ================================================================== *)

(* the weighted centre moves with the system: differences with it are unchanged *)
Lemma wc_shift a b x y t : a + b <> 0 ->
  (a * (x + t) + b * (y + t)) / (a + b) - (x + t) = (a * x + b * y) / (a + b) - x.
Proof. intros H. field. exact H. Qed.
Lemma wc_shift2 a b x y t : a + b <> 0 ->
  (a * (x + t) + b * (y + t)) / (a + b) - (y + t) = (a * x + b * y) / (a + b) - y.
Proof. intros H. field. exact H. Qed.
Lemma wc_shift_c a b x y c t : a + b <> 0 ->
  (a * (x + t) + b * (y + t)) / (a + b) - (c + t) = (a * x + b * y) / (a + b) - c.
Proof. intros H. field. exact H. Qed.
Lemma wc_shift_pq a b c d x y z w t : a + b <> 0 -> c + d <> 0 ->
  (a * (x + t) + b * (y + t)) / (a + b) - (c * (z + t) + d * (w + t)) / (c + d)
  = (a * x + b * y) / (a + b) - (c * z + d * w) / (c + d).
Proof. intros H1 H2. field. split; assumption. Qed.
Lemma diff_shift x y t : (x + t) - (y + t) = x - y.
Proof. ring. Qed.

Section Axis.
Variables (Ax Bx Cx alpha beta t : F) (la lb km : nat).
Hypothesis Hp : psum K alpha beta <> 0.

Lemma PA_shift : PA K (Ax + t) (Bx + t) alpha beta = PA K Ax Bx alpha beta.
Proof. unfold PA, Pw, psum in *. now apply wc_shift. Qed.
Lemma PB_shift : PB K (Ax + t) (Bx + t) alpha beta = PB K Ax Bx alpha beta.
Proof. unfold PB, Pw, psum in *. now apply wc_shift2. Qed.
Lemma PC_shift : PC K (Ax + t) (Bx + t) (Cx + t) alpha beta = PC K Ax Bx Cx alpha beta.
Proof. unfold PC, Pw, psum in *. now apply wc_shift_c. Qed.
(* the argument of the exponential is unchanged *)
Lemma base_shift : base K (Ax + t) (Bx + t) alpha beta = base K Ax Bx alpha beta.
Proof. unfold base. now rewrite diff_shift. Qed.

Lemma row_a_shift : row_a K (Ax + t) (Bx + t) alpha beta la = row_a K Ax Bx alpha beta la.
Proof. unfold row_a, step_a. now rewrite PA_shift, base_shift. Qed.
Lemma plane0_shift :
  plane0 K (Ax + t) (Bx + t) alpha beta la lb = plane0 K Ax Bx alpha beta la lb.
Proof. unfold plane0, step_b. now rewrite row_a_shift, PB_shift. Qed.
Theorem table_shift :
  table K (Ax + t) (Bx + t) (Cx + t) alpha beta la lb km = table K Ax Bx Cx alpha beta la lb km.
Proof. unfold table, step_c. now rewrite plane0_shift, PC_shift. Qed.
End Axis.

Theorem dtable_shift Ax Bx alpha beta t la lb D : psum K alpha beta <> 0 ->
  dtable K (Ax + t) (Bx + t) alpha beta la lb D = dtable K Ax Bx alpha beta la lb D.
Proof. intros Hp. unfold dtable, dtable_full. now rewrite plane0_shift. Qed.

(* ---- Boys-type primitives: PA, PC, AB, the exp argument and the Boys argument are unchanged ---- *)
Theorem vrr_prim_shift L Ax Ay Az Bx By Bz Cx Cy Cz alpha beta tx ty tz : alpha + beta <> 0 ->
  vrr_prim K L (Ax + tx) (Ay + ty) (Az + tz) (Bx + tx) (By + ty) (Bz + tz)
           (Cx + tx) (Cy + ty) (Cz + tz) alpha beta
  = vrr_prim K L Ax Ay Az Bx By Bz Cx Cy Cz alpha beta.
Proof.
  intros Hp. unfold vrr_prim. cbv zeta.
  rewrite !(wc_shift alpha beta) by exact Hp.
  rewrite !(wc_shift_c alpha beta) by exact Hp.
  rewrite !diff_shift. reflexivity.
Qed.

Theorem eri_prim_shift L Lc Ax Ay Az Bx By Bz Cx Cy Cz Dx Dy Dz alpha beta gamma delta tx ty tz :
  alpha + beta <> 0 -> gamma + delta <> 0 ->
  eri_prim K L Lc (Ax + tx, Ay + ty, Az + tz) (Bx + tx, By + ty, Bz + tz)
           (Cx + tx, Cy + ty, Cz + tz) (Dx + tx, Dy + ty, Dz + tz) alpha beta gamma delta
  = eri_prim K L Lc (Ax, Ay, Az) (Bx, By, Bz) (Cx, Cy, Cz) (Dx, Dy, Dz) alpha beta gamma delta.
Proof.
  intros Hp Hq. unfold eri_prim. cbv beta iota zeta.
  rewrite !(wc_shift alpha beta) by exact Hp.
  rewrite !(wc_shift gamma delta) by exact Hq.
  rewrite !(wc_shift_pq alpha beta gamma delta) by assumption.
  rewrite !diff_shift. reflexivity.
Qed.

(* ---- evaluation: the point enters through point - centre only ---- *)
Definition shift_shell (tx ty tz : F) (s : shell F) : shell F :=
  mkShell F (s_l s) (s_x s + tx) (s_y s + ty) (s_z s + tz) (s_exps s) (s_coeffs s)
          (s_sph s) (s_comps s) (s_labels s).
Definition shift_point (tx ty tz : F) (p : F * F * F) : F * F * F :=
  (fst (fst p) + tx, snd (fst p) + ty, snd p + tz).

Theorem prim_data_shift md ef s o tx ty tz p alpha :
  prim_data K md ef (shift_shell tx ty tz s) o (shift_point tx ty tz p) alpha
  = prim_data K md ef s o p alpha.
Proof.
  destruct p as [[px py] pz]. destruct o as [[ox oy] oz].
  unfold prim_data, shift_point, shift_shell. cbn [fst snd s_x s_y s_z s_l].
  rewrite !diff_shift. reflexivity.
Qed.

(* ---- shell-pair blocks ---- *)
(* every pair of exponents has a non-zero sum (true for positive exponents) *)
Definition exps_ok (sa sb : shell F) : Prop :=
  forall a b, In a (s_exps sa) -> In b (s_exps sb) -> a + b <> 0.

Lemma block_of_shift tx ty tz sa sb pf :
  block_of K (shift_shell tx ty tz sa) (shift_shell tx ty tz sb) pf = block_of K sa sb pf.
Proof. reflexivity. Qed.

Lemma tabs_shift Cx Cy Cz orders sa sb tx ty tz : exps_ok sa sb ->
  tabs K (Cx + tx) (Cy + ty) (Cz + tz) orders (shift_shell tx ty tz sa) (shift_shell tx ty tz sb)
  = tabs K Cx Cy Cz orders sa sb.
Proof.
  intros H. unfold tabs. cbn [shift_shell s_x s_y s_z s_l s_exps].
  apply map_ext_in; intros b Hb. apply map_ext_in; intros a Ha.
  rewrite !table_shift by (apply H; assumption). reflexivity.
Qed.

Theorem mm_block_shift Cx Cy Cz orders sa sb tx ty tz : exps_ok sa sb ->
  mm_block K (Cx + tx) (Cy + ty) (Cz + tz) orders (shift_shell tx ty tz sa) (shift_shell tx ty tz sb)
  = mm_block K Cx Cy Cz orders sa sb.
Proof.
  intros H. unfold mm_block. cbv zeta. rewrite tabs_shift by exact H.
  apply map_ext; intros o. apply block_of_shift.
Qed.

Theorem moment_block_shift Cx Cy Cz orders sa sb tx ty tz : exps_ok sa sb ->
  moment_block K (Cx + tx) (Cy + ty) (Cz + tz) orders (shift_shell tx ty tz sa) (shift_shell tx ty tz sb)
  = moment_block K Cx Cy Cz orders sa sb.
Proof. intros H. unfold moment_block. now rewrite mm_block_shift. Qed.

(* the overlap block uses the moment tables of order 0 about the origin 0: moving the origin along
   is allowed because order 0 does not see it; here simply 0 + t is not 0, so go through PC-free rows *)
Lemma table_order0_origin Ax Bx Cx Cx' alpha beta la lb :
  table K Ax Bx Cx alpha beta la lb 0 = table K Ax Bx Cx' alpha beta la lb 0.
Proof. reflexivity. Qed.

Lemma tabs0_shift sa sb tx ty tz : exps_ok sa sb ->
  tabs K 0 0 0 [(0, 0, 0)%nat] (shift_shell tx ty tz sa) (shift_shell tx ty tz sb)
  = tabs K 0 0 0 [(0, 0, 0)%nat] sa sb.
Proof.
  intros H. unfold tabs. cbn [shift_shell s_x s_y s_z s_l s_exps omax fold_right Nat.max].
  apply map_ext_in; intros b Hb. apply map_ext_in; intros a Ha.
  rewrite (table_order0_origin _ _ 0 (0 + tx)), (table_order0_origin _ _ 0 (0 + ty)),
          (table_order0_origin _ _ 0 (0 + tz)).
  rewrite !table_shift by (apply H; assumption). reflexivity.
Qed.

Theorem overlap_block_shift sa sb tx ty tz : exps_ok sa sb ->
  overlap_block K (shift_shell tx ty tz sa) (shift_shell tx ty tz sb) = overlap_block K sa sb.
Proof.
  intros H. unfold overlap_block, mm_block. cbv zeta. rewrite tabs0_shift by exact H.
  reflexivity.
Qed.

Lemma dtabs_shift D sa sb tx ty tz : exps_ok sa sb ->
  dtabs K D (shift_shell tx ty tz sa) (shift_shell tx ty tz sb) = dtabs K D sa sb.
Proof.
  intros H. unfold dtabs. cbn [shift_shell s_x s_y s_z s_l s_exps].
  apply map_ext_in; intros b Hb. apply map_ext_in; intros a Ha.
  rewrite !dtable_shift by (apply H; assumption). reflexivity.
Qed.

Theorem diffop_block_shift orders sa sb tx ty tz : exps_ok sa sb ->
  diffop_block K orders (shift_shell tx ty tz sa) (shift_shell tx ty tz sb) = diffop_block K orders sa sb.
Proof.
  intros H. unfold diffop_block. cbv zeta. rewrite dtabs_shift by exact H.
  apply map_ext; intros o. apply block_of_shift.
Qed.

Theorem kinetic_block_shift sa sb tx ty tz : exps_ok sa sb ->
  kinetic_block K (shift_shell tx ty tz sa) (shift_shell tx ty tz sb) = kinetic_block K sa sb.
Proof. intros H. unfold kinetic_block. now rewrite diffop_block_shift. Qed.

Theorem momentum_block_shift sa sb tx ty tz : exps_ok sa sb ->
  momentum_block_re K (shift_shell tx ty tz sa) (shift_shell tx ty tz sb) = momentum_block_re K sa sb.
Proof. intros H. unfold momentum_block_re. now rewrite diffop_block_shift. Qed.

(* ---- Boys-type blocks ---- *)
Lemma vrr_prims_shift L Cx Cy Cz sa sb tx ty tz : exps_ok sa sb ->
  map (fun beta => map (fun alpha =>
      vrr_prim K L (s_x sa + tx) (s_y sa + ty) (s_z sa + tz) (s_x sb + tx) (s_y sb + ty) (s_z sb + tz)
               (Cx + tx) (Cy + ty) (Cz + tz) alpha beta) (s_exps sa)) (s_exps sb)
  = map (fun beta => map (fun alpha =>
      vrr_prim K L (s_x sa) (s_y sa) (s_z sa) (s_x sb) (s_y sb) (s_z sb) Cx Cy Cz alpha beta)
      (s_exps sa)) (s_exps sb).
Proof.
  intros H. apply map_ext_in; intros b Hb. apply map_ext_in; intros a Ha.
  apply vrr_prim_shift. apply H; assumption.
Qed.

Theorem one_elec_point_shift Cx Cy Cz sa sb tx ty tz : exps_ok sa sb ->
  one_elec_point K (Cx + tx) (Cy + ty) (Cz + tz) (shift_shell tx ty tz sa) (shift_shell tx ty tz sb)
  = one_elec_point K Cx Cy Cz sa sb.
Proof.
  intros H. unfold one_elec_point. cbv zeta.
  change (comps_of (shift_shell tx ty tz sa)) with (comps_of sa).
  change (comps_of (shift_shell tx ty tz sb)) with (comps_of sb).
  change (nseg (shift_shell tx ty tz sa)) with (nseg sa).
  change (nseg (shift_shell tx ty tz sb)) with (nseg sb).
  cbn [shift_shell s_x s_y s_z s_l s_exps s_coeffs].
  rewrite (vrr_prims_shift _ Cx Cy Cz sa sb tx ty tz H).
  rewrite !diff_shift. reflexivity.
Qed.

Definition shift_charge (tx ty tz : F) (p : F * F * F * F) : F * F * F * F :=
  (fst (fst (fst p)) + tx, snd (fst (fst p)) + ty, snd (fst p) + tz, snd p).

Lemma exps_ok_sym sa sb : exps_ok sa sb -> exps_ok sb sa.
Proof. intros H a b Ha Hb. specialize (H b a Hb Ha). intro E. apply H. rewrite <- E. ring. Qed.

Theorem point_charge_block_shift points sa sb tx ty tz : exps_ok sa sb ->
  point_charge_block K (map (shift_charge tx ty tz) points)
                     (shift_shell tx ty tz sa) (shift_shell tx ty tz sb)
  = point_charge_block K points sa sb.
Proof.
  intros H. pose proof (exps_ok_sym _ _ H) as H'. unfold point_charge_block. cbv zeta.
  change (comps_of (shift_shell tx ty tz sa)) with (comps_of sa).
  change (comps_of (shift_shell tx ty tz sb)) with (comps_of sb).
  change (nseg (shift_shell tx ty tz sa)) with (nseg sa).
  change (nseg (shift_shell tx ty tz sb)) with (nseg sb).
  change (s_l (shift_shell tx ty tz sa)) with (s_l sa).
  change (s_l (shift_shell tx ty tz sb)) with (s_l sb).
  rewrite map_map.
  apply mk_ext; intros ma _. apply mk_ext; intros ia _. apply mk_ext; intros mb _.
  apply mk_ext; intros ib _. rewrite !map_map.
  apply map_ext. intros [[[cx cy] cz] q]. unfold shift_charge. cbn [fst snd].
  rewrite !one_elec_point_shift by assumption. reflexivity.
Qed.

Theorem eri_block_shift s1 s2 s3 s4 tx ty tz : exps_ok s1 s2 -> exps_ok s3 s4 ->
  eri_block K (shift_shell tx ty tz s1) (shift_shell tx ty tz s2)
              (shift_shell tx ty tz s3) (shift_shell tx ty tz s4)
  = eri_block K s1 s2 s3 s4.
Proof.
  intros H12 H34. unfold eri_block. cbv zeta.
  change (comps_of (shift_shell tx ty tz s1)) with (comps_of s1).
  change (comps_of (shift_shell tx ty tz s2)) with (comps_of s2).
  change (comps_of (shift_shell tx ty tz s3)) with (comps_of s3).
  change (comps_of (shift_shell tx ty tz s4)) with (comps_of s4).
  change (nseg (shift_shell tx ty tz s1)) with (nseg s1).
  change (nseg (shift_shell tx ty tz s2)) with (nseg s2).
  change (nseg (shift_shell tx ty tz s3)) with (nseg s3).
  change (nseg (shift_shell tx ty tz s4)) with (nseg s4).
  change (wts K (shift_shell tx ty tz s1)) with (wts K s1).
  change (wts K (shift_shell tx ty tz s2)) with (wts K s2).
  change (wts K (shift_shell tx ty tz s3)) with (wts K s3).
  change (wts K (shift_shell tx ty tz s4)) with (wts K s4).
  unfold coord3. cbn [shift_shell s_x s_y s_z s_l s_exps s_coeffs].
  rewrite !diff_shift.
  assert (E :
    map (fun alpha => map (fun beta => map (fun gamma => map (fun delta =>
      eri_prim K (s_l s1 + s_l s2 + s_l s3 + s_l s4) (s_l s3 + s_l s4)
        (s_x s1 + tx, s_y s1 + ty, s_z s1 + tz) (s_x s2 + tx, s_y s2 + ty, s_z s2 + tz)
        (s_x s3 + tx, s_y s3 + ty, s_z s3 + tz) (s_x s4 + tx, s_y s4 + ty, s_z s4 + tz)
        alpha beta gamma delta) (s_exps s4)) (s_exps s3)) (s_exps s2)) (s_exps s1)
    = map (fun alpha => map (fun beta => map (fun gamma => map (fun delta =>
      eri_prim K (s_l s1 + s_l s2 + s_l s3 + s_l s4) (s_l s3 + s_l s4)
        (s_x s1, s_y s1, s_z s1) (s_x s2, s_y s2, s_z s2)
        (s_x s3, s_y s3, s_z s3) (s_x s4, s_y s4, s_z s4)
        alpha beta gamma delta) (s_exps s4)) (s_exps s3)) (s_exps s2)) (s_exps s1)).
  { apply map_ext_in; intros a Ha. apply map_ext_in; intros b Hb.
    apply map_ext_in; intros c Hc. apply map_ext_in; intros d Hd.
    apply eri_prim_shift; [apply H12|apply H34]; assumption. }
  rewrite E. reflexivity.
Qed.

(* ---- evaluation blocks ---- *)
Theorem block_with_shift md cm ef s o pts tx ty tz :
  block_with K md cm ef (shift_shell tx ty tz s) o (map (shift_point tx ty tz) pts)
  = block_with K md cm ef s o pts.
Proof.
  unfold block_with. cbv zeta.
  change (comps_of (shift_shell tx ty tz s)) with (comps_of s).
  change (nseg (shift_shell tx ty tz s)) with (nseg s).
  change (norms K (shift_shell tx ty tz s)) with (norms K s).
  rewrite map_map.
  assert (E : forall p, pt_mat K md cm ef (shift_shell tx ty tz s) o (norms K s) (shift_point tx ty tz p)
                        = pt_mat K md cm ef s o (norms K s) p).
  { intros p. unfold pt_mat, pt_vals. cbv zeta.
    change (comps_of (shift_shell tx ty tz s)) with (comps_of s).
    change (nseg (shift_shell tx ty tz s)) with (nseg s).
    change (s_coeffs (shift_shell tx ty tz s)) with (s_coeffs s).
    change (s_exps (shift_shell tx ty tz s)) with (s_exps s).
    assert (E1 : map (prim_data K md ef (shift_shell tx ty tz s) o (shift_point tx ty tz p)) (s_exps s)
                 = map (prim_data K md ef s o p) (s_exps s)).
    { apply map_ext; intros a. apply prim_data_shift. }
    rewrite E1. reflexivity. }
  apply mk_ext; intros m _. apply mk_ext; intros c _.
  f_equal. apply map_ext; intros p. apply E.
Qed.

Theorem eval_block_shift s pts o bk tx ty tz :
  eval_block K (shift_shell tx ty tz s) (map (shift_point tx ty tz) pts) o bk = eval_block K s pts o bk.
Proof.
  unfold eval_block.
  change (comps_of (shift_shell tx ty tz s)) with (comps_of s).
  change (s_l (shift_shell tx ty tz s)) with (s_l s).
  now rewrite block_with_shift.
Qed.

(* ================================================================== *)
(* 2. origin laws                                                       *)
(* ================================================================== *)
Notation Bn := (pbin K).

Lemma Bn_gt : forall n k, (n < k)%nat -> Bn n k = 0.
Proof.
  induction n as [|n IH]; intros k Hk; destruct k as [|k']; try lia.
  - reflexivity.
  - cbn [pbin]. rewrite (IH k') by lia. rewrite (IH (S k')) by lia. ring.
Qed.

Lemma sumn_peel n f : sumn (S n) f = f 0%nat + sumn n (fun m => f (S m)).
Proof.
  induction n as [|n IH]; [cbn [Tables.sumn]; ring|].
  change (sumn (S (S n)) f) with (sumn (S n) f + f (S n)). rewrite IH.
  cbn [Tables.sumn]. ring.
Qed.
Lemma sumn_plus n f g : sumn n (fun k => f k + g k) = sumn n f + sumn n g.
Proof. induction n as [|n IH]; cbn [Tables.sumn]; [ring|]. rewrite IH. ring. Qed.
Lemma sumn_mult n c f : sumn n (fun k => c * f k) = c * sumn n f.
Proof. induction n as [|n IH]; cbn [Tables.sumn]; [ring|]. rewrite IH. ring. Qed.

(* sum_{m <= k} binom(k, m) t^(k-m) f(m) *)
Definition bsum (t : F) (k : nat) (f : nat -> F) : F :=
  sumn (S k) (fun m => Bn k m * fpow t (k - m) * f m).

Lemma bsum_0 t f : bsum t 0 f = f 0%nat.
Proof. unfold bsum. cbn [Tables.sumn pbin Nat.sub FNum.fpow]. ring. Qed.

(* Pascal's rule under the sum *)
Lemma bsum_S t k f : bsum t (S k) f = t * bsum t k f + bsum t k (fun m => f (S m)).
Proof.
  unfold bsum. rewrite (sumn_peel (S k)).
  rewrite (Tables.sumn_ext 0 (fadd K) (S k)
             (fun m => Bn (S k) (S m) * fpow t (S k - S m) * f (S m))
             (fun m => Bn k m * fpow t (k - m) * f (S m) + Bn k (S m) * fpow t (k - m) * f (S m))).
  2:{ intros i _. cbn [pbin Nat.sub]. ring. }
  rewrite sumn_plus.
  change (sumn (S k) (fun m => Bn k (S m) * fpow t (k - m) * f (S m)))
    with (sumn k (fun m => Bn k (S m) * fpow t (k - m) * f (S m))
          + Bn k (S k) * fpow t (k - k) * f (S k)).
  rewrite (Bn_gt k (S k)) by lia.
  rewrite (sumn_peel k (fun m => Bn k m * fpow t (k - m) * f m)).
  rewrite (Tables.sumn_ext 0 (fadd K) k
             (fun m => Bn k (S m) * fpow t (k - m) * f (S m))
             (fun m => t * (Bn k (S m) * fpow t (k - S m) * f (S m)))).
  2:{ intros i Hi. replace (k - i)%nat with (S (k - S i)) by lia. cbn [FNum.fpow]. ring. }
  rewrite sumn_mult. cbn [pbin Nat.sub FNum.fpow]. rewrite Nat.sub_0_r.
  destruct k; cbn [pbin]; ring.
Qed.

Lemma bsum_ext t k f g : (forall m, (m <= k)%nat -> f m = g m) -> bsum t k f = bsum t k g.
Proof. intros H. unfold bsum. apply Tables.sumn_ext. intros i Hi. rewrite H by lia. reflexivity. Qed.
Lemma bsum_plus t k f g : bsum t k (fun m => f m + g m) = bsum t k f + bsum t k g.
Proof. unfold bsum. rewrite <- sumn_plus. apply Tables.sumn_ext. intros. ring. Qed.
Lemma bsum_mult t k c f : bsum t k (fun m => c * f m) = c * bsum t k f.
Proof. unfold bsum. rewrite <- sumn_mult. apply Tables.sumn_ext. intros. ring. Qed.

(* moments about a displaced origin: (y + c + t)^k = sum_m binom(k,m) t^(k-m) (y + c)^m under E,
   whatever the other two linear factors and the auxiliary index are *)
Theorem S3_origin_shift v a b c t : forall k n i j,
  S3 K v a b (c + t) n k i j = bsum t k (fun m => S3 K v a b c n m i j).
Proof.
  induction k as [|k IH]; intros n i j.
  - rewrite bsum_0. reflexivity.
  - rewrite (S3_Sk K Kf), (IH n), (IH (S n)), bsum_S.
    rewrite (bsum_ext t k (fun m => S3 K v a b c n (S m) i j)
               (fun m => c * S3 K v a b c n m i j + S3 K v a b c (S n) m i j))
      by (intros m _; apply (S3_Sk K Kf)).
    rewrite bsum_plus, bsum_mult. ring.
Qed.

Theorem T3_origin_shift v a b c t k i j :
  T3 K v a b (c + t) k i j = bsum t k (fun m => T3 K v a b c m i j).
Proof. apply S3_origin_shift. Qed.

(* the same law for the table the code builds: moving the moment origin from Cx to Cx - t *)
Theorem table_origin_shift Ax Bx Cx alpha beta t la lb km k j i :
  psum K alpha beta <> 0 -> 1 + 1 <> 0 -> (k <= km)%nat -> (j <= lb)%nat -> (i <= la)%nat ->
  nth3 K k j i (table K Ax Bx (Cx - t) alpha beta la lb km)
  = bsum t k (fun m => nth3 K m j i (table K Ax Bx Cx alpha beta la lb km)).
Proof.
  intros Hp H2 Hk Hj Hi.
  rewrite (table_correct K Kf) by assumption.
  rewrite (bsum_ext t k _ (fun m => base K Ax Bx alpha beta *
      T3 K (1 / twop K alpha beta) (PA K Ax Bx alpha beta) (PB K Ax Bx alpha beta)
         (PC K Ax Bx Cx alpha beta) m i j)).
  2:{ intros m Hm. apply (table_correct K Kf); try assumption. lia. }
  rewrite bsum_mult. f_equal.
  replace (PC K Ax Bx (Cx - t) alpha beta) with (PC K Ax Bx Cx alpha beta + t)
    by (unfold PC; ring).
  apply T3_origin_shift.
Qed.

(* ---- angular momentum about a displaced origin: L' = L - d x p ----
   The angular-momentum model takes its first moments about the coordinate origin.  Moving the whole
   system by t (equivalently: moving the origin by d = -t) leaves the derivative tables unchanged and
   changes the first-moment tables by t times the overlap tables; the primitive products the block
   model contracts therefore change by (t x p), p the primitive products of the momentum model. *)
Section AngmomAxis.
Variables (Ax Bx alpha beta t : F) (la lb : nat).
Hypothesis Hp : psum K alpha beta <> 0.
Hypothesis H2 : 1 + 1 <> 0.

Lemma mtable_shift_0 j i : (j <= lb)%nat -> (i <= la)%nat ->
  nth3 K 0 j i (table K (Ax + t) (Bx + t) 0 alpha beta la lb 1)
  = nth3 K 0 j i (table K Ax Bx 0 alpha beta la lb 1).
Proof.
  intros Hj Hi.
  replace 0 with ((0 - t) + t) at 1 by ring. rewrite table_shift by exact Hp.
  rewrite table_origin_shift by (assumption || lia). apply bsum_0.
Qed.

Lemma mtable_shift_1 j i : (j <= lb)%nat -> (i <= la)%nat ->
  nth3 K 1 j i (table K (Ax + t) (Bx + t) 0 alpha beta la lb 1)
  = nth3 K 1 j i (table K Ax Bx 0 alpha beta la lb 1)
    + t * nth3 K 0 j i (table K Ax Bx 0 alpha beta la lb 1).
Proof.
  intros Hj Hi.
  replace 0 with ((0 - t) + t) at 1 by ring. rewrite table_shift by exact Hp.
  rewrite table_origin_shift by (assumption || lia).
  unfold bsum. cbn [Tables.sumn pbin Nat.sub FNum.fpow]. ring.
Qed.

(* the order-0 plane of the derivative table is the overlap plane of the moment table *)
Lemma dtable_order0 j i : (j <= lb)%nat -> (i <= la)%nat ->
  nth3 K 0 j i (dtable K Ax Bx alpha beta la lb 1)
  = nth3 K 0 j i (table K Ax Bx 0 alpha beta la lb 1).
Proof.
  intros Hj Hi. rewrite (diffop_slice_valid K Kf) by (assumption || lia).
  rewrite (table_correct K Kf) by (assumption || lia). reflexivity.
Qed.
End AngmomAxis.

Definition cross3 (u w : F * F * F) : list F :=
  let '(ux, uy, uz) := u in let '(wx, wy, wz) := w in
  [uy * wz - uz * wy; uz * wx - ux * wz; ux * wy - uy * wx].

Theorem angmom_prim_shift Ax Ay Az Bx By Bz alpha beta tx ty tz la lb (ca cb : comp) :
  (forall x, fapx K x = x) ->
  alpha + beta <> 0 -> 1 + 1 <> 0 ->
  (fst (fst ca) <= la /\ snd (fst ca) <= la /\ snd ca <= la)%nat ->
  (fst (fst cb) <= lb /\ snd (fst cb) <= lb /\ snd cb <= lb)%nat ->
  let d := (dtable K Ax Bx alpha beta la lb 1, dtable K Ay By alpha beta la lb 1,
            dtable K Az Bz alpha beta la lb 1) in
  let m0 := (table K Ax Bx 0 alpha beta la lb 1, table K Ay By 0 alpha beta la lb 1,
             table K Az Bz 0 alpha beta la lb 1) in
  let mt := (table K (Ax + tx) (Bx + tx) 0 alpha beta la lb 1,
             table K (Ay + ty) (By + ty) 0 alpha beta la lb 1,
             table K (Az + tz) (Bz + tz) 0 alpha beta la lb 1) in
  let p := (prim3 K d (1, 0, 0)%nat ca cb, prim3 K d (0, 1, 0)%nat ca cb, prim3 K d (0, 0, 1)%nat ca cb) in
  angmom_prim K d mt ca cb
  = map (fun '(l, x) => l + x) (combine (angmom_prim K d m0 ca cb) (cross3 (tx, ty, tz) p)).
Proof.
  intros Hapx Hp H2 Ha Hb.
  destruct ca as [[ax ay] az]. destruct cb as [[bx by_] bz]. cbn [fst snd] in Ha, Hb.
  destruct Ha as (Hax & Hay & Haz). destruct Hb as (Hbx & Hby & Hbz).
  cbv zeta. unfold angmom_prim, prim3, cross3. cbn [map combine].
  rewrite !Hapx.
  rewrite !mtable_shift_0, !mtable_shift_1 by assumption.
  rewrite !dtable_order0 by assumption.
  f_equal; [ring|]. f_equal; [ring|]. f_equal. ring.
Qed.

(* ================================================================== *)
(* 3. signed axis permutations                                          *)
(* ================================================================== *)
Definition sg (n : nat) : F := fpow (fopp K (f1 K)) n.
Lemma sg_S n : sg (S n) = - sg n.
Proof. unfold sg. cbn [FNum.fpow]. ring. Qed.
Lemma sg_SS n : sg (S (S n)) = sg n.
Proof. rewrite !sg_S. ring. Qed.
Lemma sg_sq n : sg n * sg n = 1.
Proof. induction n as [|n IH]; [unfold sg; cbn [FNum.fpow]; ring|]. rewrite sg_S.
  transitivity (sg n * sg n); [ring|exact IH]. Qed.

(* odd moments of the centred Gaussian vanish *)
Lemma mom_parity v : forall n, mom K v n = sg n * mom K v n /\ mom K v (S n) = sg (S n) * mom K v (S n).
Proof.
  induction n as [|n [IH1 IH2]].
  - split; [unfold sg; cbn [FNum.fpow]; rewrite mom_0; ring|rewrite mom_1; ring].
  - split; [exact IH2|]. rewrite mom_SS, sg_SS. rewrite IH1 at 1. ring.
Qed.

(* reflection of the axis: all three linear factors change sign *)
Theorem S3_parity v a b c : forall k i j n,
  S3 K v (- a) (- b) (- c) n k i j = sg (n + k + i + j) * S3 K v a b c n k i j.
Proof.
  induction k as [|k IHk].
  - induction i as [|i IHi].
    + induction j as [|j IHj]; intros n.
      * unfold S3, g3. cbn [plin_pow Eaux]. rewrite !Nat.add_0_r.
        destruct (mom_parity v n) as [E _]. rewrite E at 1. ring.
      * rewrite (S3_Sj K Kf v (- a) (- b) (- c)), (S3_Sj K Kf v a b c), (IHj n), (IHj (S n)).
        replace (n + 0 + 0 + S j)%nat with (S (n + 0 + 0 + j)) by lia.
        replace (S n + 0 + 0 + j)%nat with (S (n + 0 + 0 + j)) by lia.
        rewrite sg_S. ring.
    + intros j n.
      rewrite (S3_Si K Kf v (- a) (- b) (- c)), (S3_Si K Kf v a b c), (IHi j n), (IHi j (S n)).
      replace (n + 0 + S i + j)%nat with (S (n + 0 + i + j)) by lia.
      replace (S n + 0 + i + j)%nat with (S (n + 0 + i + j)) by lia.
      rewrite sg_S. ring.
  - intros i j n.
    rewrite (S3_Sk K Kf v (- a) (- b) (- c)), (S3_Sk K Kf v a b c), (IHk i j n), (IHk i j (S n)).
    replace (n + S k + i + j)%nat with (S (n + k + i + j)) by lia.
    replace (S n + k + i + j)%nat with (S (n + k + i + j)) by lia.
    rewrite sg_S. ring.
Qed.

Theorem T3_parity v a b c k i j :
  T3 K v (- a) (- b) (- c) k i j = sg (k + i + j) * T3 K v a b c k i j.
Proof. unfold T3. apply (S3_parity v a b c k i j 0%nat). Qed.

Section ParityAxis.
Variables (Ax Bx Cx alpha beta : F) (la lb : nat).
Hypothesis Hp : psum K alpha beta <> 0.
Hypothesis H2 : 1 + 1 <> 0.

Lemma PA_neg : PA K (- Ax) (- Bx) alpha beta = - PA K Ax Bx alpha beta.
Proof. unfold PA, Pw, psum in *. field. exact Hp. Qed.
Lemma PB_neg : PB K (- Ax) (- Bx) alpha beta = - PB K Ax Bx alpha beta.
Proof. unfold PB, Pw, psum in *. field. exact Hp. Qed.
Lemma PC_neg : PC K (- Ax) (- Bx) (- Cx) alpha beta = - PC K Ax Bx Cx alpha beta.
Proof. unfold PC, Pw, psum in *. field. exact Hp. Qed.
(* the argument of the exponential is unchanged *)
Lemma base_neg : base K (- Ax) (- Bx) alpha beta = base K Ax Bx alpha beta.
Proof. unfold base. replace ((- Ax - - Bx) * (- Ax - - Bx)) with ((Ax - Bx) * (Ax - Bx)) by ring.
  reflexivity. Qed.

(* the moment table of the reflected axis: entry (k, j, i) picks up (-1)^(k+i+j) *)
Theorem table_parity km k j i : (k <= km)%nat -> (j <= lb)%nat -> (i <= la)%nat ->
  nth3 K k j i (table K (- Ax) (- Bx) (- Cx) alpha beta la lb km)
  = sg (k + i + j) * nth3 K k j i (table K Ax Bx Cx alpha beta la lb km).
Proof.
  intros Hk Hj Hi. rewrite !(table_correct K Kf) by assumption.
  rewrite PA_neg, PB_neg, PC_neg, base_neg, T3_parity. ring.
Qed.

(* the derivative tables: differentiating flips the parity once more *)
Lemma Sfun_neg i j : Sfun K (- Ax) (- Bx) alpha beta i j = sg (i + j) * Sfun K Ax Bx alpha beta i j.
Proof.
  unfold Sfun. rewrite PA_neg, PB_neg, base_neg.
  replace 0 with (- 0) at 1 by ring. rewrite T3_parity. cbn [Nat.add]. ring.
Qed.

Lemma negA_parity (T T' : nat -> nat -> F) k :
  (forall i j, T' i j = sg (k + i + j) * T i j) ->
  forall i j, negA K alpha T' i j = sg (S k + i + j) * negA K alpha T i j.
Proof.
  intros H i j. unfold negA. rewrite !H.
  replace (k + S i + j)%nat with (S (k + i + j)) by lia.
  replace (S k + i + j)%nat with (S (k + i + j)) by lia.
  destruct i as [|i'].
  - cbn [ofnat]. ring.
  - replace (S i' - 1)%nat with i' by lia.
    replace (k + S i' + j)%nat with (S (k + i' + j)) by lia.
    rewrite !sg_S. ring.
Qed.

Lemma iter_negA_parity k : forall i j,
  iterop (negA K alpha) k (Sfun K (- Ax) (- Bx) alpha beta) i j
  = sg (k + i + j) * iterop (negA K alpha) k (Sfun K Ax Bx alpha beta) i j.
Proof.
  induction k as [|k IH]; intros i j.
  - cbn [iterop Nat.add]. apply Sfun_neg.
  - cbn [iterop]. apply (negA_parity _ _ k IH).
Qed.

Theorem dtable_parity D k j i : (k <= D)%nat -> (j <= lb)%nat -> (i <= la)%nat ->
  nth3 K k j i (dtable K (- Ax) (- Bx) alpha beta la lb D)
  = sg (k + i + j) * nth3 K k j i (dtable K Ax Bx alpha beta la lb D).
Proof.
  intros Hk Hj Hi. rewrite !(diffop_slice_valid K Kf) by assumption. apply iter_negA_parity.
Qed.
End ParityAxis.

(* ---- the 3-D primitive is a product over the axes ---- *)
Definition swap_xy {A} (c : A * A * A) : A * A * A := (snd (fst c), fst (fst c), snd c).
Definition swap_yz {A} (c : A * A * A) : A * A * A := (fst (fst c), snd c, snd (fst c)).

(* exchanging two axes of the tables exchanges the corresponding component / order indices *)
Theorem prim3_swap_xy (t : table3 (F:=F)) (o ca cb : comp) :
  prim3 K (swap_xy t) (swap_xy o) (swap_xy ca) (swap_xy cb) = prim3 K t o ca cb.
Proof.
  destruct t as [[tx ty] tz], o as [[ox oy] oz], ca as [[ax ay] az], cb as [[bx by_] bz].
  unfold swap_xy, prim3. cbn [fst snd]. f_equal. ring.
Qed.
Theorem prim3_swap_yz (t : table3 (F:=F)) (o ca cb : comp) :
  prim3 K (swap_yz t) (swap_yz o) (swap_yz ca) (swap_yz cb) = prim3 K t o ca cb.
Proof.
  destruct t as [[tx ty] tz], o as [[ox oy] oz], ca as [[ax ay] az], cb as [[bx by_] bz].
  unfold swap_yz, prim3. cbn [fst snd]. f_equal. ring.
Qed.

(* the primitive norm does not care which axis carries which power *)
Lemma norm_prim_swap_xy l (c : comp) alpha : norm_prim K l (swap_xy c) alpha = norm_prim K l c alpha.
Proof.
  destruct c as [[ax ay] az]. unfold swap_xy, norm_prim. cbn [fst snd].
  replace (fdf_odd K ay * fdf_odd K ax * fdf_odd K az) with (fdf_odd K ax * fdf_odd K ay * fdf_odd K az)
    by ring. reflexivity.
Qed.
Lemma norm_prim_swap_yz l (c : comp) alpha : norm_prim K l (swap_yz c) alpha = norm_prim K l c alpha.
Proof.
  destruct c as [[ax ay] az]. unfold swap_yz, norm_prim. cbn [fst snd].
  replace (fdf_odd K ax * fdf_odd K az * fdf_odd K ay) with (fdf_odd K ax * fdf_odd K ay * fdf_odd K az)
    by ring. reflexivity.
Qed.

(* the shell with two coordinate axes exchanged / one axis reflected (same exponents, coefficients,
   type and component conventions: the conventions are those of the frame, not of the molecule) *)
Definition swap_xy_shell (s : shell F) : shell F :=
  mkShell F (s_l s) (s_y s) (s_x s) (s_z s) (s_exps s) (s_coeffs s) (s_sph s) (s_comps s) (s_labels s).
Definition swap_yz_shell (s : shell F) : shell F :=
  mkShell F (s_l s) (s_x s) (s_z s) (s_y s) (s_exps s) (s_coeffs s) (s_sph s) (s_comps s) (s_labels s).
Definition reflect_x_shell (s : shell F) : shell F :=
  mkShell F (s_l s) (- s_x s) (s_y s) (s_z s) (s_exps s) (s_coeffs s) (s_sph s) (s_comps s) (s_labels s).

(* the per-primitive tables of the axis-exchanged system are the exchanged tables *)
Theorem tabs_swap_xy Cx Cy Cz orders orders' sa sb : omax orders' = omax orders ->
  tabs K Cy Cx Cz orders' (swap_xy_shell sa) (swap_xy_shell sb)
  = map (map swap_xy) (tabs K Cx Cy Cz orders sa sb).
Proof.
  intros Ho. unfold tabs. rewrite Ho. cbn [swap_xy_shell s_x s_y s_z s_l s_exps].
  rewrite map_map. apply map_ext; intros b. rewrite map_map. apply map_ext; intros a. reflexivity.
Qed.
Theorem tabs_swap_yz Cx Cy Cz orders orders' sa sb : omax orders' = omax orders ->
  tabs K Cx Cz Cy orders' (swap_yz_shell sa) (swap_yz_shell sb)
  = map (map swap_yz) (tabs K Cx Cy Cz orders sa sb).
Proof.
  intros Ho. unfold tabs. rewrite Ho. cbn [swap_yz_shell s_x s_y s_z s_l s_exps].
  rewrite map_map. apply map_ext; intros b. rewrite map_map. apply map_ext; intros a. reflexivity.
Qed.
Theorem dtabs_swap_xy D sa sb :
  dtabs K D (swap_xy_shell sa) (swap_xy_shell sb) = map (map swap_xy) (dtabs K D sa sb).
Proof.
  unfold dtabs. cbn [swap_xy_shell s_x s_y s_z s_l s_exps].
  rewrite map_map. apply map_ext; intros b. rewrite map_map. apply map_ext; intros a. reflexivity.
Qed.
Theorem dtabs_swap_yz D sa sb :
  dtabs K D (swap_yz_shell sa) (swap_yz_shell sb) = map (map swap_yz) (dtabs K D sa sb).
Proof.
  unfold dtabs. cbn [swap_yz_shell s_x s_y s_z s_l s_exps].
  rewrite map_map. apply map_ext; intros b. rewrite map_map. apply map_ext; intros a. reflexivity.
Qed.

(* hence the array of primitive integrals handed to the contraction is the same array, read at the
   exchanged component / order indices: both the moment family (overlap, multipole moments) ... *)
Theorem prim_array_swap_xy Cx Cy Cz orders orders' sa sb (o ca cb : comp) :
  omax orders' = omax orders ->
  map (map (fun t => prim3 K t (swap_xy o) (swap_xy ca) (swap_xy cb)))
      (tabs K Cy Cx Cz orders' (swap_xy_shell sa) (swap_xy_shell sb))
  = map (map (fun t => prim3 K t o ca cb)) (tabs K Cx Cy Cz orders sa sb).
Proof.
  intros Ho. rewrite (tabs_swap_xy Cx Cy Cz orders orders' sa sb Ho).
  rewrite map_map. apply map_ext; intros row. rewrite map_map. apply map_ext; intros t.
  apply prim3_swap_xy.
Qed.
Theorem prim_array_swap_yz Cx Cy Cz orders orders' sa sb (o ca cb : comp) :
  omax orders' = omax orders ->
  map (map (fun t => prim3 K t (swap_yz o) (swap_yz ca) (swap_yz cb)))
      (tabs K Cx Cz Cy orders' (swap_yz_shell sa) (swap_yz_shell sb))
  = map (map (fun t => prim3 K t o ca cb)) (tabs K Cx Cy Cz orders sa sb).
Proof.
  intros Ho. rewrite (tabs_swap_yz Cx Cy Cz orders orders' sa sb Ho).
  rewrite map_map. apply map_ext; intros row. rewrite map_map. apply map_ext; intros t.
  apply prim3_swap_yz.
Qed.
(* ... and the derivative family (kinetic energy, momentum) *)
Theorem dprim_array_swap_xy D sa sb (o ca cb : comp) :
  map (map (fun t => prim3 K t (swap_xy o) (swap_xy ca) (swap_xy cb)))
      (dtabs K D (swap_xy_shell sa) (swap_xy_shell sb))
  = map (map (fun t => prim3 K t o ca cb)) (dtabs K D sa sb).
Proof.
  rewrite dtabs_swap_xy.
  rewrite map_map. apply map_ext; intros row. rewrite map_map. apply map_ext; intros t.
  apply prim3_swap_xy.
Qed.
Theorem dprim_array_swap_yz D sa sb (o ca cb : comp) :
  map (map (fun t => prim3 K t (swap_yz o) (swap_yz ca) (swap_yz cb)))
      (dtabs K D (swap_yz_shell sa) (swap_yz_shell sb))
  = map (map (fun t => prim3 K t o ca cb)) (dtabs K D sa sb).
Proof.
  rewrite dtabs_swap_yz.
  rewrite map_map. apply map_ext; intros row. rewrite map_map. apply map_ext; intros t.
  apply prim3_swap_yz.
Qed.

(* reflection of the x axis at the level of the 3-D primitive product *)
Theorem prim3_reflect_x Ax Bx Cx alpha beta la lb km (ty tz : list (list (list F))) (o ca cb : comp) :
  (forall x, fapx K x = x) -> psum K alpha beta <> 0 -> 1 + 1 <> 0 ->
  (fst (fst o) <= km)%nat -> (fst (fst ca) <= la)%nat -> (fst (fst cb) <= lb)%nat ->
  prim3 K (table K (- Ax) (- Bx) (- Cx) alpha beta la lb km, ty, tz) o ca cb
  = sg (fst (fst o) + fst (fst ca) + fst (fst cb))
    * prim3 K (table K Ax Bx Cx alpha beta la lb km, ty, tz) o ca cb.
Proof.
  intros Hapx Hp H2 Ho Ha Hb.
  destruct o as [[ox oy] oz], ca as [[ax ay] az], cb as [[bx by_] bz]. cbn [fst snd] in *.
  unfold prim3. rewrite !Hapx. rewrite table_parity by assumption. ring.
Qed.
Theorem dprim3_reflect_x Ax Bx alpha beta la lb D (ty tz : list (list (list F))) (o ca cb : comp) :
  (forall x, fapx K x = x) -> psum K alpha beta <> 0 -> 1 + 1 <> 0 ->
  (fst (fst o) <= D)%nat -> (fst (fst ca) <= la)%nat -> (fst (fst cb) <= lb)%nat ->
  prim3 K (dtable K (- Ax) (- Bx) alpha beta la lb D, ty, tz) o ca cb
  = sg (fst (fst o) + fst (fst ca) + fst (fst cb))
    * prim3 K (dtable K Ax Bx alpha beta la lb D, ty, tz) o ca cb.
Proof.
  intros Hapx Hp H2 Ho Ha Hb.
  destruct o as [[ox oy] oz], ca as [[ax ay] az], cb as [[bx by_] bz]. cbn [fst snd] in *.
  unfold prim3. rewrite !Hapx. rewrite dtable_parity by assumption. ring.
Qed.

(* ---- lifted to the contracted shell-pair blocks ---- *)
Definition get4 (ma ia mb ib : nat) (blk : list (list (list (list F)))) : F :=
  nth ib (nth mb (nth ia (nth ma blk []) []) []) 0.

Lemma nth_norms (s : shell F) i : (i < length (comps_of s))%nat ->
  nth i (norms K s) [] = map (norm_prim K (s_l s) (nth i (comps_of s) (0, 0, 0)%nat)) (s_exps s).
Proof.
  intros Hi. unfold norms.
  rewrite (nth_indep _ [] (map (norm_prim K (s_l s) (0, 0, 0)%nat) (s_exps s))) by (now rewrite map_length).
  apply (map_nth (fun c => map (norm_prim K (s_l s) c) (s_exps s))).
Qed.

(* two blocks built from primitive arrays that agree at (possibly different) component positions,
   over shells with the same radial data, agree at those positions *)
Lemma block_entry_transport (sa sb sa' sb' : shell F) (pf pf' : comp -> comp -> list (list F))
      ma ia ia' mb ib ib' :
  s_coeffs sa' = s_coeffs sa -> s_coeffs sb' = s_coeffs sb ->
  comps_of sa' = comps_of sa -> comps_of sb' = comps_of sb ->
  s_exps sa' = s_exps sa -> s_exps sb' = s_exps sb -> s_l sa' = s_l sa -> s_l sb' = s_l sb ->
  (ma < nseg sa)%nat -> (mb < nseg sb)%nat ->
  (ia < length (comps_of sa))%nat -> (ia' < length (comps_of sa))%nat ->
  (ib < length (comps_of sb))%nat -> (ib' < length (comps_of sb))%nat ->
  (forall alpha, norm_prim K (s_l sa) (nth ia' (comps_of sa) (0, 0, 0)%nat) alpha
                 = norm_prim K (s_l sa) (nth ia (comps_of sa) (0, 0, 0)%nat) alpha) ->
  (forall beta, norm_prim K (s_l sb) (nth ib' (comps_of sb) (0, 0, 0)%nat) beta
                = norm_prim K (s_l sb) (nth ib (comps_of sb) (0, 0, 0)%nat) beta) ->
  pf' (nth ia' (comps_of sa) (0, 0, 0)%nat) (nth ib' (comps_of sb) (0, 0, 0)%nat)
  = pf (nth ia (comps_of sa) (0, 0, 0)%nat) (nth ib (comps_of sb) (0, 0, 0)%nat) ->
  get4 ma ia' mb ib' (block_of K sa' sb' pf') = get4 ma ia mb ib (block_of K sa sb pf).
Proof.
  intros Hca Hcb Hka Hkb Hea Heb Hla Hlb Hma Hmb Hia Hia' Hib Hib' Hna Hnb Hpf.
  assert (Hsa : nseg sa' = nseg sa) by (unfold nseg; now rewrite Hca).
  assert (Hsb : nseg sb' = nseg sb) by (unfold nseg; now rewrite Hcb).
  unfold get4.
  rewrite (block_of_entry K sa' sb') by (rewrite ?Hsa, ?Hsb, ?Hka, ?Hkb; assumption).
  rewrite (block_of_entry K sa sb) by assumption.
  rewrite !nth_norms by (rewrite ?Hka, ?Hkb; assumption).
  rewrite Hka, Hkb, Hea, Heb, Hla, Hlb, Hpf.
  rewrite (map_ext _ _ Hna), (map_ext _ _ Hnb).
  unfold entry_sum. rewrite Hca, Hcb. reflexivity.
Qed.

Lemma omax_swap_xy orders : omax (map swap_xy orders) = omax orders.
Proof.
  induction orders as [|[[ox oy] oz] os IH]; [reflexivity|].
  cbn [map omax fold_right swap_xy fst snd] in *. unfold omax in IH. rewrite IH. lia.
Qed.
Lemma omax_swap_yz orders : omax (map swap_yz orders) = omax orders.
Proof.
  induction orders as [|[[ox oy] oz] os IH]; [reflexivity|].
  cbn [map omax fold_right swap_yz fst snd] in *. unfold omax in IH. rewrite IH. lia.
Qed.

Lemma nth_map_in {A B} (f : A -> B) l i da db : (i < length l)%nat -> nth i (map f l) db = f (nth i l da).
Proof. intros Hi. rewrite (nth_indep _ db (f da)) by (now rewrite map_length). apply map_nth. Qed.

(* multipole-moment / overlap blocks: the block of the x<->y exchanged system (origin and orders
   exchanged along) holds, at the exchanged component positions, the entries of the original block *)
Theorem mm_block_swap_xy Cx Cy Cz orders sa sb io ma ia ia' mb ib ib' :
  (io < length orders)%nat -> (ma < nseg sa)%nat -> (mb < nseg sb)%nat ->
  (ia < length (comps_of sa))%nat -> (ia' < length (comps_of sa))%nat ->
  (ib < length (comps_of sb))%nat -> (ib' < length (comps_of sb))%nat ->
  nth ia' (comps_of sa) (0, 0, 0)%nat = swap_xy (nth ia (comps_of sa) (0, 0, 0)%nat) ->
  nth ib' (comps_of sb) (0, 0, 0)%nat = swap_xy (nth ib (comps_of sb) (0, 0, 0)%nat) ->
  get4 ma ia' mb ib'
    (nth io (mm_block K Cy Cx Cz (map swap_xy orders) (swap_xy_shell sa) (swap_xy_shell sb)) [])
  = get4 ma ia mb ib (nth io (mm_block K Cx Cy Cz orders sa sb) []).
Proof.
  intros Hio Hma Hmb Hia Hia' Hib Hib' Ea Eb.
  unfold mm_block. cbv zeta.
  rewrite (nth_map_in _ (map swap_xy orders) io (0, 0, 0)%nat) by (now rewrite map_length).
  rewrite (nth_map_in swap_xy orders io (0, 0, 0)%nat) by assumption.
  rewrite (nth_map_in _ orders io (0, 0, 0)%nat) by assumption.
  apply block_entry_transport; try reflexivity; try assumption.
  - intros alpha. rewrite Ea. apply norm_prim_swap_xy.
  - intros beta. rewrite Eb. apply norm_prim_swap_xy.
  - rewrite Ea, Eb. apply prim_array_swap_xy. apply omax_swap_xy.
Qed.
Theorem mm_block_swap_yz Cx Cy Cz orders sa sb io ma ia ia' mb ib ib' :
  (io < length orders)%nat -> (ma < nseg sa)%nat -> (mb < nseg sb)%nat ->
  (ia < length (comps_of sa))%nat -> (ia' < length (comps_of sa))%nat ->
  (ib < length (comps_of sb))%nat -> (ib' < length (comps_of sb))%nat ->
  nth ia' (comps_of sa) (0, 0, 0)%nat = swap_yz (nth ia (comps_of sa) (0, 0, 0)%nat) ->
  nth ib' (comps_of sb) (0, 0, 0)%nat = swap_yz (nth ib (comps_of sb) (0, 0, 0)%nat) ->
  get4 ma ia' mb ib'
    (nth io (mm_block K Cx Cz Cy (map swap_yz orders) (swap_yz_shell sa) (swap_yz_shell sb)) [])
  = get4 ma ia mb ib (nth io (mm_block K Cx Cy Cz orders sa sb) []).
Proof.
  intros Hio Hma Hmb Hia Hia' Hib Hib' Ea Eb.
  unfold mm_block. cbv zeta.
  rewrite (nth_map_in _ (map swap_yz orders) io (0, 0, 0)%nat) by (now rewrite map_length).
  rewrite (nth_map_in swap_yz orders io (0, 0, 0)%nat) by assumption.
  rewrite (nth_map_in _ orders io (0, 0, 0)%nat) by assumption.
  apply block_entry_transport; try reflexivity; try assumption.
  - intros alpha. rewrite Ea. apply norm_prim_swap_yz.
  - intros beta. rewrite Eb. apply norm_prim_swap_yz.
  - rewrite Ea, Eb. apply prim_array_swap_yz. apply omax_swap_yz.
Qed.

Theorem overlap_block_swap_xy sa sb ma ia ia' mb ib ib' :
  (ma < nseg sa)%nat -> (mb < nseg sb)%nat ->
  (ia < length (comps_of sa))%nat -> (ia' < length (comps_of sa))%nat ->
  (ib < length (comps_of sb))%nat -> (ib' < length (comps_of sb))%nat ->
  nth ia' (comps_of sa) (0, 0, 0)%nat = swap_xy (nth ia (comps_of sa) (0, 0, 0)%nat) ->
  nth ib' (comps_of sb) (0, 0, 0)%nat = swap_xy (nth ib (comps_of sb) (0, 0, 0)%nat) ->
  get4 ma ia' mb ib' (overlap_block K (swap_xy_shell sa) (swap_xy_shell sb))
  = get4 ma ia mb ib (overlap_block K sa sb).
Proof.
  intros. unfold overlap_block.
  change (hd [] ?l) with (nth 0 l []).
  apply (mm_block_swap_xy 0 0 0 [(0, 0, 0)%nat] sa sb 0); try assumption. cbn; lia.
Qed.
Theorem overlap_block_swap_yz sa sb ma ia ia' mb ib ib' :
  (ma < nseg sa)%nat -> (mb < nseg sb)%nat ->
  (ia < length (comps_of sa))%nat -> (ia' < length (comps_of sa))%nat ->
  (ib < length (comps_of sb))%nat -> (ib' < length (comps_of sb))%nat ->
  nth ia' (comps_of sa) (0, 0, 0)%nat = swap_yz (nth ia (comps_of sa) (0, 0, 0)%nat) ->
  nth ib' (comps_of sb) (0, 0, 0)%nat = swap_yz (nth ib (comps_of sb) (0, 0, 0)%nat) ->
  get4 ma ia' mb ib' (overlap_block K (swap_yz_shell sa) (swap_yz_shell sb))
  = get4 ma ia mb ib (overlap_block K sa sb).
Proof.
  intros. unfold overlap_block.
  change (hd [] ?l) with (nth 0 l []).
  apply (mm_block_swap_yz 0 0 0 [(0, 0, 0)%nat] sa sb 0); try assumption. cbn; lia.
Qed.

(* derivative blocks (kinetic energy: orders (2,0,0),(0,2,0),(0,0,2); momentum: (1,0,0),...) *)
Theorem diffop_block_swap_xy orders sa sb io ma ia ia' mb ib ib' :
  (io < length orders)%nat -> (ma < nseg sa)%nat -> (mb < nseg sb)%nat ->
  (ia < length (comps_of sa))%nat -> (ia' < length (comps_of sa))%nat ->
  (ib < length (comps_of sb))%nat -> (ib' < length (comps_of sb))%nat ->
  nth ia' (comps_of sa) (0, 0, 0)%nat = swap_xy (nth ia (comps_of sa) (0, 0, 0)%nat) ->
  nth ib' (comps_of sb) (0, 0, 0)%nat = swap_xy (nth ib (comps_of sb) (0, 0, 0)%nat) ->
  get4 ma ia' mb ib'
    (nth io (diffop_block K (map swap_xy orders) (swap_xy_shell sa) (swap_xy_shell sb)) [])
  = get4 ma ia mb ib (nth io (diffop_block K orders sa sb) []).
Proof.
  intros Hio Hma Hmb Hia Hia' Hib Hib' Ea Eb.
  unfold diffop_block. cbv zeta. rewrite omax_swap_xy.
  rewrite (nth_map_in _ (map swap_xy orders) io (0, 0, 0)%nat) by (now rewrite map_length).
  rewrite (nth_map_in swap_xy orders io (0, 0, 0)%nat) by assumption.
  rewrite (nth_map_in _ orders io (0, 0, 0)%nat) by assumption.
  apply block_entry_transport; try reflexivity; try assumption.
  - intros alpha. rewrite Ea. apply norm_prim_swap_xy.
  - intros beta. rewrite Eb. apply norm_prim_swap_xy.
  - rewrite Ea, Eb. apply dprim_array_swap_xy.
Qed.
Theorem diffop_block_swap_yz orders sa sb io ma ia ia' mb ib ib' :
  (io < length orders)%nat -> (ma < nseg sa)%nat -> (mb < nseg sb)%nat ->
  (ia < length (comps_of sa))%nat -> (ia' < length (comps_of sa))%nat ->
  (ib < length (comps_of sb))%nat -> (ib' < length (comps_of sb))%nat ->
  nth ia' (comps_of sa) (0, 0, 0)%nat = swap_yz (nth ia (comps_of sa) (0, 0, 0)%nat) ->
  nth ib' (comps_of sb) (0, 0, 0)%nat = swap_yz (nth ib (comps_of sb) (0, 0, 0)%nat) ->
  get4 ma ia' mb ib'
    (nth io (diffop_block K (map swap_yz orders) (swap_yz_shell sa) (swap_yz_shell sb)) [])
  = get4 ma ia mb ib (nth io (diffop_block K orders sa sb) []).
Proof.
  intros Hio Hma Hmb Hia Hia' Hib Hib' Ea Eb.
  unfold diffop_block. cbv zeta. rewrite omax_swap_yz.
  rewrite (nth_map_in _ (map swap_yz orders) io (0, 0, 0)%nat) by (now rewrite map_length).
  rewrite (nth_map_in swap_yz orders io (0, 0, 0)%nat) by assumption.
  rewrite (nth_map_in _ orders io (0, 0, 0)%nat) by assumption.
  apply block_entry_transport; try reflexivity; try assumption.
  - intros alpha. rewrite Ea. apply norm_prim_swap_yz.
  - intros beta. rewrite Eb. apply norm_prim_swap_yz.
  - rewrite Ea, Eb. apply dprim_array_swap_yz.
Qed.

(* ---- Boys-type integrals, at the level of the specification (Gauss/SPoly.v) ----
   The one-axis factor is the s-polynomial [Pc pa pc v a]; the array entry is Phi_m of it for ANY
   sequence beta ([V_is_Phi]).  Reflection of the axis (pa, pc -> -pa, -pc) multiplies the
   polynomial by (-1)^a: seen through every Phi_m (every beta) and through every evaluation. *)
Theorem Vf_parity pa pc v (beta : nat -> F) : forall a m,
  Vf K (- pa) (- pc) v beta a m = sg a * Vf K pa pc v beta a m
  /\ Vf K (- pa) (- pc) v beta (S a) m = sg (S a) * Vf K pa pc v beta (S a) m.
Proof.
  induction a as [|a IH]; intros m.
  - split; [rewrite !Vf_0|rewrite !Vf_1]; unfold sg; cbn [FNum.fpow]; ring.
  - split; [apply IH|]. rewrite !Vf_SS.
    destruct (IH m) as [E0 E1]. destruct (IH (S m)) as [E0' E1'].
    rewrite E0, E1, E0', E1'. rewrite !sg_S. ring.
Qed.

Theorem Pc_parity_Phi pa pc v (beta : nat -> F) a m :
  Phi K beta m (Pc K (- pa) (- pc) v a) = sg a * Phi K beta m (Pc K pa pc v a).
Proof.
  destruct (V_is_Phi K Kf (- pa) (- pc) v beta a m) as [E1 _].
  destruct (V_is_Phi K Kf pa pc v beta a m) as [E2 _].
  rewrite <- E1, <- E2. apply Vf_parity.
Qed.

Theorem Pc_parity_eval pa pc v a s :
  peval K (Pc K (- pa) (- pc) v a) s = sg a * peval K (Pc K pa pc v a) s.
Proof.
  destruct (Pc_eval K Kf (- pa) (- pc) v a s) as [E1 _].
  destruct (Pc_eval K Kf pa pc v a s) as [E2 _].
  rewrite E1, E2. unfold Gs.
  replace (- pa - s * - pc) with (- (pa - s * pc)) by ring.
  replace 0 with (- 0) at 1 2 by ring.
  rewrite S3_parity. cbn [Nat.add]. rewrite Nat.add_0_r. reflexivity.
Qed.

(* product of s-polynomials; the 3-D quantity is Phi of the product of the per-axis polynomials *)
Fixpoint pmul (f g : list F) : list F :=
  match f with
  | [] => []
  | c :: f' => Moment1D.padd K (Moment1D.pscale K c g) (0 :: pmul f' g)
  end.

Lemma peval_pmul f g s : peval K (pmul f g) s = peval K f s * peval K g s.
Proof.
  induction f as [|c f IH]; cbn [pmul peval]; [ring|].
  rewrite (peval_padd K Kf), (peval_pscale K Kf), (peval_shift K Kf), IH. ring.
Qed.

(* Phi of a product = Phi (for the sequence n |-> Phi_n g) of the first factor *)
Lemma Phi_pmul_l beta g : forall f m,
  Phi K beta m (pmul f g) = Phi K (fun n => Phi K beta n g) m f.
Proof.
  induction f as [|c f IH]; intros m; cbn [pmul Phi]; [reflexivity|].
  rewrite (Phi_padd K Kf), (Phi_pscale K Kf), (Phi_shift K Kf), IH. reflexivity.
Qed.

Lemma Phi_pmul_nil_r beta : forall f m, Phi K beta m (pmul f []) = 0.
Proof.
  induction f as [|c f IH]; intros m; cbn [pmul Moment1D.pscale map Moment1D.padd]; [reflexivity|].
  rewrite (Phi_shift K Kf). apply IH.
Qed.

Lemma Phi_pmul_cons_r beta : forall f d g m,
  Phi K beta m (pmul f (d :: g)) = d * Phi K beta m f + Phi K beta (S m) (pmul f g).
Proof.
  induction f as [|c f IH]; intros d g m.
  - cbn [pmul Phi]. ring.
  - cbn [pmul]. rewrite !(Phi_padd K Kf), !(Phi_pscale K Kf), !(Phi_shift K Kf), IH.
    cbn [Phi]. ring.
Qed.

Lemma Phi_ext (b1 b2 : nat -> F) : (forall n, b1 n = b2 n) -> forall f m, Phi K b1 m f = Phi K b2 m f.
Proof. intros H. induction f as [|c f IH]; intros m; cbn [Phi]; [reflexivity|]. now rewrite H, IH. Qed.

(* the product is symmetric in its factors, seen through every Phi_m *)
Theorem Phi_pmul_comm beta : forall f g m, Phi K beta m (pmul f g) = Phi K beta m (pmul g f).
Proof.
  induction f as [|c f IH]; intros g m.
  - rewrite Phi_pmul_nil_r. reflexivity.
  - rewrite Phi_pmul_cons_r. cbn [pmul].
    rewrite (Phi_padd K Kf), (Phi_pscale K Kf), (Phi_shift K Kf), IH. reflexivity.
Qed.

(* the specification of the primitive Coulomb-type integral [a|0]^(m): Phi_m of the product of the
   three per-axis polynomials; each axis has its own (PA, PC) and the common v = 1/(2p) *)
Definition boys_spec (beta : nat -> F) (v : F) (pa pc : F * F * F) (a : comp) (m : nat) : F :=
  Phi K beta m (pmul (Pc K (fst (fst pa)) (fst (fst pc)) v (fst (fst a)))
                     (pmul (Pc K (snd (fst pa)) (snd (fst pc)) v (snd (fst a)))
                           (Pc K (snd pa) (snd pc) v (snd a)))).

Theorem boys_spec_swap_xy beta v pa pc a m :
  boys_spec beta v (swap_xy pa) (swap_xy pc) (swap_xy a) m = boys_spec beta v pa pc a m.
Proof.
  destruct pa as [[pax pay] paz], pc as [[pcx pcy] pcz], a as [[ax ay] az].
  unfold boys_spec, swap_xy. cbn [fst snd].
  set (X := Pc K pax pcx v ax). set (Y := Pc K pay pcy v ay). set (Z := Pc K paz pcz v az).
  (* Phi_m (Y * (X * Z)) = Phi_m (X * (Y * Z)) *)
  rewrite (Phi_pmul_comm beta Y (pmul X Z)).
  rewrite (Phi_pmul_l beta Y (pmul X Z) m), (Phi_pmul_l _ Z X m).
  rewrite (Phi_pmul_l beta (pmul Y Z) X m).
  apply Phi_ext. intros n. rewrite (Phi_pmul_comm beta Y Z), (Phi_pmul_l beta Y Z). reflexivity.
Qed.

Theorem boys_spec_swap_yz beta v pa pc a m :
  boys_spec beta v (swap_yz pa) (swap_yz pc) (swap_yz a) m = boys_spec beta v pa pc a m.
Proof.
  destruct pa as [[pax pay] paz], pc as [[pcx pcy] pcz], a as [[ax ay] az].
  unfold boys_spec, swap_yz. cbn [fst snd].
  rewrite !(Phi_pmul_comm beta (Pc K pax pcx v ax)).
  rewrite !(Phi_pmul_l beta (Pc K pax pcx v ax)).
  apply Phi_pmul_comm.
Qed.

(* reflection of the x axis: PA_x, PC_x change sign, the entry picks up (-1)^(a_x) *)
Theorem boys_spec_reflect_x beta v pa pc a m :
  boys_spec beta v (- fst (fst pa), snd (fst pa), snd pa) (- fst (fst pc), snd (fst pc), snd pc) a m
  = sg (fst (fst a)) * boys_spec beta v pa pc a m.
Proof.
  unfold boys_spec. cbn [fst snd]. rewrite !Phi_pmul_l. apply Pc_parity_Phi.
Qed.

(* ================================================================== *)
(* 3b. linearity of the contraction: primitive-level laws lifted to the blocks *)
(* ================================================================== *)
Notation fsum := (FNum.fsum K).

Lemma fsum_map_lin {A} (l : list A) (g g1 g2 g3 : A -> F) c2 c3 :
  (forall x, In x l -> g x = g1 x + c2 * g2 x + c3 * g3 x) ->
  fsum (map g l) = fsum (map g1 l) + c2 * fsum (map g2 l) + c3 * fsum (map g3 l).
Proof.
  induction l as [|x l IH]; intros H; cbn [map FNum.fsum fold_right]; [ring|].
  rewrite (H x (or_introl eq_refl)). unfold FNum.fsum in IH. rewrite IH by (intros; apply H; now right).
  ring.
Qed.

Lemma combine_map_same {A B C} (f : A -> B) (g : A -> C) l :
  combine (map f l) (map g l) = map (fun x => (f x, g x)) l.
Proof. induction l as [|x l IH]; cbn; [reflexivity|]. now rewrite IH. Qed.

(* the entry of a block whose primitive array is tabulated over the exponents of the two shells *)
Definition esum (sa sb : shell F) (H : F -> F -> F) (na nb : list F) (ma mb : nat) : F :=
  entry_sum K sa sb (map (fun beta => map (fun alpha => H alpha beta) (s_exps sa)) (s_exps sb)) na nb ma mb.

Lemma esum_unfold sa sb H na nb ma mb :
  esum sa sb H na nb ma mb
  = fsum (map (fun p : F * (F * list F) =>
       fsum (map (fun q : F * (F * list F) => H (fst q) (fst p) * fst (snd q) * nth ma (snd (snd q)) 0)
                 (combine (s_exps sa) (combine na (s_coeffs sa))))
       * fst (snd p) * nth mb (snd (snd p)) 0)
     (combine (s_exps sb) (combine nb (s_coeffs sb)))).
Proof.
  unfold esum, entry_sum. rewrite combine_map_l, map_map. f_equal. apply map_ext. intros [b [n crow]].
  cbn [fst snd]. rewrite combine_map_l, map_map. reflexivity.
Qed.

Lemma esum_lin sa sb (H H1 H2 H3 : F -> F -> F) c2 c3 na nb ma mb :
  (forall a b, In a (s_exps sa) -> In b (s_exps sb) -> H a b = H1 a b + c2 * H2 a b + c3 * H3 a b) ->
  esum sa sb H na nb ma mb
  = esum sa sb H1 na nb ma mb + c2 * esum sa sb H2 na nb ma mb + c3 * esum sa sb H3 na nb ma mb.
Proof.
  intros Hl. rewrite !esum_unfold.
  apply (fsum_map_lin _ _
    (fun p : F * (F * list F) => fsum (map (fun q : F * (F * list F) =>
        H1 (fst q) (fst p) * fst (snd q) * nth ma (snd (snd q)) 0) (combine (s_exps sa) (combine na (s_coeffs sa))))
      * fst (snd p) * nth mb (snd (snd p)) 0)
    (fun p : F * (F * list F) => fsum (map (fun q : F * (F * list F) =>
        H2 (fst q) (fst p) * fst (snd q) * nth ma (snd (snd q)) 0) (combine (s_exps sa) (combine na (s_coeffs sa))))
      * fst (snd p) * nth mb (snd (snd p)) 0)
    (fun p : F * (F * list F) => fsum (map (fun q : F * (F * list F) =>
        H3 (fst q) (fst p) * fst (snd q) * nth ma (snd (snd q)) 0) (combine (s_exps sa) (combine na (s_coeffs sa))))
      * fst (snd p) * nth mb (snd (snd p)) 0)).
  intros [b [n crow]] Hin. cbn [fst snd]. apply in_combine_l in Hin.
  rewrite (fsum_map_lin _ _
    (fun q : F * (F * list F) => H1 (fst q) b * fst (snd q) * nth ma (snd (snd q)) 0)
    (fun q : F * (F * list F) => H2 (fst q) b * fst (snd q) * nth ma (snd (snd q)) 0)
    (fun q : F * (F * list F) => H3 (fst q) b * fst (snd q) * nth ma (snd (snd q)) 0) c2 c3).
  - ring.
  - intros [a [n' crow']] Hina. cbn [fst snd]. apply in_combine_l in Hina.
    rewrite (Hl a b Hina Hin). ring.
Qed.

Lemma esum_scale sa sb (H H1 : F -> F -> F) c na nb ma mb :
  (forall a b, In a (s_exps sa) -> In b (s_exps sb) -> H a b = c * H1 a b) ->
  esum sa sb H na nb ma mb = c * esum sa sb H1 na nb ma mb.
Proof.
  intros Hl.
  rewrite (esum_lin sa sb H (fun _ _ => 0) H1 (fun _ _ => 0) c 0 na nb ma mb).
  - assert (Z : esum sa sb (fun _ _ => 0) na nb ma mb = 0).
    { rewrite (esum_lin sa sb (fun _ _ => 0) (fun _ _ => 0) (fun _ _ => 0) (fun _ _ => 0) (- (1)) 0 na nb ma mb)
        by (intros; cbv beta; ring). ring. }
    rewrite Z. ring.
  - intros a b Ha Hb. cbv beta. rewrite (Hl a b Ha Hb). ring.
Qed.

(* ---- angular momentum about a displaced origin, block level ---- *)
(* one Cartesian component of the angular-momentum block, exactly as angmom_block_re builds it *)
Definition angmom_comp_block (sa sb : shell F) (c : nat) : list (list (list (list F))) :=
  block_of K sa sb (fun ca cb =>
    map (fun '(drow, mrow) => map (fun '(d, m) => nth c (angmom_prim K d m ca cb) 0) (combine drow mrow))
        (combine (dtabs K 1 sa sb) (tabs K 0 0 0 [(1, 0, 0)%nat] sa sb))).
Lemma angmom_block_re_comps sa sb :
  angmom_block_re K sa sb
  = zip4 (fun xy z => xy ++ [z])
         (zip4 (fun x y => [x; y]) (angmom_comp_block sa sb 0) (angmom_comp_block sa sb 1))
         (angmom_comp_block sa sb 2).
Proof. reflexivity. Qed.
(* one component of the momentum block (what momentum_block_re zips together) *)
Definition momentum_comp_block (sa sb : shell F) (c : nat) : list (list (list (list F))) :=
  nth c (diffop_block K [(1, 0, 0); (0, 1, 0); (0, 0, 1)]%nat sa sb) [].
Lemma momentum_block_re_comps sa sb :
  momentum_block_re K sa sb
  = zip4 (fun xy z => xy ++ [z])
         (zip4 (fun x y => [x; y]) (momentum_comp_block sa sb 0) (momentum_comp_block sa sb 1))
         (momentum_comp_block sa sb 2).
Proof. reflexivity. Qed.

Definition unit_order (c : nat) : comp :=
  match c with O => (1, 0, 0)%nat | S O => (0, 1, 0)%nat | _ => (0, 0, 1)%nat end.
Definition tget (t : F * F * F) (c : nat) : F :=
  match c with O => fst (fst t) | S O => snd (fst t) | _ => snd t end.

Lemma comp_le_l (s : shell F) i :
  (forall c, In c (comps_of s) -> fst (fst c) <= s_l s /\ snd (fst c) <= s_l s /\ snd c <= s_l s)%nat ->
  (i < length (comps_of s))%nat ->
  let c := nth i (comps_of s) (0, 0, 0)%nat in
  (fst (fst c) <= s_l s /\ snd (fst c) <= s_l s /\ snd c <= s_l s)%nat.
Proof. intros H Hi. apply H. now apply nth_In. Qed.

(* every component of the shell has its three powers within l (true for the default components) *)
Definition comps_within (s : shell F) : Prop :=
  forall c, In c (comps_of s) -> (fst (fst c) <= s_l s /\ snd (fst c) <= s_l s /\ snd c <= s_l s)%nat.

Theorem angmom_block_shift sa sb tx ty tz c ma ia mb ib :
  (forall x, fapx K x = x) -> 1 + 1 <> 0 -> exps_ok sa sb -> comps_within sa -> comps_within sb ->
  (c < 3)%nat -> (ma < nseg sa)%nat -> (mb < nseg sb)%nat ->
  (ia < length (comps_of sa))%nat -> (ib < length (comps_of sb))%nat ->
  let t := (tx, ty, tz) in
  let p k := get4 ma ia mb ib (momentum_comp_block sa sb k) in
  get4 ma ia mb ib (angmom_comp_block (shift_shell tx ty tz sa) (shift_shell tx ty tz sb) c)
  = get4 ma ia mb ib (angmom_comp_block sa sb c)
    + tget t ((c + 1) mod 3) * p ((c + 2) mod 3) + (- tget t ((c + 2) mod 3)) * p ((c + 1) mod 3).
Proof.
  intros Hapx H2 Hexp Hca Hcb Hc Hma Hmb Hia Hib. cbv zeta.
  pose proof (comp_le_l sa ia Hca Hia) as Hla. pose proof (comp_le_l sb ib Hcb Hib) as Hlb.
  cbv zeta in Hla, Hlb.
  set (ca := nth ia (comps_of sa) (0, 0, 0)%nat) in *.
  set (cb := nth ib (comps_of sb) (0, 0, 0)%nat) in *.
  unfold get4, angmom_comp_block, momentum_comp_block, diffop_block. cbv zeta.
  change (omax [(1, 0, 0)%nat; (0, 1, 0)%nat; (0, 0, 1)%nat]) with 1%nat.
  rewrite dtabs_shift by exact Hexp.
  (* the three blocks as tabulated entry sums *)
  set (Dt := fun alpha beta =>
        (dtable K (s_x sa) (s_x sb) alpha beta (s_l sa) (s_l sb) 1,
         dtable K (s_y sa) (s_y sb) alpha beta (s_l sa) (s_l sb) 1,
         dtable K (s_z sa) (s_z sb) alpha beta (s_l sa) (s_l sb) 1)).
  set (Mt := fun (ux uy uz : F) alpha beta =>
        (table K (s_x sa + ux) (s_x sb + ux) 0 alpha beta (s_l sa) (s_l sb) 1,
         table K (s_y sa + uy) (s_y sb + uy) 0 alpha beta (s_l sa) (s_l sb) 1,
         table K (s_z sa + uz) (s_z sb + uz) 0 alpha beta (s_l sa) (s_l sb) 1)).
  set (M0 := fun alpha beta =>
        (table K (s_x sa) (s_x sb) 0 alpha beta (s_l sa) (s_l sb) 1,
         table K (s_y sa) (s_y sb) 0 alpha beta (s_l sa) (s_l sb) 1,
         table K (s_z sa) (s_z sb) 0 alpha beta (s_l sa) (s_l sb) 1)).
  assert (Ed : dtabs K 1 sa sb = map (fun beta => map (fun alpha => Dt alpha beta) (s_exps sa)) (s_exps sb))
    by reflexivity.
  assert (Em : tabs K 0 0 0 [(1, 0, 0)%nat] (shift_shell tx ty tz sa) (shift_shell tx ty tz sb)
               = map (fun beta => map (fun alpha => Mt tx ty tz alpha beta) (s_exps sa)) (s_exps sb))
    by reflexivity.
  assert (Em0 : tabs K 0 0 0 [(1, 0, 0)%nat] sa sb
               = map (fun beta => map (fun alpha => M0 alpha beta) (s_exps sa)) (s_exps sb))
    by reflexivity.
  assert (Epf : forall (Mx : F -> F -> table3 (F:=F)) ca' cb',
    map (fun '(drow, mrow) => map (fun '(d, m) => nth c (angmom_prim K d m ca' cb') 0) (combine drow mrow))
        (combine (map (fun beta => map (fun alpha => Dt alpha beta) (s_exps sa)) (s_exps sb))
                 (map (fun beta => map (fun alpha => Mx alpha beta) (s_exps sa)) (s_exps sb)))
    = map (fun beta => map (fun alpha => nth c (angmom_prim K (Dt alpha beta) (Mx alpha beta) ca' cb') 0)
                           (s_exps sa)) (s_exps sb)).
  { intros Mx ca' cb'. rewrite combine_map_same, map_map. apply map_ext; intros b.
    rewrite combine_map_same, map_map. reflexivity. }
  assert (Epp : forall o ca' cb',
    map (map (fun t0 => prim3 K t0 o ca' cb'))
        (map (fun beta => map (fun alpha => Dt alpha beta) (s_exps sa)) (s_exps sb))
    = map (fun beta => map (fun alpha => prim3 K (Dt alpha beta) o ca' cb') (s_exps sa)) (s_exps sb)).
  { intros o ca' cb'. rewrite map_map. apply map_ext; intros b. rewrite map_map. reflexivity. }
  rewrite (block_of_entry K (shift_shell tx ty tz sa) (shift_shell tx ty tz sb)) by assumption.
  rewrite (block_of_entry K sa sb) by assumption.
  change (comps_of (shift_shell tx ty tz sa)) with (comps_of sa).
  change (comps_of (shift_shell tx ty tz sb)) with (comps_of sb).
  change (norms K (shift_shell tx ty tz sa)) with (norms K sa).
  change (norms K (shift_shell tx ty tz sb)) with (norms K sb).
  change (entry_sum K (shift_shell tx ty tz sa) (shift_shell tx ty tz sb)) with (entry_sum K sa sb).
  fold ca cb. rewrite Ed, Em, Em0, !Epf.
  (* the momentum entries *)
  assert (Ep : forall k, (k < 3)%nat ->
    nth ib (nth mb (nth ia (nth ma (nth k
      (map (fun o => block_of K sa sb (fun ca0 cb0 => map (map (fun t0 => prim3 K t0 o ca0 cb0))
              (map (fun beta => map (fun alpha => Dt alpha beta) (s_exps sa)) (s_exps sb))))
           [(1, 0, 0)%nat; (0, 1, 0)%nat; (0, 0, 1)%nat]) []) []) []) []) 0
    = esum sa sb (fun alpha beta => prim3 K (Dt alpha beta) (unit_order k) ca cb)
           (nth ia (norms K sa) []) (nth ib (norms K sb) []) ma mb).
  { intros k Hk. destruct k as [|[|[|k]]]; try lia; cbn [map nth];
      rewrite (block_of_entry K sa sb) by assumption; fold ca cb; rewrite Epp; reflexivity. }
  rewrite !Ep by (apply Nat.mod_upper_bound; lia).
  fold (esum sa sb (fun alpha beta => nth c (angmom_prim K (Dt alpha beta) (Mt tx ty tz alpha beta) ca cb) 0)
             (nth ia (norms K sa) []) (nth ib (norms K sb) []) ma mb).
  fold (esum sa sb (fun alpha beta => nth c (angmom_prim K (Dt alpha beta) (M0 alpha beta) ca cb) 0)
             (nth ia (norms K sa) []) (nth ib (norms K sb) []) ma mb).
  apply esum_lin. intros a b Ha Hb.
  pose proof (angmom_prim_shift (s_x sa) (s_y sa) (s_z sa) (s_x sb) (s_y sb) (s_z sb) a b tx ty tz
                (s_l sa) (s_l sb) ca cb Hapx (Hexp a b Ha Hb) H2 Hla Hlb) as E.
  cbv zeta in E. unfold Dt, Mt, M0. rewrite E. clear E.
  clearbody ca cb. destruct ca as [[ax ay] az], cb as [[bx by_] bz].
  destruct c as [|[|[|c]]]; try lia.
  - change ((0 + 1) mod 3)%nat with 1%nat. change ((0 + 2) mod 3)%nat with 2%nat.
    unfold angmom_prim, cross3, prim3. cbn [map combine nth tget unit_order fst snd]. ring.
  - change ((1 + 1) mod 3)%nat with 2%nat. change ((1 + 2) mod 3)%nat with 0%nat.
    unfold angmom_prim, cross3, prim3. cbn [map combine nth tget unit_order fst snd]. ring.
  - change ((2 + 1) mod 3)%nat with 0%nat. change ((2 + 2) mod 3)%nat with 1%nat.
    unfold angmom_prim, cross3, prim3. cbn [map combine nth tget unit_order fst snd]. ring.
Qed.

(* ---- reflection of the x axis, block level ---- *)
Lemma omax_ge orders o : In o orders ->
  (fst (fst o) <= omax orders /\ snd (fst o) <= omax orders /\ snd o <= omax orders)%nat.
Proof.
  induction orders as [|[[px py] pz] os IH]; intros Hin; [destruct Hin|].
  destruct Hin as [<-|Hin]; cbn [omax fold_right fst snd].
  - lia.
  - specialize (IH Hin). unfold omax in IH. lia.
Qed.

Theorem mm_block_reflect_x Cx Cy Cz orders sa sb io ma ia mb ib :
  (forall x, fapx K x = x) -> 1 + 1 <> 0 -> exps_ok sa sb -> comps_within sa -> comps_within sb ->
  (io < length orders)%nat -> (ma < nseg sa)%nat -> (mb < nseg sb)%nat ->
  (ia < length (comps_of sa))%nat -> (ib < length (comps_of sb))%nat ->
  get4 ma ia mb ib (nth io (mm_block K (- Cx) Cy Cz orders (reflect_x_shell sa) (reflect_x_shell sb)) [])
  = sg (fst (fst (nth io orders (0, 0, 0)%nat)) + fst (fst (nth ia (comps_of sa) (0, 0, 0)%nat))
        + fst (fst (nth ib (comps_of sb) (0, 0, 0)%nat)))
    * get4 ma ia mb ib (nth io (mm_block K Cx Cy Cz orders sa sb) []).
Proof.
  intros Hapx H2 Hexp Hca Hcb Hio Hma Hmb Hia Hib.
  pose proof (comp_le_l sa ia Hca Hia) as Hla. pose proof (comp_le_l sb ib Hcb Hib) as Hlb.
  pose proof (omax_ge orders _ (nth_In orders (0, 0, 0)%nat Hio)) as Hom.
  cbv zeta in Hla, Hlb.
  set (ca := nth ia (comps_of sa) (0, 0, 0)%nat) in *.
  set (cb := nth ib (comps_of sb) (0, 0, 0)%nat) in *.
  set (o := nth io orders (0, 0, 0)%nat) in *.
  unfold get4, mm_block. cbv zeta.
  rewrite !(nth_map_in _ orders io (0, 0, 0)%nat) by assumption. fold o.
  rewrite (block_of_entry K (reflect_x_shell sa) (reflect_x_shell sb)) by assumption.
  rewrite (block_of_entry K sa sb) by assumption.
  change (comps_of (reflect_x_shell sa)) with (comps_of sa).
  change (comps_of (reflect_x_shell sb)) with (comps_of sb).
  change (norms K (reflect_x_shell sa)) with (norms K sa).
  change (norms K (reflect_x_shell sb)) with (norms K sb).
  change (entry_sum K (reflect_x_shell sa) (reflect_x_shell sb)) with (entry_sum K sa sb).
  fold ca cb.
  set (Tr := fun alpha beta =>
        (table K (- s_x sa) (- s_x sb) (- Cx) alpha beta (s_l sa) (s_l sb) (omax orders),
         table K (s_y sa) (s_y sb) Cy alpha beta (s_l sa) (s_l sb) (omax orders),
         table K (s_z sa) (s_z sb) Cz alpha beta (s_l sa) (s_l sb) (omax orders))).
  set (T0 := fun alpha beta =>
        (table K (s_x sa) (s_x sb) Cx alpha beta (s_l sa) (s_l sb) (omax orders),
         table K (s_y sa) (s_y sb) Cy alpha beta (s_l sa) (s_l sb) (omax orders),
         table K (s_z sa) (s_z sb) Cz alpha beta (s_l sa) (s_l sb) (omax orders))).
  change (tabs K (- Cx) Cy Cz orders (reflect_x_shell sa) (reflect_x_shell sb))
    with (map (fun beta => map (fun alpha => Tr alpha beta) (s_exps sa)) (s_exps sb)).
  change (tabs K Cx Cy Cz orders sa sb)
    with (map (fun beta => map (fun alpha => T0 alpha beta) (s_exps sa)) (s_exps sb)).
  assert (Epp : forall (Tx : F -> F -> table3 (F:=F)),
    map (map (fun t0 => prim3 K t0 o ca cb))
        (map (fun beta => map (fun alpha => Tx alpha beta) (s_exps sa)) (s_exps sb))
    = map (fun beta => map (fun alpha => prim3 K (Tx alpha beta) o ca cb) (s_exps sa)) (s_exps sb)).
  { intros Tx. rewrite map_map. apply map_ext; intros b. rewrite map_map. reflexivity. }
  rewrite !Epp.
  fold (esum sa sb (fun alpha beta => prim3 K (Tr alpha beta) o ca cb)
             (nth ia (norms K sa) []) (nth ib (norms K sb) []) ma mb).
  fold (esum sa sb (fun alpha beta => prim3 K (T0 alpha beta) o ca cb)
             (nth ia (norms K sa) []) (nth ib (norms K sb) []) ma mb).
  apply esum_scale. intros a b Ha Hb. unfold Tr, T0.
  apply prim3_reflect_x; try assumption; try tauto. apply (Hexp a b Ha Hb).
Qed.

Theorem overlap_block_reflect_x sa sb ma ia mb ib :
  (forall x, fapx K x = x) -> 1 + 1 <> 0 -> exps_ok sa sb -> comps_within sa -> comps_within sb ->
  (ma < nseg sa)%nat -> (mb < nseg sb)%nat ->
  (ia < length (comps_of sa))%nat -> (ib < length (comps_of sb))%nat ->
  get4 ma ia mb ib (overlap_block K (reflect_x_shell sa) (reflect_x_shell sb))
  = sg (fst (fst (nth ia (comps_of sa) (0, 0, 0)%nat)) + fst (fst (nth ib (comps_of sb) (0, 0, 0)%nat)))
    * get4 ma ia mb ib (overlap_block K sa sb).
Proof.
  intros Hapx H2 Hexp Hca Hcb Hma Hmb Hia Hib. unfold overlap_block.
  change (hd [] ?l) with (nth 0 l []).
  assert (E : mm_block K 0 0 0 [(0, 0, 0)%nat] (reflect_x_shell sa) (reflect_x_shell sb)
              = mm_block K (- 0) 0 0 [(0, 0, 0)%nat] (reflect_x_shell sa) (reflect_x_shell sb)) by reflexivity.
  rewrite E.
  rewrite (mm_block_reflect_x 0 0 0 [(0, 0, 0)%nat] sa sb 0 ma ia mb ib) by (assumption || (cbn; lia)).
  reflexivity.
Qed.

Theorem diffop_block_reflect_x orders sa sb io ma ia mb ib :
  (forall x, fapx K x = x) -> 1 + 1 <> 0 -> exps_ok sa sb -> comps_within sa -> comps_within sb ->
  (io < length orders)%nat -> (ma < nseg sa)%nat -> (mb < nseg sb)%nat ->
  (ia < length (comps_of sa))%nat -> (ib < length (comps_of sb))%nat ->
  get4 ma ia mb ib (nth io (diffop_block K orders (reflect_x_shell sa) (reflect_x_shell sb)) [])
  = sg (fst (fst (nth io orders (0, 0, 0)%nat)) + fst (fst (nth ia (comps_of sa) (0, 0, 0)%nat))
        + fst (fst (nth ib (comps_of sb) (0, 0, 0)%nat)))
    * get4 ma ia mb ib (nth io (diffop_block K orders sa sb) []).
Proof.
  intros Hapx H2 Hexp Hca Hcb Hio Hma Hmb Hia Hib.
  pose proof (comp_le_l sa ia Hca Hia) as Hla. pose proof (comp_le_l sb ib Hcb Hib) as Hlb.
  pose proof (omax_ge orders _ (nth_In orders (0, 0, 0)%nat Hio)) as Hom.
  cbv zeta in Hla, Hlb.
  set (ca := nth ia (comps_of sa) (0, 0, 0)%nat) in *.
  set (cb := nth ib (comps_of sb) (0, 0, 0)%nat) in *.
  set (o := nth io orders (0, 0, 0)%nat) in *.
  unfold get4, diffop_block. cbv zeta.
  rewrite !(nth_map_in _ orders io (0, 0, 0)%nat) by assumption. fold o.
  rewrite (block_of_entry K (reflect_x_shell sa) (reflect_x_shell sb)) by assumption.
  rewrite (block_of_entry K sa sb) by assumption.
  change (comps_of (reflect_x_shell sa)) with (comps_of sa).
  change (comps_of (reflect_x_shell sb)) with (comps_of sb).
  change (norms K (reflect_x_shell sa)) with (norms K sa).
  change (norms K (reflect_x_shell sb)) with (norms K sb).
  change (entry_sum K (reflect_x_shell sa) (reflect_x_shell sb)) with (entry_sum K sa sb).
  fold ca cb.
  set (Tr := fun alpha beta =>
        (dtable K (- s_x sa) (- s_x sb) alpha beta (s_l sa) (s_l sb) (omax orders),
         dtable K (s_y sa) (s_y sb) alpha beta (s_l sa) (s_l sb) (omax orders),
         dtable K (s_z sa) (s_z sb) alpha beta (s_l sa) (s_l sb) (omax orders))).
  set (T0 := fun alpha beta =>
        (dtable K (s_x sa) (s_x sb) alpha beta (s_l sa) (s_l sb) (omax orders),
         dtable K (s_y sa) (s_y sb) alpha beta (s_l sa) (s_l sb) (omax orders),
         dtable K (s_z sa) (s_z sb) alpha beta (s_l sa) (s_l sb) (omax orders))).
  change (dtabs K (omax orders) (reflect_x_shell sa) (reflect_x_shell sb))
    with (map (fun beta => map (fun alpha => Tr alpha beta) (s_exps sa)) (s_exps sb)).
  change (dtabs K (omax orders) sa sb)
    with (map (fun beta => map (fun alpha => T0 alpha beta) (s_exps sa)) (s_exps sb)).
  assert (Epp : forall (Tx : F -> F -> table3 (F:=F)),
    map (map (fun t0 => prim3 K t0 o ca cb))
        (map (fun beta => map (fun alpha => Tx alpha beta) (s_exps sa)) (s_exps sb))
    = map (fun beta => map (fun alpha => prim3 K (Tx alpha beta) o ca cb) (s_exps sa)) (s_exps sb)).
  { intros Tx. rewrite map_map. apply map_ext; intros b. rewrite map_map. reflexivity. }
  rewrite !Epp.
  fold (esum sa sb (fun alpha beta => prim3 K (Tr alpha beta) o ca cb)
             (nth ia (norms K sa) []) (nth ib (norms K sb) []) ma mb).
  fold (esum sa sb (fun alpha beta => prim3 K (T0 alpha beta) o ca cb)
             (nth ia (norms K sa) []) (nth ib (norms K sb) []) ma mb).
  apply esum_scale. intros a b Ha Hb. unfold Tr, T0.
  apply dprim3_reflect_x; try assumption; try tauto. apply (Hexp a b Ha Hb).
Qed.

(* the default Cartesian components have their powers within l *)
Lemma default_comps_within (s : shell F) : s_comps s = [] -> comps_within s.
Proof.
  intros Hs c Hc. unfold comps_of in Hc. rewrite Hs in Hc. unfold default_comps in Hc.
  apply in_flat_map in Hc. destruct Hc as [xx [Hxx Hc]]. apply in_map_iff in Hc.
  destruct Hc as [yy [<- Hyy]]. apply in_seq in Hxx. apply in_seq in Hyy. cbn [fst snd]. lia.
Qed.

(* ================================================================== *)
(* 4. whole-basis functions under a translation                         *)
(* ================================================================== *)
(* contraction norms and the spherical transform of a shell do not see its centre *)
Lemma norm_cont_shift tx ty tz s : exps_ok s s ->
  norm_cont K (shift_shell tx ty tz s) = norm_cont K s.
Proof.
  intros H. unfold norm_cont. cbv zeta. rewrite overlap_block_shift by exact H. reflexivity.
Qed.

Section WholeBasis.
Context {A : Type} (azero : A) (aadd : A -> A -> A) (ascale : F -> A -> A).
Variables (tx ty tz : F).
(* the block functions of the moved and of the original system (they may differ: moved origin,
   moved point charges) *)
Variables blockf' blockf : shell F -> shell F -> list (list (list (list A))).
Variable basis : list (shell F).
Hypothesis Hexp : forall s, In s basis -> exps_ok s s.
Hypothesis Hblock : forall s1 s2, In s1 basis -> In s2 basis ->
  blockf' (shift_shell tx ty tz s1) (shift_shell tx ty tz s2) = blockf s1 s2.

Lemma pblock_shift s1 s2 : In s1 basis -> In s2 basis ->
  pblock K azero aadd ascale blockf' (prep K (shift_shell tx ty tz s1)) (prep K (shift_shell tx ty tz s2))
  = pblock K azero aadd ascale blockf (prep K s1) (prep K s2).
Proof.
  intros H1 H2. unfold pblock, prep. cbn [p_shell p_norm p_T].
  rewrite !norm_cont_shift by (apply Hexp; assumption).
  rewrite Hblock by assumption. reflexivity.
Qed.

Theorem two_symm_integral_shift T :
  two_symm_integral K azero aadd ascale blockf' (map (shift_shell tx ty tz) basis) T
  = two_symm_integral K azero aadd ascale blockf basis T.
Proof.
  rewrite !two_symm_integral_unfold. cbv zeta. rewrite !map_length.
  assert (E : two_symm_blocks azero (length basis)
      (fun i j => pblock K azero aadd ascale blockf'
         (nth i (map (prep K) (map (shift_shell tx ty tz) basis)) (dummy_p K))
         (nth j (map (prep K) (map (shift_shell tx ty tz) basis)) (dummy_p K)))
    = two_symm_blocks azero (length basis)
      (fun i j => pblock K azero aadd ascale blockf
         (nth i (map (prep K) basis) (dummy_p K)) (nth j (map (prep K) basis) (dummy_p K)))).
  { apply two_symm_blocks_ext_le. intros i j Hi Hj _.
    set (d0 := mkShell F 0 0 0 0 [] [] false [] []).
    rewrite !map_map.
    rewrite (nth_map_in _ basis i d0), (nth_map_in _ basis j d0) by assumption.
    rewrite (nth_map_in (prep K) basis i d0), (nth_map_in (prep K) basis j d0) by assumption.
    apply pblock_shift; apply nth_In; assumption. }
  rewrite E. reflexivity.
Qed.
End WholeBasis.

Definition basis_ok (basis : list (shell F)) : Prop :=
  forall s1 s2, In s1 basis -> In s2 basis -> exps_ok s1 s2.

Theorem overlap_integral_shift tx ty tz basis T : basis_ok basis ->
  overlap_integral K (map (shift_shell tx ty tz) basis) T = overlap_integral K basis T.
Proof.
  intros H. unfold overlap_integral. apply two_symm_integral_shift.
  - intros s Hs. now apply H.
  - intros s1 s2 H1 H2. apply overlap_block_shift. now apply H.
Qed.

Theorem kinetic_integral_shift tx ty tz basis T : basis_ok basis ->
  kinetic_integral K (map (shift_shell tx ty tz) basis) T = kinetic_integral K basis T.
Proof.
  intros H. unfold kinetic_integral. apply two_symm_integral_shift.
  - intros s Hs. now apply H.
  - intros s1 s2 H1 H2. apply kinetic_block_shift. now apply H.
Qed.

Theorem moment_integral_shift tx ty tz Cx Cy Cz orders basis T : basis_ok basis ->
  moment_integral K (Cx + tx) (Cy + ty) (Cz + tz) orders (map (shift_shell tx ty tz) basis) T
  = moment_integral K Cx Cy Cz orders basis T.
Proof.
  intros H. unfold moment_integral. apply two_symm_integral_shift.
  - intros s Hs. now apply H.
  - intros s1 s2 H1 H2. apply moment_block_shift. now apply H.
Qed.

Theorem point_charge_integral_shift tx ty tz points basis T : basis_ok basis ->
  point_charge_integral K (map (shift_charge tx ty tz) points) (map (shift_shell tx ty tz) basis) T
  = point_charge_integral K points basis T.
Proof.
  intros H. unfold point_charge_integral. apply two_symm_integral_shift.
  - intros s Hs. now apply H.
  - intros s1 s2 H1 H2. apply point_charge_block_shift. now apply H.
Qed.

Theorem nuclear_attraction_integral_shift tx ty tz points basis T : basis_ok basis ->
  nuclear_attraction_integral K (map (shift_charge tx ty tz) points) (map (shift_shell tx ty tz) basis) T
  = nuclear_attraction_integral K points basis T.
Proof. intros H. unfold nuclear_attraction_integral. now rewrite point_charge_integral_shift. Qed.

(* evaluation of the basis functions (and of any derivative) at the moved points *)
Lemma one_index_rows_shift tabs tx ty tz md pts o (basis : list (shell F)) :
  (forall s, In s basis -> exps_ok s s) ->
  map (fun '(p, blk) => shell_rows K tabs (s_sph (p_shell p)) (p_T p) (p_norm p) blk)
      (map (fun s => (prep_fast K s,
                      block_with K (md s) (fun c => c) (fexp K) s o (map (shift_point tx ty tz) pts)))
           (map (shift_shell tx ty tz) basis))
  = map (fun '(p, blk) => shell_rows K tabs (s_sph (p_shell p)) (p_T p) (p_norm p) blk)
      (map (fun s => (prep_fast K s, block_with K (md (shift_shell tx ty tz s)) (fun c => c) (fexp K) s o pts))
           basis).
Proof.
  intros H. rewrite !map_map. apply map_ext_in; intros s Hs.
  unfold prep_fast, norm_cont_diag. cbn [p_shell p_T p_norm].
  rewrite norm_cont_shift by (now apply H). rewrite block_with_shift. reflexivity.
Qed.

Theorem evaluate_deriv_basis_shift tx ty tz basis pts o T bk :
  (forall s, In s basis -> exps_ok s s) ->
  evaluate_deriv_basis_model K (map (shift_shell tx ty tz) basis) (map (shift_point tx ty tz) pts) o T bk
  = evaluate_deriv_basis_model K basis pts o T bk.
Proof.
  intros H. unfold evaluate_deriv_basis_model. destruct (accepts bk o); [|reflexivity].
  unfold one_index. cbv zeta.
  rewrite (one_index_rows_shift (fun x => x) tx ty tz
             (fun s => mode_of K bk (s_l s) (comps_of s) o) pts o basis H).
  reflexivity.
Qed.

Theorem evaluate_basis_shift tx ty tz basis pts T :
  (forall s, In s basis -> exps_ok s s) ->
  evaluate_basis_model K (map (shift_shell tx ty tz) basis) (map (shift_point tx ty tz) pts) T
  = evaluate_basis_model K basis pts T.
Proof.
  intros H. unfold evaluate_basis_model, eval_block0, one_index. cbv zeta.
  rewrite (one_index_rows_shift (fun x => x) tx ty tz
             (fun s => gen_mode K false (s_l s) (0, 0, 0)%nat) pts (0, 0, 0)%nat basis H).
  reflexivity.
Qed.

End Rigid.


(* ================================================================== *)
(* 5. the law for general rotations (STATED, not proved)                *)
(* ================================================================== *)
Section FullStatement.
Context {F : Type} (K : Fops F).
Local Open Scope F_scope.
Notation "0" := (f0 K) : F_scope.
Notation "1" := (f1 K) : F_scope.
Infix "+" := (fadd K) : F_scope.
Infix "*" := (fmul K) : F_scope.

Definition vec3 := (F * F * F)%type.
Definition mat3 := (vec3 * vec3 * vec3)%type.                (* rows *)
Definition dot3 (u w : vec3) : F :=
  fst (fst u) * fst (fst w) + snd (fst u) * snd (fst w) + snd u * snd w.
Definition mrow (R : mat3) (k : nat) : vec3 :=
  match k with O => fst (fst R) | S O => snd (fst R) | _ => snd R end.
Definition vget (u : vec3) (k : nat) : F :=
  match k with O => fst (fst u) | S O => snd (fst u) | _ => snd u end.
Definition mcol (R : mat3) (k : nat) : vec3 := (vget (mrow R 0) k, vget (mrow R 1) k, vget (mrow R 2) k).
Definition mapply (R : mat3) (u : vec3) : vec3 := (dot3 (mrow R 0) u, dot3 (mrow R 1) u, dot3 (mrow R 2) u).
Definition mapply_t (R : mat3) (u : vec3) : vec3 := (dot3 (mcol R 0) u, dot3 (mcol R 1) u, dot3 (mcol R 2) u).
Definition delta (i j : nat) : F := if Nat.eqb i j then 1 else 0.
(* proper and improper rotations alike: R R^T = R^T R = 1 *)
Definition orthogonal (R : mat3) : Prop :=
  forall i j, (i < 3)%nat -> (j < 3)%nat ->
    dot3 (mrow R i) (mrow R j) = delta i j /\ dot3 (mcol R i) (mcol R j) = delta i j.

Definition rot_shell (R : mat3) (s : shell F) : shell F :=
  let c := mapply R (s_x s, s_y s, s_z s) in
  mkShell F (s_l s) (fst (fst c)) (snd (fst c)) (snd c) (s_exps s) (s_coeffs s)
          (s_sph s) (s_comps s) (s_labels s).

Definition monomial (u : vec3) (c : comp) : F :=
  FNum.fpow K (fst (fst u)) (fst (fst c)) * FNum.fpow K (snd (fst u)) (snd (fst c))
  * FNum.fpow K (snd u) (snd c).
(* M represents R on the homogeneous polynomials of degree l: (R^T u)^j = sum_i M i j u^i *)
Definition mono_rep (R : mat3) (l : nat) (M : comp -> comp -> F) : Prop :=
  forall j, In j (default_comps l) -> forall u,
    monomial (mapply_t R u) j = FNum.fsum K (map (fun i => M i j * monomial u i) (default_comps l)).
Definition dfnorm (c : comp) : F :=
  fsqrt K (fdf_odd K (fst (fst c)) * fdf_odd K (snd (fst c)) * fdf_odd K (snd c)).

(* The overlap block of the rotated pair and of the original pair are related by the
   representation matrices of the two shells (gbasis' per-component normalisation 1/sqrt((2a-1)!!..)
   makes the matrices D_ij = M_ij dfnorm(i)/dfnorm(j); written without division).  The same shape of
   law - one representation matrix per basis index, vector/tensor components rotating with R - is
   what property C12 demands of every integral and evaluation. *)
Definition rotation_law_overlap : Prop :=
  (forall x, fapx K x = x) -> (forall x y, fexp K (x + y) = fexp K x * fexp K y) ->
  (forall c, dfnorm c <> 0) ->
  forall R, orthogonal R -> forall la lb, exists Ma Mb : comp -> comp -> F,
    mono_rep R la Ma /\ mono_rep R lb Mb /\
    forall sa sb, s_l sa = la -> s_l sb = lb -> s_comps sa = [] -> s_comps sb = [] ->
      (forall a b, In a (s_exps sa) -> In b (s_exps sb) -> a + b <> 0) ->
      forall ma mb ja jb, (ma < nseg sa)%nat -> (mb < nseg sb)%nat ->
        (ja < length (default_comps la))%nat -> (jb < length (default_comps lb))%nat ->
        let cmp l i := nth i (default_comps l) (0, 0, 0)%nat in
        dfnorm (cmp la ja) * dfnorm (cmp lb jb)
          * nth jb (nth mb (nth ja (nth ma (overlap_block K sa sb) []) []) []) 0
        = FNum.fsum K (map (fun ia => FNum.fsum K (map (fun ib =>
            Ma (cmp la ia) (cmp la ja) * Mb (cmp lb ib) (cmp lb jb)
            * dfnorm (cmp la ia) * dfnorm (cmp lb ib)
            * nth ib (nth mb (nth ia (nth ma
                 (overlap_block K (rot_shell R sa) (rot_shell R sb)) []) []) []) 0)
            (seq 0 (length (default_comps lb))))) (seq 0 (length (default_comps la)))).
End FullStatement.

(* the hypotheses of the theorems above are satisfiable: the executable instance at Qc, two shells
   with exponents {1, 2} and {3} *)
Section HypExample.
Import ZArith QArith Qcanon.
Definition hypK (opi : Qc) (osqrt oexp oln : Qc -> Qc) (oboys : nat -> Qc -> Qc) : Fops Qc :=
  QcK true opi osqrt oexp oln oboys.
Definition hq (n : Z) : Qc := qc_of n 1.
Definition hyp_shA : shell Qc :=
  mkShell Qc 1 (hq 0) (hq 1) (hq 2) [hq 1; hq 2] [[hq 1]; [hq 1]] false [] [].
Definition hyp_shB : shell Qc := mkShell Qc 2 (hq 1) (hq 0) (hq 3) [hq 3] [[hq 1]] true [] [].
Variables (opi : Qc) (osqrt oexp oln : Qc -> Qc) (oboys : nat -> Qc -> Qc).
Notation KQ := (hypK opi osqrt oexp oln oboys).
Notation q := hq.
Notation shA := hyp_shA.
Notation shB := hyp_shB.

Lemma qc_neq (x y : Qc) : Qeq_bool x y = false -> x <> y.
Proof. intros H E. subst y. rewrite Qeq_bool_refl in H. discriminate. Qed.

Lemma hyp_example :
  is_field KQ /\ fadd KQ (f1 KQ) (f1 KQ) <> f0 KQ /\ (forall x, fapx KQ x = x)
  /\ basis_ok KQ [shA; shB] /\ exps_ok KQ shA shB /\ psum KQ (q 1) (q 3) <> f0 KQ.
Proof.
  split; [apply QcK_field|]. split; [apply qc_neq; vm_compute; reflexivity|].
  split; [intros x; reflexivity|].
  assert (Hall : forall a b, In a [q 1; q 2; q 3] -> In b [q 1; q 2; q 3] -> fadd KQ a b <> f0 KQ).
  { intros a b Ha Hb. cbn [In] in Ha, Hb.
    destruct Ha as [<-|[<-|[<-|[]]]]; destruct Hb as [<-|[<-|[<-|[]]]];
      apply qc_neq; vm_compute; reflexivity. }
  assert (HA : forall a, In a (s_exps shA) -> In a [q 1; q 2; q 3]).
  { intros a Ha. change (In a [q 1; q 2]) in Ha. destruct Ha as [<-|[<-|[]]]; cbn [In]; tauto. }
  assert (HB : forall a, In a (s_exps shB) -> In a [q 1; q 2; q 3]).
  { intros a Ha. change (In a [q 3]) in Ha. destruct Ha as [<-|[]]; cbn [In]; tauto. }
  split; [|split].
  - intros s1 s2 H1 H2 a b Ha Hb. apply Hall.
    + destruct H1 as [<-|[<-|[]]]; [now apply HA|now apply HB].
    + destruct H2 as [<-|[<-|[]]]; [now apply HA|now apply HB].
  - intros a b Ha Hb. apply Hall; [now apply HA|now apply HB].
  - apply qc_neq; vm_compute; reflexivity.
Qed.
End HypExample.
