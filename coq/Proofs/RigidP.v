(* Proofs/RigidP.v — lemmas behind property C12 (rigid motions), about the executable models.

   1. TRANSLATION.  Every model sees the centres (and points, charges, moment origin) only
      through differences.  Proved for the primitive/table level ([table], [plane0], [dtable],
      [vrr_prim], [eri_prim], [prim_data]) and lifted to the shell-pair / shell blocks
      ([mm_block], [moment_block], [overlap_block], [diffop_block], [kinetic_block],
      [momentum_block_re], [one_elec_point], [point_charge_block], [eri_block], [block_with]).
      For exp / Boys arguments the ARGUMENT is shown unchanged.
   2. ORIGIN LAWS.  Binomial shift of the moment origin ([S3_origin_shift], [T3_origin_shift],
      [table_origin_shift]); angular momentum about a displaced origin = angular momentum
      - d x p at the level of the primitive products the block model contracts
      ([angmom_prim_shift]).
   3. SIGNED AXIS PERMUTATIONS.  Reflection parity of the 1-D moments ([S3_parity], [T3_parity],
      [table_parity]) and of the 1-D derivative tables ([dtable_parity]); the 3-D primitive is a
      product over the axes, so exchanging two axes exchanges the component indices
      ([prim3_swap_xy], [prim3_swap_yz], norms: [norm_prim_swap_xy] ...).  For the Boys-type
      integrals the law is stated at spec level: the per-axis s-polynomial of SPoly has parity
      (-1)^a under reflection of the axis ([Pc_parity], [Vf_parity]) and the 3-D quantity is Phi of a
      product of per-axis polynomials, which is symmetric in the axes ([Phi_pmul_comm]).
   General rotations are NOT proved (they need the representation of O(3) on degree-l polynomials);
   they are decided by the correspondence check harness/c12.py. *)
From Coq Require Import List Arith Lia Field Bool.
From GB Require Import Base.Field Base.FNum Base.Tables Gauss.Moment1D Gauss.SPoly Model.Shell
  Model.MomentInt Model.DiffOp Model.OneElec Model.TwoElec Model.Eval
  Proofs.MomentIntP Proofs.DiffOpP Proofs.EvalP.
Import ListNotations.

Section Rigid.
Context {F : Type} (K : Fops F) (Kf : is_field K).
Add Field KFr : Kf.
Local Open Scope F_scope.
Notation "0" := (f0 K) : F_scope.
Notation "1" := (f1 K) : F_scope.
Infix "+" := (fadd K) : F_scope.
Infix "*" := (fmul K) : F_scope.
Infix "-" := (fsub K) : F_scope.
Infix "/" := (fdiv K) : F_scope.
Notation "- x" := (fopp K x) : F_scope.
Notation "# n" := (ofnat K n) (at level 5) : F_scope.
Notation fpow := (FNum.fpow K).
Notation sumn := (Tables.sumn 0 (fadd K)).

(* ================================================================== *)
(* 1. translation                                                       *)
(* ================================================================== *)

(* the weighted centre moves with the system: differences with it are unchanged *)
Lemma wc_shift a b x y t : a + b <> 0 ->
  (a * (x + t) + b * (y + t)) / (a + b) - (x + t) = (a * x + b * y) / (a + b) - x.
Proof. intros H. field. exact H. Qed.
Lemma wc_shift2 a b x y t : a + b <> 0 ->
  (a * (x + t) + b * (y + t)) / (a + b) - (y + t) = (a * x + b * y) / (a + b) - y.
Proof. intros H. field. exact H. Qed.
Lemma wc_shift_c a b x y c t : a + b <> 0 ->
  (a * (x + t) + b * (y + t)) / (a + b) - (c + t) = (a * x + b * y) / (a + b) - c.
Proof. intros H. field. exact H. Qed.
Lemma wc_shift_pq a b c d x y z w t : a + b <> 0 -> c + d <> 0 ->
  (a * (x + t) + b * (y + t)) / (a + b) - (c * (z + t) + d * (w + t)) / (c + d)
  = (a * x + b * y) / (a + b) - (c * z + d * w) / (c + d).
Proof. intros H1 H2. field. split; assumption. Qed.
Lemma diff_shift x y t : (x + t) - (y + t) = x - y.
Proof. ring. Qed.

Section Axis.
Variables (Ax Bx Cx alpha beta t : F) (la lb km : nat).
Hypothesis Hp : psum K alpha beta <> 0.

Lemma PA_shift : PA K (Ax + t) (Bx + t) alpha beta = PA K Ax Bx alpha beta.
Proof. unfold PA, Pw, psum in *. now apply wc_shift. Qed.
Lemma PB_shift : PB K (Ax + t) (Bx + t) alpha beta = PB K Ax Bx alpha beta.
Proof. unfold PB, Pw, psum in *. now apply wc_shift2. Qed.
Lemma PC_shift : PC K (Ax + t) (Bx + t) (Cx + t) alpha beta = PC K Ax Bx Cx alpha beta.
Proof. unfold PC, Pw, psum in *. now apply wc_shift_c. Qed.
(* the argument of the exponential is unchanged *)
Lemma base_shift : base K (Ax + t) (Bx + t) alpha beta = base K Ax Bx alpha beta.
Proof. unfold base. now rewrite diff_shift. Qed.

Lemma row_a_shift : row_a K (Ax + t) (Bx + t) alpha beta la = row_a K Ax Bx alpha beta la.
Proof. unfold row_a, step_a. now rewrite PA_shift, base_shift. Qed.
Lemma plane0_shift :
  plane0 K (Ax + t) (Bx + t) alpha beta la lb = plane0 K Ax Bx alpha beta la lb.
Proof. unfold plane0, step_b. now rewrite row_a_shift, PB_shift. Qed.
Theorem table_shift :
  table K (Ax + t) (Bx + t) (Cx + t) alpha beta la lb km = table K Ax Bx Cx alpha beta la lb km.
Proof. unfold table, step_c. now rewrite plane0_shift, PC_shift. Qed.
End Axis.

Theorem dtable_shift Ax Bx alpha beta t la lb D : psum K alpha beta <> 0 ->
  dtable K (Ax + t) (Bx + t) alpha beta la lb D = dtable K Ax Bx alpha beta la lb D.
Proof. intros Hp. unfold dtable, dtable_full. now rewrite plane0_shift. Qed.

(* ---- Boys-type primitives: PA, PC, AB, the exp argument and the Boys argument are unchanged ---- *)
Theorem vrr_prim_shift L Ax Ay Az Bx By Bz Cx Cy Cz alpha beta tx ty tz : alpha + beta <> 0 ->
  vrr_prim K L (Ax + tx) (Ay + ty) (Az + tz) (Bx + tx) (By + ty) (Bz + tz)
           (Cx + tx) (Cy + ty) (Cz + tz) alpha beta
  = vrr_prim K L Ax Ay Az Bx By Bz Cx Cy Cz alpha beta.
Proof.
  intros Hp. unfold vrr_prim. cbv zeta.
  rewrite !(wc_shift alpha beta) by exact Hp.
  rewrite !(wc_shift_c alpha beta) by exact Hp.
  rewrite !diff_shift. reflexivity.
Qed.

Theorem eri_prim_shift L Lc Ax Ay Az Bx By Bz Cx Cy Cz Dx Dy Dz alpha beta gamma delta tx ty tz :
  alpha + beta <> 0 -> gamma + delta <> 0 ->
  eri_prim K L Lc (Ax + tx, Ay + ty, Az + tz) (Bx + tx, By + ty, Bz + tz)
           (Cx + tx, Cy + ty, Cz + tz) (Dx + tx, Dy + ty, Dz + tz) alpha beta gamma delta
  = eri_prim K L Lc (Ax, Ay, Az) (Bx, By, Bz) (Cx, Cy, Cz) (Dx, Dy, Dz) alpha beta gamma delta.
Proof.
  intros Hp Hq. unfold eri_prim. cbv beta iota zeta.
  rewrite !(wc_shift alpha beta) by exact Hp.
  rewrite !(wc_shift gamma delta) by exact Hq.
  rewrite !(wc_shift_pq alpha beta gamma delta) by assumption.
  rewrite !diff_shift. reflexivity.
Qed.

(* ---- evaluation: the point enters through point - centre only ---- *)
Definition shift_shell (tx ty tz : F) (s : shell F) : shell F :=
  mkShell F (s_l s) (s_x s + tx) (s_y s + ty) (s_z s + tz) (s_exps s) (s_coeffs s)
          (s_sph s) (s_comps s) (s_labels s).
Definition shift_point (tx ty tz : F) (p : F * F * F) : F * F * F :=
  (fst (fst p) + tx, snd (fst p) + ty, snd p + tz).

Theorem prim_data_shift md ef s o tx ty tz p alpha :
  prim_data K md ef (shift_shell tx ty tz s) o (shift_point tx ty tz p) alpha
  = prim_data K md ef s o p alpha.
Proof.
  destruct p as [[px py] pz]. destruct o as [[ox oy] oz].
  unfold prim_data, shift_point, shift_shell. cbn [fst snd s_x s_y s_z s_l].
  rewrite !diff_shift. reflexivity.
Qed.

(* ---- shell-pair blocks ---- *)
(* every pair of exponents has a non-zero sum (true for positive exponents) *)
Definition exps_ok (sa sb : shell F) : Prop :=
  forall a b, In a (s_exps sa) -> In b (s_exps sb) -> a + b <> 0.

Lemma block_of_shift tx ty tz sa sb pf :
  block_of K (shift_shell tx ty tz sa) (shift_shell tx ty tz sb) pf = block_of K sa sb pf.
Proof. reflexivity. Qed.

Lemma tabs_shift Cx Cy Cz orders sa sb tx ty tz : exps_ok sa sb ->
  tabs K (Cx + tx) (Cy + ty) (Cz + tz) orders (shift_shell tx ty tz sa) (shift_shell tx ty tz sb)
  = tabs K Cx Cy Cz orders sa sb.
Proof.
  intros H. unfold tabs. cbn [shift_shell s_x s_y s_z s_l s_exps].
  apply map_ext_in; intros b Hb. apply map_ext_in; intros a Ha.
  rewrite !table_shift by (apply H; assumption). reflexivity.
Qed.

Theorem mm_block_shift Cx Cy Cz orders sa sb tx ty tz : exps_ok sa sb ->
  mm_block K (Cx + tx) (Cy + ty) (Cz + tz) orders (shift_shell tx ty tz sa) (shift_shell tx ty tz sb)
  = mm_block K Cx Cy Cz orders sa sb.
Proof.
  intros H. unfold mm_block. cbv zeta. rewrite tabs_shift by exact H.
  apply map_ext; intros o. apply block_of_shift.
Qed.

Theorem moment_block_shift Cx Cy Cz orders sa sb tx ty tz : exps_ok sa sb ->
  moment_block K (Cx + tx) (Cy + ty) (Cz + tz) orders (shift_shell tx ty tz sa) (shift_shell tx ty tz sb)
  = moment_block K Cx Cy Cz orders sa sb.
Proof. intros H. unfold moment_block. now rewrite mm_block_shift. Qed.

(* the overlap block uses the moment tables of order 0 about the origin 0: moving the origin along
   is allowed because order 0 does not see it; here simply 0 + t is not 0, so go through PC-free rows *)
Lemma table_order0_origin Ax Bx Cx Cx' alpha beta la lb :
  table K Ax Bx Cx alpha beta la lb 0 = table K Ax Bx Cx' alpha beta la lb 0.
Proof. reflexivity. Qed.

Lemma tabs0_shift sa sb tx ty tz : exps_ok sa sb ->
  tabs K 0 0 0 [(0, 0, 0)%nat] (shift_shell tx ty tz sa) (shift_shell tx ty tz sb)
  = tabs K 0 0 0 [(0, 0, 0)%nat] sa sb.
Proof.
  intros H. unfold tabs. cbn [shift_shell s_x s_y s_z s_l s_exps omax fold_right Nat.max].
  apply map_ext_in; intros b Hb. apply map_ext_in; intros a Ha.
  rewrite (table_order0_origin _ _ 0 (0 + tx)), (table_order0_origin _ _ 0 (0 + ty)),
          (table_order0_origin _ _ 0 (0 + tz)).
  rewrite !table_shift by (apply H; assumption). reflexivity.
Qed.

Theorem overlap_block_shift sa sb tx ty tz : exps_ok sa sb ->
  overlap_block K (shift_shell tx ty tz sa) (shift_shell tx ty tz sb) = overlap_block K sa sb.
Proof.
  intros H. unfold overlap_block, mm_block. cbv zeta. rewrite tabs0_shift by exact H.
  reflexivity.
Qed.

Lemma dtabs_shift D sa sb tx ty tz : exps_ok sa sb ->
  dtabs K D (shift_shell tx ty tz sa) (shift_shell tx ty tz sb) = dtabs K D sa sb.
Proof.
  intros H. unfold dtabs. cbn [shift_shell s_x s_y s_z s_l s_exps].
  apply map_ext_in; intros b Hb. apply map_ext_in; intros a Ha.
  rewrite !dtable_shift by (apply H; assumption). reflexivity.
Qed.

Theorem diffop_block_shift orders sa sb tx ty tz : exps_ok sa sb ->
  diffop_block K orders (shift_shell tx ty tz sa) (shift_shell tx ty tz sb) = diffop_block K orders sa sb.
Proof.
  intros H. unfold diffop_block. cbv zeta. rewrite dtabs_shift by exact H.
  apply map_ext; intros o. apply block_of_shift.
Qed.

Theorem kinetic_block_shift sa sb tx ty tz : exps_ok sa sb ->
  kinetic_block K (shift_shell tx ty tz sa) (shift_shell tx ty tz sb) = kinetic_block K sa sb.
Proof. intros H. unfold kinetic_block. now rewrite diffop_block_shift. Qed.

Theorem momentum_block_shift sa sb tx ty tz : exps_ok sa sb ->
  momentum_block_re K (shift_shell tx ty tz sa) (shift_shell tx ty tz sb) = momentum_block_re K sa sb.
Proof. intros H. unfold momentum_block_re. now rewrite diffop_block_shift. Qed.

(* ---- Boys-type blocks ---- *)
Lemma vrr_prims_shift L Cx Cy Cz sa sb tx ty tz : exps_ok sa sb ->
  map (fun beta => map (fun alpha =>
      vrr_prim K L (s_x sa + tx) (s_y sa + ty) (s_z sa + tz) (s_x sb + tx) (s_y sb + ty) (s_z sb + tz)
               (Cx + tx) (Cy + ty) (Cz + tz) alpha beta) (s_exps sa)) (s_exps sb)
  = map (fun beta => map (fun alpha =>
      vrr_prim K L (s_x sa) (s_y sa) (s_z sa) (s_x sb) (s_y sb) (s_z sb) Cx Cy Cz alpha beta)
      (s_exps sa)) (s_exps sb).
Proof.
  intros H. apply map_ext_in; intros b Hb. apply map_ext_in; intros a Ha.
  apply vrr_prim_shift. apply H; assumption.
Qed.

Theorem one_elec_point_shift Cx Cy Cz sa sb tx ty tz : exps_ok sa sb ->
  one_elec_point K (Cx + tx) (Cy + ty) (Cz + tz) (shift_shell tx ty tz sa) (shift_shell tx ty tz sb)
  = one_elec_point K Cx Cy Cz sa sb.
Proof.
  intros H. unfold one_elec_point. cbv zeta.
  change (comps_of (shift_shell tx ty tz sa)) with (comps_of sa).
  change (comps_of (shift_shell tx ty tz sb)) with (comps_of sb).
  change (nseg (shift_shell tx ty tz sa)) with (nseg sa).
  change (nseg (shift_shell tx ty tz sb)) with (nseg sb).
  cbn [shift_shell s_x s_y s_z s_l s_exps s_coeffs].
  rewrite (vrr_prims_shift _ Cx Cy Cz sa sb tx ty tz H).
  rewrite !diff_shift. reflexivity.
Qed.

Definition shift_charge (tx ty tz : F) (p : F * F * F * F) : F * F * F * F :=
  (fst (fst (fst p)) + tx, snd (fst (fst p)) + ty, snd (fst p) + tz, snd p).

Lemma exps_ok_sym sa sb : exps_ok sa sb -> exps_ok sb sa.
Proof. intros H a b Ha Hb. specialize (H b a Hb Ha). intro E. apply H. rewrite <- E. ring. Qed.

Theorem point_charge_block_shift points sa sb tx ty tz : exps_ok sa sb ->
  point_charge_block K (map (shift_charge tx ty tz) points)
                     (shift_shell tx ty tz sa) (shift_shell tx ty tz sb)
  = point_charge_block K points sa sb.
Proof.
  intros H. pose proof (exps_ok_sym _ _ H) as H'. unfold point_charge_block. cbv zeta.
  change (comps_of (shift_shell tx ty tz sa)) with (comps_of sa).
  change (comps_of (shift_shell tx ty tz sb)) with (comps_of sb).
  change (nseg (shift_shell tx ty tz sa)) with (nseg sa).
  change (nseg (shift_shell tx ty tz sb)) with (nseg sb).
  change (s_l (shift_shell tx ty tz sa)) with (s_l sa).
  change (s_l (shift_shell tx ty tz sb)) with (s_l sb).
  rewrite map_map.
  apply mk_ext; intros ma _. apply mk_ext; intros ia _. apply mk_ext; intros mb _.
  apply mk_ext; intros ib _. rewrite !map_map.
  apply map_ext. intros [[[cx cy] cz] q]. unfold shift_charge. cbn [fst snd].
  rewrite !one_elec_point_shift by assumption. reflexivity.
Qed.

Theorem eri_block_shift s1 s2 s3 s4 tx ty tz : exps_ok s1 s2 -> exps_ok s3 s4 ->
  eri_block K (shift_shell tx ty tz s1) (shift_shell tx ty tz s2)
              (shift_shell tx ty tz s3) (shift_shell tx ty tz s4)
  = eri_block K s1 s2 s3 s4.
Proof.
  intros H12 H34. unfold eri_block. cbv zeta.
  change (comps_of (shift_shell tx ty tz s1)) with (comps_of s1).
  change (comps_of (shift_shell tx ty tz s2)) with (comps_of s2).
  change (comps_of (shift_shell tx ty tz s3)) with (comps_of s3).
  change (comps_of (shift_shell tx ty tz s4)) with (comps_of s4).
  change (nseg (shift_shell tx ty tz s1)) with (nseg s1).
  change (nseg (shift_shell tx ty tz s2)) with (nseg s2).
  change (nseg (shift_shell tx ty tz s3)) with (nseg s3).
  change (nseg (shift_shell tx ty tz s4)) with (nseg s4).
  change (wts K (shift_shell tx ty tz s1)) with (wts K s1).
  change (wts K (shift_shell tx ty tz s2)) with (wts K s2).
  change (wts K (shift_shell tx ty tz s3)) with (wts K s3).
  change (wts K (shift_shell tx ty tz s4)) with (wts K s4).
  unfold coord3. cbn [shift_shell s_x s_y s_z s_l s_exps s_coeffs].
  rewrite !diff_shift.
  assert (E :
    map (fun alpha => map (fun beta => map (fun gamma => map (fun delta =>
      eri_prim K (s_l s1 + s_l s2 + s_l s3 + s_l s4) (s_l s3 + s_l s4)
        (s_x s1 + tx, s_y s1 + ty, s_z s1 + tz) (s_x s2 + tx, s_y s2 + ty, s_z s2 + tz)
        (s_x s3 + tx, s_y s3 + ty, s_z s3 + tz) (s_x s4 + tx, s_y s4 + ty, s_z s4 + tz)
        alpha beta gamma delta) (s_exps s4)) (s_exps s3)) (s_exps s2)) (s_exps s1)
    = map (fun alpha => map (fun beta => map (fun gamma => map (fun delta =>
      eri_prim K (s_l s1 + s_l s2 + s_l s3 + s_l s4) (s_l s3 + s_l s4)
        (s_x s1, s_y s1, s_z s1) (s_x s2, s_y s2, s_z s2)
        (s_x s3, s_y s3, s_z s3) (s_x s4, s_y s4, s_z s4)
        alpha beta gamma delta) (s_exps s4)) (s_exps s3)) (s_exps s2)) (s_exps s1)).
  { apply map_ext_in; intros a Ha. apply map_ext_in; intros b Hb.
    apply map_ext_in; intros c Hc. apply map_ext_in; intros d Hd.
    apply eri_prim_shift; [apply H12|apply H34]; assumption. }
  rewrite E. reflexivity.
Qed.

(* ---- evaluation blocks ---- *)
Theorem block_with_shift md cm ef s o pts tx ty tz :
  block_with K md cm ef (shift_shell tx ty tz s) o (map (shift_point tx ty tz) pts)
  = block_with K md cm ef s o pts.
Proof.
  unfold block_with. cbv zeta.
  change (comps_of (shift_shell tx ty tz s)) with (comps_of s).
  change (nseg (shift_shell tx ty tz s)) with (nseg s).
  change (norms K (shift_shell tx ty tz s)) with (norms K s).
  rewrite map_map.
  assert (E : forall p, pt_mat K md cm ef (shift_shell tx ty tz s) o (norms K s) (shift_point tx ty tz p)
                        = pt_mat K md cm ef s o (norms K s) p).
  { intros p. unfold pt_mat, pt_vals. cbv zeta.
    change (comps_of (shift_shell tx ty tz s)) with (comps_of s).
    change (nseg (shift_shell tx ty tz s)) with (nseg s).
    change (s_coeffs (shift_shell tx ty tz s)) with (s_coeffs s).
    change (s_exps (shift_shell tx ty tz s)) with (s_exps s).
    assert (E1 : map (prim_data K md ef (shift_shell tx ty tz s) o (shift_point tx ty tz p)) (s_exps s)
                 = map (prim_data K md ef s o p) (s_exps s)).
    { apply map_ext; intros a. apply prim_data_shift. }
    rewrite E1. reflexivity. }
  apply mk_ext; intros m _. apply mk_ext; intros c _.
  f_equal. apply map_ext; intros p. apply E.
Qed.

Theorem eval_block_shift s pts o bk tx ty tz :
  eval_block K (shift_shell tx ty tz s) (map (shift_point tx ty tz) pts) o bk = eval_block K s pts o bk.
Proof.
  unfold eval_block.
  change (comps_of (shift_shell tx ty tz s)) with (comps_of s).
  change (s_l (shift_shell tx ty tz s)) with (s_l s).
  now rewrite block_with_shift.
Qed.

End Rigid.
