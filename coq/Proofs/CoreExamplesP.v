(* Proofs/CoreExamplesP.v — the hypotheses of the block-level theorems (Proofs/CoreBlockP.v,
   CoreDiffP.v) are satisfiable: a concrete non-trivial instance over the executable field Qc
   (any oracle closures): a generalized d shell (K = 2 primitives, M = 2 segments, 6 components)
   against an off-centre p shell, with every index hypothesis in range. *)
From Coq Require Import List Arith Lia ZArith QArith Qcanon.
From GB Require Import Base.Field Base.FNum Base.Tables Model.Shell Model.MomentInt
  Proofs.CoreSumP Proofs.CoreBlockP.
Import ListNotations.
Local Open Scope nat_scope.

Section Ex.
Variables (opi : Qc) (osqrt oexp oln : Qc -> Qc) (oboys : nat -> Qc -> Qc).
Definition KQ : Fops Qc := QcK true opi osqrt oexp oln oboys.

Definition q (n : Z) (d : positive) : Qc := Q2Qc (Qmake n d).

Definition ex_sa : shell Qc :=
  mkShell Qc 2 (q 0 1) (q 0 1) (q 0 1) [q 1 2; q 2 1] [[q 1 1; q 1 2]; [q 1 3; q 1 1]] false [] [].
Definition ex_sb : shell Qc :=
  mkShell Qc 1 (q 1 2) (q (-1) 1) (q 0 1) [q 3 4] [[q 1 1]] false [] [].

Lemma KQ_field : is_field KQ.
Proof. apply QcK_field. Qed.

Lemma KQ_apx : forall x : Qc, fapx KQ x = x.
Proof. reflexivity. Qed.

Lemma qc_neq (x y : Qc) : Qeq_bool x y = false -> x <> y.
Proof. intros H E. subst y. rewrite Qeq_bool_refl in H. discriminate. Qed.

Lemma KQ_two : fadd KQ (f1 KQ) (f1 KQ) <> f0 KQ.
Proof. apply qc_neq. vm_compute. reflexivity. Qed.

Lemma ex_wf_a : wf_shell ex_sa.
Proof. apply wf_shell_default; reflexivity. Qed.
Lemma ex_wf_b : wf_shell ex_sb.
Proof. apply wf_shell_default; reflexivity. Qed.

Lemma ex_exps_ok : exps_ok KQ ex_sa ex_sb.
Proof.
  intros alpha beta Ha Hb. cbn [ex_sa ex_sb s_exps In] in Ha, Hb.
  destruct Hb as [<-|[]]. destruct Ha as [<-|[<-|[]]]; apply qc_neq; vm_compute; reflexivity.
Qed.

Lemma ex_ranges :
  1 < nseg ex_sa /\ 5 < length (comps_of ex_sa) /\ 0 < nseg ex_sb /\ 2 < length (comps_of ex_sb)
  /\ nth 4 (comps_of ex_sa) (0, 0, 0)%nat = (0, 1, 1)%nat.
Proof. vm_compute. repeat split; lia. Qed.

(* all hypotheses of the block theorems at once *)
Theorem block_hypotheses_satisfiable :
  is_field KQ /\ (forall x : Qc, fapx KQ x = x) /\ fadd KQ (f1 KQ) (f1 KQ) <> f0 KQ
  /\ wf_shell ex_sa /\ wf_shell ex_sb /\ exps_ok KQ ex_sa ex_sb /\ exps_ok KQ ex_sa ex_sa
  /\ 1 < nseg ex_sa /\ 5 < length (comps_of ex_sa) /\ 0 < nseg ex_sb /\ 2 < length (comps_of ex_sb).
Proof.
  pose proof ex_ranges as [R1 [R2 [R3 [R4 _]]]].
  refine (conj KQ_field (conj KQ_apx (conj KQ_two (conj ex_wf_a (conj ex_wf_b (conj ex_exps_ok
           (conj _ (conj R1 (conj R2 (conj R3 R4)))))))))).
  intros alpha beta Ha Hb. cbn [ex_sa s_exps In] in Ha, Hb.
  destruct Ha as [<-|[<-|[]]]; destruct Hb as [<-|[<-|[]]]; apply qc_neq; vm_compute; reflexivity.
Qed.
End Ex.
