(* Proofs/SameFunRealP.v — closure of property C16 over the real numbers.

   Proofs/SameFunP.v (generic field): the evaluation model and the integral models factor through ONE list of
   function descriptors [descr_basis K basis]; the integral step was a hypothesis on an abstract linear
   functional.  Gauss/Bridge3D.v (over R, number interface RK): the primitive-pair expressions of the
   E-functional ARE the iterated improper integrals [gint3] of products of Cartesian Gaussian primitives.
   This file connects them, at F := R, K := RK:

     dfun d x y z            := eval_spec RK d (x, y, z), the honest function R^3 -> R of a descriptor
     gint3_pair_overlap      gint3 (dfun d1 * dfun d2)                         (pair_spec RK (Iov RK) d1 d2)
     gint3_pair_moment       gint3 ((r-C)^o * dfun d1 * dfun d2)               (pair_spec RK (Imom RK C o) d1 d2)
     gint3_pair_kinetic      gint3 (dfun d1 * (-1/2 Laplacian (dfun d2)))      (pair_spec RK (Ikin RK) d1 d2)
                             for ANY two descriptors with positive exponents (Cartesian, spherical combinations,
                             any centres) — the Laplacian is Coquelicot's Derive_n of the honest function
     deriv_spec_is_derivative  deriv_spec RK (ox,oy,oz) d (x,y,z) = pd3 ox oy oz (dfun d) x y z
     cart_desc_is_cfun       dfun (cart_desc RK s m ic) = norm_cont[m][ic] * cfun s m (comps[ic])
                             (cfun = the contracted function whose iterated integrals are the block entries in
                              Gauss/Bridge3D.v), sph_desc_is_comb for the rows of a spherical shell
     bfun basis I x y z      := entry (I, 0) of evaluate_basis_model RK basis [(x,y,z)] None: the number the
                                evaluation MODEL returns for basis function I at the point (x,y,z)
     closed_overlap          overlap_integral RK basis None [I][J]   is  gint3 (bfun I * bfun J)
     closed_moment           moment_integral ... [I][J][d]           is  gint3 ((r-C)^{o_d} * bfun I * bfun J)
     closed_kinetic          kinetic_integral RK basis None [I][J]   is  gint3 (bfun I * (-1/2 Laplacian (bfun J)))
     closed_deriv_model      evaluate_deriv_basis_model ... (ox,oy,oz) [I][0] = pd3 ox oy oz (bfun basis I) x y z
   for EVERY basis of well-formed shells (Cartesian, spherical, mixed; any l, K, M) with positive exponents.
   "Integral over R^3" means the iterated improper Riemann integral gint3 (Props/BRIDGE_3d.v); its
   identification with the Lebesgue integral (Fubini-Tonelli for polynomial x Gaussian) is the only step
   left outside Coq.  Assumptions: the classical real numbers of the standard library. *)
From Coq Require Import Reals Lra Lia List.
From Coquelicot Require Import Coquelicot.
From GB Require Import Base.Field Base.FNum Base.Tables Gauss.Moment1D Gauss.Bridge Gauss.DerivBridge
  Gauss.BridgeR Gauss.GaussInt Model.Eval Model.Shell Model.MomentInt Model.Spherical Model.Assembly
  Model.Overlap Model.DiffOp Model.OneBody Proofs.DiffOpP Proofs.CoreSumP Proofs.CoreBlockP Proofs.CoreDiffP
  Proofs.ScreeningP Proofs.CoreNormP Proofs.BlockMatP Gauss.Bridge3D Proofs.SameFunP.
From GB Require Proofs.AssembledP Proofs.AssembledSphP.
Import ListNotations.
Open Scope R_scope.

Notation gprimR := (@SameFunP.gprim R).
Notation ptermR := (@SameFunP.pterm R).
Notation fdescR := (@SameFunP.fdesc R).
Notation fsumR := (FNum.fsum RK).

(* ------------------------------------------------------------------ *)
(* 1. finite sums over lists, iterated integrals of finite sums        *)
(* ------------------------------------------------------------------ *)
Lemma fsumR_cons x l : fsumR (x :: l) = x + fsumR l.
Proof. reflexivity. Qed.

Lemma gint3_fsum_map {A} (l : list A) (G : A -> R -> R -> R -> R) (v : A -> R) :
  (forall a, In a l -> gint3 (G a) (v a)) ->
  gint3 (fun x y z => fsumR (map (fun a => G a x y z) l)) (fsumR (map v l)).
Proof.
  induction l as [|a l IH]; intro H.
  - exact gint3_zero.
  - cbn [map]. rewrite fsumR_cons.
    refine (gint3_ext _ _ _ _ _ eq_refl
              (gint3_plus _ _ _ _ (H a (or_introl eq_refl)) (IH (fun b Hb => H b (or_intror Hb))))).
    intros x y z. reflexivity.
Qed.

(* bilinear extension: the iterated integral of  sum_{t1} sum_{t2} w1 w2 q(g1, g2)  is the pairing *)
Theorem gint3_pairing (q : gprimR -> gprimR -> R -> R -> R -> R) (Ip : gprimR -> gprimR -> R)
        (d1 d2 : fdescR) :
  (forall t1 t2, In t1 d1 -> In t2 d2 -> gint3 (q (t_g t1) (t_g t2)) (Ip (t_g t1) (t_g t2))) ->
  gint3 (fun x y z => fsumR (map (fun t1 => fsumR (map (fun t2 =>
           t_w t1 * t_w t2 * q (t_g t1) (t_g t2) x y z) d2)) d1))
        (pair_spec RK Ip d1 d2).
Proof.
  intro H. unfold pair_spec.
  apply (gint3_fsum_map d1
           (fun t1 x y z => fsumR (map (fun t2 => t_w t1 * t_w t2 * q (t_g t1) (t_g t2) x y z) d2))
           (fun t1 => fsumR (map (fun t2 => fmul RK (fmul RK (t_w t1) (t_w t2)) (Ip (t_g t1) (t_g t2))) d2))).
  intros t1 H1.
  apply (gint3_fsum_map d2
           (fun t2 x y z => t_w t1 * t_w t2 * q (t_g t1) (t_g t2) x y z)
           (fun t2 => fmul RK (fmul RK (t_w t1) (t_w t2)) (Ip (t_g t1) (t_g t2)))).
  intros t2 H2. exact (gint3_scal (t_w t1 * t_w t2) _ _ (H t1 t2 H1 H2)).
Qed.

(* ------------------------------------------------------------------ *)
(* 2. primitives: the descriptor record and the honest function         *)
(* ------------------------------------------------------------------ *)
(* the honest function of a primitive descriptor: (x-X)^a (y-Y)^b (z-Z)^c exp(-alpha |r-R|^2) *)
Definition gfun (g : gprimR) : R -> R -> R -> R := cprim (g_a g) (g_x g) (g_y g) (g_z g) (g_c g).

(* a shell record carrying the centre of a primitive (the primitive theorems of Bridge3D.v take the
   centre from a shell) *)
Definition shg (g : gprimR) : shell R := mkShell R 0 (g_x g) (g_y g) (g_z g) [] [] false [] [].

Lemma gfun_gprim g : gfun g = Bridge3D.gprim (shg g) (g_a g) (g_c g).
Proof. reflexivity. Qed.

(* the value / derivative of a unit-weight primitive as the evaluation spec computes it IS the mixed partial
   derivative of the honest function *)
Lemma dval_is_pd3 (o : Shell.comp) (g : gprimR) (x y z : R) :
  dval RK o g (x, y, z) = pd3 (SameFunP.cx o) (SameFunP.cy o) (SameFunP.cz o) (gfun g) x y z.
Proof.
  unfold gfun. rewrite pd3_cprim, !cg1_Derive_n.
  unfold dval, term_val, t_x, t_y, t_z, t_a, t_c. cbn [t_w t_g fst snd].
  change (fmul RK) with Rmult. change (fsub RK) with Rminus. change (fadd RK) with Rplus.
  change (fopp RK) with Ropp. change (fexp RK) with exp. change (f1 RK) with 1.
  change (@u R RK) with (@u R RKd).
  replace (- (g_a g * ((x - g_x g) * (x - g_x g) + (y - g_y g) * (y - g_y g) + (z - g_z g) * (z - g_z g))))
    with (- g_a g * (x - g_x g) ^ 2 + - g_a g * (y - g_y g) ^ 2 + - g_a g * (z - g_z g) ^ 2) by ring.
  rewrite !exp_plus. unfold SameFunP.cx, SameFunP.cy, SameFunP.cz, CoreBlockP.cx, CoreBlockP.cy, CoreBlockP.cz. ring.
Qed.

Lemma pd3_000 G x y z : pd3 0 0 0 G x y z = G x y z.
Proof. reflexivity. Qed.

Lemma dval0_is_gfun (g : gprimR) (x y z : R) : dval RK (0, 0, 0)%nat g (x, y, z) = gfun g x y z.
Proof. now rewrite dval_is_pd3. Qed.

Definition pos_desc (d : fdescR) : Prop := forall t, In t d -> 0 < t_a t.

(* the E-functional expressions of SameFunP.v are the primitive specs of CoreBlockP.v / CoreDiffP.v *)
Lemma Imom_is_mom_prim Cx Cy Cz o (g1 g2 : gprimR) :
  Imom RK Cx Cy Cz o g1 g2
  = mom_prim RK Cx Cy Cz o (shg g1) (shg g2) (g_c g1) (g_c g2) (g_a g1) (g_a g2).
Proof.
  unfold Imom, mom1, mom_prim, KAB, T1. cbn [shg s_x s_y s_z].
  unfold SameFunP.cx, SameFunP.cy, SameFunP.cz, CoreBlockP.cx, CoreBlockP.cy, CoreBlockP.cz.
  change (fmul RK) with Rmult. ring.
Qed.

Lemma Ider_is_dprim o (g1 g2 : gprimR) :
  Ider RK o g1 g2 = dprim RK o (shg g1) (shg g2) (g_c g1) (g_c g2) (g_a g1) (g_a g2).
Proof. reflexivity. Qed.

(* (B1) for one pair of primitives, proved: moments / overlap *)
Theorem prim_pair_moment Cx Cy Cz (o : Shell.comp) (g1 g2 : gprimR) : 0 < g_a g1 -> 0 < g_a g2 ->
  gint3 (fun x y z => (x - Cx) ^ SameFunP.cx o * (y - Cy) ^ SameFunP.cy o * (z - Cz) ^ SameFunP.cz o
                      * (gfun g1 x y z * gfun g2 x y z))
        (Imom RK Cx Cy Cz o g1 g2).
Proof.
  intros H1 H2. rewrite Imom_is_mom_prim.
  refine (gint3_ext _ _ _ _ _ eq_refl
            (mom_prim_3d_integral Cx Cy Cz o (shg g1) (shg g2) (g_c g1) (g_c g2) (g_a g1) (g_a g2) H1 H2)).
  intros x y z. rewrite !gfun_gprim.
  unfold SameFunP.cx, SameFunP.cy, SameFunP.cz, CoreBlockP.cx, CoreBlockP.cy, CoreBlockP.cz. ring.
Qed.

Theorem prim_pair_overlap (g1 g2 : gprimR) : 0 < g_a g1 -> 0 < g_a g2 ->
  gint3 (fun x y z => gfun g1 x y z * gfun g2 x y z) (Iov RK g1 g2).
Proof.
  intros H1 H2.
  refine (gint3_ext _ _ _ _ _ eq_refl (prim_pair_moment 0 0 0 (0, 0, 0)%nat g1 g2 H1 H2)).
  intros x y z. cbn [SameFunP.cx SameFunP.cy SameFunP.cz fst snd pow]. ring.
Qed.

(* kinetic energy *)
Theorem prim_pair_kinetic (g1 g2 : gprimR) : 0 < g_a g1 -> 0 < g_a g2 ->
  gint3 (fun x y z => gfun g1 x y z * (- (1 / 2) * lap3 (gfun g2) x y z)) (Ikin RK g1 g2).
Proof.
  intros H1 H2.
  pose proof (dprim_3d_integral (2, 0, 0)%nat (shg g1) (shg g2) (g_c g1) (g_c g2) (g_a g1) (g_a g2) H1 H2) as Hx.
  pose proof (dprim_3d_integral (0, 2, 0)%nat (shg g1) (shg g2) (g_c g1) (g_c g2) (g_a g1) (g_a g2) H1 H2) as Hy.
  pose proof (dprim_3d_integral (0, 0, 2)%nat (shg g1) (shg g2) (g_c g1) (g_c g2) (g_a g1) (g_a g2) H1 H2) as Hz.
  refine (gint3_ext _ _ _ _ _ _
            (gint3_scal (- (1 / 2)) _ _ (gint3_plus _ _ _ _ (gint3_plus _ _ _ _ Hx Hy) Hz))).
  - intros x y z. cbv beta. rewrite !gfun_gprim. unfold lap3, CoreBlockP.cx, CoreBlockP.cy, CoreBlockP.cz.
    cbn [fst snd]. ring.
  - unfold Ikin. rewrite !Ider_is_dprim.
    change (fmul RK) with Rmult. change (fadd RK) with Rplus. change (fdiv RK) with Rdiv.
    change (fopp RK) with Ropp. change (f1 RK) with 1. field.
Qed.

(* ------------------------------------------------------------------ *)
(* 3. descriptors: the honest function, its derivatives                 *)
(* ------------------------------------------------------------------ *)
Definition dfun (d : fdescR) (x y z : R) : R := eval_spec RK d (x, y, z).

Lemma deriv_spec_terms (o : Shell.comp) (d : fdescR) (x y z : R) :
  deriv_spec RK o d (x, y, z) = fsumR (map (fun t => t_w t * dval RK o (t_g t) (x, y, z)) d).
Proof.
  unfold deriv_spec. f_equal. apply map_ext. intro t. exact (term_val_w RK RK_field o (x, y, z) t).
Qed.

Lemma dfun_terms (d : fdescR) (x y z : R) :
  dfun d x y z = fsumR (map (fun t => t_w t * gfun (t_g t) x y z) d).
Proof.
  unfold dfun, eval_spec. rewrite deriv_spec_terms. f_equal. apply map_ext. intro t.
  now rewrite dval0_is_gfun.
Qed.

Lemma pd3_ext ox oy oz (G H : R -> R -> R -> R) x y z :
  (forall x y z, G x y z = H x y z) -> pd3 ox oy oz G x y z = pd3 ox oy oz H x y z.
Proof.
  intro E. unfold pd3. apply Derive_n_ext. intro x'. apply Derive_n_ext. intro y'.
  apply Derive_n_ext. intro z'. apply E.
Qed.

(* every mixed partial derivative of a finite weighted sum of Cartesian Gaussian primitives (any centres,
   exponents, powers) is the weighted sum of the derivatives: pd3_cfun of Bridge3D.v without the shell *)
Lemma pd3_wsum n (w al Ax Ay Az : nat -> R) (cc : nat -> Shell.comp) ox oy oz x y z :
  pd3 ox oy oz (fun x y z => fsumR (Tables.mk n (fun k => w k * cprim (al k) (Ax k) (Ay k) (Az k) (cc k) x y z))) x y z
  = fsumR (Tables.mk n (fun k => w k * pd3 ox oy oz (cprim (al k) (Ax k) (Ay k) (Az k) (cc k)) x y z)).
Proof.
  set (gx := fun k => cg1 (al k) (Ax k) (CoreBlockP.cx (cc k))).
  set (gy := fun k => cg1 (al k) (Ay k) (CoreBlockP.cy (cc k))).
  set (gz := fun k => cg1 (al k) (Az k) (CoreBlockP.cz (cc k))).
  transitivity (fsumR (Tables.mk n (fun k => w k *
                  (Derive_n (gx k) ox x * Derive_n (gy k) oy y * Derive_n (gz k) oz z)))).
  2:{ apply fsumR_ext. intro k. now rewrite pd3_cprim. }
  unfold pd3.
  assert (Ez : forall x' y',
     Derive_n (fun z' => fsumR (Tables.mk n (fun k => w k * cprim (al k) (Ax k) (Ay k) (Az k) (cc k) x' y' z'))) oz z
     = fsumR (Tables.mk n (fun k => w k * (gx k x' * gy k y' * Derive_n (gz k) oz z)))).
  { intros x' y'.
    rewrite (Derive_n_ext _ (fun z' => fsumR (Tables.mk n (fun k => w k * (gz k z' * (gx k x' * gy k y'))))) oz z).
    - rewrite (Derive_n_fsum n w (fun k z' => gz k z' * (gx k x' * gy k y'))).
      + apply fsumR_ext. intro k. rewrite Derive_n_scal_r. ring.
      + intro k. apply smooth_scal_r, smooth_cg1.
    - intro z'. apply fsumR_ext. intro k. rewrite cprim_split. unfold gx, gy, gz. ring. }
  assert (Ey : forall x',
     Derive_n (fun y' => Derive_n (fun z' => fsumR (Tables.mk n (fun k =>
                 w k * cprim (al k) (Ax k) (Ay k) (Az k) (cc k) x' y' z'))) oz z) oy y
     = fsumR (Tables.mk n (fun k => w k * (gx k x' * Derive_n (gy k) oy y * Derive_n (gz k) oz z)))).
  { intro x'.
    rewrite (Derive_n_ext _ (fun y' => fsumR (Tables.mk n (fun k => w k
                 * (gy k y' * (gx k x' * Derive_n (gz k) oz z))))) oy y).
    - rewrite (Derive_n_fsum n w (fun k y' => gy k y' * (gx k x' * Derive_n (gz k) oz z))).
      + apply fsumR_ext. intro k. rewrite Derive_n_scal_r. ring.
      + intro k. apply smooth_scal_r, smooth_cg1.
    - intro y'. rewrite Ez. apply fsumR_ext. intro k. ring. }
  rewrite (Derive_n_ext _ (fun x' => fsumR (Tables.mk n (fun k => w k
               * (gx k x' * (Derive_n (gy k) oy y * Derive_n (gz k) oz z))))) ox x).
  - rewrite (Derive_n_fsum n w (fun k x' => gx k x' * (Derive_n (gy k) oy y * Derive_n (gz k) oz z))).
    + apply fsumR_ext. intro k. rewrite Derive_n_scal_r. ring.
    + intro k. apply smooth_scal_r, smooth_cg1.
  - intro x'. rewrite Ey. apply fsumR_ext. intro k. ring.
Qed.

Definition t0R : ptermR := mkT 0 (mkG 0 0 0 0 (0, 0, 0)%nat).

Lemma fsumR_map_mk {A} (f : A -> R) (l : list A) (d : A) :
  fsumR (map f l) = fsumR (Tables.mk (length l) (fun k => f (nth k l d))).
Proof. now rewrite (SameFunP.map_as_mk f l d). Qed.

(* derivatives of the honest function of a descriptor, term by term *)
Lemma pd3_dfun (d : fdescR) ox oy oz x y z :
  pd3 ox oy oz (dfun d) x y z = fsumR (map (fun t => t_w t * pd3 ox oy oz (gfun (t_g t)) x y z) d).
Proof.
  rewrite (fsumR_map_mk _ d t0R).
  rewrite (pd3_ext ox oy oz (dfun d)
             (fun x y z => fsumR (Tables.mk (length d) (fun k =>
                t_w (nth k d t0R) * cprim (t_a (nth k d t0R)) (t_x (nth k d t0R)) (t_y (nth k d t0R))
                                          (t_z (nth k d t0R)) (t_c (nth k d t0R)) x y z)))).
  - apply (pd3_wsum (length d) (fun k => t_w (nth k d t0R)) (fun k => t_a (nth k d t0R))
             (fun k => t_x (nth k d t0R)) (fun k => t_y (nth k d t0R)) (fun k => t_z (nth k d t0R))
             (fun k => t_c (nth k d t0R))).
  - intros x' y' z'. rewrite dfun_terms. now rewrite (fsumR_map_mk _ d t0R).
Qed.

(* what the derivative spec (hence the derivative MODEL) returns is the mixed partial derivative of the
   honest function *)
Theorem deriv_spec_is_derivative (d : fdescR) (ox oy oz : nat) (x y z : R) :
  deriv_spec RK (ox, oy, oz) d (x, y, z) = pd3 ox oy oz (dfun d) x y z.
Proof.
  rewrite pd3_dfun, deriv_spec_terms. f_equal. apply map_ext. intro t.
  now rewrite dval_is_pd3.
Qed.

Lemma fsumR_scale {A} c (f : A -> R) l : fsumR (map (fun x => c * f x) l) = c * fsumR (map f l).
Proof. exact (SameFunP.fsum_scale RK RK_field c f l). Qed.
Lemma fsumR_add {A} (f g : A -> R) l :
  fsumR (map (fun x => f x + g x) l) = fsumR (map f l) + fsumR (map g l).
Proof. exact (SameFunP.fsum_add RK RK_field f g l). Qed.
Lemma fsumR_mul {A B} (f : A -> R) (g : B -> R) la lb :
  fsumR (map f la) * fsumR (map g lb) = fsumR (map (fun a => fsumR (map (fun b => f a * g b) lb)) la).
Proof. exact (SameFunP.fsum_mul RK RK_field f g la lb). Qed.
Lemma fsumR_ext_in {A} (f g : A -> R) l : (forall x, In x l -> f x = g x) -> fsumR (map f l) = fsumR (map g l).
Proof. exact (SameFunP.fsum_ext_in RK f g l). Qed.

Lemma half_lap3_dfun (d : fdescR) x y z :
  - (1 / 2) * lap3 (dfun d) x y z
  = fsumR (map (fun t => t_w t * (- (1 / 2) * lap3 (gfun (t_g t)) x y z)) d).
Proof.
  unfold lap3. rewrite !pd3_dfun, <- !fsumR_add, <- fsumR_scale.
  apply fsumR_ext_in. intros t _. ring.
Qed.

(* ------------------------------------------------------------------ *)
(* 4. the pairings of SameFunP.v ARE iterated integrals of the honest functions *)
(* ------------------------------------------------------------------ *)
Theorem gint3_pair_moment Cx Cy Cz (o : Shell.comp) (d1 d2 : fdescR) : pos_desc d1 -> pos_desc d2 ->
  gint3 (fun x y z => (x - Cx) ^ SameFunP.cx o * (y - Cy) ^ SameFunP.cy o * (z - Cz) ^ SameFunP.cz o
                      * dfun d1 x y z * dfun d2 x y z)
        (pair_spec RK (Imom RK Cx Cy Cz o) d1 d2).
Proof.
  intros P1 P2.
  refine (gint3_ext _ _ _ _ _ eq_refl
            (gint3_pairing (fun g1 g2 x y z =>
                 (x - Cx) ^ SameFunP.cx o * (y - Cy) ^ SameFunP.cy o * (z - Cz) ^ SameFunP.cz o
                 * (gfun g1 x y z * gfun g2 x y z)) (Imom RK Cx Cy Cz o) d1 d2 _)).
  - intros x y z. cbv beta. rewrite !dfun_terms.
    set (Wm := (x - Cx) ^ SameFunP.cx o * (y - Cy) ^ SameFunP.cy o * (z - Cz) ^ SameFunP.cz o).
    symmetry. rewrite Rmult_assoc, fsumR_mul, <- fsumR_scale. apply fsumR_ext_in. intros t1 _.
    rewrite <- fsumR_scale. apply fsumR_ext_in. intros t2 _. ring.
  - intros t1 t2 H1 H2. exact (prim_pair_moment Cx Cy Cz o (t_g t1) (t_g t2) (P1 t1 H1) (P2 t2 H2)).
Qed.

Theorem gint3_pair_overlap (d1 d2 : fdescR) : pos_desc d1 -> pos_desc d2 ->
  gint3 (fun x y z => dfun d1 x y z * dfun d2 x y z) (pair_spec RK (Iov RK) d1 d2).
Proof.
  intros P1 P2.
  refine (gint3_ext _ _ _ _ _ eq_refl (gint3_pair_moment 0 0 0 (0, 0, 0)%nat d1 d2 P1 P2)).
  intros x y z. cbn [SameFunP.cx SameFunP.cy SameFunP.cz fst snd pow]. ring.
Qed.

Theorem gint3_pair_kinetic (d1 d2 : fdescR) : pos_desc d1 -> pos_desc d2 ->
  gint3 (fun x y z => dfun d1 x y z * (- (1 / 2) * lap3 (dfun d2) x y z)) (pair_spec RK (Ikin RK) d1 d2).
Proof.
  intros P1 P2.
  refine (gint3_ext _ _ _ _ _ eq_refl
            (gint3_pairing (fun g1 g2 x y z => gfun g1 x y z * (- (1 / 2) * lap3 (gfun g2) x y z))
               (Ikin RK) d1 d2 _)).
  - intros x y z. cbv beta. rewrite half_lap3_dfun, dfun_terms, fsumR_mul.
    apply fsumR_ext_in. intros t1 _. apply fsumR_ext_in. intros t2 _. ring.
  - intros t1 t2 H1 H2. exact (prim_pair_kinetic (t_g t1) (t_g t2) (P1 t1 H1) (P2 t2 H2)).
Qed.

(* the three pairings at once; (B1) for a pair of primitives in the form of SameFunP.lin_of_product *)
Theorem pairing_is_integral (d1 d2 : fdescR) : pos_desc d1 -> pos_desc d2 ->
  gint3 (fun x y z => dfun d1 x y z * dfun d2 x y z) (pair_spec RK (Iov RK) d1 d2)
  /\ gint3 (fun x y z => dfun d1 x y z * (- (1 / 2) * lap3 (dfun d2) x y z)) (pair_spec RK (Ikin RK) d1 d2)
  /\ forall Cx Cy Cz (o : Shell.comp),
     gint3 (fun x y z => (x - Cx) ^ SameFunP.cx o * (y - Cy) ^ SameFunP.cy o * (z - Cz) ^ SameFunP.cz o
                         * dfun d1 x y z * dfun d2 x y z)
           (pair_spec RK (Imom RK Cx Cy Cz o) d1 d2).
Proof.
  intros P1 P2. split; [now apply gint3_pair_overlap|]. split; [now apply gint3_pair_kinetic|].
  intros. now apply gint3_pair_moment.
Qed.

Theorem primitive_pair_integrals (g1 g2 : gprimR) : 0 < g_a g1 -> 0 < g_a g2 ->
  gint3 (fun x y z => dval RK (0, 0, 0)%nat g1 (x, y, z) * dval RK (0, 0, 0)%nat g2 (x, y, z)) (Iov RK g1 g2)
  /\ gint3 (fun x y z => gfun g1 x y z * gfun g2 x y z) (Iov RK g1 g2)
  /\ gint3 (fun x y z => gfun g1 x y z * (- (1 / 2) * lap3 (gfun g2) x y z)) (Ikin RK g1 g2)
  /\ forall x y z, dval RK (0, 0, 0)%nat g1 (x, y, z) = gfun g1 x y z
                   /\ gfun g1 x y z = cprim (g_a g1) (g_x g1) (g_y g1) (g_z g1) (g_c g1) x y z.
Proof.
  intros H1 H2. split; [|split; [now apply prim_pair_overlap|split; [now apply prim_pair_kinetic|]]].
  - refine (gint3_ext _ _ _ _ _ eq_refl (prim_pair_overlap g1 g2 H1 H2)).
    intros x y z. now rewrite !dval0_is_gfun.
  - intros x y z. split; [apply dval0_is_gfun|reflexivity].
Qed.

(* ------------------------------------------------------------------ *)
(* 5. (a) the descriptors of a shell are the contracted functions of Bridge3D.v *)
(* ------------------------------------------------------------------ *)
(* Cartesian function (segment m, component number ic) = norm_cont[m][ic] * cfun s m (comps[ic]) *)
Theorem cart_desc_is_cfun (s : shell R) (m ic : nat) (x y z : R) : wf_coeffs s ->
  dfun (cart_desc RK s m ic) x y z = ncf RK s m ic * cfun s m (compi s ic) x y z.
Proof.
  intro W. rewrite dfun_terms. unfold cart_desc, cfun. rewrite map_map.
  rewrite (combine_as_mk (s_exps s) (s_coeffs s) 0 []) by (unfold wf_coeffs in W; now rewrite W).
  rewrite CoreSumP.map_mk.
  change (ncf RK s m ic * fsumR ?l) with (fmul RK (ncf RK s m ic) (fsumR l)).
  rewrite (fsum_mk_scale_l RK RK_field). apply fsum_mk_ext. intros k _.
  cbn [t_w t_g fst snd]. unfold cw, gfun, Bridge3D.gprim. cbn [g_a g_x g_y g_z g_c].
  change (fmul RK) with Rmult. change (f0 RK) with 0. ring.
Qed.

(* spherical function (segment m, row r of generate_transformation) = sum_c T[r][c] * (Cartesian function c) *)
Theorem sph_desc_is_comb (s : shell R) (m r : nat) (x y z : R) : wf_coeffs s -> s_sph s = true ->
  dfun (dd RK s m r) x y z
  = fsumR (map (fun p : R * nat => fst p * (ncf RK s m (snd p) * cfun s m (compi s (snd p)) x y z))
               (combine (nth r (shell_transform RK s) []) (seq 0 (ncomp s)))).
Proof.
  intros W Hs. unfold dd. rewrite Hs. unfold dfun, eval_spec.
  rewrite (deriv_spec_dcomb RK RK_field). unfold Tables.mk. rewrite combine_map_r', map_map.
  apply fsumR_ext_in. intros [t c] _. cbn [fst snd].
  change (deriv_spec RK (0, 0, 0)%nat (cart_desc RK s m c) (x, y, z)) with (dfun (cart_desc RK s m c) x y z).
  now rewrite cart_desc_is_cfun.
Qed.

Lemma dd_cart (s : shell R) (m r : nat) : s_sph s = false -> dd RK s m r = cart_desc RK s m r.
Proof. intro Hs. unfold dd. now rewrite Hs. Qed.

(* the exponents of the descriptors of a basis are exponents of its shells *)
Definition pos_basis (basis : list (shell R)) : Prop := forall s, In s basis -> pos_exps3 s.

Lemma descr_basis_pos (basis : list (shell R)) d :
  pos_basis basis -> In d (descr_basis RK basis) -> pos_desc d.
Proof.
  intros P Hd. unfold descr_basis in Hd. apply in_concat in Hd. destruct Hd as [l [Hl Hd]].
  apply in_map_iff in Hl. destruct Hl as [s [<- Hs]].
  intros t Ht. apply (P s Hs). exact (descr_exps RK s d Hd t Ht).
Qed.

Lemma exps_ok_of_pos (basis : list (shell R)) : pos_basis basis ->
  forall sa sb, In sa basis -> In sb basis -> SameFunP.exps_ok RK sa sb.
Proof.
  intros P sa sb Ha Hb alpha beta Hal Hbe. pose proof (P sa Ha alpha Hal). pose proof (P sb Hb beta Hbe).
  unfold psum. change (alpha + beta <> 0). lra.
Qed.

(* ------------------------------------------------------------------ *)
(* 6. (b) the closed theorems on the MODELS                             *)
(* ------------------------------------------------------------------ *)
(* what the evaluation model returns for basis function I at the point (x, y, z) *)
Definition bfun (basis : list (shell R)) (I : nat) (x y z : R) : R :=
  nth 0 (nth I (evaluate_basis_model RK basis [(x, y, z)] None) []) 0.
(* the same for the derivative model, order o *)
Definition bdfun (basis : list (shell R)) (o : Shell.comp) (I : nat) (x y z : R) : R :=
  match evaluate_deriv_basis_model RK basis [(x, y, z)] o None General with
  | Some m => nth 0 (nth I m []) 0
  | None => 0
  end.
Definition nfun (basis : list (shell R)) : nat := length (descr_basis RK basis).

Lemma closed_unfold (basis : list (shell R)) (o : Shell.comp) (I : nat) (x y z : R) (d : fdescR) :
  bfun basis I x y z = nth 0 (nth I (evaluate_basis_model RK basis [(x, y, z)] None) []) 0
  /\ bdfun basis o I x y z
     = match evaluate_deriv_basis_model RK basis [(x, y, z)] o None General with
       | Some m => nth 0 (nth I m []) 0 | None => 0 end
  /\ dfun d x y z = eval_spec RK d (x, y, z)
  /\ nfun basis = length (descr_basis RK basis)
  /\ (pos_basis basis <-> forall s, In s basis -> forall a, In a (s_exps s) -> 0 < a).
Proof. repeat split; intro H; exact H. Qed.

Lemma comps_ok_of_wf (basis : list (shell R)) : List.Forall shell_wf basis -> List.Forall comps_ok basis.
Proof. intro H. rewrite Forall_forall in *. intros s Hs. now destruct (H s Hs). Qed.

Lemma nth_map_lt {A B} (f : A -> B) (l : list A) i dA dB : (i < length l)%nat ->
  nth i (map f l) dB = f (nth i l dA).
Proof. intro H. rewrite (nth_indep _ dB (f dA)) by (now rewrite map_length). apply map_nth. Qed.

Lemma bfun_is_dfun (basis : list (shell R)) I x y z : List.Forall shell_wf basis -> (I < nfun basis)%nat ->
  bfun basis I x y z = dfun (nth I (descr_basis RK basis) []) x y z.
Proof.
  intros W HI. unfold bfun.
  rewrite (same_function_eval_values RK RK_field basis [(x, y, z)] (comps_ok_of_wf basis W)).
  rewrite (nth_map_lt _ _ I (@nil ptermR) (@nil R)) by exact HI. reflexivity.
Qed.

Lemma bdfun_is_deriv_spec (basis : list (shell R)) o I x y z :
  List.Forall shell_wf basis -> (I < nfun basis)%nat ->
  bdfun basis o I x y z = deriv_spec RK o (nth I (descr_basis RK basis) []) (x, y, z).
Proof.
  intros W HI. unfold bdfun.
  rewrite (same_function_eval RK RK_field o [(x, y, z)] basis (comps_ok_of_wf basis W)).
  rewrite (nth_map_lt _ _ I (@nil ptermR) (@nil R)) by exact HI. reflexivity.
Qed.

(* the derivative model returns the mixed partial derivatives (Coquelicot's Derive_n) of the function the
   evaluation model returns *)
Theorem closed_deriv_model (basis : list (shell R)) (ox oy oz I : nat) (x y z : R) :
  List.Forall shell_wf basis -> (I < nfun basis)%nat ->
  bdfun basis (ox, oy, oz) I x y z = pd3 ox oy oz (bfun basis I) x y z.
Proof.
  intros W HI. rewrite bdfun_is_deriv_spec, deriv_spec_is_derivative by assumption.
  apply pd3_ext. intros x' y' z'. symmetry. now apply bfun_is_dfun.
Qed.

Lemma nth_map_d0 {A B} (f : A -> B) (l : list A) i dA dB : f dA = dB -> nth i (map f l) dB = f (nth i l dA).
Proof. intros <-. apply map_nth. Qed.

Lemma outer_entry (f : fdescR -> fdescR -> R) (ds : list fdescR) I J :
  (I < length ds)%nat -> (J < length ds)%nat ->
  nth J (nth I (outer f ds ds) []) 0 = f (nth I ds []) (nth J ds []).
Proof.
  intros HI HJ. unfold outer. rewrite (nth_map_lt _ _ I (@nil ptermR) (@nil R)) by exact HI.
  now rewrite (nth_map_lt _ _ J (@nil ptermR) 0) by exact HJ.
Qed.

Section Closed.
Variable basis : list (shell R).
Hypothesis W : List.Forall shell_wf basis.
Hypothesis P : pos_basis basis.
Variables I J : nat.
Hypothesis HI : (I < nfun basis)%nat.
Hypothesis HJ : (J < nfun basis)%nat.

Let ds := descr_basis RK basis.

Lemma pos_I : pos_desc (nth I ds []).
Proof. apply (descr_basis_pos basis); [exact P|]. apply nth_In. exact HI. Qed.
Lemma pos_J : pos_desc (nth J ds []).
Proof. apply (descr_basis_pos basis); [exact P|]. apply nth_In. exact HJ. Qed.

(* C16, overlap: the entry of the overlap MODEL is the iterated integral over R^3 of the product of the
   two functions the evaluation MODEL returns *)
Theorem closed_overlap :
  gint3 (fun x y z => bfun basis I x y z * bfun basis J x y z)
        (nth J (nth I (overlap_integral RK basis None) []) 0).
Proof.
  rewrite (same_function_overlap RK RK_field fapx_id_R basis two_neq_0_R W (exps_ok_of_pos basis P)).
  rewrite outer_entry by assumption.
  refine (gint3_ext _ _ _ _ _ eq_refl (gint3_pair_overlap _ _ pos_I pos_J)).
  intros x y z. now rewrite !bfun_is_dfun.
Qed.

(* C16, kinetic energy: chi_I (-1/2 Laplacian) chi_J, the Laplacian being that of the evaluated function *)
Theorem closed_kinetic :
  gint3 (fun x y z => bfun basis I x y z * (- (1 / 2) * lap3 (bfun basis J) x y z))
        (nth J (nth I (kinetic_integral RK basis None) []) 0).
Proof.
  rewrite (same_function_kinetic RK RK_field fapx_id_R basis two_neq_0_R W (exps_ok_of_pos basis P)).
  rewrite outer_entry by assumption.
  refine (gint3_ext _ _ _ _ _ eq_refl (gint3_pair_kinetic _ _ pos_I pos_J)).
  intros x y z. rewrite bfun_is_dfun by assumption. f_equal. f_equal. unfold lap3.
  rewrite !(pd3_ext _ _ _ (bfun basis J) (dfun (nth J ds []))); [reflexivity|..];
    intros x' y' z'; now apply bfun_is_dfun.
Qed.

(* ... and with the three second derivatives taken from the derivative MODEL *)
Theorem closed_kinetic_models :
  gint3 (fun x y z => bfun basis I x y z
                      * (- (1 / 2) * (bdfun basis (2, 0, 0)%nat J x y z + bdfun basis (0, 2, 0)%nat J x y z
                                      + bdfun basis (0, 0, 2)%nat J x y z)))
        (nth J (nth I (kinetic_integral RK basis None) []) 0).
Proof.
  refine (gint3_ext _ _ _ _ _ eq_refl closed_kinetic).
  intros x y z. cbv beta. unfold lap3. now rewrite !closed_deriv_model.
Qed.

(* C16, multipole moments: slot d of entry (I, J) is the iterated integral of (r - C)^{o_d} chi_I chi_J *)
Theorem closed_moment (Cx Cy Cz : R) (orders : list Shell.comp) (d : nat) : (d < length orders)%nat ->
  let o := nth d orders (0, 0, 0)%nat in
  gint3 (fun x y z => (x - Cx) ^ SameFunP.cx o * (y - Cy) ^ SameFunP.cy o * (z - Cz) ^ SameFunP.cz o
                      * bfun basis I x y z * bfun basis J x y z)
        (nth d (nth J (nth I (moment_integral RK Cx Cy Cz orders basis None) []) []) 0).
Proof.
  intros Hd o.
  pose proof (same_function_moment RK RK_field fapx_id_R Cx Cy Cz orders basis d two_neq_0_R W
                (exps_ok_of_pos basis P) Hd) as E.
  assert (E' : nth d (nth J (nth I (moment_integral RK Cx Cy Cz orders basis None) []) []) 0
               = nth J (nth I (map (map (fun v : list R => nth d v 0))
                                 (moment_integral RK Cx Cy Cz orders basis None)) []) 0).
  { assert (E0 : (fun v : list R => nth d v 0) [] = 0) by (destruct d; reflexivity).
    rewrite (nth_map_d0 (map (fun v : list R => nth d v 0)) _ I [] [] eq_refl).
    now rewrite (nth_map_d0 (fun v : list R => nth d v 0) _ J [] 0 E0). }
  change (f0 RK) with 0 in E. rewrite E', E. rewrite outer_entry by assumption. fold o.
  refine (gint3_ext _ _ _ _ _ eq_refl (gint3_pair_moment Cx Cy Cz o _ _ pos_I pos_J)).
  intros x y z. now rewrite !bfun_is_dfun.
Qed.
End Closed.

(* the size of the matrices is the number of functions *)
Lemma overlap_length (basis : list (shell R)) : List.Forall shell_wf basis -> pos_basis basis ->
  length (overlap_integral RK basis None) = nfun basis.
Proof.
  intros W P.
  rewrite (same_function_overlap RK RK_field fapx_id_R basis two_neq_0_R W (exps_ok_of_pos basis P)).
  unfold outer. now rewrite map_length.
Qed.

(* where function (shell k, segment m, row q) sits in the list: the output index map of C01_assembled *)
Lemma nfun_shell (s : shell R) : length (descr RK s) = (nseg s * nrows RK s)%nat.
Proof. apply descr_length. Qed.

(* ------------------------------------------------------------------ *)
(* 6b. position of function (shell k, segment m, row q): the output index map oidx of C01_assembled;
       the evaluated function at that position is norm_cont * cfun (Cartesian shell) resp. the
       combination of these with the row of generate_transformation (spherical shell)            *)
(* ------------------------------------------------------------------ *)
Notation sh_at := (AssembledP.sh_at RK).
Notation oidx := (AssembledSphP.oidx RK).
Notation osize := AssembledSphP.osize.
Notation ncont := (AssembledP.ncont RK).

Lemma osize_nrows (s : shell R) : osize s = nrows RK s.
Proof. rewrite nrows_eq. reflexivity. Qed.

Lemma descr_nth (s : shell R) m q : (m < nseg s)%nat -> (q < nrows RK s)%nat ->
  nth (m * nrows RK s + q) (descr RK s) [] = dd RK s m q.
Proof.
  intros Hm Hq. rewrite descr_mk.
  rewrite (nth_concat_const (Tables.mk (nseg s) (fun m => Tables.mk (nrows RK s) (dd RK s m))) (nrows RK s) [] m q).
  - rewrite (Tables.nth_mk _ _ _ m Hm). now rewrite (Tables.nth_mk _ _ _ q Hq).
  - apply Forall_forall. intros r Hr. unfold Tables.mk in Hr. apply in_map_iff in Hr.
    destruct Hr as [m' [<- _]]. apply Tables.mk_length.
  - now rewrite Tables.mk_length.
  - exact Hq.
Qed.

Lemma sh_at_nth (basis : list (shell R)) k : (k < length basis)%nat ->
  nth k basis (SameFunP.dshell RK) = sh_at basis k.
Proof. intro Hk. unfold AssembledP.sh_at. now apply nth_indep. Qed.

Lemma descr_basis_nth (basis : list (shell R)) k m q :
  (k < length basis)%nat -> (m < nseg (sh_at basis k))%nat -> (q < osize (sh_at basis k))%nat ->
  nth (oidx basis k m q) (descr_basis RK basis) [] = dd RK (sh_at basis k) m q
  /\ (oidx basis k m q < nfun basis)%nat.
Proof.
  intros Hk Hm Hq. unfold nfun. rewrite descr_basis_mk.
  assert (HL : forall t, (t < length basis)%nat ->
            length (descr RK (nth t basis (SameFunP.dshell RK))) = AssembledSphP.odim (sh_at basis t)).
  { intros t Ht. rewrite (sh_at_nth basis t Ht), descr_length. unfold AssembledSphP.odim. now rewrite osize_nrows. }
  split.
  - unfold AssembledSphP.oidx, AssembledSphP.ooff.
    rewrite (nth_concat_mk (length basis) (fun i => descr RK (nth i basis (SameFunP.dshell RK)))
               (fun t => AssembledSphP.odim (sh_at basis t)) [] k _ HL Hk).
    + rewrite (sh_at_nth basis k Hk), osize_nrows. apply descr_nth; [exact Hm|]. now rewrite <- osize_nrows.
    + unfold AssembledSphP.odim. now apply AssembledP.idx_lt.
  - rewrite (length_concat_mk _ _ _ HL).
    exact (AssembledSphP.oidx_lt RK basis k m q Hk Hm Hq).
Qed.

(* (a), on the MODEL: the number evaluate_basis_model returns at the position of (shell k, segment m,
   component c) of a Cartesian shell is norm_cont[m][c] times the contracted function cfun of Bridge3D.v *)
Theorem bfun_cart (basis : list (shell R)) k m c x y z :
  List.Forall shell_wf basis -> (k < length basis)%nat ->
  let s := sh_at basis k in
  wf_coeffs s -> s_sph s = false -> (m < nseg s)%nat -> (c < length (comps_of s))%nat ->
  bfun basis (oidx basis k m c) x y z
  = ncont s m c * cfun s m (nth c (comps_of s) (0, 0, 0)%nat) x y z.
Proof.
  intros W Hk s Wc Hs Hm Hc.
  assert (Hq : (c < osize s)%nat) by (unfold AssembledSphP.osize; now rewrite Hs).
  destruct (descr_basis_nth basis k m c Hk Hm Hq) as [E HI].
  rewrite bfun_is_dfun by assumption. rewrite E. fold s. rewrite dd_cart by exact Hs.
  now rewrite cart_desc_is_cfun.
Qed.

(* ... and for a spherical shell the combination of these with row q of generate_transformation *)
Theorem bfun_sph (basis : list (shell R)) k m q x y z :
  List.Forall shell_wf basis -> (k < length basis)%nat ->
  let s := sh_at basis k in
  wf_coeffs s -> s_sph s = true -> (m < nseg s)%nat -> (q < length (labels_of s))%nat ->
  bfun basis (oidx basis k m q) x y z
  = fsumR (map (fun p : R * nat =>
                  fst p * (ncont s m (snd p) * cfun s m (nth (snd p) (comps_of s) (0, 0, 0)%nat) x y z))
               (combine (nth q (shell_transform RK s) []) (seq 0 (length (comps_of s))))).
Proof.
  intros W Hk s Wc Hs Hm Hq'.
  assert (Hq : (q < osize s)%nat) by (unfold AssembledSphP.osize; now rewrite Hs).
  destruct (descr_basis_nth basis k m q Hk Hm Hq) as [E HI].
  rewrite bfun_is_dfun by assumption. rewrite E. fold s.
  now rewrite sph_desc_is_comb.
Qed.

(* (b) for two Cartesian shells, written with the contracted functions of Bridge3D.v: the entry of the
   ASSEMBLED overlap model at (shell k, segment m, component c; shell k', segment m', component c') is the
   iterated integral of the product of the two normalised contracted functions *)
Theorem closed_overlap_cart (basis : list (shell R)) k m c k' m' c' :
  List.Forall shell_wf basis -> pos_basis basis -> (k < length basis)%nat -> (k' < length basis)%nat ->
  let s := sh_at basis k in let s' := sh_at basis k' in
  wf_coeffs s -> wf_coeffs s' -> s_sph s = false -> s_sph s' = false ->
  (m < nseg s)%nat -> (c < length (comps_of s))%nat -> (m' < nseg s')%nat -> (c' < length (comps_of s'))%nat ->
  gint3 (fun x y z => (ncont s m c * cfun s m (nth c (comps_of s) (0, 0, 0)%nat) x y z)
                      * (ncont s' m' c' * cfun s' m' (nth c' (comps_of s') (0, 0, 0)%nat) x y z))
        (nth (oidx basis k' m' c') (nth (oidx basis k m c) (overlap_integral RK basis None) []) 0).
Proof.
  intros W P Hk Hk' s s' Wc Wc' Hs Hs' Hm Hc Hm' Hc'.
  assert (Hq : (c < osize s)%nat) by (unfold AssembledSphP.osize; now rewrite Hs).
  assert (Hq' : (c' < osize s')%nat) by (unfold AssembledSphP.osize; now rewrite Hs').
  destruct (descr_basis_nth basis k m c Hk Hm Hq) as [_ HI].
  destruct (descr_basis_nth basis k' m' c' Hk' Hm' Hq') as [_ HJ].
  refine (gint3_ext _ _ _ _ _ eq_refl (closed_overlap basis W P _ _ HI HJ)).
  intros x y z. cbv beta.
  rewrite (bfun_cart basis k m c x y z W Hk Wc Hs Hm Hc).
  now rewrite (bfun_cart basis k' m' c' x y z W Hk' Wc' Hs' Hm' Hc').
Qed.

(* ------------------------------------------------------------------ *)
(* 7. the hypotheses are satisfiable: a mixed basis (Cartesian generalized d shell, spherical p shell) *)
(* ------------------------------------------------------------------ *)
Definition ex_shell_p_sph : shell R := mkShell R 1 1 (-1) (1 / 2) [2] [[1]] true [] [].
Definition ex_basis_c16 : list (shell R) := [ex_shell_d; ex_shell_p_sph].

Lemma default_shell_wf (s : shell R) : s_comps s = [] -> (0 < nseg s)%nat -> s_labels s = [] -> shell_wf s.
Proof.
  intros Hc Hn Hl. split; [now apply default_comps_ok|]. split; [exact Hn|].
  intros _. unfold labels_of. rewrite Hl. unfold default_labels.
  destruct (Nat.eqb (s_l s) 1); [discriminate|]. intro E. apply (f_equal (@length _)) in E.
  rewrite app_length, !map_length, !seq_length in E. cbn in E. lia.
Qed.

Example closed_hypotheses_satisfiable :
  List.Forall shell_wf ex_basis_c16 /\ pos_basis ex_basis_c16 /\ nfun ex_basis_c16 = 15%nat.
Proof.
  split; [|split].
  - constructor; [apply default_shell_wf; [reflexivity|cbn; lia|reflexivity]|].
    constructor; [apply default_shell_wf; [reflexivity|cbn; lia|reflexivity]|constructor].
  - intros s [<-|[<-|[]]] a Ha; cbn in Ha.
    + destruct Ha as [<-|[<-|[]]]; lra.
    + destruct Ha as [<-|[]]; lra.
  - unfold nfun, ex_basis_c16, descr_basis. cbn [map concat]. rewrite !app_length, !descr_length, !nrows_eq.
    reflexivity.
Qed.

(* entry (row 13: the spherical p function number 1, column 4: d_yz of segment 0) of the overlap model is the
   iterated integral of the product of the two evaluated functions *)
Example closed_overlap_instance :
  gint3 (fun x y z => bfun ex_basis_c16 13 x y z * bfun ex_basis_c16 4 x y z)
        (nth 4 (nth 13 (overlap_integral RK ex_basis_c16 None) []) 0).
Proof.
  destruct closed_hypotheses_satisfiable as [W [P N]].
  apply closed_overlap; auto; rewrite N; lia.
Qed.
