(* Proofs/AssembledHermP.v — herm_assembly (C08): the assembled momentum / angular-momentum matrices of a
   basis of Cartesian shells (Model/OneBody.momentum_integral_re, angmom_integral_re with T = None; the model
   carries the REAL array R of the value -i R, elements = triples (x, y, z)).

   What the model does (two_symm_blocks_h): blocks strictly above the diagonal (i < j) are the evaluated,
   normalised blocks; EVERY other block, the diagonal ones (i = j) included, is conj(transpose(.)) of the
   evaluated block of the mirrored position, conj = negation of R (= complex conjugation of -iR).

     herm_assembly_cart      R[J][I] = - R[I][J] for ALL positions I, J and any order of the shells, for ANY
                             block function whose DIAGONAL blocks are antisymmetric,
                                 block(s,s)[m'][c'][m][c] = - block(s,s)[m][c][m'][c'];
                             nothing is needed for i <> j (one of the two positions is by construction the
                             negated transpose of the other).  Hence -iR is Hermitian.
     herm_entry_all          if moreover block(b,a) = - block(a,b)^T for all pairs, then R[I][J] =
                             n_i n_j block(s_i, s_j)[m][c][m'][c'] for ALL (I, J), whatever the triangle.
     momentum_integral_herm / angmom_integral_herm, momentum_integral_entry / angmom_integral_entry:
                             the instances, with the block theorems of Proofs/CoreDiffP.v. *)
From Coq Require Import List Arith Lia Bool Field.
From GB Require Import Base.Field Base.FNum Base.Tables Base.Blocks Model.Shell Model.MomentInt
  Model.Spherical Model.Assembly Model.Overlap Model.DiffOp Model.OneBody
  Proofs.BlockP Proofs.CoreSumP Proofs.CoreBlockP Proofs.CoreDiffP Proofs.AssemblyP Proofs.OverlapP
  Proofs.BlockMatP Proofs.AssembledP Proofs.AssembledOverlapP.
Import ListNotations.

Section Herm.
Context {F : Type} (K : Fops F) (Kf : is_field K).
Add Field KFherm : Kf.
Local Open Scope F_scope.
Notation "0" := (f0 K) : F_scope.
Notation "1" := (f1 K) : F_scope.
Infix "+" := (fadd K) : F_scope.
Infix "*" := (fmul K) : F_scope.
Notation "- x" := (fopp K x) : F_scope.

Lemma vneg_invol (x : list F) : vneg K (vneg K x) = x.
Proof. unfold vneg. rewrite map_map. rewrite <- (map_id x) at 2. apply map_ext. intros a. ring. Qed.

Lemma vscale_vneg t (x : list F) : vscale K t (vneg K x) = vneg K (vscale K t x).
Proof. unfold vscale, vneg. rewrite !map_map. apply map_ext. intros a. ring. Qed.

Lemma vscale_comm a b (x : list F) : vscale K (a * b) x = vscale K (b * a) x.
Proof. unfold vscale. apply map_ext. intros y. ring. Qed.

Section Generic.
Variable blockf : shell F -> shell F -> list (list (list (list (list F)))).
Variable bs : list (shell F).
Hypothesis C : cart_basis bs.
Hypothesis HB : blocks_shaped blockf bs bs.

Notation s_ k := (sh_at K bs k).
Notation Rm := (two_symm_integral_h K vzero (vadd K) (vscale K) (vneg K) blockf bs None).

Lemma herm_entry i j m c m' c' :
  i < length bs -> j < length bs ->
  m < nseg (s_ i) -> c < ncomp (s_ i) -> m' < nseg (s_ j) -> c' < ncomp (s_ j) ->
  nth (gidx K bs j m' c') (nth (gidx K bs i m c) Rm []) []
  = if Nat.ltb i j
    then vscale K (ncont K (s_ i) m c * ncont K (s_ j) m' c') (get4 [] m c m' c' (blockf (s_ i) (s_ j)))
    else vneg K (vscale K (ncont K (s_ j) m' c' * ncont K (s_ i) m c)
                   (get4 [] m' c' m c (blockf (s_ j) (s_ i)))).
Proof.
  intros Hi Hj Hm Hc Hm' Hc'.
  exact (two_symm_h_cart_entry K vzero (vadd K) (vscale K) blockf bs C HB (vneg K) i j m c m' c' Hi Hj Hm Hc Hm' Hc').
Qed.

Theorem herm_shape : 0 < length bs ->
  length Rm = btotal K bs /\ forall I, I < btotal K bs -> length (nth I Rm []) = btotal K bs.
Proof.
  intros Hn. split.
  - exact (two_symm_h_cart_length K vzero (vadd K) (vscale K) blockf bs C HB (vneg K) Hn).
  - intros I HI. destruct (gidx_surj K bs I HI) as (i & m & c & Hi & Hm & Hc & ->).
    exact (two_symm_h_cart_row_length K vzero (vadd K) (vscale K) blockf bs C HB (vneg K) i m c Hi Hm Hc).
Qed.

(* exactly what is needed: the diagonal blocks are antisymmetric *)
Definition diag_antisym : Prop :=
  forall s, In s bs -> forall m c m' c', m < nseg s -> c < ncomp s -> m' < nseg s -> c' < ncomp s ->
    get4 [] m' c' m c (blockf s s) = vneg K (get4 [] m c m' c' (blockf s s)).

Theorem herm_assembly_cart : diag_antisym ->
  forall I J, I < btotal K bs -> J < btotal K bs ->
  nth I (nth J Rm []) [] = vneg K (nth J (nth I Rm []) []).
Proof.
  intros Hd I J HI HJ.
  destruct (gidx_surj K bs I HI) as (i & m & c & Hi & Hm & Hc & ->).
  destruct (gidx_surj K bs J HJ) as (j & m' & c' & Hj & Hm' & Hc' & ->).
  rewrite (herm_entry i j m c m' c') by assumption.
  rewrite (herm_entry j i m' c' m c) by assumption.
  destruct (Nat.lt_trichotomy i j) as [Hlt|[Heq|Hgt]].
  - destruct (Nat.ltb_spec i j); [|lia]. destruct (Nat.ltb_spec j i); [lia|]. reflexivity.
  - subst j. rewrite Nat.ltb_irrefl. rewrite vneg_invol.
    rewrite (Hd (s_ i) ltac:(now apply nth_In) m c m' c') by assumption.
    rewrite vscale_vneg. f_equal. apply vscale_comm.
  - destruct (Nat.ltb_spec i j); [lia|]. destruct (Nat.ltb_spec j i); [|lia]. now rewrite vneg_invol.
Qed.

(* all pairs of blocks are each other's negated transposes *)
Definition pair_antisym : Prop :=
  forall sa sb, In sa bs -> In sb bs -> forall ma ia mb ib,
    ma < nseg sa -> ia < ncomp sa -> mb < nseg sb -> ib < ncomp sb ->
    get4 [] mb ib ma ia (blockf sb sa) = vneg K (get4 [] ma ia mb ib (blockf sa sb)).

Lemma pair_antisym_diag : pair_antisym -> diag_antisym.
Proof. intros H s Hs m c m' c' Hm Hc Hm' Hc'. now apply H. Qed.

(* every entry, in either triangle and on the diagonal blocks, is the normalised block entry of the
   ordered pair (shell of the row, shell of the column) *)
Theorem herm_entry_all : pair_antisym ->
  forall i j m c m' c', i < length bs -> j < length bs ->
  m < nseg (s_ i) -> c < ncomp (s_ i) -> m' < nseg (s_ j) -> c' < ncomp (s_ j) ->
  nth (gidx K bs j m' c') (nth (gidx K bs i m c) Rm []) []
  = vscale K (ncont K (s_ i) m c * ncont K (s_ j) m' c') (get4 [] m c m' c' (blockf (s_ i) (s_ j))).
Proof.
  intros Hp i j m c m' c' Hi Hj Hm Hc Hm' Hc'. rewrite herm_entry by assumption.
  destruct (Nat.ltb i j); [reflexivity|].
  rewrite (Hp (s_ i) (s_ j) ltac:(now apply nth_In) ltac:(now apply nth_In) m c m' c') by assumption.
  rewrite vscale_vneg, vneg_invol. apply vscale_comm.
Qed.
End Generic.

(* ---- momentum and angular momentum ---- *)
Hypothesis Hapx : forall x : F, fapx K x = x.
Hypothesis H2 : 1 + 1 <> 0.

Lemma momentum_block_shape (sa sb : shell F) :
  shape4 (nseg sa) (ncomp sa) (nseg sb) (ncomp sb) (momentum_block_re K sa sb).
Proof.
  unfold momentum_block_re, diffop_block. cbv zeta. cbn [map].
  match goal with
  | |- shape4 _ _ _ _ (zip4 _ (zip4 _ (block_of _ _ _ ?p0) (block_of _ _ _ ?p1)) (block_of _ _ _ ?p2)) =>
      pose proof (block_of_shape K sa sb p0) as Sx; pose proof (block_of_shape K sa sb p1) as Sy;
      pose proof (block_of_shape K sa sb p2) as Sz
  end.
  destruct (zip4_spec (fun x y : F => [x; y]) _ _ _ _ _ _ 0 0 [] Sx Sy) as [Sxy _].
  exact (proj1 (zip4_spec (fun (xy : list F) (z : F) => xy ++ [z]) _ _ _ _ _ _ [] 0 [] Sxy Sz)).
Qed.

Lemma angmom_block_shape (sa sb : shell F) :
  shape4 (nseg sa) (ncomp sa) (nseg sb) (ncomp sb) (angmom_block_re K sa sb).
Proof.
  unfold angmom_block_re. cbv zeta.
  match goal with
  | |- shape4 _ _ _ _ (zip4 _ (zip4 _ (block_of _ _ _ ?p0) (block_of _ _ _ ?p1)) (block_of _ _ _ ?p2)) =>
      pose proof (block_of_shape K sa sb p0) as Sx; pose proof (block_of_shape K sa sb p1) as Sy;
      pose proof (block_of_shape K sa sb p2) as Sz
  end.
  destruct (zip4_spec (fun x y : F => [x; y]) _ _ _ _ _ _ 0 0 [] Sx Sy) as [Sxy _].
  exact (proj1 (zip4_spec (fun (xy : list F) (z : F) => xy ++ [z]) _ _ _ _ _ _ [] 0 [] Sxy Sz)).
Qed.

Section Inst.
Variable bs : list (shell F).
Hypothesis C : cart_basis bs.
Hypothesis W : basis_wf bs.
Hypothesis E : basis_exps K bs bs.
Notation s_ k := (sh_at K bs k).

Lemma momentum_shaped : blocks_shaped (momentum_block_re K) bs bs.
Proof. intros sa sb _ _. apply momentum_block_shape. Qed.
Lemma angmom_shaped : blocks_shaped (angmom_block_re K) bs bs.
Proof. intros sa sb _ _. apply angmom_block_shape. Qed.

Lemma momentum_pair_antisym : pair_antisym (momentum_block_re K) bs.
Proof.
  intros sa sb Ha Hb ma ia mb ib Hma Hia Hmb Hib.
  exact (momentum_block_antisym K Kf Hapx H2 sa sb ma ia mb ib (W _ Ha) (W _ Hb) (E _ _ Ha Hb) Hma Hia Hmb Hib).
Qed.
Lemma angmom_pair_antisym : pair_antisym (angmom_block_re K) bs.
Proof.
  intros sa sb Ha Hb ma ia mb ib Hma Hia Hmb Hib.
  exact (angmom_block_antisym K Kf Hapx H2 sa sb ma ia mb ib (W _ Ha) (W _ Hb) (E _ _ Ha Hb) Hma Hia Hmb Hib).
Qed.

(* herm_assembly for the two operators: R[J][I] = -R[I][J] at every position *)
Theorem momentum_integral_herm I J : I < btotal K bs -> J < btotal K bs ->
  nth I (nth J (momentum_integral_re K bs None) []) []
  = vneg K (nth J (nth I (momentum_integral_re K bs None) []) []).
Proof.
  unfold momentum_integral_re.
  apply (herm_assembly_cart (momentum_block_re K) bs C momentum_shaped).
  apply pair_antisym_diag, momentum_pair_antisym.
Qed.

Theorem angmom_integral_herm I J : I < btotal K bs -> J < btotal K bs ->
  nth I (nth J (angmom_integral_re K bs None) []) []
  = vneg K (nth J (nth I (angmom_integral_re K bs None) []) []).
Proof.
  unfold angmom_integral_re.
  apply (herm_assembly_cart (angmom_block_re K) bs C angmom_shaped).
  apply pair_antisym_diag, angmom_pair_antisym.
Qed.

(* every entry (any triangle) = normalised contracted spec of phi_a d/dx_k phi_b *)
Theorem momentum_integral_entry i j m c m' c' :
  i < length bs -> j < length bs ->
  m < nseg (s_ i) -> c < ncomp (s_ i) -> m' < nseg (s_ j) -> c' < ncomp (s_ j) ->
  let sa := s_ i in let sb := s_ j in
  let ca := nth c (comps_of sa) (0, 0, 0)%nat in let cb := nth c' (comps_of sb) (0, 0, 0)%nat in
  let nn := ncont K sa m c * ncont K sb m' c' in
  nth (gidx K bs j m' c') (nth (gidx K bs i m c) (momentum_integral_re K bs None) []) []
  = [ nn * contracted K sa sb ca cb m m' (mom_x_prim K sa sb ca cb);
      nn * contracted K sa sb ca cb m m' (mom_y_prim K sa sb ca cb);
      nn * contracted K sa sb ca cb m m' (mom_z_prim K sa sb ca cb) ].
Proof.
  intros Hi Hj Hm Hc Hm' Hc'. cbv zeta. unfold momentum_integral_re.
  rewrite (herm_entry_all (momentum_block_re K) bs C momentum_shaped momentum_pair_antisym) by assumption.
  assert (Ii : In (s_ i) bs) by (now apply nth_In). assert (Ij : In (s_ j) bs) by (now apply nth_In).
  rewrite (momentum_block_correct K Kf Hapx H2 (s_ i) (s_ j) m c m' c') by auto.
  reflexivity.
Qed.

Theorem angmom_integral_entry i j m c m' c' :
  i < length bs -> j < length bs ->
  m < nseg (s_ i) -> c < ncomp (s_ i) -> m' < nseg (s_ j) -> c' < ncomp (s_ j) ->
  let sa := s_ i in let sb := s_ j in
  let ca := nth c (comps_of sa) (0, 0, 0)%nat in let cb := nth c' (comps_of sb) (0, 0, 0)%nat in
  let nn := ncont K sa m c * ncont K sb m' c' in
  nth (gidx K bs j m' c') (nth (gidx K bs i m c) (angmom_integral_re K bs None) []) []
  = [ nn * contracted K sa sb ca cb m m' (ang_x_prim K sa sb ca cb);
      nn * contracted K sa sb ca cb m m' (ang_y_prim K sa sb ca cb);
      nn * contracted K sa sb ca cb m m' (ang_z_prim K sa sb ca cb) ].
Proof.
  intros Hi Hj Hm Hc Hm' Hc'. cbv zeta. unfold angmom_integral_re.
  rewrite (herm_entry_all (angmom_block_re K) bs C angmom_shaped angmom_pair_antisym) by assumption.
  assert (Ii : In (s_ i) bs) by (now apply nth_In). assert (Ij : In (s_ j) bs) by (now apply nth_In).
  rewrite (angmom_block_correct K Kf Hapx H2 (s_ i) (s_ j) m c m' c') by auto.
  reflexivity.
Qed.
End Inst.
End Herm.
