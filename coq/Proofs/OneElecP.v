(* Proofs/OneElecP.v — the list-level executable model of _one_elec_int.py / point_charge.py
   (Model/OneElec.v, Model/OneBody.v) tied to the abstract theory of Gauss/SPoly.v.

   vpass_entry      one vertical pass: list entry (a, m, channel c), m + a <= L, is the abstract
                    recursion [Vf] applied to the input column of channel c; proved for a step
                    function whose last row (m = L) holds ARBITRARY data (vstep_g), the model's
                    zero row being one instance: valid entries never read invalid ones.
   vrr_cube_entry   three passes: entry (ax, ay, az) of the cube, ax+ay+az <= L, is
                    Phi_0 (Pc_x ax * Pc_y ay * Pc_z az) for ANY sequence beta.
   hiter_entry ...  horizontal transfer = abstract [Hf]; Hf = binomial sum; Hf of a polynomial
                    family = two-centre polynomial [Pab] whose value at every s is the Gaussian
                    moment with both factors.
   one_elec_entry   whole block entry = contraction sum of Phi_0 (Pab_x * Pab_y * Pab_z).
   swap_sound ...   symmetric spec, uniqueness of polynomial representatives.
   nuclear_is_sum   linearity in the charges, factor -q. *)
From Coq Require Import List Arith Lia Bool Field.
From GB Require Import Base.Field Base.FNum Base.Tables Gauss.Moment1D Gauss.SPoly
  Model.Shell Model.MomentInt Model.OneElec Model.OneBody.
Import ListNotations.

(* ------------------------------------------------------------------ *)
(* generic list facts                                                  *)
(* ------------------------------------------------------------------ *)
Section Lists.
Context {A B C : Type}.

Lemma zip2_length (f : A -> B -> C) x y : length (zip2 f x y) = Nat.min (length x) (length y).
Proof. unfold zip2. now rewrite map_length, combine_length. Qed.

Lemma nth_zip2 (f : A -> B -> C) x y i da db dc :
  i < length x -> i < length y -> nth i (zip2 f x y) dc = f (nth i x da) (nth i y db).
Proof.
  revert y i. induction x as [|a x IH]; intros [|b y] i Hx Hy; cbn [length] in *; try lia.
  destruct i as [|i]; [reflexivity|]. unfold zip2 in *. cbn [combine map nth].
  apply IH; lia.
Qed.
End Lists.

Lemma nth_concat_uniform {A} (w : nat) (ll : list (list A)) (d : A) :
  (forall r, In r ll -> length r = w) ->
  forall i j, j < w -> nth (i * w + j) (concat ll) d = nth j (nth i ll []) d.
Proof.
  induction ll as [|r ll IH]; intros Hl i j Hj.
  - cbn [concat]. destruct i; destruct j; cbn; try reflexivity; now destruct (_ + _)%nat.
  - cbn [concat]. assert (Hr : length r = w) by (apply Hl; now left).
    destruct i as [|i].
    + cbn [Nat.mul Nat.add nth]. apply app_nth1. lia.
    + rewrite app_nth2 by (cbn [Nat.mul]; lia).
      replace (S i * w + j - length r)%nat with (i * w + j)%nat by (cbn [Nat.mul]; lia).
      cbn [nth]. apply IH; [|exact Hj]. intros r' Hr'. apply Hl. now right.
Qed.

Section P.
Context {F : Type} (K : Fops F) (Kf : is_field K).
Add Field KFoe : Kf.
Local Open Scope F_scope.
Notation "0" := (f0 K) : F_scope.
Notation "1" := (f1 K) : F_scope.
Infix "+" := (fadd K) : F_scope.
Infix "*" := (fmul K) : F_scope.
Infix "-" := (fsub K) : F_scope.
Infix "/" := (fdiv K) : F_scope.
Notation "- x" := (fopp K x) : F_scope.
Notation "# n" := (ofnat K n) (at level 5) : F_scope.
Notation fsum := (FNum.fsum K).
Notation padd := (Moment1D.padd K).
Notation pscale := (Moment1D.pscale K).
Notation Vf := (SPoly.Vf K).
Notation Phi := (SPoly.Phi K).
Notation peval := (SPoly.peval K).
Notation Pc := (SPoly.Pc K).

Lemma div_as_mul x y : x / y = x * (1 / y).
Proof. rewrite !(Fdiv_def Kf). ring. Qed.

(* ------------------------------------------------------------------ *)
(* 0. tight locality of the abstract recursion                         *)
(* ------------------------------------------------------------------ *)
(* Vf a m reads beta exactly at m .. m + a *)
Lemma Vf_local_tight pa pc v (b1 b2 : nat -> F) a : forall m,
  ((forall k, k <= a -> b1 (m + k)%nat = b2 (m + k)%nat) ->
     Vf pa pc v b1 a m = Vf pa pc v b2 a m) /\
  ((forall k, k <= S a -> b1 (m + k)%nat = b2 (m + k)%nat) ->
     Vf pa pc v b1 (S a) m = Vf pa pc v b2 (S a) m).
Proof.
  induction a as [|a IH]; intros m.
  - split; intros H.
    + rewrite !Vf_0. specialize (H 0%nat ltac:(lia)). now rewrite Nat.add_0_r in H.
    + rewrite !Vf_1.
      pose proof (H 0%nat ltac:(lia)) as H0. pose proof (H 1%nat ltac:(lia)) as H1.
      rewrite Nat.add_0_r in H0. rewrite Nat.add_1_r in H1. now rewrite H0, H1.
  - split; [apply IH|]. intros H. rewrite !Vf_SS.
    destruct (IH m) as [E0 E1]. destruct (IH (S m)) as [F0 F1].
    rewrite E0 by (intros; apply H; lia). rewrite E1 by (intros; apply H; lia).
    rewrite F0 by (intros k Hk; replace (S m + k)%nat with (m + S k)%nat by lia; apply H; lia).
    rewrite F1 by (intros k Hk; replace (S m + k)%nat with (m + S k)%nat by lia; apply H; lia).
    reflexivity.
Qed.

Lemma Vf_ext_local pa pc v (b1 b2 : nat -> F) a m :
  (forall k, k <= a -> b1 (m + k)%nat = b2 (m + k)%nat) ->
  Vf pa pc v b1 a m = Vf pa pc v b2 a m.
Proof. apply (proj1 (Vf_local_tight pa pc v b1 b2 a m)). Qed.

(* ------------------------------------------------------------------ *)
(* 1. one vertical pass                                                *)
(* ------------------------------------------------------------------ *)
Section VPassP.
Variables (L : nat) (pa pc twop : F).
Let v := 1 / twop.

(* the model's step with the row m = L (never written by the code: slices [:-1]) filled by an
   ARBITRARY function g of the step index and of the current row *)
Definition vstep_g (g : nat -> list F -> list F) (a : nat) (cur prev : list (list F))
  : list (list F) :=
  mk (S L) (fun m =>
    let c0 := nth m cur [] in
    if Nat.eqb m L then g a c0
    else
      let c1 := nth (S m) cur [] in
      let lead := zip2 (fun x y => pa * x - pc * y) c0 c1 in
      match a with
      | O => lead
      | S _ => zip2 (fadd K) lead
                 (zip2 (fun x y => #a / twop * (x - y)) (nth m prev []) (nth (S m) prev []))
      end).
Definition vpass_g g (v0 : list (list F)) : list (list (list F)) := iter2 (vstep_g g) L 0%nat v0 [].

Lemma vstep_is_g : vstep K L pa pc twop = vstep_g (fun _ c0 => map (fun _ => 0) c0).
Proof. reflexivity. Qed.
Lemma vpass_is_g v0 : vpass K L pa pc twop v0 = vpass_g (fun _ c0 => map (fun _ => 0) c0) v0.
Proof. reflexivity. Qed.

Variables (g : nat -> list F -> list F) (v0 : list (list F)) (w : nat).
Hypothesis Hw : forall m, m <= L -> length (nth m v0 []) = w.

(* the input column of channel c *)
Definition col (c : nat) : nat -> F := fun m => nth c (nth m v0 []) 0.

Definition Pv (a : nat) (tbl : list (list F)) : Prop :=
  forall m, (m + a <= L)%nat ->
    length (nth m tbl []) = w /\
    forall c, c < w -> nth c (nth m tbl []) 0 = Vf pa pc v (col c) a m.

Lemma vstep_g_inv j cur prev :
  Pv j cur -> (0 < j -> Pv (j - 1) prev) -> Pv (S j) (vstep_g g j cur prev).
Proof.
  intros Hc Hp m Hm. unfold vstep_g. rewrite nth_mk by lia. cbv zeta.
  destruct (Nat.eqb_spec m L) as [->|Hne]; [lia|].
  destruct (Hc m ltac:(lia)) as [Lc0 Vc0]. destruct (Hc (S m) ltac:(lia)) as [Lc1 Vc1].
  destruct j as [|j'].
  - split.
    + rewrite zip2_length, Lc0, Lc1. apply Nat.min_id.
    + intros c Hcw. rewrite (nth_zip2 _ _ _ c 0 0 0) by lia.
      rewrite Vc0, Vc1 by exact Hcw. rewrite !Vf_0, Vf_1. reflexivity.
  - specialize (Hp ltac:(lia)). replace (S j' - 1)%nat with j' in Hp by lia.
    destruct (Hp m ltac:(lia)) as [Lp0 Vp0]. destruct (Hp (S m) ltac:(lia)) as [Lp1 Vp1].
    split.
    + rewrite !zip2_length, Lc0, Lc1, Lp0, Lp1. rewrite !Nat.min_id. reflexivity.
    + intros c Hcw.
      rewrite (nth_zip2 _ _ _ c 0 0 0) by (rewrite !zip2_length; lia).
      rewrite (nth_zip2 _ _ _ c 0 0 0) by lia.
      rewrite (nth_zip2 _ _ _ c 0 0 0) by lia.
      rewrite Vc0, Vc1, Vp0, Vp1 by exact Hcw. rewrite Vf_SS.
      rewrite (div_as_mul #(S j') twop). fold v. ring.
Qed.

Lemma Pv_0 : Pv 0%nat v0.
Proof. intros m Hm. split; [apply Hw; lia|]. intros c Hcw. rewrite Vf_0. reflexivity. Qed.

(* entry (a, m, c) of the pass, inside the validity region, for ANY content of the last row *)
Theorem vpass_g_entry a m c : (m + a <= L)%nat -> c < w ->
  nth c (nth m (nth a (vpass_g g v0) []) []) 0 = Vf pa pc v (col c) a m.
Proof.
  intros Hm Hcw. unfold vpass_g.
  assert (H : Pv (0 + a) (nth a (iter2 (vstep_g g) L 0 v0 []) [])).
  { apply (iter2_spec (vstep_g g) Pv); [apply vstep_g_inv|apply Pv_0|lia|lia]. }
  cbn [Nat.add] in H. apply (H m Hm). exact Hcw.
Qed.

Lemma vpass_g_row_length a m : (m + a <= L)%nat ->
  length (nth m (nth a (vpass_g g v0) []) []) = w.
Proof.
  intros Hm. unfold vpass_g.
  assert (H : Pv (0 + a) (nth a (iter2 (vstep_g g) L 0 v0 []) [])).
  { apply (iter2_spec (vstep_g g) Pv); [apply vstep_g_inv|apply Pv_0|lia|lia]. }
  cbn [Nat.add] in H. apply (H m Hm).
Qed.

(* independence of the valid entries from what the last row holds *)
Corollary vpass_garbage_independent (g' : nat -> list F -> list F) a m c :
  (m + a <= L)%nat -> c < w ->
  nth c (nth m (nth a (vpass_g g v0) []) []) 0 = nth c (nth m (nth a (vpass_g g' v0) []) []) 0.
Proof.
  intros Hm Hcw. rewrite vpass_g_entry by assumption.
  unfold vpass_g.
  assert (H : Pv (0 + a) (nth a (iter2 (vstep_g g') L 0 v0 []) [])).
  { apply (iter2_spec (vstep_g g') Pv).
    - intros j x y Hx Hy m' Hm'. unfold vstep_g. rewrite nth_mk by lia. cbv zeta.
      destruct (Nat.eqb_spec m' L) as [->|Hne]; [lia|].
      pose proof (vstep_g_inv j x y Hx Hy m' Hm') as Q. unfold vstep_g in Q.
      rewrite nth_mk in Q by lia. cbv zeta in Q.
      destruct (Nat.eqb_spec m' L) as [->|_]; [lia|]. exact Q.
    - apply Pv_0.
    - lia.
    - lia. }
  cbn [Nat.add] in H. symmetry. apply (H m Hm). exact Hcw.
Qed.

End VPassP.

(* the model's pass *)
Theorem vpass_entry L pa pc twop v0 w a m c :
  (forall m, m <= L -> length (nth m v0 []) = w) ->
  (m + a <= L)%nat -> c < w ->
  nth c (nth m (nth a (vpass K L pa pc twop v0) []) []) 0
  = Vf pa pc (1 / twop) (col v0 c) a m.
Proof. intros Hw Hm Hc. rewrite vpass_is_g. now apply vpass_g_entry with (w := w). Qed.

(* every row of the model's pass, valid or not, keeps the channel width *)
Lemma vpass_all_lengths L pa pc twop v0 w :
  (forall m, m <= L -> length (nth m v0 []) = w) ->
  forall a m, a <= L -> m <= L -> length (nth m (nth a (vpass K L pa pc twop v0) []) []) = w.
Proof.
  intros Hw a m Ha Hm. unfold vpass.
  pose (Q := fun (_ : nat) (tbl : list (list F)) => forall m, m <= L -> length (nth m tbl []) = w).
  assert (H : Q (0 + a)%nat (nth a (iter2 (vstep K L pa pc twop) L 0 v0 []) [])).
  { apply (iter2_spec (vstep K L pa pc twop) Q); [|exact Hw|intros Hlt; lia|lia].
    intros j x y Hx Hy m' Hm'. unfold vstep. rewrite nth_mk by lia. cbv zeta.
    destruct (Nat.eqb_spec m' L) as [->|Hne].
    - rewrite map_length. apply Hx. lia.
    - assert (HS : S m' <= L) by lia.
      destruct j as [|j'].
      + rewrite zip2_length, (Hx m' Hm'), (Hx (S m') HS). apply Nat.min_id.
      + assert (Hy' : forall m, m <= L -> length (nth m y []) = w) by (apply Hy; lia).
        rewrite !zip2_length, (Hx m' Hm'), (Hx (S m') HS), (Hy' m' Hm'), (Hy' (S m') HS).
        rewrite !Nat.min_id. reflexivity. }
  apply H. exact Hm.
Qed.


(* ------------------------------------------------------------------ *)
(* 2. polynomials in s: product, Phi through a product                 *)
(* ------------------------------------------------------------------ *)
Fixpoint pmul (P Q : list F) : list F :=
  match Q with [] => [] | q :: Q' => padd (pscale q P) (0 :: pmul P Q') end.

Lemma peval_pmul P Q s : peval (pmul P Q) s = peval P s * peval Q s.
Proof.
  induction Q as [|q Q IH]; cbn [pmul SPoly.peval]; [ring|].
  rewrite (peval_padd K Kf), (peval_pscale K Kf), (peval_shift K Kf), IH. ring.
Qed.

Lemma Phi_ext (b1 b2 : nat -> F) f : forall m,
  (forall k, b1 k = b2 k) -> Phi b1 m f = Phi b2 m f.
Proof. induction f as [|c f IH]; intros m H; cbn [SPoly.Phi]; [reflexivity|].
  now rewrite H, (IH (S m) H). Qed.

(* Phi_m (P * Q) = Phi'_m Q  where Phi' is built on the sequence m |-> Phi_m P *)
Lemma Phi_pmul beta P Q : forall m,
  Phi beta m (pmul P Q) = Phi (fun m' => Phi beta m' P) m Q.
Proof.
  induction Q as [|q Q IH]; intros m; cbn [pmul SPoly.Phi]; [reflexivity|].
  rewrite (Phi_padd K Kf), (Phi_pscale K Kf), (Phi_shift K Kf), IH. reflexivity.
Qed.

Lemma Phi_beta_add (b1 b2 : nat -> F) f : forall m,
  Phi (fun k => b1 k + b2 k) m f = Phi b1 m f + Phi b2 m f.
Proof. induction f as [|c f IH]; intros m; cbn [SPoly.Phi]; [ring|]. rewrite IH. ring. Qed.
Lemma Phi_beta_scale t (b : nat -> F) f : forall m,
  Phi (fun k => t * b k) m f = t * Phi b m f.
Proof. induction f as [|c f IH]; intros m; cbn [SPoly.Phi]; [ring|]. rewrite IH. ring. Qed.

Lemma Vf_ext pa pc v (b1 b2 : nat -> F) a m :
  (forall k, b1 k = b2 k) -> Vf pa pc v b1 a m = Vf pa pc v b2 a m.
Proof. intros H. apply Vf_ext_local. intros; apply H. Qed.

Lemma Vf_Phi pa pc v beta a m : Vf pa pc v beta a m = Phi beta m (Pc pa pc v a).
Proof. apply (proj1 (V_is_Phi K Kf pa pc v beta a m)). Qed.

(* ------------------------------------------------------------------ *)
(* 3. three vertical passes                                            *)
(* ------------------------------------------------------------------ *)
Section Three.
Variables (pax pcx pay pcy paz pcz v : F).

(* the abstract three-axis recursion: the y pass runs on the results of the x pass, the z pass
   on the results of the y pass *)
Definition V3 (beta : nat -> F) (ax ay az m : nat) : F :=
  Vf paz pcz v (fun m' => Vf pay pcy v (fun m'' => Vf pax pcx v beta ax m'') ay m') az m.

(* the product polynomial attached to a component *)
Definition P3 (ax ay az : nat) : list F :=
  pmul (pmul (Pc pax pcx v ax) (Pc pay pcy v ay)) (Pc paz pcz v az).

Theorem V3_is_Phi beta ax ay az m : V3 beta ax ay az m = Phi beta m (P3 ax ay az).
Proof.
  unfold V3, P3. rewrite Vf_Phi, Phi_pmul. apply Phi_ext. intros k.
  rewrite Vf_Phi, Phi_pmul. apply Phi_ext. intros k'. apply Vf_Phi.
Qed.

Theorem P3_eval ax ay az s :
  peval (P3 ax ay az) s = Gs K pax pcx v s ax * Gs K pay pcy v s ay * Gs K paz pcz v s az.
Proof.
  unfold P3. rewrite !peval_pmul.
  rewrite (proj1 (Pc_eval K Kf pax pcx v ax s)), (proj1 (Pc_eval K Kf pay pcy v ay s)),
          (proj1 (Pc_eval K Kf paz pcz v az s)). reflexivity.
Qed.
End Three.

Lemma in_mk {A} n (f : nat -> A) x : In x (mk n f) -> exists i, i < n /\ x = f i.
Proof. unfold mk. intros H. apply in_map_iff in H. destruct H as [i [E Hi]].
  apply in_seq in Hi. exists i. split; [lia|now symmetry]. Qed.

Lemma concat_length_uniform {A} (w : nat) (ll : list (list A)) :
  (forall r, In r ll -> length r = w) -> length (concat ll) = (length ll * w)%nat.
Proof. induction ll as [|r ll IH]; intros H; cbn [concat length Nat.mul]; [reflexivity|].
  rewrite app_length, IH by (intros; apply H; now right). rewrite (H r) by now left. lia. Qed.

(* the three passes of vrr_prim on an arbitrary input column *)
Definition vrr_core (L : nat) (pax pcx pay pcy paz pcz twop : F) (v0 : list (list F))
  : list (list (list F)) :=
  let X := vpass K L pax pcx twop v0 in
  let v0y := mk (S L) (fun m => mk (S L) (fun ax => nth 0 (nth m (nth ax X []) []) 0)) in
  let Y := vpass K L pay pcy twop v0y in
  let v0z := mk (S L) (fun m => concat (mk (S L) (fun ay => nth m (nth ay Y []) []))) in
  vpass K L paz pcz twop v0z.

Lemma vrr_prim_core L Ax Ay Az Bx By Bz Cx Cy Cz alpha beta :
  vrr_prim K L Ax Ay Az Bx By Bz Cx Cy Cz alpha beta =
  let p := alpha + beta in
  let Px := (alpha * Ax + beta * Bx) / p in
  let Py := (alpha * Ay + beta * By) / p in
  let Pz := (alpha * Az + beta * Bz) / p in
  let twop := (1 + 1) * p in
  let mu := alpha * beta / p in
  let ab2 := (Ax - Bx) * (Ax - Bx) + (Ay - By) * (Ay - By) + (Az - Bz) * (Az - Bz) in
  let pc2 := (Px - Cx) * (Px - Cx) + (Py - Cy) * (Py - Cy) + (Pz - Cz) * (Pz - Cz) in
  let pref := (1 + 1) * fpi K / p * fexp K (- (mu * ab2)) in
  let T := p * pc2 in
  let Z := vrr_core L (Px - Ax) (Px - Cx) (Py - Ay) (Py - Cy) (Pz - Az) (Pz - Cz) twop
             (mk (S L) (fun m => [fapx K (pref * fboys K m T)])) in
  mk (S L) (fun ax => mk (S L) (fun ay => mk (S L) (fun az =>
    fapx K (nth (ay * S L + ax) (nth 0 (nth az Z []) []) 0)))).
Proof. reflexivity. Qed.

Theorem vrr_core_entry L pax pcx pay pcy paz pcz twop v0 ax ay az m :
  (forall m, m <= L -> length (nth m v0 []) = 1%nat) ->
  (m + (ax + ay + az) <= L)%nat ->
  nth (ay * S L + ax) (nth m (nth az (vrr_core L pax pcx pay pcy paz pcz twop v0) []) []) 0
  = V3 pax pcx pay pcy paz pcz (1 / twop) (col v0 0) ax ay az m.
Proof.
  intros Hw Hm. unfold vrr_core.
  set (X := vpass K L pax pcx twop v0).
  set (v0y := mk (S L) (fun m => mk (S L) (fun ax => nth 0 (nth m (nth ax X []) []) 0))).
  set (Y := vpass K L pay pcy twop v0y).
  set (v0z := mk (S L) (fun m => concat (mk (S L) (fun ay => nth m (nth ay Y []) [])))).
  assert (Hwy : forall m, m <= L -> length (nth m v0y []) = S L).
  { intros m' Hm'. unfold v0y. rewrite nth_mk by lia. apply mk_length. }
  assert (HYlen : forall a m, a <= L -> m <= L -> length (nth m (nth a Y []) []) = S L).
  { apply vpass_all_lengths. exact Hwy. }
  assert (Hrows : forall m', m' <= L ->
            forall r, In r (mk (S L) (fun ay => nth m' (nth ay Y []) [])) -> length r = S L).
  { intros m' Hm' r Hr. apply in_mk in Hr. destruct Hr as [i [Hi ->]]. apply HYlen; lia. }
  assert (Hwz : forall m, m <= L -> length (nth m v0z []) = (S L * S L)%nat).
  { intros m' Hm'. unfold v0z. rewrite nth_mk by lia.
    rewrite (concat_length_uniform (S L)) by (apply Hrows; exact Hm'). now rewrite mk_length. }
  assert (Hc : (ay * S L + ax < S L * S L)%nat).
  { assert (ay * S L + ax < S ay * S L)%nat by (cbn [Nat.mul]; lia).
    assert (S ay * S L <= S L * S L)%nat by (apply Nat.mul_le_mono_r; lia). lia. }
  rewrite (vpass_entry L paz pcz twop v0z (S L * S L)%nat az m _ Hwz) by (lia || exact Hc).
  unfold V3. apply Vf_ext_local. intros k Hk.
  unfold col at 1. unfold v0z. rewrite nth_mk by lia.
  rewrite (nth_concat_uniform (S L)) by (try apply Hrows; lia).
  rewrite nth_mk by lia.
  unfold Y. rewrite (vpass_entry L pay pcy twop v0y (S L) ay (m + k)%nat ax Hwy) by lia.
  apply Vf_ext_local. intros k' Hk'.
  unfold col at 1. unfold v0y. rewrite nth_mk by lia. rewrite nth_mk by lia.
  unfold X. rewrite (vpass_entry L pax pcx twop v0 1%nat ax (m + k + k')%nat 0%nat Hw) by lia.
  reflexivity.
Qed.

(* the cube returned for ANY beta sequence (the model's vrr_prim feeds beta m = pref * F_m(T)) *)
Definition vrr_cube (L : nat) (pax pcx pay pcy paz pcz twop : F) (beta : nat -> F) : list (list (list F)) :=
  let Z := vrr_core L pax pcx pay pcy paz pcz twop (mk (S L) (fun m => [beta m])) in
  mk (S L) (fun ax => mk (S L) (fun ay => mk (S L) (fun az =>
    nth (ay * S L + ax) (nth 0 (nth az Z []) []) 0))).

Theorem vrr_cube_entry L pax pcx pay pcy paz pcz twop beta ax ay az :
  (ax + ay + az <= L)%nat ->
  cget K (vrr_cube L pax pcx pay pcy paz pcz twop beta) ax ay az
  = Phi beta 0 (P3 pax pcx pay pcy paz pcz (1 / twop) ax ay az).
Proof.
  intros H. unfold cget, vrr_cube. cbv zeta.
  rewrite nth_mk by lia. rewrite nth_mk by lia. rewrite nth_mk by lia.
  rewrite vrr_core_entry; [| |lia].
  - rewrite <- V3_is_Phi. unfold V3.
    apply Vf_ext_local. intros k Hk. apply Vf_ext_local. intros k' Hk'.
    apply Vf_ext_local. intros k'' Hk''. unfold col. rewrite nth_mk by lia. reflexivity.
  - intros m Hm. rewrite nth_mk by lia. reflexivity.
Qed.


(* the model's vrr_prim is that cube with beta m = pref * F_m(T) (fapx is the identity in theorems) *)
Definition boys_seq (Ax Ay Az Bx By Bz Cx Cy Cz alpha beta : F) : nat -> F :=
  let p := alpha + beta in
  let Px := (alpha * Ax + beta * Bx) / p in
  let Py := (alpha * Ay + beta * By) / p in
  let Pz := (alpha * Az + beta * Bz) / p in
  let mu := alpha * beta / p in
  let ab2 := (Ax - Bx) * (Ax - Bx) + (Ay - By) * (Ay - By) + (Az - Bz) * (Az - Bz) in
  let pc2 := (Px - Cx) * (Px - Cx) + (Py - Cy) * (Py - Cy) + (Pz - Cz) * (Pz - Cz) in
  let pref := (1 + 1) * fpi K / p * fexp K (- (mu * ab2)) in
  fun m => pref * fboys K m (p * pc2).

Lemma vrr_prim_is_cube L Ax Ay Az Bx By Bz Cx Cy Cz alpha beta :
  (forall x, fapx K x = x) ->
  vrr_prim K L Ax Ay Az Bx By Bz Cx Cy Cz alpha beta =
  let p := alpha + beta in
  let Px := (alpha * Ax + beta * Bx) / p in
  let Py := (alpha * Ay + beta * By) / p in
  let Pz := (alpha * Az + beta * Bz) / p in
  vrr_cube L (Px - Ax) (Px - Cx) (Py - Ay) (Py - Cy) (Pz - Az) (Pz - Cz) ((1 + 1) * p)
    (boys_seq Ax Ay Az Bx By Bz Cx Cy Cz alpha beta).
Proof.
  intros Hapx. rewrite vrr_prim_core. cbv zeta. unfold vrr_cube, boys_seq. cbv zeta.
  apply mk_ext; intros ax Hax. apply mk_ext; intros ay Hay. apply mk_ext; intros az Haz.
  rewrite Hapx. do 4 f_equal. apply mk_ext. intros m Hm. now rewrite Hapx.
Qed.

(* ------------------------------------------------------------------ *)
(* 4. horizontal transfer                                              *)
(* ------------------------------------------------------------------ *)
(* abstract: H(0, a) = T a ; H(b+1, a) = H(b, a+1) + AB H(b, a) *)
Fixpoint Hf (ab : F) (T : nat -> F) (b a : nat) : F :=
  match b with O => T a | S b' => Hf ab T b' (S a) + ab * Hf ab T b' a end.

Lemma Hf_ext_local ab (T1 T2 : nat -> F) b : forall a,
  (forall k, k <= b -> T1 (a + k)%nat = T2 (a + k)%nat) -> Hf ab T1 b a = Hf ab T2 b a.
Proof.
  induction b as [|b IH]; intros a H; cbn [Hf].
  - specialize (H 0%nat ltac:(lia)). now rewrite Nat.add_0_r in H.
  - rewrite (IH (S a)), (IH a); [reflexivity| |].
    + intros k Hk. apply H. lia.
    + intros k Hk. replace (S a + k)%nat with (a + S k)%nat by lia. apply H. lia.
Qed.
Lemma Hf_ext ab (T1 T2 : nat -> F) b a : (forall k, T1 k = T2 k) -> Hf ab T1 b a = Hf ab T2 b a.
Proof. intros H. apply Hf_ext_local. intros; apply H. Qed.

(* the step may equally be applied to the input first (what the list model does) *)
Lemma Hf_inner ab T b : forall a,
  Hf ab T (S b) a = Hf ab (fun a' => T (S a') + ab * T a') b a.
Proof.
  induction b as [|b IH]; intros a; [reflexivity|].
  change (Hf ab T (S (S b)) a) with (Hf ab T (S b) (S a) + ab * Hf ab T (S b) a).
  rewrite (IH (S a)), (IH a). reflexivity.
Qed.

Definition cget_ax (axis : nat) (t : list (list (list F))) (i x y z : nat) : F :=
  match axis with O => cget K t i y z | S O => cget K t x i z | _ => cget K t x y i end.
Definition idx_ax (axis x y z : nat) : nat := match axis with O => x | S O => y | _ => z end.

Lemma hstep_get L axis ab t x y z : x <= L -> y <= L -> z <= L -> idx_ax axis x y z < L ->
  cget K (hstep K L axis ab t) x y z
  = cget_ax axis t (S (idx_ax axis x y z)) x y z + ab * cget K t x y z.
Proof.
  intros Hx Hy Hz Hi. unfold hstep. unfold cget at 1.
  rewrite nth_mk by lia. rewrite nth_mk by lia. rewrite nth_mk by lia. cbv zeta.
  destruct axis as [|[|axis]]; cbn [idx_ax cget_ax] in *.
  - destruct (Nat.eqb_spec x L); [lia|reflexivity].
  - destruct (Nat.eqb_spec y L); [lia|reflexivity].
  - destruct (Nat.eqb_spec z L); [lia|reflexivity].
Qed.

Lemma nth_hiter_S L axis ab n t b :
  nth (S b) (hiter K L axis ab (S n) t) [] = nth b (hiter K L axis ab n (hstep K L axis ab t)) [].
Proof. reflexivity. Qed.
Lemma hiter_length L axis ab n t : length (hiter K L axis ab n t) = S n.
Proof. revert t; induction n as [|n IH]; intros t; cbn [hiter length]; [reflexivity|]. now rewrite IH. Qed.

(* entry of the b-th cube of the chain, inside the validity region idx + b <= L of that axis *)
Theorem hiter_entry L axis ab b : forall n t x y z,
  b <= n -> x <= L -> y <= L -> z <= L -> (idx_ax axis x y z + b <= L)%nat ->
  cget K (nth b (hiter K L axis ab n t) []) x y z
  = Hf ab (fun i => cget_ax axis t i x y z) b (idx_ax axis x y z).
Proof.
  induction b as [|b IH]; intros n t x y z Hb Hx Hy Hz Hi.
  - destruct n; cbn [hiter nth Hf]; destruct axis as [|[|axis]]; reflexivity.
  - destruct n as [|n]; [lia|]. rewrite nth_hiter_S. rewrite IH by lia.
    rewrite Hf_inner. apply Hf_ext_local. intros k Hk.
    destruct axis as [|[|axis]]; cbn [idx_ax cget_ax] in *.
    + rewrite (hstep_get L 0 ab t (x + k) y z) by (cbn [idx_ax]; lia). reflexivity.
    + rewrite (hstep_get L 1 ab t x (y + k) z) by (cbn [idx_ax]; lia). reflexivity.
    + rewrite (hstep_get L (S (S axis)) ab t x y (z + k)) by (cbn [idx_ax]; lia). reflexivity.
Qed.

Lemma nth_map_in {A B} (f : A -> B) l i d d' : i < length l -> nth i (map f l) d' = f (nth i l d).
Proof. intros Hi. rewrite (nth_indep _ d' (f d)) by (now rewrite map_length). apply map_nth. Qed.

(* the three chains of hrr: entry [bx][by][bz] (ax, ay, az) *)
Definition H3 (abx aby abz : F) (T : nat -> nat -> nat -> F) (bx by_ bz ax ay az : nat) : F :=
  Hf abz (fun z' => Hf aby (fun y' => Hf abx (fun x' => T x' y' z') bx ax) by_ ay) bz az.

Theorem hrr_entry L lb abx aby abz t bx by_ bz ax ay az :
  bx <= lb -> by_ <= lb -> bz <= lb ->
  (ax + bx <= L)%nat -> (ay + by_ <= L)%nat -> (az + bz <= L)%nat ->
  cget K (nth bz (nth by_ (nth bx (hrr K L lb abx aby abz t) []) []) []) ax ay az
  = H3 abx aby abz (cget K t) bx by_ bz ax ay az.
Proof.
  intros Hbx Hby Hbz Hx Hy Hz. unfold hrr, H3.
  rewrite (nth_map_in _ _ bx (@nil (list (list F)))) by (rewrite hiter_length; lia).
  rewrite (nth_map_in _ _ by_ (@nil (list (list F)))) by (rewrite hiter_length; lia).
  rewrite (hiter_entry L 2 abz bz) by (cbn [idx_ax]; lia). cbn [idx_ax cget_ax].
  apply Hf_ext_local. intros k Hk.
  rewrite (hiter_entry L 1 aby by_) by (cbn [idx_ax]; lia). cbn [idx_ax cget_ax].
  apply Hf_ext_local. intros k' Hk'.
  rewrite (hiter_entry L 0 abx bx) by (cbn [idx_ax]; lia). cbn [idx_ax cget_ax].
  reflexivity.
Qed.

(* H3 reads T only at x' <= ax + bx, y' <= ay + by, z' <= az + bz *)
Lemma H3_ext_local abx aby abz (T1 T2 : nat -> nat -> nat -> F) bx by_ bz ax ay az :
  (forall x y z, x <= ax + bx -> y <= ay + by_ -> z <= az + bz -> T1 x y z = T2 x y z)%nat ->
  H3 abx aby abz T1 bx by_ bz ax ay az = H3 abx aby abz T2 bx by_ bz ax ay az.
Proof.
  intros H. unfold H3. apply Hf_ext_local; intros k Hk. apply Hf_ext_local; intros k' Hk'.
  apply Hf_ext_local; intros k'' Hk''. apply H; lia.
Qed.


(* ---- closed form: (x - B)^b = ((x - A) + AB)^b ---- *)
(* binomial coefficients by Pascal's rule, computed in the field *)
Fixpoint pasc (b k : nat) : F :=
  match b, k with
  | _, O => 1
  | O, S _ => 0
  | S b', S k' => pasc b' k' + pasc b' (S k')
  end.
Lemma pasc_0 b : pasc b 0 = 1. Proof. destruct b; reflexivity. Qed.
Lemma pasc_SS b k : pasc (S b) (S k) = pasc b k + pasc b (S k). Proof. reflexivity. Qed.
Lemma pasc_gt b : forall k, b < k -> pasc b k = 0.
Proof. induction b as [|b IH]; intros [|k] H; try lia; [reflexivity|].
  rewrite pasc_SS, !IH by lia. ring. Qed.

Notation fpow := (FNum.fpow K).
Notation Ssum := (sumn 0 (fadd K)).

Lemma Ssum_shift n (f : nat -> F) : Ssum (S n) f = f 0%nat + Ssum n (fun k => f (S k)).
Proof. induction n as [|n IH]; [cbn [sumn]; ring|].
  change (Ssum (S (S n)) f) with (Ssum (S n) f + f (S n)). rewrite IH. cbn [sumn]. ring. Qed.
Lemma Ssum_add n (f g : nat -> F) : Ssum n (fun k => f k + g k) = Ssum n f + Ssum n g.
Proof. induction n as [|n IH]; cbn [sumn]; [ring|]. rewrite IH. ring. Qed.
Lemma Ssum_scale n c (f : nat -> F) : Ssum n (fun k => c * f k) = c * Ssum n f.
Proof. induction n as [|n IH]; cbn [sumn]; [ring|]. rewrite IH. ring. Qed.

Definition Hbin (ab : F) (T : nat -> F) (b a : nat) : F :=
  Ssum (S b) (fun k => pasc b k * fpow ab (b - k) * T (a + k)%nat).

Theorem Hf_binomial ab T b : forall a, Hf ab T b a = Hbin ab T b a.
Proof.
  induction b as [|b IH]; intros a.
  - unfold Hbin. cbn [Hf sumn pasc FNum.fpow Nat.sub]. rewrite Nat.add_0_r. ring.
  - cbn [Hf]. rewrite (IH (S a)), (IH a). unfold Hbin.
    set (A1 := Ssum (S b) (fun k => pasc b k * fpow ab (b - k) * T (S a + k)%nat)).
    set (A2 := Ssum b (fun k => pasc b (S k) * fpow ab (b - S k) * T (a + S k)%nat)).
    assert (E0 : Ssum (S b) (fun k => pasc b k * fpow ab (b - k) * T (a + k)%nat)
                 = fpow ab b * T a + A2).
    { rewrite (Ssum_shift b). rewrite pasc_0, Nat.add_0_r, Nat.sub_0_r. unfold A2. ring. }
    assert (E1 : Ssum (S b) (fun k => pasc b (S k) * fpow ab (b - k) * T (S a + k)%nat) = ab * A2).
    { change (Ssum (S b) (fun k => pasc b (S k) * fpow ab (b - k) * T (S a + k)%nat))
        with (Ssum b (fun k => pasc b (S k) * fpow ab (b - k) * T (S a + k)%nat)
              + pasc b (S b) * fpow ab (b - b) * T (S a + b)%nat).
      rewrite (pasc_gt b (S b)) by lia. unfold A2. rewrite <- Ssum_scale.
      rewrite (sumn_ext 0 (fadd K) b
        (fun k => pasc b (S k) * fpow ab (b - k) * T (S a + k)%nat)
        (fun k => ab * (pasc b (S k) * fpow ab (b - S k) * T (a + S k)%nat))).
      - ring.
      - intros k Hk. replace (b - k)%nat with (S (b - S k)) by lia.
        replace (a + S k)%nat with (S a + k)%nat by lia. cbn [FNum.fpow]. ring. }
    assert (E2 : Ssum (S (S b)) (fun k => pasc (S b) k * fpow ab (S b - k) * T (a + k)%nat)
                 = fpow ab (S b) * T a
                   + (A1 + Ssum (S b) (fun k => pasc b (S k) * fpow ab (b - k) * T (S a + k)%nat))).
    { rewrite (Ssum_shift (S b)). rewrite pasc_0, Nat.add_0_r, Nat.sub_0_r.
      unfold A1. rewrite <- Ssum_add. f_equal; [ring|].
      apply sumn_ext. intros k Hk. rewrite pasc_SS.
      replace (a + S k)%nat with (S a + k)%nat by lia.
      replace (S b - S k)%nat with (b - k)%nat by lia. ring. }
    rewrite E0, E2, E1. cbn [FNum.fpow]. ring.
Qed.

(* ---- the same transfer on polynomials in s ---- *)
Fixpoint Hp (ab : F) (Pf : nat -> list F) (b a : nat) : list F :=
  match b with O => Pf a | S b' => padd (Hp ab Pf b' (S a)) (pscale ab (Hp ab Pf b' a)) end.

(* the two-centre polynomial of one axis: value at s = Gaussian moment with both factors *)
Definition Pab (pa pc v ab : F) (a b : nat) : list F := Hp ab (Pc pa pc v) b a.

Theorem Pab_eval pa pc v ab b : forall a s,
  peval (Pab pa pc v ab a b) s
  = S3 K (v * (1 - s)) (pa - s * pc) (pa + ab - s * pc) 0 0%nat 0%nat a b.
Proof.
  unfold Pab. induction b as [|b IH]; intros a s.
  - cbn [Hp]. rewrite (proj1 (Pc_eval K Kf pa pc v a s)). reflexivity.
  - cbn [Hp]. rewrite (peval_padd K Kf), (peval_pscale K Kf), (IH (S a)), (IH a).
    rewrite (S3_Si K Kf), (S3_Sj K Kf). ring.
Qed.

(* contexts that are linear when seen through every Phi *)
Definition PhiLin (C : list F -> list F) : Prop :=
  (forall beta m P Q, Phi beta m (C (padd P Q)) = Phi beta m (C P) + Phi beta m (C Q)) /\
  (forall beta m t P, Phi beta m (C (pscale t P)) = t * Phi beta m (C P)).

Lemma PhiLin_id : PhiLin (fun P => P).
Proof. split; intros; [apply (Phi_padd K Kf)|apply (Phi_pscale K Kf)]. Qed.
Lemma PhiLin_pmul_l C Q : PhiLin C -> PhiLin (fun P => pmul (C P) Q).
Proof.
  intros [Ha Hs]. split; intros.
  - rewrite !Phi_pmul, <- Phi_beta_add. apply Phi_ext. intros k. apply Ha.
  - rewrite !Phi_pmul, <- Phi_beta_scale. apply Phi_ext. intros k. apply Hs.
Qed.
Lemma PhiLin_pmul_r C Q : PhiLin C -> PhiLin (fun P => pmul Q (C P)).
Proof. intros [Ha Hs]. split; intros; rewrite !Phi_pmul; [apply Ha|apply Hs]. Qed.

Lemma Hf_Hp C ab Pf beta m b : PhiLin C -> forall a,
  Phi beta m (C (Hp ab Pf b a)) = Hf ab (fun a' => Phi beta m (C (Pf a'))) b a.
Proof.
  intros [Ha Hs]. induction b as [|b IH]; intros a; cbn [Hp Hf]; [reflexivity|].
  rewrite Ha, Hs, (IH (S a)), (IH a). reflexivity.
Qed.

(* ---- composed statement for the cube ---- *)
Section Cube.
Variables (pax pcx pay pcy paz pcz v abx aby abz : F).

Definition P3ab (ax ay az bx by_ bz : nat) : list F :=
  pmul (pmul (Pab pax pcx v abx ax bx) (Pab pay pcy v aby ay by_)) (Pab paz pcz v abz az bz).

Theorem P3ab_eval ax ay az bx by_ bz s :
  peval (P3ab ax ay az bx by_ bz) s
  = S3 K (v * (1 - s)) (pax - s * pcx) (pax + abx - s * pcx) 0 0%nat 0%nat ax bx
  * S3 K (v * (1 - s)) (pay - s * pcy) (pay + aby - s * pcy) 0 0%nat 0%nat ay by_
  * S3 K (v * (1 - s)) (paz - s * pcz) (paz + abz - s * pcz) 0 0%nat 0%nat az bz.
Proof. unfold P3ab. rewrite !peval_pmul, !Pab_eval. reflexivity. Qed.

(* transferring the [a|0] values Phi_0(P3) along the three axes gives Phi_0 of the two-centre product *)
Theorem H3_of_Phi beta m bx by_ bz ax ay az :
  H3 abx aby abz (fun x y z => Phi beta m (P3 pax pcx pay pcy paz pcz v x y z)) bx by_ bz ax ay az
  = Phi beta m (P3ab ax ay az bx by_ bz).
Proof.
  unfold H3, P3ab, Pab, P3.
  rewrite (Hf_Hp (fun P => pmul (pmul (Hp abx (Pc pax pcx v) bx ax) (Hp aby (Pc pay pcy v) by_ ay)) P))
    by (apply PhiLin_pmul_r, PhiLin_id).
  apply Hf_ext. intros z'.
  rewrite (Hf_Hp (fun P => pmul (pmul (Hp abx (Pc pax pcx v) bx ax) P) (Pc paz pcz v z')))
    by (apply PhiLin_pmul_l, PhiLin_pmul_r, PhiLin_id).
  apply Hf_ext. intros y'.
  rewrite (Hf_Hp (fun P => pmul (pmul P (Pc pay pcy v y')) (Pc paz pcz v z')))
    by (apply PhiLin_pmul_l, PhiLin_pmul_l, PhiLin_id).
  reflexivity.
Qed.
End Cube.


(* ------------------------------------------------------------------ *)
(* 5. contraction and the whole block entry                            *)
(* ------------------------------------------------------------------ *)
Lemma fsum_map_add {A} (f g : A -> F) l :
  fsum (map (fun x => f x + g x) l) = fsum (map f l) + fsum (map g l).
Proof. induction l as [|x l IH]; cbn [map FNum.fsum fold_right]; [ring|].
  fold (fsum (map (fun x => f x + g x) l)) (fsum (map f l)) (fsum (map g l)). rewrite IH. ring. Qed.
Lemma fsum_map_scale {A} c (f : A -> F) l :
  fsum (map (fun x => c * f x) l) = c * fsum (map f l).
Proof. induction l as [|x l IH]; cbn [map FNum.fsum fold_right]; [ring|].
  fold (fsum (map (fun x => c * f x) l)) (fsum (map f l)). rewrite IH. ring. Qed.

(* the double sum over the primitives of b (outer) and of a (inner) with norms and coefficients;
   rows of ea / eb are (exponent, (radial norm, coefficient row)) *)
Definition csum2 (ea eb : list (F * (F * list F))) (ma mb : nat) (G : F -> F -> F) : F :=
  fsum (map (fun r : F * (F * list F) =>
          fsum (map (fun q : F * (F * list F) =>
                  G (fst q) (fst r) * fst (snd q) * nth ma (snd (snd q)) 0) ea)
          * fst (snd r) * nth mb (snd (snd r)) 0) eb).

Lemma csum2_ext ea eb ma mb G G' : (forall a b, G a b = G' a b) ->
  csum2 ea eb ma mb G = csum2 ea eb ma mb G'.
Proof. intros H. unfold csum2. f_equal. apply map_ext. intros r. do 3 f_equal.
  apply map_ext. intros q. now rewrite H. Qed.

Lemma csum2_lin ea eb ma mb G1 G2 c :
  csum2 ea eb ma mb (fun a b => G1 a b + c * G2 a b)
  = csum2 ea eb ma mb G1 + c * csum2 ea eb ma mb G2.
Proof.
  unfold csum2. rewrite <- fsum_map_scale, <- fsum_map_add. f_equal. apply map_ext. intros r.
  rewrite (map_ext _ (fun q : F * (F * list F) =>
     G1 (fst q) (fst r) * fst (snd q) * nth ma (snd (snd q)) 0
     + c * (G2 (fst q) (fst r) * fst (snd q) * nth ma (snd (snd q)) 0))) by (intros q; ring).
  rewrite fsum_map_add, fsum_map_scale. ring.
Qed.

Lemma Hf_csum2 ea eb ma mb ab (G : F -> F -> nat -> F) b : forall a,
  Hf ab (fun i => csum2 ea eb ma mb (fun al be => G al be i)) b a
  = csum2 ea eb ma mb (fun al be => Hf ab (G al be) b a).
Proof.
  induction b as [|b IH]; intros a; [reflexivity|].
  cbn [Hf]. rewrite (IH (S a)), (IH a). symmetry. apply csum2_lin.
Qed.

Lemma H3_csum2 ea eb ma mb abx aby abz (G : F -> F -> nat -> nat -> nat -> F) bx by_ bz ax ay az :
  H3 abx aby abz (fun x y z => csum2 ea eb ma mb (fun al be => G al be x y z)) bx by_ bz ax ay az
  = csum2 ea eb ma mb (fun al be => H3 abx aby abz (G al be) bx by_ bz ax ay az).
Proof.
  unfold H3.
  rewrite <- (Hf_csum2 ea eb ma mb abz
    (fun al be z' => Hf aby (fun y' => Hf abx (fun x' => G al be x' y' z') bx ax) by_ ay)).
  apply Hf_ext. intros z'.
  rewrite <- (Hf_csum2 ea eb ma mb aby (fun al be y' => Hf abx (fun x' => G al be x' y' z') bx ax)).
  apply Hf_ext. intros y'.
  rewrite <- (Hf_csum2 ea eb ma mb abx (fun al be x' => G al be x' y' z')).
  reflexivity.
Qed.

(* ---- the specification of one block entry (before the charge factor) ---- *)
Section Spec.
Variables (Cx Cy Cz : F).

(* polynomial in s of one primitive pair and one pair of components *)
Definition prim_poly (Ax Ay Az Bx By Bz alpha beta : F) (ca cb : comp) : list F :=
  let p := alpha + beta in
  let Px := (alpha * Ax + beta * Bx) / p in
  let Py := (alpha * Ay + beta * By) / p in
  let Pz := (alpha * Az + beta * Bz) / p in
  P3ab (Px - Ax) (Px - Cx) (Py - Ay) (Py - Cy) (Pz - Az) (Pz - Cz) (1 / ((1 + 1) * p))
       (Ax - Bx) (Ay - By) (Az - Bz)
       (fst (fst ca)) (snd (fst ca)) (snd ca) (fst (fst cb)) (snd (fst cb)) (snd cb).

(* its value at every s: the product over the axes of the Gaussian moments
   E_{v(1-s)} ((y + PA - s PC)^a (y + PB - s PC)^b) *)
Theorem prim_poly_eval Ax Ay Az Bx By Bz alpha beta ca cb s :
  let p := alpha + beta in
  let Px := (alpha * Ax + beta * Bx) / p in
  let Py := (alpha * Ay + beta * By) / p in
  let Pz := (alpha * Az + beta * Bz) / p in
  let v := 1 / ((1 + 1) * p) in
  peval (prim_poly Ax Ay Az Bx By Bz alpha beta ca cb) s
  = S3 K (v * (1 - s)) (Px - Ax - s * (Px - Cx)) (Px - Bx - s * (Px - Cx)) 0 0%nat 0%nat
       (fst (fst ca)) (fst (fst cb))
  * S3 K (v * (1 - s)) (Py - Ay - s * (Py - Cy)) (Py - By - s * (Py - Cy)) 0 0%nat 0%nat
       (snd (fst ca)) (snd (fst cb))
  * S3 K (v * (1 - s)) (Pz - Az - s * (Pz - Cz)) (Pz - Bz - s * (Pz - Cz)) 0 0%nat 0%nat
       (snd ca) (snd cb).
Proof.
  cbv zeta. unfold prim_poly. cbv zeta. rewrite P3ab_eval.
  set (p := alpha + beta).
  set (Px := (alpha * Ax + beta * Bx) / p). set (Py := (alpha * Ay + beta * By) / p).
  set (Pz := (alpha * Az + beta * Bz) / p).
  replace (Px - Ax + (Ax - Bx) - s * (Px - Cx)) with (Px - Bx - s * (Px - Cx)) by ring.
  replace (Py - Ay + (Ay - By) - s * (Py - Cy)) with (Py - By - s * (Py - Cy)) by ring.
  replace (Pz - Az + (Az - Bz) - s * (Pz - Cz)) with (Pz - Bz - s * (Pz - Cz)) by ring.
  reflexivity.
Qed.

Definition prim_val (Ax Ay Az Bx By Bz alpha beta : F) (ca cb : comp) : F :=
  Phi (boys_seq Ax Ay Az Bx By Bz Cx Cy Cz alpha beta) 0
      (prim_poly Ax Ay Az Bx By Bz alpha beta ca cb).

Definition erows (s : shell F) : list (F * (F * list F)) :=
  combine (s_exps s) (combine (map (norm_rad K (s_l s)) (s_exps s)) (s_coeffs s)).

Definition one_elec_spec (sa sb : shell F) (ma : nat) (ca : comp) (mb : nat) (cb : comp) : F :=
  csum2 (erows sa) (erows sb) ma mb
    (fun alpha beta => prim_val (s_x sa) (s_y sa) (s_z sa) (s_x sb) (s_y sb) (s_z sb) alpha beta ca cb)
  * inv_sqrt_df K ca * inv_sqrt_df K cb.
End Spec.

Lemma combine_map_l' {A B C} (g : A -> C) (l : list A) (l2 : list B) :
  combine (map g l) l2 = map (fun p => (g (fst p), snd p)) (combine l l2).
Proof. revert l2; induction l as [|a l IH]; intros [|b l2]; cbn; [reflexivity..|]. now rewrite IH. Qed.

Lemma nth_map_combine' {A B C} (f : A * B -> C) (la : list A) (lb : list B) i da db dc :
  i < length la -> length lb = length la ->
  nth i (map f (combine la lb)) dc = f (nth i la da, nth i lb db).
Proof.
  intros Hi Hl. rewrite (nth_indep _ dc (f (da, db))) by (rewrite map_length, combine_length; lia).
  rewrite map_nth. now rewrite combine_nth by (symmetry; exact Hl).
Qed.

Theorem one_elec_entry Cx Cy Cz (sa sb : shell F) ma ia mb ib :
  (forall x, fapx K x = x) ->
  let ca := nth ia (comps_of sa) (0, 0, 0)%nat in
  let cb := nth ib (comps_of sb) (0, 0, 0)%nat in
  ma < nseg sa -> ia < length (comps_of sa) -> mb < nseg sb -> ib < length (comps_of sb) ->
  (fst (fst cb) <= s_l sb)%nat -> (snd (fst cb) <= s_l sb)%nat -> (snd cb <= s_l sb)%nat ->
  (fst (fst ca) + snd (fst ca) + snd ca + (fst (fst cb) + snd (fst cb) + snd cb) <= s_l sa + s_l sb)%nat ->
  nth ib (nth mb (nth ia (nth ma (one_elec_point K Cx Cy Cz sa sb) []) []) []) 0
  = one_elec_spec Cx Cy Cz sa sb ma ca mb cb.
Proof.
  intros Hapx ca cb Hma Hia Hmb Hib Hbx Hby Hbz Hsum.
  unfold one_elec_point. cbv zeta.
  rewrite nth_mk by exact Hma.
  rewrite (nth_map_combine' _ (comps_of sa) (map (inv_sqrt_df K) (comps_of sa)) ia (0,0,0)%nat 0 [])
    by (rewrite ?map_length; auto).
  rewrite nth_mk by exact Hmb.
  rewrite (nth_map_combine' _ (comps_of sb) (map (inv_sqrt_df K) (comps_of sb)) ib (0,0,0)%nat 0 0)
    by (rewrite ?map_length; auto).
  rewrite (nth_map_in (inv_sqrt_df K) _ ia (0,0,0)%nat) by exact Hia.
  rewrite (nth_map_in (inv_sqrt_df K) _ ib (0,0,0)%nat) by exact Hib.
  fold ca cb. destruct ca as [[ax ay] az] eqn:Eca. destruct cb as [[bx by_] bz] eqn:Ecb.
  cbn [fst snd] in *.
  rewrite nth_mk by exact Hma. rewrite nth_mk by exact Hmb.
  set (L := (s_l sa + s_l sb)%nat) in *.
  rewrite hrr_entry by lia.
  unfold one_elec_spec. f_equal. f_equal.
  (* the contracted cube, entry by entry, is the double sum of the primitive cubes *)
  rewrite (H3_ext_local _ _ _ _
    (fun x y z => csum2 (erows sa) (erows sb) ma mb (fun alpha beta =>
       cget K (vrr_prim K L (s_x sa) (s_y sa) (s_z sa) (s_x sb) (s_y sb) (s_z sb) Cx Cy Cz alpha beta) x y z))).
  2:{ intros x y z Hx Hy Hz. unfold cget at 1.
      rewrite nth_mk by lia. rewrite nth_mk by lia. rewrite nth_mk by lia.
      unfold csum2, erows. rewrite (combine_map_l' _ (s_exps sb) (combine _ (s_coeffs sb))), map_map. f_equal. apply map_ext.
      intros [be [nbk crow_b]]. cbn [fst snd]. do 2 f_equal.
      rewrite (combine_map_l' _ (s_exps sa) (combine _ (s_coeffs sa))), map_map. f_equal. apply map_ext.
      intros [al [nak crow_a]]. reflexivity. }
  rewrite H3_csum2. apply csum2_ext. intros alpha beta.
  unfold prim_val, prim_poly. cbv zeta. cbn [fst snd].
  rewrite <- H3_of_Phi. apply H3_ext_local. intros x y z Hx Hy Hz.
  rewrite vrr_prim_is_cube by exact Hapx. cbv zeta.
  apply vrr_cube_entry. lia.
Qed.


(* ------------------------------------------------------------------ *)
(* 6. uniqueness of the polynomial representative                      *)
(* ------------------------------------------------------------------ *)
Definition allz (l : list F) : Prop := Forall (fun c => c = 0) l.

Lemma Phi_allz beta l : allz l -> forall m, Phi beta m l = 0.
Proof. induction 1 as [|c l Hc Hl IH]; intros m; cbn [SPoly.Phi]; [reflexivity|].
  rewrite Hc, IH. ring. Qed.

Lemma mul_zero_r a b : a <> 0 -> a * b = 0 -> b = 0.
Proof. intros Ha H. assert (E : b = (a * b) / a) by (field; exact Ha). rewrite E, H. field. exact Ha. Qed.

(* Horner scheme for the division by (s - r): [hq r l] = remainder :: quotient *)
Fixpoint hq (r : F) (l : list F) : list F :=
  match l with [] => [] | c :: l' => (c + r * hd 0 (hq r l')) :: hq r l' end.

Lemma hq_length r l : length (hq r l) = length l.
Proof. induction l as [|c l IH]; cbn [hq length]; [reflexivity|]. now rewrite IH. Qed.
Lemma hq_hd r l : hd 0 (hq r l) = peval l r.
Proof. induction l as [|c l IH]; cbn [hq hd SPoly.peval]; [reflexivity|]. now rewrite IH. Qed.
Lemma peval_hd_tl l s : peval l s = hd 0 l + s * peval (tl l) s.
Proof. destruct l; cbn [hd tl SPoly.peval]; [ring|reflexivity]. Qed.
Lemma hq_factor r l s : peval l s = hd 0 (hq r l) + (s - r) * peval (tl (hq r l)) s.
Proof.
  induction l as [|c l IH]; cbn [hq hd tl SPoly.peval]; [ring|].
  rewrite (peval_hd_tl (hq r l) s). rewrite IH. ring.
Qed.
Lemma allz_hd l : allz l -> hd 0 l = 0.
Proof. destruct 1; [reflexivity|assumption]. Qed.
Lemma hq_allz r l : allz (hq r l) -> allz l.
Proof.
  induction l as [|c l IH]; intros H; [constructor|].
  cbn [hq] in H. inversion H as [|x y Hx Hy]; subst.
  constructor; [|now apply IH].
  rewrite (allz_hd _ Hy) in Hx. rewrite <- Hx. ring.
Qed.

(* a coefficient list with as many distinct roots as coefficients is zero *)
Lemma roots_allz : forall n l rs, length l = n -> length rs = n -> NoDup rs ->
  (forall r, In r rs -> peval l r = 0) -> allz l.
Proof.
  induction n as [|n IH]; intros l rs Hl Hr Hnd Hroot.
  - destruct l; [constructor|discriminate].
  - destruct rs as [|r rs]; [discriminate|].
    apply (hq_allz r). pose proof (hq_length r l) as Hlen. pose proof (hq_hd r l) as Hhd.
    destruct (hq r l) as [|h q] eqn:E; [constructor|].
    cbn [hd] in Hhd. cbn [length] in Hlen.
    apply NoDup_cons_iff in Hnd. destruct Hnd as [Hnotin Hnd'].
    constructor.
    + rewrite Hhd. apply Hroot. now left.
    + apply (IH q rs); [lia|cbn [length] in Hr; lia|exact Hnd'|].
      intros r' Hin. pose proof (hq_factor r l r') as Hf. rewrite E in Hf. cbn [hd tl] in Hf.
      rewrite (Hroot r') in Hf by now right. rewrite Hhd, (Hroot r) in Hf by now left.
      apply (mul_zero_r (r' - r)).
      * intros Hz. apply Hnotin. assert (r' = r) by (rewrite <- (Radd_0_l (F_R Kf) r), <- Hz; ring).
        now subst.
      * transitivity (0 + (r' - r) * peval q r'); [ring|now symmetry].
Qed.

Section Char0.
Hypothesis char0 : forall n, #(S n) <> 0.

Lemma ofnat_add i d : #(i + d) = #i + #d.
Proof. induction i as [|i IH]; cbn [Nat.add ofnat]; [ring|]. rewrite IH. ring. Qed.
Lemma ofnat_inj_lt i j : i < j -> #i <> #j.
Proof. intros Hlt E. replace j with (i + S (j - i - 1))%nat in E by lia. rewrite ofnat_add in E.
  apply (char0 (j - i - 1)). 
  assert (H : #(S (j - i - 1)) = (#i + #(S (j - i - 1))) - #i) by ring. rewrite H, <- E. ring. Qed.
Lemma ofnat_inj i j : #i = #j -> i = j.
Proof. intros E. destruct (Nat.lt_trichotomy i j) as [H|[H|H]]; [|exact H|].
  - exfalso. now apply (ofnat_inj_lt i j H).
  - exfalso. now apply (ofnat_inj_lt j i H). Qed.

Lemma NoDup_ofnat_seq n : NoDup (map (ofnat K) (seq 0 n)).
Proof. apply FinFun.Injective_map_NoDup; [intros i j; apply ofnat_inj|apply seq_NoDup]. Qed.

(* a polynomial function that vanishes at 0, 1, 2, ... has only zero coefficients *)
Theorem poly_zero l : (forall k : nat, peval l #k = 0) -> allz l.
Proof.
  intros H. apply (roots_allz (length l) l (map (ofnat K) (seq 0 (length l)))).
  - reflexivity.
  - now rewrite map_length, seq_length.
  - apply NoDup_ofnat_seq.
  - intros r Hin. apply in_map_iff in Hin. destruct Hin as [k [<- _]]. apply H.
Qed.

(* two coefficient lists with the same values give the same Phi_m for every beta: the number
   Phi_m (P) depends on the polynomial FUNCTION only *)
Theorem Phi_unique P Q : (forall s, peval P s = peval Q s) ->
  forall beta m, Phi beta m P = Phi beta m Q.
Proof.
  intros H beta m.
  assert (Hz : allz (SPoly.psub K P Q)).
  { apply poly_zero. intros k. unfold SPoly.psub.
    rewrite (peval_padd K Kf), (peval_pscale K Kf), H. ring. }
  pose proof (Phi_allz beta _ Hz m) as E. unfold SPoly.psub in E.
  rewrite (Phi_padd K Kf), (Phi_pscale K Kf) in E.
  rewrite <- (Radd_0_l (F_R Kf) (Phi beta m Q)), <- E. ring.
Qed.

(* ------------------------------------------------------------------ *)
(* 7. the L_a < L_b swap                                               *)
(* ------------------------------------------------------------------ *)
Lemma boys_seq_swap Ax Ay Az Bx By Bz Cx Cy Cz alpha beta m :
  boys_seq Ax Ay Az Bx By Bz Cx Cy Cz alpha beta m = boys_seq Bx By Bz Ax Ay Az Cx Cy Cz beta alpha m.
Proof.
  unfold boys_seq. cbv zeta.
  replace (beta + alpha) with (alpha + beta) by ring.
  replace (beta * Bx + alpha * Ax) with (alpha * Ax + beta * Bx) by ring.
  replace (beta * By + alpha * Ay) with (alpha * Ay + beta * By) by ring.
  replace (beta * Bz + alpha * Az) with (alpha * Az + beta * Bz) by ring.
  replace (beta * alpha) with (alpha * beta) by ring.
  replace ((Bx - Ax) * (Bx - Ax) + (By - Ay) * (By - Ay) + (Bz - Az) * (Bz - Az))
    with ((Ax - Bx) * (Ax - Bx) + (Ay - By) * (Ay - By) + (Az - Bz) * (Az - Bz)) by ring.
  reflexivity.
Qed.

(* spec level, per s: exchanging (a, A, alpha) with (b, B, beta) leaves the integrand unchanged *)
Theorem prim_poly_swap_eval Cx Cy Cz Ax Ay Az Bx By Bz alpha beta ca cb s :
  peval (prim_poly Cx Cy Cz Ax Ay Az Bx By Bz alpha beta ca cb) s
  = peval (prim_poly Cx Cy Cz Bx By Bz Ax Ay Az beta alpha cb ca) s.
Proof.
  rewrite !prim_poly_eval. cbv zeta.
  replace (beta + alpha) with (alpha + beta) by ring.
  replace (beta * Bx + alpha * Ax) with (alpha * Ax + beta * Bx) by ring.
  replace (beta * By + alpha * Ay) with (alpha * Ay + beta * By) by ring.
  replace (beta * Bz + alpha * Az) with (alpha * Az + beta * Bz) by ring.
  f_equal; [f_equal|]; apply (S3_swap K Kf).
Qed.

Theorem prim_val_swap Cx Cy Cz Ax Ay Az Bx By Bz alpha beta ca cb :
  prim_val Cx Cy Cz Ax Ay Az Bx By Bz alpha beta ca cb
  = prim_val Cx Cy Cz Bx By Bz Ax Ay Az beta alpha cb ca.
Proof.
  unfold prim_val.
  rewrite (Phi_unique _ _ (prim_poly_swap_eval Cx Cy Cz Ax Ay Az Bx By Bz alpha beta ca cb)).
  apply Phi_ext. intros k. apply boys_seq_swap.
Qed.

Lemma fsum_map_zero {A} (l : list A) : fsum (map (fun _ => 0) l) = 0.
Proof. induction l as [|x l IH]; cbn [map FNum.fsum fold_right]; [reflexivity|].
  fold (fsum (map (fun _ : A => 0) l)). rewrite IH. ring. Qed.
Lemma fsum_swap {A B} (f : A -> B -> F) (lq : list A) (lr : list B) :
  fsum (map (fun r => fsum (map (fun q => f q r) lq)) lr)
  = fsum (map (fun q => fsum (map (fun r => f q r) lr)) lq).
Proof.
  induction lr as [|r lr IH].
  - cbn [map FNum.fsum fold_right]. symmetry. apply fsum_map_zero.
  - change (fsum (map (fun q => fsum (map (fun r0 => f q r0) (r :: lr))) lq))
      with (fsum (map (fun q => f q r + fsum (map (fun r0 => f q r0) lr)) lq)).
    rewrite fsum_map_add, <- IH. reflexivity.
Qed.

Lemma csum2_swap ea eb ma mb G :
  csum2 ea eb ma mb G = csum2 eb ea mb ma (fun b a => G a b).
Proof.
  unfold csum2.
  rewrite (map_ext _ (fun r : F * (F * list F) => fsum (map (fun q : F * (F * list F) =>
      (fst (snd r) * nth mb (snd (snd r)) 0)
      * (G (fst q) (fst r) * fst (snd q) * nth ma (snd (snd q)) 0)) ea)))
    by (intros r; rewrite fsum_map_scale; ring).
  rewrite fsum_swap. f_equal. apply map_ext. intros q.
  rewrite (map_ext _ (fun r : F * (F * list F) =>
      (fst (snd q) * nth ma (snd (snd q)) 0)
      * (G (fst q) (fst r) * fst (snd r) * nth mb (snd (snd r)) 0))) by (intros r; ring).
  rewrite fsum_map_scale. ring.
Qed.

(* swap_sound: the specified entry is symmetric under exchanging the two shells *)
Theorem one_elec_spec_swap Cx Cy Cz sa sb ma ca mb cb :
  one_elec_spec Cx Cy Cz sa sb ma ca mb cb = one_elec_spec Cx Cy Cz sb sa mb cb ma ca.
Proof.
  unfold one_elec_spec. rewrite csum2_swap.
  rewrite (csum2_ext _ _ _ _ _
    (fun beta alpha => prim_val Cx Cy Cz (s_x sb) (s_y sb) (s_z sb) (s_x sa) (s_y sa) (s_z sa)
                         beta alpha cb ca)) by (intros a b; apply prim_val_swap).
  ring.
Qed.

Definition csum3 (c : comp) : nat := (fst (fst c) + snd (fst c) + snd c)%nat.

(* PointChargeIntegral.construct_array_contraction, either branch of the swap: every entry is the
   vector over the charges of  -q * (specified entry for that charge position) *)
Theorem point_charge_block_entry points (sa sb : shell F) ma ia mb ib :
  (forall x, fapx K x = x) ->
  let ca := nth ia (comps_of sa) (0, 0, 0)%nat in
  let cb := nth ib (comps_of sb) (0, 0, 0)%nat in
  ma < nseg sa -> ia < length (comps_of sa) -> mb < nseg sb -> ib < length (comps_of sb) ->
  (csum3 ca <= s_l sa)%nat -> (csum3 cb <= s_l sb)%nat ->
  nth ib (nth mb (nth ia (nth ma (point_charge_block K points sa sb) []) []) []) []
  = map (fun pt : F * F * F * F =>
           (- snd pt) * one_elec_spec (fst (fst (fst pt))) (snd (fst (fst pt))) (snd (fst pt))
                                       sa sb ma ca mb cb) points.
Proof.
  intros Hapx ca cb Hma Hia Hmb Hib Hca Hcb. unfold csum3 in *.
  unfold point_charge_block. cbv zeta.
  rewrite nth_mk by exact Hma. rewrite nth_mk by exact Hia.
  rewrite nth_mk by exact Hmb. rewrite nth_mk by exact Hib.
  rewrite map_map. apply map_ext. intros [[[cx cy] cz] q]. cbn [fst snd]. f_equal.
  destruct (Nat.ltb (s_l sa) (s_l sb)).
  - rewrite (one_elec_entry cx cy cz sb sa mb ib ma ia Hapx) by (fold ca cb; lia || assumption).
    fold ca cb. symmetry. apply one_elec_spec_swap.
  - rewrite (one_elec_entry cx cy cz sa sb ma ia mb ib Hapx) by (fold ca cb; lia || assumption).
    reflexivity.
Qed.

(* the transposed block of the same quantity: the swapped computation and the direct one agree *)
Corollary swap_sound Cx Cy Cz (sa sb : shell F) ma ia mb ib :
  (forall x, fapx K x = x) ->
  let ca := nth ia (comps_of sa) (0, 0, 0)%nat in
  let cb := nth ib (comps_of sb) (0, 0, 0)%nat in
  ma < nseg sa -> ia < length (comps_of sa) -> mb < nseg sb -> ib < length (comps_of sb) ->
  (csum3 ca <= s_l sa)%nat -> (csum3 cb <= s_l sb)%nat ->
  nth ia (nth ma (nth ib (nth mb (one_elec_point K Cx Cy Cz sb sa) []) []) []) 0
  = nth ib (nth mb (nth ia (nth ma (one_elec_point K Cx Cy Cz sa sb) []) []) []) 0.
Proof.
  intros Hapx ca cb Hma Hia Hmb Hib Hca Hcb. unfold csum3 in *.
  rewrite (one_elec_entry Cx Cy Cz sb sa mb ib ma ia Hapx) by (fold ca cb; lia || assumption).
  rewrite (one_elec_entry Cx Cy Cz sa sb ma ia mb ib Hapx) by (fold ca cb; lia || assumption).
  fold ca cb. symmetry. apply one_elec_spec_swap.
Qed.
End Char0.

(* ------------------------------------------------------------------ *)
(* 8. linearity in the charges                                         *)
(* ------------------------------------------------------------------ *)
Theorem nuclear_is_sum points basis T i j :
  nth j (nth i (nuclear_attraction_integral K points basis T) []) 0
  = fsum (nth j (nth i (point_charge_integral K points basis T) []) []).
Proof.
  unfold nuclear_attraction_integral.
  change (@nil F) with (map fsum (@nil (list F))) at 1. rewrite map_nth.
  change 0 with (fsum (@nil F)) at 1. rewrite map_nth. reflexivity.
Qed.


(* ---- restatements used by Props/C03.v ---- *)
(* the model's pass agrees, on valid entries, with a pass whose last row holds arbitrary data *)
Theorem vpass_last_row_irrelevant L pa pc twop v0 w (g : nat -> list F -> list F) a m c :
  (forall m, m <= L -> length (nth m v0 []) = w) ->
  (m + a <= L)%nat -> c < w ->
  nth c (nth m (nth a (vpass K L pa pc twop v0) []) []) 0
  = nth c (nth m (nth a (vpass_g L pa pc twop g v0) []) []) 0.
Proof. intros Hw Hm Hc. rewrite vpass_is_g. now apply vpass_garbage_independent with (w := w). Qed.

(* the model's primitive cube: entry (ax, ay, az) = Phi_0 of the product polynomial, with
   beta m = (2 pi / p) exp(-mu |AB|^2) F_m(p |PC|^2) read from the oracle fields of K *)
Theorem vrr_prim_entry L Ax Ay Az Bx By Bz Cx Cy Cz alpha beta ax ay az :
  (forall x, fapx K x = x) -> (ax + ay + az <= L)%nat ->
  let p := alpha + beta in
  let Px := (alpha * Ax + beta * Bx) / p in
  let Py := (alpha * Ay + beta * By) / p in
  let Pz := (alpha * Az + beta * Bz) / p in
  cget K (vrr_prim K L Ax Ay Az Bx By Bz Cx Cy Cz alpha beta) ax ay az
  = Phi (boys_seq Ax Ay Az Bx By Bz Cx Cy Cz alpha beta) 0
      (P3 (Px - Ax) (Px - Cx) (Py - Ay) (Py - Cy) (Pz - Az) (Pz - Cz) (1 / ((1 + 1) * p)) ax ay az).
Proof. intros Hapx H. cbv zeta. rewrite vrr_prim_is_cube by exact Hapx. cbv zeta.
  now apply vrr_cube_entry. Qed.

(* one chain of the horizontal transfer as the binomial sum *)
Theorem hiter_binomial L axis ab b n t x y z :
  b <= n -> x <= L -> y <= L -> z <= L -> (idx_ax axis x y z + b <= L)%nat ->
  cget K (nth b (hiter K L axis ab n t) []) x y z
  = Hbin ab (fun i => cget_ax axis t i x y z) b (idx_ax axis x y z).
Proof. intros. rewrite hiter_entry by assumption. apply Hf_binomial. Qed.

(* Pascal coefficients are the binomial coefficients of FNum (scipy.special.comb) *)
Section Binom.
Hypothesis char0 : forall n, #(S n) <> 0.
Notation ffact := (FNum.ffact K).
Lemma ffact_nz n : ffact n <> 0.
Proof. induction n as [|n IH]; cbn [FNum.ffact].
  - intros H. apply (char0 0%nat). cbn [ofnat]. rewrite H. ring.
  - intros H. apply IH. apply (mul_zero_r #(S n)); [apply char0|exact H]. Qed.
Lemma pasc_fact b : forall k, k <= b -> pasc b k * (ffact k * ffact (b - k)) = ffact b.
Proof.
  induction b as [|b IH]; intros k Hk.
  - assert (k = 0%nat) by lia. subst. cbn [pasc FNum.ffact Nat.sub]. ring.
  - destruct k as [|k].
    + rewrite pasc_0. cbn [FNum.ffact Nat.sub]. ring.
    + rewrite pasc_SS. destruct (Nat.eq_dec k b) as [->|Hne].
      * rewrite (pasc_gt b (S b)) by lia. pose proof (IH b ltac:(lia)) as E.
        rewrite Nat.sub_diag in *. cbn [FNum.ffact] in *.
        transitivity (#(S b) * (pasc b b * (ffact b * 1))); [cbn [ofnat]; ring|].
        rewrite E. reflexivity.
      * pose proof (IH k ltac:(lia)) as E1. pose proof (IH (S k) ltac:(lia)) as E2.
        replace (S b - S k)%nat with (b - k)%nat by lia.
        replace (b - k)%nat with (S (b - S k)) in * by lia.
        cbn [FNum.ffact] in *.
        assert (Hs : #(S b) = #(S k) + #(S (b - S k))).
        { rewrite <- ofnat_add. f_equal. lia. }
        rewrite Hs.
        transitivity (#(S k) * (pasc b k * (ffact k * (#(S (b - S k)) * ffact (b - S k))))
                      + #(S (b - S k)) * (pasc b (S k) * (#(S k) * ffact k * ffact (b - S k)))).
        { ring. }
        rewrite E1, E2. ring.
Qed.
Theorem pasc_fbinom b k : pasc b k = FNum.fbinom K b k.
Proof.
  unfold FNum.fbinom. destruct (Nat.leb_spec k b) as [Hle|Hgt].
  - rewrite <- (pasc_fact b k Hle). field. split; apply ffact_nz.
  - apply pasc_gt. exact Hgt.
Qed.
End Binom.

End P.

(* the component hypothesis of the block theorems holds for every default Cartesian component list *)
Lemma default_comps_sum l c : In c (default_comps l) -> csum3 c = l.
Proof.
  unfold default_comps. intros H. apply in_flat_map in H. destruct H as [xx [Hxx H]].
  apply in_seq in Hxx. apply in_map_iff in H. destruct H as [yy [<- Hyy]]. apply in_seq in Hyy.
  unfold csum3. cbn [fst snd]. lia.
Qed.
Lemma default_shell_comp_ok {F} (s : shell F) i :
  s_comps s = [] -> i < length (comps_of s) -> (csum3 (nth i (comps_of s) (0, 0, 0)%nat) <= s_l s)%nat.
Proof.
  intros E Hi. unfold comps_of in *. rewrite E in *.
  rewrite (default_comps_sum (s_l s)); [lia|]. now apply nth_In.
Qed.

(* ------------------------------------------------------------------ *)
(* the hypotheses hold at the executable instance                      *)
(* ------------------------------------------------------------------ *)
From Coq Require Import QArith Qcanon.
Section QcInst.
Variables (opi : Qc) (osqrt oexp oln : Qc -> Qc) (oboys : nat -> Qc -> Qc).
Let KQ := QcK true opi osqrt oexp oln oboys.

Lemma QcK_ofnat_nonneg n : (0 <= ofnat KQ n)%Qc.
Proof.
  induction n as [|n IH]; [apply Qcle_refl|].
  cbn [ofnat]. change (fadd KQ) with qc_add. rewrite qc_add_eq.
  change (0%Qc) with (0 + 0)%Qc. apply Qcplus_le_compat; [easy|exact IH].
Qed.
Lemma QcK_char0 n : ofnat KQ (S n) <> f0 KQ.
Proof.
  cbn [ofnat]. change (fadd KQ) with qc_add. rewrite qc_add_eq.
  intros H. assert (Hlt : (0 < f1 KQ + ofnat KQ n)%Qc).
  { apply Qclt_le_trans with (1 + 0)%Qc; [easy|].
    apply Qcplus_le_compat; [apply Qcle_refl|apply QcK_ofnat_nonneg]. }
  rewrite H in Hlt. now apply Qclt_not_eq in Hlt.
Qed.

(* a concrete pair of shells (p and d, off-axis centres) meeting every hypothesis of the block theorems *)
Definition ex_sa : shell Qc :=
  mkShell Qc 1 (Q2Qc 0) (Q2Qc (1#2)) (Q2Qc 0) [Q2Qc (3#2); Q2Qc (1#4)]
          [[Q2Qc 1]; [Q2Qc (1#3)]] false [] [].
Definition ex_sb : shell Qc :=
  mkShell Qc 2 (Q2Qc 1) (Q2Qc 0) (Q2Qc (-1#3)) [Q2Qc (2#1)] [[Q2Qc 1]] false [] [].
Lemma ex_hyps :
  (0 < nseg ex_sa /\ 1 < length (comps_of ex_sa) /\ 0 < nseg ex_sb /\ 3 < length (comps_of ex_sb)
  /\ csum3 (nth 1 (comps_of ex_sa) (0, 0, 0)) <= s_l ex_sa
  /\ csum3 (nth 3 (comps_of ex_sb) (0, 0, 0)) <= s_l ex_sb)%nat.
Proof. cbn. repeat split; lia. Qed.
End QcInst.
