(* Proofs/OneElecP.v — the list-level executable model of _one_elec_int.py / point_charge.py
   (Model/OneElec.v, Model/OneBody.v) tied to the abstract theory of Gauss/SPoly.v.

   vpass_entry      one vertical pass: list entry (a, m, channel c), m + a <= L, is the abstract
                    recursion [Vf] applied to the input column of channel c; proved for a step
                    function whose last row (m = L) holds ARBITRARY data (vstep_g), the model's
                    zero row being one instance: valid entries never read invalid ones.
   vrr_cube_entry   three passes: entry (ax, ay, az) of the cube, ax+ay+az <= L, is
                    Phi_0 (Pc_x ax * Pc_y ay * Pc_z az) for ANY sequence beta.
   hiter_entry ...  horizontal transfer = abstract [Hf]; Hf = binomial sum; Hf of a polynomial
                    family = two-centre polynomial [Pab] whose value at every s is the Gaussian
                    moment with both factors.
   one_elec_entry   whole block entry = contraction sum of Phi_0 (Pab_x * Pab_y * Pab_z).
   swap_sound ...   symmetric spec, uniqueness of polynomial representatives.
   nuclear_is_sum   linearity in the charges, factor -q. *)
From Coq Require Import List Arith Lia Bool Field.
From GB Require Import Base.Field Base.FNum Base.Tables Gauss.Moment1D Gauss.SPoly
  Model.Shell Model.MomentInt Model.OneElec.
Import ListNotations.

(* ------------------------------------------------------------------ *)
(* generic list facts                                                  *)
(* ------------------------------------------------------------------ *)
Section Lists.
Context {A B C : Type}.

Lemma zip2_length (f : A -> B -> C) x y : length (zip2 f x y) = Nat.min (length x) (length y).
Proof. unfold zip2. now rewrite map_length, combine_length. Qed.

Lemma nth_zip2 (f : A -> B -> C) x y i da db dc :
  i < length x -> i < length y -> nth i (zip2 f x y) dc = f (nth i x da) (nth i y db).
Proof.
  revert y i. induction x as [|a x IH]; intros [|b y] i Hx Hy; cbn [length] in *; try lia.
  destruct i as [|i]; [reflexivity|]. unfold zip2 in *. cbn [combine map nth].
  apply IH; lia.
Qed.
End Lists.

Lemma nth_concat_uniform {A} (w : nat) (ll : list (list A)) (d : A) :
  (forall r, In r ll -> length r = w) ->
  forall i j, j < w -> nth (i * w + j) (concat ll) d = nth j (nth i ll []) d.
Proof.
  induction ll as [|r ll IH]; intros Hl i j Hj.
  - cbn [concat]. destruct i; destruct j; cbn; try reflexivity; now destruct (_ + _)%nat.
  - cbn [concat]. assert (Hr : length r = w) by (apply Hl; now left).
    destruct i as [|i].
    + cbn [Nat.mul Nat.add nth]. apply app_nth1. lia.
    + rewrite app_nth2 by (cbn [Nat.mul]; lia).
      replace (S i * w + j - length r)%nat with (i * w + j)%nat by (cbn [Nat.mul]; lia).
      cbn [nth]. apply IH; [|exact Hj]. intros r' Hr'. apply Hl. now right.
Qed.

Section P.
Context {F : Type} (K : Fops F) (Kf : is_field K).
Add Field KFoe : Kf.
Local Open Scope F_scope.
Notation "0" := (f0 K) : F_scope.
Notation "1" := (f1 K) : F_scope.
Infix "+" := (fadd K) : F_scope.
Infix "*" := (fmul K) : F_scope.
Infix "-" := (fsub K) : F_scope.
Infix "/" := (fdiv K) : F_scope.
Notation "- x" := (fopp K x) : F_scope.
Notation "# n" := (ofnat K n) (at level 5) : F_scope.
Notation fsum := (FNum.fsum K).
Notation padd := (Moment1D.padd K).
Notation pscale := (Moment1D.pscale K).
Notation Vf := (SPoly.Vf K).
Notation Phi := (SPoly.Phi K).
Notation peval := (SPoly.peval K).
Notation Pc := (SPoly.Pc K).

Lemma div_as_mul x y : x / y = x * (1 / y).
Proof. rewrite !(Fdiv_def Kf). ring. Qed.

(* ------------------------------------------------------------------ *)
(* 0. tight locality of the abstract recursion                         *)
(* ------------------------------------------------------------------ *)
(* Vf a m reads beta exactly at m .. m + a *)
Lemma Vf_local_tight pa pc v (b1 b2 : nat -> F) a : forall m,
  ((forall k, k <= a -> b1 (m + k)%nat = b2 (m + k)%nat) ->
     Vf pa pc v b1 a m = Vf pa pc v b2 a m) /\
  ((forall k, k <= S a -> b1 (m + k)%nat = b2 (m + k)%nat) ->
     Vf pa pc v b1 (S a) m = Vf pa pc v b2 (S a) m).
Proof.
  induction a as [|a IH]; intros m.
  - split; intros H.
    + rewrite !Vf_0. specialize (H 0%nat ltac:(lia)). now rewrite Nat.add_0_r in H.
    + rewrite !Vf_1.
      pose proof (H 0%nat ltac:(lia)) as H0. pose proof (H 1%nat ltac:(lia)) as H1.
      rewrite Nat.add_0_r in H0. rewrite Nat.add_1_r in H1. now rewrite H0, H1.
  - split; [apply IH|]. intros H. rewrite !Vf_SS.
    destruct (IH m) as [E0 E1]. destruct (IH (S m)) as [F0 F1].
    rewrite E0 by (intros; apply H; lia). rewrite E1 by (intros; apply H; lia).
    rewrite F0 by (intros k Hk; replace (S m + k)%nat with (m + S k)%nat by lia; apply H; lia).
    rewrite F1 by (intros k Hk; replace (S m + k)%nat with (m + S k)%nat by lia; apply H; lia).
    reflexivity.
Qed.

Lemma Vf_ext_local pa pc v (b1 b2 : nat -> F) a m :
  (forall k, k <= a -> b1 (m + k)%nat = b2 (m + k)%nat) ->
  Vf pa pc v b1 a m = Vf pa pc v b2 a m.
Proof. apply (proj1 (Vf_local_tight pa pc v b1 b2 a m)). Qed.

(* ------------------------------------------------------------------ *)
(* 1. one vertical pass                                                *)
(* ------------------------------------------------------------------ *)
Section VPassP.
Variables (L : nat) (pa pc twop : F).
Let v := 1 / twop.

(* the model's step with the row m = L (never written by the code: slices [:-1]) filled by an
   ARBITRARY function g of the step index and of the current row *)
Definition vstep_g (g : nat -> list F -> list F) (a : nat) (cur prev : list (list F))
  : list (list F) :=
  mk (S L) (fun m =>
    let c0 := nth m cur [] in
    if Nat.eqb m L then g a c0
    else
      let c1 := nth (S m) cur [] in
      let lead := zip2 (fun x y => pa * x - pc * y) c0 c1 in
      match a with
      | O => lead
      | S _ => zip2 (fadd K) lead
                 (zip2 (fun x y => #a / twop * (x - y)) (nth m prev []) (nth (S m) prev []))
      end).
Definition vpass_g g (v0 : list (list F)) : list (list (list F)) := iter2 (vstep_g g) L 0%nat v0 [].

Lemma vstep_is_g : vstep K L pa pc twop = vstep_g (fun _ c0 => map (fun _ => 0) c0).
Proof. reflexivity. Qed.
Lemma vpass_is_g v0 : vpass K L pa pc twop v0 = vpass_g (fun _ c0 => map (fun _ => 0) c0) v0.
Proof. reflexivity. Qed.

Variables (g : nat -> list F -> list F) (v0 : list (list F)) (w : nat).
Hypothesis Hw : forall m, m <= L -> length (nth m v0 []) = w.

(* the input column of channel c *)
Definition col (c : nat) : nat -> F := fun m => nth c (nth m v0 []) 0.

Definition Pv (a : nat) (tbl : list (list F)) : Prop :=
  forall m, (m + a <= L)%nat ->
    length (nth m tbl []) = w /\
    forall c, c < w -> nth c (nth m tbl []) 0 = Vf pa pc v (col c) a m.

Lemma vstep_g_inv j cur prev :
  Pv j cur -> (0 < j -> Pv (j - 1) prev) -> Pv (S j) (vstep_g g j cur prev).
Proof.
  intros Hc Hp m Hm. unfold vstep_g. rewrite nth_mk by lia. cbv zeta.
  destruct (Nat.eqb_spec m L) as [->|Hne]; [lia|].
  destruct (Hc m ltac:(lia)) as [Lc0 Vc0]. destruct (Hc (S m) ltac:(lia)) as [Lc1 Vc1].
  destruct j as [|j'].
  - split.
    + rewrite zip2_length, Lc0, Lc1. apply Nat.min_id.
    + intros c Hcw. rewrite (nth_zip2 _ _ _ c 0 0 0) by lia.
      rewrite Vc0, Vc1 by exact Hcw. rewrite !Vf_0, Vf_1. reflexivity.
  - specialize (Hp ltac:(lia)). replace (S j' - 1)%nat with j' in Hp by lia.
    destruct (Hp m ltac:(lia)) as [Lp0 Vp0]. destruct (Hp (S m) ltac:(lia)) as [Lp1 Vp1].
    split.
    + rewrite !zip2_length, Lc0, Lc1, Lp0, Lp1. rewrite !Nat.min_id. reflexivity.
    + intros c Hcw.
      rewrite (nth_zip2 _ _ _ c 0 0 0) by (rewrite !zip2_length; lia).
      rewrite (nth_zip2 _ _ _ c 0 0 0) by lia.
      rewrite (nth_zip2 _ _ _ c 0 0 0) by lia.
      rewrite Vc0, Vc1, Vp0, Vp1 by exact Hcw. rewrite Vf_SS.
      rewrite (div_as_mul #(S j') twop). fold v. ring.
Qed.

Lemma Pv_0 : Pv 0%nat v0.
Proof. intros m Hm. split; [apply Hw; lia|]. intros c Hcw. rewrite Vf_0. reflexivity. Qed.

(* entry (a, m, c) of the pass, inside the validity region, for ANY content of the last row *)
Theorem vpass_g_entry a m c : (m + a <= L)%nat -> c < w ->
  nth c (nth m (nth a (vpass_g g v0) []) []) 0 = Vf pa pc v (col c) a m.
Proof.
  intros Hm Hcw. unfold vpass_g.
  assert (H : Pv (0 + a) (nth a (iter2 (vstep_g g) L 0 v0 []) [])).
  { apply (iter2_spec (vstep_g g) Pv); [apply vstep_g_inv|apply Pv_0|lia|lia]. }
  cbn [Nat.add] in H. apply (H m Hm). exact Hcw.
Qed.

Lemma vpass_g_row_length a m : (m + a <= L)%nat ->
  length (nth m (nth a (vpass_g g v0) []) []) = w.
Proof.
  intros Hm. unfold vpass_g.
  assert (H : Pv (0 + a) (nth a (iter2 (vstep_g g) L 0 v0 []) [])).
  { apply (iter2_spec (vstep_g g) Pv); [apply vstep_g_inv|apply Pv_0|lia|lia]. }
  cbn [Nat.add] in H. apply (H m Hm).
Qed.

(* independence of the valid entries from what the last row holds *)
Corollary vpass_garbage_independent (g' : nat -> list F -> list F) a m c :
  (m + a <= L)%nat -> c < w ->
  nth c (nth m (nth a (vpass_g g v0) []) []) 0 = nth c (nth m (nth a (vpass_g g' v0) []) []) 0.
Proof.
  intros Hm Hcw. rewrite vpass_g_entry by assumption.
  unfold vpass_g.
  assert (H : Pv (0 + a) (nth a (iter2 (vstep_g g') L 0 v0 []) [])).
  { apply (iter2_spec (vstep_g g') Pv).
    - intros j x y Hx Hy m' Hm'. unfold vstep_g. rewrite nth_mk by lia. cbv zeta.
      destruct (Nat.eqb_spec m' L) as [->|Hne]; [lia|].
      pose proof (vstep_g_inv j x y Hx Hy m' Hm') as Q. unfold vstep_g in Q.
      rewrite nth_mk in Q by lia. cbv zeta in Q.
      destruct (Nat.eqb_spec m' L) as [->|_]; [lia|]. exact Q.
    - apply Pv_0.
    - lia.
    - lia. }
  cbn [Nat.add] in H. symmetry. apply (H m Hm). exact Hcw.
Qed.

End VPassP.

(* the model's pass *)
Theorem vpass_entry L pa pc twop v0 w a m c :
  (forall m, m <= L -> length (nth m v0 []) = w) ->
  (m + a <= L)%nat -> c < w ->
  nth c (nth m (nth a (vpass K L pa pc twop v0) []) []) 0
  = Vf pa pc (1 / twop) (col v0 c) a m.
Proof. intros Hw Hm Hc. rewrite vpass_is_g. now apply vpass_g_entry with (w := w). Qed.

(* every row of the model's pass, valid or not, keeps the channel width *)
Lemma vpass_all_lengths L pa pc twop v0 w :
  (forall m, m <= L -> length (nth m v0 []) = w) ->
  forall a m, a <= L -> m <= L -> length (nth m (nth a (vpass K L pa pc twop v0) []) []) = w.
Proof.
  intros Hw a m Ha Hm. unfold vpass.
  pose (Q := fun (_ : nat) (tbl : list (list F)) => forall m, m <= L -> length (nth m tbl []) = w).
  assert (H : Q (0 + a)%nat (nth a (iter2 (vstep K L pa pc twop) L 0 v0 []) [])).
  { apply (iter2_spec (vstep K L pa pc twop) Q); [|exact Hw|intros Hlt; lia|lia].
    intros j x y Hx Hy m' Hm'. unfold vstep. rewrite nth_mk by lia. cbv zeta.
    destruct (Nat.eqb_spec m' L) as [->|Hne].
    - rewrite map_length. apply Hx. lia.
    - assert (HS : S m' <= L) by lia.
      destruct j as [|j'].
      + rewrite zip2_length, (Hx m' Hm'), (Hx (S m') HS). apply Nat.min_id.
      + assert (Hy' : forall m, m <= L -> length (nth m y []) = w) by (apply Hy; lia).
        rewrite !zip2_length, (Hx m' Hm'), (Hx (S m') HS), (Hy' m' Hm'), (Hy' (S m') HS).
        rewrite !Nat.min_id. reflexivity. }
  apply H. exact Hm.
Qed.

End P.
