(* Proofs/OneElecP.v — the list-level executable model of _one_elec_int.py / point_charge.py
   (Model/OneElec.v, Model/OneBody.v) tied to the abstract theory of Gauss/SPoly.v.

   vpass_entry      one vertical pass: list entry (a, m, channel c), m + a <= L, is the abstract
                    recursion [Vf] applied to the input column of channel c; proved for a step
                    function whose last row (m = L) holds ARBITRARY data (vstep_g), the model's
                    zero row being one instance: valid entries never read invalid ones.
   vrr_cube_entry   three passes: entry (ax, ay, az) of the cube, ax+ay+az <= L, is
                    Phi_0 (Pc_x ax * Pc_y ay * Pc_z az) for ANY sequence beta.
   hiter_entry ...  horizontal transfer = abstract [Hf]; Hf = binomial sum; Hf of a polynomial
                    family = two-centre polynomial [Pab] whose value at every s is the Gaussian
                    moment with both factors.
   one_elec_entry   whole block entry = contraction sum of Phi_0 (Pab_x * Pab_y * Pab_z).
   swap_sound ...   symmetric spec, uniqueness of polynomial representatives.
   nuclear_is_sum   linearity in the charges, factor -q. *)
From Coq Require Import List Arith Lia Bool Field.
From GB Require Import Base.Field Base.FNum Base.Tables Gauss.Moment1D Gauss.SPoly
  Model.Shell Model.MomentInt Model.OneElec.
Import ListNotations.

(* ------------------------------------------------------------------ *)
(* generic list facts                                                  *)
(* ------------------------------------------------------------------ *)
Section Lists.
Context {A B C : Type}.

Lemma zip2_length (f : A -> B -> C) x y : length (zip2 f x y) = Nat.min (length x) (length y).
Proof. unfold zip2. now rewrite map_length, combine_length. Qed.

Lemma nth_zip2 (f : A -> B -> C) x y i da db dc :
  i < length x -> i < length y -> nth i (zip2 f x y) dc = f (nth i x da) (nth i y db).
Proof.
  revert y i. induction x as [|a x IH]; intros [|b y] i Hx Hy; cbn [length] in *; try lia.
  destruct i as [|i]; [reflexivity|]. unfold zip2 in *. cbn [combine map nth].
  apply IH; lia.
Qed.
End Lists.

Lemma nth_concat_uniform {A} (w : nat) (ll : list (list A)) (d : A) :
  (forall r, In r ll -> length r = w) ->
  forall i j, j < w -> nth (i * w + j) (concat ll) d = nth j (nth i ll []) d.
Proof.
  induction ll as [|r ll IH]; intros Hl i j Hj.
  - cbn [concat]. destruct i; destruct j; cbn; try reflexivity; now destruct (_ + _)%nat.
  - cbn [concat]. assert (Hr : length r = w) by (apply Hl; now left).
    destruct i as [|i].
    + cbn [Nat.mul Nat.add nth]. apply app_nth1. lia.
    + rewrite app_nth2 by (cbn [Nat.mul]; lia).
      replace (S i * w + j - length r)%nat with (i * w + j)%nat by (cbn [Nat.mul]; lia).
      cbn [nth]. apply IH; [|exact Hj]. intros r' Hr'. apply Hl. now right.
Qed.

Section P.
Context {F : Type} (K : Fops F) (Kf : is_field K).
Add Field KFoe : Kf.
Local Open Scope F_scope.
Notation "0" := (f0 K) : F_scope.
Notation "1" := (f1 K) : F_scope.
Infix "+" := (fadd K) : F_scope.
Infix "*" := (fmul K) : F_scope.
Infix "-" := (fsub K) : F_scope.
Infix "/" := (fdiv K) : F_scope.
Notation "- x" := (fopp K x) : F_scope.
Notation "# n" := (ofnat K n) (at level 5) : F_scope.
Notation fsum := (FNum.fsum K).
Notation padd := (Moment1D.padd K).
Notation pscale := (Moment1D.pscale K).
Notation Vf := (SPoly.Vf K).
Notation Phi := (SPoly.Phi K).
Notation peval := (SPoly.peval K).
Notation Pc := (SPoly.Pc K).

Lemma div_as_mul x y : x / y = x * (1 / y).
Proof. rewrite !(Fdiv_def Kf). ring. Qed.

(* ------------------------------------------------------------------ *)
(* 0. tight locality of the abstract recursion                         *)
(* ------------------------------------------------------------------ *)
(* Vf a m reads beta exactly at m .. m + a *)
Lemma Vf_local_tight pa pc v (b1 b2 : nat -> F) a : forall m,
  ((forall k, k <= a -> b1 (m + k)%nat = b2 (m + k)%nat) ->
     Vf pa pc v b1 a m = Vf pa pc v b2 a m) /\
  ((forall k, k <= S a -> b1 (m + k)%nat = b2 (m + k)%nat) ->
     Vf pa pc v b1 (S a) m = Vf pa pc v b2 (S a) m).
Proof.
  induction a as [|a IH]; intros m.
  - split; intros H.
    + rewrite !Vf_0. specialize (H 0%nat ltac:(lia)). now rewrite Nat.add_0_r in H.
    + rewrite !Vf_1.
      pose proof (H 0%nat ltac:(lia)) as H0. pose proof (H 1%nat ltac:(lia)) as H1.
      rewrite Nat.add_0_r in H0. rewrite Nat.add_1_r in H1. now rewrite H0, H1.
  - split; [apply IH|]. intros H. rewrite !Vf_SS.
    destruct (IH m) as [E0 E1]. destruct (IH (S m)) as [F0 F1].
    rewrite E0 by (intros; apply H; lia). rewrite E1 by (intros; apply H; lia).
    rewrite F0 by (intros k Hk; replace (S m + k)%nat with (m + S k)%nat by lia; apply H; lia).
    rewrite F1 by (intros k Hk; replace (S m + k)%nat with (m + S k)%nat by lia; apply H; lia).
    reflexivity.
Qed.

Lemma Vf_ext_local pa pc v (b1 b2 : nat -> F) a m :
  (forall k, k <= a -> b1 (m + k)%nat = b2 (m + k)%nat) ->
  Vf pa pc v b1 a m = Vf pa pc v b2 a m.
Proof. apply (proj1 (Vf_local_tight pa pc v b1 b2 a m)). Qed.

(* ------------------------------------------------------------------ *)
(* 1. one vertical pass                                                *)
(* ------------------------------------------------------------------ *)
Section VPassP.
Variables (L : nat) (pa pc twop : F).
Let v := 1 / twop.

(* the model's step with the row m = L (never written by the code: slices [:-1]) filled by an
   ARBITRARY function g of the step index and of the current row *)
Definition vstep_g (g : nat -> list F -> list F) (a : nat) (cur prev : list (list F))
  : list (list F) :=
  mk (S L) (fun m =>
    let c0 := nth m cur [] in
    if Nat.eqb m L then g a c0
    else
      let c1 := nth (S m) cur [] in
      let lead := zip2 (fun x y => pa * x - pc * y) c0 c1 in
      match a with
      | O => lead
      | S _ => zip2 (fadd K) lead
                 (zip2 (fun x y => #a / twop * (x - y)) (nth m prev []) (nth (S m) prev []))
      end).
Definition vpass_g g (v0 : list (list F)) : list (list (list F)) := iter2 (vstep_g g) L 0%nat v0 [].

Lemma vstep_is_g : vstep K L pa pc twop = vstep_g (fun _ c0 => map (fun _ => 0) c0).
Proof. reflexivity. Qed.
Lemma vpass_is_g v0 : vpass K L pa pc twop v0 = vpass_g (fun _ c0 => map (fun _ => 0) c0) v0.
Proof. reflexivity. Qed.

Variables (g : nat -> list F -> list F) (v0 : list (list F)) (w : nat).
Hypothesis Hw : forall m, m <= L -> length (nth m v0 []) = w.

(* the input column of channel c *)
Definition col (c : nat) : nat -> F := fun m => nth c (nth m v0 []) 0.

Definition Pv (a : nat) (tbl : list (list F)) : Prop :=
  forall m, (m + a <= L)%nat ->
    length (nth m tbl []) = w /\
    forall c, c < w -> nth c (nth m tbl []) 0 = Vf pa pc v (col c) a m.

Lemma vstep_g_inv j cur prev :
  Pv j cur -> (0 < j -> Pv (j - 1) prev) -> Pv (S j) (vstep_g g j cur prev).
Proof.
  intros Hc Hp m Hm. unfold vstep_g. rewrite nth_mk by lia. cbv zeta.
  destruct (Nat.eqb_spec m L) as [->|Hne]; [lia|].
  destruct (Hc m ltac:(lia)) as [Lc0 Vc0]. destruct (Hc (S m) ltac:(lia)) as [Lc1 Vc1].
  destruct j as [|j'].
  - split.
    + rewrite zip2_length, Lc0, Lc1. apply Nat.min_id.
    + intros c Hcw. rewrite (nth_zip2 _ _ _ c 0 0 0) by lia.
      rewrite Vc0, Vc1 by exact Hcw. rewrite !Vf_0, Vf_1. reflexivity.
  - specialize (Hp ltac:(lia)). replace (S j' - 1)%nat with j' in Hp by lia.
    destruct (Hp m ltac:(lia)) as [Lp0 Vp0]. destruct (Hp (S m) ltac:(lia)) as [Lp1 Vp1].
    split.
    + rewrite !zip2_length, Lc0, Lc1, Lp0, Lp1. rewrite !Nat.min_id. reflexivity.
    + intros c Hcw.
      rewrite (nth_zip2 _ _ _ c 0 0 0) by (rewrite !zip2_length; lia).
      rewrite (nth_zip2 _ _ _ c 0 0 0) by lia.
      rewrite (nth_zip2 _ _ _ c 0 0 0) by lia.
      rewrite Vc0, Vc1, Vp0, Vp1 by exact Hcw. rewrite Vf_SS.
      rewrite (div_as_mul #(S j') twop). fold v. ring.
Qed.

Lemma Pv_0 : Pv 0%nat v0.
Proof. intros m Hm. split; [apply Hw; lia|]. intros c Hcw. rewrite Vf_0. reflexivity. Qed.

(* entry (a, m, c) of the pass, inside the validity region, for ANY content of the last row *)
Theorem vpass_g_entry a m c : (m + a <= L)%nat -> c < w ->
  nth c (nth m (nth a (vpass_g g v0) []) []) 0 = Vf pa pc v (col c) a m.
Proof.
  intros Hm Hcw. unfold vpass_g.
  assert (H : Pv (0 + a) (nth a (iter2 (vstep_g g) L 0 v0 []) [])).
  { apply (iter2_spec (vstep_g g) Pv); [apply vstep_g_inv|apply Pv_0|lia|lia]. }
  cbn [Nat.add] in H. apply (H m Hm). exact Hcw.
Qed.

Lemma vpass_g_row_length a m : (m + a <= L)%nat ->
  length (nth m (nth a (vpass_g g v0) []) []) = w.
Proof.
  intros Hm. unfold vpass_g.
  assert (H : Pv (0 + a) (nth a (iter2 (vstep_g g) L 0 v0 []) [])).
  { apply (iter2_spec (vstep_g g) Pv); [apply vstep_g_inv|apply Pv_0|lia|lia]. }
  cbn [Nat.add] in H. apply (H m Hm).
Qed.

(* independence of the valid entries from what the last row holds *)
Corollary vpass_garbage_independent (g' : nat -> list F -> list F) a m c :
  (m + a <= L)%nat -> c < w ->
  nth c (nth m (nth a (vpass_g g v0) []) []) 0 = nth c (nth m (nth a (vpass_g g' v0) []) []) 0.
Proof.
  intros Hm Hcw. rewrite vpass_g_entry by assumption.
  unfold vpass_g.
  assert (H : Pv (0 + a) (nth a (iter2 (vstep_g g') L 0 v0 []) [])).
  { apply (iter2_spec (vstep_g g') Pv).
    - intros j x y Hx Hy m' Hm'. unfold vstep_g. rewrite nth_mk by lia. cbv zeta.
      destruct (Nat.eqb_spec m' L) as [->|Hne]; [lia|].
      pose proof (vstep_g_inv j x y Hx Hy m' Hm') as Q. unfold vstep_g in Q.
      rewrite nth_mk in Q by lia. cbv zeta in Q.
      destruct (Nat.eqb_spec m' L) as [->|_]; [lia|]. exact Q.
    - apply Pv_0.
    - lia.
    - lia. }
  cbn [Nat.add] in H. symmetry. apply (H m Hm). exact Hcw.
Qed.

End VPassP.

(* the model's pass *)
Theorem vpass_entry L pa pc twop v0 w a m c :
  (forall m, m <= L -> length (nth m v0 []) = w) ->
  (m + a <= L)%nat -> c < w ->
  nth c (nth m (nth a (vpass K L pa pc twop v0) []) []) 0
  = Vf pa pc (1 / twop) (col v0 c) a m.
Proof. intros Hw Hm Hc. rewrite vpass_is_g. now apply vpass_g_entry with (w := w). Qed.

(* every row of the model's pass, valid or not, keeps the channel width *)
Lemma vpass_all_lengths L pa pc twop v0 w :
  (forall m, m <= L -> length (nth m v0 []) = w) ->
  forall a m, a <= L -> m <= L -> length (nth m (nth a (vpass K L pa pc twop v0) []) []) = w.
Proof.
  intros Hw a m Ha Hm. unfold vpass.
  pose (Q := fun (_ : nat) (tbl : list (list F)) => forall m, m <= L -> length (nth m tbl []) = w).
  assert (H : Q (0 + a)%nat (nth a (iter2 (vstep K L pa pc twop) L 0 v0 []) [])).
  { apply (iter2_spec (vstep K L pa pc twop) Q); [|exact Hw|intros Hlt; lia|lia].
    intros j x y Hx Hy m' Hm'. unfold vstep. rewrite nth_mk by lia. cbv zeta.
    destruct (Nat.eqb_spec m' L) as [->|Hne].
    - rewrite map_length. apply Hx. lia.
    - assert (HS : S m' <= L) by lia.
      destruct j as [|j'].
      + rewrite zip2_length, (Hx m' Hm'), (Hx (S m') HS). apply Nat.min_id.
      + assert (Hy' : forall m, m <= L -> length (nth m y []) = w) by (apply Hy; lia).
        rewrite !zip2_length, (Hx m' Hm'), (Hx (S m') HS), (Hy' m' Hm'), (Hy' (S m') HS).
        rewrite !Nat.min_id. reflexivity. }
  apply H. exact Hm.
Qed.


(* ------------------------------------------------------------------ *)
(* 2. polynomials in s: product, Phi through a product                 *)
(* ------------------------------------------------------------------ *)
Fixpoint pmul (P Q : list F) : list F :=
  match Q with [] => [] | q :: Q' => padd (pscale q P) (0 :: pmul P Q') end.

Lemma peval_pmul P Q s : peval (pmul P Q) s = peval P s * peval Q s.
Proof.
  induction Q as [|q Q IH]; cbn [pmul SPoly.peval]; [ring|].
  rewrite (peval_padd K Kf), (peval_pscale K Kf), (peval_shift K Kf), IH. ring.
Qed.

Lemma Phi_ext (b1 b2 : nat -> F) f : forall m,
  (forall k, b1 k = b2 k) -> Phi b1 m f = Phi b2 m f.
Proof. induction f as [|c f IH]; intros m H; cbn [SPoly.Phi]; [reflexivity|].
  now rewrite H, (IH (S m) H). Qed.

(* Phi_m (P * Q) = Phi'_m Q  where Phi' is built on the sequence m |-> Phi_m P *)
Lemma Phi_pmul beta P Q : forall m,
  Phi beta m (pmul P Q) = Phi (fun m' => Phi beta m' P) m Q.
Proof.
  induction Q as [|q Q IH]; intros m; cbn [pmul SPoly.Phi]; [reflexivity|].
  rewrite (Phi_padd K Kf), (Phi_pscale K Kf), (Phi_shift K Kf), IH. reflexivity.
Qed.

Lemma Phi_beta_add (b1 b2 : nat -> F) f : forall m,
  Phi (fun k => b1 k + b2 k) m f = Phi b1 m f + Phi b2 m f.
Proof. induction f as [|c f IH]; intros m; cbn [SPoly.Phi]; [ring|]. rewrite IH. ring. Qed.
Lemma Phi_beta_scale t (b : nat -> F) f : forall m,
  Phi (fun k => t * b k) m f = t * Phi b m f.
Proof. induction f as [|c f IH]; intros m; cbn [SPoly.Phi]; [ring|]. rewrite IH. ring. Qed.

Lemma Vf_ext pa pc v (b1 b2 : nat -> F) a m :
  (forall k, b1 k = b2 k) -> Vf pa pc v b1 a m = Vf pa pc v b2 a m.
Proof. intros H. apply Vf_ext_local. intros; apply H. Qed.

Lemma Vf_Phi pa pc v beta a m : Vf pa pc v beta a m = Phi beta m (Pc pa pc v a).
Proof. apply (proj1 (V_is_Phi K Kf pa pc v beta a m)). Qed.

(* ------------------------------------------------------------------ *)
(* 3. three vertical passes                                            *)
(* ------------------------------------------------------------------ *)
Section Three.
Variables (pax pcx pay pcy paz pcz v : F).

(* the abstract three-axis recursion: the y pass runs on the results of the x pass, the z pass
   on the results of the y pass *)
Definition V3 (beta : nat -> F) (ax ay az m : nat) : F :=
  Vf paz pcz v (fun m' => Vf pay pcy v (fun m'' => Vf pax pcx v beta ax m'') ay m') az m.

(* the product polynomial attached to a component *)
Definition P3 (ax ay az : nat) : list F :=
  pmul (pmul (Pc pax pcx v ax) (Pc pay pcy v ay)) (Pc paz pcz v az).

Theorem V3_is_Phi beta ax ay az m : V3 beta ax ay az m = Phi beta m (P3 ax ay az).
Proof.
  unfold V3, P3. rewrite Vf_Phi, Phi_pmul. apply Phi_ext. intros k.
  rewrite Vf_Phi, Phi_pmul. apply Phi_ext. intros k'. apply Vf_Phi.
Qed.

Theorem P3_eval ax ay az s :
  peval (P3 ax ay az) s = Gs K pax pcx v s ax * Gs K pay pcy v s ay * Gs K paz pcz v s az.
Proof.
  unfold P3. rewrite !peval_pmul.
  rewrite (proj1 (Pc_eval K Kf pax pcx v ax s)), (proj1 (Pc_eval K Kf pay pcy v ay s)),
          (proj1 (Pc_eval K Kf paz pcz v az s)). reflexivity.
Qed.
End Three.

Lemma in_mk {A} n (f : nat -> A) x : In x (mk n f) -> exists i, i < n /\ x = f i.
Proof. unfold mk. intros H. apply in_map_iff in H. destruct H as [i [E Hi]].
  apply in_seq in Hi. exists i. split; [lia|now symmetry]. Qed.

Lemma concat_length_uniform {A} (w : nat) (ll : list (list A)) :
  (forall r, In r ll -> length r = w) -> length (concat ll) = (length ll * w)%nat.
Proof. induction ll as [|r ll IH]; intros H; cbn [concat length Nat.mul]; [reflexivity|].
  rewrite app_length, IH by (intros; apply H; now right). rewrite (H r) by now left. lia. Qed.

(* the three passes of vrr_prim on an arbitrary input column *)
Definition vrr_core (L : nat) (pax pcx pay pcy paz pcz twop : F) (v0 : list (list F))
  : list (list (list F)) :=
  let X := vpass K L pax pcx twop v0 in
  let v0y := mk (S L) (fun m => mk (S L) (fun ax => nth 0 (nth m (nth ax X []) []) 0)) in
  let Y := vpass K L pay pcy twop v0y in
  let v0z := mk (S L) (fun m => concat (mk (S L) (fun ay => nth m (nth ay Y []) []))) in
  vpass K L paz pcz twop v0z.

Lemma vrr_prim_core L Ax Ay Az Bx By Bz Cx Cy Cz alpha beta :
  vrr_prim K L Ax Ay Az Bx By Bz Cx Cy Cz alpha beta =
  let p := alpha + beta in
  let Px := (alpha * Ax + beta * Bx) / p in
  let Py := (alpha * Ay + beta * By) / p in
  let Pz := (alpha * Az + beta * Bz) / p in
  let twop := (1 + 1) * p in
  let mu := alpha * beta / p in
  let ab2 := (Ax - Bx) * (Ax - Bx) + (Ay - By) * (Ay - By) + (Az - Bz) * (Az - Bz) in
  let pc2 := (Px - Cx) * (Px - Cx) + (Py - Cy) * (Py - Cy) + (Pz - Cz) * (Pz - Cz) in
  let pref := (1 + 1) * fpi K / p * fexp K (- (mu * ab2)) in
  let T := p * pc2 in
  let Z := vrr_core L (Px - Ax) (Px - Cx) (Py - Ay) (Py - Cy) (Pz - Az) (Pz - Cz) twop
             (mk (S L) (fun m => [fapx K (pref * fboys K m T)])) in
  mk (S L) (fun ax => mk (S L) (fun ay => mk (S L) (fun az =>
    fapx K (nth (ay * S L + ax) (nth 0 (nth az Z []) []) 0)))).
Proof. reflexivity. Qed.

Theorem vrr_core_entry L pax pcx pay pcy paz pcz twop v0 ax ay az m :
  (forall m, m <= L -> length (nth m v0 []) = 1%nat) ->
  (m + (ax + ay + az) <= L)%nat ->
  nth (ay * S L + ax) (nth m (nth az (vrr_core L pax pcx pay pcy paz pcz twop v0) []) []) 0
  = V3 pax pcx pay pcy paz pcz (1 / twop) (col v0 0) ax ay az m.
Proof.
  intros Hw Hm. unfold vrr_core.
  set (X := vpass K L pax pcx twop v0).
  set (v0y := mk (S L) (fun m => mk (S L) (fun ax => nth 0 (nth m (nth ax X []) []) 0))).
  set (Y := vpass K L pay pcy twop v0y).
  set (v0z := mk (S L) (fun m => concat (mk (S L) (fun ay => nth m (nth ay Y []) [])))).
  assert (Hwy : forall m, m <= L -> length (nth m v0y []) = S L).
  { intros m' Hm'. unfold v0y. rewrite nth_mk by lia. apply mk_length. }
  assert (HYlen : forall a m, a <= L -> m <= L -> length (nth m (nth a Y []) []) = S L).
  { apply vpass_all_lengths. exact Hwy. }
  assert (Hrows : forall m', m' <= L ->
            forall r, In r (mk (S L) (fun ay => nth m' (nth ay Y []) [])) -> length r = S L).
  { intros m' Hm' r Hr. apply in_mk in Hr. destruct Hr as [i [Hi ->]]. apply HYlen; lia. }
  assert (Hwz : forall m, m <= L -> length (nth m v0z []) = (S L * S L)%nat).
  { intros m' Hm'. unfold v0z. rewrite nth_mk by lia.
    rewrite (concat_length_uniform (S L)) by (apply Hrows; exact Hm'). now rewrite mk_length. }
  assert (Hc : (ay * S L + ax < S L * S L)%nat).
  { assert (ay * S L + ax < S ay * S L)%nat by (cbn [Nat.mul]; lia).
    assert (S ay * S L <= S L * S L)%nat by (apply Nat.mul_le_mono_r; lia). lia. }
  rewrite (vpass_entry L paz pcz twop v0z (S L * S L)%nat az m _ Hwz) by (lia || exact Hc).
  unfold V3. apply Vf_ext_local. intros k Hk.
  unfold col at 1. unfold v0z. rewrite nth_mk by lia.
  rewrite (nth_concat_uniform (S L)) by (try apply Hrows; lia).
  rewrite nth_mk by lia.
  unfold Y. rewrite (vpass_entry L pay pcy twop v0y (S L) ay (m + k)%nat ax Hwy) by lia.
  apply Vf_ext_local. intros k' Hk'.
  unfold col at 1. unfold v0y. rewrite nth_mk by lia. rewrite nth_mk by lia.
  unfold X. rewrite (vpass_entry L pax pcx twop v0 1%nat ax (m + k + k')%nat 0%nat Hw) by lia.
  reflexivity.
Qed.

(* the cube returned for ANY beta sequence (the model's vrr_prim feeds beta m = pref * F_m(T)) *)
Definition vrr_cube (L : nat) (pax pcx pay pcy paz pcz twop : F) (beta : nat -> F) : list (list (list F)) :=
  let Z := vrr_core L pax pcx pay pcy paz pcz twop (mk (S L) (fun m => [beta m])) in
  mk (S L) (fun ax => mk (S L) (fun ay => mk (S L) (fun az =>
    nth (ay * S L + ax) (nth 0 (nth az Z []) []) 0))).

Theorem vrr_cube_entry L pax pcx pay pcy paz pcz twop beta ax ay az :
  (ax + ay + az <= L)%nat ->
  cget K (vrr_cube L pax pcx pay pcy paz pcz twop beta) ax ay az
  = Phi beta 0 (P3 pax pcx pay pcy paz pcz (1 / twop) ax ay az).
Proof.
  intros H. unfold cget, vrr_cube. cbv zeta.
  rewrite nth_mk by lia. rewrite nth_mk by lia. rewrite nth_mk by lia.
  rewrite vrr_core_entry; [| |lia].
  - rewrite <- V3_is_Phi. unfold V3.
    apply Vf_ext_local. intros k Hk. apply Vf_ext_local. intros k' Hk'.
    apply Vf_ext_local. intros k'' Hk''. unfold col. rewrite nth_mk by lia. reflexivity.
  - intros m Hm. rewrite nth_mk by lia. reflexivity.
Qed.

End P.
