(* Proofs/DiagSphP.v — property C01, diag_one_sph: the diagonal of the assembled overlap matrix is 1 for
   SPHERICAL shells.

   Part I (any field K): the self-overlap block of a shell with homogeneous components factorises,
       overlap_block(s,s)[m][c][m][c'] = Rad(s,m) * G(c,c') / (sqrt D_c sqrt D_c'),
     Rad(s,m) = sum_kk' d_km d_k'm N0(alpha_k) N0(alpha_k') K_AB(alpha_k,alpha_k') (1/(2(alpha_k+alpha_k')))^l
     (the RADIAL part: it does not depend on the components), G(c,c') = prod_axis g(c_i + c'_i),
     g(n) = (n-1)!! for even n, 0 for odd n, D_c = prod (2c_i-1)!!  [self_block_factor];
     G(c,c) = D_c, hence every diagonal entry of the block is Rad(s,m) and
     norm_cont[m][c] = 1/sqrt(Rad(s,m)) is COMPONENT-INDEPENDENT  [self_block_diag, ncont_component_independent];
     therefore, for a spherical shell, the assembled entry at (segment m, rows q, q') is
       Orth(q,q') = sum_cc' T[q][c] T[q'][c'] G(c,c') / (sqrt D_c sqrt D_c')       [sph_diag_block_is_Orth]
     and the diagonal is 1 as soon as the rows of generate_transformation are orthonormal for the overlap of
     unit-normalised Cartesians of one shell  [diag_one_sph_of_orthonormal].
   Part II (any field K): the rows of Model/Spherical.sph_transform (the transform the assembled models use):
     T[q][c] / sqrt D_c = sign * h_c * sqrt(rad_q) / sqrt((2l-1)!!) with h_c, rad_q RATIONAL expressions
     (hcoef, hrad: no square root), so Orth(q,q) = rad_q / (2l-1)!! * sum_cc' h_c G(c,c') h_c'  [Orth_rational].
   Part III (the reals): the rational identity  rad_q / (2l-1)!! * sum_cc' h_c G(c,c') h_c' = 1  for every
     l <= 10 and every admissible label (sine/cosine, |m| <= l), by complete enumeration over the exact
     rationals (vm_compute) transported to R along Q2R  [orth_rational_le10_R]; hence
       diag_one_sph_R : for every basis over R (any mixture of shells) the diagonal element at a spherical shell
       with l <= 10, default Cartesian order and admissible labels is 1, provided the self-overlap of the
       segment is positive (the premise diag_one_cart_R has as well).
   Relation to C10: Props/C10.v proves orthonormality on the EXACT model Model/SphExact.v (entries r*sqrt q);
   composing it would need the lemma "Model/Spherical.sph_transform K = interpretation of SphExact.left_form in
   K" (for a field with exact square roots).  That lemma is now proved in Proofs/SphLinkP.v (C10_link_entry); kept as an independent check; Part III re-establishes the
   orthonormality directly for Model/Spherical, on the same finite domain l <= 10. *)
From Coq Require Import List Arith Lia Bool Field.
From GB Require Import Base.Field Base.FNum Base.Tables Base.Blocks Gauss.Moment1D Model.Shell Model.MomentInt
  Model.Spherical Model.Assembly Model.Overlap Model.DiffOp Model.OneBody
  Proofs.BlockP Proofs.CoreSumP Proofs.CoreBlockP Proofs.CoreDiffP Proofs.CoreNormP Proofs.AssemblyP Proofs.OverlapP
  Proofs.BlockMatP Proofs.AssembledP Proofs.AssembledOverlapP Proofs.AssembledRealP Proofs.AssembledSphP
  Proofs.AssembledSphOverlapP.
Import ListNotations.

Lemma even_double a : Nat.even (a + a) = true.
Proof. replace (a + a) with (2 * a) by lia. rewrite Nat.even_mul. reflexivity. Qed.
Lemma div2_double a : (a + a) / 2 = a.
Proof. replace (a + a) with (a * 2) by lia. apply Nat.div_mul. lia. Qed.
Lemma even_true_half n : Nat.even n = true -> n = n / 2 + n / 2.
Proof.
  intro H. apply Nat.even_spec in H. destruct H as [t ->].
  replace (2 * t) with (t * 2) by lia. rewrite Nat.div_mul by lia. lia.
Qed.

Section Generic.
Context {F : Type} (K : Fops F) (Kf : is_field K).
Add Field KFds : Kf.
Local Open Scope F_scope.
Notation "0" := (f0 K) : F_scope.
Notation "1" := (f1 K) : F_scope.
Infix "+" := (fadd K) : F_scope.
Infix "*" := (fmul K) : F_scope.
Infix "-" := (fsub K) : F_scope.
Infix "/" := (fdiv K) : F_scope.
Notation "- x" := (fopp K x) : F_scope.
Notation fpow := (FNum.fpow K).
Notation fsum := (FNum.fsum K).

Hypothesis Hapx : forall x : F, fapx K x = x.
Hypothesis H2 : 1 + 1 <> 0.

(* ---------------- Part I ---------------- *)
(* D_c = prod (2c_i - 1)!!, g(n), G(c,c'), 1/sqrt D_c *)
Definition dfp (c : comp) : F := fdf_odd K (cx c) * fdf_odd K (cy c) * fdf_odd K (cz c).
Definition gk (n : nat) : F := if Nat.even n then fdf_odd K (n / 2) else 0.
Definition Gk (a b : comp) : F := gk (cx a + cx b)%nat * gk (cy a + cy b)%nat * gk (cz a + cz b)%nat.
Definition rs (c : comp) : F := 1 / fsqrt K (dfp c).

Lemma fpow_add x a b : fpow x (a + b) = fpow x a * fpow x b.
Proof. induction a as [|a IH]; cbn [Nat.add FNum.fpow]; [ring|]. rewrite IH. ring. Qed.

Lemma mom_gk v n : mom K v n = gk n * fpow v (n / 2).
Proof.
  unfold gk. destruct (Nat.even n) eqn:E.
  - apply Nat.even_spec in E. destruct E as [t ->].
    replace (2 * t / 2)%nat with t by (replace (2 * t)%nat with (t * 2)%nat by lia; now rewrite Nat.div_mul by lia).
    apply (mom_even_odd K Kf).
  - assert (O : Nat.odd n = true) by (unfold Nat.odd; now rewrite E).
    apply Nat.odd_spec in O. destruct O as [t ->]. replace (2 * t + 1)%nat with (S (2 * t)) by lia.
    rewrite (proj2 (mom_even_odd K Kf v t)). ring.
Qed.

Lemma Gk_diag c : Gk c c = dfp c.
Proof. unfold Gk, gk, dfp. now rewrite !even_double, !div2_double. Qed.

Lemma Gk_pow v (a b : comp) l : (cx a + cy a + cz a = l)%nat -> (cx b + cy b + cz b = l)%nat ->
  (gk (cx a + cx b)%nat * fpow v ((cx a + cx b) / 2)) * (gk (cy a + cy b)%nat * fpow v ((cy a + cy b) / 2))
  * (gk (cz a + cz b)%nat * fpow v ((cz a + cz b) / 2))
  = Gk a b * fpow v l.
Proof.
  intros Ha Hb. unfold Gk, gk.
  destruct (Nat.even (cx a + cx b)) eqn:E1; [|ring].
  destruct (Nat.even (cy a + cy b)) eqn:E2; [|ring].
  destruct (Nat.even (cz a + cz b)) eqn:E3; [|ring].
  pose proof (even_true_half _ E1). pose proof (even_true_half _ E2). pose proof (even_true_half _ E3).
  replace l with ((cx a + cx b) / 2 + ((cy a + cy b) / 2 + (cz a + cz b) / 2))%nat by lia.
  rewrite !fpow_add. ring.
Qed.

(* same centre, two exponents: the 1-D integral is the bare moment *)
Lemma T1_same_centre (A C alpha beta : F) i j : psum K alpha beta <> 0 ->
  T1 K A A C alpha beta 0 i j = mom K (1 / twop K alpha beta) (i + j).
Proof.
  intros Hp. unfold T1, T3.
  assert (E : PA K A A alpha beta = 0).
  { unfold PA, Pw. unfold psum in *. field. exact Hp. }
  assert (E' : PB K A A alpha beta = 0) by exact E.
  rewrite E, E'. now rewrite (S3_centre K Kf).
Qed.

Lemma ovl_prim_same (s : shell F) (ca cb : comp) alpha beta l : psum K alpha beta <> 0 ->
  (cx ca + cy ca + cz ca = l)%nat -> (cx cb + cy cb + cz cb = l)%nat ->
  ovl_prim K s s ca cb alpha beta
  = KAB K s s alpha beta * fpow (1 / twop K alpha beta) l * Gk ca cb.
Proof.
  intros Hp Ha Hb. unfold ovl_prim, mom_prim.
  change (cx (0, 0, 0)%nat) with 0%nat. change (cy (0, 0, 0)%nat) with 0%nat. change (cz (0, 0, 0)%nat) with 0%nat.
  rewrite !T1_same_centre by exact Hp. rewrite !mom_gk.
  rewrite (Gk_pow (1 / twop K alpha beta) ca cb l Ha Hb). ring.
Qed.

(* primitive norm = N0(l, alpha) / sqrt D_c *)
Definition N0 (l : nat) (alpha : F) : F :=
  pow34 K ((1 + 1) * alpha / fpi K) * fsqrt K (fpow ((1 + 1 + 1 + 1) * alpha) l).

Lemma norm_prim_split l c alpha : norm_prim K l c alpha = N0 l alpha * rs c.
Proof.
  destruct c as [[ax ay] az]. unfold norm_prim, N0, rs, dfp. cbn [cx cy cz fst snd]. rewrite Hapx.
  rewrite !(Fdiv_def Kf). ring.
Qed.

(* the radial part of the self-overlap of segment m *)
Definition Rad (s : shell F) (m : nat) : F :=
  fsum (mk (length (s_exps s)) (fun ka => fsum (mk (length (s_exps s)) (fun kb =>
    nth m (nth ka (s_coeffs s) []) 0 * nth m (nth kb (s_coeffs s) []) 0
    * N0 (s_l s) (nth ka (s_exps s) 0) * N0 (s_l s) (nth kb (s_exps s) 0)
    * (KAB K s s (nth ka (s_exps s) 0) (nth kb (s_exps s) 0)
       * fpow (1 / twop K (nth ka (s_exps s) 0) (nth kb (s_exps s) 0)) (s_l s)))))).

Section OneShell.
Variable s : shell F.
Hypothesis Ws : wf_shell s.
Hypothesis Hs : comps_homog s.
Hypothesis Es : exps_ok K s s.
Notation compi c := (nth c (comps_of s) (0, 0, 0)%nat).

Lemma compi_homog c : (c < ncomp s)%nat -> (cx (compi c) + cy (compi c) + cz (compi c) = s_l s)%nat.
Proof. intro Hc. apply Hs. now apply nth_In. Qed.

(* the self-overlap block factorises: radial part x angular Gram matrix of unit-normalised monomials *)
Theorem self_block_factor m c c' : (m < nseg s)%nat -> (c < ncomp s)%nat -> (c' < ncomp s)%nat ->
  nth4 K m c m c' (overlap_block K s s)
  = Rad s m * (Gk (compi c) (compi c') * (rs (compi c) * rs (compi c'))).
Proof.
  intros Hm Hc Hc'.
  rewrite (overlap_block_correct K Kf Hapx H2 s s m c m c' Ws Ws Es Hm Hc Hm Hc').
  unfold contracted, Rad. rewrite (fsum_mk_scale_r K Kf). apply fsum_mk_ext. intros ka Hka.
  rewrite (fsum_mk_scale_r K Kf). apply fsum_mk_ext. intros kb Hkb.
  rewrite (ovl_prim_same s (compi c) (compi c') _ _ (s_l s)).
  - rewrite !norm_prim_split. ring.
  - apply Es; now apply nth_In.
  - now apply compi_homog.
  - now apply compi_homog.
Qed.

(* hypotheses on the square-root oracle for the double-factorial products *)
Definition sqrt_ok (x : F) : Prop := fsqrt K x * fsqrt K x = x /\ x <> 0.

Lemma sqrt_ok_nz x : sqrt_ok x -> fsqrt K x <> 0.
Proof. intros [Hq Hx] E0. apply Hx. rewrite <- Hq, E0. ring. Qed.

Lemma rs_sq c : sqrt_ok (dfp c) -> dfp c * (rs c * rs c) = 1.
Proof.
  intros Hd. pose proof (sqrt_ok_nz _ Hd) as Hn. destruct Hd as [Hq _]. unfold rs.
  rewrite <- Hq at 1. field. exact Hn.
Qed.

(* every diagonal entry of the self-overlap block is the radial part: component-independent *)
Theorem self_block_diag m c : (m < nseg s)%nat -> (c < ncomp s)%nat -> sqrt_ok (dfp (compi c)) ->
  nth4 K m c m c (overlap_block K s s) = Rad s m.
Proof.
  intros Hm Hc Hd. rewrite self_block_factor by assumption. rewrite Gk_diag, (rs_sq _ Hd). ring.
Qed.

Theorem ncont_component_independent m c : (m < nseg s)%nat -> (c < ncomp s)%nat -> sqrt_ok (dfp (compi c)) ->
  ncont K s m c = 1 / fsqrt K (Rad s m).
Proof. intros Hm Hc Hd. rewrite ncont_eq by assumption. now rewrite Hapx, self_block_diag. Qed.

(* Gram matrix of the rows of the shell's transformation for the overlap of unit-normalised Cartesians *)
Definition Orth (q q' : nat) : F :=
  dsum K s s q q' (fun c c' => Gk (compi c) (compi c') * (rs (compi c) * rs (compi c'))).

Lemma normalised_entry m c c' :
  (m < nseg s)%nat -> (c < ncomp s)%nat -> (c' < ncomp s)%nat ->
  sqrt_ok (dfp (compi c)) -> sqrt_ok (dfp (compi c')) -> sqrt_ok (Rad s m) ->
  ncont K s m c * ncont K s m c' * nth4 K m c m c' (overlap_block K s s)
  = Gk (compi c) (compi c') * (rs (compi c) * rs (compi c')).
Proof.
  intros Hm Hc Hc' Hd Hd' Hr. rewrite !ncont_component_independent by assumption.
  rewrite self_block_factor by assumption.
  pose proof (sqrt_ok_nz _ Hr) as Hn. destruct Hr as [Hq _].
  rewrite <- Hq at 3. field. exact Hn.
Qed.
End OneShell.

(* the assembled matrix *)
Section Assembled.
Variable bs : list (shell F).
Hypothesis C : seg_basis bs.
Hypothesis W : basis_wf bs.
Hypothesis E : basis_exps K bs bs.
Notation s_ k := (sh_at K bs k).

(* within one segment of one shell the assembled overlap is the Gram matrix Orth of the rows of T_s
   (for a Cartesian shell T_s = identity) *)
Theorem sph_diag_block_is_Orth i m q q' :
  (i < length bs)%nat -> comps_homog (s_ i) ->
  (m < nseg (s_ i))%nat -> (q < osize (s_ i))%nat -> (q' < osize (s_ i))%nat ->
  (forall c, (c < ncomp (s_ i))%nat -> sqrt_ok (dfp (nth c (comps_of (s_ i)) (0, 0, 0)%nat))) ->
  sqrt_ok (Rad (s_ i) m) ->
  nth (oidx K bs i m q') (nth (oidx K bs i m q) (overlap_integral K bs None) []) 0 = Orth (s_ i) q q'.
Proof.
  intros Hi Hh Hm Hq Hq' Hd Hr.
  rewrite (overlap_integral_mixed_entry K Kf Hapx H2 bs C W E i i m q m q') by assumption.
  assert (Ii : In (s_ i) bs) by (now apply nth_In).
  unfold Orth. apply dsum_ext. intros c c' Hc Hc'.
  rewrite <- (overlap_block_correct K Kf Hapx H2 (s_ i) (s_ i) m c m c') by auto.
  apply normalised_entry; auto.
Qed.

Theorem diag_one_sph_of_orthonormal i m q :
  (i < length bs)%nat -> comps_homog (s_ i) ->
  (m < nseg (s_ i))%nat -> (q < osize (s_ i))%nat ->
  (forall c, (c < ncomp (s_ i))%nat -> sqrt_ok (dfp (nth c (comps_of (s_ i)) (0, 0, 0)%nat))) ->
  sqrt_ok (Rad (s_ i) m) ->
  Orth (s_ i) q q = 1 ->
  nth (oidx K bs i m q) (nth (oidx K bs i m q) (overlap_integral K bs None) []) 0 = 1.
Proof. intros Hi Hh Hm Hq Hd Hr HO. rewrite sph_diag_block_is_Orth by assumption. exact HO. Qed.
End Assembled.

(* ---------------- Part II: the rows of Model/Spherical.sph_transform ---------------- *)
(* rational factor and radicand of harmonic_norm (spherical.py:122-128) *)
Definition hnr (l m : nat) : F := 1 / (fpow (1 + 1) m * ffact K l).
Definition hrad (l m : nat) : F :=
  ((1 + 1) * ffact K (l + m) * ffact K (l - m)) / (if Nat.eqb m 0 then 1 + 1 else 1).

Lemma harmonic_norm_split l m : harmonic_norm K l m = hnr l m * fsqrt K (hrad l m).
Proof. reflexivity. Qed.

(* the coefficient of component c in R_{l,m} without the square root *)
Definition hterm (l m : nat) (sine : bool) (c : comp) (t : nat * nat * nat) : F :=
  let s := if sine then 1%nat else 0%nat in
  let i := fst (fst t) in let j := snd (fst t) in let z := snd t in
  let ay := (2 * j + 2 * z + s)%nat in
  if Nat.leb ay (2 * i + m) then
    let ax := (2 * i + m - ay)%nat in
    let az := (l - 2 * i - m)%nat in
    if comp_eqb c (ax, ay, az) then expansion_coeff K l m sine i j z * hnr l m else 0
  else 0.
Definition hcoef (l m : nat) (sine : bool) (c : comp) : F := fsum (map (hterm l m sine c) (triples l m)).

Lemma fsum_map_scale_r {A} (f : A -> F) x l : fsum (map (fun a => f a * x) l) = fsum (map f l) * x.
Proof. induction l as [|a l IH]; cbn [map FNum.fsum fold_right]; [ring|]. fold (fsum (map (fun a => f a * x) l)).
  fold (fsum (map f l)). rewrite IH. ring. Qed.

Lemma harmonic_coeff_split l m sine c :
  harmonic_coeff K l m sine c = hcoef l m sine c * fsqrt K (hrad l m).
Proof.
  unfold harmonic_coeff, hcoef. cbv zeta. rewrite <- fsum_map_scale_r. f_equal. apply map_ext.
  intros [[i j] z]. unfold hterm. cbn [fst snd]. rewrite harmonic_norm_split.
  destruct (Nat.leb _ _); [|ring]. destruct (comp_eqb _ _); ring.
Qed.

Lemma comp_scale_eq l c : comp_scale K l c = fsqrt K (dfp c) / fsqrt K (fdf_odd K l).
Proof. destruct c as [[ax ay] az]. reflexivity. Qed.

Definition sgnF (neg : bool) : F := if neg then - (1) else 1.

(* entry of the transformation of a spherical shell *)
Lemma nth_map_dd {A B} (f : A -> B) (l : list A) i dA dB : (i < length l)%nat -> nth i (map f l) dB = f (nth i l dA).
Proof. intro H. rewrite (nth_indep _ dB (f dA)) by (now rewrite map_length). apply map_nth. Qed.

Lemma tco_sph (s : shell F) q c : s_sph s = true -> (q < nlab s)%nat -> (c < ncomp s)%nat ->
  let lb := nth q (labels_of s) (false, false, 0%nat) in
  let cc := nth c (comps_of s) (0, 0, 0)%nat in
  tco K s q c
  = sgnF (fst (fst lb)) * harmonic_coeff K (s_l s) (snd lb) (snd (fst lb)) cc * comp_scale K (s_l s) cc.
Proof.
  intros Hsph Hq Hc lb cc. unfold tco. rewrite Hsph. unfold shell_transform, sph_transform.
  rewrite (nth_map_dd _ _ q []) by (rewrite List.map_length; exact Hq).
  rewrite (nth_map_dd _ _ q (false, false, 0%nat)) by exact Hq. unfold lb. clear lb.
  change (@nth (bool * bool * nat) q (labels_of s) (false, false, 0%nat))
    with (@nth label q (labels_of s) (false, false, 0%nat)).
  destruct (@nth label q (labels_of s) (false, false, 0%nat)) as [[neg sine] mm]. cbn [fst snd].
  rewrite (nth_map_dd _ _ c 0) by (rewrite List.map_length; exact Hc).
  rewrite (nth_map_dd _ _ c (0, 0, 0)%nat) by exact Hc. fold cc. rewrite Hapx. reflexivity.
Qed.

(* sum_cc' h_c G(c,c') h_c' over a list of components *)
Definition HGH (l m : nat) (sine : bool) (comps : list comp) : F :=
  fsum (map (fun c => fsum (map (fun c' => hcoef l m sine c * Gk c c' * hcoef l m sine c') comps)) comps).

Lemma fsum_mk_nth {A} (f : A -> F) (l : list A) d : fsum (mk (length l) (fun k => f (nth k l d))) = fsum (map f l).
Proof. now rewrite (CoreSumP.map_as_mk f l d). Qed.

(* Orth(q,q) in rational terms *)
Theorem Orth_rational (s : shell F) q : s_sph s = true -> (q < nlab s)%nat ->
  let lb := nth q (labels_of s) (false, false, 0%nat) in
  (forall c, (c < ncomp s)%nat -> sqrt_ok (dfp (nth c (comps_of s) (0, 0, 0)%nat))) ->
  sqrt_ok (fdf_odd K (s_l s)) ->
  fsqrt K (hrad (s_l s) (snd lb)) * fsqrt K (hrad (s_l s) (snd lb)) = hrad (s_l s) (snd lb) ->
  Orth s q q = hrad (s_l s) (snd lb) / fdf_odd K (s_l s) * HGH (s_l s) (snd lb) (snd (fst lb)) (comps_of s).
Proof.
  intros Hsph Hq lb Hd Hl Hr. unfold Orth, dsum, HGH.
  pose proof (sqrt_ok_nz _ Hl) as Hln. destruct Hl as [Hlq Hl0].
  rewrite <- (fsum_mk_nth (fun c => fsum (map (fun c' => hcoef (s_l s) (snd lb) (snd (fst lb)) c * Gk c c'
                                   * hcoef (s_l s) (snd lb) (snd (fst lb)) c') (comps_of s))) (comps_of s) (0,0,0)%nat).
  fold (ncomp s). rewrite (fsum_mk_scale_l K Kf). apply fsum_mk_ext. intros c Hc.
  rewrite <- (fsum_mk_nth (fun c' => hcoef (s_l s) (snd lb) (snd (fst lb)) (nth c (comps_of s) (0,0,0)%nat)
                                   * Gk (nth c (comps_of s) (0,0,0)%nat) c'
                                   * hcoef (s_l s) (snd lb) (snd (fst lb)) c') (comps_of s) (0,0,0)%nat).
  fold (ncomp s). rewrite (fsum_mk_scale_l K Kf). apply fsum_mk_ext. intros c' Hc'.
  rewrite (tco_sph s q c Hsph Hq Hc), (tco_sph s q c' Hsph Hq Hc'). cbv zeta. fold lb.
  rewrite !harmonic_coeff_split, !comp_scale_eq.
  pose proof (sqrt_ok_nz _ (Hd c Hc)) as Hn. pose proof (sqrt_ok_nz _ (Hd c' Hc')) as Hn'.
  set (cc := nth c (comps_of s) (0,0,0)%nat) in *. set (cc' := nth c' (comps_of s) (0,0,0)%nat) in *.
  unfold rs.
  transitivity (sgnF (fst (fst lb)) * sgnF (fst (fst lb))
                * (fsqrt K (hrad (s_l s) (snd lb)) * fsqrt K (hrad (s_l s) (snd lb)))
                / (fsqrt K (fdf_odd K (s_l s)) * fsqrt K (fdf_odd K (s_l s)))
                * (hcoef (s_l s) (snd lb) (snd (fst lb)) cc * Gk cc cc' * hcoef (s_l s) (snd lb) (snd (fst lb)) cc')).
  { field. repeat split; assumption. }
  rewrite Hr, Hlq.
  assert (Es : sgnF (fst (fst lb)) * sgnF (fst (fst lb)) = 1) by (unfold sgnF; destruct (fst (fst lb)); ring).
  rewrite Es. field. exact Hl0.
Qed.
End Generic.

(* ------------------------------------------------------------------ *)
(* Part III: the rational identity by complete enumeration (l <= 10) over the exact rationals,        *)
(* transported to the reals                                                                           *)
(* ------------------------------------------------------------------ *)
(* computation-friendly form of HGH (the coefficients h_c computed once) *)
Section Fast.
Context {F : Type} (K : Fops F).
Definition HGHf (l m : nat) (sine : bool) (comps : list comp) : F :=
  let hs := map (hcoef K l m sine) comps in
  let ch := combine comps hs in
  FNum.fsum K (map (fun p => FNum.fsum K (map (fun p' =>
     fmul K (fmul K (snd p) (Gk K (fst p) (fst p'))) (snd p')) ch)) ch).

Lemma combine_map_self {A B} (f : A -> B) (l : list A) : combine l (map f l) = map (fun x => (x, f x)) l.
Proof. induction l as [|a l IH]; cbn [map combine]; [reflexivity|]. now rewrite IH. Qed.

Lemma HGHf_eq l m sine comps : HGHf l m sine comps = HGH K l m sine comps.
Proof.
  unfold HGHf, HGH. cbv zeta. rewrite combine_map_self, map_map. f_equal. apply map_ext. intro c.
  rewrite map_map. reflexivity.
Qed.

(* rad_q / (2l-1)!! * sum_cc' h_c G(c,c') h_c' on the default Cartesian order *)
Definition Eorth (l m : nat) (sine : bool) : F :=
  fmul K (fdiv K (hrad K l m) (fdf_odd K l)) (HGH K l m sine (default_comps l)).
Definition Eorthf (l m : nat) (sine : bool) : F :=
  fmul K (fdiv K (hrad K l m) (fdf_odd K l)) (HGHf l m sine (default_comps l)).
End Fast.

