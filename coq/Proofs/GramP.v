(* Proofs/GramP.v — Gram matrices of a real (semi-)inner-product space (property C17).

   Setting: an ABSTRACT real semi-inner-product space [ipspace]: a type of vectors with addition,
   scaling and zero, and a form [ip] that is symmetric, additive and homogeneous in its first
   argument, vanishes on the zero vector and satisfies [0 <= ip v v].  Nothing else is assumed
   (no definiteness, no dimension, no vector-space laws on the carrier).

   What is proved (all over R, for every space, every family of vectors, every coefficient list):
     gram_psd            the quadratic form of a Gram matrix is >= 0
     psd_schwarz         G_ab^2 <= G_aa G_bb for every symmetric PSD matrix (discriminant argument)
     cauchy_schwarz      ip(u,v)^2 <= ip(u,u) ip(v,v);  abs form with sqrt;  unit diagonal => |G_ab| <= 1
     eri_pair_*          the same for a four-index array that is a Gram matrix over index PAIRS
     neg_charge_nsd      -q * G is negative semi-definite for q >= 0
     perturbation        |M_ab - G_ab| <= eps, G PSD  =>  c^T M c >= - n eps |c|^2
     hankel_psd          the one-centre, one-axis moment functional is positive on squares (all degrees);
                         polynomials with E(f g) form an ipspace (one_centre_gram_psd, one_centre_schwarz)
   plus the symmetry of the one-dimensional overlap and second-derivative (kinetic) primitives
   under exchange of the two functions (section Sym, generic field).

   What is NOT proved here (analytic bridge B3 of DESIGN.md 2.6): that the L2 form
   int f g and the Coulomb form iint f(1) g(2) / r12 and the weighted form int f g / |r - C|
   ARE such semi-inner products on the span of the basis functions.  For functions on different
   centres this is a statement about integrals of positive kernels, not an algebraic consequence of
   the moment functional [E]. *)
From Coq Require Import List Arith Lia Reals Lra Psatz RealField.
From GB Require Import Base.Field Base.Tables Gauss.Moment1D Proofs.DiffOpP.
Import ListNotations.
Local Open Scope R_scope.

(* ------------------------------------------------------------------------------------------ *)
(* finite sums of reals over lists                                                             *)
(* ------------------------------------------------------------------------------------------ *)
Fixpoint rsum (l : list R) : R := match l with [] => 0 | x :: r => x + rsum r end.

Lemma rsum_map_add {A} (f g : A -> R) l :
  rsum (map (fun x => f x + g x) l) = rsum (map f l) + rsum (map g l).
Proof. induction l as [|a l IH]; cbn [map rsum]; [lra|]. rewrite IH. lra. Qed.

Lemma rsum_map_scal {A} (c : R) (f : A -> R) l :
  rsum (map (fun x => c * f x) l) = c * rsum (map f l).
Proof. induction l as [|a l IH]; cbn [map rsum]; [lra|]. rewrite IH. lra. Qed.

Lemma rsum_map_ext {A} (f g : A -> R) l :
  (forall x, f x = g x) -> rsum (map f l) = rsum (map g l).
Proof. intros H. induction l as [|a l IH]; cbn [map rsum]; [reflexivity|]. now rewrite H, IH. Qed.

Lemma rsum_map_le {A} (f g : A -> R) l :
  (forall x, f x <= g x) -> rsum (map f l) <= rsum (map g l).
Proof. intros H. induction l as [|a l IH]; cbn [map rsum]; [lra|]. pose proof (H a). lra. Qed.

Lemma rsum_map_nonneg {A} (f : A -> R) l : (forall x, 0 <= f x) -> 0 <= rsum (map f l).
Proof. intros H. induction l as [|a l IH]; cbn [map rsum]; [lra|]. pose proof (H a). lra. Qed.

(* ------------------------------------------------------------------------------------------ *)
(* quadratic forms of matrices indexed by an arbitrary type I                                  *)
(* ------------------------------------------------------------------------------------------ *)
Section QF.
Context {I : Type}.
Implicit Types (G M : I -> I -> R) (l : list (R * I)).

(* sum_{(c,a) in l} sum_{(d,b) in l} c d G a b : the vector "sum_a c_a e_a" may list an index more
   than once (then the coefficients add up), so every finitely supported coefficient vector occurs *)
Definition qf G l : R :=
  rsum (map (fun p => rsum (map (fun q => fst p * fst q * G (snd p) (snd q)) l)) l).

Definition psd G : Prop := forall l, 0 <= qf G l.
Definition nsd G : Prop := forall l, qf G l <= 0.
Definition symm G : Prop := forall a b, G a b = G b a.

Definition sum_abs l : R := rsum (map (fun p => Rabs (fst p)) l).
Definition sum_sq l : R := rsum (map (fun p => fst p * fst p) l).

Lemma qf_add G M l : qf (fun a b => G a b + M a b) l = qf G l + qf M l.
Proof.
  unfold qf. rewrite <- rsum_map_add. apply rsum_map_ext. intros p.
  rewrite <- rsum_map_add. apply rsum_map_ext. intros q. ring.
Qed.

Lemma qf_scal k G l : qf (fun a b => k * G a b) l = k * qf G l.
Proof.
  unfold qf. rewrite <- rsum_map_scal. apply rsum_map_ext. intros p.
  rewrite <- rsum_map_scal. apply rsum_map_ext. intros q. ring.
Qed.

Lemma qf_ext G M l : (forall a b, G a b = M a b) -> qf G l = qf M l.
Proof.
  intros H. unfold qf. apply rsum_map_ext. intros p. apply rsum_map_ext. intros q. now rewrite H.
Qed.

(* two-element coefficient vectors *)
Lemma qf_two G x a y b :
  qf G [(x, a); (y, b)] = x * x * G a a + x * y * G a b + y * x * G b a + y * y * G b b.
Proof. unfold qf. cbn [map rsum fst snd]. ring. Qed.

Lemma qf_one G x a : qf G [(x, a)] = x * x * G a a.
Proof. unfold qf. cbn [map rsum fst snd]. ring. Qed.

Lemma psd_diag G a : psd G -> 0 <= G a a.
Proof. intros H. pose proof (H [(1, a)]) as H1. rewrite qf_one in H1. lra. Qed.

(* the discriminant argument without division *)
Lemma psd_schwarz G a b : symm G -> psd G -> G a b * G a b <= G a a * G b b.
Proof.
  intros Hs Hp.
  pose proof (psd_diag G a Hp) as Ha. pose proof (psd_diag G b Hp) as Hb.
  pose proof (Hs b a) as Hba.
  pose proof (Hp [(G b b, a); (- G a b, b)]) as H1. rewrite qf_two, Hba in H1.
  pose proof (Hp [(G a b, a); (- G a a, b)]) as H2. rewrite qf_two, Hba in H2.
  pose proof (Hp [(1, a); (- G a b, b)]) as H3. rewrite qf_two, Hba in H3.
  generalize dependent (G a b). generalize dependent (G a a). generalize dependent (G b b).
  intros B Hb A Ha X _ H1 H2 H3.
  (* H1 : B (A B - X^2) >= 0,  H2 : A (A B - X^2) >= 0,  H3 : A - 2 X^2 + X^2 B >= 0 *)
  destruct (Rlt_le_dec 0 B) as [HB|HB].
  - assert (0 <= B * (A * B - X * X)) by lra. nra.
  - assert (B = 0) by lra. subst B.
    destruct (Rlt_le_dec 0 A) as [HA|HA].
    + assert (0 <= A * (A * 0 - X * X)) by lra. nra.
    + assert (A = 0) by lra. subst A. nra.
Qed.

Lemma psd_schwarz_abs G a b : symm G -> psd G -> Rabs (G a b) <= sqrt (G a a * G b b).
Proof.
  intros Hs Hp. pose proof (psd_schwarz G a b Hs Hp) as H.
  rewrite <- sqrt_Rsqr_abs. apply sqrt_le_1_alt. exact H.
Qed.

Lemma psd_unit_diag_bound G a b : symm G -> psd G -> G a a = 1 -> G b b = 1 -> Rabs (G a b) <= 1.
Proof.
  intros Hs Hp Ha Hb. pose proof (psd_schwarz_abs G a b Hs Hp) as H.
  rewrite Ha, Hb, Rmult_1_r, sqrt_1 in H. exact H.
Qed.

(* negative semidefiniteness of -q G *)
Lemma neg_scal_nsd G q : 0 <= q -> psd G -> nsd (fun a b => - q * G a b).
Proof. intros Hq Hp l. rewrite qf_scal. pose proof (Hp l). nra. Qed.

(* ---- perturbation: a matrix within eps of a PSD matrix ---- *)
Lemma rsum_abs_bound (D : I -> I -> R) eps l (x : R) (a : I) :
  (forall a b, Rabs (D a b) <= eps) ->
  Rabs (rsum (map (fun q => x * fst q * D a (snd q)) l)) <= eps * (Rabs x * sum_abs l).
Proof.
  intros HD. unfold sum_abs. induction l as [|q l IH]; cbn [map rsum].
  - rewrite Rabs_R0. lra.
  - eapply Rle_trans; [apply Rabs_triang|].
    assert (Rabs (x * fst q * D a (snd q)) <= eps * (Rabs x * Rabs (fst q))).
    { rewrite !Rabs_mult. pose proof (HD a (snd q)). pose proof (Rabs_pos x). pose proof (Rabs_pos (fst q)).
      pose proof (Rabs_pos (D a (snd q))).
      assert (0 <= Rabs x * Rabs (fst q)) by nra. nra. }
    nra.
Qed.

Lemma qf_abs_bound (D : I -> I -> R) eps l :
  (forall a b, Rabs (D a b) <= eps) -> Rabs (qf D l) <= eps * (sum_abs l * sum_abs l).
Proof.
  intros HD. unfold qf.
  assert (Hgen : forall l0 : list (R * I),
    Rabs (rsum (map (fun p => rsum (map (fun q => fst p * fst q * D (snd p) (snd q)) l)) l0))
    <= eps * (sum_abs l0 * sum_abs l)).
  { induction l0 as [|p l0 IH]; cbn [map rsum].
    - unfold sum_abs at 1. cbn [map rsum]. rewrite Rabs_R0. lra.
    - eapply Rle_trans; [apply Rabs_triang|].
      pose proof (rsum_abs_bound D eps l (fst p) (snd p) HD) as H1.
      unfold sum_abs at 1. cbn [map rsum]. fold (sum_abs l0). nra. }
  apply Hgen.
Qed.

(* (sum |c|)^2 <= n sum c^2, via  2 x sum|c| <= n x^2 + sum c^2 *)
Lemma two_x_sum_abs l x : 2 * x * sum_abs l <= INR (length l) * (x * x) + sum_sq l.
Proof.
  unfold sum_abs, sum_sq. induction l as [|p l IH].
  - cbn [map rsum length INR]. nra.
  - cbn [map rsum]. replace (length (p :: l)) with (S (length l)) by reflexivity. rewrite S_INR.
    assert (2 * x * Rabs (fst p) <= x * x + fst p * fst p).
    { pose proof (Rle_0_sqr (x - Rabs (fst p))) as H. unfold Rsqr in H.
      assert (Rabs (fst p) * Rabs (fst p) = fst p * fst p).
      { rewrite <- Rabs_mult. apply Rabs_pos_eq. apply Rle_0_sqr. }
      nra. }
    nra.
Qed.

Lemma sum_abs_sq_bound l : sum_abs l * sum_abs l <= INR (length l) * sum_sq l.
Proof.
  induction l as [|p l IH].
  - unfold sum_abs, sum_sq. cbn [map rsum length INR]. lra.
  - pose proof (two_x_sum_abs l (Rabs (fst p))) as H2.
    assert (Hsq : Rabs (fst p) * Rabs (fst p) = fst p * fst p).
    { rewrite <- Rabs_mult. apply Rabs_pos_eq. apply Rle_0_sqr. }
    replace (length (p :: l)) with (S (length l)) by reflexivity. rewrite S_INR.
    unfold sum_abs, sum_sq in *. cbn [map rsum].
    set (s := rsum (map (fun p0 : R * I => Rabs (fst p0)) l)) in *.
    set (q := rsum (map (fun p0 : R * I => fst p0 * fst p0) l)) in *.
    set (n := INR (length l)) in *.
    assert (0 <= q) by (apply rsum_map_nonneg; intros; apply Rle_0_sqr).
    assert (0 <= n) by apply pos_INR.
    generalize dependent (Rabs (fst p)). intros x H2 Hsq. rewrite <- Hsq. nra.
Qed.

Theorem perturbation G M eps l :
  psd G -> (forall a b, Rabs (M a b - G a b) <= eps) ->
  - (INR (length l) * eps * sum_sq l) <= qf M l.
Proof.
  intros Hp HD.
  assert (E : qf M l = qf G l + qf (fun a b => M a b - G a b) l).
  { rewrite <- qf_add. apply qf_ext. intros; ring. }
  pose proof (qf_abs_bound (fun a b => M a b - G a b) eps l HD) as HB.
  pose proof (sum_abs_sq_bound l) as HS.
  pose proof (Hp l) as H0.
  destruct l as [|p l'].
  - unfold qf, sum_sq. cbn [map rsum length INR]. lra.
  - assert (0 <= eps).
    { pose proof (HD (snd p) (snd p)) as Hx.
      pose proof (Rabs_pos (M (snd p) (snd p) - G (snd p) (snd p))). lra. }
    set (l := p :: l') in *.
    assert (0 <= sum_sq l) by (apply rsum_map_nonneg; intros; apply Rle_0_sqr).
    pose proof (Rle_abs (- qf (fun a b => M a b - G a b) l)) as Hab. rewrite Rabs_Ropp in Hab.
    nra.
Qed.

End QF.

(* ------------------------------------------------------------------------------------------ *)
(* abstract real semi-inner-product spaces                                                     *)
(* ------------------------------------------------------------------------------------------ *)
Record ipspace := mkIP {
  vec : Type;
  vadd : vec -> vec -> vec;
  vscal : R -> vec -> vec;
  vzero : vec;
  ip : vec -> vec -> R;
  ip_sym : forall u v, ip u v = ip v u;
  ip_add_l : forall u v w, ip (vadd u v) w = ip u w + ip v w;
  ip_scal_l : forall c u w, ip (vscal c u) w = c * ip u w;
  ip_zero_l : forall w, ip vzero w = 0;
  ip_pos : forall v, 0 <= ip v v
}.

Section Gram.
Variable S : ipspace.
Context {I : Type}.
Variable v : I -> vec S.          (* the family of vectors (basis functions) *)

Definition gram : I -> I -> R := fun a b => ip S (v a) (v b).

(* sum_a c_a v_a *)
Fixpoint lincomb (l : list (R * I)) : vec S :=
  match l with [] => vzero S | p :: r => vadd S (vscal S (fst p) (v (snd p))) (lincomb r) end.

Lemma ip_lincomb_l l w : ip S (lincomb l) w = rsum (map (fun p => fst p * ip S (v (snd p)) w) l).
Proof.
  induction l as [|p l IH]; cbn [lincomb map rsum].
  - apply ip_zero_l.
  - now rewrite ip_add_l, ip_scal_l, IH.
Qed.

Lemma ip_lincomb_r l w : ip S w (lincomb l) = rsum (map (fun p => fst p * ip S w (v (snd p))) l).
Proof.
  rewrite ip_sym, ip_lincomb_l. apply rsum_map_ext. intros p. now rewrite ip_sym.
Qed.

Lemma qf_gram_is_norm l : qf gram l = ip S (lincomb l) (lincomb l).
Proof.
  rewrite ip_lincomb_l. unfold qf. apply rsum_map_ext. intros p.
  rewrite ip_lincomb_r, <- rsum_map_scal. apply rsum_map_ext. intros q. unfold gram. ring.
Qed.

Theorem gram_psd : psd gram.
Proof. intros l. rewrite qf_gram_is_norm. apply ip_pos. Qed.

Lemma gram_symm : symm gram.
Proof. intros a b. apply ip_sym. Qed.

Theorem gram_schwarz a b : gram a b * gram a b <= gram a a * gram b b.
Proof. apply psd_schwarz; [exact gram_symm | exact gram_psd]. Qed.

Theorem gram_schwarz_abs a b : Rabs (gram a b) <= sqrt (gram a a * gram b b).
Proof. apply psd_schwarz_abs; [exact gram_symm | exact gram_psd]. Qed.

Theorem unit_diag_bound a b : gram a a = 1 -> gram b b = 1 -> Rabs (gram a b) <= 1.
Proof. apply psd_unit_diag_bound; [exact gram_symm | exact gram_psd]. Qed.

(* the point-charge matrix -q * <phi_a | 1/|r-C| | phi_b> of a charge q >= 0 *)
Theorem neg_charge_nsd q : 0 <= q -> nsd (fun a b => - q * gram a b).
Proof. intros Hq. apply neg_scal_nsd; [exact Hq | exact gram_psd]. Qed.

(* a computed matrix within eps of the Gram matrix: quadratic form >= - n eps |c|^2 *)
Theorem gram_perturbation (M : I -> I -> R) eps l :
  (forall a b, Rabs (M a b - gram a b) <= eps) -> - (INR (length l) * eps * sum_sq l) <= qf M l.
Proof. apply perturbation. exact gram_psd. Qed.
End Gram.

(* Cauchy-Schwarz for two vectors = the Gram statement for the identity family *)
Theorem cauchy_schwarz (S : ipspace) (u w : vec S) : ip S u w * ip S u w <= ip S u u * ip S w w.
Proof. exact (gram_schwarz S (fun x : vec S => x) u w). Qed.

Theorem cauchy_schwarz_abs (S : ipspace) (u w : vec S) : Rabs (ip S u w) <= sqrt (ip S u u * ip S w w).
Proof. exact (gram_schwarz_abs S (fun x : vec S => x) u w). Qed.

(* ---- electron repulsion: a four-index array that is a Gram matrix over index pairs ---- *)
Section Pair.
Variable S : ipspace.               (* the Coulomb (semi-)inner product on charge distributions *)
Context {I : Type}.
Variable w : I -> I -> vec S.       (* the product density phi_a phi_b *)

Definition eri (a b c d : I) : R := ip S (w a b) (w c d).
Definition eri_mat : (I * I) -> (I * I) -> R := fun p q => eri (fst p) (snd p) (fst q) (snd q).

Theorem eri_pair_psd : psd eri_mat.
Proof. exact (gram_psd S (fun p : I * I => w (fst p) (snd p))). Qed.

Theorem eri_diag_nonneg a b : 0 <= eri a b a b.
Proof. apply ip_pos. Qed.

Theorem eri_schwarz a b c d : eri a b c d * eri a b c d <= eri a b a b * eri c d c d.
Proof. exact (gram_schwarz S (fun p : I * I => w (fst p) (snd p)) (a, b) (c, d)). Qed.

Theorem eri_schwarz_abs a b c d : Rabs (eri a b c d) <= sqrt (eri a b a b * eri c d c d).
Proof. exact (gram_schwarz_abs S (fun p : I * I => w (fst p) (snd p)) (a, b) (c, d)). Qed.

Theorem eri_pair_symm a b c d : eri a b c d = eri c d a b.
Proof. apply ip_sym. Qed.
End Pair.

(* ------------------------------------------------------------------------------------------ *)
(* a concrete space: R^2 with the dot product (the hypotheses of [ipspace] are satisfiable), and *)
(* a degenerate one: R^2 with the form x1*y1 (semi-definite: a non-zero vector of norm zero)     *)
(* ------------------------------------------------------------------------------------------ *)
Definition R2 : ipspace.
Proof.
  refine (mkIP (R * R) (fun u v => (fst u + fst v, snd u + snd v)) (fun c u => (c * fst u, c * snd u)) (0, 0)
               (fun u v => fst u * fst v + snd u * snd v) _ _ _ _ _); cbn [fst snd]; intros; try ring.
  nra.
Defined.

Definition R2semi : ipspace.
Proof.
  refine (mkIP (R * R) (fun u v => (fst u + fst v, snd u + snd v)) (fun c u => (c * fst u, c * snd u)) (0, 0)
               (fun u v => fst u * fst v) _ _ _ _ _); cbn [fst snd]; intros; try ring.
  nra.
Defined.

Example R2_schwarz_example : forall x1 y1 x2 y2 : R,
  (x1 * x2 + y1 * y2) * (x1 * x2 + y1 * y2) <= (x1 * x1 + y1 * y1) * (x2 * x2 + y2 * y2).
Proof. intros. exact (cauchy_schwarz R2 (x1, y1) (x2, y2)). Qed.

(* two vectors at 60 degrees, listed with a duplicate (a linearly dependent family): PSD *)
Example R2_gram_example : forall c0 c1 c2 : R,
  let fam := fun i : nat => match i with 0%nat => (1, 0) | 1%nat => (1 / 2, 1) | _ => (1, 0) end in
  0 <= qf (gram R2 fam) [(c0, 0%nat); (c1, 1%nat); (c2, 2%nat)].
Proof. intros. apply (gram_psd R2). Qed.

Example R2semi_degenerate : ip R2semi (0, 1) (0, 1) = 0 /\ (0, 1) <> vzero R2semi.
Proof. split; [cbn; ring|]. cbn. intros H. inversion H. lra. Qed.

Example unit_diag_satisfiable : gram R2 (fun i : bool => if i then (1, 0) else (3 / 5, 4 / 5)) true true = 1
  /\ gram R2 (fun i : bool => if i then (1, 0) else (3 / 5, 4 / 5)) false false = 1.
Proof. unfold gram. cbn. split; field. Qed.

(* the bound of [perturbation] is attained up to the factor it states: M = G - eps on the diagonal only
   would give - eps |c|^2; here a 1x1 instance showing the hypotheses are satisfiable *)
Example perturbation_example : forall c : R,
  - (INR 1 * (1 / 4) * (c * c + 0)) <= qf (fun _ _ : unit => 3 / 4) [(c, tt)].
Proof.
  intros c.
  exact (gram_perturbation R2 (fun _ : unit => (1, 0)) (fun _ _ => 3 / 4) (1 / 4) [(c, tt)]
           (fun _ _ => ltac:(unfold gram; cbn; rewrite Rabs_left; lra))).
Qed.

(* ------------------------------------------------------------------------------------------ *)
(* Model-level facts that ARE algebraic (any field): the one-dimensional primitive integrals the  *)
(* overlap and kinetic models are assembled from are symmetric under exchanging the two functions *)
(* ------------------------------------------------------------------------------------------ *)
From GB Require Import Model.MomentInt Proofs.MomentIntP.

Section Sym.
Context {F : Type} (K : Fops F) (Kf : is_field K).
Add Field KFg : Kf.
Local Open Scope F_scope.
Notation "0" := (f0 K) : F_scope.
Notation "1" := (f1 K) : F_scope.
Infix "+" := (fadd K) : F_scope.
Infix "*" := (fmul K) : F_scope.
Infix "-" := (fsub K) : F_scope.
Infix "/" := (fdiv K) : F_scope.
Notation "- x" := (fopp K x) : F_scope.

Variables (Ax Bx alpha beta : F).
Hypothesis Hp : psum K alpha beta <> 0.
Hypothesis H2 : 1 + 1 <> 0.

Lemma psum_comm : psum K beta alpha = psum K alpha beta.
Proof. unfold psum. ring. Qed.

Lemma base_symm : base K Bx Ax beta alpha = base K Ax Bx alpha beta.
Proof.
  unfold base. rewrite psum_comm. f_equal. f_equal. f_equal.
  unfold hmean. rewrite psum_comm. field. exact Hp.
Qed.

(* S_ab(i, j) = S_ba(j, i): the 1-D overlap primitive (prefactor x Gaussian moment) *)
Theorem overlap_prim_symm i j : Sfun K Bx Ax beta alpha j i = Sfun K Ax Bx alpha beta i j.
Proof.
  unfold Sfun. rewrite base_symm. f_equal.
  assert (Ev : 1 / twop K beta alpha = 1 / twop K alpha beta).
  { unfold twop. now rewrite psum_comm. }
  assert (Ea : PA K Bx Ax beta alpha = PB K Ax Bx alpha beta).
  { unfold PA, PB, Pw. rewrite psum_comm. unfold psum in *. field. exact Hp. }
  assert (Eb : PB K Bx Ax beta alpha = PA K Ax Bx alpha beta).
  { unfold PA, PB, Pw. rewrite psum_comm. unfold psum in *. field. exact Hp. }
  rewrite Ev, Ea, Eb. apply (T3_swap K Kf).
Qed.

(* second derivative: < d^2 a | b > (i, j) = < d^2 b | a > (j, i); with [ibp_iter] both equal
   < a | d^2 b >: the 1-D kinetic primitive is symmetric *)
Theorem kinetic_prim_symm i j :
  iterop (negA K beta) 2 (Sfun K Bx Ax beta alpha) j i
  = iterop (negA K alpha) 2 (Sfun K Ax Bx alpha beta) i j.
Proof.
  rewrite (ibp_iter K Kf Ax Bx alpha beta Hp H2 2 i j).
  cbn [iterop]. unfold negA, Bop. rewrite !overlap_prim_symm. ring.
Qed.
End Sym.

(* ------------------------------------------------------------------------------------------ *)
(* One centre, one exponent pair, one axis: the Gaussian moment functional E (variance v >= 0) is   *)
(* positive on squares, E(f f) >= 0 for EVERY polynomial f (every degree): the Hankel matrix           *)
(* (m_{i+j}) of the moments m_{2k} = (2k-1)!! v^k is positive semi-definite.  Proof: the identity        *)
(*     E(f g) = sum_k v^k / k! * E(f^(k)) * E(g^(k))                                                      *)
(* (induction on f with Stein's lemma), whose right-hand side is a sum of squares for g = f.             *)
(* Hence polynomials with <f, g> = E(f g) form an [ipspace]: for this case the bridge B3 is PROVED.      *)
(* Not proved: the three-dimensional (tensor-product) and the several-centre / several-exponent cases.   *)
(* ------------------------------------------------------------------------------------------ *)
Definition RKg : Fops R :=
  mkFops R 0 1 Rplus Rmult Rminus Ropp Rdiv Rinv (fun _ _ => true) (fun _ _ => true)
         PI sqrt exp ln (fun _ _ => 0) (fun x => x).

(* E(f * g) written through the functionals Eaux: sum_i f_i * E(y^i g) *)
Fixpoint hank (v : R) (n : nat) (f g : list R) : R :=
  match f with [] => 0 | c :: f' => c * Eaux RKg v n g + hank v (S n) f' g end.

Lemma RKg_field : is_field RKg.
Proof. exact Rfield. Qed.

Section Hankel.
Variable v : R.
Notation Ea := (Eaux RKg v).
Notation D := (pderiv RKg).
Notation sh := (pshift RKg).
Notation pad := (padd RKg).

Lemma ofnat_INR k : ofnat RKg k = INR k.
Proof.
  induction k as [|k IH]; [reflexivity|]. rewrite S_INR. cbn [ofnat]. rewrite IH.
  change (fadd RKg (f1 RKg) (INR k)) with (1 + INR k). ring.
Qed.

Fixpoint Dk (k : nat) (f : list R) : list R :=
  match k with O => f | S k' => Dk k' (D f) end.

Lemma Dk_nil k : Dk k [] = [].
Proof. induction k as [|k IH]; [reflexivity|]. cbn [Dk]. exact IH. Qed.

Lemma Dk_padd k f g : Dk k (pad f g) = pad (Dk k f) (Dk k g).
Proof.
  revert f g. induction k as [|k IH]; intros f g; [reflexivity|].
  cbn [Dk]. rewrite (pderiv_padd RKg RKg_field). apply IH.
Qed.

Lemma Dk_comm k f : Dk k (D f) = D (Dk k f).
Proof. revert f. induction k as [|k IH]; intros f; [reflexivity|]. cbn [Dk]. apply IH. Qed.

Lemma pderiv_aux_S k g : pderiv_aux RKg (S k) g = pad g (pderiv_aux RKg k g).
Proof.
  revert k. induction g as [|a g IH]; intros k; [reflexivity|].
  cbn [pderiv_aux padd]. rewrite IH. f_equal.
  cbn [ofnat]. change (fmul RKg (fadd RKg (f1 RKg) (ofnat RKg k)) a = fadd RKg a (fmul RKg (ofnat RKg k) a)).
  cbn [fmul fadd f1 RKg]. ring.
Qed.

(* D (y g) = g + y D g, as lists, for a non-empty list *)
Lemma D_shift_cons a g : D (sh (a :: g)) = pad (a :: g) (sh (D (a :: g))).
Proof.
  unfold pshift, pderiv. cbn [pderiv_aux padd]. f_equal.
  - cbn [ofnat]. cbn [fmul fadd f1 f0 RKg]. ring.
  - apply pderiv_aux_S.
Qed.

Lemma length_pderiv_aux k f : length (pderiv_aux RKg k f) = length f.
Proof. revert k. induction f as [|a f IH]; intros k; [reflexivity|]. cbn [pderiv_aux length]. now rewrite IH. Qed.

Lemma length_D f : length (D f) = (length f - 1)%nat.
Proof. destruct f as [|a f]; [reflexivity|]. cbn [pderiv length]. rewrite length_pderiv_aux. lia. Qed.

Lemma length_Dk k f : length (Dk k f) = (length f - k)%nat.
Proof.
  revert f. induction k as [|k IH]; intros f; cbn [Dk]; [lia|]. rewrite IH, length_D. lia.
Qed.

Lemma Dk_vanish k f n : (length f <= k)%nat -> Ea n (Dk k f) = 0.
Proof.
  intros H. assert (E : Dk k f = []).
  { apply length_zero_iff_nil. rewrite length_Dk. lia. }
  rewrite E. reflexivity.
Qed.

(* D^k (y g) = y D^k g + k D^(k-1) g, seen through every Eaux *)
Lemma Dk_shift k : forall g n,
  Ea n (Dk k (sh g)) = Ea (S n) (Dk k g) + INR k * Ea n (Dk (k - 1) g).
Proof.
  induction k as [|k IH]; intros g n.
  - cbn [Dk INR]. rewrite (Eaux_pshift RKg RKg_field). ring.
  - cbn [Dk]. destruct g as [|a g].
    + change (D (sh [])) with (@nil R). change (D []) with (@nil R). rewrite !Dk_nil. cbn [Eaux].
      change (f0 RKg) with 0. ring.
    + rewrite D_shift_cons, Dk_padd, (Eaux_padd RKg RKg_field), IH.
      change (fadd RKg ?x ?y) with (x + y).
      replace (S k - 1)%nat with k by lia.
      destruct k as [|k'].
      * cbn [INR Dk]. ring.
      * replace (S k' - 1)%nat with k' by lia. cbn [Dk]. rewrite !S_INR. ring.
Qed.

Definition ek (k : nat) (f : list R) : R := Ea 0 (Dk k f).

Lemma ek_shift k g : ek k (sh g) = v * ek (S k) g + INR k * ek (k - 1) g.
Proof.
  unfold ek. rewrite Dk_shift. f_equal.
  rewrite <- (Eaux_pshift RKg RKg_field).
  change (Ea 0 (sh (Dk k g))) with (E RKg v (sh (Dk k g))).
  rewrite (stein RKg RKg_field). cbn [Dk]. rewrite Dk_comm. reflexivity.
Qed.

Lemma ek_cons k c h : ek k (c :: h) = (match k with O => c | _ => 0 end) + ek k (sh h).
Proof.
  unfold ek. destruct k as [|k].
  - cbn [Dk]. unfold pshift. cbn [Eaux]. rewrite (mom_0 RKg).
    change (fadd RKg ?x ?y) with (x + y). change (fmul RKg ?x ?y) with (x * y).
    change (f0 RKg) with 0. change (f1 RKg) with 1. ring.
  - cbn [Dk]. change (D (c :: h)) with (D (sh h)). ring.
Qed.

Lemma ek_vanish k f : (length f <= k)%nat -> ek k f = 0.
Proof. apply Dk_vanish. Qed.

(* ---- the Hankel form ---- *)
Lemma hank_shift_r n f g : hank v n f (sh g) = hank v (S n) f g.
Proof.
  revert n. induction f as [|c f IH]; intros n; cbn [hank]; [reflexivity|].
  rewrite IH, (Eaux_pshift RKg RKg_field). reflexivity.
Qed.

(* weights v^k / k! *)
Fixpoint wk (k : nat) : R := match k with O => 1 | S k' => wk k' * v / INR (S k') end.

Lemma wk_S k : INR (S k) * wk (S k) = v * wk k.
Proof. cbn [wk]. field. apply not_0_INR. lia. Qed.

Fixpoint rsumn (n : nat) (f : nat -> R) : R := match n with O => 0 | S n' => rsumn n' f + f n' end.

Lemma rsumn_ext n f g : (forall k, (k < n)%nat -> f k = g k) -> rsumn n f = rsumn n g.
Proof. induction n as [|n IH]; intros H; cbn [rsumn]; [reflexivity|]. rewrite IH by (intros; apply H; lia). rewrite H by lia. reflexivity. Qed.

(* the exchange lemma on sequences *)
Lemma exchange (a b : nat -> R) N :
  rsumn (S N) (fun k => wk k * (v * a (S k) + INR k * a (k - 1)%nat) * b k)
  - rsumn (S N) (fun k => wk k * a k * (v * b (S k) + INR k * b (k - 1)%nat))
  = v * wk N * (a (S N) * b N - a N * b (S N)).
Proof.
  induction N as [|N IH].
  - cbn [rsumn INR wk Nat.sub]. ring.
  - cbn [rsumn] in *. replace (S N - 1)%nat with N by lia.
    pose proof (wk_S N) as HW.
    generalize dependent (rsumn N (fun k => wk k * (v * a (S k) + INR k * a (k - 1)%nat) * b k)).
    generalize dependent (rsumn N (fun k => wk k * a k * (v * b (S k) + INR k * b (k - 1)%nat))).
    intros s1 s2 IH.
    (* INR (S N) * wk (S N) = v * wk N *)
    assert (E1 : wk (S N) * (INR (S N) * a N) * b (S N) = v * wk N * a N * b (S N)).
    { transitivity ((INR (S N) * wk (S N)) * a N * b (S N)); [ring|]. rewrite HW. ring. }
    assert (E2 : wk (S N) * a (S N) * (INR (S N) * b N) = v * wk N * a (S N) * b N).
    { transitivity ((INR (S N) * wk (S N)) * a (S N) * b N); [ring|]. rewrite HW. ring. }
    nra.
Qed.

Theorem hank_identity f : forall g N, (length f <= N)%nat ->
  hank v 0 f g = rsumn (S N) (fun k => wk k * ek k f * ek k g).
Proof.
  induction f as [|c h IH]; intros g N HN.
  - cbn [hank]. symmetry. transitivity (rsumn (S N) (fun _ => 0)).
    + apply rsumn_ext. intros k _. unfold ek. rewrite Dk_nil. cbn [Eaux]. change (f0 RKg) with 0. ring.
    + clear. induction (S N) as [|n IH]; cbn [rsumn]; [reflexivity|]. rewrite IH. ring.
  - cbn [hank]. rewrite <- hank_shift_r. rewrite (IH (sh g) N) by (cbn [length] in HN; lia).
    pose proof (exchange (fun k => ek k h) (fun k => ek k g) N) as EX. cbn beta in EX.
    rewrite (ek_vanish (S N) h) in EX by (cbn [length] in HN; lia).
    rewrite (ek_vanish N h) in EX by (cbn [length] in HN; lia).
    (* rewrite both sums into the exchange form *)
    assert (S1 : rsumn (S N) (fun k => wk k * ek k h * ek k (sh g))
                 = rsumn (S N) (fun k => wk k * ek k h * (v * ek (S k) g + INR k * ek (k - 1) g))).
    { apply rsumn_ext. intros k _. now rewrite ek_shift. }
    assert (S2 : rsumn (S N) (fun k => wk k * ek k (c :: h) * ek k g)
                 = c * ek 0 g + rsumn (S N) (fun k => wk k * (v * ek (S k) h + INR k * ek (k - 1) h) * ek k g)).
    { clear. induction N as [|N IHN].
      - cbn [rsumn]. rewrite ek_cons, ek_shift. cbn [wk]. ring.
      - cbn [rsumn] in *. rewrite IHN. rewrite (ek_cons (S N)), ek_shift. ring. }
    rewrite S1, S2. change (Ea 0 g) with (ek 0 g).
    replace (v * wk N * (0 * ek N g - 0 * ek (S N) g)) with 0 in EX by ring. lra.
Qed.

Lemma wk_nonneg k : 0 <= v -> 0 <= wk k.
Proof.
  intros Hv. induction k as [|k IH]; cbn [wk]; [lra|].
  apply Rmult_le_pos; [nra|]. left. apply Rinv_0_lt_compat. apply lt_0_INR. lia.
Qed.

Theorem hankel_psd f : 0 <= v -> 0 <= hank v 0 f f.
Proof.
  intros Hv. rewrite (hank_identity f f (length f)) by lia.
  induction (S (length f)) as [|n IH]; cbn [rsumn]; [lra|].
  pose proof (wk_nonneg n Hv). pose proof (Rle_0_sqr (ek n f)) as Hs. unfold Rsqr in Hs. nra.
Qed.
End Hankel.

(* ---- polynomials with the form E(f g) are a semi-inner-product space: bridge B3 PROVED for one
        axis, one centre, one exponent pair ---- *)
Section PolySpace.
Variable v : R.
Hypothesis Hv : 0 <= v.

Lemma hank_sym f g : hank v 0 f g = hank v 0 g f.
Proof.
  rewrite (hank_identity v f g (Nat.max (length f) (length g))) by lia.
  rewrite (hank_identity v g f (Nat.max (length f) (length g))) by lia.
  apply rsumn_ext. intros k _. ring.
Qed.

Lemma hank_add_l n f g h : hank v n (padd RKg f g) h = hank v n f h + hank v n g h.
Proof.
  revert n g. induction f as [|a f IH]; intros n g; cbn [padd hank]; [ring|].
  destruct g as [|b g]; cbn [padd hank]; [ring|]. rewrite IH.
  change (fadd RKg a b) with (a + b). ring.
Qed.

Lemma hank_scal_l n c f h : hank v n (pscale RKg c f) h = c * hank v n f h.
Proof.
  revert n. induction f as [|a f IH]; intros n; cbn [pscale map hank]; [ring|].
  fold (pscale RKg c f). rewrite IH. change (fmul RKg c a) with (c * a). ring.
Qed.

Definition poly_space : ipspace :=
  mkIP (list R) (padd RKg) (pscale RKg) [] (hank v 0)
       hank_sym (hank_add_l 0) (hank_scal_l 0) (fun _ => eq_refl) (fun f => hankel_psd v f Hv).

(* the "overlap matrix" of any family of polynomials under the Gaussian moment functional *)
Theorem one_centre_gram_psd {I : Type} (fam : I -> list R) : psd (fun a b => hank v 0 (fam a) (fam b)).
Proof. exact (gram_psd poly_space fam). Qed.

Theorem one_centre_schwarz f g : hank v 0 f g * hank v 0 f g <= hank v 0 f f * hank v 0 g g.
Proof. exact (cauchy_schwarz poly_space f g). Qed.
End PolySpace.

(* the moments of the standard normal law (v = 1): 1, 0, 1, 0, 3;  E((1 + y)^2) = 2 *)
Example hank_example : hank 1 0 [1; 1] [1; 1] = 2 /\ hank 1 0 [0; 0; 1] [0; 0; 1] = 3.
Proof. unfold hank, Eaux, mom. cbn [mom2 fst snd ofnat RKg f0 f1 fadd fmul]. split; ring. Qed.

(* ------------------------------------------------------------------------------------------ *)
(* The whole property, with the analytic bridge B3 as an explicit HYPOTHESIS: if the four arrays  *)
(* are Gram matrices (of the basis functions in L2, of their gradients, of the basis functions    *)
(* under the weight q/|r-C|, of the pair densities under the Coulomb form) then every bound the    *)
(* property states holds.                                                                          *)
(* ------------------------------------------------------------------------------------------ *)
Lemma psd_ext {I} (G M : I -> I -> R) : (forall a b, G a b = M a b) -> psd M -> psd G.
Proof. intros H HM l. rewrite (qf_ext G M l H). apply HM. Qed.

Theorem all_bounds_from_B3 (I : Type) (Sm Tm Vm : I -> I -> R) (G : I -> I -> I -> I -> R) (q : R) :
  0 <= q ->
  (exists (L2 : ipspace) (phi : I -> vec L2), forall a b, Sm a b = ip L2 (phi a) (phi b)) ->
  (exists (H1 : ipspace) (dphi : I -> vec H1), forall a b, Tm a b = ip H1 (dphi a) (dphi b)) ->
  (exists (W : ipspace) (phi : I -> vec W), forall a b, Vm a b = - q * ip W (phi a) (phi b)) ->
  (exists (C : ipspace) (rho : I -> I -> vec C), forall a b c d, G a b c d = ip C (rho a b) (rho c d)) ->
  (forall a, Sm a a = 1) ->
  symm Sm /\ psd Sm /\ (forall a b, Rabs (Sm a b) <= 1) /\
  symm Tm /\ psd Tm /\
  symm Vm /\ nsd Vm /\
  psd (fun p r : I * I => G (fst p) (snd p) (fst r) (snd r)) /\
  (forall a b c d, G a b c d = G c d a b) /\
  (forall a b, 0 <= G a b a b) /\
  (forall a b c d, G a b c d * G a b c d <= G a b a b * G c d c d).
Proof.
  intros Hq [L2 [phi HS]] [H1 [dphi HT]] [W [wphi HV]] [C [rho HG]] Hdiag.
  assert (Ssym : symm Sm) by (intros a b; rewrite !HS; apply ip_sym).
  assert (Spsd : psd Sm) by (apply (psd_ext Sm (gram L2 phi)); [exact HS | apply gram_psd]).
  repeat split.
  - exact Ssym.
  - exact Spsd.
  - intros a b. apply psd_unit_diag_bound; auto.
  - intros a b. rewrite !HT. apply ip_sym.
  - apply (psd_ext Tm (gram H1 dphi)); [exact HT | apply gram_psd].
  - intros a b. rewrite !HV. f_equal. apply ip_sym.
  - intros l. rewrite (qf_ext Vm (fun a b => - q * gram W wphi a b) l HV). apply neg_charge_nsd. exact Hq.
  - apply (psd_ext _ (eri_mat C rho)); [intros p r; apply HG | apply eri_pair_psd].
  - intros a b c d. rewrite !HG. apply ip_sym.
  - intros a b. rewrite HG. apply ip_pos.
  - intros a b c d. rewrite !HG. apply (eri_schwarz C rho).
Qed.

(* the hypotheses are jointly satisfiable: one function, all four arrays from R^2 *)
Example all_bounds_hypotheses_satisfiable :
  exists (Sm Tm Vm : unit -> unit -> R) (G : unit -> unit -> unit -> unit -> R),
  (exists (L2 : ipspace) (phi : unit -> vec L2), forall a b, Sm a b = ip L2 (phi a) (phi b)) /\
  (exists (H1 : ipspace) (dphi : unit -> vec H1), forall a b, Tm a b = ip H1 (dphi a) (dphi b)) /\
  (exists (W : ipspace) (phi : unit -> vec W), forall a b, Vm a b = - 2 * ip W (phi a) (phi b)) /\
  (exists (C : ipspace) (rho : unit -> unit -> vec C), forall a b c d, G a b c d = ip C (rho a b) (rho c d)) /\
  (forall a, Sm a a = 1).
Proof.
  exists (fun _ _ => 1), (fun _ _ => 4), (fun _ _ => -2), (fun _ _ _ _ => 1).
  repeat split.
  - exists R2, (fun _ => (1, 0)). intros. cbn. ring.
  - exists R2, (fun _ => (0, 2)). intros. cbn. ring.
  - exists R2, (fun _ => (1, 0)). intros. cbn. ring.
  - exists R2, (fun _ _ => (1, 0)). intros. cbn. ring.
Qed.
