(* Proofs/GramP.v — Gram matrices of a real (semi-)inner-product space (property C17).

   Setting: an ABSTRACT real semi-inner-product space [ipspace]: a type of vectors with addition,
   scaling and zero, and a form [ip] that is symmetric, additive and homogeneous in its first
   argument, vanishes on the zero vector and satisfies [0 <= ip v v].  Nothing else is assumed
   (no definiteness, no dimension, no vector-space laws on the carrier).

   What is proved (all over R, for every space, every family of vectors, every coefficient list):
     gram_psd            the quadratic form of a Gram matrix is >= 0
     psd_schwarz         G_ab^2 <= G_aa G_bb for every symmetric PSD matrix (discriminant argument)
     cauchy_schwarz      ip(u,v)^2 <= ip(u,u) ip(v,v);  abs form with sqrt;  unit diagonal => |G_ab| <= 1
     eri_pair_*          the same for a four-index array that is a Gram matrix over index PAIRS
     neg_charge_nsd      -q * G is negative semi-definite for q >= 0
     perturbation        |M_ab - G_ab| <= eps, G PSD  =>  c^T M c >= - n eps |c|^2
     hankel3_psd_partial the one-centre moment functional is positive on squares up to degree 3
   plus the symmetry of the one-dimensional overlap and second-derivative (kinetic) primitives
   under exchange of the two functions (section Sym, generic field).

   What is NOT proved here (analytic bridge B3 of DESIGN.md 2.6): that the L2 form
   int f g and the Coulomb form iint f(1) g(2) / r12 and the weighted form int f g / |r - C|
   ARE such semi-inner products on the span of the basis functions.  For functions on different
   centres this is a statement about integrals of positive kernels, not an algebraic consequence of
   the moment functional [E]. *)
From Coq Require Import List Arith Lia Reals Lra Psatz.
From GB Require Import Base.Field Base.Tables Gauss.Moment1D Proofs.DiffOpP.
Import ListNotations.
Local Open Scope R_scope.

(* ------------------------------------------------------------------------------------------ *)
(* finite sums of reals over lists                                                             *)
(* ------------------------------------------------------------------------------------------ *)
Fixpoint rsum (l : list R) : R := match l with [] => 0 | x :: r => x + rsum r end.

Lemma rsum_map_add {A} (f g : A -> R) l :
  rsum (map (fun x => f x + g x) l) = rsum (map f l) + rsum (map g l).
Proof. induction l as [|a l IH]; cbn [map rsum]; [lra|]. rewrite IH. lra. Qed.

Lemma rsum_map_scal {A} (c : R) (f : A -> R) l :
  rsum (map (fun x => c * f x) l) = c * rsum (map f l).
Proof. induction l as [|a l IH]; cbn [map rsum]; [lra|]. rewrite IH. lra. Qed.

Lemma rsum_map_ext {A} (f g : A -> R) l :
  (forall x, f x = g x) -> rsum (map f l) = rsum (map g l).
Proof. intros H. induction l as [|a l IH]; cbn [map rsum]; [reflexivity|]. now rewrite H, IH. Qed.

Lemma rsum_map_le {A} (f g : A -> R) l :
  (forall x, f x <= g x) -> rsum (map f l) <= rsum (map g l).
Proof. intros H. induction l as [|a l IH]; cbn [map rsum]; [lra|]. pose proof (H a). lra. Qed.

Lemma rsum_map_nonneg {A} (f : A -> R) l : (forall x, 0 <= f x) -> 0 <= rsum (map f l).
Proof. intros H. induction l as [|a l IH]; cbn [map rsum]; [lra|]. pose proof (H a). lra. Qed.

(* ------------------------------------------------------------------------------------------ *)
(* quadratic forms of matrices indexed by an arbitrary type I                                  *)
(* ------------------------------------------------------------------------------------------ *)
Section QF.
Context {I : Type}.
Implicit Types (G M : I -> I -> R) (l : list (R * I)).

(* sum_{(c,a) in l} sum_{(d,b) in l} c d G a b : the vector "sum_a c_a e_a" may list an index more
   than once (then the coefficients add up), so every finitely supported coefficient vector occurs *)
Definition qf G l : R :=
  rsum (map (fun p => rsum (map (fun q => fst p * fst q * G (snd p) (snd q)) l)) l).

Definition psd G : Prop := forall l, 0 <= qf G l.
Definition nsd G : Prop := forall l, qf G l <= 0.
Definition symm G : Prop := forall a b, G a b = G b a.

Definition sum_abs l : R := rsum (map (fun p => Rabs (fst p)) l).
Definition sum_sq l : R := rsum (map (fun p => fst p * fst p) l).

Lemma qf_add G M l : qf (fun a b => G a b + M a b) l = qf G l + qf M l.
Proof.
  unfold qf. rewrite <- rsum_map_add. apply rsum_map_ext. intros p.
  rewrite <- rsum_map_add. apply rsum_map_ext. intros q. ring.
Qed.

Lemma qf_scal k G l : qf (fun a b => k * G a b) l = k * qf G l.
Proof.
  unfold qf. rewrite <- rsum_map_scal. apply rsum_map_ext. intros p.
  rewrite <- rsum_map_scal. apply rsum_map_ext. intros q. ring.
Qed.

Lemma qf_ext G M l : (forall a b, G a b = M a b) -> qf G l = qf M l.
Proof.
  intros H. unfold qf. apply rsum_map_ext. intros p. apply rsum_map_ext. intros q. now rewrite H.
Qed.

(* two-element coefficient vectors *)
Lemma qf_two G x a y b :
  qf G [(x, a); (y, b)] = x * x * G a a + x * y * G a b + y * x * G b a + y * y * G b b.
Proof. unfold qf. cbn [map rsum fst snd]. ring. Qed.

Lemma qf_one G x a : qf G [(x, a)] = x * x * G a a.
Proof. unfold qf. cbn [map rsum fst snd]. ring. Qed.

Lemma psd_diag G a : psd G -> 0 <= G a a.
Proof. intros H. pose proof (H [(1, a)]) as H1. rewrite qf_one in H1. lra. Qed.

(* the discriminant argument without division *)
Lemma psd_schwarz G a b : symm G -> psd G -> G a b * G a b <= G a a * G b b.
Proof.
  intros Hs Hp.
  pose proof (psd_diag G a Hp) as Ha. pose proof (psd_diag G b Hp) as Hb.
  pose proof (Hs b a) as Hba.
  pose proof (Hp [(G b b, a); (- G a b, b)]) as H1. rewrite qf_two, Hba in H1.
  pose proof (Hp [(G a b, a); (- G a a, b)]) as H2. rewrite qf_two, Hba in H2.
  pose proof (Hp [(1, a); (- G a b, b)]) as H3. rewrite qf_two, Hba in H3.
  generalize dependent (G a b). generalize dependent (G a a). generalize dependent (G b b).
  intros B Hb A Ha X _ H1 H2 H3.
  (* H1 : B (A B - X^2) >= 0,  H2 : A (A B - X^2) >= 0,  H3 : A - 2 X^2 + X^2 B >= 0 *)
  destruct (Rlt_le_dec 0 B) as [HB|HB].
  - assert (0 <= B * (A * B - X * X)) by lra. nra.
  - assert (B = 0) by lra. subst B.
    destruct (Rlt_le_dec 0 A) as [HA|HA].
    + assert (0 <= A * (A * 0 - X * X)) by lra. nra.
    + assert (A = 0) by lra. subst A. nra.
Qed.

Lemma psd_schwarz_abs G a b : symm G -> psd G -> Rabs (G a b) <= sqrt (G a a * G b b).
Proof.
  intros Hs Hp. pose proof (psd_schwarz G a b Hs Hp) as H.
  rewrite <- sqrt_Rsqr_abs. apply sqrt_le_1_alt. exact H.
Qed.

Lemma psd_unit_diag_bound G a b : symm G -> psd G -> G a a = 1 -> G b b = 1 -> Rabs (G a b) <= 1.
Proof.
  intros Hs Hp Ha Hb. pose proof (psd_schwarz_abs G a b Hs Hp) as H.
  rewrite Ha, Hb, Rmult_1_r, sqrt_1 in H. exact H.
Qed.

(* negative semidefiniteness of -q G *)
Lemma neg_scal_nsd G q : 0 <= q -> psd G -> nsd (fun a b => - q * G a b).
Proof. intros Hq Hp l. rewrite qf_scal. pose proof (Hp l). nra. Qed.

(* ---- perturbation: a matrix within eps of a PSD matrix ---- *)
Lemma rsum_abs_bound (D : I -> I -> R) eps l (x : R) (a : I) :
  (forall a b, Rabs (D a b) <= eps) ->
  Rabs (rsum (map (fun q => x * fst q * D a (snd q)) l)) <= eps * (Rabs x * sum_abs l).
Proof.
  intros HD. unfold sum_abs. induction l as [|q l IH]; cbn [map rsum].
  - rewrite Rabs_R0. lra.
  - eapply Rle_trans; [apply Rabs_triang|].
    assert (Rabs (x * fst q * D a (snd q)) <= eps * (Rabs x * Rabs (fst q))).
    { rewrite !Rabs_mult. pose proof (HD a (snd q)). pose proof (Rabs_pos x). pose proof (Rabs_pos (fst q)).
      pose proof (Rabs_pos (D a (snd q))).
      assert (0 <= Rabs x * Rabs (fst q)) by nra. nra. }
    nra.
Qed.

Lemma qf_abs_bound (D : I -> I -> R) eps l :
  (forall a b, Rabs (D a b) <= eps) -> Rabs (qf D l) <= eps * (sum_abs l * sum_abs l).
Proof.
  intros HD. unfold qf.
  assert (Hgen : forall l0 : list (R * I),
    Rabs (rsum (map (fun p => rsum (map (fun q => fst p * fst q * D (snd p) (snd q)) l)) l0))
    <= eps * (sum_abs l0 * sum_abs l)).
  { induction l0 as [|p l0 IH]; cbn [map rsum].
    - unfold sum_abs at 1. cbn [map rsum]. rewrite Rabs_R0. lra.
    - eapply Rle_trans; [apply Rabs_triang|].
      pose proof (rsum_abs_bound D eps l (fst p) (snd p) HD) as H1.
      unfold sum_abs at 1. cbn [map rsum]. fold (sum_abs l0). nra. }
  apply Hgen.
Qed.

(* (sum |c|)^2 <= n sum c^2, via  2 x sum|c| <= n x^2 + sum c^2 *)
Lemma two_x_sum_abs l x : 2 * x * sum_abs l <= INR (length l) * (x * x) + sum_sq l.
Proof.
  unfold sum_abs, sum_sq. induction l as [|p l IH].
  - cbn [map rsum length INR]. nra.
  - cbn [map rsum]. replace (length (p :: l)) with (S (length l)) by reflexivity. rewrite S_INR.
    assert (2 * x * Rabs (fst p) <= x * x + fst p * fst p).
    { pose proof (Rle_0_sqr (x - Rabs (fst p))) as H. unfold Rsqr in H.
      assert (Rabs (fst p) * Rabs (fst p) = fst p * fst p).
      { rewrite <- Rabs_mult. apply Rabs_pos_eq. apply Rle_0_sqr. }
      nra. }
    nra.
Qed.

Lemma sum_abs_sq_bound l : sum_abs l * sum_abs l <= INR (length l) * sum_sq l.
Proof.
  induction l as [|p l IH].
  - unfold sum_abs, sum_sq. cbn [map rsum length INR]. lra.
  - pose proof (two_x_sum_abs l (Rabs (fst p))) as H2.
    assert (Hsq : Rabs (fst p) * Rabs (fst p) = fst p * fst p).
    { rewrite <- Rabs_mult. apply Rabs_pos_eq. apply Rle_0_sqr. }
    replace (length (p :: l)) with (S (length l)) by reflexivity. rewrite S_INR.
    unfold sum_abs, sum_sq in *. cbn [map rsum].
    set (s := rsum (map (fun p0 : R * I => Rabs (fst p0)) l)) in *.
    set (q := rsum (map (fun p0 : R * I => fst p0 * fst p0) l)) in *.
    set (n := INR (length l)) in *.
    assert (0 <= q) by (apply rsum_map_nonneg; intros; apply Rle_0_sqr).
    assert (0 <= n) by apply pos_INR.
    generalize dependent (Rabs (fst p)). intros x H2 Hsq. rewrite <- Hsq. nra.
Qed.

Theorem perturbation G M eps l :
  psd G -> (forall a b, Rabs (M a b - G a b) <= eps) ->
  - (INR (length l) * eps * sum_sq l) <= qf M l.
Proof.
  intros Hp HD.
  assert (E : qf M l = qf G l + qf (fun a b => M a b - G a b) l).
  { rewrite <- qf_add. apply qf_ext. intros; ring. }
  pose proof (qf_abs_bound (fun a b => M a b - G a b) eps l HD) as HB.
  pose proof (sum_abs_sq_bound l) as HS.
  pose proof (Hp l) as H0.
  destruct l as [|p l'].
  - unfold qf, sum_sq. cbn [map rsum length INR]. lra.
  - assert (0 <= eps).
    { pose proof (HD (snd p) (snd p)) as Hx.
      pose proof (Rabs_pos (M (snd p) (snd p) - G (snd p) (snd p))). lra. }
    set (l := p :: l') in *.
    assert (0 <= sum_sq l) by (apply rsum_map_nonneg; intros; apply Rle_0_sqr).
    pose proof (Rle_abs (- qf (fun a b => M a b - G a b) l)) as Hab. rewrite Rabs_Ropp in Hab.
    nra.
Qed.

End QF.

(* ------------------------------------------------------------------------------------------ *)
(* abstract real semi-inner-product spaces                                                     *)
(* ------------------------------------------------------------------------------------------ *)
Record ipspace := mkIP {
  vec : Type;
  vadd : vec -> vec -> vec;
  vscal : R -> vec -> vec;
  vzero : vec;
  ip : vec -> vec -> R;
  ip_sym : forall u v, ip u v = ip v u;
  ip_add_l : forall u v w, ip (vadd u v) w = ip u w + ip v w;
  ip_scal_l : forall c u w, ip (vscal c u) w = c * ip u w;
  ip_zero_l : forall w, ip vzero w = 0;
  ip_pos : forall v, 0 <= ip v v
}.

Section Gram.
Variable S : ipspace.
Context {I : Type}.
Variable v : I -> vec S.          (* the family of vectors (basis functions) *)

Definition gram : I -> I -> R := fun a b => ip S (v a) (v b).

(* sum_a c_a v_a *)
Fixpoint lincomb (l : list (R * I)) : vec S :=
  match l with [] => vzero S | p :: r => vadd S (vscal S (fst p) (v (snd p))) (lincomb r) end.

Lemma ip_lincomb_l l w : ip S (lincomb l) w = rsum (map (fun p => fst p * ip S (v (snd p)) w) l).
Proof.
  induction l as [|p l IH]; cbn [lincomb map rsum].
  - apply ip_zero_l.
  - now rewrite ip_add_l, ip_scal_l, IH.
Qed.

Lemma ip_lincomb_r l w : ip S w (lincomb l) = rsum (map (fun p => fst p * ip S w (v (snd p))) l).
Proof.
  rewrite ip_sym, ip_lincomb_l. apply rsum_map_ext. intros p. now rewrite ip_sym.
Qed.

Lemma qf_gram_is_norm l : qf gram l = ip S (lincomb l) (lincomb l).
Proof.
  rewrite ip_lincomb_l. unfold qf. apply rsum_map_ext. intros p.
  rewrite ip_lincomb_r, <- rsum_map_scal. apply rsum_map_ext. intros q. unfold gram. ring.
Qed.

Theorem gram_psd : psd gram.
Proof. intros l. rewrite qf_gram_is_norm. apply ip_pos. Qed.

Lemma gram_symm : symm gram.
Proof. intros a b. apply ip_sym. Qed.

Theorem gram_schwarz a b : gram a b * gram a b <= gram a a * gram b b.
Proof. apply psd_schwarz; [exact gram_symm | exact gram_psd]. Qed.

Theorem gram_schwarz_abs a b : Rabs (gram a b) <= sqrt (gram a a * gram b b).
Proof. apply psd_schwarz_abs; [exact gram_symm | exact gram_psd]. Qed.

Theorem unit_diag_bound a b : gram a a = 1 -> gram b b = 1 -> Rabs (gram a b) <= 1.
Proof. apply psd_unit_diag_bound; [exact gram_symm | exact gram_psd]. Qed.

(* the point-charge matrix -q * <phi_a | 1/|r-C| | phi_b> of a charge q >= 0 *)
Theorem neg_charge_nsd q : 0 <= q -> nsd (fun a b => - q * gram a b).
Proof. intros Hq. apply neg_scal_nsd; [exact Hq | exact gram_psd]. Qed.

(* a computed matrix within eps of the Gram matrix: quadratic form >= - n eps |c|^2 *)
Theorem gram_perturbation (M : I -> I -> R) eps l :
  (forall a b, Rabs (M a b - gram a b) <= eps) -> - (INR (length l) * eps * sum_sq l) <= qf M l.
Proof. apply perturbation. exact gram_psd. Qed.
End Gram.

(* Cauchy-Schwarz for two vectors = the Gram statement for the identity family *)
Theorem cauchy_schwarz (S : ipspace) (u w : vec S) : ip S u w * ip S u w <= ip S u u * ip S w w.
Proof. exact (gram_schwarz S (fun x : vec S => x) u w). Qed.

Theorem cauchy_schwarz_abs (S : ipspace) (u w : vec S) : Rabs (ip S u w) <= sqrt (ip S u u * ip S w w).
Proof. exact (gram_schwarz_abs S (fun x : vec S => x) u w). Qed.

(* ---- electron repulsion: a four-index array that is a Gram matrix over index pairs ---- *)
Section Pair.
Variable S : ipspace.               (* the Coulomb (semi-)inner product on charge distributions *)
Context {I : Type}.
Variable w : I -> I -> vec S.       (* the product density phi_a phi_b *)

Definition eri (a b c d : I) : R := ip S (w a b) (w c d).
Definition eri_mat : (I * I) -> (I * I) -> R := fun p q => eri (fst p) (snd p) (fst q) (snd q).

Theorem eri_pair_psd : psd eri_mat.
Proof. exact (gram_psd S (fun p : I * I => w (fst p) (snd p))). Qed.

Theorem eri_diag_nonneg a b : 0 <= eri a b a b.
Proof. apply ip_pos. Qed.

Theorem eri_schwarz a b c d : eri a b c d * eri a b c d <= eri a b a b * eri c d c d.
Proof. exact (gram_schwarz S (fun p : I * I => w (fst p) (snd p)) (a, b) (c, d)). Qed.

Theorem eri_schwarz_abs a b c d : Rabs (eri a b c d) <= sqrt (eri a b a b * eri c d c d).
Proof. exact (gram_schwarz_abs S (fun p : I * I => w (fst p) (snd p)) (a, b) (c, d)). Qed.

Theorem eri_pair_symm a b c d : eri a b c d = eri c d a b.
Proof. apply ip_sym. Qed.
End Pair.

(* ------------------------------------------------------------------------------------------ *)
(* a concrete space: R^2 with the dot product (the hypotheses of [ipspace] are satisfiable), and *)
(* a degenerate one: R^2 with the form x1*y1 (semi-definite: a non-zero vector of norm zero)     *)
(* ------------------------------------------------------------------------------------------ *)
Definition R2 : ipspace.
Proof.
  refine (mkIP (R * R) (fun u v => (fst u + fst v, snd u + snd v)) (fun c u => (c * fst u, c * snd u)) (0, 0)
               (fun u v => fst u * fst v + snd u * snd v) _ _ _ _ _); cbn [fst snd]; intros; try ring.
  nra.
Defined.

Definition R2semi : ipspace.
Proof.
  refine (mkIP (R * R) (fun u v => (fst u + fst v, snd u + snd v)) (fun c u => (c * fst u, c * snd u)) (0, 0)
               (fun u v => fst u * fst v) _ _ _ _ _); cbn [fst snd]; intros; try ring.
  nra.
Defined.

Example R2_schwarz_example : forall x1 y1 x2 y2 : R,
  (x1 * x2 + y1 * y2) * (x1 * x2 + y1 * y2) <= (x1 * x1 + y1 * y1) * (x2 * x2 + y2 * y2).
Proof. intros. exact (cauchy_schwarz R2 (x1, y1) (x2, y2)). Qed.

(* two vectors at 60 degrees, listed with a duplicate (a linearly dependent family): PSD *)
Example R2_gram_example : forall c0 c1 c2 : R,
  let fam := fun i : nat => match i with 0%nat => (1, 0) | 1%nat => (1 / 2, 1) | _ => (1, 0) end in
  0 <= qf (gram R2 fam) [(c0, 0%nat); (c1, 1%nat); (c2, 2%nat)].
Proof. intros. apply (gram_psd R2). Qed.

Example R2semi_degenerate : ip R2semi (0, 1) (0, 1) = 0 /\ (0, 1) <> vzero R2semi.
Proof. split; [cbn; ring|]. cbn. intros H. inversion H. lra. Qed.

Example unit_diag_satisfiable : gram R2 (fun i : bool => if i then (1, 0) else (3 / 5, 4 / 5)) true true = 1
  /\ gram R2 (fun i : bool => if i then (1, 0) else (3 / 5, 4 / 5)) false false = 1.
Proof. unfold gram. cbn. split; field. Qed.

(* the bound of [perturbation] is attained up to the factor it states: M = G - eps on the diagonal only
   would give - eps |c|^2; here a 1x1 instance showing the hypotheses are satisfiable *)
Example perturbation_example : forall c : R,
  - (INR 1 * (1 / 4) * (c * c + 0)) <= qf (fun _ _ : unit => 3 / 4) [(c, tt)].
Proof.
  intros c.
  exact (gram_perturbation R2 (fun _ : unit => (1, 0)) (fun _ _ => 3 / 4) (1 / 4) [(c, tt)]
           (fun _ _ => ltac:(unfold gram; cbn; rewrite Rabs_left; lra))).
Qed.

(* ------------------------------------------------------------------------------------------ *)
(* Model-level facts that ARE algebraic (any field): the one-dimensional primitive integrals the  *)
(* overlap and kinetic models are assembled from are symmetric under exchanging the two functions *)
(* ------------------------------------------------------------------------------------------ *)
From GB Require Import Model.MomentInt Proofs.MomentIntP.

Section Sym.
Context {F : Type} (K : Fops F) (Kf : is_field K).
Add Field KFg : Kf.
Local Open Scope F_scope.
Notation "0" := (f0 K) : F_scope.
Notation "1" := (f1 K) : F_scope.
Infix "+" := (fadd K) : F_scope.
Infix "*" := (fmul K) : F_scope.
Infix "-" := (fsub K) : F_scope.
Infix "/" := (fdiv K) : F_scope.
Notation "- x" := (fopp K x) : F_scope.

Variables (Ax Bx alpha beta : F).
Hypothesis Hp : psum K alpha beta <> 0.
Hypothesis H2 : 1 + 1 <> 0.

Lemma psum_comm : psum K beta alpha = psum K alpha beta.
Proof. unfold psum. ring. Qed.

Lemma base_symm : base K Bx Ax beta alpha = base K Ax Bx alpha beta.
Proof.
  unfold base. rewrite psum_comm. f_equal. f_equal. f_equal.
  unfold hmean. rewrite psum_comm. field. exact Hp.
Qed.

(* S_ab(i, j) = S_ba(j, i): the 1-D overlap primitive (prefactor x Gaussian moment) *)
Theorem overlap_prim_symm i j : Sfun K Bx Ax beta alpha j i = Sfun K Ax Bx alpha beta i j.
Proof.
  unfold Sfun. rewrite base_symm. f_equal.
  assert (Ev : 1 / twop K beta alpha = 1 / twop K alpha beta).
  { unfold twop. now rewrite psum_comm. }
  assert (Ea : PA K Bx Ax beta alpha = PB K Ax Bx alpha beta).
  { unfold PA, PB, Pw. rewrite psum_comm. unfold psum in *. field. exact Hp. }
  assert (Eb : PB K Bx Ax beta alpha = PA K Ax Bx alpha beta).
  { unfold PA, PB, Pw. rewrite psum_comm. unfold psum in *. field. exact Hp. }
  rewrite Ev, Ea, Eb. apply (T3_swap K Kf).
Qed.

(* second derivative: < d^2 a | b > (i, j) = < d^2 b | a > (j, i); with [ibp_iter] both equal
   < a | d^2 b >: the 1-D kinetic primitive is symmetric *)
Theorem kinetic_prim_symm i j :
  iterop (negA K beta) 2 (Sfun K Bx Ax beta alpha) j i
  = iterop (negA K alpha) 2 (Sfun K Ax Bx alpha beta) i j.
Proof.
  rewrite (ibp_iter K Kf Ax Bx alpha beta Hp H2 2 i j).
  cbn [iterop]. unfold negA, Bop. rewrite !overlap_prim_symm. ring.
Qed.
End Sym.

(* ------------------------------------------------------------------------------------------ *)
(* One centre, one primitive pair: the Gaussian moment functional is positive on squares.         *)
(* PARTIAL: proved for polynomials of degree <= 3 (enough for one axis of two shells with          *)
(* l_a + l_b <= 3 sharing a centre); the statement for every degree (the Hankel matrix             *)
(* (m_{i+j}) of the moments m_{2k} = (2k-1)!! v^k is positive semi-definite) is not proved here.   *)
(* ------------------------------------------------------------------------------------------ *)
Definition RKg : Fops R :=
  mkFops R 0 1 Rplus Rmult Rminus Ropp Rdiv Rinv (fun _ _ => true) (fun _ _ => true)
         PI sqrt exp ln (fun _ _ => 0) (fun x => x).

(* E(f * g) written through the functionals Eaux: sum_i f_i * E(y^i g) *)
Fixpoint hank (v : R) (n : nat) (f g : list R) : R :=
  match f with [] => 0 | c :: f' => c * Eaux RKg v n g + hank v (S n) f' g end.

Theorem hankel3_psd_partial (v c0 c1 c2 c3 : R) :
  0 <= v -> 0 <= hank v 0 [c0; c1; c2; c3] [c0; c1; c2; c3].
Proof.
  intros Hv. unfold hank, Eaux, mom. cbn [mom2 fst snd ofnat RKg f0 f1 fadd fmul].
  assert (E : forall x, x = (c0 + c2 * v) * (c0 + c2 * v) + 2 * (v * v) * (c2 * c2)
                       + v * ((c1 + 3 * v * c3) * (c1 + 3 * v * c3)) + 6 * (v * v * v) * (c3 * c3) -> 0 <= x).
  { intros x ->. assert (0 <= v * v) by nra. assert (0 <= v * v * v) by nra.
    pose proof (Rle_0_sqr (c0 + c2 * v)) as A1. pose proof (Rle_0_sqr c2) as A2.
    pose proof (Rle_0_sqr (c1 + 3 * v * c3)) as A3. pose proof (Rle_0_sqr c3) as A4. unfold Rsqr in *.
    assert (0 <= 2 * (v * v) * (c2 * c2)) by nra.
    assert (0 <= v * ((c1 + 3 * v * c3) * (c1 + 3 * v * c3))) by nra.
    assert (0 <= 6 * (v * v * v) * (c3 * c3)) by nra. lra. }
  apply E. ring.
Qed.
