(* Proofs/DiagSphRealP.v — diag_one_sph over the reals (see the header of Proofs/DiagSphP.v): the rational
   orthonormality identity of Proofs/DiagSphCheckP.v transported along the ring homomorphism Q2R : Qc -> R, and
   the assembled statement with the real square root. *)
From Coq Require Import List Arith Lia Bool ZArith QArith Qcanon Qreals Reals Lra.
From GB Require Import Base.Field Base.FNum Base.Tables Model.Shell Model.MomentInt Model.Spherical Model.Overlap
  Proofs.CoreSumP Proofs.CoreBlockP Proofs.CoreNormP Proofs.ScreeningP Proofs.AssembledP Proofs.AssembledOverlapP
  Proofs.AssembledRealP Proofs.AssembledSphP Proofs.AssembledSphOverlapP Proofs.DiagSphP Proofs.DiagSphCheckP.
Import ListNotations.

Lemma in_all_sm l sine m : valid_sm l sine m -> In (sine, m) (all_sm l).
Proof.
  intros [Hm Hs]. unfold all_sm. apply in_or_app. destruct sine.
  - right. apply in_map_iff. exists m. split; [reflexivity|]. apply in_seq. specialize (Hs eq_refl). lia.
  - left. apply in_map_iff. exists m. split; [reflexivity|]. apply in_seq. lia.
Qed.

Lemma qc_eqb_true x y : qc_eqb x y = true -> x = y.
Proof. intro H. apply Qc_is_canon. apply Qeq_bool_eq. exact H. Qed.

Lemma in_all_lsm l sine m : (l <= 10)%nat -> valid_sm l sine m -> In (l, (sine, m)) all_lsm.
Proof.
  intros Hl Hv. unfold all_lsm. apply in_flat_map. exists l. split; [apply in_seq; lia|].
  apply in_map_iff. exists (sine, m). split; [reflexivity|]. now apply in_all_sm.
Qed.

Lemma Eorth_Q_le10 l sine m : (l <= 10)%nat -> valid_sm l sine m -> Eorth QK l m sine = f1 QK.
Proof.
  intros Hl Hv. unfold Eorth. rewrite <- HGHf_eq. apply qc_eqb_true.
  exact (proj1 (forallb_forall _ _) check_orth_all (l, (sine, m)) (in_all_lsm l sine m Hl Hv)).
Qed.


(* ---- the ring homomorphism Qc -> R and the generic functions ---- *)
Local Open Scope R_scope.
Definition phi (q : Qc) : R := Q2R (this q).

Lemma phi_Q2Qcf q : phi (Q2Qcf q) = Q2R q.
Proof. unfold phi, Q2Qcf. cbn [this]. rewrite Qred_fast_eq. apply Qeq_eqR, Qred_correct. Qed.

Lemma phi_0 : phi (f0 QK) = 0.
Proof. unfold phi. cbn. unfold Q2R. cbn. lra. Qed.
Lemma phi_1 : phi (f1 QK) = 1.
Proof. unfold phi. cbn. unfold Q2R. cbn. lra. Qed.
Lemma phi_add a b : phi (fadd QK a b) = phi a + phi b.
Proof. cbn [fadd QK QcK]. unfold qc_add. rewrite phi_Q2Qcf. apply Q2R_plus. Qed.
Lemma phi_mul a b : phi (fmul QK a b) = phi a * phi b.
Proof. cbn [fmul QK QcK]. unfold qc_mul. rewrite phi_Q2Qcf. apply Q2R_mult. Qed.
Lemma phi_sub a b : phi (fsub QK a b) = phi a - phi b.
Proof. cbn [fsub QK QcK]. unfold qc_sub. rewrite phi_Q2Qcf. apply Q2R_minus. Qed.
Lemma phi_opp a : phi (fopp QK a) = - phi a.
Proof. cbn [fopp QK QcK]. unfold qc_opp. rewrite phi_Q2Qcf. apply Q2R_opp. Qed.
Lemma phi_div a b : phi b <> 0 -> phi (fdiv QK a b) = phi a / phi b.
Proof.
  intro Hb. cbn [fdiv QK QcK]. unfold qc_div. rewrite phi_Q2Qcf. apply Q2R_div.
  intro E0. apply Hb. unfold phi. rewrite (Qeq_eqR _ _ E0). unfold Q2R. cbn. lra.
Qed.

Lemma phi_ofnat n : phi (ofnat QK n) = ofnat RK n.
Proof.
  induction n as [|n IH]; cbn [ofnat]; [exact phi_0|]. rewrite phi_add, phi_1, IH. reflexivity.
Qed.
Lemma phi_fpow x n : phi (FNum.fpow QK x n) = FNum.fpow RK (phi x) n.
Proof. induction n as [|n IH]; cbn [FNum.fpow]; [exact phi_1|]. now rewrite phi_mul, IH. Qed.
Lemma phi_ffact n : phi (ffact QK n) = ffact RK n.
Proof. induction n as [|n IH]; cbn [ffact]; [exact phi_1|]. now rewrite phi_mul, phi_ofnat, IH. Qed.
Lemma phi_fdf_odd n : phi (fdf_odd QK n) = fdf_odd RK n.
Proof. induction n as [|n IH]; cbn [fdf_odd]; [exact phi_1|]. now rewrite phi_mul, phi_ofnat, IH. Qed.

Lemma ffact_pos n : 0 < ffact RK n.
Proof.
  induction n as [|n IH]; cbn [ffact]; [change (0 < 1); lra|].
  change (0 < ofnat RK (S n) * ffact RK n). rewrite ofnat_R. apply Rmult_lt_0_compat; [|exact IH].
  apply lt_0_INR. lia.
Qed.
Lemma fpow2_pos n : 0 < FNum.fpow RK (1 + 1) n.
Proof. rewrite fpow_R. apply pow_lt. lra. Qed.

Lemma phi_fbinom n k : phi (fbinom QK n k) = fbinom RK n k.
Proof.
  unfold fbinom. destruct (Nat.leb k n); [|exact phi_0].
  assert (Hd : phi (fmul QK (ffact QK k) (ffact QK (n - k))) <> 0).
  { rewrite phi_mul, !phi_ffact. pose proof (ffact_pos k). pose proof (ffact_pos (n - k)).
    apply Rgt_not_eq. now apply Rmult_lt_0_compat. }
  rewrite (phi_div _ _ Hd), phi_mul, !phi_ffact. reflexivity.
Qed.
Lemma phi_fneg1pow n : phi (fneg1pow QK n) = fneg1pow RK n.
Proof. unfold fneg1pow. destruct (Nat.even n); [exact phi_1|]. now rewrite phi_opp, phi_1. Qed.

Lemma phi_fsum_map {A} (f : A -> Qc) (g : A -> R) l :
  (forall x, In x l -> phi (f x) = g x) -> phi (FNum.fsum QK (map f l)) = FNum.fsum RK (map g l).
Proof.
  induction l as [|a l IH]; intro H; cbn [map FNum.fsum fold_right]; [exact phi_0|].
  fold (FNum.fsum QK (map f l)). fold (FNum.fsum RK (map g l)).
  rewrite phi_add, (H a (or_introl eq_refl)), IH by (intros x Hx; apply H; now right). reflexivity.
Qed.

Lemma phi_expansion_coeff l m sine i j z :
  phi (expansion_coeff QK l m sine i j z) = expansion_coeff RK l m sine i j z.
Proof.
  unfold expansion_coeff. cbv zeta. rewrite !phi_mul, !phi_fbinom, phi_fneg1pow, phi_fpow.
  assert (Hd : phi (fadd QK (fadd QK (fadd QK (f1 QK) (f1 QK)) (f1 QK)) (f1 QK)) <> 0).
  { rewrite !phi_add, phi_1. lra. }
  rewrite (phi_div _ _ Hd), !phi_add, phi_1. reflexivity.
Qed.

Lemma phi_hnr l m : phi (hnr QK l m) = hnr RK l m.
Proof.
  unfold hnr.
  assert (Hd : phi (fmul QK (FNum.fpow QK (fadd QK (f1 QK) (f1 QK)) m) (ffact QK l)) <> 0).
  { rewrite phi_mul, phi_fpow, phi_ffact, phi_add, phi_1. pose proof (ffact_pos l). pose proof (fpow2_pos m).
    apply Rgt_not_eq. now apply Rmult_lt_0_compat. }
  rewrite (phi_div _ _ Hd), phi_mul, phi_fpow, phi_ffact, phi_add, !phi_1. reflexivity.
Qed.

Lemma phi_hrad l m : phi (hrad QK l m) = hrad RK l m.
Proof.
  unfold hrad.
  assert (Hd : phi (if Nat.eqb m 0 then fadd QK (f1 QK) (f1 QK) else f1 QK) <> 0).
  { destruct (Nat.eqb m 0); rewrite ?phi_add, ?phi_1; lra. }
  rewrite (phi_div _ _ Hd), !phi_mul, !phi_ffact, phi_add, phi_1.
  destruct (Nat.eqb m 0); rewrite ?phi_add, ?phi_1; reflexivity.
Qed.

Lemma phi_hterm l m sine c t : phi (hterm QK l m sine c t) = hterm RK l m sine c t.
Proof.
  unfold hterm. cbv zeta. destruct (Nat.leb _ _); [|exact phi_0].
  destruct (comp_eqb _ _); [|exact phi_0]. now rewrite phi_mul, phi_expansion_coeff, phi_hnr.
Qed.

Lemma phi_hcoef l m sine c : phi (hcoef QK l m sine c) = hcoef RK l m sine c.
Proof. unfold hcoef. apply phi_fsum_map. intros t _. apply phi_hterm. Qed.

Lemma phi_gk n : phi (gk QK n) = gk RK n.
Proof. unfold gk. destruct (Nat.even n); [apply phi_fdf_odd|exact phi_0]. Qed.
Lemma phi_Gk a b : phi (Gk QK a b) = Gk RK a b.
Proof. unfold Gk. now rewrite !phi_mul, !phi_gk. Qed.

Lemma phi_HGH l m sine comps : phi (HGH QK l m sine comps) = HGH RK l m sine comps.
Proof.
  unfold HGH. apply phi_fsum_map. intros c _. apply phi_fsum_map. intros c' _.
  now rewrite !phi_mul, !phi_hcoef, phi_Gk.
Qed.

Lemma fdf_odd_pos_R n : 0 < fdf_odd RK n.
Proof. apply fdf_odd_pos. Qed.

Lemma phi_Eorth l m sine : phi (Eorth QK l m sine) = Eorth RK l m sine.
Proof.
  unfold Eorth.
  assert (Hd : phi (fdf_odd QK l) <> 0) by (rewrite phi_fdf_odd; apply Rgt_not_eq, fdf_odd_pos_R).
  rewrite phi_mul, phi_HGH, (phi_div _ _ Hd), phi_fdf_odd, phi_hrad. reflexivity.
Qed.

(* the rows of Model/Spherical.sph_transform are unit vectors for the overlap of unit-normalised Cartesians:
   every l <= 10, every admissible label, over the reals *)
Theorem orth_rational_le10_R l sine m : (l <= 10)%nat -> valid_sm l sine m -> Eorth RK l m sine = 1.
Proof. intros Hl Hv. rewrite <- phi_Eorth, (Eorth_Q_le10 l sine m Hl Hv). exact phi_1. Qed.

(* ------------------------------------------------------------------ *)
(* the assembled statement over the reals                               *)
(* ------------------------------------------------------------------ *)
Lemma sqrt_ok_pos (x : R) : 0 < x -> sqrt_ok RK x.
Proof. intro H. split; [change (sqrt x * sqrt x = x); apply sqrt_sqrt; lra | change (x <> 0); lra]. Qed.

Lemma dfp_pos (c : comp) : 0 < dfp RK c.
Proof.
  unfold dfp. change (0 < fdf_odd RK (cx c) * fdf_odd RK (cy c) * fdf_odd RK (cz c)).
  repeat apply Rmult_lt_0_compat; apply fdf_odd_pos_R.
Qed.

Lemma hrad_pos l m : 0 < hrad RK l m.
Proof.
  unfold hrad. pose proof (ffact_pos (l + m)). pose proof (ffact_pos (l - m)).
  change (0 < (1 + 1) * ffact RK (l + m) * ffact RK (l - m) / (if Nat.eqb m 0 then 1 + 1 else 1)).
  apply Rdiv_lt_0_compat; [|destruct (Nat.eqb m 0); lra].
  apply Rmult_lt_0_compat; [apply Rmult_lt_0_compat; [lra|assumption]|assumption].
Qed.

(* admissible label of angular momentum l *)
Definition valid_label (l : nat) (lb : label) : Prop := valid_sm l (snd (fst lb)) (snd lb).

Lemma default_labels_valid l lb : In lb (default_labels l) -> valid_label l lb.
Proof.
  unfold default_labels, valid_label, valid_sm. destruct (Nat.eqb_spec l 1) as [->|Hl].
  - cbn. intros [<-|[<-|[<-|[]]]]; cbn; split; try lia; try discriminate; auto.
  - intros H. apply in_app_or in H as [H|H]; apply in_map_iff in H as (k & <- & Hk);
      apply in_seq in Hk; cbn; split; try lia; try discriminate; intros _; lia.
Qed.

Section DiagR.
Variable bs : list (shell R).
Hypothesis C : seg_basis bs.
Hypothesis W : basis_wf bs.
Hypothesis P : pos_exps_basis bs.
Notation s_ k := (sh_at RK bs k).

(* the rows of the transformation of a spherical shell with l <= 10 are unit vectors *)
Lemma Orth_one_R (s : shell R) q : s_sph s = true -> (s_l s <= 10)%nat ->
  comps_of s = default_comps (s_l s) -> (q < nlab s)%nat ->
  valid_label (s_l s) (nth q (labels_of s) (false, false, 0%nat)) ->
  Orth RK s q q = 1.
Proof.
  intros Hsph Hl Hc Hq Hv.
  rewrite (Orth_rational RK RK_field fapx_id_R s q Hsph Hq).
  - rewrite Hc. exact (orth_rational_le10_R (s_l s) _ _ Hl Hv).
  - intros c _. apply sqrt_ok_pos, dfp_pos.
  - apply sqrt_ok_pos, fdf_odd_pos_R.
  - change (sqrt (hrad RK (s_l s) (snd (nth q (labels_of s) (false, false, 0%nat))))
            * sqrt (hrad RK (s_l s) (snd (nth q (labels_of s) (false, false, 0%nat))))
            = hrad RK (s_l s) (snd (nth q (labels_of s) (false, false, 0%nat)))).
    apply sqrt_sqrt. pose proof (hrad_pos (s_l s) (snd (nth q (labels_of s) (false, false, 0%nat)))). lra.
Qed.

Lemma homog_of_default (s : shell R) : comps_of s = default_comps (s_l s) -> comps_homog s.
Proof. intros Hc c Hin. rewrite Hc in Hin. now apply default_comps_sum. Qed.

(* diag_one_sph: the diagonal element of the assembled overlap matrix at a SPHERICAL shell (l <= 10, default
   Cartesian order, admissible label) is 1; the basis may mix Cartesian and spherical shells freely.  The only
   premise left is the positivity of the segment's self-overlap (as in diag_one_cart_R). *)
Theorem diag_one_sph_R i m q :
  (i < length bs)%nat -> s_sph (s_ i) = true -> (s_l (s_ i) <= 10)%nat ->
  comps_of (s_ i) = default_comps (s_l (s_ i)) ->
  (m < nseg (s_ i))%nat -> (q < nlab (s_ i))%nat ->
  valid_label (s_l (s_ i)) (nth q (labels_of (s_ i)) (false, false, 0%nat)) ->
  0 < nth4 RK m 0 m 0 (overlap_block RK (s_ i) (s_ i)) ->
  nth (oidx RK bs i m q) (nth (oidx RK bs i m q) (overlap_integral RK bs None) []) 0 = 1.
Proof.
  intros Hi Hsph Hl Hc Hm Hq Hv Hpos.
  assert (Ii : In (s_ i) bs) by (now apply nth_In).
  assert (Hh : comps_homog (s_ i)) by (now apply homog_of_default).
  assert (Ex : exps_ok RK (s_ i) (s_ i)) by (apply exps_ok_pos_R; now apply P).
  assert (Hrad : nth4 RK m 0 m 0 (overlap_block RK (s_ i) (s_ i)) = Rad RK (s_ i) m).
  { apply (self_block_diag RK RK_field fapx_id_R two_neq_0_R (s_ i) (W _ Ii) Hh Ex m 0%nat Hm (ncomp_pos (s_ i))).
    apply sqrt_ok_pos, dfp_pos. }
  apply (diag_one_sph_of_orthonormal RK RK_field fapx_id_R two_neq_0_R bs C W (basis_exps_pos_R bs bs P P) i m q Hi Hh Hm).
  - unfold osize. now rewrite Hsph.
  - intros c _. apply sqrt_ok_pos, dfp_pos.
  - apply sqrt_ok_pos. now rewrite <- Hrad.
  - now apply Orth_one_R.
Qed.

(* ... and the whole diagonal of a basis of default-convention shells (Cartesian or spherical, l <= 10 for the
   spherical ones) with positive self-overlaps *)
Theorem diag_one_mixed_R :
  (forall s, In s bs -> s_comps s = [] /\ s_labels s = [] /\ (s_sph s = true -> (s_l s <= 10)%nat)) ->
  (forall i m, (i < length bs)%nat -> (m < nseg (s_ i))%nat ->
     0 < nth4 RK m 0 m 0 (overlap_block RK (s_ i) (s_ i))) ->
  forall I, (I < ototal RK bs)%nat -> nth I (nth I (overlap_integral RK bs None) []) 0 = 1.
Proof.
  intros Hdef Hpos I HI. destruct (oidx_surj RK bs I HI) as (i & m & q & Hi & Hm & Hq & ->).
  assert (Ii : In (s_ i) bs) by (now apply nth_In).
  destruct (Hdef _ Ii) as [Hc [Hlab Hl]].
  assert (Ec : comps_of (s_ i) = default_comps (s_l (s_ i))) by (unfold comps_of; now rewrite Hc).
  assert (Hh : comps_homog (s_ i)) by (now apply homog_of_default).
  assert (Ex : exps_ok RK (s_ i) (s_ i)) by (apply exps_ok_pos_R; now apply P).
  assert (Hrad : nth4 RK m 0 m 0 (overlap_block RK (s_ i) (s_ i)) = Rad RK (s_ i) m).
  { apply (self_block_diag RK RK_field fapx_id_R two_neq_0_R (s_ i) (W _ Ii) Hh Ex m 0%nat Hm (ncomp_pos (s_ i))).
    apply sqrt_ok_pos, dfp_pos. }
  destruct (s_sph (s_ i)) eqn:Hsph.
  - assert (Hq' : (q < nlab (s_ i))%nat) by (unfold osize in Hq; now rewrite Hsph in Hq).
    apply diag_one_sph_R; auto.
    apply default_labels_valid. unfold labels_of. rewrite Hlab. unfold nlab, labels_of in Hq'. rewrite Hlab in Hq'.
    now apply nth_In.
  - (* Cartesian shell: T_s = identity, Orth(q,q) = G(c,c)/D_c = 1 *)
    assert (Hq' : (q < ncomp (s_ i))%nat) by (unfold osize in Hq; now rewrite Hsph in Hq).
    apply (diag_one_sph_of_orthonormal RK RK_field fapx_id_R two_neq_0_R bs C W (basis_exps_pos_R bs bs P P) i m q Hi Hh Hm Hq).
    + intros c _. apply sqrt_ok_pos, dfp_pos.
    + apply sqrt_ok_pos. rewrite <- Hrad. now apply Hpos.
    + unfold Orth, dsum.
      rewrite (fsum_mk_ext RK _ _ (fun c => (if Nat.eqb q c then 1 else 0)
                 * (Gk RK (nth c (comps_of (s_ i)) (0,0,0)%nat) (nth q (comps_of (s_ i)) (0,0,0)%nat)
                    * (rs RK (nth c (comps_of (s_ i)) (0,0,0)%nat) * rs RK (nth q (comps_of (s_ i)) (0,0,0)%nat))))).
      * rewrite (fsum_delta RK RK_field _ q _ Hq'). rewrite Gk_diag.
        apply (rs_sq RK RK_field). apply sqrt_ok_pos, dfp_pos.
      * intros c Hc'. unfold tco. rewrite Hsph.
        rewrite (fsum_mk_ext RK _ _ (fun c' => (if Nat.eqb q c' then 1 else 0)
                   * ((if Nat.eqb q c then 1 else 0)
                      * (Gk RK (nth c (comps_of (s_ i)) (0,0,0)%nat) (nth c' (comps_of (s_ i)) (0,0,0)%nat)
                         * (rs RK (nth c (comps_of (s_ i)) (0,0,0)%nat) * rs RK (nth c' (comps_of (s_ i)) (0,0,0)%nat)))))).
        -- now rewrite (fsum_delta RK RK_field _ q _ Hq').
        -- intros c' _. change (fmul RK) with Rmult. change (f1 RK) with 1. change (f0 RK) with 0. ring.
Qed.
End DiagR.

(* ---- the hypotheses are satisfiable: a basis over R with a spherical d shell (two segments, two primitives),
        a Cartesian p shell and a spherical f shell ---- *)
Definition ex_sph_d : shell R := mkShell R 2 0 0 0 [3 / 2; 1 / 4] [[1; 2]; [3; 4]] true [] [].
Definition ex_cart_p : shell R := mkShell R 1 1 (-1) (1 / 2) [2] [[1]] false [] [].
Definition ex_sph_f : shell R := mkShell R 3 0 1 0 [1] [[1]] true [] [].
Definition ex_basis_sph : list (shell R) := [ex_sph_d; ex_cart_p; ex_sph_f].

Example diag_sph_hypotheses_satisfiable :
  seg_basis ex_basis_sph /\ basis_wf ex_basis_sph /\ pos_exps_basis ex_basis_sph
  /\ (forall s, In s ex_basis_sph -> s_comps s = [] /\ s_labels s = [] /\ (s_sph s = true -> (s_l s <= 10)%nat))
  /\ ototal RK ex_basis_sph = 20%nat.
Proof.
  split; [|split; [|split; [|split]]].
  - intros s [<-|[<-|[<-|[]]]]; cbn; lia.
  - intros s [<-|[<-|[<-|[]]]]; apply wf_shell_default; reflexivity.
  - intros s [<-|[<-|[<-|[]]]] x Hx; cbn in Hx.
    + destruct Hx as [<-|[<-|[]]]; lra.
    + destruct Hx as [<-|[]]; lra.
    + destruct Hx as [<-|[]]; lra.
  - intros s [<-|[<-|[<-|[]]]]; cbn; repeat split; intros; try lia; discriminate.
  - reflexivity.
Qed.

(* uncontracted shells (one primitive, any number of segments) with non-zero coefficients: the self-overlap is
   d_m^2 > 0, so NO premise is left — every diagonal element of the assembled overlap matrix of such a basis
   (Cartesian and spherical shells mixed, default conventions, l <= 10 for the spherical ones) is 1 *)
Theorem diag_one_mixed_uncontracted_R (bs : list (shell R)) :
  seg_basis bs -> uncontracted_basis bs ->
  (forall s, In s bs -> s_comps s = [] /\ s_labels s = [] /\ (s_sph s = true -> (s_l s <= 10)%nat)) ->
  forall I, (I < ototal RK bs)%nat -> nth I (nth I (overlap_integral RK bs None) []) 0 = 1.
Proof.
  intros C U Hdef. apply diag_one_mixed_R; [exact C| | |exact Hdef|].
  - intros s Hs. destruct (U s Hs) as (alpha & row & Hu & _). now apply (uncontracted_wf s alpha row).
  - intros s Hs x Hx. destruct (U s Hs) as (alpha & row & (He & _ & Ha & _) & _).
    rewrite He in Hx. destruct Hx as [<-|[]]. exact Ha.
  - intros i m Hi Hm. destruct (U (sh_at RK bs i) ltac:(now apply nth_In)) as (alpha & row & Hu & Hd).
    rewrite (self_overlap_uncontracted_R _ alpha row m 0%nat Hu Hm (ncomp_pos _)).
    assert (Hnz : nth m row 0 <> 0).
    { apply Hd, nth_In. destruct Hu as (_ & Hco & _). unfold nseg in Hm. rewrite Hco in Hm. exact Hm. }
    nra.
Qed.

Definition ex_unc_d : shell R := mkShell R 2 0 0 0 [3 / 2] [[1; -2]] true [] [].
Definition ex_unc_p : shell R := mkShell R 1 1 (-1) (1 / 2) [2] [[1]] false [] [].
Definition ex_basis_unc : list (shell R) := [ex_unc_d; ex_unc_p].

Example diag_one_sph_example_R :
  forall I, (I < 13)%nat -> nth I (nth I (overlap_integral RK ex_basis_unc None) []) 0 = 1.
Proof.
  apply (diag_one_mixed_uncontracted_R ex_basis_unc).
  - intros s [<-|[<-|[]]]; cbn; lia.
  - intros s [<-|[<-|[]]].
    + exists (3 / 2), [1; -2]. split.
      * split; [reflexivity|]. split; [reflexivity|]. split; [lra|]. now apply comps_homog_default.
      * intros d [<-|[<-|[]]]; lra.
    + exists 2, [1]. split.
      * split; [reflexivity|]. split; [reflexivity|]. split; [lra|]. now apply comps_homog_default.
      * intros d [<-|[]]; lra.
  - intros s [<-|[<-|[]]]; cbn; repeat split; intros; try lia; discriminate.
Qed.
