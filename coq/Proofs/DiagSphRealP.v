(* Proofs/DiagSphRealP.v — diag_one_sph over the reals (see the header of Proofs/DiagSphP.v): the rational
   orthonormality identity of Proofs/DiagSphCheckP.v transported along the ring homomorphism Q2R : Qc -> R, and
   the assembled statement with the real square root. *)
From Coq Require Import List Arith Lia Bool ZArith QArith Qcanon Qreals Reals Lra.
From GB Require Import Base.Field Base.FNum Base.Tables Model.Shell Model.MomentInt Model.Spherical Model.Overlap
  Proofs.CoreSumP Proofs.CoreBlockP Proofs.CoreNormP Proofs.ScreeningP Proofs.AssembledP Proofs.AssembledOverlapP
  Proofs.AssembledRealP Proofs.AssembledSphP Proofs.AssembledSphOverlapP Proofs.DiagSphP Proofs.DiagSphCheckP.
Import ListNotations.

Lemma in_all_sm l sine m : valid_sm l sine m -> In (sine, m) (all_sm l).
Proof.
  intros [Hm Hs]. unfold all_sm. apply in_or_app. destruct sine.
  - right. apply in_map_iff. exists m. split; [reflexivity|]. apply in_seq. specialize (Hs eq_refl). lia.
  - left. apply in_map_iff. exists m. split; [reflexivity|]. apply in_seq. lia.
Qed.

Lemma qc_eqb_true x y : qc_eqb x y = true -> x = y.
Proof. intro H. apply Qc_is_canon. apply Qeq_bool_eq. exact H. Qed.

Lemma in_all_lsm l sine m : (l <= 10)%nat -> valid_sm l sine m -> In (l, (sine, m)) all_lsm.
Proof.
  intros Hl Hv. unfold all_lsm. apply in_flat_map. exists l. split; [apply in_seq; lia|].
  apply in_map_iff. exists (sine, m). split; [reflexivity|]. now apply in_all_sm.
Qed.

Lemma Eorth_Q_le10 l sine m : (l <= 10)%nat -> valid_sm l sine m -> Eorth QK l m sine = f1 QK.
Proof.
  intros Hl Hv. unfold Eorth. rewrite <- HGHf_eq. apply qc_eqb_true.
  exact (proj1 (forallb_forall _ _) check_orth_all (l, (sine, m)) (in_all_lsm l sine m Hl Hv)).
Qed.


(* ---- the ring homomorphism Qc -> R and the generic functions ---- *)
Local Open Scope R_scope.
Definition phi (q : Qc) : R := Q2R (this q).

Lemma phi_Q2Qcf q : phi (Q2Qcf q) = Q2R q.
Proof. unfold phi, Q2Qcf. cbn [this]. rewrite Qred_fast_eq. apply Qeq_eqR, Qred_correct. Qed.

Lemma phi_0 : phi (f0 QK) = 0.
Proof. unfold phi. cbn. unfold Q2R. cbn. lra. Qed.
Lemma phi_1 : phi (f1 QK) = 1.
Proof. unfold phi. cbn. unfold Q2R. cbn. lra. Qed.
Lemma phi_add a b : phi (fadd QK a b) = phi a + phi b.
Proof. cbn [fadd QK QcK]. unfold qc_add. rewrite phi_Q2Qcf. apply Q2R_plus. Qed.
Lemma phi_mul a b : phi (fmul QK a b) = phi a * phi b.
Proof. cbn [fmul QK QcK]. unfold qc_mul. rewrite phi_Q2Qcf. apply Q2R_mult. Qed.
Lemma phi_sub a b : phi (fsub QK a b) = phi a - phi b.
Proof. cbn [fsub QK QcK]. unfold qc_sub. rewrite phi_Q2Qcf. apply Q2R_minus. Qed.
Lemma phi_opp a : phi (fopp QK a) = - phi a.
Proof. cbn [fopp QK QcK]. unfold qc_opp. rewrite phi_Q2Qcf. apply Q2R_opp. Qed.
Lemma phi_div a b : phi b <> 0 -> phi (fdiv QK a b) = phi a / phi b.
Proof.
  intro Hb. cbn [fdiv QK QcK]. unfold qc_div. rewrite phi_Q2Qcf. apply Q2R_div.
  intro E0. apply Hb. unfold phi. rewrite (Qeq_eqR _ _ E0). unfold Q2R. cbn. lra.
Qed.

Lemma phi_ofnat n : phi (ofnat QK n) = ofnat RK n.
Proof.
  induction n as [|n IH]; cbn [ofnat]; [exact phi_0|]. rewrite phi_add, phi_1, IH. reflexivity.
Qed.
Lemma phi_fpow x n : phi (FNum.fpow QK x n) = FNum.fpow RK (phi x) n.
Proof. induction n as [|n IH]; cbn [FNum.fpow]; [exact phi_1|]. now rewrite phi_mul, IH. Qed.
Lemma phi_ffact n : phi (ffact QK n) = ffact RK n.
Proof. induction n as [|n IH]; cbn [ffact]; [exact phi_1|]. now rewrite phi_mul, phi_ofnat, IH. Qed.
Lemma phi_fdf_odd n : phi (fdf_odd QK n) = fdf_odd RK n.
Proof. induction n as [|n IH]; cbn [fdf_odd]; [exact phi_1|]. now rewrite phi_mul, phi_ofnat, IH. Qed.

Lemma ffact_pos n : 0 < ffact RK n.
Proof.
  induction n as [|n IH]; cbn [ffact]; [change (0 < 1); lra|].
  change (0 < ofnat RK (S n) * ffact RK n). rewrite ofnat_R. apply Rmult_lt_0_compat; [|exact IH].
  apply lt_0_INR. lia.
Qed.
Lemma fpow2_pos n : 0 < FNum.fpow RK (1 + 1) n.
Proof. rewrite fpow_R. apply pow_lt. lra. Qed.

Lemma phi_fbinom n k : phi (fbinom QK n k) = fbinom RK n k.
Proof.
  unfold fbinom. destruct (Nat.leb k n); [|exact phi_0].
  assert (Hd : phi (fmul QK (ffact QK k) (ffact QK (n - k))) <> 0).
  { rewrite phi_mul, !phi_ffact. pose proof (ffact_pos k). pose proof (ffact_pos (n - k)).
    apply Rgt_not_eq. now apply Rmult_lt_0_compat. }
  rewrite (phi_div _ _ Hd), phi_mul, !phi_ffact. reflexivity.
Qed.
Lemma phi_fneg1pow n : phi (fneg1pow QK n) = fneg1pow RK n.
Proof. unfold fneg1pow. destruct (Nat.even n); [exact phi_1|]. now rewrite phi_opp, phi_1. Qed.

Lemma phi_fsum_map {A} (f : A -> Qc) (g : A -> R) l :
  (forall x, In x l -> phi (f x) = g x) -> phi (FNum.fsum QK (map f l)) = FNum.fsum RK (map g l).
Proof.
  induction l as [|a l IH]; intro H; cbn [map FNum.fsum fold_right]; [exact phi_0|].
  fold (FNum.fsum QK (map f l)). fold (FNum.fsum RK (map g l)).
  rewrite phi_add, (H a (or_introl eq_refl)), IH by (intros x Hx; apply H; now right). reflexivity.
Qed.

Lemma phi_expansion_coeff l m sine i j z :
  phi (expansion_coeff QK l m sine i j z) = expansion_coeff RK l m sine i j z.
Proof.
  unfold expansion_coeff. cbv zeta. rewrite !phi_mul, !phi_fbinom, phi_fneg1pow, phi_fpow.
  assert (Hd : phi (fadd QK (fadd QK (fadd QK (f1 QK) (f1 QK)) (f1 QK)) (f1 QK)) <> 0).
  { rewrite !phi_add, phi_1. lra. }
  rewrite (phi_div _ _ Hd), !phi_add, phi_1. reflexivity.
Qed.

Lemma phi_hnr l m : phi (hnr QK l m) = hnr RK l m.
Proof.
  unfold hnr.
  assert (Hd : phi (fmul QK (FNum.fpow QK (fadd QK (f1 QK) (f1 QK)) m) (ffact QK l)) <> 0).
  { rewrite phi_mul, phi_fpow, phi_ffact, phi_add, phi_1. pose proof (ffact_pos l). pose proof (fpow2_pos m).
    apply Rgt_not_eq. now apply Rmult_lt_0_compat. }
  rewrite (phi_div _ _ Hd), phi_mul, phi_fpow, phi_ffact, phi_add, !phi_1. reflexivity.
Qed.

Lemma phi_hrad l m : phi (hrad QK l m) = hrad RK l m.
Proof.
  unfold hrad.
  assert (Hd : phi (if Nat.eqb m 0 then fadd QK (f1 QK) (f1 QK) else f1 QK) <> 0).
  { destruct (Nat.eqb m 0); rewrite ?phi_add, ?phi_1; lra. }
  rewrite (phi_div _ _ Hd), !phi_mul, !phi_ffact, phi_add, phi_1.
  destruct (Nat.eqb m 0); rewrite ?phi_add, ?phi_1; reflexivity.
Qed.

Lemma phi_hterm l m sine c t : phi (hterm QK l m sine c t) = hterm RK l m sine c t.
Proof.
  unfold hterm. cbv zeta. destruct (Nat.leb _ _); [|exact phi_0].
  destruct (comp_eqb _ _); [|exact phi_0]. now rewrite phi_mul, phi_expansion_coeff, phi_hnr.
Qed.

Lemma phi_hcoef l m sine c : phi (hcoef QK l m sine c) = hcoef RK l m sine c.
Proof. unfold hcoef. apply phi_fsum_map. intros t _. apply phi_hterm. Qed.

Lemma phi_gk n : phi (gk QK n) = gk RK n.
Proof. unfold gk. destruct (Nat.even n); [apply phi_fdf_odd|exact phi_0]. Qed.
Lemma phi_Gk a b : phi (Gk QK a b) = Gk RK a b.
Proof. unfold Gk. now rewrite !phi_mul, !phi_gk. Qed.

Lemma phi_HGH l m sine comps : phi (HGH QK l m sine comps) = HGH RK l m sine comps.
Proof.
  unfold HGH. apply phi_fsum_map. intros c _. apply phi_fsum_map. intros c' _.
  now rewrite !phi_mul, !phi_hcoef, phi_Gk.
Qed.

Lemma fdf_odd_pos_R n : 0 < fdf_odd RK n.
Proof. apply fdf_odd_pos. Qed.

Lemma phi_Eorth l m sine : phi (Eorth QK l m sine) = Eorth RK l m sine.
Proof.
  unfold Eorth.
  assert (Hd : phi (fdf_odd QK l) <> 0) by (rewrite phi_fdf_odd; apply Rgt_not_eq, fdf_odd_pos_R).
  rewrite phi_mul, phi_HGH, (phi_div _ _ Hd), phi_fdf_odd, phi_hrad. reflexivity.
Qed.

(* the rows of Model/Spherical.sph_transform are unit vectors for the overlap of unit-normalised Cartesians:
   every l <= 10, every admissible label, over the reals *)
Theorem orth_rational_le10_R l sine m : (l <= 10)%nat -> valid_sm l sine m -> Eorth RK l m sine = 1.
Proof. intros Hl Hv. rewrite <- phi_Eorth, (Eorth_Q_le10 l sine m Hl Hv). exact phi_1. Qed.
