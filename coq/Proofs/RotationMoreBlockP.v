(* Proofs/RotationMoreBlockP.v — GENERAL ROTATIONS (C12) for the contracted, normalised BLOCKS of the list-level model:
   point charge, momentum, multipole moment.  Continues Proofs/RotationBlockP.v.

   [block_rotation_law_generic2] is [RotationBlockP.block_rotation_law_generic] restated
     - for a FIXED rotation R and two (possibly different) kernels: [ent] for the original system and [ent'] for the
       rotated one (the point charge / the moment origin moves with the system, a vector component is replaced by a
       combination of components), given as entry functions  shell -> shell -> ma ia mb ib -> F;
     - with the explicit matrices [rep_mat R] (they satisfy RigidP.mono_rep: RotationBlockP.rep_mat_mono_rep).
   Law, for Cartesian shells with the default component order, any l_a, l_b, segments, generalized contractions:
        dfnorm(ja) dfnorm(jb) ent(sa, sb)[ma, ja, mb, jb]
          = sum_ia sum_ib rep_mat[ia, ja] rep_mat[ib, jb] dfnorm(ia) dfnorm(ib) ent'(R sa, R sb)[ma, ia, mb, ib]
   (dfnorm c = sqrt((2cx-1)!!(2cy-1)!!(2cz-1)!!): gbasis' per-component normalisation, written without division).

     one_elec_point_rotation_law     ent = entry of [one_elec_point] (charge at C), ent' = the same with charge at R C
     point_charge_block_rotation_law ent = k-th point of an entry of [point_charge_block points]
                                     (= PointChargeIntegral.construct_array_contraction, either branch of the swap),
                                     ent' = the same for the rotated points [rot_points R points]
     momentum_block_rotation_law     ent = sum_i R[k][i] (component i of an entry of [momentum_block_re]),
                                     ent' = component k of the entry for the rotated shells
     moment_block_rotation_law       ent = entry of [moment_block C [o]], ent' = sum over o' of D(R)[o,o'] times the entry
                                     of [moment_block (R C) (default_comps |o|)] at o'                                  *)
From Coq Require Import List Arith Lia Field Bool.
From GB Require Import Base.Field Base.FNum Base.Tables Gauss.Moment1D Gauss.SPoly Gauss.Poly3 Model.Shell
  Model.MomentInt Model.Overlap Model.DiffOp Model.OneElec Proofs.CoreSumP Proofs.CoreBlockP Proofs.CoreDiffP
  Proofs.OneElecP Proofs.RigidP Proofs.RotationP Proofs.RotationBlockP Proofs.RotationMoreP.
Import ListNotations.

Definition cmpd (l i : nat) : comp := nth i (default_comps l) (0, 0, 0)%nat.

Section Block2.
Context {F : Type} (K : Fops F) (Kf : is_field K).
Add Field KFrmb : Kf.
Local Open Scope F_scope.
Notation "0" := (f0 K) : F_scope.
Notation "1" := (f1 K) : F_scope.
Infix "+" := (fadd K) : F_scope.
Infix "*" := (fmul K) : F_scope.
Infix "-" := (fsub K) : F_scope.
Infix "/" := (fdiv K) : F_scope.
Notation "- x" := (fopp K x) : F_scope.
Notation "# n" := (ofnat K n) (at level 5) : F_scope.
Notation fsum := (FNum.fsum K).

Hypothesis Hapx : forall x : F, fapx K x = x.
Hypothesis Hdf : forall c, dfnorm K c <> 0.

(* Cartesian shells of angular momenta la, lb in the default component order, one coefficient row per exponent,
   exponent sums non-zero *)
Definition good_pair (la lb : nat) (sa sb : shell F) : Prop :=
  s_l sa = la /\ s_l sb = lb /\ s_comps sa = [] /\ s_comps sb = [] /\ wf_coeffs sa /\ wf_coeffs sb
  /\ (forall a b, In a (s_exps sa) -> In b (s_exps sb) -> a + b <> 0).

Lemma good_pair_rot R la lb sa sb : good_pair la lb sa sb -> good_pair la lb (rot_shell K R sa) (rot_shell K R sb).
Proof. exact (fun H => H). Qed.

Definition entry_fun := shell F -> shell F -> nat -> nat -> nat -> nat -> F.
Definition prim_fun := shell F -> shell F -> comp -> comp -> F -> F -> F.

(* "every entry is the contracted sum of norm * norm * prim" *)
Definition entries_are (la lb : nat) (ent : entry_fun) (prim : prim_fun) : Prop :=
  forall sa sb, good_pair la lb sa sb ->
  forall ma ia mb ib, (ma < nseg sa)%nat -> (mb < nseg sb)%nat ->
    (ia < length (default_comps la))%nat -> (ib < length (default_comps lb))%nat ->
    ent sa sb ma ia mb ib
    = contracted K sa sb (cmpd la ia) (cmpd lb ib) ma mb (prim sa sb (cmpd la ia) (cmpd lb ib)).

(* the primitive matrix law between prim (original system) and prim' (rotated system) *)
Definition prim_law (R : @mat3 F) (la lb : nat) (prim prim' : prim_fun) : Prop :=
  forall sa sb ja jb alpha beta,
    psum K alpha beta <> 0 -> In ja (default_comps la) -> In jb (default_comps lb) ->
    fsum (map (fun ia => fsum (map (fun ib =>
        rep_mat K R ia ja * rep_mat K R ib jb * prim' (rot_shell K R sa) (rot_shell K R sb) ia ib alpha beta)
      (default_comps lb))) (default_comps la))
    = prim sa sb ja jb alpha beta.

(* the block law between ent (original system) and ent' (rotated system) *)
Definition block_law2 (R : @mat3 F) (la lb : nat) (ent ent' : entry_fun) : Prop :=
  forall sa sb, good_pair la lb sa sb ->
  forall ma mb ja jb, (ma < nseg sa)%nat -> (mb < nseg sb)%nat ->
    (ja < length (default_comps la))%nat -> (jb < length (default_comps lb))%nat ->
    dfnorm K (cmpd la ja) * dfnorm K (cmpd lb jb) * ent sa sb ma ja mb jb
    = fsum (map (fun ia => fsum (map (fun ib =>
        rep_mat K R (cmpd la ia) (cmpd la ja) * rep_mat K R (cmpd lb ib) (cmpd lb jb)
        * dfnorm K (cmpd la ia) * dfnorm K (cmpd lb ib)
        * ent' (rot_shell K R sa) (rot_shell K R sb) ma ia mb ib)
        (seq 0 (length (default_comps lb))))) (seq 0 (length (default_comps la)))).

Theorem block_rotation_law_generic2 R la lb (ent ent' : entry_fun) (prim prim' : prim_fun) :
  entries_are la lb ent prim -> entries_are la lb ent' prim' -> prim_law R la lb prim prim' ->
  block_law2 R la lb ent ent'.
Proof.
  intros ent_correct ent'_correct prim_matrix sa sb G ma mb ja jb Hma Hmb Hja Hjb.
  set (sa' := rot_shell K R sa). set (sb' := rot_shell K R sb).
  assert (G' : good_pair la lb sa' sb') by exact G.
  rewrite (ent_correct sa sb G ma ja mb jb Hma Hmb Hja Hjb).
  destruct G as (Hla & Hlb & Hca & Hcb & Wa & Wb & Hex).
  transitivity (W K sa sb ma mb (prim sa sb (cmpd la ja) (cmpd lb jb)));
    [rewrite <- (contracted_W K Kf Hapx Hdf sa sb (cmpd la ja) (cmpd lb jb)); ring|].
  symmetry.
  transitivity (fsum (mk (length (default_comps la)) (fun ia => rep_mat K R (cmpd la ia) (cmpd la ja) *
     W K sa sb ma mb (fun x y => fsum (mk (length (default_comps lb)) (fun ib =>
        rep_mat K R (cmpd lb ib) (cmpd lb jb) * prim' sa' sb' (cmpd la ia) (cmpd lb ib) x y)))))).
  { apply (fsum_mk_ext K). intros ia Hia. rewrite (W_fsum K Kf), (fsum_mk_scale_l K Kf).
    apply (fsum_mk_ext K). intros ib Hib.
    rewrite (ent'_correct sa' sb' G' ma ia mb ib Hma Hmb Hia Hib).
    change (W K sa sb ma mb) with (W K sa' sb' ma mb).
    rewrite <- (contracted_W K Kf Hapx Hdf sa' sb' (cmpd la ia) (cmpd lb ib)).
    change (fun x y : F => prim' sa' sb' (cmpd la ia) (cmpd lb ib) x y)
      with (prim' sa' sb' (cmpd la ia) (cmpd lb ib)). ring. }
  rewrite <- (W_fsum K Kf). apply W_ext. intros alpha beta Ha Hb.
  rewrite <- (prim_matrix sa sb (cmpd la ja) (cmpd lb jb) alpha beta)
    by (try apply nth_In; try assumption; unfold psum; now apply Hex).
  rewrite (map_as_mk _ (default_comps la) (0, 0, 0)%nat). apply (fsum_mk_ext K). intros ia _.
  fold (cmpd la ia). rewrite (map_as_mk _ (default_comps lb) (0, 0, 0)%nat), (fsum_mk_scale_l K Kf).
  apply (fsum_mk_ext K). intros ib _. fold (cmpd lb ib). subst sa' sb'. ring.
Qed.

(* linear combinations of kernels *)
Lemma entries_are_scale la lb c ent prim : entries_are la lb ent prim ->
  entries_are la lb (fun sa sb ma ia mb ib => c * ent sa sb ma ia mb ib)
                    (fun sa sb ca cb x y => c * prim sa sb ca cb x y).
Proof.
  intros H sa sb G ma ia mb ib Hma Hmb Hia Hib. rewrite (H sa sb G ma ia mb ib Hma Hmb Hia Hib).
  symmetry. apply (contracted_scale K Kf).
Qed.
Lemma entries_are_add la lb ent1 prim1 ent2 prim2 : entries_are la lb ent1 prim1 -> entries_are la lb ent2 prim2 ->
  entries_are la lb (fun sa sb ma ia mb ib => ent1 sa sb ma ia mb ib + ent2 sa sb ma ia mb ib)
                    (fun sa sb ca cb x y => prim1 sa sb ca cb x y + prim2 sa sb ca cb x y).
Proof.
  intros H1 H2 sa sb G ma ia mb ib Hma Hmb Hia Hib.
  rewrite (H1 sa sb G ma ia mb ib Hma Hmb Hia Hib), (H2 sa sb G ma ia mb ib Hma Hmb Hia Hib).
  symmetry. apply (contracted_add K Kf).
Qed.
Lemma entries_are_ext la lb ent prim prim2 : entries_are la lb ent prim ->
  (forall sa sb ca cb x y, prim sa sb ca cb x y = prim2 sa sb ca cb x y) -> entries_are la lb ent prim2.
Proof.
  intros H E sa sb G ma ia mb ib Hma Hmb Hia Hib. rewrite (H sa sb G ma ia mb ib Hma Hmb Hia Hib).
  apply contracted_ext. intros; apply E.
Qed.

(* from the Jsum form of a primitive law to [prim_law] *)
Lemma prim_law_of_Jsum R la lb (prim prim' : prim_fun) :
  (forall sa sb ja jb alpha beta, psum K alpha beta <> 0 ->
     Jsum K (fun a' => Jsum K (fun b' => prim' (rot_shell K R sa) (rot_shell K R sb) a' b' alpha beta)
       (rot_expand K R jb)) (rot_expand K R ja) = prim sa sb ja jb alpha beta) ->
  prim_law R la lb prim prim'.
Proof.
  intros H sa sb ja jb alpha beta Hp Hja Hjb.
  apply (matrix_form K Kf R la lb (fun a b => prim sa sb a b alpha beta)
           (fun a b => prim' (rot_shell K R sa) (rot_shell K R sb) a b alpha beta) ja jb Hja Hjb).
  now apply H.
Qed.

Lemma cmpd_degree l i : (i < length (default_comps l))%nat ->
  (fst (fst (cmpd l i)) + snd (fst (cmpd l i)) + snd (cmpd l i) = l)%nat.
Proof. intro H. apply default_comps_degree, nth_In, H. Qed.

(* ==================================================================================================== *)
(* POINT CHARGE *)
Lemma norm_prim_split l c alpha : norm_prim K l c alpha = norm_rad K l alpha * inv_sqrt_df K c.
Proof.
  destruct c as [[x y] z]. unfold norm_prim, norm_rad, inv_sqrt_df. rewrite !Hapx, !(Fdiv_def Kf). ring.
Qed.

Lemma erows_as_mk (s : shell F) : wf_coeffs s ->
  erows K s = mk (length (s_exps s)) (fun k =>
     (nth k (s_exps s) 0, (norm_rad K (s_l s) (nth k (s_exps s) 0), nth k (s_coeffs s) []))).
Proof.
  intro Ws. unfold wf_coeffs in Ws. unfold erows.
  rewrite (combine_as_mk (s_exps s) _ 0 (0, [])) by (rewrite combine_length, map_length, Ws; lia).
  apply mk_ext. intros k Hk. f_equal.
  rewrite combine_nth by (now rewrite map_length).
  f_equal. rewrite (nth_indep _ 0 (norm_rad K (s_l s) 0)) by (now rewrite map_length).
  apply map_nth.
Qed.

(* the specification of OneElecP in the vocabulary of the two-index block theorems *)
Theorem one_elec_spec_contracted Cx Cy Cz (sa sb : shell F) ma ca mb cb :
  wf_coeffs sa -> wf_coeffs sb ->
  one_elec_spec K Cx Cy Cz sa sb ma ca mb cb
  = contracted K sa sb ca cb ma mb
      (fun alpha beta => prim_val K Cx Cy Cz (s_x sa) (s_y sa) (s_z sa) (s_x sb) (s_y sb) (s_z sb)
                           alpha beta ca cb).
Proof.
  intros Wa Wb. unfold one_elec_spec, csum2, contracted.
  rewrite (erows_as_mk sa Wa), (erows_as_mk sb Wb), map_mk.
  rewrite (fsum_mk_swap K Kf).
  rewrite !(fsum_mk_scale_r K Kf). apply (fsum_mk_ext K). intros kb _. cbn [fst snd].
  rewrite map_mk. cbn [fst snd].
  set (G := prim_val K Cx Cy Cz (s_x sa) (s_y sa) (s_z sa) (s_x sb) (s_y sb) (s_z sb)).
  set (be := nth kb (s_exps sb) 0).
  transitivity (fsum (mk (length (s_exps sa)) (fun ka =>
      G (nth ka (s_exps sa) 0) be ca cb * norm_rad K (s_l sa) (nth ka (s_exps sa) 0)
      * nth ma (nth ka (s_coeffs sa) []) 0))
    * (norm_rad K (s_l sb) be * nth mb (nth kb (s_coeffs sb) []) 0 * inv_sqrt_df K ca * inv_sqrt_df K cb));
    [ring|].
  rewrite (fsum_mk_scale_r K Kf). apply (fsum_mk_ext K). intros ka _.
  rewrite !norm_prim_split. ring.
Qed.

Definition pc_ent (C : @vec3 F) : entry_fun := fun sa sb ma ia mb ib =>
  nth ib (nth mb (nth ia (nth ma (one_elec_point K (vget C 0) (vget C 1) (vget C 2) sa sb) []) []) []) 0.
Definition pc_primf (C : @vec3 F) : prim_fun := fun sa sb ca cb alpha beta => pc_prim K C sa sb ca cb alpha beta.

Lemma pc_entries_are C la lb : entries_are la lb (pc_ent C) (pc_primf C).
Proof.
  intros sa sb (Hla & Hlb & Hca & Hcb & Wa & Wb & Hex) ma ia mb ib Hma Hmb Hia Hib.
  assert (Ca : comps_of sa = default_comps la) by (unfold comps_of; now rewrite Hca, Hla).
  assert (Cb : comps_of sb = default_comps lb) by (unfold comps_of; now rewrite Hcb, Hlb).
  pose proof (cmpd_degree la ia Hia) as Da. pose proof (cmpd_degree lb ib Hib) as Db.
  unfold pc_ent. rewrite (one_elec_entry K Kf _ _ _ sa sb ma ia mb ib Hapx); rewrite ?Ca, ?Cb;
    fold (cmpd la ia) (cmpd lb ib); try assumption; try lia.
  now apply one_elec_spec_contracted.
Qed.

Hypothesis char0 : forall n, #(S n) <> 0.

Lemma pc_prim_law R C la lb : orthogonal K R -> prim_law R la lb (pc_primf C) (pc_primf (mapply K R C)).
Proof.
  intro HO. apply prim_law_of_Jsum. intros sa sb ja jb alpha beta Hp.
  now apply (point_charge_prim_rotation_covariant K Kf char0).
Qed.

(* GENERAL ROTATIONS, every entry of the one-electron block for one point charge at C (any l_a, l_b) *)
Theorem one_elec_point_rotation_law R C la lb : orthogonal K R ->
  block_law2 R la lb (pc_ent C) (pc_ent (mapply K R C)).
Proof.
  intro HO. apply (block_rotation_law_generic2 R la lb _ _ (pc_primf C) (pc_primf (mapply K R C))).
  - apply pc_entries_are.
  - apply pc_entries_are.
  - now apply pc_prim_law.
Qed.

(* PointChargeIntegral.construct_array_contraction: points = [((x, y, z), q); ...] *)
Definition rot_points (R : @mat3 F) (points : list (F * F * F * F)) : list (F * F * F * F) :=
  map (fun pt => (mapply K R (fst pt), snd pt)) points.
Definition pcb_ent (points : list (F * F * F * F)) (k : nat) : entry_fun := fun sa sb ma ia mb ib =>
  nth k (nth ib (nth mb (nth ia (nth ma (point_charge_block K points sa sb) []) []) []) []) 0.
Definition pcb_primf (pt : F * F * F * F) : prim_fun := fun sa sb ca cb alpha beta =>
  (- snd pt) * pc_prim K (fst pt) sa sb ca cb alpha beta.

Lemma pcb_entries_are points k la lb : (k < length points)%nat ->
  entries_are la lb (pcb_ent points k) (pcb_primf (nth k points (0, 0, 0, 0))).
Proof.
  intros Hk sa sb (Hla & Hlb & Hca & Hcb & Wa & Wb & Hex) ma ia mb ib Hma Hmb Hia Hib.
  assert (Ca : comps_of sa = default_comps la) by (unfold comps_of; now rewrite Hca, Hla).
  assert (Cb : comps_of sb = default_comps lb) by (unfold comps_of; now rewrite Hcb, Hlb).
  pose proof (cmpd_degree la ia Hia) as Da. pose proof (cmpd_degree lb ib Hib) as Db.
  unfold pcb_ent.
  rewrite (point_charge_block_entry K Kf char0 points sa sb ma ia mb ib Hapx); rewrite ?Ca, ?Cb;
    fold (cmpd la ia) (cmpd lb ib); try assumption; try (unfold csum3; lia).
  rewrite (nth_map_in _ points k (0, 0, 0, 0)) by exact Hk.
  destruct (nth k points (0, 0, 0, 0)) as [[[cx cy] cz] q]. unfold pcb_primf. cbn [fst snd].
  rewrite one_elec_spec_contracted by assumption.
  symmetry. apply (contracted_scale K Kf).
Qed.

(* GENERAL ROTATIONS, PointChargeIntegral.construct_array_contraction: every entry, every point; the points rotate with
   the shells *)
Theorem point_charge_block_rotation_law R points k la lb : orthogonal K R -> (k < length points)%nat ->
  block_law2 R la lb (pcb_ent points k) (pcb_ent (rot_points R points) k).
Proof.
  intros HO Hk.
  apply (block_rotation_law_generic2 R la lb _ _ (pcb_primf (nth k points (0, 0, 0, 0)))
           (pcb_primf (nth k (rot_points R points) (0, 0, 0, 0)))).
  - now apply pcb_entries_are.
  - apply pcb_entries_are. unfold rot_points. now rewrite map_length.
  - apply prim_law_of_Jsum. intros sa sb ja jb alpha beta Hp.
    unfold rot_points. rewrite (nth_map_in _ points k (0, 0, 0, 0)) by exact Hk.
    unfold pcb_primf. cbn [fst snd].
    rewrite <- (point_charge_prim_rotation_covariant K Kf char0 R (fst (nth k points (0, 0, 0, 0)))
                  sa sb ja jb alpha beta HO Hp).
    rewrite <- (Jsum_Jscale K Kf). apply Jsum_ext. intro a'.
    rewrite <- (Jsum_Jscale K Kf). reflexivity.
Qed.

(* ==================================================================================================== *)
(* MOMENTUM and MULTIPOLE MOMENT *)
Hypothesis H2 : 1 + 1 <> 0.
Hypothesis Hexp : forall x y, fexp K (x + y) = fexp K x * fexp K y.

Lemma good_pair_wf la lb sa sb : good_pair la lb sa sb ->
  wf_shell sa /\ wf_shell sb /\ exps_ok K sa sb /\ comps_of sa = default_comps la /\ comps_of sb = default_comps lb.
Proof.
  intros (Hla & Hlb & Hca & Hcb & Wa & Wb & Hex).
  split; [now apply wf_shell_default|]. split; [now apply wf_shell_default|].
  split; [intros a b Ha Hb; unfold psum; now apply Hex|].
  split; unfold comps_of; [now rewrite Hca, Hla|now rewrite Hcb, Hlb].
Qed.

(* component k of an entry of [momentum_block_re] (the real matrix M of the value -i M, last axis x, y, z) *)
Definition mom_ent (k : axis) : entry_fun := fun sa sb ma ia mb ib =>
  nth (ax2nat k) (nth ib (nth mb (nth ia (nth ma (momentum_block_re K sa sb) []) []) []) []) 0.

Lemma mom_entries_are k la lb : entries_are la lb (mom_ent k) (momk K k).
Proof.
  intros sa sb G ma ia mb ib Hma Hmb Hia Hib.
  destruct (good_pair_wf la lb sa sb G) as (WSa & WSb & He & Ca & Cb).
  pose proof (momentum_block_correct K Kf Hapx H2 sa sb ma ia mb ib WSa WSb He Hma) as Hc.
  rewrite Ca, Cb in Hc. specialize (Hc Hia Hmb Hib). cbv zeta in Hc.
  unfold mom_ent. change (nth (ax2nat k) (CoreDiffP.get4 [] ma ia mb ib (momentum_block_re K sa sb)) 0
    = contracted K sa sb (cmpd la ia) (cmpd lb ib) ma mb (momk K k sa sb (cmpd la ia) (cmpd lb ib))).
  rewrite Hc. fold (cmpd la ia) (cmpd lb ib). destruct k; reflexivity.
Qed.

(* GENERAL ROTATIONS, MomentumIntegral.construct_array_contraction: the vector of the three component blocks of the
   original system, rotated by R, obeys the two-index law against component k of the rotated system *)
Theorem momentum_block_rotation_law R k la lb : orthogonal K R ->
  block_law2 R la lb
    (fun sa sb ma ia mb ib => sum3 K (fun i => matf R k i * mom_ent i sa sb ma ia mb ib))
    (mom_ent k).
Proof.
  intro HO.
  apply (block_rotation_law_generic2 R la lb _ _
           (fun sa sb ca cb x y => sum3 K (fun i => matf R k i * momk K i sa sb ca cb x y)) (momk K k)).
  - unfold sum3.
    apply (entries_are_add la lb
             (fun sa sb ma ia mb ib => matf R k AX * mom_ent AX sa sb ma ia mb ib
                                       + matf R k AY * mom_ent AY sa sb ma ia mb ib)
             (fun sa sb ca cb x y => matf R k AX * momk K AX sa sb ca cb x y
                                     + matf R k AY * momk K AY sa sb ca cb x y)).
    + apply (entries_are_add la lb (fun sa sb ma ia mb ib => matf R k AX * mom_ent AX sa sb ma ia mb ib)
               (fun sa sb ca cb x y => matf R k AX * momk K AX sa sb ca cb x y));
        apply entries_are_scale, mom_entries_are.
    + apply entries_are_scale, mom_entries_are.
  - apply mom_entries_are.
  - apply prim_law_of_Jsum. intros sa sb ja jb alpha beta Hp.
    now apply (momentum_prim_rotation_covariant K Kf Hexp).
Qed.

(* ---- multipole moment: the order index rotates as well ---- *)
Lemma contracted_fsum sa sb ca cb ma mb n (c : nat -> F) (p : nat -> F -> F -> F) :
  contracted K sa sb ca cb ma mb (fun x y => fsum (mk n (fun i => c i * p i x y)))
  = fsum (mk n (fun i => c i * contracted K sa sb ca cb ma mb (p i))).
Proof.
  induction n as [|n IH].
  - rewrite (fsum_mk_0 K).
    rewrite (contracted_ext K sa sb ca cb ma mb _ (fun x y => 0 * 0)) by (intros; rewrite (fsum_mk_0 K); ring).
    rewrite (contracted_scale K Kf). ring.
  - rewrite (fsum_mk_S K Kf), <- IH, <- (contracted_scale K Kf), <- (contracted_add K Kf).
    apply contracted_ext. intros x y _ _. apply (fsum_mk_S K Kf).
Qed.

Definition mm_primf (C : @vec3 F) (o : comp) : prim_fun := fun sa sb ca cb alpha beta =>
  mom_prim K (vget C 0) (vget C 1) (vget C 2) o sa sb ca cb alpha beta.
(* entry of Moment.construct_array_contraction = [moment_block], order number d of the list [orders] *)
Definition mm_ent (C : @vec3 F) (orders : list comp) (d : nat) : entry_fun := fun sa sb ma ia mb ib =>
  nth d (nth ib (nth mb (nth ia (nth ma
    (moment_block K (vget C 0) (vget C 1) (vget C 2) orders sa sb) []) []) []) []) 0.

Lemma mm_entries_are C orders d la lb : (d < length orders)%nat ->
  entries_are la lb (mm_ent C orders d) (mm_primf C (nth d orders (0, 0, 0)%nat)).
Proof.
  intros Hd sa sb G ma ia mb ib Hma Hmb Hia Hib.
  destruct (good_pair_wf la lb sa sb G) as (WSa & WSb & He & Ca & Cb).
  assert (Hne : orders <> []) by (destruct orders; [cbn in Hd; lia|discriminate]).
  pose proof (moment_block_correct K Kf Hapx H2 (vget C 0) (vget C 1) (vget C 2) orders sa sb ma ia mb ib
                WSa WSb He Hne Hma) as Hc.
  rewrite Ca, Cb in Hc. specialize (Hc Hia Hmb Hib). cbv zeta in Hc. destruct Hc as [_ Hc].
  unfold mm_ent. rewrite (Hc d Hd). reflexivity.
Qed.

(* the D-combination over the order index, for the rotated system: all orders of degree |o| are requested *)
Definition mm_rot_ent (R : @mat3 F) (C' : @vec3 F) (o : comp) : entry_fun := fun sa sb ma ia mb ib =>
  fsum (mk (length (default_comps (mdeg o))) (fun d' =>
    rep_mat K R (cmpd (mdeg o) d') o * mm_ent C' (default_comps (mdeg o)) d' sa sb ma ia mb ib)).
Definition mm_rot_primf (R : @mat3 F) (C' : @vec3 F) (o : comp) : prim_fun := fun sa sb ca cb alpha beta =>
  fsum (mk (length (default_comps (mdeg o))) (fun d' =>
    rep_mat K R (cmpd (mdeg o) d') o * mm_primf C' (cmpd (mdeg o) d') sa sb ca cb alpha beta)).

Lemma mm_rot_entries_are R C' o la lb : entries_are la lb (mm_rot_ent R C' o) (mm_rot_primf R C' o).
Proof.
  intros sa sb G ma ia mb ib Hma Hmb Hia Hib. unfold mm_rot_ent, mm_rot_primf.
  rewrite contracted_fsum. apply (fsum_mk_ext K). intros d' Hd'. f_equal.
  apply (mm_entries_are C' (default_comps (mdeg o)) d' la lb Hd' sa sb G ma ia mb ib Hma Hmb Hia Hib).
Qed.

Lemma mm_rot_primf_Jsum R C' o sa sb ca cb alpha beta :
  mm_rot_primf R C' o sa sb ca cb alpha beta
  = Jsum K (fun o' => mm_primf C' o' sa sb ca cb alpha beta) (rot_expand K R o).
Proof.
  destruct o as [[ox oy] oz].
  rewrite (Jsum_rot_expand K Kf _ R (mdeg (ox, oy, oz)) (ox, oy, oz))
    by (apply default_comps_all; reflexivity).
  unfold mm_rot_primf. now rewrite (map_as_mk _ (default_comps (mdeg (ox, oy, oz))) (0, 0, 0)%nat).
Qed.

(* GENERAL ROTATIONS, Moment.construct_array_contraction: an entry of the original block for the order o = orders[d]
   about C against the D-combination (over the order index) of the entries of the rotated block about R C *)
Theorem moment_block_rotation_law R C orders d la lb : orthogonal K R -> (d < length orders)%nat ->
  block_law2 R la lb (mm_ent C orders d) (mm_rot_ent R (mapply K R C) (nth d orders (0, 0, 0)%nat)).
Proof.
  intros HO Hd. set (o := nth d orders (0, 0, 0)%nat).
  apply (block_rotation_law_generic2 R la lb _ _ (mm_primf C o) (mm_rot_primf R (mapply K R C) o)).
  - now apply mm_entries_are.
  - apply mm_rot_entries_are.
  - apply prim_law_of_Jsum. intros sa sb ja jb alpha beta Hp.
    rewrite (Jsum_ext K _ (fun a' => Jsum K (fun o' => Jsum K (fun b' =>
               mm_primf (mapply K R C) o' (rot_shell K R sa) (rot_shell K R sb) a' b' alpha beta)
               (rot_expand K R jb)) (rot_expand K R o))).
    2:{ intro a'. rewrite (Jsum_ext K _ _ (fun b' => mm_rot_primf_Jsum R _ o _ _ a' b' alpha beta)).
        apply (Jsum_swap K Kf). }
    rewrite (Jsum_swap K Kf).
    exact (moment_prim_rotation_covariant K Kf Hexp R C o sa sb ja jb alpha beta HO Hp).
Qed.

End Block2.

(* ==================================================================================================== *)
(* Examples over Qc.  Stand-ins: sqrt = exp = 1 (they satisfy every hypothesis; the theorems assume nothing else about
   them), the m- and argument-dependent "Boys function" [exBoys] of Proofs/RotationMoreP.v.  Shells: the contracted p
   shell exP (2 primitives, 2 segments) and the d shell exD of Proofs/RotationBlockP.v; l_a < l_b, so
   [point_charge_block] takes the SWAPPED branch. *)
From Coq Require Import ZArith QArith Qcanon.
Definition exKQb : Fops Qc := QcK true (Q2Qc 3) (fun _ => Q2Qc 1) (fun _ => Q2Qc 1) (fun x => x) exBoys.
Section Examples.
Let KQ : Fops Qc := exKQb.
Let KQf : is_field KQ := QcK_field _ _ _ _ _ _.
Let q (n : Z) (d : positive) : Qc := qc_of n d.

Lemma exKQb_hyps :
  (forall x, fapx KQ x = x) /\ (forall c, dfnorm KQ c <> f0 KQ) /\ (forall n, ofnat KQ (S n) <> f0 KQ)
  /\ fadd KQ (f1 KQ) (f1 KQ) <> f0 KQ /\ (forall x y, fexp KQ (fadd KQ x y) = fmul KQ (fexp KQ x) (fexp KQ y)).
Proof.
  split; [reflexivity|].
  split; [intros c H; apply (f_equal this) in H; vm_compute in H; discriminate H|].
  split; [apply QcK_char0|].
  split; [intro H; apply (f_equal this) in H; vm_compute in H; discriminate H|].
  intros; apply Qc_is_canon; vm_compute; reflexivity.
Qed.
Lemma exKQb_R345 : orthogonal KQ R345. Proof. exact orthogonal_R345'. Qed.
Example good_pair_ex : good_pair KQ 1 2 exP exD.
Proof.
  destruct block_law_hypotheses_satisfiable as (_ & Wa & Wb & Ca & Cb & Hex).
  repeat split; try assumption; reflexivity.
Qed.
Definition exPts : list (Qc * Qc * Qc * Qc) := [(exC, q 2 1); ((q 1 1, q 0 1, q (-1) 2), q (-1) 1)].

(* the theorems instantiated: nothing left to assume *)
Example point_charge_block_rotation_law_ex :
  block_law2 KQ R345 1 2 (pcb_ent KQ exPts 1) (pcb_ent KQ (rot_points KQ R345 exPts) 1).
Proof.
  destruct exKQb_hyps as (A & B & C & D & E).
  apply (point_charge_block_rotation_law KQ KQf A B C R345 exPts 1 1 2 exKQb_R345). cbn. lia.
Qed.
Example momentum_block_rotation_law_ex :
  block_law2 KQ R345 1 2
    (fun sa sb ma ia mb ib => sum3 KQ (fun i => fmul KQ (matf R345 AY i) (mom_ent KQ i sa sb ma ia mb ib)))
    (mom_ent KQ AY).
Proof.
  destruct exKQb_hyps as (A & B & C & D & E).
  apply (momentum_block_rotation_law KQ KQf A B D E R345 AY 1 2 exKQb_R345).
Qed.

(* the block laws re-evaluated on the list-level model (vm_compute, independent of the proofs) *)
Definition blk2_check (R : @mat3 Qc) (la lb : nat) (ent ent' : nat -> nat -> nat -> nat -> Qc)
  (ma mb ja jb : nat) : bool :=
  Qeq_bool
    (fmul KQ (fmul KQ (dfnorm KQ (cmpd la ja)) (dfnorm KQ (cmpd lb jb))) (ent ma ja mb jb))
    (FNum.fsum KQ (map (fun ia => FNum.fsum KQ (map (fun ib =>
        fmul KQ (fmul KQ (fmul KQ (fmul KQ (rep_mat KQ R (cmpd la ia) (cmpd la ja))
                                           (rep_mat KQ R (cmpd lb ib) (cmpd lb jb)))
                                  (dfnorm KQ (cmpd la ia))) (dfnorm KQ (cmpd lb ib)))
          (ent' ma ia mb ib))
        (seq 0 (length (default_comps lb))))) (seq 0 (length (default_comps la))))).
(* every entry of the (contracted p, 2 segments) x (shell of angular momentum lb) block *)
Definition blk2_all (R : @mat3 Qc) (lb : nat) (ent ent' : nat -> nat -> nat -> nat -> Qc) : bool :=
  forallb (fun ma => forallb (fun ja => forallb (fun jb => blk2_check R 1 lb ent ent' ma 0 ja jb)
    (seq 0 (length (default_comps lb)))) (seq 0 3)) (seq 0 2).
Definition e4 (S : list (list (list (list Qc)))) : nat -> nat -> nat -> nat -> Qc :=
  fun ma ia mb ib => nth ib (nth mb (nth ia (nth ma S []) []) []) (f0 KQ).
Definition e5 (S : list (list (list (list (list Qc))))) (k : nat) : nat -> nat -> nat -> nat -> Qc :=
  fun ma ia mb ib => nth k (nth ib (nth mb (nth ia (nth ma S []) []) []) []) (f0 KQ).
Definition exQ : shell Qc := mkShell Qc 1 (q 0 1) (q 1 3) (q (-1) 1) [q 2 3] [[q 5 7]] false [] [].

(* one point charge, p x p, the improper rotation *)
Definition exb_one_elec_point : bool :=
  (let R := Rimp in
   let C' := mapply KQ R exC in
   let S := one_elec_point KQ (vget exC 0) (vget exC 1) (vget exC 2) exP exQ in
   let S' := one_elec_point KQ (vget C' 0) (vget C' 1) (vget C' 2) (rot_shell KQ R exP) (rot_shell KQ R exQ) in
   blk2_all R 1 (e4 S) (e4 S')).
Example one_elec_point_law_computed : exb_one_elec_point = true.
Proof. vm_compute. reflexivity. Qed.
(* PointChargeIntegral block, two points, p x d (swapped branch), the 3-4-5 rotation *)
Definition exb_point_charge_block : bool :=
  (let R := R345 in
   let S := point_charge_block KQ exPts exP exD in
   let S' := point_charge_block KQ (rot_points KQ R exPts) (rot_shell KQ R exP) (rot_shell KQ R exD) in
   forallb (fun k => blk2_all R 2 (e5 S k) (e5 S' k)) [0; 1]%nat).
Example point_charge_block_law_computed : exb_point_charge_block = true.
Proof. vm_compute. reflexivity. Qed.
Definition exb_momentum_block : bool :=
  forallb (fun R =>
    let S := momentum_block_re KQ exP exD in
    let S' := momentum_block_re KQ (rot_shell KQ R exP) (rot_shell KQ R exD) in
    forallb (fun k => blk2_all R 2
      (fun ma ia mb ib => sum3 KQ (fun i => fmul KQ (matf R k i) (e5 S (ax2nat i) ma ia mb ib)))
      (e5 S' (ax2nat k))) [AX; AY; AZ]) [R345; Rimp].
Example momentum_block_law_computed : exb_momentum_block = true.
Proof. vm_compute. reflexivity. Qed.
(* multipole moment, p x p: the order o = (1,1,0) of the requested list, against all six second-order moments about R C *)
Definition exb_moment_block : bool :=
  forallb (fun R =>
    let C' := mapply KQ R exC in
    let o := (1, 1, 0)%nat in
    let S := moment_block KQ (vget exC 0) (vget exC 1) (vget exC 2) [(0, 0, 1)%nat; o] exP exQ in
    let S' := moment_block KQ (vget C' 0) (vget C' 1) (vget C' 2) (default_comps 2)
                (rot_shell KQ R exP) (rot_shell KQ R exQ) in
    blk2_all R 1 (e5 S 1)
      (fun ma ia mb ib => FNum.fsum KQ (mk 6 (fun d' =>
         fmul KQ (rep_mat KQ R (cmpd 2 d') o) (e5 S' d' ma ia mb ib))))) [R345; Rimp].
Example moment_block_law_computed : exb_moment_block = true.
Proof. vm_compute. reflexivity. Qed.
(* not vacuous: the one-electron block does change under the rotation *)
Example one_elec_point_not_invariant :
  (let C' := mapply KQ R345 exC in
   Qeq_bool (e4 (one_elec_point KQ (vget exC 0) (vget exC 1) (vget exC 2) exP exQ) 0 0 0 1)
            (e4 (one_elec_point KQ (vget C' 0) (vget C' 1) (vget C' 2) (rot_shell KQ R345 exP) (rot_shell KQ R345 exQ))
                0 0 0 1)) = false.
Proof. vm_compute. reflexivity. Qed.
End Examples.

Lemma block2_hypotheses_satisfiable :
  exists (F : Type) (K : Fops F) (R : @mat3 F) (sa sb : shell F),
    is_field K /\ (forall x, fapx K x = x) /\ (forall c, dfnorm K c <> f0 K) /\ (forall n, ofnat K (S n) <> f0 K)
    /\ fadd K (f1 K) (f1 K) <> f0 K /\ (forall x y, fexp K (fadd K x y) = fmul K (fexp K x) (fexp K y))
    /\ orthogonal K R /\ good_pair K 1 2 sa sb.
Proof.
  exists Qc, exKQb, R345, exP, exD. split; [apply QcK_field|].
  destruct exKQb_hyps as (A & B & C & D & E).
  repeat (split; [assumption|]). split; [exact exKQb_R345|exact good_pair_ex].
Qed.

(* [block_law2] written out (for Props/C12_rotation2.v) *)
Lemma block_law2_unfold {F : Type} (K : Fops F) (R : @mat3 F) (la lb : nat)
  (ent ent' : shell F -> shell F -> nat -> nat -> nat -> nat -> F) :
  block_law2 K R la lb ent ent' <->
  (forall sa sb : shell F,
     s_l sa = la -> s_l sb = lb -> s_comps sa = [] -> s_comps sb = [] -> wf_coeffs sa -> wf_coeffs sb ->
     (forall a b : F, In a (s_exps sa) -> In b (s_exps sb) -> fadd K a b <> f0 K) ->
     forall ma mb ja jb : nat, (ma < nseg sa)%nat -> (mb < nseg sb)%nat ->
       (ja < length (default_comps la))%nat -> (jb < length (default_comps lb))%nat ->
       fmul K (fmul K (dfnorm K (cmpd la ja)) (dfnorm K (cmpd lb jb))) (ent sa sb ma ja mb jb)
       = FNum.fsum K (map (fun ia : nat => FNum.fsum K (map (fun ib : nat =>
           fmul K (fmul K (fmul K (fmul K (rep_mat K R (cmpd la ia) (cmpd la ja))
                                          (rep_mat K R (cmpd lb ib) (cmpd lb jb)))
                                  (dfnorm K (cmpd la ia))) (dfnorm K (cmpd lb ib)))
             (ent' (rot_shell K R sa) (rot_shell K R sb) ma ia mb ib))
           (seq 0 (length (default_comps lb))))) (seq 0 (length (default_comps la))))).
Proof.
  unfold block_law2, good_pair. split.
  - intros H sa sb H1 H2 H3 H4 H5 H6 H7. apply H. repeat split; assumption.
  - intros H sa sb (H1 & H2 & H3 & H4 & H5 & H6 & H7). now apply H.
Qed.
