(* Proofs/CoreDiffP.v — block-level correctness of the differential-operator kernels
   (kinetic energy, momentum, angular momentum) and their exchange (anti)symmetry.

   SPEC, per axis of a primitive pair (Proofs/DiffOpP.v):
     S1 A B alpha beta i j     = Sfun = prefactor x T3(...; 0, i, j)        1-D overlap integral
     D1 A B alpha beta k i j   = (Bop beta)^k S1 i j                        integral of phi_a d^k/dx^k phi_b
     M1o A B alpha beta i j    = prefactor x T3(...; P - 0; 1, i, j)        integral of phi_a x phi_b (origin 0)
   and per primitive pair
     dprim o     = D1_x(o_x) D1_y(o_y) D1_z(o_z)                            (_compute_differential_operator_integrals)
     kin_prim    = -1/2 (D1_x(2) S1_y S1_z + S1_x D1_y(2) S1_z + S1_x S1_y D1_z(2))
     mom_x_prim  = D1_x(1) S1_y S1_z   (value returned by the code: -i times it), y, z alike
     ang_x_prim  = S1_x (M1o_y D1_z(1) - M1o_z D1_y(1)), cyclic            (value: -i times it)
   contracted as in Proofs/CoreSumP.v.

   THEOREMS: diffop_block_correct, kinetic_block_correct, momentum_block_correct, angmom_block_correct,
   diffop_block_swap (sign (-1)^(o_x+o_y+o_z)), kinetic_block_sym, momentum_block_antisym,
   angmom_block_antisym.  Hypotheses as in Proofs/CoreBlockP.v. *)
From Coq Require Import List Arith Lia Field Bool.
From GB Require Import Base.Field Base.FNum Base.Tables Gauss.Moment1D Model.Shell Model.MomentInt
  Model.Overlap Model.DiffOp Proofs.BlockP Proofs.MomentIntP Proofs.DiffOpP Proofs.CoreSumP Proofs.CoreBlockP.
Import ListNotations.

(* ---- shapes and entries of four-level nested lists ---- *)
Section Shape.
Definition shape4 {A} (n1 n2 n3 n4 : nat) (b : list (list (list (list A)))) : Prop :=
  length b = n1 /\
  forall i1, i1 < n1 -> length (nth i1 b []) = n2 /\
  forall i2, i2 < n2 -> length (nth i2 (nth i1 b []) []) = n3 /\
  forall i3, i3 < n3 -> length (nth i3 (nth i2 (nth i1 b []) []) []) = n4.
Definition get4 {A} (d : A) (i1 i2 i3 i4 : nat) (b : list (list (list (list A)))) : A :=
  nth i4 (nth i3 (nth i2 (nth i1 b []) []) []) d.

Lemma nth_zip {A B C} (g : A -> B -> C) x y i dA dB dC :
  i < length x -> length y = length x ->
  nth i (map (fun p : A * B => let '(a, b) := p in g a b) (combine x y)) dC = g (nth i x dA) (nth i y dB).
Proof. intros Hi Hl. now rewrite (nth_map_combine _ x y i dA dB dC Hi Hl). Qed.

Lemma list3_eq {A} (a b c a' b' c' : A) : a = a' -> b = b' -> c = c' -> [a; b; c] = [a'; b'; c'].
Proof. intros; subst; reflexivity. Qed.

Lemma length_zip {A B C} (f : A * B -> C) x y : length y = length x -> length (map f (combine x y)) = length x.
Proof. intros H. rewrite map_length, combine_length. lia. Qed.

Lemma zip4_spec {A B C} (f : A -> B -> C) n1 n2 n3 n4 x y dA dB dC :
  shape4 n1 n2 n3 n4 x -> shape4 n1 n2 n3 n4 y ->
  shape4 n1 n2 n3 n4 (zip4 f x y) /\
  forall i1 i2 i3 i4, i1 < n1 -> i2 < n2 -> i3 < n3 -> i4 < n4 ->
    get4 dC i1 i2 i3 i4 (zip4 f x y) = f (get4 dA i1 i2 i3 i4 x) (get4 dB i1 i2 i3 i4 y).
Proof.
  intros [X1 X2] [Y1 Y2]. unfold zip4, get4.
  assert (E1 : forall i1, i1 < n1 -> nth i1 (map (fun p : list (list (list A)) * list (list (list B)) =>
       let '(a1, b1) := p in map (fun p2 : list (list A) * list (list B) => let '(a2, b2) := p2 in
         map (fun p3 : list A * list B => let '(a3, b3) := p3 in
           map (fun p4 : A * B => let '(a4, b4) := p4 in f a4 b4) (combine a3 b3)) (combine a2 b2))
         (combine a1 b1)) (combine x y)) []
     = map (fun p2 : list (list A) * list (list B) => let '(a2, b2) := p2 in
         map (fun p3 : list A * list B => let '(a3, b3) := p3 in
           map (fun p4 : A * B => let '(a4, b4) := p4 in f a4 b4) (combine a3 b3)) (combine a2 b2))
         (combine (nth i1 x []) (nth i1 y []))).
  { intros i1 H1. now rewrite (nth_map_combine _ x y i1 [] [] []) by lia. }
  assert (E2 : forall i1 i2, i1 < n1 -> i2 < n2 ->
     nth i2 (map (fun p2 : list (list A) * list (list B) => let '(a2, b2) := p2 in
         map (fun p3 : list A * list B => let '(a3, b3) := p3 in
           map (fun p4 : A * B => let '(a4, b4) := p4 in f a4 b4) (combine a3 b3)) (combine a2 b2))
         (combine (nth i1 x []) (nth i1 y []))) []
     = map (fun p3 : list A * list B => let '(a3, b3) := p3 in
           map (fun p4 : A * B => let '(a4, b4) := p4 in f a4 b4) (combine a3 b3))
         (combine (nth i2 (nth i1 x []) []) (nth i2 (nth i1 y []) []))).
  { intros i1 i2 H1 H2. destruct (X2 i1 H1) as [Xa _]. destruct (Y2 i1 H1) as [Ya _].
    now rewrite (nth_map_combine _ (nth i1 x []) (nth i1 y []) i2 [] [] []) by lia. }
  assert (E3 : forall i1 i2 i3, i1 < n1 -> i2 < n2 -> i3 < n3 ->
     nth i3 (map (fun p3 : list A * list B => let '(a3, b3) := p3 in
           map (fun p4 : A * B => let '(a4, b4) := p4 in f a4 b4) (combine a3 b3))
         (combine (nth i2 (nth i1 x []) []) (nth i2 (nth i1 y []) []))) []
     = map (fun p4 : A * B => let '(a4, b4) := p4 in f a4 b4)
         (combine (nth i3 (nth i2 (nth i1 x []) []) []) (nth i3 (nth i2 (nth i1 y []) []) []))).
  { intros i1 i2 i3 H1 H2 H3. destruct (X2 i1 H1) as [_ Xb]. destruct (Y2 i1 H1) as [_ Yb].
    destruct (Xb i2 H2) as [Xc _]. destruct (Yb i2 H2) as [Yc _].
    now rewrite (nth_map_combine _ (nth i2 (nth i1 x []) []) (nth i2 (nth i1 y []) []) i3 [] [] []) by lia. }
  split.
  - split; [rewrite length_zip; lia|]. intros i1 H1. rewrite (E1 i1 H1).
    destruct (X2 i1 H1) as [Xa Xb]. destruct (Y2 i1 H1) as [Ya Yb].
    split; [rewrite length_zip; lia|]. intros i2 H2. rewrite (E2 i1 i2 H1 H2).
    destruct (Xb i2 H2) as [Xc Xd]. destruct (Yb i2 H2) as [Yc Yd].
    split; [rewrite length_zip; lia|]. intros i3 H3. rewrite (E3 i1 i2 i3 H1 H2 H3).
    pose proof (Xd i3 H3). pose proof (Yd i3 H3). rewrite length_zip; lia.
  - intros i1 i2 i3 i4 H1 H2 H3 H4. rewrite (E1 i1 H1), (E2 i1 i2 H1 H2), (E3 i1 i2 i3 H1 H2 H3).
    destruct (X2 i1 H1) as [_ Xb]. destruct (Y2 i1 H1) as [_ Yb].
    destruct (Xb i2 H2) as [_ Xd]. destruct (Yb i2 H2) as [_ Yd].
    pose proof (Xd i3 H3). pose proof (Yd i3 H3).
    now rewrite (nth_map_combine _ _ _ i4 dA dB dC) by lia.
Qed.

Lemma map4_get {A B} (f : A -> B) n1 n2 n3 n4 x dA dB i1 i2 i3 i4 :
  shape4 n1 n2 n3 n4 x -> i1 < n1 -> i2 < n2 -> i3 < n3 -> i4 < n4 ->
  get4 dB i1 i2 i3 i4 (map4 f x) = f (get4 dA i1 i2 i3 i4 x).
Proof.
  intros [X1 X2] H1 H2 H3 H4. unfold map4, get4.
  destruct (X2 i1 H1) as [Xa Xb]. destruct (Xb i2 H2) as [Xc Xd]. pose proof (Xd i3 H3) as Xe.
  rewrite (nth_indep _ [] (map (map (map f)) [])) by (rewrite map_length; lia). rewrite map_nth.
  rewrite (nth_indep _ [] (map (map f) [])) by (rewrite map_length; lia). rewrite map_nth.
  rewrite (nth_indep _ [] (map f [])) by (rewrite map_length; lia). rewrite map_nth.
  rewrite (nth_indep _ dB (f dA)) by (rewrite map_length; lia). now rewrite map_nth.
Qed.
End Shape.

Section Spec.
Context {F : Type} (K : Fops F).
Local Open Scope F_scope.
Notation "0" := (f0 K) : F_scope.
Notation "1" := (f1 K) : F_scope.
Infix "+" := (fadd K) : F_scope.
Infix "*" := (fmul K) : F_scope.
Infix "-" := (fsub K) : F_scope.
Infix "/" := (fdiv K) : F_scope.
Notation "- x" := (fopp K x) : F_scope.

Definition S1 (A B alpha beta : F) : nat -> nat -> F := Sfun K A B alpha beta.
Definition D1 (A B alpha beta : F) (k : nat) : nat -> nat -> F := iterop (Bop K beta) k (Sfun K A B alpha beta).
Definition M1o (A B alpha beta : F) : nat -> nat -> F :=
  fun i j => base K A B alpha beta * T1 K A B 0 alpha beta 1 i j.

Definition dprim (o : comp) (sa sb : shell F) (ca cb : comp) (alpha beta : F) : F :=
  D1 (s_x sa) (s_x sb) alpha beta (cx o) (cx ca) (cx cb)
  * D1 (s_y sa) (s_y sb) alpha beta (cy o) (cy ca) (cy cb)
  * D1 (s_z sa) (s_z sb) alpha beta (cz o) (cz ca) (cz cb).

Section Prim.
Variables (sa sb : shell F) (ca cb : comp) (alpha beta : F).
Let Sx := S1 (s_x sa) (s_x sb) alpha beta (cx ca) (cx cb).
Let Sy := S1 (s_y sa) (s_y sb) alpha beta (cy ca) (cy cb).
Let Sz := S1 (s_z sa) (s_z sb) alpha beta (cz ca) (cz cb).
Let Dx k := D1 (s_x sa) (s_x sb) alpha beta k (cx ca) (cx cb).
Let Dy k := D1 (s_y sa) (s_y sb) alpha beta k (cy ca) (cy cb).
Let Dz k := D1 (s_z sa) (s_z sb) alpha beta k (cz ca) (cz cb).
Let Mx := M1o (s_x sa) (s_x sb) alpha beta (cx ca) (cx cb).
Let My := M1o (s_y sa) (s_y sb) alpha beta (cy ca) (cy cb).
Let Mz := M1o (s_z sa) (s_z sb) alpha beta (cz ca) (cz cb).

Definition kin_prim : F := - (1 / (1 + 1)) * (Dx 2%nat * Sy * Sz + Sx * Dy 2%nat * Sz + Sx * Sy * Dz 2%nat).
Definition mom_x_prim : F := Dx 1%nat * Sy * Sz.
Definition mom_y_prim : F := Sx * Dy 1%nat * Sz.
Definition mom_z_prim : F := Sx * Sy * Dz 1%nat.
Definition ang_x_prim : F := Sx * (My * Dz 1%nat - Mz * Dy 1%nat).
Definition ang_y_prim : F := Sy * (Mz * Dx 1%nat - Mx * Dz 1%nat).
Definition ang_z_prim : F := Sz * (Mx * Dy 1%nat - My * Dx 1%nat).
End Prim.
End Spec.

Section P.
Context {F : Type} (K : Fops F) (Kf : is_field K).
Add Field KFd1 : Kf.
Local Open Scope F_scope.
Notation "0" := (f0 K) : F_scope.
Notation "1" := (f1 K) : F_scope.
Infix "+" := (fadd K) : F_scope.
Infix "*" := (fmul K) : F_scope.
Infix "-" := (fsub K) : F_scope.
Infix "/" := (fdiv K) : F_scope.
Notation "- x" := (fopp K x) : F_scope.
Notation "# n" := (ofnat K n) (at level 5) : F_scope.

Hypothesis Hapx : forall x : F, fapx K x = x.
Hypothesis H2 : 1 + 1 <> 0.

Lemma block_shape4 (sa sb : shell F) pf :
  shape4 (nseg sa) (length (comps_of sa)) (nseg sb) (length (comps_of sb)) (block_of K sa sb pf).
Proof. exact (block_of_shape K sa sb pf). Qed.

Lemma nth4_get4 i1 i2 i3 i4 (b : list (list (list (list F)))) : nth4 K i1 i2 i3 i4 b = get4 0 i1 i2 i3 i4 b.
Proof. reflexivity. Qed.

(* ---- _compute_differential_operator_integrals, any list of orders ---- *)
Section DB.
Variables (orders : list comp) (sa sb : shell F).
Hypothesis Wa : wf_shell sa.
Hypothesis Wb : wf_shell sb.
Hypothesis He : exps_ok K sa sb.

Lemma diffop_block_nth d : d < length orders ->
  nth d (diffop_block K orders sa sb) []
  = block_of K sa sb (fun ca cb => map (map (fun t => prim3 K t (nth d orders (0,0,0)%nat) ca cb))
                                       (dtabs K (omax orders) sa sb)).
Proof.
  intros Hd. unfold diffop_block. cbv zeta.
  now rewrite (nth_map_d _ orders d (0,0,0)%nat) by exact Hd.
Qed.

Theorem diffop_block_correct d ma ia mb ib :
  d < length orders ->
  ma < nseg sa -> ia < length (comps_of sa) -> mb < nseg sb -> ib < length (comps_of sb) ->
  nth4 K ma ia mb ib (nth d (diffop_block K orders sa sb) [])
  = contracted K sa sb (nth ia (comps_of sa) (0,0,0)%nat) (nth ib (comps_of sb) (0,0,0)%nat) ma mb
      (dprim K (nth d orders (0,0,0)%nat) sa sb
             (nth ia (comps_of sa) (0,0,0)%nat) (nth ib (comps_of sb) (0,0,0)%nat)).
Proof.
  intros Hd Hma Hia Hmb Hib. rewrite diffop_block_nth by exact Hd.
  destruct Wa as [Wca Wla]. destruct Wb as [Wcb Wlb].
  remember (nth ia (comps_of sa) (0,0,0)%nat) as ca eqn:Eca.
  remember (nth ib (comps_of sb) (0,0,0)%nat) as cb eqn:Ecb.
  remember (nth d orders (0,0,0)%nat) as o eqn:Eo.
  assert (Hca : comp_le (s_l sa) ca) by (rewrite Eca; apply Wla, nth_In; exact Hia).
  assert (Hcb : comp_le (s_l sb) cb) by (rewrite Ecb; apply Wlb, nth_In; exact Hib).
  assert (Ho : cx o <= omax orders /\ cy o <= omax orders /\ cz o <= omax orders)
    by (rewrite Eo; apply omax_ge, nth_In; exact Hd).
  rewrite (block_of_contracted K Kf sa sb _
             (fun alpha beta => prim3 K
                (dtable K (s_x sa) (s_x sb) alpha beta (s_l sa) (s_l sb) (omax orders),
                 dtable K (s_y sa) (s_y sb) alpha beta (s_l sa) (s_l sb) (omax orders),
                 dtable K (s_z sa) (s_z sb) alpha beta (s_l sa) (s_l sb) (omax orders)) o ca cb)
             ma ia mb ib Wca Wcb Hma Hia Hmb Hib).
  2:{ rewrite <- Eca, <- Ecb. unfold dtabs. apply mapmap_tabs. }
  rewrite <- Eca, <- Ecb. apply contracted_ext. intros alpha beta Ha Hb.
  pose proof (He alpha beta Ha Hb) as Hp.
  destruct ca as [[ax ay] az]. destruct cb as [[bx by_] bz]. destruct o as [[ox oy] oz].
  unfold comp_le, cx, cy, cz in *. cbn [fst snd] in *.
  unfold prim3. rewrite Hapx.
  rewrite !(diffop_slice_is_deriv_b K Kf) by (try assumption; lia).
  reflexivity.
Qed.
End DB.

(* ---- kinetic energy ---- *)
Theorem kinetic_block_correct (sa sb : shell F) ma ia mb ib :
  wf_shell sa -> wf_shell sb -> exps_ok K sa sb ->
  ma < nseg sa -> ia < length (comps_of sa) -> mb < nseg sb -> ib < length (comps_of sb) ->
  nth4 K ma ia mb ib (kinetic_block K sa sb)
  = contracted K sa sb (nth ia (comps_of sa) (0,0,0)%nat) (nth ib (comps_of sb) (0,0,0)%nat) ma mb
      (kin_prim K sa sb (nth ia (comps_of sa) (0,0,0)%nat) (nth ib (comps_of sb) (0,0,0)%nat)).
Proof.
  intros Wa Wb He Hma Hia Hmb Hib.
  pose proof (diffop_block_correct [(2,0,0); (0,2,0); (0,0,2)]%nat sa sb Wa Wb He) as Hc.
  pose proof (Hc 0%nat ma ia mb ib ltac:(cbn; lia) Hma Hia Hmb Hib) as Hx.
  pose proof (Hc 1%nat ma ia mb ib ltac:(cbn; lia) Hma Hia Hmb Hib) as Hy.
  pose proof (Hc 2%nat ma ia mb ib ltac:(cbn; lia) Hma Hia Hmb Hib) as Hz.
  clear Hc. unfold kinetic_block.
  unfold diffop_block in *. cbv zeta in *. cbn [map nth] in Hx, Hy, Hz |- *.
  set (tb := dtabs K (omax [(2,0,0); (0,2,0); (0,0,2)]%nat) sa sb) in *.
  set (bx := block_of K sa sb (fun ca cb => map (map (fun t => prim3 K t (2,0,0)%nat ca cb)) tb)) in *.
  set (by_ := block_of K sa sb (fun ca cb => map (map (fun t => prim3 K t (0,2,0)%nat ca cb)) tb)) in *.
  set (bz := block_of K sa sb (fun ca cb => map (map (fun t => prim3 K t (0,0,2)%nat ca cb)) tb)) in *.
  pose proof (block_shape4 sa sb (fun ca cb => map (map (fun t => prim3 K t (2,0,0)%nat ca cb)) tb)) as Sx.
  pose proof (block_shape4 sa sb (fun ca cb => map (map (fun t => prim3 K t (0,2,0)%nat ca cb)) tb)) as Sy.
  pose proof (block_shape4 sa sb (fun ca cb => map (map (fun t => prim3 K t (0,0,2)%nat ca cb)) tb)) as Sz.
  fold bx in Sx. fold by_ in Sy. fold bz in Sz.
  destruct (zip4_spec (fadd K) _ _ _ _ bx by_ 0 0 0 Sx Sy) as [Sxy Gxy].
  destruct (zip4_spec (fadd K) _ _ _ _ _ bz 0 0 0 Sxy Sz) as [Sxyz Gxyz].
  rewrite nth4_get4.
  rewrite (map4_get _ _ _ _ _ _ 0 0 ma ia mb ib Sxyz Hma Hia Hmb Hib).
  rewrite (Gxyz ma ia mb ib Hma Hia Hmb Hib), (Gxy ma ia mb ib Hma Hia Hmb Hib).
  rewrite <- !nth4_get4. rewrite Hx, Hy, Hz.
  rewrite <- !(contracted_add K Kf), <- (contracted_scale K Kf).
  apply contracted_ext. intros alpha beta _ _.
  unfold kin_prim, dprim, S1, D1, cx, cy, cz. cbn [fst snd iterop]. reflexivity.
Qed.

(* ---- momentum: the real matrix R of the value -i R, last axis (x, y, z) ---- *)
Theorem momentum_block_correct (sa sb : shell F) ma ia mb ib :
  wf_shell sa -> wf_shell sb -> exps_ok K sa sb ->
  ma < nseg sa -> ia < length (comps_of sa) -> mb < nseg sb -> ib < length (comps_of sb) ->
  let ca := nth ia (comps_of sa) (0,0,0)%nat in let cb := nth ib (comps_of sb) (0,0,0)%nat in
  get4 [] ma ia mb ib (momentum_block_re K sa sb)
  = [ contracted K sa sb ca cb ma mb (mom_x_prim K sa sb ca cb);
      contracted K sa sb ca cb ma mb (mom_y_prim K sa sb ca cb);
      contracted K sa sb ca cb ma mb (mom_z_prim K sa sb ca cb) ].
Proof.
  intros Wa Wb He Hma Hia Hmb Hib. cbv zeta.
  pose proof (diffop_block_correct [(1,0,0); (0,1,0); (0,0,1)]%nat sa sb Wa Wb He) as Hc.
  pose proof (Hc 0%nat ma ia mb ib ltac:(cbn; lia) Hma Hia Hmb Hib) as Hx.
  pose proof (Hc 1%nat ma ia mb ib ltac:(cbn; lia) Hma Hia Hmb Hib) as Hy.
  pose proof (Hc 2%nat ma ia mb ib ltac:(cbn; lia) Hma Hia Hmb Hib) as Hz.
  clear Hc. unfold momentum_block_re.
  unfold diffop_block in *. cbv zeta in *. cbn [map nth] in Hx, Hy, Hz |- *.
  set (tb := dtabs K (omax [(1,0,0); (0,1,0); (0,0,1)]%nat) sa sb) in *.
  set (bx := block_of K sa sb (fun ca cb => map (map (fun t => prim3 K t (1,0,0)%nat ca cb)) tb)) in *.
  set (by_ := block_of K sa sb (fun ca cb => map (map (fun t => prim3 K t (0,1,0)%nat ca cb)) tb)) in *.
  set (bz := block_of K sa sb (fun ca cb => map (map (fun t => prim3 K t (0,0,1)%nat ca cb)) tb)) in *.
  pose proof (block_shape4 sa sb (fun ca cb => map (map (fun t => prim3 K t (1,0,0)%nat ca cb)) tb)) as Sx.
  pose proof (block_shape4 sa sb (fun ca cb => map (map (fun t => prim3 K t (0,1,0)%nat ca cb)) tb)) as Sy.
  pose proof (block_shape4 sa sb (fun ca cb => map (map (fun t => prim3 K t (0,0,1)%nat ca cb)) tb)) as Sz.
  fold bx in Sx. fold by_ in Sy. fold bz in Sz.
  destruct (zip4_spec (fun x y : F => [x; y]) _ _ _ _ bx by_ 0 0 [] Sx Sy) as [Sxy Gxy].
  destruct (zip4_spec (fun (xy : list F) (z : F) => xy ++ [z]) _ _ _ _ _ bz [] 0 [] Sxy Sz) as [Sxyz Gxyz].
  rewrite (Gxyz ma ia mb ib Hma Hia Hmb Hib), (Gxy ma ia mb ib Hma Hia Hmb Hib).
  rewrite <- !nth4_get4. rewrite Hx, Hy, Hz. cbn [app].
  apply list3_eq; apply contracted_ext; intros alpha beta _ _;
    unfold mom_x_prim, mom_y_prim, mom_z_prim, dprim, S1, D1, cx, cy, cz; cbn [fst snd iterop]; reflexivity.
Qed.

(* ---- angular momentum about the coordinate origin: the real matrix R of the value -i R ---- *)
Lemma combine_map_same {A B C} (f : A -> B) (g : A -> C) (l : list A) :
  combine (map f l) (map g l) = map (fun x => (f x, g x)) l.
Proof. induction l as [|x l IH]; cbn [map combine]; [reflexivity|]. now rewrite IH. Qed.

Lemma pair_tabs_form {T U} (g : T -> U -> F) (dtf : F -> F -> T) (mtf : F -> F -> U) (ea eb : list F) :
  map (fun p : list T * list U => let '(drow, mrow) := p in
         map (fun q : T * U => let '(d, m) := q in g d m) (combine drow mrow))
      (combine (map (fun beta => map (fun alpha => dtf alpha beta) ea) eb)
               (map (fun beta => map (fun alpha => mtf alpha beta) ea) eb))
  = map (fun beta => map (fun alpha => g (dtf alpha beta) (mtf alpha beta)) ea) eb.
Proof.
  rewrite combine_map_same, map_map. apply map_ext. intros beta.
  rewrite combine_map_same, map_map. reflexivity.
Qed.

Lemma angmom_comp_block (sa sb : shell F) (c : nat) ma ia mb ib :
  wf_shell sa -> wf_shell sb -> exps_ok K sa sb ->
  ma < nseg sa -> ia < length (comps_of sa) -> mb < nseg sb -> ib < length (comps_of sb) ->
  let ca := nth ia (comps_of sa) (0,0,0)%nat in let cb := nth ib (comps_of sb) (0,0,0)%nat in
  nth4 K ma ia mb ib
    (block_of K sa sb (fun ca cb =>
       map (fun p : list table3 * list table3 => let '(drow, mrow) := p in
              map (fun q : table3 * table3 => let '(d, m) := q in nth c (angmom_prim K d m ca cb) 0)
                  (combine drow mrow))
           (combine (dtabs K 1 sa sb) (tabs K 0 0 0 [(1, 0, 0)%nat] sa sb))))
  = contracted K sa sb ca cb ma mb
      (fun alpha beta => nth c [ang_x_prim K sa sb ca cb alpha beta; ang_y_prim K sa sb ca cb alpha beta;
                                ang_z_prim K sa sb ca cb alpha beta] 0).
Proof.
  intros Wa Wb He Hma Hia Hmb Hib. cbv zeta.
  destruct Wa as [Wca Wla]. destruct Wb as [Wcb Wlb].
  remember (nth ia (comps_of sa) (0,0,0)%nat) as ca eqn:Eca.
  remember (nth ib (comps_of sb) (0,0,0)%nat) as cb eqn:Ecb.
  assert (Hca : comp_le (s_l sa) ca) by (rewrite Eca; apply Wla, nth_In; exact Hia).
  assert (Hcb : comp_le (s_l sb) cb) by (rewrite Ecb; apply Wlb, nth_In; exact Hib).
  change (omax [(1, 0, 0)%nat]) with 1%nat.
  rewrite (block_of_contracted K Kf sa sb _
             (fun alpha beta => nth c (angmom_prim K
                (dtable K (s_x sa) (s_x sb) alpha beta (s_l sa) (s_l sb) 1,
                 dtable K (s_y sa) (s_y sb) alpha beta (s_l sa) (s_l sb) 1,
                 dtable K (s_z sa) (s_z sb) alpha beta (s_l sa) (s_l sb) 1)
                (table K (s_x sa) (s_x sb) 0 alpha beta (s_l sa) (s_l sb) 1,
                 table K (s_y sa) (s_y sb) 0 alpha beta (s_l sa) (s_l sb) 1,
                 table K (s_z sa) (s_z sb) 0 alpha beta (s_l sa) (s_l sb) 1) ca cb) 0)
             ma ia mb ib Wca Wcb Hma Hia Hmb Hib).
  2:{ rewrite <- Eca, <- Ecb. unfold dtabs, tabs. change (omax [(1, 0, 0)%nat]) with 1%nat.
      apply (pair_tabs_form (fun d m => nth c (angmom_prim K d m ca cb) 0)). }
  rewrite <- Eca, <- Ecb. apply contracted_ext. intros alpha beta Ha Hb.
  pose proof (He alpha beta Ha Hb) as Hp.
  destruct ca as [[ax ay] az]. destruct cb as [[bx by_] bz].
  unfold comp_le, cx, cy, cz in *. cbn [fst snd] in *.
  unfold angmom_prim. rewrite !Hapx.
  rewrite !(table_correct K Kf) by (try assumption; lia).
  rewrite !(diffop_slice_is_deriv_b K Kf) by (try assumption; lia).
  reflexivity.
Qed.

Theorem angmom_block_correct (sa sb : shell F) ma ia mb ib :
  wf_shell sa -> wf_shell sb -> exps_ok K sa sb ->
  ma < nseg sa -> ia < length (comps_of sa) -> mb < nseg sb -> ib < length (comps_of sb) ->
  let ca := nth ia (comps_of sa) (0,0,0)%nat in let cb := nth ib (comps_of sb) (0,0,0)%nat in
  get4 [] ma ia mb ib (angmom_block_re K sa sb)
  = [ contracted K sa sb ca cb ma mb (ang_x_prim K sa sb ca cb);
      contracted K sa sb ca cb ma mb (ang_y_prim K sa sb ca cb);
      contracted K sa sb ca cb ma mb (ang_z_prim K sa sb ca cb) ].
Proof.
  intros Wa Wb He Hma Hia Hmb Hib. cbv zeta.
  pose proof (angmom_comp_block sa sb 0 ma ia mb ib Wa Wb He Hma Hia Hmb Hib) as Hx.
  pose proof (angmom_comp_block sa sb 1 ma ia mb ib Wa Wb He Hma Hia Hmb Hib) as Hy.
  pose proof (angmom_comp_block sa sb 2 ma ia mb ib Wa Wb He Hma Hia Hmb Hib) as Hz.
  cbv zeta in Hx, Hy, Hz. cbn [nth] in Hx, Hy, Hz.
  unfold angmom_block_re. cbv zeta.
  match goal with
  | |- get4 _ _ _ _ _ (zip4 _ (zip4 _ (block_of _ _ _ ?p0) (block_of _ _ _ ?p1)) (block_of _ _ _ ?p2)) = _ =>
      pose proof (block_shape4 sa sb p0) as Sx; pose proof (block_shape4 sa sb p1) as Sy;
      pose proof (block_shape4 sa sb p2) as Sz
  end.
  destruct (zip4_spec (fun x y : F => [x; y]) _ _ _ _ _ _ 0 0 [] Sx Sy) as [Sxy Gxy].
  destruct (zip4_spec (fun (xy : list F) (z : F) => xy ++ [z]) _ _ _ _ _ _ [] 0 [] Sxy Sz) as [Sxyz Gxyz].
  rewrite (Gxyz ma ia mb ib Hma Hia Hmb Hib), (Gxy ma ia mb ib Hma Hia Hmb Hib). cbn [app].
  apply list3_eq; [exact Hx|exact Hy|exact Hz].
Qed.

(* ------------------------------------------------------------------ *)
(* Exchange of the two shells                                          *)
(* ------------------------------------------------------------------ *)
Lemma fneg1pow_S k : fneg1pow K (S k) = - fneg1pow K k.
Proof.
  unfold fneg1pow. rewrite Nat.even_succ, <- Nat.negb_even.
  destruct (Nat.even k); cbn [negb]; ring.
Qed.

Lemma Sfun_swap A B alpha beta i j : Sfun K B A beta alpha j i = Sfun K A B alpha beta i j.
Proof.
  change (base K B A beta alpha * T1 K B A 0 beta alpha 0 j i
          = base K A B alpha beta * T1 K A B 0 alpha beta 0 i j).
  now rewrite (base_sym K Kf A B), (T1_sym K Kf A B).
Qed.

Lemma M1o_swap A B alpha beta i j : M1o K B A beta alpha j i = M1o K A B alpha beta i j.
Proof. unfold M1o. now rewrite (base_sym K Kf A B), (T1_sym K Kf A B). Qed.

Lemma Bop_tswap alpha (T U : nat -> nat -> F) s :
  (forall i j, U j i = s * T i j) ->
  forall i j, Bop K alpha U j i = (- s) * negA K alpha T i j.
Proof. intros H i j. unfold Bop, negA. rewrite !H. ring. Qed.

Lemma iter_Bop_tswap alpha (T U : nat -> nat -> F) :
  (forall i j, U j i = T i j) ->
  forall k i j, iterop (Bop K alpha) k U j i = fneg1pow K k * iterop (negA K alpha) k T i j.
Proof.
  intros H. induction k as [|k IH]; intros i j; cbn [iterop].
  - rewrite H. unfold fneg1pow. cbn [Nat.even]. ring.
  - rewrite (Bop_tswap alpha (iterop (negA K alpha) k T) _ (fneg1pow K k) IH).
    now rewrite fneg1pow_S.
Qed.

Lemma D1_swap A B alpha beta k i j : psum K alpha beta <> 0 ->
  D1 K B A beta alpha k j i = fneg1pow K k * D1 K A B alpha beta k i j.
Proof.
  intros Hp. unfold D1.
  rewrite (iter_Bop_tswap alpha (Sfun K A B alpha beta) (Sfun K B A beta alpha) (Sfun_swap A B alpha beta)).
  f_equal. apply (ibp_iter K Kf A B alpha beta Hp H2).
Qed.

Lemma S1_swap A B alpha beta i j : S1 K B A beta alpha j i = S1 K A B alpha beta i j.
Proof. apply Sfun_swap. Qed.

Lemma dprim_swap o sa sb ca cb alpha beta : psum K alpha beta <> 0 ->
  dprim K o sb sa cb ca beta alpha
  = fneg1pow K (cx o) * fneg1pow K (cy o) * fneg1pow K (cz o) * dprim K o sa sb ca cb alpha beta.
Proof.
  intros Hp. unfold dprim.
  rewrite (D1_swap (s_x sa) (s_x sb) alpha beta) by exact Hp.
  rewrite (D1_swap (s_y sa) (s_y sb) alpha beta) by exact Hp.
  rewrite (D1_swap (s_z sa) (s_z sb) alpha beta) by exact Hp. ring.
Qed.

(* exchanging the shells transposes a derivative block up to the sign (-1)^(o_x+o_y+o_z) *)
Theorem diffop_block_swap orders (sa sb : shell F) d ma ia mb ib :
  wf_shell sa -> wf_shell sb -> exps_ok K sa sb -> d < length orders ->
  ma < nseg sa -> ia < length (comps_of sa) -> mb < nseg sb -> ib < length (comps_of sb) ->
  let o := nth d orders (0,0,0)%nat in
  nth4 K mb ib ma ia (nth d (diffop_block K orders sb sa) [])
  = fneg1pow K (cx o) * fneg1pow K (cy o) * fneg1pow K (cz o)
    * nth4 K ma ia mb ib (nth d (diffop_block K orders sa sb) []).
Proof.
  intros Wa Wb He Hd Hma Hia Hmb Hib. cbv zeta.
  rewrite (diffop_block_correct orders sb sa Wb Wa (exps_ok_sym K Kf _ _ He)) by assumption.
  rewrite (diffop_block_correct orders sa sb Wa Wb He) by assumption.
  rewrite <- (contracted_scale K Kf).
  rewrite <- (contracted_swap K Kf sa sb).
  apply contracted_ext. intros beta alpha Hb Ha. apply dprim_swap. now apply He.
Qed.

Lemma kin_prim_swap sa sb ca cb alpha beta : psum K alpha beta <> 0 ->
  kin_prim K sb sa cb ca beta alpha = kin_prim K sa sb ca cb alpha beta.
Proof.
  intros Hp. unfold kin_prim.
  rewrite (D1_swap (s_x sa) (s_x sb) alpha beta) by exact Hp.
  rewrite (D1_swap (s_y sa) (s_y sb) alpha beta) by exact Hp.
  rewrite (D1_swap (s_z sa) (s_z sb) alpha beta) by exact Hp.
  rewrite (S1_swap (s_x sa) (s_x sb) alpha beta), (S1_swap (s_y sa) (s_y sb) alpha beta),
          (S1_swap (s_z sa) (s_z sb) alpha beta).
  unfold fneg1pow. cbn [Nat.even]. ring.
Qed.

(* T_ba = T_ab: the kinetic block of the exchanged pair is the transpose *)
Theorem kinetic_block_sym (sa sb : shell F) ma ia mb ib :
  wf_shell sa -> wf_shell sb -> exps_ok K sa sb ->
  ma < nseg sa -> ia < length (comps_of sa) -> mb < nseg sb -> ib < length (comps_of sb) ->
  nth4 K mb ib ma ia (kinetic_block K sb sa) = nth4 K ma ia mb ib (kinetic_block K sa sb).
Proof.
  intros Wa Wb He Hma Hia Hmb Hib.
  rewrite (kinetic_block_correct sb sa) by (try assumption; now apply (exps_ok_sym K Kf)).
  rewrite (kinetic_block_correct sa sb) by assumption.
  rewrite <- (contracted_swap K Kf sa sb).
  apply contracted_ext. intros beta alpha Hb Ha. apply kin_prim_swap. now apply He.
Qed.

Lemma mom_prim_swap sa sb ca cb alpha beta : psum K alpha beta <> 0 ->
  mom_x_prim K sb sa cb ca beta alpha = - mom_x_prim K sa sb ca cb alpha beta /\
  mom_y_prim K sb sa cb ca beta alpha = - mom_y_prim K sa sb ca cb alpha beta /\
  mom_z_prim K sb sa cb ca beta alpha = - mom_z_prim K sa sb ca cb alpha beta.
Proof.
  intros Hp. unfold mom_x_prim, mom_y_prim, mom_z_prim.
  rewrite (D1_swap (s_x sa) (s_x sb) alpha beta) by exact Hp.
  rewrite (D1_swap (s_y sa) (s_y sb) alpha beta) by exact Hp.
  rewrite (D1_swap (s_z sa) (s_z sb) alpha beta) by exact Hp.
  rewrite (S1_swap (s_x sa) (s_x sb) alpha beta), (S1_swap (s_y sa) (s_y sb) alpha beta),
          (S1_swap (s_z sa) (s_z sb) alpha beta).
  unfold fneg1pow. cbn [Nat.even]. repeat split; ring.
Qed.

Lemma ang_prim_swap sa sb ca cb alpha beta : psum K alpha beta <> 0 ->
  ang_x_prim K sb sa cb ca beta alpha = - ang_x_prim K sa sb ca cb alpha beta /\
  ang_y_prim K sb sa cb ca beta alpha = - ang_y_prim K sa sb ca cb alpha beta /\
  ang_z_prim K sb sa cb ca beta alpha = - ang_z_prim K sa sb ca cb alpha beta.
Proof.
  intros Hp. unfold ang_x_prim, ang_y_prim, ang_z_prim.
  rewrite (D1_swap (s_x sa) (s_x sb) alpha beta) by exact Hp.
  rewrite (D1_swap (s_y sa) (s_y sb) alpha beta) by exact Hp.
  rewrite (D1_swap (s_z sa) (s_z sb) alpha beta) by exact Hp.
  rewrite (S1_swap (s_x sa) (s_x sb) alpha beta), (S1_swap (s_y sa) (s_y sb) alpha beta),
          (S1_swap (s_z sa) (s_z sb) alpha beta).
  rewrite (M1o_swap (s_x sa) (s_x sb) alpha beta), (M1o_swap (s_y sa) (s_y sb) alpha beta),
          (M1o_swap (s_z sa) (s_z sb) alpha beta).
  unfold fneg1pow. cbn [Nat.even]. repeat split; ring.
Qed.

(* block(b,a)[mb][ib][ma][ia][c] = - block(a,b)[ma][ia][mb][ib][c]: with the factor -i the operator is Hermitian *)
Theorem momentum_block_antisym (sa sb : shell F) ma ia mb ib :
  wf_shell sa -> wf_shell sb -> exps_ok K sa sb ->
  ma < nseg sa -> ia < length (comps_of sa) -> mb < nseg sb -> ib < length (comps_of sb) ->
  get4 [] mb ib ma ia (momentum_block_re K sb sa)
  = map (fopp K) (get4 [] ma ia mb ib (momentum_block_re K sa sb)).
Proof.
  intros Wa Wb He Hma Hia Hmb Hib.
  rewrite (momentum_block_correct sb sa) by (try assumption; now apply (exps_ok_sym K Kf)).
  rewrite (momentum_block_correct sa sb) by assumption. cbv zeta. cbn [map].
  rewrite <- !(contracted_opp K Kf). rewrite <- !(contracted_swap K Kf sa sb).
  apply list3_eq; apply contracted_ext; intros beta alpha Hb Ha;
    apply mom_prim_swap; now apply He.
Qed.

Theorem angmom_block_antisym (sa sb : shell F) ma ia mb ib :
  wf_shell sa -> wf_shell sb -> exps_ok K sa sb ->
  ma < nseg sa -> ia < length (comps_of sa) -> mb < nseg sb -> ib < length (comps_of sb) ->
  get4 [] mb ib ma ia (angmom_block_re K sb sa)
  = map (fopp K) (get4 [] ma ia mb ib (angmom_block_re K sa sb)).
Proof.
  intros Wa Wb He Hma Hia Hmb Hib.
  rewrite (angmom_block_correct sb sa) by (try assumption; now apply (exps_ok_sym K Kf)).
  rewrite (angmom_block_correct sa sb) by assumption. cbv zeta. cbn [map].
  rewrite <- !(contracted_opp K Kf). rewrite <- !(contracted_swap K Kf sa sb).
  apply list3_eq; apply contracted_ext; intros beta alpha Hb Ha;
    apply ang_prim_swap; now apply He.
Qed.

End P.
