(* Proofs/DensityP.v — lemmas about the jets of Gauss/DensityJets.v (property C06).

   Generic field part (any field, any assignment g of values to the symbols G(o1,o2)):
     leibniz_drho      the Leibniz double-binomial sum is the iterated product rule, for EVERY order triple
     shortcut_correct  the l_x <= L_x/2 loop with factor 2/1 of evaluate_deriv_density equals the full
                       Leibniz sum when G(a,b) = G(b,a) (symmetric density matrix), for EVERY order triple
     grad/lap/hess_correct, hess_sym, hess_trace_lap, gked_correct
     jet_equiv_sound, jet_equiv_sym_sound   the computational normal form decides equality soundly
   Ordered part: density_nonneg / ked_nonneg over R for a positive semi-definite matrix; the clip rule over Q. *)
From Coq Require Import List Arith Bool Lia Field.
From GB Require Import Base.Field Gauss.DensityJets.
Import ListNotations.

(* ------------------------------------------------------------------ *)
(* binomial coefficients                                               *)
(* ------------------------------------------------------------------ *)
Lemma binom_0_r n : binom n 0 = 1.
Proof. destruct n; reflexivity. Qed.

Lemma binom_gt n : forall k, n < k -> binom n k = 0.
Proof.
  induction n as [|n IH]; intros [|k] H; try lia; cbn [binom]; [reflexivity|].
  rewrite !IH by lia. reflexivity.
Qed.

Lemma binom_diag n : binom n n = 1.
Proof.
  induction n as [|n IH]; [reflexivity|]. cbn [binom]. rewrite IH, binom_gt by lia. reflexivity.
Qed.

Lemma binom_sym n : forall k, k <= n -> binom n (n - k) = binom n k.
Proof.
  induction n as [|n IH]; intros k Hk.
  - replace k with 0 by lia. reflexivity.
  - destruct k as [|k].
    + rewrite Nat.sub_0_r, binom_diag, binom_0_r. reflexivity.
    + change (S n - S k) with (n - k).
      destruct (Nat.eq_dec k n) as [->|Hne].
      * rewrite Nat.sub_diag. cbn [binom]. rewrite binom_diag, binom_gt by lia. reflexivity.
      * replace (n - k) with (S (n - S k)) by lia. cbn [binom].
        rewrite (IH (S k)) by lia. replace (S (n - S k)) with (n - k) by lia.
        rewrite (IH k) by lia. lia.
Qed.

Lemma div2_SS n : S (S n) / 2 = S (n / 2).
Proof. replace (S (S n)) with (n + 1 * 2) by lia. rewrite Nat.div_add by lia. lia. Qed.

Lemma oplus_comm a b : oplus a b = oplus b a.
Proof. destruct a as [[x y] z], b as [[x' y'] z']. cbn [oplus]. f_equal; [f_equal|]; lia. Qed.

Lemma bumpn_0 n x y z : bumpn 0 n (x, y, z) = (n + x, y, z).
Proof. induction n as [|n IH]; cbn [bumpn]; [reflexivity|]. rewrite IH. reflexivity. Qed.
Lemma bumpn_1 n x y z : bumpn 1 n (x, y, z) = (x, n + y, z).
Proof. induction n as [|n IH]; cbn [bumpn]; [reflexivity|]. rewrite IH. reflexivity. Qed.
Lemma bumpn_2 n x y z : bumpn 2 n (x, y, z) = (x, y, n + z).
Proof. induction n as [|n IH]; cbn [bumpn]; [reflexivity|]. rewrite IH. reflexivity. Qed.

Lemma ord_cmp_eq a b : ord_cmp a b = Eq -> a = b.
Proof.
  destruct a as [[x y] z], b as [[x' y'] z']. cbn [ord_cmp].
  destruct (Nat.compare x x') eqn:E1; try discriminate.
  destruct (Nat.compare y y') eqn:E2; try discriminate.
  intros E3. apply Nat.compare_eq in E1, E2, E3. subst. reflexivity.
Qed.

Lemma key_cmp_eq s t : key_cmp s t = Eq -> s = t.
Proof.
  destruct s as [a b], t as [a' b']. unfold key_cmp. cbn [fst snd].
  destruct (ord_cmp a a') eqn:E1; try discriminate.
  intros E2. apply ord_cmp_eq in E1, E2. subst. reflexivity.
Qed.

Section P.
Context {F : Type} (K : Fops F) (Kf : is_field K).
Add Field KF : Kf.
Local Open Scope F_scope.
Notation "0" := (f0 K) : F_scope.
Notation "1" := (f1 K) : F_scope.
Infix "+" := (fadd K) : F_scope.
Infix "*" := (fmul K) : F_scope.
Infix "-" := (fsub K) : F_scope.
Infix "/" := (fdiv K) : F_scope.
Notation "# n" := (ofnat K n) (at level 5) : F_scope.
Notation jetF := (jet F).
Notation evalK := (eval K).

Lemma ofnat_add a b : #(a + b)%nat = #a + #b.
Proof. induction a as [|a IH]; cbn [ofnat Nat.add]; [ring|]. rewrite IH. ring. Qed.

(* ---------------- finite sums ---------------- *)
Fixpoint sumF (n : nat) (f : nat -> F) : F :=
  match n with O => 0 | S n' => sumF n' f + f n' end.

Lemma sumF_S n f : sumF (S n) f = sumF n f + f n.
Proof. reflexivity. Qed.

Lemma sumF_ext n f h : (forall i, (i < n)%nat -> f i = h i) -> sumF n f = sumF n h.
Proof.
  induction n as [|n IH]; intros H; [reflexivity|]. rewrite !sumF_S.
  rewrite IH by (intros; apply H; lia). rewrite H by lia. reflexivity.
Qed.

Lemma sumF_first n f : sumF (S n) f = f O + sumF n (fun i => f (S i)).
Proof.
  induction n as [|n IH].
  - cbn [sumF]. ring.
  - rewrite sumF_S, IH, (sumF_S n). ring.
Qed.

Lemma sumF_add n f h : sumF n (fun i => f i + h i) = sumF n f + sumF n h.
Proof. induction n as [|n IH]; cbn [sumF]; [ring|]. rewrite IH. ring. Qed.

Lemma sumF_scal n c f : sumF n (fun i => c * f i) = c * sumF n f.
Proof. induction n as [|n IH]; cbn [sumF]; [ring|]. rewrite IH. ring. Qed.

Lemma sumF_refl n : forall f, sumF (S n) (fun i => f (n - i)%nat) = sumF (S n) f.
Proof.
  induction n as [|n IH]; intros f.
  - reflexivity.
  - rewrite sumF_first. rewrite Nat.sub_0_r.
    change (sumF (S n) (fun i => f (S n - S i)%nat)) with (sumF (S n) (fun i => f (n - i)%nat)).
    rewrite (IH f). rewrite (sumF_S (S n) f). ring.
Qed.

(* the symmetric-sum shortcut *)
Lemma half_sum_aux n :
  (forall t, (forall i, (i <= n)%nat -> t (n - i)%nat = t i) ->
     sumF (S n) t = sumF (S (n / 2)) (fun i => #(sfactor n i) * t i)) /\
  (forall t, (forall i, (i <= S n)%nat -> t (S n - i)%nat = t i) ->
     sumF (S (S n)) t = sumF (S (S n / 2)) (fun i => #(sfactor (S n) i) * t i)).
Proof.
  induction n as [|n [IH0 IH1]].
  - split; intros t Ht.
    + cbn. ring.
    + pose proof (Ht O ltac:(lia)) as H0. cbn in H0. cbn. rewrite H0. ring.
  - split; [exact IH1|]. intros t Ht.
    rewrite div2_SS.
    rewrite (sumF_S (S (S n)) t), (sumF_first (S n) t).
    assert (Hl : t (S (S n)) = t O).
    { rewrite <- (Ht O) by lia. rewrite Nat.sub_0_r. reflexivity. }
    rewrite Hl.
    rewrite (IH0 (fun i => t (S i))).
    2:{ intros i Hi. rewrite <- (Ht (S i)) by lia. f_equal. lia. }
    rewrite (sumF_first (S (n / 2))).
    assert (Hf : sfactor (S (S n)) O = 2%nat).
    { unfold sfactor. rewrite div2_SS. cbn [Nat.eqb]. rewrite andb_false_r. reflexivity. }
    rewrite Hf.
    assert (Hs : sumF (S (n / 2)) (fun i => #(sfactor (S (S n)) (S i)) * t (S i))
               = sumF (S (n / 2)) (fun i => #(sfactor n i) * t (S i))).
    { apply sumF_ext. intros i _. unfold sfactor. rewrite div2_SS. reflexivity. }
    rewrite Hs. cbn [ofnat]. ring.
Qed.

Lemma half_sum n t : (forall i, (i <= n)%nat -> t (n - i)%nat = t i) ->
  sumF (S n) t = sumF (S (n / 2)) (fun i => #(sfactor n i) * t i).
Proof. apply (proj1 (half_sum_aux n)). Qed.

(* ---------------- binomial sums ---------------- *)
Definition bsum (n : nat) (f : nat -> nat -> F) : F :=
  sumF (S n) (fun l => cB K n l * f l (n - l)%nat).

Lemma bsum_ext n f h : (forall i j, f i j = h i j) -> bsum n f = bsum n h.
Proof. intros H. unfold bsum. apply sumF_ext. intros i _. rewrite H. reflexivity. Qed.

Lemma cB_S n k : cB K (S n) (S k) = cB K n k + cB K n (S k).
Proof. unfold cB. cbn [binom]. apply ofnat_add. Qed.

Lemma bsum_pascal n f : bsum (S n) f = bsum n (fun i j => f (S i) j + f i (S j)).
Proof.
  unfold bsum.
  set (A := sumF (S n) (fun i => cB K n i * f (S i) (n - i)%nat)).
  set (B := sumF n (fun i => cB K n (S i) * f (S i) (n - i)%nat)).
  assert (HL : sumF (S (S n)) (fun l => cB K (S n) l * f l (S n - l)%nat) = f O (S n) + A + B).
  { rewrite sumF_first. rewrite Nat.sub_0_r.
    change (sumF (S n) (fun i => cB K (S n) (S i) * f (S i) (S n - S i)%nat))
      with (sumF (S n) (fun i => cB K (S n) (S i) * f (S i) (n - i)%nat)).
    assert (E : sumF (S n) (fun i => cB K (S n) (S i) * f (S i) (n - i)%nat)
              = sumF (S n) (fun i => cB K n i * f (S i) (n - i)%nat + cB K n (S i) * f (S i) (n - i)%nat)).
    { apply sumF_ext. intros i _. rewrite cB_S. ring. }
    rewrite E, sumF_add. fold A.
    rewrite (sumF_S n (fun i => cB K n (S i) * f (S i) (n - i)%nat)). fold B.
    unfold cB at 1. rewrite binom_0_r. unfold cB at 1. rewrite (binom_gt n (S n)) by lia.
    cbn [ofnat]. ring. }
  assert (HR : sumF (S n) (fun l => cB K n l * (f (S l) (n - l)%nat + f l (S (n - l)))) = f O (S n) + A + B).
  { assert (E : sumF (S n) (fun l => cB K n l * (f (S l) (n - l)%nat + f l (S (n - l))))
              = sumF (S n) (fun l => cB K n l * f (S l) (n - l)%nat + cB K n l * f l (S (n - l)))).
    { apply sumF_ext. intros i _. ring. }
    rewrite E, sumF_add. fold A.
    rewrite (sumF_first n (fun l => cB K n l * f l (S (n - l)))). rewrite Nat.sub_0_r.
    assert (E2 : sumF n (fun i => cB K n (S i) * f (S i) (S (n - S i))) = B).
    { unfold B. apply sumF_ext. intros i Hi. replace (S (n - S i)) with (n - i)%nat by lia. reflexivity. }
    rewrite E2. unfold cB at 1. rewrite binom_0_r. cbn [ofnat]. ring. }
  rewrite HL, HR. reflexivity.
Qed.

Lemma bsum_flip_ext n f h : (forall i j, f j i = h i j) -> bsum n f = bsum n h.
Proof.
  intros H. unfold bsum.
  rewrite <- (sumF_refl n (fun l => cB K n l * f l (n - l)%nat)).
  apply sumF_ext. intros i Hi. cbv beta.
  unfold cB. rewrite binom_sym by lia.
  replace (n - (n - i))%nat with i by lia. rewrite H. reflexivity.
Qed.

(* ---------------- evaluation of jets ---------------- *)
Lemma eval_app g (a b : jetF) : evalK g (a ++ b) = evalK g a + evalK g b.
Proof. induction a as [|t a IH]; cbn [app eval]; [ring|]. rewrite IH. ring. Qed.

Lemma eval_scale g c (j : jetF) : evalK g (scale K c j) = c * evalK g j.
Proof. induction j as [|t j IH]; cbn [scale map eval fst snd]; [ring|].
  unfold scale in IH. rewrite IH. ring. Qed.

Lemma eval_flat_seq g (h : nat -> jetF) n :
  evalK g (flat_map h (seq 0 n)) = sumF n (fun i => evalK g (h i)).
Proof.
  induction n as [|n IH]; [reflexivity|].
  rewrite seq_S, flat_map_app, eval_app, IH. cbn [flat_map Nat.add]. rewrite app_nil_r.
  reflexivity.
Qed.

Lemma eval_map_seq g (c : nat -> F) (s : nat -> ord * ord) n :
  evalK g (map (fun i => (c i, s i)) (seq 0 n)) = sumF n (fun i => c i * g (fst (s i)) (snd (s i))).
Proof.
  induction n as [|n IH]; [reflexivity|].
  rewrite seq_S, map_app, eval_app, IH. cbn [map Nat.add eval fst snd sumF]. ring.
Qed.

Lemma eval_leib_inner g lx ly lz ix :
  evalK g (leib_inner K lx ly lz ix)
  = bsum ly (fun iy jy => bsum lz (fun iz jz => g (ix, iy, iz) ((lx - ix)%nat, jy, jz))).
Proof.
  unfold leib_inner, bsum. rewrite eval_flat_seq. apply sumF_ext. intros iy _.
  rewrite eval_scale. f_equal.
  rewrite (eval_map_seq g (fun iz => cB K lz iz)
             (fun iz => ((ix, iy, iz), ((lx - ix)%nat, (ly - iy)%nat, (lz - iz)%nat)))).
  reflexivity.
Qed.

Lemma eval_leibniz g lx ly lz :
  evalK g (leibniz K (lx, ly, lz))
  = bsum lx (fun ix jx => bsum ly (fun iy jy => bsum lz (fun iz jz => g (ix, iy, iz) (jx, jy, jz)))).
Proof.
  unfold leibniz. rewrite eval_flat_seq. unfold bsum at 1. apply sumF_ext. intros ix _.
  rewrite eval_scale, eval_leib_inner. reflexivity.
Qed.

(* ---------------- the derivative, seen through eval ---------------- *)
Definition Dg (k : nat) (g : ord -> ord -> F) : ord -> ord -> F :=
  fun a b => g (bump k a) b + g a (bump k b).
Fixpoint Dgn (k n : nat) (g : ord -> ord -> F) : ord -> ord -> F :=
  match n with O => g | S n' => Dgn k n' (Dg k g) end.

Lemma eval_D g k (j : jetF) : evalK g (D k j) = evalK (Dg k g) j.
Proof.
  unfold D. induction j as [|t j IH]; [reflexivity|].
  cbn [flat_map app eval fst snd]. rewrite IH. unfold Dg. ring.
Qed.

Lemma eval_Dn k n : forall g (j : jetF), evalK g (Dn k n j) = evalK (Dgn k n g) j.
Proof.
  induction n as [|n IH]; intros g j; cbn [Dn Dgn]; [reflexivity|].
  rewrite eval_D, IH. reflexivity.
Qed.

Lemma Dgn_bsum k n : forall G a b,
  Dgn k n G a b = bsum n (fun i j => G (bumpn k i a) (bumpn k j b)).
Proof.
  induction n as [|n IH]; intros G a b.
  - cbn [Dgn]. unfold bsum, cB. cbn [sumF binom ofnat bumpn Nat.sub]. ring.
  - cbn [Dgn]. rewrite IH, bsum_pascal. apply bsum_ext. intros i j. reflexivity.
Qed.

(* The Leibniz double-binomial sum IS the iterated product rule, for every order triple. *)
Theorem leibniz_drho g L : evalK g (leibniz K L) = evalK g (drho K L).
Proof.
  destruct L as [[lx ly] lz]. rewrite eval_leibniz. unfold drho, Dord. rewrite !eval_Dn.
  unfold G00. cbn [eval fst snd]. rewrite Dgn_bsum.
  transitivity (bsum lx (fun i j => Dgn 1 ly (Dgn 2 lz g) (bumpn 0 i ord0) (bumpn 0 j ord0))); [|ring].
  apply bsum_ext. intros ix jx. rewrite Dgn_bsum. apply bsum_ext. intros iy jy.
  rewrite Dgn_bsum. apply bsum_ext. intros iz jz.
  unfold ord0. rewrite !bumpn_0, !bumpn_1, !bumpn_2, !Nat.add_0_r. reflexivity.
Qed.

(* The symmetry shortcut of evaluate_deriv_density equals the full Leibniz sum, for every order triple,
   as soon as G(a,b) = G(b,a). *)
Theorem shortcut_leibniz g (Hs : forall a b, g a b = g b a) L :
  evalK g (shortcut K L) = evalK g (leibniz K L).
Proof.
  destruct L as [[lx ly] lz]. unfold shortcut, leibniz. rewrite !eval_flat_seq.
  set (T := fun ix => cB K lx ix * evalK g (leib_inner K lx ly lz ix)).
  assert (E1 : sumF (S (lx / 2))
                 (fun i => evalK g (scale K (#(sfactor lx i) * cB K lx i) (leib_inner K lx ly lz i)))
             = sumF (S (lx / 2)) (fun i => #(sfactor lx i) * T i)).
  { apply sumF_ext. intros i _. rewrite eval_scale. unfold T. ring. }
  assert (E2 : sumF (S lx) (fun i => evalK g (scale K (cB K lx i) (leib_inner K lx ly lz i)))
             = sumF (S lx) T).
  { apply sumF_ext. intros i _. rewrite eval_scale. reflexivity. }
  rewrite E1, E2. symmetry. apply half_sum.
  intros i Hi. unfold T. unfold cB at 1. rewrite binom_sym by lia. fold (cB K lx i). f_equal.
  rewrite !eval_leib_inner. replace (lx - (lx - i))%nat with i by lia.
  apply bsum_flip_ext. intros iy jy. cbv beta.
  apply bsum_flip_ext. intros iz jz. cbv beta. apply Hs.
Qed.

Theorem shortcut_correct g (Hs : forall a b, g a b = g b a) L :
  evalK g (shortcut K L) = evalK g (drho K L).
Proof. rewrite shortcut_leibniz by exact Hs. apply leibniz_drho. Qed.

(* ---------------- specialised functions ---------------- *)
Lemma eval_canon g (Hs : forall a b, g a b = g b a) (j : jetF) : evalK g (canon j) = evalK g j.
Proof.
  unfold canon. induction j as [|t j IH]; [reflexivity|].
  cbn [map eval fst snd]. rewrite IH. unfold canon_key.
  destruct (ord_leb (fst (snd t)) (snd (snd t))); cbn [fst snd]; [reflexivity|].
  rewrite (Hs (snd (snd t))). reflexivity.
Qed.

Ltac by_canon g Hs :=
  match goal with
  | |- eval _ _ ?a = eval _ _ ?b =>
      rewrite <- (eval_canon g Hs a), <- (eval_canon g Hs b); cbn; unfold two; ring
  end.

Theorem grad_correct g (Hs : forall a b, g a b = g b a) k : (k < 3)%nat ->
  evalK g (grad_model K k) = evalK g (drho K (eax k)).
Proof. intros Hk. destruct k as [|[|[|k]]]; try lia; by_canon g Hs. Qed.

Theorem lap_correct g (Hs : forall a b, g a b = g b a) :
  evalK g (lap_model K) = evalK g (lap_def K).
Proof. by_canon g Hs. Qed.

Theorem hess_correct g (Hs : forall a b, g a b = g b a) p q : (p < 3)%nat -> (q < 3)%nat ->
  evalK g (hess_model K p q) = evalK g (drho K (oplus (eax p) (eax q))).
Proof.
  intros Hp Hq. destruct p as [|[|[|p]]]; try lia; destruct q as [|[|[|q]]]; try lia; by_canon g Hs.
Qed.

Theorem hess_sym g p q : evalK g (hess_model K p q) = evalK g (hess_model K q p).
Proof. unfold hess_model. rewrite (oplus_comm (eax p)), (Nat.min_comm p), (Nat.max_comm p). reflexivity. Qed.

Theorem hess_trace_lap g (Hs : forall a b, g a b = g b a) :
  evalK g (hess_model K 0 0 ++ hess_model K 1 1 ++ hess_model K 2 2) = evalK g (lap_model K).
Proof. by_canon g Hs. Qed.

Theorem gked_correct g (Hs : forall a b, g a b = g b a) alpha :
  evalK g (gked_model K alpha) = evalK g (gked_def K alpha).
Proof. unfold gked_model, gked_def. rewrite !eval_app, !eval_scale, lap_correct by exact Hs. reflexivity. Qed.

(* ---------------- the normal form is sound ---------------- *)
Section Decide.
Hypothesis Heqb : forall x y, feqb K x y = true -> x = y.

Lemma eval_insert g c s (j : jetF) : evalK g (insert K c s j) = c * g (fst s) (snd s) + evalK g j.
Proof.
  induction j as [|t j IH]; cbn [insert eval fst snd]; [reflexivity|].
  destruct (key_cmp s (snd t)) eqn:E.
  - apply key_cmp_eq in E. subst s. cbn [eval fst snd]. ring.
  - reflexivity.
  - cbn [eval]. rewrite IH. ring.
Qed.

Lemma eval_sortj g (j : jetF) : evalK g (sortj K j) = evalK g j.
Proof.
  unfold sortj. induction j as [|t j IH]; [reflexivity|].
  cbn [fold_right]. rewrite eval_insert, IH. reflexivity.
Qed.

Lemma eval_dropz g (j : jetF) : evalK g (dropz K j) = evalK g j.
Proof.
  unfold dropz. induction j as [|t j IH]; [reflexivity|].
  cbn [filter]. destruct (feqb K (fst t) 0) eqn:E; cbn [negb eval].
  - apply Heqb in E. rewrite IH, E. ring.
  - rewrite IH. reflexivity.
Qed.

Lemma eval_normalize g (j : jetF) : evalK g (normalize K j) = evalK g j.
Proof. unfold normalize. rewrite eval_dropz, eval_sortj. reflexivity. Qed.

Lemma jet_eqb_sound g : forall a b : jetF, jet_eqb K a b = true -> evalK g a = evalK g b.
Proof.
  induction a as [|t a IH]; intros [|u b]; cbn [jet_eqb]; try discriminate; [reflexivity|].
  intros H. apply andb_prop in H as [H1 H3]. apply andb_prop in H1 as [H1 H2].
  destruct (key_cmp (snd t) (snd u)) eqn:E; try discriminate.
  apply key_cmp_eq in E. apply Heqb in H1. cbn [eval]. rewrite H1, E, (IH _ H3). reflexivity.
Qed.

Theorem jet_equiv_sound (a b : jetF) : jet_equiv_b K a b = true -> forall g, evalK g a = evalK g b.
Proof.
  intros H g. unfold jet_equiv_b in H. apply (jet_eqb_sound g) in H.
  rewrite !eval_normalize in H. exact H.
Qed.

Theorem jet_equiv_sym_sound (a b : jetF) : jet_equiv_sym_b K a b = true ->
  forall g, (forall x y, g x y = g y x) -> evalK g a = evalK g b.
Proof.
  intros H g Hs. unfold jet_equiv_sym_b in H. apply jet_equiv_sound with (g := g) in H.
  rewrite !eval_canon in H by exact Hs. exact H.
Qed.
End Decide.
End P.

(* ------------------------------------------------------------------ *)
(* non-negativity for a positive semi-definite density matrix (over R) *)
(* ------------------------------------------------------------------ *)
From Coq Require Import Reals Lra.
Section PSD.
Local Open Scope R_scope.
Variable n : nat.                    (* number of basis functions *)
Variable P : nat -> nat -> R.        (* density matrix *)
Variable phi : ord -> nat -> R.      (* derivative o of basis function a at the point *)

Fixpoint rsum (m : nat) (f : nat -> R) : R :=
  match m with O => 0 | S k => rsum k f + f k end.
Definition quad (v : nat -> R) : R := rsum n (fun a => rsum n (fun b => P a b * v a * v b)).
(* the number the symbol G(o1,o2) stands for *)
Definition Gval (o1 o2 : ord) : R := rsum n (fun a => rsum n (fun b => P a b * phi o1 a * phi o2 b)).

Lemma rsum_ext m f h : (forall i, (i < m)%nat -> f i = h i) -> rsum m f = rsum m h.
Proof.
  induction m as [|m IH]; intros H; [reflexivity|]. cbn [rsum].
  rewrite IH by (intros; apply H; lia). rewrite H by lia. reflexivity.
Qed.
Lemma rsum_add m f h : rsum m (fun i => f i + h i) = rsum m f + rsum m h.
Proof. induction m as [|m IH]; cbn [rsum]; [lra|]. rewrite IH. lra. Qed.
Lemma rsum_0 m : rsum m (fun _ => 0) = 0.
Proof. induction m as [|m IH]; cbn [rsum]; lra. Qed.
Lemma rsum_swap m k (f : nat -> nat -> R) :
  rsum m (fun a => rsum k (fun b => f a b)) = rsum k (fun b => rsum m (fun a => f a b)).
Proof.
  induction m as [|m IH]; cbn [rsum].
  - rewrite rsum_0. reflexivity.
  - rewrite IH, <- rsum_add. reflexivity.
Qed.

(* for a symmetric matrix the intended assignment is symmetric: the hypothesis of the jet theorems holds *)
Lemma Gval_sym : (forall a b, P a b = P b a) -> forall o1 o2, Gval o1 o2 = Gval o2 o1.
Proof.
  intros HP o1 o2. unfold Gval. rewrite rsum_swap.
  apply rsum_ext. intros a _. apply rsum_ext. intros b _. rewrite (HP b a). ring.
Qed.

Hypothesis PSD : forall v, 0 <= quad v.

Theorem density_nonneg : 0 <= Gval ord0 ord0.
Proof. exact (PSD (phi ord0)). Qed.

Theorem ked_nonneg :
  0 <= / 2 * (Gval (eax 0) (eax 0) + Gval (eax 1) (eax 1) + Gval (eax 2) (eax 2)).
Proof.
  pose proof (PSD (phi (eax 0))) as H0. pose proof (PSD (phi (eax 1))) as H1.
  pose proof (PSD (phi (eax 2))) as H2. unfold quad in *. unfold Gval. lra.
Qed.
End PSD.

(* a PSD matrix exists (identity on one function), so the hypothesis is satisfiable *)
Example psd_satisfiable : forall v : nat -> R, (0 <= quad 1 (fun _ _ => 1) v)%R.
Proof. intros v. unfold quad. cbn [rsum]. pose proof (Rle_0_sqr (v O)) as H. unfold Rsqr in H. lra. Qed.

(* ------------------------------------------------------------------ *)
(* the threshold rule (over Q, executable)                             *)
(* ------------------------------------------------------------------ *)
From Coq Require Import QArith Qabs Lqa.
Section Clip.
Local Open Scope Q_scope.

(* density.py:107-110 and 687-690 on one value: error when x < 0 and |x| > thr, else max(x, 0) *)
Definition clip (thr x : Q) : option Q :=
  if Qlt_le_dec x 0
  then (if Qlt_le_dec thr (Qabs x) then None else Some 0)
  else Some x.

Theorem clip_spec thr x : 0 <= thr ->
  (x < - thr -> clip thr x = None) /\
  (- thr <= x /\ x < 0 -> clip thr x = Some 0) /\
  (0 <= x -> clip thr x = Some x) /\
  (clip thr x = None -> x < - thr).
Proof.
  intros Ht. unfold clip. repeat split.
  - intros H. destruct (Qlt_le_dec x 0) as [Hn|Hn]; [|lra].
    destruct (Qlt_le_dec thr (Qabs x)) as [Hb|Hb]; [reflexivity|].
    rewrite Qabs_neg in Hb by lra. lra.
  - intros [H1 H2]. destruct (Qlt_le_dec x 0) as [Hn|Hn]; [|lra].
    destruct (Qlt_le_dec thr (Qabs x)) as [Hb|Hb]; [|reflexivity].
    rewrite Qabs_neg in Hb by lra. lra.
  - intros H. destruct (Qlt_le_dec x 0) as [Hn|Hn]; [lra|reflexivity].
  - destruct (Qlt_le_dec x 0) as [Hn|Hn]; [|discriminate].
    destruct (Qlt_le_dec thr (Qabs x)) as [Hb|Hb]; [|discriminate].
    intros _. rewrite Qabs_neg in Hb by lra. lra.
Qed.

(* the array form: the code tests only the minimum, then clips every element *)
Fixpoint qmin (x : Q) (l : list Q) : Q :=
  match l with [] => x | y :: r => qmin (if Qlt_le_dec y x then y else x) r end.
Definition clip_arr (thr : Q) (x : Q) (r : list Q) : option (list Q) :=
  let m := qmin x r in
  if Qlt_le_dec m 0
  then (if Qlt_le_dec thr (Qabs m) then None
        else Some (map (fun y => if Qlt_le_dec y 0 then 0 else y) (x :: r)))
  else Some (map (fun y => if Qlt_le_dec y 0 then 0 else y) (x :: r)).

Lemma qmin_le r : forall x, qmin x r <= x /\ (forall y, In y r -> qmin x r <= y).
Proof.
  induction r as [|z r IH]; intros x; cbn [qmin].
  - split; [lra|]. intros y [].
  - destruct (Qlt_le_dec z x) as [H|H]; destruct (IH z) as [A B]; destruct (IH x) as [A' B'].
    + split; [lra|]. intros y [->|Hy]; [exact A|apply B; exact Hy].
    + split; [exact A'|]. intros y [<-|Hy]; [lra|apply B'; exact Hy].
Qed.

Lemma qmin_in r : forall x, qmin x r = x \/ In (qmin x r) r.
Proof.
  induction r as [|z r IH]; intros x; cbn [qmin]; [left; reflexivity|].
  destruct (Qlt_le_dec z x) as [H|H].
  - destruct (IH z) as [E|E]; [right; left; symmetry; exact E|right; right; exact E].
  - destruct (IH x) as [E|E]; [left; exact E|right; right; exact E].
Qed.

(* the whole array is rejected exactly when some element is below -thr *)
Theorem clip_arr_spec thr x r : 0 <= thr ->
  (clip_arr thr x r = None <-> exists y, In y (x :: r) /\ y < - thr).
Proof.
  intros Ht. unfold clip_arr. destruct (qmin_le r x) as [A B]. split.
  - intros H. destruct (Qlt_le_dec (qmin x r) 0) as [Hn|Hn]; [|discriminate].
    destruct (Qlt_le_dec thr (Qabs (qmin x r))) as [Hb|Hb]; [|discriminate].
    rewrite Qabs_neg in Hb by lra. exists (qmin x r). split; [|lra].
    destruct (qmin_in r x) as [E|E]; [left; symmetry; exact E|right; exact E].
  - intros [y [Hy Hlt]].
    assert (Hm : qmin x r <= y) by (destruct Hy as [<-|Hy]; [exact A|apply B; exact Hy]).
    destruct (Qlt_le_dec (qmin x r) 0) as [Hn|Hn]; [|lra].
    destruct (Qlt_le_dec thr (Qabs (qmin x r))) as [Hb|Hb]; [reflexivity|].
    rewrite Qabs_neg in Hb by lra. lra.
Qed.
End Clip.
