(* Proofs/EvalP.v — lemmas about Model/Eval.v (generic field, all n l alpha x, by induction):
   the Leibniz/Hermite sum of the general back-end and the hand-expanded formulas of the direct
   back-end both equal the specification polynomial [u]; the rows the block runs hold exactly
   these values; the direct back-end refuses orders above two. *)
From Coq Require Import List Arith Lia Bool Field.
From GB Require Import Base.Field Base.FNum Base.Tables Model.Shell Model.MomentInt Model.Overlap
  Model.Eval.
Import ListNotations.

Section P.
Context {F : Type} (K : Fops F) (Kf : is_field K).
Add Field KF : Kf.
Local Open Scope F_scope.
Notation "0" := (f0 K) : F_scope.
Notation "1" := (f1 K) : F_scope.
Infix "+" := (fadd K) : F_scope.
Infix "*" := (fmul K) : F_scope.
Infix "-" := (fsub K) : F_scope.
Infix "/" := (fdiv K) : F_scope.
Notation "- x" := (fopp K x) : F_scope.
Notation "# n" := (ofnat K n) (at level 5) : F_scope.
Notation fpow := (FNum.fpow K).
Notation sumn := (Tables.sumn 0 (fadd K)).

(* ---------------- finite sums ---------------- *)
Lemma sumn_S n f : sumn (S n) f = sumn n f + f n.
Proof. reflexivity. Qed.

Lemma sumn_zero n f : (forall k, (k < n)%nat -> f k = 0) -> sumn n f = 0.
Proof.
  induction n as [|n IH]; intros H; cbn [Tables.sumn]; [reflexivity|].
  rewrite IH by (intros; apply H; lia). rewrite H by lia. ring.
Qed.

Lemma sumn_trunc n m f : (n <= m)%nat -> (forall k, (n <= k < m)%nat -> f k = 0) ->
  sumn m f = sumn n f.
Proof.
  intros Hnm. induction Hnm as [|m Hm IH]; intros H; [reflexivity|].
  cbn [Tables.sumn]. rewrite IH by (intros; apply H; lia). rewrite H by lia. ring.
Qed.

Lemma sumn_add n f g : sumn n (fun k => f k + g k) = sumn n f + sumn n g.
Proof. induction n as [|n IH]; cbn [Tables.sumn]; [ring|]. rewrite IH. ring. Qed.

Lemma sumn_scale n c f : sumn n (fun k => c * f k) = c * sumn n f.
Proof. induction n as [|n IH]; cbn [Tables.sumn]; [ring|]. rewrite IH. ring. Qed.

Lemma lin_close (a b c : F) : a = b -> forall L R, L - R = c * (a - b) -> L = R.
Proof.
  intros E L R HLR. rewrite E in HLR.
  transitivity (R + (L - R)); [ring|]. rewrite HLR. ring.
Qed.

(* ---------------- one axis ---------------- *)
Section Axis.
Variables alpha x : F.
Let U := fun l n => u K alpha l n x.
Let H := herm K alpha x.
Let B := pbin K.

Lemma hpair_snd m : snd (hpair K alpha x (S m)) = fst (hpair K alpha x m).
Proof. cbn [hpair]. destruct (hpair K alpha x m) as [a b]. reflexivity. Qed.

Lemma herm_S m : H (S m) = - ((1 + 1) * alpha * (x * H m + #m * snd (hpair K alpha x m))).
Proof. unfold H, herm. cbn [hpair]. destruct (hpair K alpha x m) as [a b]. reflexivity. Qed.

Lemma herm_0 : H 0%nat = 1.
Proof. reflexivity. Qed.

Lemma herm_1 : H 1%nat = - ((1 + 1) * alpha * x).
Proof. rewrite herm_S. cbn [hpair snd ofnat]. rewrite herm_0. ring. Qed.

Lemma herm_SS m : H (S (S m)) = - ((1 + 1) * alpha * (x * H (S m) + #(S m) * H m)).
Proof. rewrite herm_S. rewrite hpair_snd. reflexivity. Qed.

(* --- the specification also obeys the multiplication-by-x rule --- *)
Lemma u_S l n : U l (S n) =
  (match l with O => 0 | S l' => #l * U l' n end) - (1 + 1) * alpha * U (S l) n.
Proof. reflexivity. Qed.

Lemma u_X : forall n l, U (S l) n = x * U l n + #n * U l (n - 1).
Proof.
  induction n as [|n IH]; intros l.
  - unfold U. cbn [u FNum.fpow ofnat]. ring.
  - replace (S n - 1)%nat with n by lia.
    rewrite (u_S (S l) n), (u_S l n).
    rewrite (IH (S l)).
    destruct l as [|l'].
    + destruct n as [|n'].
      * cbn [ofnat]. ring.
      * replace (S n' - 1)%nat with n' by lia.
        rewrite (u_S 0 n'). cbn [ofnat]. ring.
    + destruct n as [|n'].
      * rewrite (IH l'). cbn [ofnat]. ring.
      * pose proof (u_S (S l') n') as E2.
        rewrite (IH l') in E2 |- *.
        replace (S n' - 1)%nat with n' in * by lia.
        apply (lin_close _ _ (- #(S n')) E2). cbn [ofnat]. ring.
Qed.

Lemma u_0_herm : forall n, U 0%nat n = H n /\ U 0%nat (S n) = H (S n).
Proof.
  induction n as [|n [IH1 IH2]].
  - split; [reflexivity|]. rewrite herm_1. unfold U. cbn [u FNum.fpow]. ring.
  - split; [exact IH2|].
    rewrite (u_S 0 (S n)), (u_X (S n) 0). replace (S n - 1)%nat with n by lia.
    rewrite IH1, IH2, herm_SS. ring.
Qed.

(* --- j-th derivative of x^l, recursively --- *)
Fixpoint pd (l j : nat) {struct j} : F :=
  match j with
  | O => fpow x l
  | S j' => match l with O => 0 | S l' => #l * pd l' j' end
  end.

Lemma ffall_pd : forall j l,
  (if (j <=? l)%nat then ffall K l j * fpow x (l - j) else 0) = pd l j.
Proof.
  induction j as [|j IH]; intros l.
  - cbn [Nat.leb ffall pd]. rewrite Nat.sub_0_r. ring.
  - destruct l as [|l'].
    + reflexivity.
    + cbn [pd]. rewrite <- (IH l'). cbn [Nat.leb ffall Nat.sub]. rewrite Nat.sub_0_r.
      destruct (j <=? l')%nat; ring.
Qed.

Lemma pd_0_S j : pd 0 (S j) = 0.
Proof. reflexivity. Qed.

Lemma pd_X : forall j l, pd (S l) j = x * pd l j + #j * pd l (j - 1).
Proof.
  induction j as [|j IH]; intros l.
  - cbn [pd FNum.fpow ofnat Nat.sub]. ring.
  - replace (S j - 1)%nat with j by lia.
    destruct l as [|l'].
    + destruct j as [|j']; cbn [pd FNum.fpow ofnat]; ring.
    + destruct j as [|j'].
      * cbn [pd FNum.fpow ofnat]. ring.
      * pose proof (IH l') as E1. replace (S j' - 1)%nat with j' in E1 by lia.
        change (pd (S (S l')) (S (S j'))) with (#(S (S l')) * pd (S l') (S j')).
        change (pd (S l') (S (S j'))) with (#(S l') * pd l' (S j')).
        change (pd (S l') (S j')) with (#(S l') * pd l' j') in E1 |- *.
        apply (lin_close _ _ #(S l') E1). cbn [ofnat]. ring.
Qed.

(* --- Pascal's triangle --- *)
Lemma pbin_gt : forall n k, (n < k)%nat -> B n k = 0.
Proof.
  induction n as [|n IH]; intros k Hk; destruct k as [|k']; try lia.
  - reflexivity.
  - unfold B in *. cbn [pbin]. rewrite (IH k') by lia. rewrite (IH (S k')) by lia. ring.
Qed.

Lemma pbin_nn : forall n, B n n = 1.
Proof.
  induction n as [|n IH]; [reflexivity|].
  unfold B in *. cbn [pbin]. rewrite IH. fold B. rewrite (pbin_gt n (S n)) by lia. ring.
Qed.

Lemma pbin_absorb : forall n k, #(S n - k) * B (S n) k = #(S n) * B n k.
Proof.
  induction n as [|n IH]; intros k.
  - destruct k as [|[|k']]; unfold B; cbn [pbin Nat.sub ofnat]; ring.
  - destruct k as [|k'].
    + unfold B. cbn [pbin]. rewrite Nat.sub_0_r. ring.
    + change (B (S (S n)) (S k')) with (B (S n) k' + B (S n) (S k')).
      replace (S (S n) - S k')%nat with (S n - k')%nat by lia.
      destruct (Nat.le_gt_cases k' n) as [Hle|Hgt].
      * pose proof (IH k') as E1. pose proof (IH (S k')) as E2.
        set (d := (S n - S k')%nat) in *.
        assert (Hd : (S n - k')%nat = S d) by (unfold d; lia).
        rewrite Hd in E1 |- *.
        transitivity (#(S d) * B (S n) k' + #d * B (S n) (S k') + B (S n) (S k'));
          [cbn [ofnat]; ring|].
        rewrite E1, E2.
        change (B (S n) (S k')) with (B n k' + B n (S k')). cbn [ofnat]. ring.
      * replace (S n - k')%nat with 0%nat by lia.
        rewrite (pbin_gt (S n) (S k')) by lia.
        cbn [ofnat]. ring.
Qed.

(* --- the Leibniz sum --- *)
Definition G (n l : nat) : F := sumn (S n) (fun k => B n k * pd l (n - k) * H k).

Lemma gen_term_le n l k : (k <= n)%nat ->
  gen_term K n l alpha x k = B n k * pd l (n - k) * H k.
Proof.
  intros Hk. unfold gen_term.
  replace (n <? k)%nat with false by (symmetry; apply Nat.ltb_ge; lia).
  rewrite orb_false_r. rewrite <- (ffall_pd (n - k) l).
  destruct (Nat.ltb_spec k (n - l)) as [Hlt|Hge].
  - replace (n - k <=? l)%nat with false by (symmetry; apply Nat.leb_gt; lia). ring.
  - replace (n - k <=? l)%nat with true by (symmetry; apply Nat.leb_le; lia).
    replace (l + k - n)%nat with (l - (n - k))%nat by lia. unfold B, H. ring.
Qed.

Lemma gen_term_gt n l k : (n < k)%nat -> gen_term K n l alpha x k = 0.
Proof.
  intros Hk. unfold gen_term.
  replace (n <? k)%nat with true by (symmetry; apply Nat.ltb_lt; lia).
  rewrite orb_true_r. reflexivity.
Qed.

Lemma general_is_G nmax n l : (n <= nmax)%nat ->
  deriv_general_upto K nmax n l alpha x = G n l.
Proof.
  intros Hn. unfold deriv_general_upto, G.
  destruct (Nat.eqb_spec n 0) as [->|Hn0].
  - cbn [Tables.sumn Nat.sub pd]. unfold B. cbn [pbin]. rewrite herm_0. ring.
  - rewrite (sumn_trunc (S n) (S nmax)); [| lia | intros k Hk; apply gen_term_gt; lia].
    apply sumn_ext. intros k Hk. apply gen_term_le. lia.
Qed.

Lemma G_0 n : G n 0 = H n.
Proof.
  unfold G. cbn [Tables.sumn]. rewrite sumn_zero.
  - rewrite Nat.sub_diag, pbin_nn. cbn [pd FNum.fpow]. ring.
  - intros k Hk. replace (n - k)%nat with (S (n - k - 1)) by lia. rewrite pd_0_S. ring.
Qed.

Lemma G_X n l : G n (S l) = x * G n l + #n * G (n - 1) l.
Proof.
  unfold G at 1.
  rewrite (sumn_ext _ _ (S n) _
     (fun k => x * (B n k * pd l (n - k) * H k) + #(n - k) * B n k * pd l (n - k - 1) * H k)).
  2:{ intros k Hk. rewrite pd_X. ring. }
  rewrite sumn_add, sumn_scale. fold (G n l). f_equal.
  destruct n as [|m].
  - cbn [Tables.sumn Nat.sub ofnat]. ring.
  - rewrite (sumn_S (S m)). rewrite Nat.sub_diag. change (ofnat K 0) with (f0 K).
    replace (S m - 1)%nat with m by lia. unfold G. rewrite <- sumn_scale.
    transitivity (sumn (S m) (fun k => #(S m) * (B m k * pd l (m - k) * H k)) + 0); [|ring].
    f_equal; [|ring].
    apply sumn_ext. intros k Hk.
    replace (S m - k - 1)%nat with (m - k)%nat by lia.
    transitivity ((#(S m - k) * B (S m) k) * (pd l (m - k) * H k)); [ring|].
    rewrite pbin_absorb. ring.
Qed.

Lemma G_is_u : forall l n, G n l = U l n.
Proof.
  induction l as [|l IH]; intros n.
  - rewrite G_0. destruct (u_0_herm n) as [E _]. symmetry. exact E.
  - rewrite G_X, u_X, !IH. reflexivity.
Qed.

Lemma general_correct_upto nmax n l : (n <= nmax)%nat ->
  deriv_general_upto K nmax n l alpha x = u K alpha l n x.
Proof. intros Hn. rewrite general_is_G by exact Hn. apply G_is_u. Qed.

Lemma general_correct n l : deriv_general K n l alpha x = u K alpha l n x.
Proof. apply general_correct_upto. lia. Qed.

(* --- direct back-end --- *)
Definition flags_ok (h1 h2 : bool) (l : nat) : Prop :=
  ((1 <= l)%nat -> h1 = true) /\ ((2 <= l)%nat -> h2 = true).

Lemma direct_first_correct l : direct_first K l alpha x = u K alpha l 1 x.
Proof.
  unfold direct_first. destruct l as [|l'].
  - cbn [Nat.eqb u FNum.fpow]. ring.
  - cbn [Nat.eqb u]. replace (S l' - 1)%nat with l' by lia. cbn [FNum.fpow]. ring.
Qed.

Lemma direct_second_correct h1 h2 l : flags_ok h1 h2 l ->
  direct_second K h1 h2 l alpha x = u K alpha l 2 x.
Proof.
  intros [F1 F2]. unfold direct_second.
  destruct l as [|[|l'']].
  - cbn [Nat.leb Nat.eqb]. rewrite !andb_false_r. cbn [u FNum.fpow ofnat]. ring.
  - rewrite (F1 ltac:(lia)). cbn [Nat.leb Nat.eqb]. rewrite !andb_false_r. cbn [andb].
    cbn [u FNum.fpow ofnat]. ring.
  - rewrite (F1 ltac:(lia)), (F2 ltac:(lia)). cbn [Nat.leb andb].
    replace (S (S l'') - 2)%nat with l'' by lia.
    replace (S (S l'') - 1)%nat with (S l'') by lia.
    cbn [u FNum.fpow ofnat]. ring.
Qed.

Lemma direct_correct h1 h2 n l : (n <= 2)%nat -> flags_ok h1 h2 l ->
  deriv_direct K h1 h2 n l alpha x = u K alpha l n x.
Proof.
  intros Hn Hf. destruct n as [|[|[|n']]]; try lia.
  - reflexivity.
  - apply direct_first_correct.
  - apply direct_second_correct. exact Hf.
Qed.

Lemma backends_agree h1 h2 nmax n l : (n <= 2)%nat -> (n <= nmax)%nat -> flags_ok h1 h2 l ->
  deriv_direct K h1 h2 n l alpha x = deriv_general_upto K nmax n l alpha x.
Proof.
  intros Hn Hm Hf. rewrite direct_correct by assumption.
  symmetry. apply general_correct_upto. exact Hm.
Qed.

(* --- the rows the block computes hold these values --- *)
Lemma xpows_nth n k : (k <= n)%nat -> nth k (xpows K x n) 0 = fpow x k.
Proof.
  intros Hk. unfold xpows.
  pose (P := fun (j : nat) (v : F) => v = fpow x j).
  change (P k (nth k (iter2 (fun _ cur _ => x * cur) n 0%nat 1 0) 0)).
  replace k with (0 + k)%nat at 1 by lia.
  apply (iter2_spec (fun (_ : nat) (cur _ : F) => x * cur) P); [| | |exact Hk].
  - intros j a b Ha _. unfold P in *. rewrite Ha. reflexivity.
  - reflexivity.
  - intros Hlt. lia.
Qed.

Lemma hrow_nth n k : (k <= n)%nat -> nth k (hrow K alpha x n) 0 = H k.
Proof.
  intros Hk. unfold hrow.
  pose (P := fun (j : nat) (v : F) => v = H j).
  change (P k (nth k (iter2 (fun j cur prev => - ((1 + 1) * alpha * (x * cur + #j * prev)))
                            n 0%nat 1 0) 0)).
  replace k with (0 + k)%nat at 1 by lia.
  apply (iter2_spec (fun j cur prev => - ((1 + 1) * alpha * (x * cur + #j * prev))) P);
    [| | |exact Hk].
  - intros j a b Ha Hb. unfold P in *. destruct j as [|j'].
    + rewrite Ha, herm_1, herm_0. cbn [ofnat]. ring.
    + rewrite herm_SS, Ha. rewrite (Hb ltac:(lia)).
      replace (S j' - 1)%nat with j' by lia. reflexivity.
  - reflexivity.
  - intros Hlt. lia.
Qed.

Lemma gen_row_nth nmax n L l : (l <= L)%nat ->
  nth l (gen_row K nmax n L (gen_ctab K nmax n L) alpha x) 0
  = deriv_general_upto K nmax n l alpha x.
Proof.
  intros Hl. unfold gen_row, deriv_general_upto.
  destruct (Nat.eqb n 0).
  - rewrite nth_mk by lia. apply xpows_nth. lia.
  - rewrite nth_mk by lia. apply sumn_ext. intros k Hk.
    unfold gen_ctab. rewrite (nth_mk (S L) _ [] l) by lia. rewrite nth_mk by lia.
    rewrite hrow_nth by lia. rewrite xpows_nth by lia.
    unfold gen_coef, gen_term. fold H.
    destruct ((k <? n - l)%nat || (n <? k)%nat); [ring|reflexivity].
Qed.

End Axis.

(* the rows of the block, general back-end: entry l of the row of axis ax is u l n *)
Lemma axis_row_general (L : nat) (o : comp) (ax : nat) (alpha x : F) (l : nat) :
  (ax < 3)%nat -> (l <= L)%nat ->
  nth l (axis_row K (gen_mode K false L o) ax (comp_ax ax o) L alpha x) 0
  = u K alpha l (comp_ax ax o) x.
Proof.
  intros Hax Hl. destruct o as [[ox oy] oz]. unfold gen_mode, axis_row.
  assert (Hm : (comp_ax ax (ox, oy, oz) <= order_max (ox, oy, oz))%nat).
  { unfold comp_ax, order_max. destruct ax as [|[|ax']]; lia. }
  destruct ax as [|[|[|ax']]]; try lia; cbn [comp_ax] in *;
    rewrite gen_row_nth by exact Hl; apply general_correct_upto; exact Hm.
Qed.

(* error-scale mode: the same row at (-|alpha|, |x|) *)
Lemma axis_row_scale (L : nat) (o : comp) (ax : nat) (alpha x : F) (l : nat) :
  (ax < 3)%nat -> (l <= L)%nat ->
  nth l (axis_row K (gen_mode K true L o) ax (comp_ax ax o) L alpha x) 0
  = u K (- (fabs K alpha)) l (comp_ax ax o) (fabs K x).
Proof.
  intros Hax Hl. destruct o as [[ox oy] oz]. unfold gen_mode, axis_row.
  assert (Hm : (comp_ax ax (ox, oy, oz) <= order_max (ox, oy, oz))%nat).
  { unfold comp_ax, order_max. destruct ax as [|[|ax']]; lia. }
  destruct ax as [|[|[|ax']]]; try lia; cbn [comp_ax] in *;
    rewrite gen_row_nth by exact Hl; apply general_correct_upto; exact Hm.
Qed.

Lemma axis_row_direct (h1 h2 : bool) (ax n L : nat) (alpha x : F) (l : nat) :
  (l <= L)%nat -> (n <= 2)%nat -> flags_ok h1 h2 l ->
  nth l (axis_row K (RDir h1 h2) ax n L alpha x) 0 = u K alpha l n x.
Proof.
  intros Hl Hn Hf. unfold axis_row. rewrite nth_mk by lia. apply direct_correct; assumption.
Qed.

(* ---------------- the flags of a complete Cartesian shell ---------------- *)
Lemma in_default_comps L a b : (a + b <= L)%nat -> In (a, b, (L - a - b)%nat) (default_comps L).
Proof.
  intros Hab. unfold default_comps. apply in_flat_map.
  exists (L - a)%nat. split; [apply in_seq; lia|].
  replace (L - (L - a))%nat with a by lia.
  apply in_map_iff. exists (L - a - b)%nat. split.
  - replace (L - a - (L - a - b))%nat with b by lia. reflexivity.
  - apply in_seq. lia.
Qed.

Lemma default_comps_le L c ax : In c (default_comps L) -> (comp_ax ax c <= L)%nat.
Proof.
  unfold default_comps. intros Hin. apply in_flat_map in Hin. destruct Hin as [xx [_ Hin]].
  apply in_map_iff in Hin. destruct Hin as [yy [Hc _]]. subst c.
  unfold comp_ax. destruct ax as [|[|ax']]; lia.
Qed.

Lemma default_flags_ok L (o : comp) c ax :
  first2 o <> None -> In c (default_comps L) ->
  let '(h1, h2) := flags (default_comps L) o in flags_ok h1 h2 (comp_ax ax c).
Proof.
  intros Hf Hin. unfold flags. destruct (first2 o) as [ax0|]; [|congruence].
  pose proof (default_comps_le L c ax Hin) as Hle.
  split; intros Hl; apply existsb_exists.
  - destruct ax0 as [|[|ax0']].
    + exists (1, L - 1, L - 1 - (L - 1))%nat. split; [apply in_default_comps; lia|reflexivity].
    + exists (0, 1, L - 0 - 1)%nat. split; [apply in_default_comps; lia|reflexivity].
    + exists (0, L - 1, L - 0 - (L - 1))%nat. split; [apply in_default_comps; lia|].
      cbn [comp_ax]. apply Nat.eqb_eq. lia.
  - destruct ax0 as [|[|ax0']].
    + exists (2, L - 2, L - 2 - (L - 2))%nat. split; [apply in_default_comps; lia|reflexivity].
    + exists (0, 2, L - 0 - 2)%nat. split; [apply in_default_comps; lia|reflexivity].
    + exists (0, L - 2, L - 0 - (L - 2))%nat. split; [apply in_default_comps; lia|].
      cbn [comp_ax]. apply Nat.leb_le. lia.
Qed.

Lemma first2_some (o : comp) ax : (ax < 3)%nat -> comp_ax ax o = 2%nat -> first2 o <> None.
Proof.
  destruct o as [[a b] d]. unfold first2, comp_ax. intros Hax H2.
  destruct (Nat.eqb_spec a 2); [discriminate|].
  destruct (Nat.eqb_spec b 2); [discriminate|].
  destruct (Nat.eqb_spec d 2); [discriminate|].
  destruct ax as [|[|ax']]; lia.
Qed.

(* the direct back-end on a complete Cartesian shell (the only kind the class builds): every
   entry the block reads is u, for every request the back-end accepts *)
Lemma axis_row_direct_complete (L : nat) (o c : comp) (ax : nat) (alpha x : F) :
  (order_max o <= 2)%nat -> In c (default_comps L) -> (ax < 3)%nat ->
  nth (comp_ax ax c)
      (axis_row K (mode_of K Direct L (default_comps L) o) ax (comp_ax ax o) L alpha x) 0
  = u K alpha (comp_ax ax c) (comp_ax ax o) x.
Proof.
  intros Ho Hc Hax. unfold mode_of.
  pose proof (default_comps_le L c ax Hc) as Hle.
  assert (Hn : (comp_ax ax o <= 2)%nat).
  { destruct o as [[a b] d]. unfold order_max, comp_ax in *. destruct ax as [|[|ax']]; lia. }
  pose proof (default_flags_ok L o c ax) as Hfl.
  destruct (flags (default_comps L) o) as [h1 h2].
  unfold axis_row. rewrite nth_mk by lia.
  destruct (Nat.eq_dec (comp_ax ax o) 2) as [E2|N2].
  - apply direct_correct; [exact Hn|]. apply Hfl; [|exact Hc].
    apply (first2_some o ax Hax E2).
  - destruct (comp_ax ax o) as [|[|n']]; try lia.
    + reflexivity.
    + apply direct_first_correct.
Qed.

(* ---------------- refusals ---------------- *)
Lemma direct_rejects_gt2 (s : shell F) (basis : list (shell F)) (pts : list (point (F:=F))) (o : comp)
      (T : option (list (list F))) :
  (2 < order_max o)%nat ->
  eval_block K s pts o Direct = None /\ evaluate_deriv_basis_model K basis pts o T Direct = None.
Proof.
  intros Ho. unfold eval_block, evaluate_deriv_basis_model, accepts.
  replace (order_max o <=? 2)%nat with false by (symmetry; apply Nat.leb_gt; exact Ho).
  split; reflexivity.
Qed.

Lemma direct_accepts_le2 (basis : list (shell F)) (pts : list (point (F:=F))) (o : comp)
      (T : option (list (list F))) :
  (order_max o <= 2)%nat -> evaluate_deriv_basis_model K basis pts o T Direct <> None.
Proof.
  intros Ho. unfold evaluate_deriv_basis_model, accepts.
  replace (order_max o <=? 2)%nat with true by (symmetry; apply Nat.leb_le; exact Ho).
  discriminate.
Qed.

Lemma unknown_backend_rejected (basis : list (shell F)) (pts : list (point (F:=F))) (o : comp)
      (T : option (list (list F))) :
  evaluate_deriv_basis_model K basis pts o T OtherBackend = None.
Proof. reflexivity. Qed.

End P.

Lemma flags_hyp_example :
  first2 (0, 2, 0) <> None /\ In (1, 1, 1) (default_comps 3) /\ order_max (2, 2, 1) <= 2
  /\ 2 < order_max (0, 3, 0).
Proof.
  split; [discriminate|]. split; [vm_compute; tauto|]. split; vm_compute; lia.
Qed.

(* ---------------- normalisation shortcut ---------------- *)
Section NormDiag.
Context {F : Type} (K : Fops F).

Lemma nth_map_in {A B} (f : A -> B) (l : list A) (d : A) (e : B) n :
  n < length l -> nth n (map f l) e = f (nth n l d).
Proof.
  intros Hn. rewrite (nth_indep _ e (f d)) by (now rewrite map_length). apply map_nth.
Qed.

(* the diagonal-only normalisation is the one of Model/Overlap.v *)
Lemma norm_cont_diag_eq (s : shell F) : norm_cont_diag K s = norm_cont K s.
Proof. reflexivity. Qed.
End NormDiag.
