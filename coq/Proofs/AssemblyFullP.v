(* Proofs/AssemblyFullP.v — property C09, the two-index symmetric class (base_two_symm.py) at FULL strength:
   for ANY list of shells with ANY assignment of coordinate types, any element module (scalars, vectors of
   moments, ...: no algebraic law is used) and any block function that does not look at the coordinate type,
   EVERY entry of the assembled array — evaluated blocks (i <= j) and transposed mirror copies (i > j), diagonal
   blocks included — is  T_{s_i} on the first index and T_{s_j} on the second index  of the assembled array of
   the same shells taken Cartesian:

     two_symm_mix_is_cart_transformed     mix[oidx i m q][oidx j m' q']
         = (i <= j)  sum_{c'} T_j[q'][c'] . (sum_c T_i[q][c] . cart[gidx i m c][gidx j m' c'])
           (i >  j)  sum_c T_i[q][c] . (sum_{c'} T_j[q'][c'] . cart[gidx i m c][gidx j m' c'])
       (the order of the two finite sums is the order in which the code contracts the evaluated block; with a
        commutative module they coincide:)
     two_symm_mix_is_cart_transformed_scalar   scalars over a field: one double sum  dsum  for both triangles
     two_symm_h_mix_is_cart_transformed        the conjugating assembly (momentum, angular momentum), for a
                                               conjugation that is additive and commutes with real scaling
   [tsum sph T L q f] = sum_{c<L} T[q][c] . f c for a spherical shell, f q for a Cartesian one (AssembledSphP.v);
   cart = two_symm_integral ... (map to_cart bs).  Proved from AssembledSphP.two_symm_mixed_entry /
   two_symm_h_mixed_entry (any types) and AssembledP.two_symm_cart_entry / two_symm_h_cart_entry (Cartesian).
   This replaces the hypothesis "transposition exchanges the two transforms" of
   C09_two_symm_mix_is_cart_transformed_partial by a proof, on the assembly model the integrals use. *)
From Coq Require Import List Arith Lia Bool Field.
From GB Require Import Base.Field Base.FNum Base.Tables Base.Blocks Model.Shell Model.MomentInt
  Model.Spherical Model.Assembly Model.Overlap Model.DiffOp Model.OneBody
  Proofs.BlockP Proofs.CoreSumP Proofs.CoreBlockP Proofs.CoreDiffP Proofs.AssemblyP Proofs.OverlapP
  Proofs.BlockMatP Proofs.AssembledP Proofs.AssembledOverlapP Proofs.AssembledSphP Proofs.AssembledSphOverlapP
  Proofs.AssembledHermP.
Import ListNotations.

Section Full.
Context {F : Type} (K : Fops F).
Context {A : Type} (azero : A) (aadd : A -> A -> A) (ascale : F -> A -> A).
Variable blockf : shell F -> shell F -> list (list (list (list A))).
(* the block function does not look at the coordinate type (true of every integral kernel: the blocks are
   computed in Cartesian components) *)
Hypothesis Hcart : forall a b, blockf (to_cart a) (to_cart b) = blockf a b.

Variable bs : list (shell F).
Hypothesis C : seg_basis bs.
Hypothesis HB : blocks_shaped blockf bs bs.

Notation s_ k := (sh_at K bs k).
Notation bsc := (map to_cart bs).
Notation tsumA s := (tsum K azero aadd ascale (s_sph s) (shell_transform K s) (ncomp s)).

Lemma blocks_shaped_to_cart : blocks_shaped blockf bsc bsc.
Proof.
  intros a b Ha Hb. apply in_map_iff in Ha. destruct Ha as [a0 [<- Ha0]].
  apply in_map_iff in Hb. destruct Hb as [b0 [<- Hb0]]. rewrite Hcart. exact (HB a0 b0 Ha0 Hb0).
Qed.

(* entry of the all-Cartesian assembled array *)
Definition cartE (i j m c m' c' : nat) : A :=
  nth (gidx K bsc j m' c') (nth (gidx K bsc i m c) (two_symm_integral K azero aadd ascale blockf bsc None) []) azero.

Lemma cartE_spec i j m c m' c' : i < length bs -> j < length bs ->
  m < nseg (s_ i) -> c < ncomp (s_ i) -> m' < nseg (s_ j) -> c' < ncomp (s_ j) ->
  cartE i j m c m' c'
  = if Nat.leb i j
    then ascale (fmul K (ncont K (s_ i) m c) (ncont K (s_ j) m' c')) (get4 azero m c m' c' (blockf (s_ i) (s_ j)))
    else ascale (fmul K (ncont K (s_ j) m' c') (ncont K (s_ i) m c)) (get4 azero m' c' m c (blockf (s_ j) (s_ i))).
Proof.
  intros Hi Hj Hm Hc Hm' Hc'. unfold cartE.
  rewrite (two_symm_cart_entry K azero aadd ascale blockf bsc (cart_basis_to_cart bs C) blocks_shaped_to_cart
             i j m c m' c'); rewrite ?map_length, ?sh_at_to_cart; try assumption.
  rewrite !Hcart. reflexivity.
Qed.

Theorem two_symm_mix_is_cart_transformed i j m q m' q' :
  i < length bs -> j < length bs ->
  m < nseg (s_ i) -> q < osize (s_ i) -> m' < nseg (s_ j) -> q' < osize (s_ j) ->
  nth (oidx K bs j m' q') (nth (oidx K bs i m q) (two_symm_integral K azero aadd ascale blockf bs None) []) azero
  = if Nat.leb i j
    then tsumA (s_ j) q' (fun c' => tsumA (s_ i) q (fun c => cartE i j m c m' c'))
    else tsumA (s_ i) q (fun c => tsumA (s_ j) q' (fun c' => cartE i j m c m' c')).
Proof.
  intros Hi Hj Hm Hq Hm' Hq'.
  rewrite (two_symm_mixed_entry K azero aadd ascale blockf bs C HB) by assumption.
  assert (Qi : s_sph (s_ i) = false -> q < ncomp (s_ i)).
  { intro E. unfold osize in Hq. now rewrite E in Hq. }
  assert (Qj : s_sph (s_ j) = false -> q' < ncomp (s_ j)).
  { intro E. unfold osize in Hq'. now rewrite E in Hq'. }
  destruct (Nat.leb i j) eqn:Elt; unfold Emix.
  - apply tsum_ext; [|exact Qj]. intros c' Hc'. apply tsum_ext; [|exact Qi]. intros c Hc.
    rewrite cartE_spec by assumption. now rewrite Elt.
  - apply tsum_ext; [|exact Qi]. intros c Hc. apply tsum_ext; [|exact Qj]. intros c' Hc'.
    rewrite cartE_spec by assumption. now rewrite Elt.
Qed.

(* ---- the conjugating assembly (two_symm_integral_h): blocks strictly above the diagonal evaluated, all others
        conjugated transposes ---- *)
Section Conj.
Variable aconj : A -> A.
Hypothesis conj_zero : aconj azero = azero.
Hypothesis conj_add : forall x y, aconj (aadd x y) = aadd (aconj x) (aconj y).
Hypothesis conj_scale : forall t x, aconj (ascale t x) = ascale t (aconj x).

Lemma conj_asum (l : list A) : aconj (asum azero aadd l) = asum azero aadd (map aconj l).
Proof.
  unfold asum. induction l as [|x l IH]; cbn [fold_right map]; [exact conj_zero|]. now rewrite conj_add, IH.
Qed.

Lemma conj_tsum sph T L q (f : nat -> A) :
  aconj (tsum K azero aadd ascale sph T L q f) = tsum K azero aadd ascale sph T L q (fun c => aconj (f c)).
Proof.
  unfold tsum. destruct sph; [|reflexivity]. rewrite conj_asum, CoreSumP.map_mk. f_equal. apply mk_ext.
  intros c _. apply conj_scale.
Qed.

Definition cartEh (i j m c m' c' : nat) : A :=
  nth (gidx K bsc j m' c') (nth (gidx K bsc i m c)
      (two_symm_integral_h K azero aadd ascale aconj blockf bsc None) []) (aconj azero).

Lemma cartEh_spec i j m c m' c' : i < length bs -> j < length bs ->
  m < nseg (s_ i) -> c < ncomp (s_ i) -> m' < nseg (s_ j) -> c' < ncomp (s_ j) ->
  cartEh i j m c m' c'
  = if Nat.ltb i j
    then ascale (fmul K (ncont K (s_ i) m c) (ncont K (s_ j) m' c')) (get4 azero m c m' c' (blockf (s_ i) (s_ j)))
    else aconj (ascale (fmul K (ncont K (s_ j) m' c') (ncont K (s_ i) m c))
                       (get4 azero m' c' m c (blockf (s_ j) (s_ i)))).
Proof.
  intros Hi Hj Hm Hc Hm' Hc'. unfold cartEh.
  rewrite (two_symm_h_cart_entry K azero aadd ascale blockf bsc (cart_basis_to_cart bs C) blocks_shaped_to_cart aconj
             i j m c m' c'); rewrite ?map_length, ?sh_at_to_cart; try assumption.
  rewrite !Hcart. reflexivity.
Qed.

Theorem two_symm_h_mix_is_cart_transformed i j m q m' q' :
  i < length bs -> j < length bs ->
  m < nseg (s_ i) -> q < osize (s_ i) -> m' < nseg (s_ j) -> q' < osize (s_ j) ->
  nth (oidx K bs j m' q') (nth (oidx K bs i m q)
      (two_symm_integral_h K azero aadd ascale aconj blockf bs None) []) (aconj azero)
  = if Nat.ltb i j
    then tsumA (s_ j) q' (fun c' => tsumA (s_ i) q (fun c => cartEh i j m c m' c'))
    else tsumA (s_ i) q (fun c => tsumA (s_ j) q' (fun c' => cartEh i j m c m' c')).
Proof.
  intros Hi Hj Hm Hq Hm' Hq'.
  rewrite (two_symm_h_mixed_entry K azero aadd ascale blockf bs C HB aconj) by assumption.
  assert (Qi : s_sph (s_ i) = false -> q < ncomp (s_ i)).
  { intro E. unfold osize in Hq. now rewrite E in Hq. }
  assert (Qj : s_sph (s_ j) = false -> q' < ncomp (s_ j)).
  { intro E. unfold osize in Hq'. now rewrite E in Hq'. }
  destruct (Nat.ltb i j) eqn:Elt; unfold Emix.
  - apply tsum_ext; [|exact Qj]. intros c' Hc'. apply tsum_ext; [|exact Qi]. intros c Hc.
    rewrite cartEh_spec by assumption. now rewrite Elt.
  - rewrite conj_tsum. apply tsum_ext; [|exact Qi]. intros c Hc.
    rewrite conj_tsum. apply tsum_ext; [|exact Qj]. intros c' Hc'.
    rewrite cartEh_spec by assumption. now rewrite Elt.
Qed.
End Conj.
End Full.

(* ------------------------------------------------------------------ *)
(* scalars over a field: one double sum for both triangles              *)
(* ------------------------------------------------------------------ *)
Section Scalar.
Context {F : Type} (K : Fops F) (Kf : is_field K).
Add Field KFfull : Kf.
Variable blockf : shell F -> shell F -> list (list (list (list F))).
Hypothesis Hcart : forall a b, blockf (to_cart a) (to_cart b) = blockf a b.
Variable bs : list (shell F).
Hypothesis C : seg_basis bs.
Hypothesis HB : blocks_shaped blockf bs bs.
Notation s_ k := (sh_at K bs k).
Notation bsc := (map to_cart bs).

Theorem two_symm_mix_is_cart_transformed_scalar i j m q m' q' :
  i < length bs -> j < length bs ->
  m < nseg (s_ i) -> q < osize (s_ i) -> m' < nseg (s_ j) -> q' < osize (s_ j) ->
  nth (oidx K bs j m' q') (nth (oidx K bs i m q)
      (two_symm_integral K (f0 K) (fadd K) (fmul K) blockf bs None) []) (f0 K)
  = dsum K (s_ i) (s_ j) q q' (fun c c' =>
      nth (gidx K bsc j m' c') (nth (gidx K bsc i m c)
          (two_symm_integral K (f0 K) (fadd K) (fmul K) blockf bsc None) []) (f0 K)).
Proof.
  intros Hi Hj Hm Hq Hm' Hq'.
  rewrite (two_symm_mix_is_cart_transformed K (f0 K) (fadd K) (fmul K) blockf Hcart bs C HB) by assumption.
  unfold dsum, cartE. destruct (Nat.leb i j).
  - rewrite (tsum_fsum K Kf) by exact Hq'.
    rewrite (fsum_mk_ext K _ _ (fun c' => FNum.fsum K (mk (ncomp (s_ i)) (fun c =>
               fmul K (fmul K (tco K (s_ i) q c) (tco K (s_ j) q' c'))
                 (nth (gidx K bsc j m' c') (nth (gidx K bsc i m c)
                    (two_symm_integral K (f0 K) (fadd K) (fmul K) blockf bsc None) []) (f0 K)))))).
    + apply (fsum_mk_swap K Kf).
    + intros c' Hc'. rewrite (tsum_fsum K Kf) by exact Hq. rewrite (fsum_mk_scale_l K Kf).
      apply fsum_mk_ext. intros c Hc. ring.
  - rewrite (tsum_fsum K Kf) by exact Hq. apply fsum_mk_ext. intros c Hc.
    rewrite (tsum_fsum K Kf) by exact Hq'. rewrite (fsum_mk_scale_l K Kf).
    apply fsum_mk_ext. intros c' Hc'. ring.
Qed.
End Scalar.

(* ------------------------------------------------------------------ *)
(* the hypotheses are satisfiable: the integral kernels do not look at the coordinate type, their blocks
   have the declared shape                                              *)
(* ------------------------------------------------------------------ *)
Lemma overlap_block_to_cart {F} (K : Fops F) (a b : shell F) :
  overlap_block K (to_cart a) (to_cart b) = overlap_block K a b.
Proof. reflexivity. Qed.

Lemma kinetic_block_to_cart {F} (K : Fops F) (a b : shell F) :
  kinetic_block K (to_cart a) (to_cart b) = kinetic_block K a b.
Proof. reflexivity. Qed.

Lemma moment_block_to_cart {F} (K : Fops F) Cx Cy Cz orders (a b : shell F) :
  moment_block K Cx Cy Cz orders (to_cart a) (to_cart b) = moment_block K Cx Cy Cz orders a b.
Proof. reflexivity. Qed.

Lemma momentum_block_to_cart {F} (K : Fops F) (a b : shell F) :
  momentum_block_re K (to_cart a) (to_cart b) = momentum_block_re K a b.
Proof. reflexivity. Qed.

Example full_hypotheses_satisfiable {F} (K : Fops F) (bs : list (shell F)) :
  (forall a b, overlap_block K (to_cart a) (to_cart b) = overlap_block K a b)
  /\ blocks_shaped (overlap_block K) bs bs
  /\ (forall a b, kinetic_block K (to_cart a) (to_cart b) = kinetic_block K a b)
  /\ blocks_shaped (kinetic_block K) bs bs.
Proof.
  split; [intros; reflexivity|]. split; [apply overlap_blocks_shaped|].
  split; [intros; reflexivity|]. intros sa sb _ _. apply kinetic_block_shape.
Qed.

(* the conjugation of the momentum / angular-momentum assemblies (negation of the real 3-vectors) meets the
   three laws over any field *)
Section ConjEx.
Context {F : Type} (K : Fops F) (Kf : is_field K).
Add Field KFconj : Kf.

Lemma map_opp_zip (l1 l2 : list F) :
  map (fopp K) (map (fun '(a, b) => fadd K a b) (combine l1 l2))
  = map (fun '(a, b) => fadd K a b) (combine (map (fopp K) l1) (map (fopp K) l2)).
Proof.
  revert l2. induction l1 as [|a l1 IH]; intros [|b l2]; cbn [combine map]; try reflexivity.
  f_equal; [ring|apply IH].
Qed.

Example conj_laws_satisfiable :
  vneg K (@vzero F) = @vzero F
  /\ (forall x y : list F, vneg K (vadd K x y) = vadd K (vneg K x) (vneg K y))
  /\ (forall t (x : list F), vneg K (vscale K t x) = vscale K t (vneg K x)).
Proof.
  split; [reflexivity|]. split.
  - intros [|a x] [|b y]; try reflexivity. unfold vneg, vadd. cbn [map]. apply (map_opp_zip (a :: x) (b :: y)).
  - intros t x. unfold vneg, vscale. rewrite !map_map. apply map_ext. intro a. ring.
Qed.
End ConjEx.

(* ------------------------------------------------------------------ *)
(* instances on the production models: momentum / angular momentum (conjugating assembly, vector entries),
   any coordinate types, both triangles                                 *)
(* ------------------------------------------------------------------ *)
Section Instances.
Context {F : Type} (K : Fops F) (Kf : is_field K).
Variable bs : list (shell F).
Hypothesis C : seg_basis bs.
Notation s_ k := (sh_at K bs k).
Notation bsc := (map to_cart bs).
Notation tsumV s := (tsum K (@vzero F) (vadd K) (vscale K) (s_sph s) (shell_transform K s) (ncomp s)).

Theorem momentum_mixed_is_cart_transformed i j m q m' q' :
  i < length bs -> j < length bs ->
  m < nseg (s_ i) -> q < osize (s_ i) -> m' < nseg (s_ j) -> q' < osize (s_ j) ->
  let cart := fun c c' => nth (gidx K bsc j m' c') (nth (gidx K bsc i m c) (momentum_integral_re K bsc None) [])
                              (vneg K (@vzero F)) in
  nth (oidx K bs j m' q') (nth (oidx K bs i m q) (momentum_integral_re K bs None) []) (vneg K (@vzero F))
  = if Nat.ltb i j
    then tsumV (s_ j) q' (fun c' => tsumV (s_ i) q (fun c => cart c c'))
    else tsumV (s_ i) q (fun c => tsumV (s_ j) q' (fun c' => cart c c')).
Proof.
  intros Hi Hj Hm Hq Hm' Hq' cart. destruct (conj_laws_satisfiable K Kf) as [Z [Ad Sc]].
  exact (two_symm_h_mix_is_cart_transformed K vzero (vadd K) (vscale K) (momentum_block_re K)
           (fun a b => eq_refl) bs C (fun sa sb _ _ => momentum_block_shape K sa sb) (vneg K) Z Ad Sc
           i j m q m' q' Hi Hj Hm Hq Hm' Hq').
Qed.

Theorem angmom_mixed_is_cart_transformed i j m q m' q' :
  i < length bs -> j < length bs ->
  m < nseg (s_ i) -> q < osize (s_ i) -> m' < nseg (s_ j) -> q' < osize (s_ j) ->
  let cart := fun c c' => nth (gidx K bsc j m' c') (nth (gidx K bsc i m c) (angmom_integral_re K bsc None) [])
                              (vneg K (@vzero F)) in
  nth (oidx K bs j m' q') (nth (oidx K bs i m q) (angmom_integral_re K bs None) []) (vneg K (@vzero F))
  = if Nat.ltb i j
    then tsumV (s_ j) q' (fun c' => tsumV (s_ i) q (fun c => cart c c'))
    else tsumV (s_ i) q (fun c => tsumV (s_ j) q' (fun c' => cart c c')).
Proof.
  intros Hi Hj Hm Hq Hm' Hq' cart. destruct (conj_laws_satisfiable K Kf) as [Z [Ad Sc]].
  exact (two_symm_h_mix_is_cart_transformed K vzero (vadd K) (vscale K) (angmom_block_re K)
           (fun a b => eq_refl) bs C (fun sa sb _ _ => angmom_block_shape K sa sb) (vneg K) Z Ad Sc
           i j m q m' q' Hi Hj Hm Hq Hm' Hq').
Qed.
End Instances.
