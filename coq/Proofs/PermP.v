(* Proofs/PermP.v — reordering the shells of a basis only reorders the basis-function
   indices of every assembled array (property C11), for the executable assembly models
   Model/Assembly.v, Model/Assembly14.v, Model/Overlap.v, Model/OneBody.v.

   HOW A REORDERING IS GIVEN.  By an explicit index list [p : list nat]: the new shell
   list is [sel d p l = map (fun k => nth k l d) p] (new position k holds old shell
   [nth k p]).  The theorems only need [Forall (fun k => k < length l) p]: they hold for
   every SELECTION of shells (sub-bases, repetitions), permutations being the case
   [Permutation p (seq 0 (length l))].  The induced map on basis-function indices is the
   list [iperm r p] (new index x holds old index [nth x (iperm r p)]), where [r i] is the
   number of basis functions of old shell i and [off r i] the offset of its block;
   [iperm_Permutation] shows that it is a permutation of 0..N-1 when p is one of 0..n-1.

   The assembled array of the reordered list is then EQUAL (as a nested list) to the
   array of the original list with every basis index looked up through [iperm r p]:
     one index   [sel1]      one_perm, one_mix_perm
     two indices [sel2]      blocks_perm (asymmetric class, two lists), symm_blocks_perm,
                             two_symm_integral_perm (Overlap.two_symm_integral: overlap,
                             kinetic, moment, point charge), two_symm_integral_h_perm
                             (momentum, angular momentum), two_symm_n_perm, two_asymm_n_perm
     four indices            four_concat_entry / four_concat_perm (the nested concatenation),
                             lookup_all_writes (the eight-fold store), four_symm_perm.
   No bound on the number of shells, their sizes, or p. *)
From Coq Require Import List Arith Lia Bool Permutation.
From GB Require Import Base.Field Base.Tables Base.Blocks Model.Shell Model.Assembly Model.Assembly14
  Model.Overlap Model.TwoElec Model.OneBody Proofs.AssemblyP Proofs.OverlapP.
Import ListNotations.

(* ------------------------------------------------------------------ *)
(* offsets, selections, the induced index list                          *)
(* ------------------------------------------------------------------ *)
Fixpoint off (r : nat -> nat) (i : nat) : nat :=
  match i with O => 0 | S i' => off r i' + r i' end.

Definition sel {B} (d : B) (p : list nat) (l : list B) : list B := map (fun k => nth k l d) p.
Definition iperm (r : nat -> nat) (p : list nat) : list nat :=
  flat_map (fun k => seq (off r k) (r k)) p.

(* look-ups of one / two axes through index lists *)
Definition sel1 {B} (d : B) (ip : list nat) (v : list B) : list B := map (fun x => nth x v d) ip.
Definition sel2 {B} (d : B) (ip1 ip2 : list nat) (m : list (list B)) : list (list B) :=
  map (fun x => map (fun y => nth y (nth x m []) d) ip2) ip1.

Lemma off_mono r i j : i <= j -> off r i <= off r j.
Proof. induction 1; cbn [off]; lia. Qed.
Lemma off_lt r i n a : i < n -> a < r i -> off r i + a < off r n.
Proof. intros Hi Ha. pose proof (off_mono r (S i) n Hi). cbn [off] in H. lia. Qed.
Lemma off_ext r r' n : (forall i, i < n -> r i = r' i) -> off r n = off r' n.
Proof. induction n as [|n IH]; intros H; cbn [off]; [reflexivity|]. rewrite IH, H by (intros; auto; lia). reflexivity. Qed.

Lemma mk_S {B} n (f : nat -> B) : mk (S n) f = mk n f ++ [f n].
Proof. unfold mk. now rewrite seq_S, map_app. Qed.
Lemma mk_cons {B} n (f : nat -> B) : mk (S n) f = f 0 :: mk n (fun j => f (S j)).
Proof. unfold mk. cbn [seq map]. f_equal. now rewrite <- seq_shift, map_map. Qed.
Lemma map_as_mk {B C} (g : B -> C) (l : list B) d : map g l = mk (length l) (fun k => g (nth k l d)).
Proof.
  induction l as [|x l IH]; [reflexivity|]. cbn [length]. rewrite mk_cons. cbn [map nth]. now rewrite IH.
Qed.
Lemma mk_nth_map {B} (F : nat -> B) (p : list nat) : mk (length p) (fun k => F (nth k p 0)) = map F p.
Proof. symmetry. apply (map_as_mk F p 0). Qed.
Lemma list_as_map_nth {B} (l : list B) d : l = map (fun a => nth a l d) (seq 0 (length l)).
Proof. rewrite <- (map_id l) at 1. rewrite (map_as_mk (fun x => x) l d). reflexivity. Qed.
Lemma seq_as_map s n : seq s n = map (fun a => s + a) (seq 0 n).
Proof. revert s; induction n as [|n IH]; intros s; [reflexivity|]. cbn [seq map]. rewrite Nat.add_0_r. f_equal.
  rewrite IH, <- seq_shift, map_map. apply map_ext. intros a. lia. Qed.
Lemma nth_map_lt {B C} (g : B -> C) l i d d' : i < length l -> nth i (map g l) d' = g (nth i l d).
Proof. intros H. rewrite (nth_indep _ d' (g d)) by (now rewrite map_length). apply map_nth. Qed.
Lemma concat_map_map {B C} (h : B -> C) (s : nat -> list B) p :
  concat (map (fun k => map h (s k)) p) = map h (flat_map s p).
Proof. induction p as [|k p IH]; [reflexivity|]. cbn [map concat flat_map]. now rewrite map_app, IH. Qed.

Lemma length_concat_mk {B} n (f : nat -> list B) r :
  (forall k, k < n -> length (f k) = r k) -> length (concat (mk n f)) = off r n.
Proof.
  induction n as [|n IH]; intros H; [reflexivity|].
  rewrite mk_S, concat_app, app_length, IH by (intros; apply H; lia). cbn [concat off].
  rewrite app_nil_r, H by lia. reflexivity.
Qed.

(* entry of a concatenation of pieces of known lengths *)
Lemma nth_concat_mk {B} n (f : nat -> list B) r d i a :
  (forall k, k < n -> length (f k) = r k) -> i < n -> a < r i ->
  nth (off r i + a) (concat (mk n f)) d = nth a (f i) d.
Proof.
  induction n as [|n IH]; intros H Hi Ha; [lia|].
  rewrite mk_S, concat_app. cbn [concat]. rewrite app_nil_r.
  assert (HL : length (concat (mk n f)) = off r n) by (apply length_concat_mk; intros; apply H; lia).
  destruct (Nat.eq_dec i n) as [->|Hne].
  - rewrite app_nth2 by lia. rewrite HL. f_equal. lia.
  - rewrite app_nth1 by (rewrite HL; apply off_lt; lia). apply IH; auto; lia.
Qed.

(* a piece is the slice of the concatenation at its offset *)
Lemma slice_concat_mk {B} n (f : nat -> list B) r d i :
  (forall k, k < n -> length (f k) = r k) -> i < n ->
  f i = map (fun x => nth x (concat (mk n f)) d) (seq (off r i) (r i)).
Proof.
  intros H Hi. rewrite (list_as_map_nth (f i) d) at 1. rewrite H by exact Hi.
  rewrite (seq_as_map (off r i)), map_map. apply map_ext_in. intros a Ha. apply in_seq in Ha.
  symmetry. apply nth_concat_mk; auto; lia.
Qed.

(* CORE: concatenating a selection of the pieces = looking the concatenation of all
   pieces up through the induced index list *)
Lemma concat_sel {B} n (f : nat -> list B) r d p :
  (forall k, k < n -> length (f k) = r k) -> Forall (fun k => k < n) p ->
  concat (map f p) = sel1 d (iperm r p) (concat (mk n f)).
Proof.
  intros H Hp. unfold sel1, iperm. rewrite <- concat_map_map. f_equal.
  apply map_ext_in. intros k Hk. rewrite Forall_forall in Hp. now apply slice_concat_mk; auto.
Qed.

Lemma length_iperm r p : length (iperm r p) = fold_right plus 0 (map r p).
Proof. unfold iperm. induction p as [|k p IH]; [reflexivity|]. cbn [flat_map map fold_right].
  now rewrite app_length, seq_length, IH. Qed.

(* the induced index list of a permutation of the shells is a permutation of 0..N-1 *)
Lemma iperm_seq r n : iperm r (seq 0 n) = seq 0 (off r n).
Proof.
  induction n as [|n IH]; [reflexivity|].
  rewrite seq_S. unfold iperm in *. rewrite flat_map_app, IH. cbn [flat_map off]. rewrite app_nil_r.
  now rewrite <- seq_app.
Qed.
Lemma iperm_Permutation r n p : Permutation p (seq 0 n) -> Permutation (iperm r p) (seq 0 (off r n)).
Proof.
  intros H. rewrite <- iperm_seq. unfold iperm. now apply Permutation_flat_map.
Qed.

(* ------------------------------------------------------------------ *)
(* one index (base_one.py)                                              *)
(* ------------------------------------------------------------------ *)
(* any per-shell piece function g (values, derivatives, ...): the array of the
   reordered list is the array of the original list looked up through iperm *)
Theorem one_perm {B C} (g : B -> list C) (l : list B) (d : B) (d' : C) (p : list nat) :
  Forall (fun k => k < length l) p ->
  concat (map g (sel d p l))
  = sel1 d' (iperm (fun k => length (g (nth k l d))) p) (concat (map g l)).
Proof.
  intros Hp. unfold sel. rewrite map_map. rewrite (map_as_mk g l d).
  apply (concat_sel (length l) (fun k => g (nth k l d)) _ d' p); auto.
Qed.

Section OnePerm.
Context {F : Type} (K : Fops F).
Context {A : Type} (azero : A) (aadd : A -> A -> A) (ascale : F -> A -> A).
Definition one_piece (sb : @sh F * list (list A)) : list A :=
  axis_tr azero aadd ascale (sh_sph (fst sb)) (sh_T (fst sb)) (norm_axis ascale (sh_n (fst sb)) (snd sb)).
Lemma one_mix_pieces l : one_mix azero aadd ascale l = concat (map one_piece l).
Proof. unfold one_mix. f_equal. apply map_ext. intros [s b]. reflexivity. Qed.

(* base_one.py, construct_array_mix (and, through C09, the cartesian / spherical paths):
   reordering the (shell, block) list reorders the basis index *)
Theorem one_mix_perm (l : list (@sh F * list (list A))) d p :
  Forall (fun k => k < length l) p ->
  one_mix azero aadd ascale (sel d p l)
  = sel1 azero (iperm (fun k => length (one_piece (nth k l d))) p) (one_mix azero aadd ascale l).
Proof. intros Hp. rewrite !one_mix_pieces. now apply one_perm. Qed.
End OnePerm.

(* ------------------------------------------------------------------ *)
(* concatenation along an inner axis: zipw / hcat                       *)
(* ------------------------------------------------------------------ *)
Fixpoint fold1 {B} (c : B -> B -> B) (d : B) (l : list B) : B :=
  match l with
  | [] => d
  | x :: rest => match rest with [] => x | _ => c x (fold1 c d rest) end
  end.

Lemma fold1_app {B} (l : list (list B)) : fold1 (@app B) [] l = concat l.
Proof. induction l as [|x [|y l] IH]; [reflexivity|cbn; now rewrite app_nil_r|].
  change (fold1 (@app B) [] (x :: y :: l)) with (x ++ fold1 (@app B) [] (y :: l)). now rewrite IH. Qed.
Lemma fold1_map2 {B} (c : B -> B -> B) (l : list (list B)) : fold1 (map2 c) [] l = zipw c l.
Proof. induction l as [|x [|y l] IH]; [reflexivity..|].
  change (fold1 (map2 c) [] (x :: y :: l)) with (map2 c x (fold1 (map2 c) [] (y :: l))). now rewrite IH. Qed.
Lemma hcat_zipw {B} (Ms : list (list (list B))) : hcat Ms = zipw (@app B) Ms.
Proof. induction Ms as [|x [|y l] IH]; [reflexivity..|].
  rewrite hcat_cons by discriminate. now rewrite IH. Qed.

Lemma length_zipw {B} (c : B -> B -> B) R (Ms : list (list B)) : Ms <> [] ->
  Forall (fun M => length M = R) Ms -> length (zipw c Ms) = R.
Proof.
  intros Hne H. induction H as [|M Ms HM HF IH]; [congruence|].
  destruct Ms as [|M' Ms']; [exact HM|].
  change (zipw c (M :: M' :: Ms')) with (map2 c M (zipw c (M' :: Ms'))).
  rewrite map2_length; [exact HM|]. rewrite IH by discriminate. exact HM.
Qed.

Lemma nth_zipw {B} (c : B -> B -> B) (d : B) R (Ms : list (list B)) a : Ms <> [] ->
  Forall (fun M => length M = R) Ms -> a < R ->
  nth a (zipw c Ms) d = fold1 c d (map (fun M => nth a M d) Ms).
Proof.
  intros Hne H Ha. induction H as [|M Ms HM HF IH]; [congruence|].
  destruct Ms as [|M' Ms']; [reflexivity|].
  change (zipw c (M :: M' :: Ms')) with (map2 c M (zipw c (M' :: Ms'))).
  rewrite (nth_map2 c _ _ d d d) by (rewrite ?(length_zipw c R) by (auto; discriminate); lia).
  rewrite IH by discriminate. reflexivity.
Qed.

(* row a of a horizontal concatenation = concatenation of the rows a *)
Lemma nth_hcat {B} R (Ms : list (list (list B))) a : Ms <> [] ->
  Forall (fun M => length M = R) Ms -> a < R ->
  nth a (hcat Ms) [] = concat (map (fun M => nth a M []) Ms).
Proof. intros. rewrite hcat_zipw, (nth_zipw _ [] R) by assumption. apply fold1_app. Qed.

Lemma Forall_map_iff {B C} (Q : C -> Prop) (g : B -> C) l : Forall Q (map g l) <-> Forall (fun x => Q (g x)) l.
Proof. apply Forall_map. Qed.

(* ------------------------------------------------------------------ *)
(* two indices: blocks                                                  *)
(* ------------------------------------------------------------------ *)
Section TwoPerm.
Context {A : Type} (azero : A).

(* shape of the block function: block (i, j) has r1 i rows of r2 j entries *)
Definition shape2 (n1 n2 : nat) (r1 r2 : nat -> nat) (Bf : nat -> nat -> list (list A)) : Prop :=
  forall i j, i < n1 -> j < n2 -> length (Bf i j) = r1 i /\ Forall (fun row => length row = r2 j) (Bf i j).

Lemma length_row_block n1 n2 r1 r2 Bf i p2 : shape2 n1 n2 r1 r2 Bf -> i < n1 -> p2 <> [] ->
  Forall (fun k => k < n2) p2 -> length (hcat (map (fun j => Bf i j) p2)) = r1 i.
Proof.
  intros HS Hi Hne Hp. apply hcat_length; [now destruct p2|].
  apply Forall_map. rewrite Forall_forall in *. intros j Hj. now apply HS; auto.
Qed.

Lemma nth_default_row {B} (l : list (list B)) a : nth a l [] = nth a l [].
Proof. reflexivity. Qed.

(* a row block over a selection of the column shells = the full row block with its columns
   looked up through iperm *)
Lemma row_block_sel n1 n2 r1 r2 Bf i p2 : shape2 n1 n2 r1 r2 Bf -> i < n1 -> 0 < n2 -> p2 <> [] ->
  Forall (fun k => k < n2) p2 ->
  hcat (map (fun j => Bf i j) p2)
  = map (sel1 azero (iperm r2 p2)) (hcat (mk n2 (fun j => Bf i j))).
Proof.
  intros HS Hi Hn2 Hne Hp.
  assert (HL1 : length (hcat (map (fun j => Bf i j) p2)) = r1 i) by (eapply length_row_block; eauto).
  assert (Hall : Forall (fun M : list (list A) => length M = r1 i) (mk n2 (fun j => Bf i j))).
  { apply Forall_mk. intros j Hj. now apply HS. }
  assert (Hmkne : mk n2 (fun j => Bf i j) <> []).
  { destruct n2; [lia|]. rewrite mk_cons. discriminate. }
  assert (HL2 : length (hcat (mk n2 (fun j => Bf i j))) = r1 i) by (apply hcat_length; auto).
  apply (nth_ext _ _ [] []); [now rewrite map_length, HL1, HL2|].
  intros a Ha. rewrite HL1 in Ha.
  rewrite (nth_map_lt _ _ a []) by lia.
  rewrite (nth_hcat (r1 i)); [|now destruct p2| |exact Ha].
  2:{ apply Forall_map. rewrite Forall_forall in *. intros j Hj. now apply HS; auto. }
  rewrite (nth_hcat (r1 i)) by assumption.
  rewrite !map_map, map_mk.
  apply (concat_sel n2 (fun j => nth a (Bf i j) []) r2 azero p2); [|exact Hp].
  intros j Hj. destruct (HS i j Hi Hj) as [HLen HF]. rewrite Forall_forall in HF. apply HF.
  apply nth_In. lia.
Qed.

(* ASYMMETRIC CLASS / general block matrix: selections p1 of the row shells and p2 of the
   column shells *)
Theorem blocks_perm n1 n2 r1 r2 (Bf : nat -> nat -> list (list A)) p1 p2 :
  shape2 n1 n2 r1 r2 Bf -> p2 <> [] ->
  Forall (fun k => k < n1) p1 -> Forall (fun k => k < n2) p2 ->
  two_asymm_blocks (length p1) (length p2) (fun k l => Bf (nth k p1 0) (nth l p2 0))
  = sel2 azero (iperm r1 p1) (iperm r2 p2) (two_asymm_blocks n1 n2 Bf).
Proof.
  intros HS Hne Hp1 Hp2. unfold two_asymm_blocks, vcat.
  assert (Hn2 : 0 < n2). { destruct p2 as [|k p2]; [congruence|]. inversion Hp2; lia. }
  rewrite (mk_nth_map (fun i => hcat (mk (length p2) (fun l => Bf i (nth l p2 0)))) p1).
  transitivity (concat (map (fun i => map (sel1 azero (iperm r2 p2)) (hcat (mk n2 (fun j => Bf i j)))) p1)).
  { f_equal. apply map_ext_in. intros i Hi. rewrite Forall_forall in Hp1.
    rewrite (mk_nth_map (fun j => Bf i j) p2). eapply row_block_sel; eauto. }
  rewrite <- (map_map (fun i => hcat (mk n2 (fun j => Bf i j))) (map (sel1 azero (iperm r2 p2)))).
  rewrite <- concat_map.
  rewrite (concat_sel n1 (fun i => hcat (mk n2 (fun j => Bf i j))) r1 [] p1); [| |exact Hp1].
  - unfold sel1, sel2. rewrite map_map. reflexivity.
  - intros i Hi. apply hcat_length.
    + destruct n2; [lia|]. rewrite mk_cons. discriminate.
    + apply Forall_mk. intros j Hj. now apply HS.
Qed.

(* entry (x, y) of a block matrix, x in row block i at local position a, y likewise *)
Theorem blocks_entry n1 n2 r1 r2 (Bf : nat -> nat -> list (list A)) i j a b :
  shape2 n1 n2 r1 r2 Bf -> i < n1 -> j < n2 -> a < r1 i -> b < r2 j ->
  nth (off r2 j + b) (nth (off r1 i + a) (two_asymm_blocks n1 n2 Bf) []) azero
  = nth b (nth a (Bf i j) []) azero.
Proof.
  intros HS Hi Hj Ha Hb. unfold two_asymm_blocks, vcat.
  assert (Hmkne : forall i', mk n2 (fun j => Bf i' j) <> []).
  { intros i'. destruct n2; [lia|]. rewrite mk_cons. discriminate. }
  rewrite (nth_concat_mk n1 _ r1 [] i a); [| |exact Hi|exact Ha].
  2:{ intros k Hk. apply hcat_length; [apply Hmkne|]. apply Forall_mk. intros j' Hj'. now apply HS. }
  rewrite (nth_hcat (r1 i)); [|apply Hmkne| |exact Ha].
  2:{ apply Forall_mk. intros j' Hj'. now apply HS. }
  rewrite map_mk. apply (nth_concat_mk n2 (fun j' => nth a (Bf i j') []) r2 azero j b); auto.
  intros k Hk. destruct (HS i k Hi Hk) as [HLen HF]. rewrite Forall_forall in HF. apply HF.
  apply nth_In. lia.
Qed.
End TwoPerm.

(* ------------------------------------------------------------------ *)
(* two indices: the symmetric classes                                   *)
(* ------------------------------------------------------------------ *)
Section SymPerm.
Context {A : Type} (azero : A).

Lemma two_asymm_blocks_ext n1 n2 (bf bf' : nat -> nat -> list (list A)) :
  (forall i j, i < n1 -> j < n2 -> bf i j = bf' i j) -> two_asymm_blocks n1 n2 bf = two_asymm_blocks n1 n2 bf'.
Proof. intros H. unfold two_asymm_blocks. f_equal. apply mk_ext; intros i Hi. f_equal.
  apply mk_ext; intros j Hj. now apply H. Qed.

(* block symmetry hypotheses, for all pairs i, j < n (diagonal included) *)
Definition bsym (n : nat) (Bf : nat -> nat -> list (list A)) : Prop :=
  forall i j, i < n -> j < n -> Bf j i = transpose azero (Bf i j).
Definition bsym_h (aconj : A -> A) (n : nat) (Bf : nat -> nat -> list (list A)) : Prop :=
  forall i j, i < n -> j < n -> Bf j i = map (map aconj) (transpose azero (Bf i j)).

(* under block symmetry the mirrored assembly is the assembly of all blocks
   (Assembly.two_symm_blocks: diagonal blocks kept; Assembly14.two_symm_blocks_t:
   diagonal blocks transposed; OneBody.two_symm_blocks_h: conjugate transposes) *)
Lemma two_symm_blocks_full n Bf : bsym n Bf -> two_symm_blocks azero n Bf = two_asymm_blocks n n Bf.
Proof. intros H. unfold two_symm_blocks, two_asymm_blocks. f_equal. apply mk_ext; intros i Hi. f_equal.
  apply mk_ext; intros j Hj. destruct (Nat.leb i j); [reflexivity|]. symmetry. now apply H. Qed.
Lemma two_symm_blocks_t_full n Bf : bsym n Bf -> two_symm_blocks_t azero n Bf = two_asymm_blocks n n Bf.
Proof. intros H. unfold two_symm_blocks_t, two_asymm_blocks. f_equal. apply mk_ext; intros i Hi. f_equal.
  apply mk_ext; intros j Hj. destruct (Nat.ltb i j); [reflexivity|]. symmetry. now apply H. Qed.
Lemma two_symm_blocks_h_full aconj n Bf : bsym_h aconj n Bf ->
  two_symm_blocks_h azero aconj n Bf = two_asymm_blocks n n Bf.
Proof. intros H. unfold two_symm_blocks_h, two_asymm_blocks. f_equal. apply mk_ext; intros i Hi. f_equal.
  apply mk_ext; intros j Hj. destruct (Nat.ltb i j); [reflexivity|]. symmetry. now apply H. Qed.

Lemma sel_lt (p : list nat) n k : Forall (fun k => k < n) p -> k < length p -> nth k p 0 < n.
Proof. intros H Hk. rewrite Forall_forall in H. apply H. now apply nth_In. Qed.

(* generic: any assembly [asm] that equals the full block matrix under a block symmetry
   which the selected family inherits *)
Lemma symm_perm_generic (asm : nat -> (nat -> nat -> list (list A)) -> list (list A))
      (sym : nat -> (nat -> nat -> list (list A)) -> Prop) n r Bf p :
  (forall m Bf', sym m Bf' -> asm m Bf' = two_asymm_blocks m m Bf') ->
  (forall Bf', sym n Bf' -> sym (length p) (fun k l => Bf' (nth k p 0) (nth l p 0))) ->
  shape2 n n r r Bf -> sym n Bf -> Forall (fun k => k < n) p ->
  asm (length p) (fun k l => Bf (nth k p 0) (nth l p 0))
  = sel2 azero (iperm r p) (iperm r p) (asm n Bf).
Proof.
  intros Hfull Hinh HS Hs Hp. rewrite !Hfull by auto.
  destruct p as [|k0 p']; [reflexivity|].
  apply (blocks_perm azero n n r r Bf); auto. discriminate.
Qed.

Lemma bsym_inherit n Bf p : Forall (fun k => k < n) p -> bsym n Bf ->
  bsym (length p) (fun k l => Bf (nth k p 0) (nth l p 0)).
Proof. intros Hp H k l Hk Hl. apply H; eapply sel_lt; eauto. Qed.
Lemma bsym_h_inherit aconj n Bf p : Forall (fun k => k < n) p -> bsym_h aconj n Bf ->
  bsym_h aconj (length p) (fun k l => Bf (nth k p 0) (nth l p 0)).
Proof. intros Hp H k l Hk Hl. apply H; eapply sel_lt; eauto. Qed.

Theorem symm_blocks_perm n r Bf p : shape2 n n r r Bf -> bsym n Bf -> Forall (fun k => k < n) p ->
  two_symm_blocks azero (length p) (fun k l => Bf (nth k p 0) (nth l p 0))
  = sel2 azero (iperm r p) (iperm r p) (two_symm_blocks azero n Bf).
Proof. intros HS Hs Hp. apply (symm_perm_generic (two_symm_blocks azero) bsym); auto.
  - apply two_symm_blocks_full. - intros; now apply (bsym_inherit n). Qed.
Theorem symm_blocks_t_perm n r Bf p : shape2 n n r r Bf -> bsym n Bf -> Forall (fun k => k < n) p ->
  two_symm_blocks_t azero (length p) (fun k l => Bf (nth k p 0) (nth l p 0))
  = sel2 azero (iperm r p) (iperm r p) (two_symm_blocks_t azero n Bf).
Proof. intros HS Hs Hp. apply (symm_perm_generic (two_symm_blocks_t azero) bsym); auto.
  - apply two_symm_blocks_t_full. - intros; now apply (bsym_inherit n). Qed.
Theorem symm_blocks_h_perm aconj n r Bf p : shape2 n n r r Bf -> bsym_h aconj n Bf -> Forall (fun k => k < n) p ->
  two_symm_blocks_h azero aconj (length p) (fun k l => Bf (nth k p 0) (nth l p 0))
  = sel2 azero (iperm r p) (iperm r p) (two_symm_blocks_h azero aconj n Bf).
Proof. intros HS Hs Hp. apply (symm_perm_generic (two_symm_blocks_h azero aconj) (bsym_h aconj)); auto.
  - apply two_symm_blocks_h_full. - intros; now apply (bsym_h_inherit aconj n). Qed.
End SymPerm.

(* ------------------------------------------------------------------ *)
(* the whole-basis models                                               *)
(* ------------------------------------------------------------------ *)
Lemma nth_map_sel {B C} (g : B -> C) (l : list B) d d' p k : k < length p ->
  nth k (map g (sel d p l)) d' = g (nth (nth k p 0) l d).
Proof. intros Hk. unfold sel. rewrite map_map. now rewrite (nth_map_lt _ p k 0). Qed.

Section Models.
Context {F : Type} (K : Fops F).
Context {A : Type} (azero : A) (aadd : A -> A -> A) (ascale : F -> A -> A).
Variable blockf : shell F -> shell F -> list (list (list (list A))).

(* processed block of the shells at positions i, j of a basis *)
Definition Bfun (b1 b2 : list (shell F)) (ds : shell F) (i j : nat) : list (list A) :=
  pblock K azero aadd ascale blockf (prep K (nth i b1 ds)) (prep K (nth j b2 ds)).

Lemma two_symm_integral_blocks basis ds :
  two_symm_integral K azero aadd ascale blockf basis None
  = two_symm_blocks azero (length basis) (Bfun basis basis ds).
Proof.
  rewrite two_symm_integral_unfold. cbv zeta. rewrite map_length.
  apply two_symm_blocks_ext_le. intros i j Hi Hj _. unfold Bfun.
  now rewrite !(nth_map_lt (prep K) basis _ ds).
Qed.

(* Overlap.two_symm_integral (overlap_integral, kinetic_energy_integral, moment_integral,
   point_charge_integral): reordering the shells reorders both basis indices *)
Theorem two_symm_integral_perm basis ds r p :
  shape2 (length basis) (length basis) r r (Bfun basis basis ds) ->
  bsym azero (length basis) (Bfun basis basis ds) ->
  Forall (fun k => k < length basis) p ->
  two_symm_integral K azero aadd ascale blockf (sel ds p basis) None
  = sel2 azero (iperm r p) (iperm r p) (two_symm_integral K azero aadd ascale blockf basis None).
Proof.
  intros HS Hs Hp. rewrite (two_symm_integral_blocks (sel ds p basis) ds), (two_symm_integral_blocks basis ds).
  unfold sel at 1. rewrite map_length.
  rewrite <- (symm_blocks_perm azero (length basis) r (Bfun basis basis ds) p) by assumption.
  apply two_symm_blocks_ext_le. intros i j Hi Hj _. unfold Bfun, sel.
  now rewrite !(nth_map_lt (fun k => nth k basis ds) p _ 0).
Qed.

(* OneBody.two_symm_integral_h (momentum_integral, angular_momentum_integral) *)
Section H.
Variable aconj : A -> A.
Lemma two_symm_blocks_h_ext_le n (bf bf' : nat -> nat -> list (list A)) :
  (forall i j, i < n -> j < n -> i <= j -> bf i j = bf' i j) ->
  two_symm_blocks_h azero aconj n bf = two_symm_blocks_h azero aconj n bf'.
Proof.
  intros H. unfold two_symm_blocks_h. f_equal. apply mk_ext; intros i Hi. f_equal.
  apply mk_ext; intros j Hj. destruct (Nat.ltb_spec i j) as [Hlt|Hge].
  - apply H; lia.
  - now rewrite (H j i Hj Hi Hge).
Qed.

Lemma two_symm_integral_h_blocks basis ds :
  two_symm_integral_h K azero aadd ascale aconj blockf basis None
  = two_symm_blocks_h azero aconj (length basis) (Bfun basis basis ds).
Proof.
  unfold two_symm_integral_h. cbv zeta. rewrite map_length.
  apply two_symm_blocks_h_ext_le. intros i j Hi Hj Hle.
  rewrite nth_mk by exact Hi. rewrite nth_mk by exact Hj.
  destruct (Nat.leb_spec i j); [|lia]. unfold Bfun.
  now rewrite !(nth_map_lt (prep K) basis _ ds).
Qed.

Theorem two_symm_integral_h_perm basis ds r p :
  shape2 (length basis) (length basis) r r (Bfun basis basis ds) ->
  bsym_h azero aconj (length basis) (Bfun basis basis ds) ->
  Forall (fun k => k < length basis) p ->
  two_symm_integral_h K azero aadd ascale aconj blockf (sel ds p basis) None
  = sel2 azero (iperm r p) (iperm r p) (two_symm_integral_h K azero aadd ascale aconj blockf basis None).
Proof.
  intros HS Hs Hp. rewrite (two_symm_integral_h_blocks (sel ds p basis) ds), (two_symm_integral_h_blocks basis ds).
  unfold sel at 1. rewrite map_length.
  rewrite <- (symm_blocks_h_perm azero aconj (length basis) r (Bfun basis basis ds) p) by assumption.
  apply two_symm_blocks_h_ext_le. intros i j Hi Hj _. unfold Bfun, sel.
  now rewrite !(nth_map_lt (fun k => nth k basis ds) p _ 0).
Qed.
End H.

(* Overlap.two_asymm_integral (overlap_integral_asymmetric): independent reorderings of the
   two bases; NO symmetry hypothesis *)
Lemma two_asymm_integral_blocks b1 b2 ds :
  two_asymm_integral K azero aadd ascale blockf b1 b2 None None
  = two_asymm_blocks (length b1) (length b2) (Bfun b1 b2 ds).
Proof.
  unfold two_asymm_integral. cbv zeta. rewrite !map_length.
  apply two_asymm_blocks_ext. intros i j Hi Hj. unfold Bfun.
  now rewrite (nth_map_lt (prep K) b1 _ ds), (nth_map_lt (prep K) b2 _ ds).
Qed.

Theorem two_asymm_integral_perm b1 b2 ds r1 r2 p1 p2 :
  shape2 (length b1) (length b2) r1 r2 (Bfun b1 b2 ds) -> p2 <> [] ->
  Forall (fun k => k < length b1) p1 -> Forall (fun k => k < length b2) p2 ->
  two_asymm_integral K azero aadd ascale blockf (sel ds p1 b1) (sel ds p2 b2) None None
  = sel2 azero (iperm r1 p1) (iperm r2 p2) (two_asymm_integral K azero aadd ascale blockf b1 b2 None None).
Proof.
  intros HS Hne Hp1 Hp2.
  rewrite (two_asymm_integral_blocks (sel ds p1 b1) (sel ds p2 b2) ds), (two_asymm_integral_blocks b1 b2 ds).
  unfold sel at 1 2. rewrite !map_length.
  rewrite <- (blocks_perm azero (length b1) (length b2) r1 r2 (Bfun b1 b2 ds) p1 p2) by assumption.
  apply two_asymm_blocks_ext. intros i j Hi Hj. unfold Bfun, sel.
  now rewrite (nth_map_lt (fun k => nth k b1 ds) p1 _ 0), (nth_map_lt (fun k => nth k b2 ds) p2 _ 0).
Qed.

(* Assembly14.two_symm_n / two_asymm_n (the label-level transcription used by C09): the raw
   block function is indexed by shell positions *)
Definition B14 (mode : nat) (ss1 ss2 : list (@sh F)) (bf : nat -> nat -> list (list (list (list A))))
           (i j : nat) : list (list A) :=
  let d := mkSh false [] [] in
  let ty s := match mode with 0 => false | 1 => true | _ => sh_sph s end in
  let s1 := nth i ss1 d in let s2 := nth j ss2 d in
  block2 azero aadd ascale (ty s1) (ty s2) s1 s2 (bf i j).

Theorem two_symm_n_perm mode ss bf r p :
  shape2 (length ss) (length ss) r r (B14 mode ss ss bf) ->
  bsym azero (length ss) (B14 mode ss ss bf) ->
  Forall (fun k => k < length ss) p ->
  two_symm_n azero aadd ascale mode (sel (mkSh false [] []) p ss) (fun k l => bf (nth k p 0) (nth l p 0))
  = sel2 azero (iperm r p) (iperm r p) (two_symm_n azero aadd ascale mode ss bf).
Proof.
  intros HS Hs Hp. unfold two_symm_n. cbv zeta. unfold sel at 1. rewrite map_length.
  change (two_symm_blocks_t azero (length ss) _) with (two_symm_blocks_t azero (length ss) (B14 mode ss ss bf)).
  rewrite <- (symm_blocks_t_perm azero (length ss) r (B14 mode ss ss bf) p) by assumption.
  rewrite !two_symm_blocks_t_full.
  - apply two_asymm_blocks_ext. intros i j Hi Hj. unfold B14, sel. cbv zeta.
    now rewrite !(nth_map_lt (fun k => nth k ss (mkSh false [] [])) p _ 0).
  - now apply (bsym_inherit azero (length ss)).
  - intros i j Hi Hj. unfold sel. rewrite !(nth_map_lt (fun k => nth k ss (mkSh false [] [])) p _ 0) by assumption.
    apply (Hs (nth i p 0) (nth j p 0)); eapply sel_lt; eauto.
Qed.

Theorem two_asymm_n_perm mode ss1 ss2 bf r1 r2 p1 p2 :
  shape2 (length ss1) (length ss2) r1 r2 (B14 mode ss1 ss2 bf) -> p2 <> [] ->
  Forall (fun k => k < length ss1) p1 -> Forall (fun k => k < length ss2) p2 ->
  two_asymm_n azero aadd ascale mode (sel (mkSh false [] []) p1 ss1) (sel (mkSh false [] []) p2 ss2)
    (fun k l => bf (nth k p1 0) (nth l p2 0))
  = sel2 azero (iperm r1 p1) (iperm r2 p2) (two_asymm_n azero aadd ascale mode ss1 ss2 bf).
Proof.
  intros HS Hne Hp1 Hp2. unfold two_asymm_n. cbv zeta. unfold sel at 1 2. rewrite !map_length.
  change (two_asymm_blocks (length ss1) (length ss2) _)
    with (two_asymm_blocks (length ss1) (length ss2) (B14 mode ss1 ss2 bf)).
  rewrite <- (blocks_perm azero (length ss1) (length ss2) r1 r2 (B14 mode ss1 ss2 bf) p1 p2) by assumption.
  apply two_asymm_blocks_ext. intros i j Hi Hj. unfold B14, sel. cbv zeta.
  now rewrite (nth_map_lt (fun k => nth k ss1 (mkSh false [] [])) p1 _ 0),
              (nth_map_lt (fun k => nth k ss2 (mkSh false [] [])) p2 _ 0).
Qed.
End Models.

(* ------------------------------------------------------------------ *)
(* symmetric_output: what the mirrored assemblies return, whatever the   *)
(* block function                                                       *)
(* ------------------------------------------------------------------ *)
(* WHY THIS DOES NOT SETTLE PROPERTY C11.  The theorems below say that every entry below
   the block diagonal is a COPY of the entry above it: the returned matrix is symmetric
   (Hermitian) across different shells for ANY block function, also for one whose two
   orientations disagree (block (j,i) <> transpose (block (i,j))), because the block (j,i)
   is never evaluated.  Symmetry of the returned array therefore carries no information
   about the block routine; the property's clause "also when the two orientations are
   computed independently" is decided by the correspondence check (harness/c11.py, part
   "orient"), which calls construct_array_contraction in both orientations, and by
   [both_orientations_agree] below at the level of the recursion tables.  Note also that
   the diagonal blocks are NOT symmetrised: the code writes transpose (block (i,i)) (the
   tril loop includes the diagonal), so the output is symmetric there only if the block
   routine's (s,s) block is. *)
Section SymOut.
Context {A : Type} (azero : A).
Definition ent (m : list (list A)) (x y : nat) : A := nth y (nth x m []) azero.

Lemma nth_transpose (m : list (list A)) a b : b < length (hd [] m) -> a < length m ->
  ent (transpose azero m) b a = ent m a b.
Proof.
  intros Hb Ha. unfold ent, transpose. rewrite nth_mk by exact Hb.
  now rewrite (nth_map_lt _ m a []).
Qed.
Lemma transpose_shape (m : list (list A)) R W : 0 < R -> length m = R ->
  Forall (fun row => length row = W) m ->
  length (transpose azero m) = W /\ Forall (fun row => length row = R) (transpose azero m).
Proof.
  intros HR HL HF. unfold transpose. destruct m as [|row0 m']; [cbn in HL; lia|].
  cbn [hd]. inversion HF; subst. split; [apply mk_length|].
  apply Forall_mk. intros c Hc. now rewrite map_length.
Qed.

(* every x < N is (offset of a block) + (a position inside it) *)
Lemma off_decompose r n x : x < off r n -> exists i a, i < n /\ a < r i /\ x = off r i + a.
Proof.
  induction n as [|n IH]; cbn [off]; intros Hx; [lia|].
  destruct (Nat.lt_ge_cases x (off r n)) as [Hlt|Hge].
  - destruct (IH Hlt) as (i & a & Hi & Ha & E). exists i, a. repeat split; auto.
  - exists n, (x - off r n). repeat split; lia.
Qed.

Variables (n : nat) (r : nat -> nat) (bf : nat -> nat -> list (list A)).
Hypothesis Hr : forall i, i < n -> 0 < r i.
(* only the blocks the code evaluates (i <= j) are constrained *)
Hypothesis HS : forall i j, i < n -> j < n -> i <= j ->
  length (bf i j) = r i /\ Forall (fun row => length row = r j) (bf i j).

Lemma hd_len i j : i < n -> j < n -> i <= j -> length (hd [] (bf i j)) = r j.
Proof. intros Hi Hj Hle. destruct (HS i j Hi Hj Hle) as [HL HF]. pose proof (Hr i Hi).
  destruct (bf i j) as [|row0 m]; [cbn in HL; lia|]. now inversion HF. Qed.

(* Assembly14.two_symm_blocks_t (base_two_symm.py as written: tril includes the diagonal) *)
Theorem symm_t_entry i j a b : i < n -> j < n -> a < r i -> b < r j ->
  ent (two_symm_blocks_t azero n bf) (off r i + a) (off r j + b)
  = if Nat.ltb i j then ent (bf i j) a b else ent (bf j i) b a.
Proof.
  intros Hi Hj Ha Hb. unfold two_symm_blocks_t.
  change (vcat (mk n (fun i0 => hcat (mk n (fun j0 => if i0 <? j0 then bf i0 j0 else transpose azero (bf j0 i0))))))
    with (two_asymm_blocks n n (fun i0 j0 => if i0 <? j0 then bf i0 j0 else transpose azero (bf j0 i0))).
  unfold ent. rewrite (blocks_entry azero n n r r); auto.
  - destruct (Nat.ltb_spec i j); [reflexivity|].
    apply nth_transpose; [rewrite hd_len by lia; exact Ha|]. destruct (HS j i Hj Hi ltac:(lia)) as [HL _]. lia.
  - intros i' j' Hi' Hj'. destruct (Nat.ltb_spec i' j'); [apply HS; lia|].
    destruct (HS j' i' Hj' Hi' ltac:(lia)) as [HL HF]. now apply (transpose_shape _ (r j') (r i')); auto.
Qed.

(* the returned matrix is symmetric across DIFFERENT shells, whatever bf *)
Theorem symmetric_output_offdiag i j a b : i < n -> j < n -> i <> j -> a < r i -> b < r j ->
  ent (two_symm_blocks_t azero n bf) (off r i + a) (off r j + b)
  = ent (two_symm_blocks_t azero n bf) (off r j + b) (off r i + a).
Proof.
  intros Hi Hj Hne Ha Hb. rewrite !symm_t_entry by assumption.
  destruct (Nat.ltb_spec i j), (Nat.ltb_spec j i); try lia; reflexivity.
Qed.
(* ... and inside one shell it is the TRANSPOSE of what the block routine returned *)
Theorem symmetric_output_diag i a b : i < n -> a < r i -> b < r i ->
  ent (two_symm_blocks_t azero n bf) (off r i + a) (off r i + b) = ent (bf i i) b a.
Proof. intros Hi Ha Hb. rewrite symm_t_entry by assumption. now rewrite Nat.ltb_irrefl. Qed.

(* hence: symmetric as a whole iff (given) the diagonal blocks are *)
Theorem symmetric_output :
  (forall i a b, i < n -> a < r i -> b < r i -> ent (bf i i) a b = ent (bf i i) b a) ->
  forall x y, x < off r n -> y < off r n ->
  ent (two_symm_blocks_t azero n bf) x y = ent (two_symm_blocks_t azero n bf) y x.
Proof.
  intros Hd x y Hx Hy.
  destruct (off_decompose r n x Hx) as (i & a & Hi & Ha & ->).
  destruct (off_decompose r n y Hy) as (j & b & Hj & Hb & ->).
  destruct (Nat.eq_dec i j) as [->|Hne]; [|now apply symmetric_output_offdiag].
  rewrite !symmetric_output_diag by assumption. now apply Hd.
Qed.

(* Assembly.two_symm_blocks (used by Overlap.two_symm_integral: diagonal block kept as evaluated) *)
Theorem symm_entry i j a b : i < n -> j < n -> a < r i -> b < r j ->
  ent (two_symm_blocks azero n bf) (off r i + a) (off r j + b)
  = if Nat.leb i j then ent (bf i j) a b else ent (bf j i) b a.
Proof.
  intros Hi Hj Ha Hb. unfold two_symm_blocks.
  change (vcat (mk n (fun i0 => hcat (mk n (fun j0 => if i0 <=? j0 then bf i0 j0 else transpose azero (bf j0 i0))))))
    with (two_asymm_blocks n n (fun i0 j0 => if i0 <=? j0 then bf i0 j0 else transpose azero (bf j0 i0))).
  unfold ent. rewrite (blocks_entry azero n n r r); auto.
  - destruct (Nat.leb_spec i j); [reflexivity|].
    apply nth_transpose; [rewrite hd_len by lia; exact Ha|]. destruct (HS j i Hj Hi ltac:(lia)) as [HL _]. lia.
  - intros i' j' Hi' Hj'. destruct (Nat.leb_spec i' j'); [apply HS; lia|].
    destruct (HS j' i' Hj' Hi' ltac:(lia)) as [HL HF]. now apply (transpose_shape _ (r j') (r i')); auto.
Qed.
Theorem symmetric_output_leb_offdiag i j a b : i < n -> j < n -> i <> j -> a < r i -> b < r j ->
  ent (two_symm_blocks azero n bf) (off r i + a) (off r j + b)
  = ent (two_symm_blocks azero n bf) (off r j + b) (off r i + a).
Proof.
  intros Hi Hj Hne Ha Hb. rewrite !symm_entry by assumption.
  destruct (Nat.leb_spec i j), (Nat.leb_spec j i); try lia; reflexivity.
Qed.

(* OneBody.two_symm_blocks_h (momentum type: the model carries the real matrix R of the value
   -i R; aconj = negation): entries below the block diagonal are the CONJUGATES of the mirrored
   ones, so R is antisymmetric across different shells, whatever bf; inside one shell the
   entry is aconj of the transposed evaluated block *)
Variable aconj : A -> A.
Theorem symm_h_entry i j a b : i < n -> j < n -> a < r i -> b < r j ->
  ent (two_symm_blocks_h azero aconj n bf) (off r i + a) (off r j + b)
  = if Nat.ltb i j then ent (bf i j) a b else aconj (ent (bf j i) b a).
Proof.
  intros Hi Hj Ha Hb. unfold two_symm_blocks_h.
  change (vcat (mk n (fun i0 => hcat (mk n (fun j0 =>
            if i0 <? j0 then bf i0 j0 else map (map aconj) (transpose azero (bf j0 i0)))))))
    with (two_asymm_blocks n n (fun i0 j0 =>
            if i0 <? j0 then bf i0 j0 else map (map aconj) (transpose azero (bf j0 i0)))).
  unfold ent. rewrite (blocks_entry azero n n r r); auto.
  - destruct (Nat.ltb_spec i j); [reflexivity|].
    destruct (HS j i Hj Hi ltac:(lia)) as [HL HF].
    destruct (transpose_shape (bf j i) (r j) (r i) (Hr j Hj) HL HF) as [HTL HTF].
    rewrite (nth_map_lt (map aconj) _ a []) by lia.
    rewrite (nth_map_lt aconj _ b azero).
    + f_equal. apply nth_transpose; [rewrite hd_len by lia; exact Ha|lia].
    + rewrite Forall_forall in HTF. rewrite (HTF (nth a (transpose azero (bf j i)) [])); [exact Hb|].
      apply nth_In. lia.
  - intros i' j' Hi' Hj'. destruct (Nat.ltb_spec i' j'); [apply HS; lia|].
    destruct (HS j' i' Hj' Hi' ltac:(lia)) as [HL HF].
    destruct (transpose_shape (bf j' i') (r j') (r i') (Hr j' Hj') HL HF) as [HTL HTF].
    split; [now rewrite map_length|]. apply Forall_map. revert HTF. apply Forall_impl. intros row Hrow.
    now rewrite map_length.
Qed.
Theorem hermitian_output_offdiag i j a b : i < n -> j < n -> i < j -> a < r i -> b < r j ->
  ent (two_symm_blocks_h azero aconj n bf) (off r j + b) (off r i + a)
  = aconj (ent (two_symm_blocks_h azero aconj n bf) (off r i + a) (off r j + b)).
Proof.
  intros Hi Hj Hlt Ha Hb. rewrite !symm_h_entry by assumption.
  destruct (Nat.ltb_spec i j), (Nat.ltb_spec j i); try lia; reflexivity.
Qed.
Theorem hermitian_output_diag i a b : i < n -> a < r i -> b < r i ->
  ent (two_symm_blocks_h azero aconj n bf) (off r i + a) (off r i + b) = aconj (ent (bf i i) b a).
Proof. intros Hi Ha Hb. rewrite symm_h_entry by assumption. now rewrite Nat.ltb_irrefl. Qed.
End SymOut.

(* ------------------------------------------------------------------ *)
(* four indices (base_four_symm.py): the nested concatenation           *)
(* ------------------------------------------------------------------ *)
Section FourConcat.
Context {A : Type} (azero : A).
Notation R4 := (list (list (list (list A)))).
Notation get4' := (get4 azero).

Definition shp1 (w : nat) (v : list A) : Prop := length v = w.
Definition shp2 (w1 w2 : nat) (m : list (list A)) : Prop := length m = w1 /\ Forall (shp1 w2) m.
Definition shp3 (w1 w2 w3 : nat) (m : list (list (list A))) : Prop := length m = w1 /\ Forall (shp2 w2 w3) m.
Definition shp4 (w1 w2 w3 w4 : nat) (m : R4) : Prop := length m = w1 /\ Forall (shp3 w2 w3 w4) m.

Lemma Forall_nth_lt {B} (Q : B -> Prop) (l : list B) a d : Forall Q l -> a < length l -> Q (nth a l d).
Proof. intros H Ha. rewrite Forall_forall in H. apply H. now apply nth_In. Qed.

Lemma mk_ne {B} n (f : nat -> B) : 0 < n -> mk n f <> [].
Proof. destruct n; [lia|]. rewrite mk_cons. discriminate. Qed.

Definition shape4 (n : nat) (r : nat -> nat) (cell : nat -> nat -> nat -> nat -> R4) : Prop :=
  forall i j k l, i < n -> j < n -> k < n -> l < n -> shp4 (r i) (r j) (r k) (r l) (cell i j k l).

Variables (n : nat) (r : nat -> nat) (cell : nat -> nat -> nat -> nat -> R4).
Hypothesis HS : shape4 n r cell.

(* entry of the nested concatenation: basis indices = block offset + position in the block *)
Theorem four_concat_entry i j k l a b c e :
  i < n -> j < n -> k < n -> l < n -> a < r i -> b < r j -> c < r k -> e < r l ->
  get4' (four_concat n cell) (off r i + a) (off r j + b) (off r k + c) (off r l + e)
  = get4' (cell i j k l) a b c e.
Proof.
  intros Hi Hj Hk Hl Ha Hb Hc He. unfold get4, four_concat.
  assert (Hn : 0 < n) by lia.
  (* shapes of the selected cells *)
  assert (C1 : forall j' k' l', j' < n -> k' < n -> l' < n -> length (cell i j' k' l') = r i).
  { intros. now destruct (HS i j' k' l') as [H' _]. }
  assert (C2 : forall j' k' l', j' < n -> k' < n -> l' < n -> shp3 (r j') (r k') (r l') (nth a (cell i j' k' l') [])).
  { intros. destruct (HS i j' k' l') as [HH1 HH2]; auto. apply Forall_nth_lt; [exact HH2|lia]. }
  assert (C3 : forall k' l', k' < n -> l' < n -> shp2 (r k') (r l') (nth b (nth a (cell i j k' l') []) [])).
  { intros. destruct (C2 j k' l') as [HH1 HH2]; auto. apply Forall_nth_lt; [exact HH2|lia]. }
  assert (C4 : forall l', l' < n -> shp1 (r l') (nth c (nth b (nth a (cell i j k l') []) []) [])).
  { intros. destruct (C3 k l') as [HH1 HH2]; auto. apply Forall_nth_lt; [exact HH2|lia]. }
  (* lengths of the partial concatenations *)
  assert (L3 : forall j' k', j' < n -> k' < n -> length (cat3 (mk n (fun l' => cell i j' k' l'))) = r i).
  { intros. apply length_zipw; [now apply mk_ne|]. apply Forall_mk. intros; now apply C1. }
  assert (L2 : forall j', j' < n -> length (cat2 (mk n (fun k' => cat3 (mk n (fun l' => cell i j' k' l'))))) = r i).
  { intros. apply length_zipw; [now apply mk_ne|]. apply Forall_mk. intros; now apply L3. }
  (* axis 0 *)
  rewrite (nth_concat_mk n _ r [] i a); [| |exact Hi|exact Ha].
  2:{ intros i' Hi'. apply length_zipw; [now apply mk_ne|]. apply Forall_mk. intros j' Hj'.
      apply length_zipw; [now apply mk_ne|]. apply Forall_mk. intros k' Hk'.
      apply length_zipw; [now apply mk_ne|]. apply Forall_mk. intros l' Hl'.
      now destruct (HS i' j' k' l') as [H' _]. }
  (* axis 1 *)
  unfold cat1. rewrite (nth_zipw _ [] (r i)); [|now apply mk_ne| |exact Ha].
  2:{ apply Forall_mk. intros; now apply L2. }
  rewrite fold1_app, map_mk.
  (* row a of the (j', .) slab *)
  assert (E2 : forall j', j' < n ->
    nth a (cat2 (mk n (fun k' => cat3 (mk n (fun l' => cell i j' k' l'))))) []
    = zipw (@app (list A)) (mk n (fun k' => zipw (map2 (@app A)) (mk n (fun l' => nth a (cell i j' k' l') []))))).
  { intros j' Hj'. unfold cat2. rewrite (nth_zipw _ [] (r i)); [|now apply mk_ne| |exact Ha].
    2:{ apply Forall_mk. intros; now apply L3. }
    rewrite fold1_map2, map_mk. f_equal. apply mk_ext. intros k' Hk'.
    unfold cat3. rewrite (nth_zipw _ [] (r i)); [|now apply mk_ne| |exact Ha].
    2:{ apply Forall_mk. intros; now apply C1. }
    now rewrite fold1_map2, map_mk. }
  assert (LZ2 : forall j' k', j' < n -> k' < n ->
    length (zipw (map2 (@app A)) (mk n (fun l' => nth a (cell i j' k' l') []))) = r j').
  { intros. apply length_zipw; [now apply mk_ne|]. apply Forall_mk. intros l' Hl'. now destruct (C2 j' k' l'). }
  rewrite (nth_concat_mk n _ r [] j b); [| |exact Hj|exact Hb].
  2:{ intros j' Hj'. rewrite E2 by exact Hj'. apply length_zipw; [now apply mk_ne|]. apply Forall_mk.
      intros; now apply LZ2. }
  rewrite E2 by exact Hj.
  (* axis 2 *)
  rewrite (nth_zipw _ [] (r j)); [|now apply mk_ne| |exact Hb].
  2:{ apply Forall_mk. intros; now apply LZ2. }
  rewrite fold1_app, map_mk.
  assert (E3 : forall k', k' < n ->
    nth b (zipw (map2 (@app A)) (mk n (fun l' => nth a (cell i j k' l') []))) []
    = zipw (@app A) (mk n (fun l' => nth b (nth a (cell i j k' l') []) []))).
  { intros k' Hk'. rewrite (nth_zipw _ [] (r j)); [|now apply mk_ne| |exact Hb].
    2:{ apply Forall_mk. intros l' Hl'. now destruct (C2 j k' l'). }
    now rewrite fold1_map2, map_mk. }
  assert (LZ3 : forall k', k' < n -> length (zipw (@app A) (mk n (fun l' => nth b (nth a (cell i j k' l') []) []))) = r k').
  { intros. apply length_zipw; [now apply mk_ne|]. apply Forall_mk. intros l' Hl'. now destruct (C3 k' l'). }
  rewrite (nth_concat_mk n _ r [] k c); [| |exact Hk|exact Hc].
  2:{ intros k' Hk'. rewrite E3 by exact Hk'. now apply LZ3. }
  rewrite E3 by exact Hk.
  (* axis 3 *)
  rewrite (nth_zipw _ [] (r k)); [|now apply mk_ne| |exact Hc].
  2:{ apply Forall_mk. intros l' Hl'. now destruct (C3 k l'). }
  rewrite fold1_app, map_mk.
  apply (nth_concat_mk n (fun l' => nth c (nth b (nth a (cell i j k l') []) []) []) r azero l e); auto.
Qed.
End FourConcat.

(* position x = (block k of the new order, local a) holds old index off r (p_k) + a *)
Lemma nth_iperm r p k a : k < length p -> a < r (nth k p 0) ->
  nth (off (fun k' => r (nth k' p 0)) k + a) (iperm r p) 0 = off r (nth k p 0) + a.
Proof.
  intros Hk Ha. unfold iperm. rewrite flat_map_concat_map.
  rewrite <- (mk_nth_map (fun k0 => seq (off r k0) (r k0)) p).
  rewrite (nth_concat_mk (length p) _ (fun k' => r (nth k' p 0)) 0 k a); auto.
  - now rewrite seq_nth.
  - intros; now rewrite seq_length.
Qed.
Lemma off_iperm_length r p : off (fun k' => r (nth k' p 0)) (length p) = length (iperm r p).
Proof.
  unfold iperm. rewrite flat_map_concat_map, <- (mk_nth_map (fun k0 => seq (off r k0) (r k0)) p).
  symmetry. apply length_concat_mk. intros; now rewrite seq_length.
Qed.

(* ------------------------------------------------------------------ *)
(* four indices: the store of the eight permuted writes                 *)
(* ------------------------------------------------------------------ *)
Section FourStore.
Context {A : Type} (azero : A).
Notation R4 := (list (list (list (list A)))).
Notation swapax' := (swapax azero).

Definition bkey (Bf : nat -> nat -> nat -> nat -> R4) (x : key) : R4 :=
  let '(a, b, c, d) := x in Bf a b c d.

(* EIGHT-FOLD BLOCK SYMMETRY, in the form the code relies on: each of the seven permuted
   copies written by one (i,j,k,l) iteration (base_four_symm.py:215-226) is the block of the
   permuted shell quartet *)
Definition sym8 (n : nat) (Bf : nat -> nat -> nat -> nat -> R4) : Prop :=
  forall i j k l, i < n -> j < n -> k < n -> l < n ->
    Bf i j l k = swapax' 2 3 (Bf i j k l) /\
    Bf j i k l = swapax' 0 1 (Bf i j k l) /\
    Bf j i l k = swapax' 0 1 (swapax' 2 3 (Bf i j k l)) /\
    Bf k l i j = swapax' 0 2 (swapax' 1 3 (Bf i j k l)) /\
    Bf l k i j = swapax' 0 1 (swapax' 0 2 (swapax' 1 3 (Bf i j k l))) /\
    Bf k l j i = swapax' 2 3 (swapax' 0 2 (swapax' 1 3 (Bf i j k l))) /\
    Bf l k j i = swapax' 0 3 (swapax' 1 2 (Bf i j k l)).

Lemma key_eqb_eq x y : key_eqb x y = true <-> x = y.
Proof.
  destruct x as [[[a b] c] d], y as [[[a' b'] c'] d']. unfold key_eqb.
  rewrite !andb_true_iff, !Nat.eqb_eq. split.
  - intros [[[-> ->] ->] ->]. reflexivity.
  - intros E. inversion E. auto.
Qed.

Lemma in_pairs n a b : In (a, b) (pairs n) <-> a <= b /\ b < n.
Proof.
  unfold pairs. rewrite in_flat_map. split.
  - intros (i & Hi & H). apply in_map_iff in H. destruct H as (j & E & Hj). inversion E; subst.
    apply in_seq in Hi. apply in_seq in Hj. lia.
  - intros [Hab Hb]. exists a. split; [apply in_seq; lia|]. apply in_map_iff. exists b. split; [reflexivity|].
    apply in_seq. lia.
Qed.

(* two elements of a list: one of them heads a tail that contains the other *)
Lemma tails_cover {B} (L : list B) u v : In u L -> In v L ->
  exists tl rest, In tl (tails L) /\ ((tl = u :: rest /\ In v tl) \/ (tl = v :: rest /\ In u tl)).
Proof.
  induction L as [|x L IH]; intros Hu Hv; [destruct Hu|].
  destruct Hu as [<-|Hu].
  - exists (x :: L), L. split; [now left|]. left. split; [reflexivity|exact Hv].
  - destruct Hv as [<-|Hv].
    + exists (x :: L), L. split; [now left|]. right. split; [reflexivity|now right].
    + destruct (IH Hu Hv) as (tl & rest & Hin & H). exists tl, rest. split; [now right|exact H].
Qed.
Lemma in_tails_sub {B} (L tl : list B) x : In tl (tails L) -> In x tl -> In x L.
Proof.
  induction L as [|y L IH]; intros Ht Hx; [destruct Ht|].
  destruct Ht as [<-|Ht]; [exact Hx|]. right. now apply IH.
Qed.

Variables (n : nat) (Bf : nat -> nat -> nat -> nat -> R4).
Hypothesis H8 : sym8 n Bf.

Lemma writes8_consistent i j k l : i < n -> j < n -> k < n -> l < n ->
  Forall (fun w => snd w = bkey Bf (fst w)) (writes8 azero i j k l (Bf i j k l)).
Proof.
  intros Hi Hj Hk Hl. destruct (H8 i j k l Hi Hj Hk Hl) as (E1 & E2 & E3 & E4 & E5 & E6 & E7).
  unfold writes8. repeat constructor; cbn [fst snd bkey]; auto.
Qed.

Lemma all_writes_consistent :
  Forall (fun w => snd w = bkey Bf (fst w)) (all_writes azero n Bf).
Proof.
  unfold all_writes. apply Forall_forall. intros w Hw. apply in_flat_map in Hw.
  destruct Hw as (tl & Htl & Hw). destruct tl as [|[i j] rest]; [destruct Hw|].
  apply in_flat_map in Hw. destruct Hw as ([k l] & Hkl & Hw).
  assert (Hij : In (i, j) (pairs n)) by (eapply in_tails_sub; [exact Htl|now left]).
  assert (Hkl' : In (k, l) (pairs n)) by (eapply in_tails_sub; [exact Htl|exact Hkl]).
  apply in_pairs in Hij. apply in_pairs in Hkl'.
  pose proof (writes8_consistent i j k l ltac:(lia) ltac:(lia) ltac:(lia) ltac:(lia)) as HF.
  rewrite Forall_forall in HF. now apply HF.
Qed.

Lemma all_writes_cover i j k l : i < n -> j < n -> k < n -> l < n ->
  exists w, In w (all_writes azero n Bf) /\ fst w = (i, j, k, l).
Proof.
  intros Hi Hj Hk Hl.
  set (i' := Nat.min i j). set (j' := Nat.max i j). set (k' := Nat.min k l). set (l' := Nat.max k l).
  assert (Hu : In (i', j') (pairs n)) by (apply in_pairs; unfold i', j'; lia).
  assert (Hv : In (k', l') (pairs n)) by (apply in_pairs; unfold k', l'; lia).
  destruct (tails_cover (pairs n) _ _ Hu Hv) as (tl & rest & Htl & [[E Hin]|[E Hin]]).
  - (* (i',j') heads the tail, (k',l') in it: keys 1-4 *)
    assert (Hsub : forall w, In w (writes8 azero i' j' k' l' (Bf i' j' k' l')) -> In w (all_writes azero n Bf)).
    { intros w Hw. unfold all_writes. apply in_flat_map. exists tl. split; [exact Htl|]. rewrite E.
      apply in_flat_map. exists (k', l'). split; [now rewrite <- E|exact Hw]. }
    destruct (Nat.le_ge_cases i j) as [Hij|Hij]; destruct (Nat.le_ge_cases k l) as [Hkl|Hkl].
    + eexists. split; [apply Hsub; unfold writes8; left; reflexivity|]. cbn [fst]. unfold i', j', k', l'.
      rewrite !Nat.min_l, !Nat.max_r by lia. reflexivity.
    + eexists. split; [apply Hsub; unfold writes8; right; left; reflexivity|]. cbn [fst]. unfold i', j', k', l'.
      rewrite Nat.min_l, Nat.max_r, Nat.min_r, Nat.max_l by lia. reflexivity.
    + eexists. split; [apply Hsub; unfold writes8; do 2 right; left; reflexivity|]. cbn [fst]. unfold i', j', k', l'.
      rewrite Nat.min_r, Nat.max_l, Nat.min_l, Nat.max_r by lia. reflexivity.
    + eexists. split; [apply Hsub; unfold writes8; do 3 right; left; reflexivity|]. cbn [fst]. unfold i', j', k', l'.
      rewrite Nat.min_r, Nat.max_l, Nat.min_r, Nat.max_l by lia. reflexivity.
  - (* (k',l') heads the tail, (i',j') in it: keys 5-8 of the iteration (k',l',i',j') *)
    assert (Hsub : forall w, In w (writes8 azero k' l' i' j' (Bf k' l' i' j')) -> In w (all_writes azero n Bf)).
    { intros w Hw. unfold all_writes. apply in_flat_map. exists tl. split; [exact Htl|]. rewrite E.
      apply in_flat_map. exists (i', j'). split; [now rewrite <- E|exact Hw]. }
    destruct (Nat.le_ge_cases i j) as [Hij|Hij]; destruct (Nat.le_ge_cases k l) as [Hkl|Hkl].
    + eexists. split; [apply Hsub; unfold writes8; do 4 right; left; reflexivity|]. cbn [fst]. unfold i', j', k', l'.
      rewrite !Nat.min_l, !Nat.max_r by lia. reflexivity.
    + eexists. split; [apply Hsub; unfold writes8; do 6 right; left; reflexivity|]. cbn [fst]. unfold i', j', k', l'.
      rewrite Nat.min_l, Nat.max_r, Nat.min_r, Nat.max_l by lia. reflexivity.
    + eexists. split; [apply Hsub; unfold writes8; do 5 right; left; reflexivity|]. cbn [fst]. unfold i', j', k', l'.
      rewrite Nat.min_r, Nat.max_l, Nat.min_l, Nat.max_r by lia. reflexivity.
    + eexists. split; [apply Hsub; unfold writes8; do 7 right; left; reflexivity|]. cbn [fst]. unfold i', j', k', l'.
      rewrite Nat.min_r, Nat.max_l, Nat.min_r, Nat.max_l by lia. reflexivity.
Qed.

(* whatever the order of the writes ("last write wins"), every cell of the store is the
   block of its own shell quartet *)
Theorem lookup_all_writes i j k l : i < n -> j < n -> k < n -> l < n ->
  lookup (all_writes azero n Bf) (i, j, k, l) = Bf i j k l.
Proof.
  intros Hi Hj Hk Hl. unfold lookup.
  destruct (find (fun p => key_eqb (fst p) (i, j, k, l)) (rev (all_writes azero n Bf))) as [w|] eqn:Ef.
  - apply find_some in Ef. destruct Ef as [Hin Hk']. apply key_eqb_eq in Hk'.
    apply in_rev in Hin. pose proof all_writes_consistent as HF. rewrite Forall_forall in HF.
    rewrite (HF w Hin), Hk'. reflexivity.
  - exfalso. destruct (all_writes_cover i j k l Hi Hj Hk Hl) as (w & Hin & Hw).
    apply in_rev in Hin. pose proof (find_none _ _ Ef w Hin) as Hn. cbn beta in Hn.
    rewrite Hw in Hn. assert (key_eqb (i, j, k, l) (i, j, k, l) = true) by (now apply key_eqb_eq). congruence.
Qed.
End FourStore.

(* ------------------------------------------------------------------ *)
(* four indices: reordering the shells                                  *)
(* ------------------------------------------------------------------ *)
Section FourPerm.
Context {A : Type} (azero : A).
Notation R4 := (list (list (list (list A)))).
Notation get4' := (get4 azero).

Lemma four_concat_ext n (cell cell' : nat -> nat -> nat -> nat -> R4) :
  (forall i j k l, i < n -> j < n -> k < n -> l < n -> cell i j k l = cell' i j k l) ->
  four_concat n cell = four_concat n cell'.
Proof.
  intros H. unfold four_concat. f_equal. apply mk_ext; intros i Hi. f_equal.
  apply mk_ext; intros j Hj. f_equal. apply mk_ext; intros k Hk. f_equal.
  apply mk_ext; intros l Hl. now apply H.
Qed.

(* the nested concatenation of a selection of the shells, entry by entry: new basis index x
   holds what the original array holds at index nth x (iperm r p) *)
Theorem four_concat_perm n r (cell cell' : nat -> nat -> nat -> nat -> R4) p :
  shape4 n r cell -> Forall (fun k => k < n) p ->
  (forall a b c d, a < length p -> b < length p -> c < length p -> d < length p ->
     cell' a b c d = cell (nth a p 0) (nth b p 0) (nth c p 0) (nth d p 0)) ->
  forall x1 x2 x3 x4, x1 < length (iperm r p) -> x2 < length (iperm r p) ->
    x3 < length (iperm r p) -> x4 < length (iperm r p) ->
  get4' (four_concat (length p) cell') x1 x2 x3 x4
  = get4' (four_concat n cell) (nth x1 (iperm r p) 0) (nth x2 (iperm r p) 0)
                               (nth x3 (iperm r p) 0) (nth x4 (iperm r p) 0).
Proof.
  intros HS Hp Hc x1 x2 x3 x4 H1 H2 H3 H4.
  set (r' := fun k' => r (nth k' p 0)).
  rewrite <- (off_iperm_length r p) in H1, H2, H3, H4.
  destruct (off_decompose r' _ x1 H1) as (k1 & a1 & Hk1 & Ha1 & ->).
  destruct (off_decompose r' _ x2 H2) as (k2 & a2 & Hk2 & Ha2 & ->).
  destruct (off_decompose r' _ x3 H3) as (k3 & a3 & Hk3 & Ha3 & ->).
  destruct (off_decompose r' _ x4 H4) as (k4 & a4 & Hk4 & Ha4 & ->).
  unfold r' in *. rewrite !nth_iperm by assumption.
  rewrite (four_concat_ext (length p) cell'
             (fun a b c d => cell (nth a p 0) (nth b p 0) (nth c p 0) (nth d p 0))) by exact Hc.
  rewrite (four_concat_entry azero (length p) (fun k' => r (nth k' p 0))) by
    (try assumption; intros i j k l Hi Hj Hk Hl; apply HS; eapply sel_lt; eauto).
  symmetry. apply (four_concat_entry azero n r cell HS); try assumption; eapply sel_lt; eauto.
Qed.

Lemma sym8_inherit n (Bf : nat -> nat -> nat -> nat -> R4) p : Forall (fun k => k < n) p ->
  sym8 azero n Bf -> sym8 azero (length p) (fun a b c d => Bf (nth a p 0) (nth b p 0) (nth c p 0) (nth d p 0)).
Proof. intros Hp H i j k l Hi Hj Hk Hl. apply H; eapply sel_lt; eauto. Qed.
End FourPerm.

Section FourSymm.
Context {F : Type} (K : Fops F).
Context {A : Type} (azero : A) (aadd : A -> A -> A) (ascale : F -> A -> A).
Notation R4 := (list (list (list (list A)))).

(* processed block of the shells at positions i j k l *)
Definition B4f (mode : nat) (ss : list (@sh F)) (bf : nat -> nat -> nat -> nat -> list (list (list (list R4))))
           (i j k l : nat) : R4 :=
  let d := mkSh false [] [] in
  let ty s := match mode with 0 => false | 1 => true | _ => sh_sph s end in
  let s1 := nth i ss d in let s2 := nth j ss d in let s3 := nth k ss d in let s4 := nth l ss d in
  block4 azero aadd ascale (ty s1) (ty s2) (ty s3) (ty s4) s1 s2 s3 s4 (bf i j k l).

(* given the eight-fold symmetry of the processed blocks, the store-and-concatenate assembly
   of base_four_symm.py is the plain concatenation of all n^4 blocks *)
Theorem four_symm_is_concat mode ss bf : sym8 azero (length ss) (B4f mode ss bf) ->
  four_symm azero aadd ascale mode ss bf = four_concat (length ss) (B4f mode ss bf).
Proof.
  intros H8. unfold four_symm. cbv zeta. apply four_concat_ext. intros i j k l Hi Hj Hk Hl.
  exact (lookup_all_writes azero (length ss) (B4f mode ss bf) H8 i j k l Hi Hj Hk Hl).
Qed.

(* FOUR-INDEX PERMUTATION THEOREM (Assembly14.four_symm), entry by entry over the whole array *)
Theorem four_symm_perm mode ss bf r p :
  shape4 (length ss) r (B4f mode ss bf) -> sym8 azero (length ss) (B4f mode ss bf) ->
  Forall (fun k => k < length ss) p ->
  forall x1 x2 x3 x4, x1 < length (iperm r p) -> x2 < length (iperm r p) ->
    x3 < length (iperm r p) -> x4 < length (iperm r p) ->
  get4 azero (four_symm azero aadd ascale mode (sel (mkSh false [] []) p ss)
                (fun a b c d => bf (nth a p 0) (nth b p 0) (nth c p 0) (nth d p 0))) x1 x2 x3 x4
  = get4 azero (four_symm azero aadd ascale mode ss bf)
      (nth x1 (iperm r p) 0) (nth x2 (iperm r p) 0) (nth x3 (iperm r p) 0) (nth x4 (iperm r p) 0).
Proof.
  intros HS H8 Hp x1 x2 x3 x4 H1 H2 H3 H4.
  assert (EB : forall a b c d, a < length p -> b < length p -> c < length p -> d < length p ->
     B4f mode (sel (mkSh false [] []) p ss) (fun a b c d => bf (nth a p 0) (nth b p 0) (nth c p 0) (nth d p 0)) a b c d
     = B4f mode ss bf (nth a p 0) (nth b p 0) (nth c p 0) (nth d p 0)).
  { intros a b c d Ha Hb Hc Hd. unfold B4f, sel. cbv zeta.
    now rewrite !(nth_map_lt (fun k => nth k ss (mkSh false [] [])) p _ 0) by assumption. }
  rewrite (four_symm_is_concat mode ss bf H8).
  rewrite four_symm_is_concat.
  - unfold sel at 1. rewrite map_length. now apply (four_concat_perm azero (length ss) r).
  - unfold sel at 1. rewrite map_length. intros i j k l Hi Hj Hk Hl.
    rewrite !EB by assumption.
    exact (sym8_inherit azero (length ss) (B4f mode ss bf) p Hp H8 i j k l Hi Hj Hk Hl).
Qed.
End FourSymm.

(* ------------------------------------------------------------------ *)
(* electron_repulsion_integral (OneBody.eri_integral, chemists' notation, no transform) *)
(* ------------------------------------------------------------------ *)
Section Eri.
Context {F : Type} (K : Fops F).
Notation R4 := (list (list (list (list F)))).

Definition ess (basis : list (shell F)) : list (@sh F) :=
  map (fun p => mkSh (s_sph (p_shell p)) (p_T p) (p_norm p)) (map (prep K) basis).
Definition ebf (basis : list (shell F)) (i j k l : nat) : list (list (list (list R4))) :=
  let ps := map (prep K) basis in let d := dummy_p K in
  eri_block K (p_shell (nth i ps d)) (p_shell (nth j ps d)) (p_shell (nth k ps d)) (p_shell (nth l ps d)).
(* processed (normalised, transformed, merged) block of the shell quartet at positions i j k l *)
Definition Beri (basis : list (shell F)) : nat -> nat -> nat -> nat -> R4 :=
  B4f (f0 K) (fadd K) (fmul K) 2 (ess basis) (ebf basis).

Lemma eri_integral_chem basis :
  eri_integral K basis None false = four_symm (f0 K) (fadd K) (fmul K) 2 (ess basis) (ebf basis).
Proof. reflexivity. Qed.

Lemma Beri_sel basis ds p a b c d : Forall (fun k => k < length basis) p ->
  a < length p -> b < length p -> c < length p -> d < length p ->
  Beri (sel ds p basis) a b c d = Beri basis (nth a p 0) (nth b p 0) (nth c p 0) (nth d p 0).
Proof.
  intros Hp Ha Hb Hc Hd.
  assert (E1 : forall x, x < length p ->
    nth x (ess (sel ds p basis)) (mkSh false [] []) = nth (nth x p 0) (ess basis) (mkSh false [] [])).
  { intros x Hx. unfold ess, sel. rewrite !map_map.
    rewrite (nth_map_lt _ p x 0) by exact Hx.
    now rewrite (nth_map_lt _ basis (nth x p 0) ds) by (eapply sel_lt; eauto). }
  assert (E2 : forall x, x < length p ->
    nth x (map (prep K) (sel ds p basis)) (dummy_p K) = nth (nth x p 0) (map (prep K) basis) (dummy_p K)).
  { intros x Hx. unfold sel. rewrite !map_map.
    rewrite (nth_map_lt _ p x 0) by exact Hx.
    now rewrite (nth_map_lt _ basis (nth x p 0) ds) by (eapply sel_lt; eauto). }
  unfold Beri, B4f, ebf. cbv zeta. now rewrite !E1, !E2 by assumption.
Qed.

Theorem eri_integral_perm basis ds r p :
  shape4 (length basis) r (Beri basis) -> sym8 (f0 K) (length basis) (Beri basis) ->
  Forall (fun k => k < length basis) p ->
  forall x1 x2 x3 x4, x1 < length (iperm r p) -> x2 < length (iperm r p) ->
    x3 < length (iperm r p) -> x4 < length (iperm r p) ->
  get4 (f0 K) (eri_integral K (sel ds p basis) None false) x1 x2 x3 x4
  = get4 (f0 K) (eri_integral K basis None false)
      (nth x1 (iperm r p) 0) (nth x2 (iperm r p) 0) (nth x3 (iperm r p) 0) (nth x4 (iperm r p) 0).
Proof.
  intros HS H8 Hp x1 x2 x3 x4 H1 H2 H3 H4. rewrite !eri_integral_chem.
  assert (Ln : length (ess basis) = length basis) by (unfold ess; now rewrite !map_length).
  assert (Lp : length (ess (sel ds p basis)) = length p) by (unfold ess, sel; now rewrite !map_length).
  rewrite (four_symm_is_concat (f0 K) (fadd K) (fmul K) 2 (ess basis) (ebf basis)) by (rewrite Ln; exact H8).
  rewrite four_symm_is_concat.
  - rewrite Lp, Ln. apply (four_concat_perm (f0 K) (length basis) r); auto.
    intros a b c d Ha Hb Hc Hd. now apply Beri_sel.
  - rewrite Lp. intros i j k l Hi Hj Hk Hl. fold (Beri (sel ds p basis)).
    rewrite !(Beri_sel basis ds p) by assumption.
    exact (sym8_inherit (f0 K) (length basis) (Beri basis) p Hp H8 i j k l Hi Hj Hk Hl).
Qed.
End Eri.
