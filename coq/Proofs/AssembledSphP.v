(* Proofs/AssembledSphP.v — spherical / mixed bases: entries of the processed shell-pair block
   (Model/Assembly.shell_block: normalise, transform_left for a spherical first shell, transform_right for a
   spherical second shell, flatten) and of the assembled matrices, for ANY assignment of coordinate types.

   Output index map: shell k occupies [odim s_k] = M_k * [osize s_k] positions, osize = number of spherical
   labels for a spherical shell, number of Cartesian components for a Cartesian one;
       oidx bs k m q = ooff bs k + (m * osize s_k + q).
   [tsum sph T L q f] = sum_{c<L} T[q][c] . f(c) for a spherical shell, f(q) for a Cartesian one: the action of
   the shell's transformation T_s (identity for Cartesian shells) on one index.

     shell_block_entry       processed block[(m1,q1)][(m2,q2)]
                               = tsum_2 (c2 -> tsum_1 (c1 -> n1[m1][c1] n2[m2][c2] . blk[m1][c1][m2][c2]))
     two_symm_mixed_entry    assembled entry, evaluated blocks (i <= j) and transposed copies (i > j)
   (generic element module A, no algebraic law needed).  The scalar corollaries — every entry of the mixed
   overlap matrix is (+)T on both indices of the all-Cartesian overlap matrix — are in AssembledSphOverlapP.v. *)
From Coq Require Import List Arith Lia Bool.
From GB Require Import Base.Field Base.FNum Base.Tables Base.Blocks Model.Shell Model.MomentInt
  Model.Spherical Model.Assembly Model.Overlap Model.DiffOp Model.OneBody
  Proofs.BlockP Proofs.CoreSumP Proofs.CoreBlockP Proofs.CoreDiffP Proofs.AssemblyP Proofs.OverlapP
  Proofs.BlockMatP Proofs.AssembledP.
Import ListNotations.

Section SphBlock.
Context {F : Type} (K : Fops F).
Context {A : Type} (azero : A) (aadd : A -> A -> A) (ascale : F -> A -> A).

Notation asum' := (asum azero aadd).

Definition adot (trow : list F) (v : list A) : A :=
  asum' (map (fun '(t, x) => ascale t x) (combine trow v)).

Lemma adot_mk trow v L : length trow = L -> length v = L ->
  adot trow v = asum' (mk L (fun c => ascale (nth c trow (f0 K)) (nth c v azero))).
Proof.
  intros H1 H2. unfold adot. rewrite (combine_as_mk trow v (f0 K) azero) by congruence.
  rewrite CoreSumP.map_mk. now rewrite H1.
Qed.

(* ---- transform_right ---- *)
Lemma transform_right_spec T (blk : list (list (list (list A)))) M1 X M2 L2 S2 :
  shape4 M1 X M2 L2 blk -> length T = S2 ->
  shape4 M1 X M2 S2 (transform_right azero aadd ascale T blk) /\
  forall m1 x m2 s2, m1 < M1 -> x < X -> m2 < M2 -> s2 < S2 ->
    get4 azero m1 x m2 s2 (transform_right azero aadd ascale T blk)
    = adot (nth s2 T []) (nth m2 (nth x (nth m1 blk []) []) []).
Proof.
  intros [B1 B2] HT. unfold transform_right, apply_rows.
  assert (E1 : forall m1, m1 < M1 ->
     nth m1 (map (map (map (fun row => map (fun trow => adot trow row) T))) blk) []
     = map (map (fun row => map (fun trow => adot trow row) T)) (nth m1 blk [])).
  { intros m1 H1. now rewrite (nth_map_d _ blk m1 []) by lia. }
  assert (E2 : forall m1 x, m1 < M1 -> x < X ->
     nth x (map (map (fun row => map (fun trow => adot trow row) T)) (nth m1 blk [])) []
     = map (fun row => map (fun trow => adot trow row) T) (nth x (nth m1 blk []) [])).
  { intros m1 x H1 H2. destruct (B2 m1 H1) as [Ba _]. now rewrite (nth_map_d _ _ x []) by lia. }
  assert (E3 : forall m1 x m2, m1 < M1 -> x < X -> m2 < M2 ->
     nth m2 (map (fun row => map (fun trow => adot trow row) T) (nth x (nth m1 blk []) [])) []
     = map (fun trow => adot trow (nth m2 (nth x (nth m1 blk []) []) [])) T).
  { intros m1 x m2 H1 H2 H3. destruct (B2 m1 H1) as [_ Bb]. destruct (Bb x H2) as [Bc _].
    now rewrite (nth_map_d _ _ m2 []) by lia. }
  change (map (map (map (fun row : list A => map (fun trow : list F =>
            asum' (map (fun '(t, x) => ascale t x) (combine trow row))) T))) blk)
    with (map (map (map (fun row => map (fun trow => adot trow row) T))) blk).
  split.
  - split; [now rewrite map_length|]. intros m1 H1. rewrite (E1 m1 H1). destruct (B2 m1 H1) as [Ba Bb].
    split; [now rewrite map_length|]. intros x H2. rewrite (E2 m1 x H1 H2). destruct (Bb x H2) as [Bc Bd].
    split; [now rewrite map_length|]. intros m2 H3. rewrite (E3 m1 x m2 H1 H2 H3). now rewrite map_length.
  - intros m1 x m2 s2 H1 H2 H3 H4. unfold get4. rewrite (E1 m1 H1), (E2 m1 x H1 H2), (E3 m1 x m2 H1 H2 H3).
    now rewrite (nth_map_d _ T s2 []) by lia.
Qed.

(* ---- slabs ---- *)
Lemma slab_add_zip (x y : list (list A)) :
  slab_add aadd x y = zipc (fun r1 r2 => zipc aadd r1 r2) x y.
Proof. reflexivity. Qed.

Lemma slab_add_spec x y M L : shape2 M L x -> shape2 M L y ->
  shape2 M L (slab_add aadd x y) /\
  forall m c, m < M -> c < L ->
    nth c (nth m (slab_add aadd x y) []) azero = aadd (nth c (nth m x []) azero) (nth c (nth m y []) azero).
Proof.
  intros [X1 X2] [Y1 Y2]. rewrite slab_add_zip.
  destruct (zipc_spec (fun r1 r2 : list A => zipc aadd r1 r2) x y M [] [] [] X1 Y1) as [Z1 E1].
  split.
  - split; [exact Z1|]. intros m Hm. rewrite (E1 m Hm).
    exact (proj1 (zipc_spec aadd _ _ L azero azero azero (X2 m Hm) (Y2 m Hm))).
  - intros m c Hm Hc. rewrite (E1 m Hm).
    exact (proj2 (zipc_spec aadd _ _ L azero azero azero (X2 m Hm) (Y2 m Hm)) c Hc).
Qed.

Lemma slab_scale_spec t x M L : shape2 M L x ->
  shape2 M L (slab_scale ascale t x) /\
  forall m c, m < M -> c < L ->
    nth c (nth m (slab_scale ascale t x) []) azero = ascale t (nth c (nth m x []) azero).
Proof.
  intros [X1 X2]. unfold slab_scale. split.
  - split; [now rewrite map_length|]. intros m Hm. rewrite (nth_map_d _ x m []) by lia.
    rewrite map_length. now apply X2.
  - intros m c Hm Hc. rewrite (nth_map_d _ x m []) by lia.
    now rewrite (nth_map_d _ _ c azero) by (rewrite X2; lia).
Qed.

Lemma slab_zero_spec x M L : shape2 M L x ->
  shape2 M L (slab_zero azero x) /\
  forall m c, m < M -> c < L -> nth c (nth m (slab_zero azero x) []) azero = azero.
Proof.
  intros [X1 X2]. unfold slab_zero. split.
  - split; [now rewrite map_length|]. intros m Hm. rewrite (nth_map_d _ x m []) by lia.
    rewrite map_length. now apply X2.
  - intros m c Hm Hc. rewrite (nth_map_d _ x m []) by lia.
    now rewrite (nth_map_d _ _ c azero) by (rewrite X2; lia).
Qed.

Lemma slab_fold_spec (sls : list (list (list A))) z M L :
  Forall (shape2 M L) sls -> shape2 M L z ->
  shape2 M L (fold_right (slab_add aadd) z sls) /\
  forall m c, m < M -> c < L ->
    nth c (nth m (fold_right (slab_add aadd) z sls) []) azero
    = fold_right aadd (nth c (nth m z []) azero) (map (fun sl => nth c (nth m sl []) azero) sls).
Proof.
  intros HF Hz. induction HF as [|sl sls Hsl HF [IHs IHe]]; cbn [fold_right map].
  - split; [exact Hz|]. reflexivity.
  - destruct (slab_add_spec sl (fold_right (slab_add aadd) z sls) M L Hsl IHs) as [S1 S2].
    split; [exact S1|]. intros m c Hm Hc. rewrite (S2 m c Hm Hc). now rewrite IHe.
Qed.

(* ---- transform_left ---- *)
Lemma transform_left_spec T (blk : list (list (list (list A)))) M1 L1 M2 L2 S1 :
  shape4 M1 L1 M2 L2 blk -> 0 < L1 -> length T = S1 -> Forall (fun r => length r = L1) T ->
  shape4 M1 S1 M2 L2 (transform_left azero aadd ascale T blk) /\
  forall m1 s1 m2 c2, m1 < M1 -> s1 < S1 -> m2 < M2 -> c2 < L2 ->
    get4 azero m1 s1 m2 c2 (transform_left azero aadd ascale T blk)
    = asum' (mk L1 (fun c1 => ascale (nth c1 (nth s1 T []) (f0 K)) (get4 azero m1 c1 m2 c2 blk))).
Proof.
  intros [B1 B2] HL HT HTr. unfold transform_left.
  set (g := fun (b1 : list (list (list A))) (trow : list F) =>
              fold_right (slab_add aadd) (slab_zero azero (hd [] b1))
                (map (fun '(t, sl) => slab_scale ascale t sl) (combine trow b1))).
  change (map (fun b1 => map (fun trow => fold_right (slab_add aadd) (slab_zero azero (hd [] b1))
             (map (fun '(t, sl) => slab_scale ascale t sl) (combine trow b1))) T) blk)
    with (map (fun b1 => map (g b1) T) blk).
  (* one (m1, s1) slab *)
  assert (G : forall m1 s1, m1 < M1 -> s1 < S1 ->
     shape2 M2 L2 (g (nth m1 blk []) (nth s1 T [])) /\
     forall m2 c2, m2 < M2 -> c2 < L2 ->
       nth c2 (nth m2 (g (nth m1 blk []) (nth s1 T [])) []) azero
       = asum' (mk L1 (fun c1 => ascale (nth c1 (nth s1 T []) (f0 K)) (get4 azero m1 c1 m2 c2 blk)))).
  { intros m1 s1 H1 H2. destruct (B2 m1 H1) as [Ba Bb].
    set (b1 := nth m1 blk []) in *. set (trow := nth s1 T []).
    assert (Htr : length trow = L1) by (apply (Forall_nth_in _ T [] s1 HTr); lia).
    assert (Hsh : forall c1, c1 < L1 -> shape2 M2 L2 (nth c1 b1 [])).
    { intros c1 Hc1. destruct (Bb c1 Hc1) as [Bc Bd]. split; assumption. }
    assert (Hhd : shape2 M2 L2 (hd [] b1)).
    { replace (hd [] b1) with (nth 0 b1 []) by (destruct b1; reflexivity). now apply Hsh. }
    destruct (slab_zero_spec (hd [] b1) M2 L2 Hhd) as [Z1 Z2].
    assert (Ecomb : map (fun '(t, sl) => slab_scale ascale t sl) (combine trow b1)
                    = mk L1 (fun c1 => slab_scale ascale (nth c1 trow (f0 K)) (nth c1 b1 []))).
    { rewrite (combine_as_mk trow b1 (f0 K) []) by congruence. rewrite CoreSumP.map_mk. now rewrite Htr. }
    assert (HF : Forall (shape2 M2 L2) (mk L1 (fun c1 => slab_scale ascale (nth c1 trow (f0 K)) (nth c1 b1 [])))).
    { apply Forall_mk. intros c1 Hc1. exact (proj1 (slab_scale_spec _ _ M2 L2 (Hsh c1 Hc1))). }
    unfold g. rewrite Ecomb.
    destruct (slab_fold_spec _ _ M2 L2 HF Z1) as [F1 F2]. split; [exact F1|].
    intros m2 c2 H3 H4. rewrite (F2 m2 c2 H3 H4), (Z2 m2 c2 H3 H4). rewrite CoreSumP.map_mk.
    unfold asum. f_equal. apply mk_ext. intros c1 Hc1.
    now rewrite (proj2 (slab_scale_spec _ _ M2 L2 (Hsh c1 Hc1)) m2 c2 H3 H4). }
  assert (E1 : forall m1, m1 < M1 -> nth m1 (map (fun b1 => map (g b1) T) blk) [] = map (g (nth m1 blk [])) T).
  { intros m1 H1. now rewrite (nth_map_d _ blk m1 []) by lia. }
  split.
  - split; [now rewrite map_length|]. intros m1 H1. rewrite (E1 m1 H1).
    split; [now rewrite map_length|]. intros s1 H2. rewrite (nth_map_d _ T s1 []) by lia.
    destruct (G m1 s1 H1 H2) as [[G1 G2] _]. split; assumption.
  - intros m1 s1 m2 c2 H1 H2 H3 H4. unfold get4 at 1. rewrite (E1 m1 H1).
    rewrite (nth_map_d _ T s1 []) by lia. exact (proj2 (G m1 s1 H1 H2) m2 c2 H3 H4).
Qed.

(* ---- the processed block ---- *)
Definition tsum (sph : bool) (T : list (list F)) (L q : nat) (f : nat -> A) : A :=
  if sph then asum' (mk L (fun c => ascale (nth c (nth q T []) (f0 K)) (f c))) else f q.
Definition osz (sph : bool) (T : list (list F)) (L : nat) : nat := if sph then length T else L.

Lemma tsum_ext sph T L q f g : (forall c, c < L -> f c = g c) -> (sph = false -> q < L) ->
  tsum sph T L q f = tsum sph T L q g.
Proof.
  intros H Hq. unfold tsum. destruct sph; [|apply H; now apply Hq].
  f_equal. apply mk_ext. intros c Hc. now rewrite H.
Qed.

Definition T_ok (sph : bool) (T : list (list F)) (L : nat) : Prop :=
  sph = true -> Forall (fun r => length r = L) T.

Theorem shell_block_spec sph1 sph2 T1 T2 n1 n2 (blk : list (list (list (list A)))) M1 L1 M2 L2 :
  shape2 M1 L1 n1 -> shape2 M2 L2 n2 -> shape4 M1 L1 M2 L2 blk -> 0 < L1 ->
  T_ok sph1 T1 L1 -> T_ok sph2 T2 L2 ->
  let O1 := osz sph1 T1 L1 in let O2 := osz sph2 T2 L2 in
  let B := shell_block K azero aadd ascale sph1 sph2 T1 T2 n1 n2 blk in
  (length B = M1 * O1 /\ Forall (fun row => length row = M2 * O2) B) /\
  forall m1 q1 m2 q2, m1 < M1 -> q1 < O1 -> m2 < M2 -> q2 < O2 ->
    nth (m2 * O2 + q2) (nth (m1 * O1 + q1) B []) azero
    = tsum sph2 T2 L2 q2 (fun c2 => tsum sph1 T1 L1 q1 (fun c1 =>
        ascale (fmul K (nth c1 (nth m1 n1 []) (f0 K)) (nth c2 (nth m2 n2 []) (f0 K)))
               (get4 azero m1 c1 m2 c2 blk))).
Proof.
  intros Hn1 Hn2 Hb HL HT1 HT2 O1 O2 B.
  destruct (normalise_spec K azero ascale n1 n2 blk M1 L1 M2 L2 Hn1 Hn2 Hb) as [Ns Ne].
  set (b0 := normalise K ascale n1 n2 blk) in *.
  (* after the optional left transform *)
  set (bl := if sph1 then transform_left azero aadd ascale T1 b0 else b0).
  assert (HLft : shape4 M1 O1 M2 L2 bl /\
            forall m1 q1 m2 c2, m1 < M1 -> q1 < O1 -> m2 < M2 -> c2 < L2 ->
              get4 azero m1 q1 m2 c2 bl
              = tsum sph1 T1 L1 q1 (fun c1 =>
                  ascale (fmul K (nth c1 (nth m1 n1 []) (f0 K)) (nth c2 (nth m2 n2 []) (f0 K)))
                         (get4 azero m1 c1 m2 c2 blk))).
  { unfold bl, O1, osz, tsum. destruct sph1.
    - destruct (transform_left_spec T1 b0 M1 L1 M2 L2 (length T1) Ns HL eq_refl (HT1 eq_refl)) as [Ls Le].
      split; [exact Ls|]. intros m1 q1 m2 c2 H1 H2 H3 H4. rewrite (Le m1 q1 m2 c2 H1 H2 H3 H4).
      unfold asum. f_equal. apply mk_ext. intros c1 Hc1. now rewrite (Ne m1 c1 m2 c2 H1 Hc1 H3 H4).
    - split; [exact Ns|]. intros m1 q1 m2 c2 H1 H2 H3 H4. now apply Ne. }
  destruct HLft as [Ls Le].
  set (br := if sph2 then transform_right azero aadd ascale T2 bl else bl).
  assert (HRgt : shape4 M1 O1 M2 O2 br /\
            forall m1 q1 m2 q2, m1 < M1 -> q1 < O1 -> m2 < M2 -> q2 < O2 ->
              get4 azero m1 q1 m2 q2 br
              = tsum sph2 T2 L2 q2 (fun c2 => get4 azero m1 q1 m2 c2 bl)).
  { unfold br, O2, osz, tsum. destruct sph2.
    - destruct (transform_right_spec T2 bl M1 O1 M2 L2 (length T2) Ls eq_refl) as [Rs Re].
      split; [exact Rs|]. intros m1 q1 m2 q2 H1 H2 H3 H4. rewrite (Re m1 q1 m2 q2 H1 H2 H3 H4).
      destruct Ls as [_ Ls2]. destruct (Ls2 m1 H1) as [_ Lb]. destruct (Lb q1 H2) as [_ Ld].
      rewrite (adot_mk _ _ L2).
      + reflexivity.
      + apply (Forall_nth_in _ T2 [] q2 (HT2 eq_refl)). lia.
      + now apply Ld.
    - split; [exact Ls|]. reflexivity. }
  destruct HRgt as [Rs Re].
  assert (EB : B = flatten_block br) by reflexivity.
  split.
  - rewrite EB. now apply flatten_shape.
  - intros m1 q1 m2 q2 H1 H2 H3 H4. rewrite EB.
    rewrite (flatten_entry br M1 O1 M2 O2 azero m1 q1 m2 q2 Rs H1 H2 H3 H4).
    rewrite (Re m1 q1 m2 q2 H1 H2 H3 H4).
    apply tsum_ext.
    + intros c2 Hc2. now apply Le.
    + intros E. unfold O2, osz in H4. now rewrite E in H4.
Qed.
End SphBlock.

(* ------------------------------------------------------------------ *)
(* The output index map of a basis with arbitrary coordinate types     *)
(* ------------------------------------------------------------------ *)
Section MixedIndex.
Context {F : Type} (K : Fops F).

Definition nlab (s : shell F) : nat := length (labels_of s).
Definition osize (s : shell F) : nat := if s_sph s then nlab s else ncomp s.
Definition odim (s : shell F) : nat := nseg s * osize s.
Definition ooff (bs : list (shell F)) (k : nat) : nat := offs (fun t => odim (sh_at K bs t)) k.
Definition ototal (bs : list (shell F)) : nat := ooff bs (length bs).
Definition oidx (bs : list (shell F)) (k m q : nat) : nat := ooff bs k + (m * osize (sh_at K bs k) + q).

Lemma default_labels_nonempty l : 0 < length (default_labels l).
Proof.
  unfold default_labels. destruct (Nat.eqb l 1); [cbn; lia|].
  rewrite app_length, !map_length, !seq_length. lia.
Qed.

Lemma nlab_pos (s : shell F) : 0 < nlab s.
Proof.
  unfold nlab, labels_of. destruct (s_labels s) as [|c r]; [apply default_labels_nonempty|cbn; lia].
Qed.

Lemma osize_pos (s : shell F) : 0 < osize s.
Proof. unfold osize. destruct (s_sph s); [apply nlab_pos|apply ncomp_pos]. Qed.

Lemma oidx_surj bs I : I < ototal bs ->
  exists k m q, k < length bs /\ m < nseg (sh_at K bs k) /\ q < osize (sh_at K bs k) /\ I = oidx bs k m q.
Proof.
  intros H. destruct (offs_decompose _ _ I H) as (k & a & Hk & Ha & E).
  pose proof (osize_pos (sh_at K bs k)) as Hp. unfold odim in Ha.
  exists k, (a / osize (sh_at K bs k)), (a mod osize (sh_at K bs k)). repeat split.
  - exact Hk.
  - apply Nat.div_lt_upper_bound; lia.
  - apply Nat.mod_upper_bound. lia.
  - unfold oidx, ooff. rewrite E. f_equal.
    rewrite (Nat.div_mod a (osize (sh_at K bs k))) at 1 by lia. lia.
Qed.

Lemma oidx_inj bs k m q k' m' q' :
  m < nseg (sh_at K bs k) -> q < osize (sh_at K bs k) -> m' < nseg (sh_at K bs k') -> q' < osize (sh_at K bs k') ->
  oidx bs k m q = oidx bs k' m' q' -> k = k' /\ m = m' /\ q = q'.
Proof.
  intros Hm Hq Hm' Hq' E. unfold oidx, ooff in E.
  destruct (offs_unique _ k _ k' _ (idx_lt _ _ _ _ Hm Hq) (idx_lt _ _ _ _ Hm' Hq') E) as [-> E2].
  split; [reflexivity|]. set (L := osize (sh_at K bs k')) in *.
  assert (m = m') by nia. subst m'. split; [reflexivity|lia].
Qed.

Lemma oidx_lt bs k m q : k < length bs -> m < nseg (sh_at K bs k) -> q < osize (sh_at K bs k) ->
  oidx bs k m q < ototal bs.
Proof.
  intros Hk Hm Hq. unfold oidx, ototal, ooff.
  pose proof (offs_mono (fun t => odim (sh_at K bs t)) k (length bs) Hk) as H. cbv beta in H.
  pose proof (idx_lt _ _ _ _ Hm Hq). unfold odim in *. lia.
Qed.

(* shape of the transformation matrix of a shell: nlab rows of ncomp entries *)
Lemma shell_transform_length (s : shell F) : length (shell_transform K s) = nlab s.
Proof. unfold shell_transform, sph_transform, nlab. now rewrite !map_length. Qed.

Lemma shell_transform_rows (s : shell F) : Forall (fun r => length r = ncomp s) (shell_transform K s).
Proof.
  unfold shell_transform, sph_transform, ncomp. apply Forall_forall. intros r Hr.
  apply in_map_iff in Hr. destruct Hr as [r0 [<- Hr0]]. rewrite map_length.
  apply in_map_iff in Hr0. destruct Hr0 as [[[neg sine] m] [<- _]]. now rewrite map_length.
Qed.

Lemma osz_shell (s : shell F) : osz (s_sph s) (shell_transform K s) (ncomp s) = osize s.
Proof. unfold osz, osize. now rewrite shell_transform_length. Qed.
End MixedIndex.

(* ------------------------------------------------------------------ *)
(* Assembled matrices, any coordinate types                            *)
(* ------------------------------------------------------------------ *)
Section MixedAssembled.
Context {F : Type} (K : Fops F).
Context {A : Type} (azero : A) (aadd : A -> A -> A) (ascale : F -> A -> A).
Variable blockf : shell F -> shell F -> list (list (list (list A))).

Definition seg_basis (bs : list (shell F)) : Prop := forall s, In s bs -> 0 < nseg s.

Notation pb := (pblock K azero aadd ascale blockf).

(* the (m1, q1; m2, q2) entry of the processed block of the ordered pair (a, b): T_a on the first index and
   T_b on the second index of the normalised Cartesian block *)
Definition Emix (a b : shell F) (m1 q1 m2 q2 : nat) : A :=
  tsum K azero aadd ascale (s_sph b) (shell_transform K b) (ncomp b) q2 (fun c2 =>
    tsum K azero aadd ascale (s_sph a) (shell_transform K a) (ncomp a) q1 (fun c1 =>
      ascale (fmul K (ncont K a m1 c1) (ncont K b m2 c2)) (get4 azero m1 c1 m2 c2 (blockf a b)))).

Lemma pblock_mixed_spec (s1 s2 : shell F) :
  shape4 (nseg s1) (ncomp s1) (nseg s2) (ncomp s2) (blockf s1 s2) ->
  (length (pb (prep K s1) (prep K s2)) = odim s1 /\
   Forall (fun row => length row = odim s2) (pb (prep K s1) (prep K s2))) /\
  forall m1 q1 m2 q2, m1 < nseg s1 -> q1 < osize s1 -> m2 < nseg s2 -> q2 < osize s2 ->
    nth (m2 * osize s2 + q2) (nth (m1 * osize s1 + q1) (pb (prep K s1) (prep K s2)) []) azero
    = Emix s1 s2 m1 q1 m2 q2.
Proof.
  intros Hb. unfold pblock. cbn [prep p_shell p_T p_norm].
  pose proof (shell_block_spec K azero aadd ascale (s_sph s1) (s_sph s2) (shell_transform K s1) (shell_transform K s2)
                (norm_cont K s1) (norm_cont K s2) (blockf s1 s2) (nseg s1) (ncomp s1) (nseg s2) (ncomp s2)
                (norm_cont_shape K s1) (norm_cont_shape K s2) Hb (ncomp_pos s1)
                (fun _ => shell_transform_rows K s1) (fun _ => shell_transform_rows K s2)) as H.
  cbv zeta in H. rewrite !osz_shell in H. exact H.
Qed.

Section Symm.
Variable bs : list (shell F).
Hypothesis C : seg_basis bs.
Hypothesis HB : blocks_shaped blockf bs bs.

Let n := length bs.
Let P := fun i j => pb (nth i (map (prep K) bs) (dummy_p K)) (nth j (map (prep K) bs) (dummy_p K)).
Let w := fun t => odim (sh_at K bs t).
Let Bs := fun i j => if Nat.leb i j then P i j else transpose azero (P j i).

Lemma mP_spec i j : i < n -> j < n ->
  (length (P i j) = w i /\ Forall (fun row => length row = w j) (P i j)) /\
  forall m q m' q', m < nseg (sh_at K bs i) -> q < osize (sh_at K bs i) ->
                    m' < nseg (sh_at K bs j) -> q' < osize (sh_at K bs j) ->
    nth (m' * osize (sh_at K bs j) + q') (nth (m * osize (sh_at K bs i) + q) (P i j) []) azero
    = Emix (sh_at K bs i) (sh_at K bs j) m q m' q'.
Proof.
  intros Hi Hj. unfold P. rewrite !nth_prep by assumption.
  apply pblock_mixed_spec. apply HB; now apply nth_In.
Qed.

Lemma mw_pos i : i < n -> 0 < w i.
Proof.
  intros Hi. unfold w, odim. pose proof (osize_pos (sh_at K bs i)).
  pose proof (C (sh_at K bs i) ltac:(now apply nth_In)). nia.
Qed.

Lemma mPt_shape i j : i < n -> j < n ->
  length (transpose azero (P j i)) = w i /\ Forall (fun row => length row = w j) (transpose azero (P j i)).
Proof.
  intros Hi Hj. destruct (mP_spec j i Hj Hi) as [[HL HF] _].
  exact (transpose_shape azero (P j i) (w j) (w i) (mw_pos j Hj) HL HF).
Qed.

Lemma mBs_shape i j : i < n -> j < n ->
  length (Bs i j) = w i /\ Forall (fun row => length row = w j) (Bs i j).
Proof. intros Hi Hj. unfold Bs. destruct (Nat.leb i j); [exact (proj1 (mP_spec i j Hi Hj)) | now apply mPt_shape]. Qed.

Lemma msymm_is_blockmat :
  two_symm_integral K azero aadd ascale blockf bs None = two_asymm_blocks n n Bs.
Proof. rewrite two_symm_integral_unfold. cbv zeta. rewrite map_length. reflexivity. Qed.

Theorem two_symm_mixed_shape : 0 < n ->
  length (two_symm_integral K azero aadd ascale blockf bs None) = ototal K bs /\
  forall I, I < ototal K bs -> length (nth I (two_symm_integral K azero aadd ascale blockf bs None) []) = ototal K bs.
Proof.
  intros Hn. rewrite msymm_is_blockmat. split.
  - exact (blockmat_length n n Bs w w mBs_shape Hn).
  - intros I HI. destruct (oidx_surj K bs I HI) as (i & m & q & Hi & Hm & Hq & ->).
    unfold oidx, ooff. fold w.
    exact (blockmat_row_length n n Bs w w mBs_shape Hn i _ Hi (idx_lt _ _ _ _ Hm Hq)).
Qed.

Theorem two_symm_mixed_entry i j m q m' q' :
  i < n -> j < n ->
  m < nseg (sh_at K bs i) -> q < osize (sh_at K bs i) -> m' < nseg (sh_at K bs j) -> q' < osize (sh_at K bs j) ->
  nth (oidx K bs j m' q') (nth (oidx K bs i m q)
      (two_symm_integral K azero aadd ascale blockf bs None) []) azero
  = if Nat.leb i j then Emix (sh_at K bs i) (sh_at K bs j) m q m' q'
    else Emix (sh_at K bs j) (sh_at K bs i) m' q' m q.
Proof.
  intros Hi Hj Hm Hq Hm' Hq'. rewrite msymm_is_blockmat. unfold oidx, ooff. fold w.
  rewrite (blockmat_entry n n Bs w w mBs_shape ltac:(lia) azero i j _ _ Hi Hj
             (idx_lt _ _ _ _ Hm Hq) (idx_lt _ _ _ _ Hm' Hq')).
  unfold Bs. destruct (Nat.leb i j).
  - now apply (proj2 (mP_spec i j Hi Hj)).
  - destruct (mP_spec j i Hj Hi) as [[HL HF] He].
    assert (Hhd : length (hd [] (P j i)) = w i).
    { pose proof (mw_pos j Hj). destruct (P j i) as [|r0 m0]; [cbn in HL; lia|].
      inversion HF as [|? ? Hr0 ?]. exact Hr0. }
    rewrite transpose_entry.
    + now apply He.
    + rewrite HL. now apply idx_lt.
    + rewrite Hhd. now apply idx_lt.
Qed.
End Symm.

(* the rectangular assembly, any coordinate types *)
Section AsymmMixed.
Variables b1 b2 : list (shell F).
Hypothesis HB : blocks_shaped blockf b1 b2.

Let Bf := fun i j => pb (nth i (map (prep K) b1) (dummy_p K)) (nth j (map (prep K) b2) (dummy_p K)).

Lemma masymm_Bf_spec i j : i < length b1 -> j < length b2 ->
  (length (Bf i j) = odim (sh_at K b1 i) /\ Forall (fun row => length row = odim (sh_at K b2 j)) (Bf i j)) /\
  forall m q m' q', m < nseg (sh_at K b1 i) -> q < osize (sh_at K b1 i) ->
                    m' < nseg (sh_at K b2 j) -> q' < osize (sh_at K b2 j) ->
    nth (m' * osize (sh_at K b2 j) + q') (nth (m * osize (sh_at K b1 i) + q) (Bf i j) []) azero
    = Emix (sh_at K b1 i) (sh_at K b2 j) m q m' q'.
Proof.
  intros Hi Hj. unfold Bf. rewrite !nth_prep by assumption.
  apply pblock_mixed_spec. apply HB; now apply nth_In.
Qed.

Lemma masymm_is_blockmat :
  two_asymm_integral K azero aadd ascale blockf b1 b2 None None = two_asymm_blocks (length b1) (length b2) Bf.
Proof. unfold two_asymm_integral. cbv zeta. rewrite !map_length. reflexivity. Qed.

Lemma two_asymm_mixed_length : 0 < length b2 ->
  length (two_asymm_integral K azero aadd ascale blockf b1 b2 None None) = ototal K b1.
Proof.
  intros Hn. rewrite masymm_is_blockmat.
  apply (blockmat_length (length b1) (length b2) Bf (fun t => odim (sh_at K b1 t)) (fun t => odim (sh_at K b2 t)));
    [exact (fun i j Hi Hj => proj1 (masymm_Bf_spec i j Hi Hj)) | exact Hn].
Qed.

Lemma two_asymm_mixed_row_length i m q :
  i < length b1 -> 0 < length b2 -> m < nseg (sh_at K b1 i) -> q < osize (sh_at K b1 i) ->
  length (nth (oidx K b1 i m q) (two_asymm_integral K azero aadd ascale blockf b1 b2 None None) []) = ototal K b2.
Proof.
  intros Hi Hn Hm Hq. rewrite masymm_is_blockmat.
  apply (blockmat_row_length (length b1) (length b2) Bf (fun t => odim (sh_at K b1 t)) (fun t => odim (sh_at K b2 t)));
    [exact (fun i j Hi Hj => proj1 (masymm_Bf_spec i j Hi Hj)) | exact Hn | exact Hi | now apply idx_lt].
Qed.

Theorem two_asymm_mixed_entry i j m q m' q' :
  i < length b1 -> j < length b2 ->
  m < nseg (sh_at K b1 i) -> q < osize (sh_at K b1 i) -> m' < nseg (sh_at K b2 j) -> q' < osize (sh_at K b2 j) ->
  nth (oidx K b2 j m' q') (nth (oidx K b1 i m q)
      (two_asymm_integral K azero aadd ascale blockf b1 b2 None None) []) azero
  = Emix (sh_at K b1 i) (sh_at K b2 j) m q m' q'.
Proof.
  intros Hi Hj Hm Hq Hm' Hq'. rewrite masymm_is_blockmat.
  unfold oidx, ooff.
  rewrite (blockmat_entry (length b1) (length b2) Bf (fun t => odim (sh_at K b1 t)) (fun t => odim (sh_at K b2 t))
             (fun i j Hi Hj => proj1 (masymm_Bf_spec i j Hi Hj)) ltac:(lia) azero i j _ _ Hi Hj
             (idx_lt _ _ _ _ Hm Hq) (idx_lt _ _ _ _ Hm' Hq')).
  now apply (proj2 (masymm_Bf_spec i j Hi Hj)).
Qed.
End AsymmMixed.

(* the conjugating assembly (Model/OneBody.two_symm_integral_h), any coordinate types *)
Section SymmH.
Variable bs : list (shell F).
Hypothesis C : seg_basis bs.
Hypothesis HB : blocks_shaped blockf bs bs.
Variable aconj : A -> A.

Let n := length bs.
Let P := fun i j => pb (nth i (map (prep K) bs) (dummy_p K)) (nth j (map (prep K) bs) (dummy_p K)).
Let w := fun t => odim (sh_at K bs t).
Let Bh := fun i j => if Nat.ltb i j then P i j else map (map aconj) (transpose azero (P j i)).

Lemma mBh_shape i j : i < n -> j < n ->
  length (Bh i j) = w i /\ Forall (fun row => length row = w j) (Bh i j).
Proof.
  intros Hi Hj. unfold Bh. destruct (Nat.ltb i j); [exact (proj1 (mP_spec bs HB i j Hi Hj))|]. fold (P j i).
  destruct (mPt_shape bs C HB i j Hi Hj) as [HL HF]. fold (P j i) in HL, HF. fold w in HL, HF. split; [now rewrite map_length|].
  apply Forall_forall. intros row Hr. apply in_map_iff in Hr. destruct Hr as [r0 [<- Hr0]].
  rewrite map_length. rewrite Forall_forall in HF. now apply HF.
Qed.

Lemma msymm_h_is_blockmat :
  two_symm_integral_h K azero aadd ascale aconj blockf bs None = two_asymm_blocks n n Bh.
Proof.
  unfold two_symm_integral_h. cbv zeta. rewrite map_length. fold n.
  rewrite (two_symm_blocks_h_ext azero bs aconj n _ P).
  - reflexivity.
  - intros i j Hi Hj Hle. rewrite nth_mk by exact Hi. rewrite nth_mk by exact Hj.
    destruct (Nat.leb_spec i j); [reflexivity|lia].
Qed.

Theorem two_symm_h_mixed_shape : 0 < n ->
  length (two_symm_integral_h K azero aadd ascale aconj blockf bs None) = ototal K bs /\
  forall I, I < ototal K bs ->
    length (nth I (two_symm_integral_h K azero aadd ascale aconj blockf bs None) []) = ototal K bs.
Proof.
  intros Hn. rewrite msymm_h_is_blockmat. split.
  - exact (blockmat_length n n Bh w w mBh_shape Hn).
  - intros I HI. destruct (oidx_surj K bs I HI) as (i & m & q & Hi & Hm & Hq & ->).
    unfold oidx, ooff. fold w.
    exact (blockmat_row_length n n Bh w w mBh_shape Hn i _ Hi (idx_lt _ _ _ _ Hm Hq)).
Qed.

Theorem two_symm_h_mixed_entry i j m q m' q' :
  i < n -> j < n ->
  m < nseg (sh_at K bs i) -> q < osize (sh_at K bs i) -> m' < nseg (sh_at K bs j) -> q' < osize (sh_at K bs j) ->
  nth (oidx K bs j m' q') (nth (oidx K bs i m q)
      (two_symm_integral_h K azero aadd ascale aconj blockf bs None) []) (aconj azero)
  = if Nat.ltb i j then Emix (sh_at K bs i) (sh_at K bs j) m q m' q'
    else aconj (Emix (sh_at K bs j) (sh_at K bs i) m' q' m q).
Proof.
  intros Hi Hj Hm Hq Hm' Hq'. rewrite msymm_h_is_blockmat. unfold oidx, ooff. fold w.
  rewrite (blockmat_entry n n Bh w w mBh_shape ltac:(lia) (aconj azero) i j _ _ Hi Hj
             (idx_lt _ _ _ _ Hm Hq) (idx_lt _ _ _ _ Hm' Hq')).
  unfold Bh. destruct (Nat.ltb i j).
  - destruct (mP_spec bs HB i j Hi Hj) as [[HL HF] He]. fold (P i j) in HL, HF, He. fold w in HL, HF.
    rewrite (nth_indep _ (aconj azero) azero).
    + now apply He.
    + rewrite (Forall_nth_in _ _ [] _ HF) by (rewrite HL; now apply idx_lt). now apply idx_lt.
  - destruct (mPt_shape bs C HB i j Hi Hj) as [HL HF]. fold (P j i) in HL, HF. fold w in HL, HF.
    rewrite (nth_map_d (map aconj) _ _ []) by (rewrite HL; now apply idx_lt).
    rewrite (nth_map_d aconj _ _ azero)
      by (rewrite (Forall_nth_in _ _ [] _ HF) by (rewrite HL; now apply idx_lt); now apply idx_lt).
    f_equal.
    destruct (mP_spec bs HB j i Hj Hi) as [[HL' HF'] He]. fold (P j i) in HL', HF', He. fold w in HL', HF'.
    assert (Hhd : length (hd [] (P j i)) = w i).
    { pose proof (mw_pos bs C j Hj) as Hpos. fold w in Hpos.
      apply hd_length; [rewrite HL'; exact Hpos | exact HF']. }
    rewrite transpose_entry.
    + now apply He.
    + rewrite HL'. now apply idx_lt.
    + rewrite Hhd. now apply idx_lt.
Qed.
End SymmH.
End MixedAssembled.

(* ------------------------------------------------------------------ *)
(* asymmetric assembly = off-diagonal block of the union, any types    *)
(* ------------------------------------------------------------------ *)
Section OffDiagMixed.
Context {F : Type} (K : Fops F).
Context {A : Type} (azero : A) (aadd : A -> A -> A) (ascale : F -> A -> A).
Variable blockf : shell F -> shell F -> list (list (list (list A))).
Variables b1 b2 : list (shell F).
Hypothesis C1 : seg_basis b1.
Hypothesis C2 : seg_basis b2.
Hypothesis HB : blocks_shaped blockf (b1 ++ b2) (b1 ++ b2).
Hypothesis Hn2 : 0 < length b2.

Let n1 := length b1.

Lemma msh_at_app_l t : t < n1 -> sh_at K (b1 ++ b2) t = sh_at K b1 t.
Proof. intros H. unfold sh_at. now rewrite app_nth1. Qed.
Lemma msh_at_app_r t : sh_at K (b1 ++ b2) (n1 + t) = sh_at K b2 t.
Proof. unfold sh_at. rewrite app_nth2 by (unfold n1; lia). f_equal. unfold n1. lia. Qed.

Lemma ooff_app_l k : k <= n1 -> ooff K (b1 ++ b2) k = ooff K b1 k.
Proof. intros H. unfold ooff. apply offs_ext. intros t Ht. rewrite msh_at_app_l by lia. reflexivity. Qed.
Lemma ooff_app_r k : ooff K (b1 ++ b2) (n1 + k) = ototal K b1 + ooff K b2 k.
Proof.
  unfold ooff at 1. rewrite offs_add. f_equal.
  - apply (ooff_app_l n1). lia.
  - apply offs_ext. intros t _. now rewrite msh_at_app_r.
Qed.
Lemma ototal_app : ototal K (b1 ++ b2) = ototal K b1 + ototal K b2.
Proof. unfold ototal at 1. rewrite app_length. apply ooff_app_r. Qed.

Lemma oidx_app_l i m c : i < n1 -> oidx K (b1 ++ b2) i m c = oidx K b1 i m c.
Proof. intros H. unfold oidx. rewrite ooff_app_l, msh_at_app_l by lia. reflexivity. Qed.
Lemma oidx_app_r j m c : oidx K (b1 ++ b2) (n1 + j) m c = ototal K b1 + oidx K b2 j m c.
Proof. unfold oidx. rewrite ooff_app_r, msh_at_app_r. lia. Qed.

Lemma seg_basis_app : seg_basis (b1 ++ b2).
Proof. intros s Hs. apply in_app_or in Hs. destruct Hs; [now apply C1 | now apply C2]. Qed.

Lemma mblocks_shaped_12 : blocks_shaped blockf b1 b2.
Proof. intros sa sb Ha Hb. apply HB; apply in_or_app; auto. Qed.

(* The rectangular assembly of (b1, b2) is rows [0, |b1|) x columns [|b1|, |b1|+|b2|) of the square
   assembly of the union b1 ++ b2 (|b| = ototal b, the number of basis functions of b). *)
Theorem asymm_is_offdiag_block_mixed :
  two_asymm_integral K azero aadd ascale blockf b1 b2 None None
  = map (skipn (ototal K b1)) (firstn (ototal K b1) (two_symm_integral K azero aadd ascale blockf (b1 ++ b2) None)).
Proof.
  set (U := two_symm_integral K azero aadd ascale blockf (b1 ++ b2) None).
  assert (Hpos : 0 < length (b1 ++ b2)) by (rewrite app_length; lia).
  destruct (two_symm_mixed_shape K azero aadd ascale blockf (b1 ++ b2) seg_basis_app HB Hpos) as [SL SR].
  fold U in SL, SR. rewrite ototal_app in SL, SR.
  assert (HU : length U = ototal K b1 + ototal K b2) by exact SL.
  assert (Hrow : forall i m c, i < n1 -> m < nseg (sh_at K b1 i) -> c < osize (sh_at K b1 i) ->
            length (nth (oidx K b1 i m c) U []) = ototal K b1 + ototal K b2).
  { intros i m c Hi Hm Hc. apply SR.
    pose proof (oidx_lt K b1 i m c Hi Hm Hc). lia. }
  apply (matrix_ext azero _ _ (ototal K b1) (ototal K b2)).
  - exact (two_asymm_mixed_length K azero aadd ascale blockf b1 b2 mblocks_shaped_12 Hn2).
  - rewrite map_length, firstn_length, HU. lia.
  - intros a Ha. destruct (oidx_surj K b1 a Ha) as (i & m & c & Hi & Hm & Hc & ->). split.
    + exact (two_asymm_mixed_row_length K azero aadd ascale blockf b1 b2 mblocks_shaped_12 i m c Hi Hn2 Hm Hc).
    + rewrite (nth_map_d _ _ _ []) by (rewrite firstn_length, HU; lia).
      rewrite nth_firstn_lt by exact Ha. rewrite skipn_length, Hrow by assumption. lia.
  - intros a b Ha Hb.
    destruct (oidx_surj K b1 a Ha) as (i & m & c & Hi & Hm & Hc & ->).
    destruct (oidx_surj K b2 b Hb) as (j & m' & c' & Hj & Hm' & Hc' & ->).
    rewrite (two_asymm_mixed_entry K azero aadd ascale blockf b1 b2 mblocks_shaped_12) by assumption.
    rewrite (nth_map_d _ _ _ []) by (rewrite firstn_length, HU; lia).
    rewrite nth_firstn_lt by exact Ha. rewrite nth_skipn_add.
    rewrite <- oidx_app_r, <- (oidx_app_l i m c) by exact Hi. unfold U.
    assert (Hij : n1 + j < length (b1 ++ b2)) by (rewrite app_length; unfold n1; lia).
    assert (Hi' : i < length (b1 ++ b2)) by (rewrite app_length; lia).
    rewrite (two_symm_mixed_entry K azero aadd ascale blockf (b1 ++ b2) seg_basis_app HB i (n1 + j) m c m' c' Hi' Hij).
    + destruct (Nat.leb_spec i (n1 + j)) as [_|Hlt]; [|unfold n1 in *; lia].
      rewrite msh_at_app_r, (msh_at_app_l i) by exact Hi. reflexivity.
    + now rewrite msh_at_app_l.
    + now rewrite msh_at_app_l.
    + now rewrite msh_at_app_r.
    + now rewrite msh_at_app_r.
Qed.
End OffDiagMixed.
