(* Proofs/RotationP.v — GENERAL ROTATION covariance at the level of the algebraic specification (property C12).

   Vocabulary of Proofs/RigidP.v section 5: [mat3] (rows), [orthogonal] (R R^T = R^T R = 1, proper or improper),
   [rot_shell R s] (the shell with its centre moved to R * centre), [mapply_t R u] = R^T u, [monomial u c] = u^c.

   CONVENTION.  [rot_expand R a] is the three-variable polynomial (R^T u)^a multiplied out in monomials of u
   ([rot_expand_eval]: its value at u is [monomial (R^T u) a]); it is a list of (monomial a', coefficient) entries
   and  Jsum J (rot_expand R a) = sum over the entries of  coefficient * J a'  is the contraction of J with the row
   "a" of the representation matrix D(R) of R on the monomials of degree |a|:  D(R)[a, a'] = coefficient of u^a'
   in (R^T u)^a  ([rot_coef]).  With this

     overlap_prim_rotation_covariant :
        sum_{a'} sum_{b'} D(R)[a,a'] D(R)[b,b'] ovl_prim(R A, R B; a', b') = ovl_prim(A, B; a, b)

   for every orthogonal R, all exponent triples a, b (any degrees), all alpha, beta with alpha + beta <> 0 and all
   centres; [ovl_prim] is the very definition the block theorems of Proofs/CoreBlockP.v use ([overlap_block_correct]:
   every entry of the model's overlap block is the contracted sum of norm * norm * ovl_prim).  In words: the
   un-normalised primitive overlaps about the rotated centres, contracted with the representation matrices on both
   indices, are the overlaps of the original system.  The only facts used about the transcendental functions:
   exp (x + y) = exp x * exp y  (stated hypothesis; for the prefactor, which then depends on |A - B|^2 only).

     moment_prim_rotation_covariant : the same with the moment operator (r - C)^k about a rotated origin R C, the
        order index k rotating with D(R) as well (three-centre product; [mom_prim] of CoreBlockP).

     kinetic_prim_rotation_covariant : the same for [kin_prim] of CoreDiffP (-1/2 Laplacian on the right function):
        kin_prim is the operator -1/2 e^{beta u^2} Lap(. e^{-beta u^2}) acting on the index b of the overlap
        ([kin_prim_is_kinT]), and Laplacian, u.grad and |u|^2 commute with every orthogonal substitution
        (Gauss/Poly3.kinop_subst).

   All follow from  Gauss/Poly3.E3_subst_orth  (the isotropic Gaussian moment functional is invariant under every
   orthogonal substitution) through  [ovl_prim_is_E3] / [mom_prim_is_E3]:  the product over the axes of the 1-D
   factors [T1] is the 3-D functional of the product polynomial (y + PA)^a (y + PB)^b.

   Lifted to the contracted, normalised blocks of the list-level model (overlap and kinetic energy) in
   Proofs/RotationBlockP.v.  NOT proved (still decided by the correspondence check harness/c12.py for general
   rotations): the multipole block above the primitive level; momentum / angular-momentum primitives; the Boys-type
   integrals; spherical shells; evaluations and densities. *)
From Coq Require Import List Arith Lia Field.
From GB Require Import Base.Field Base.FNum Base.Tables Gauss.Moment1D Gauss.Poly3 Model.Shell Model.MomentInt
  Proofs.DiffOpP Proofs.CoreBlockP Proofs.CoreDiffP Proofs.RigidP.
Import ListNotations.

Section Rot.
Context {F : Type} (K : Fops F) (Kf : is_field K).
Add Field KFrot : Kf.
Local Open Scope F_scope.
Notation "0" := (f0 K) : F_scope.
Notation "1" := (f1 K) : F_scope.
Infix "+" := (fadd K) : F_scope.
Infix "*" := (fmul K) : F_scope.
Infix "-" := (fsub K) : F_scope.
Infix "/" := (fdiv K) : F_scope.
Notation "- x" := (fopp K x) : F_scope.
Notation "# n" := (ofnat K n) (at level 5) : F_scope.

Definition ax2nat (i : axis) : nat := match i with AX => 0 | AY => 1 | AZ => 2 end.
Definition matf (R : @mat3 F) : axis -> axis -> F := fun i j => vget (mrow R (ax2nat i)) (ax2nat j).
Definition vecf (u : @vec3 F) : axis -> F := fun i => vget u (ax2nat i).

Lemma orthogonal_rows R : orthogonal K R -> orth_rows K (matf R).
Proof.
  intros H i k.
  assert (Hi : ax2nat i < 3) by (destruct i; cbn; lia).
  assert (Hk : ax2nat k < 3) by (destruct k; cbn; lia).
  destruct (H _ _ Hi Hk) as [Hr _]. destruct i, k; exact Hr.
Qed.
Lemma orthogonal_cols R : orthogonal K R -> orth_rows K (transpose (matf R)).
Proof.
  intros H i k.
  assert (Hi : ax2nat i < 3) by (destruct i; cbn; lia).
  assert (Hk : ax2nat k < 3) by (destruct k; cbn; lia).
  destruct (H _ _ Hi Hk) as [_ Hc]. destruct i, k; exact Hc.
Qed.

(* |R d|^2 = |d|^2 *)
Lemma norm_rot (R : axis -> axis -> F) (d : axis -> F) : orth_rows K (transpose R) ->
  sum3 K (fun i => dot K (R i) d * dot K (R i) d) = sum3 K (fun j => d j * d j).
Proof.
  intros HO. unfold dot, sum3.
  pose proof (HO AX AX) as H00. pose proof (HO AX AY) as H01. pose proof (HO AX AZ) as H02.
  pose proof (HO AY AX) as H10. pose proof (HO AY AY) as H11. pose proof (HO AY AZ) as H12.
  pose proof (HO AZ AX) as H20. pose proof (HO AZ AY) as H21. pose proof (HO AZ AZ) as H22.
  unfold sum3, transpose, delta3 in *. cbn [axis_eqb] in *.
  transitivity
    ((R AX AX * R AX AX + R AY AX * R AY AX + R AZ AX * R AZ AX) * (d AX * d AX)
     + (R AX AX * R AX AY + R AY AX * R AY AY + R AZ AX * R AZ AY) * (d AX * d AY)
     + (R AX AX * R AX AZ + R AY AX * R AY AZ + R AZ AX * R AZ AZ) * (d AX * d AZ)
     + (R AX AY * R AX AX + R AY AY * R AY AX + R AZ AY * R AZ AX) * (d AY * d AX)
     + (R AX AY * R AX AY + R AY AY * R AY AY + R AZ AY * R AZ AY) * (d AY * d AY)
     + (R AX AY * R AX AZ + R AY AY * R AY AZ + R AZ AY * R AZ AZ) * (d AY * d AZ)
     + (R AX AZ * R AX AX + R AY AZ * R AY AX + R AZ AZ * R AZ AX) * (d AZ * d AX)
     + (R AX AZ * R AX AY + R AY AZ * R AY AY + R AZ AZ * R AZ AY) * (d AZ * d AY)
     + (R AX AZ * R AX AZ + R AY AZ * R AY AZ + R AZ AZ * R AZ AZ) * (d AZ * d AZ)); [ring|].
  rewrite H00, H01, H02, H10, H11, H12, H20, H21, H22. ring.
Qed.

(* ---- the displacement vectors of a primitive pair ---- *)
Definition PAf (sa sb : shell F) (alpha beta : F) : axis -> F := fun i =>
  match i with AX => PA K (s_x sa) (s_x sb) alpha beta | AY => PA K (s_y sa) (s_y sb) alpha beta
             | AZ => PA K (s_z sa) (s_z sb) alpha beta end.
Definition PBf (sa sb : shell F) (alpha beta : F) : axis -> F := fun i =>
  match i with AX => PB K (s_x sa) (s_x sb) alpha beta | AY => PB K (s_y sa) (s_y sb) alpha beta
             | AZ => PB K (s_z sa) (s_z sb) alpha beta end.
Definition PCf (C : @vec3 F) (sa sb : shell F) (alpha beta : F) : axis -> F := fun i =>
  match i with AX => PC K (s_x sa) (s_x sb) (vget C 0) alpha beta
             | AY => PC K (s_y sa) (s_y sb) (vget C 1) alpha beta
             | AZ => PC K (s_z sa) (s_z sb) (vget C 2) alpha beta end.

Lemma PAf_rot R sa sb alpha beta : psum K alpha beta <> 0 ->
  forall i, PAf (rot_shell K R sa) (rot_shell K R sb) alpha beta i = dot K (matf R i) (PAf sa sb alpha beta).
Proof.
  intros Hp i. unfold PAf, dot, sum3, matf, PA, Pw, psum in *.
  destruct i; cbn [rot_shell s_x s_y s_z mapply fst snd ax2nat]; unfold dot3, vget, mrow; cbn [fst snd];
    field; exact Hp.
Qed.
Lemma PBf_rot R sa sb alpha beta : psum K alpha beta <> 0 ->
  forall i, PBf (rot_shell K R sa) (rot_shell K R sb) alpha beta i = dot K (matf R i) (PBf sa sb alpha beta).
Proof.
  intros Hp i. unfold PBf, dot, sum3, matf, PB, Pw, psum in *.
  destruct i; cbn [rot_shell s_x s_y s_z mapply fst snd ax2nat]; unfold dot3, vget, mrow; cbn [fst snd];
    field; exact Hp.
Qed.
Lemma PCf_rot R C sa sb alpha beta : psum K alpha beta <> 0 ->
  forall i, PCf (mapply K R C) (rot_shell K R sa) (rot_shell K R sb) alpha beta i
            = dot K (matf R i) (PCf C sa sb alpha beta).
Proof.
  intros Hp i. unfold PCf, dot, sum3, matf, PC, Pw, psum in *.
  destruct i; cbn [rot_shell s_x s_y s_z mapply fst snd ax2nat]; unfold mapply, dot3, vget, mrow; cbn [fst snd];
    field; exact Hp.
Qed.

(* ---- the s-s prefactor depends on |A - B|^2 only ---- *)
Hypothesis Hexp : forall x y, fexp K (x + y) = fexp K x * fexp K y.

Lemma KAB_rot R sa sb alpha beta : orthogonal K R ->
  KAB K (rot_shell K R sa) (rot_shell K R sb) alpha beta = KAB K sa sb alpha beta.
Proof.
  intros HO. unfold KAB, base.
  set (s := fsqrt K (fpi K / psum K alpha beta)). set (h := hmean K alpha beta).
  assert (HE : forall x y z, fexp K x * fexp K y * fexp K z = fexp K (x + y + z))
    by (intros; now rewrite !Hexp).
  assert (HP : forall a b c, (s * a) * (s * b) * (s * c) = s * s * s * (a * b * c)) by (intros; ring).
  rewrite !HP, !HE. do 2 f_equal.
  pose proof (norm_rot (matf R) (fun i => match i with AX => s_x sa - s_x sb | AY => s_y sa - s_y sb
                                                     | AZ => s_z sa - s_z sb end)
                (orthogonal_cols R HO)) as N.
  unfold dot, sum3, matf in N. cbn [ax2nat] in N.
  cbn [rot_shell s_x s_y s_z mapply dot3 fst snd].
  transitivity (- (h * ((s_x sa - s_x sb) * (s_x sa - s_x sb) + (s_y sa - s_y sb) * (s_y sa - s_y sb)
                        + (s_z sa - s_z sb) * (s_z sa - s_z sb)))); [|ring].
  rewrite <- N. unfold dot3, vget, mrow. cbn [fst snd]. ring.
Qed.

(* ---- the primitive spec is the 3-D functional of the product polynomial ---- *)
Definition pair_poly (sa sb : shell F) (ca cb : comp) (alpha beta : F) : poly3 (F:=F) :=
  smono K (PAf sa sb alpha beta) ca (smono K (PBf sa sb alpha beta) cb (one3 K)).
Definition triple_poly (C : @vec3 F) (o : comp) (sa sb : shell F) (ca cb : comp) (alpha beta : F)
  : poly3 (F:=F) :=
  smono K (PCf C sa sb alpha beta) o (pair_poly sa sb ca cb alpha beta).

Theorem mom_prim_is_E3 (C : @vec3 F) o sa sb ca cb alpha beta :
  mom_prim K (vget C 0) (vget C 1) (vget C 2) o sa sb ca cb alpha beta
  = KAB K sa sb alpha beta * E3 K (1 / twop K alpha beta) (triple_poly C o sa sb ca cb alpha beta).
Proof.
  unfold mom_prim. f_equal. symmetry. unfold triple_poly, pair_poly.
  rewrite (factors_E3 K _ _ _ _ _
             (factors_smono K Kf _ _ _ _ _ _ _
                (factors_smono K Kf _ _ _ _ _ _ _
                   (factors_smono K Kf _ _ _ _ _ _ _ (factors_one3 K Kf _))))).
  reflexivity.
Qed.

Theorem ovl_prim_is_E3 sa sb ca cb alpha beta :
  ovl_prim K sa sb ca cb alpha beta
  = KAB K sa sb alpha beta * E3 K (1 / twop K alpha beta) (pair_poly sa sb ca cb alpha beta).
Proof.
  unfold ovl_prim.
  change (mom_prim K 0 0 0 (0, 0, 0)%nat sa sb ca cb alpha beta)
    with (mom_prim K (vget (0, 0, 0) 0) (vget (0, 0, 0) 1) (vget (0, 0, 0) 2) (0, 0, 0)%nat sa sb ca cb alpha beta).
  rewrite mom_prim_is_E3. reflexivity.
Qed.

(* ---- the representation of R on monomials ---- *)
(* (R^T u)^a multiplied out in monomials of u *)
Definition rot_expand (R : @mat3 F) (a : comp) : poly3 (F:=F) := subst_mon K (transpose (matf R)) a.

Lemma rot_expand_eval R a u :
  Jsum K (monomial K u) (rot_expand R a) = monomial K (mapply_t K R u) a.
Proof.
  pose proof (peval_subst_mon K Kf (vecf u) (transpose (matf R)) a) as H.
  unfold peval in H. unfold rot_expand.
  rewrite (Jsum_ext K (monomial K u) (monoval K (vecf u))) by (intro m; reflexivity).
  rewrite H. unfold monoval, monomial, mapply_t, dot, sum3, transpose, matf, vecf, dot3, mcol.
  cbn [ax2nat vget fst snd]. reflexivity.
Qed.

(* GENERAL ROTATIONS, overlap of two primitives *)
Theorem overlap_prim_rotation_covariant R sa sb ca cb alpha beta :
  orthogonal K R -> psum K alpha beta <> 0 ->
  Jsum K (fun a' => Jsum K (fun b' =>
       ovl_prim K (rot_shell K R sa) (rot_shell K R sb) a' b' alpha beta)
     (rot_expand R cb)) (rot_expand R ca)
  = ovl_prim K sa sb ca cb alpha beta.
Proof.
  intros HO Hp. rewrite ovl_prim_is_E3.
  rewrite (Jsum_ext K _ (fun a' => KAB K sa sb alpha beta *
            Jsum K (fun b' => E3 K (1 / twop K alpha beta)
                       (pair_poly (rot_shell K R sa) (rot_shell K R sb) a' b' alpha beta)) (rot_expand R cb))).
  2:{ intro a'. rewrite <- (Jsum_Jscale K Kf). apply Jsum_ext. intro b'.
      now rewrite ovl_prim_is_E3, KAB_rot. }
  rewrite (Jsum_Jscale K Kf). f_equal. unfold pair_poly, rot_expand.
  apply (rotated_product2_E3 K Kf _ (matf R) (PAf sa sb alpha beta) (PBf sa sb alpha beta)).
  - now apply orthogonal_cols.
  - now apply PAf_rot.
  - now apply PBf_rot.
Qed.

(* GENERAL ROTATIONS, multipole moment of two primitives about the rotated origin R C: the order index rotates too *)
Theorem moment_prim_rotation_covariant R (C : @vec3 F) o sa sb ca cb alpha beta :
  orthogonal K R -> psum K alpha beta <> 0 ->
  let C' := mapply K R C in
  Jsum K (fun o' => Jsum K (fun a' => Jsum K (fun b' =>
       mom_prim K (vget C' 0) (vget C' 1) (vget C' 2) o' (rot_shell K R sa) (rot_shell K R sb) a' b' alpha beta)
     (rot_expand R cb)) (rot_expand R ca)) (rot_expand R o)
  = mom_prim K (vget C 0) (vget C 1) (vget C 2) o sa sb ca cb alpha beta.
Proof.
  intros HO Hp C'. rewrite mom_prim_is_E3.
  rewrite (Jsum_ext K _ (fun o' => KAB K sa sb alpha beta *
            Jsum K (fun a' => Jsum K (fun b' => E3 K (1 / twop K alpha beta)
                       (triple_poly C' o' (rot_shell K R sa) (rot_shell K R sb) a' b' alpha beta))
                      (rot_expand R cb)) (rot_expand R ca))).
  2:{ intro o'. rewrite <- (Jsum_Jscale K Kf). apply Jsum_ext. intro a'.
      rewrite <- (Jsum_Jscale K Kf). apply Jsum_ext. intro b'.
      now rewrite mom_prim_is_E3, KAB_rot. }
  rewrite (Jsum_Jscale K Kf). f_equal. unfold triple_poly, pair_poly, rot_expand.
  apply (rotated_product3_E3 K Kf _ (matf R) (PCf C sa sb alpha beta) (PAf sa sb alpha beta)
           (PBf sa sb alpha beta)).
  - now apply orthogonal_cols.
  - now apply PCf_rot.
  - now apply PAf_rot.
  - now apply PBf_rot.
Qed.

(* ---- kinetic energy: the Laplacian part of the operator is rotation invariant ---- *)
(* the second x-derivative of the right function, as an operator on the index j of a 1-D table *)
Lemma Bop2_explicit beta (T : tfun (F:=F)) i j :
  iterop (Bop K beta) 2 T i j
  = #(Nat.pred j) * #j * T i (Nat.pred (Nat.pred j)) - (1 + 1 + 1 + 1) * beta * #j * T i (S (Nat.pred j))
    - (1 + 1) * beta * T i j + (1 + 1 + 1 + 1) * beta * beta * T i (S (S j)).
Proof.
  cbn [iterop]. unfold Bop.
  destruct j as [|[|j]]; cbn [Nat.sub Nat.pred]; rewrite ?Nat.sub_0_r; cbn [ofnat]; ring.
Qed.
Lemma T3_c_irrelevant v a b c i j : T3 K v a b c 0 i j = T3 K v a b 0 0 i j.
Proof. reflexivity. Qed.

(* [kin_prim] of Proofs/CoreDiffP.v is the kinetic operator -1/2 e^{beta u^2} Lap (. e^{-beta u^2}) of
   Gauss/Poly3.v acting on the index of the right function of the overlap *)
Theorem kin_prim_is_kinT sa sb ca cb alpha beta :
  kin_prim K sa sb ca cb alpha beta
  = kinT K (1 / (1 + 1)) beta (fun b => ovl_prim K sa sb ca b alpha beta) cb.
Proof.
  destruct ca as [[ax ay] az]. destruct cb as [[bx by_] bz].
  unfold kin_prim, D1. rewrite !Bop2_explicit.
  unfold kinT, kinop, lap, euler, rsq, mono3, S1, Sfun, ovl_prim, mom_prim, KAB, T1, cx, cy, cz.
  cbn [fst snd dv mulv map app pscale3 Jsum bump mlower expo].
  rewrite !(T3_c_irrelevant _ _ _ (PC K _ _ _ _ _)).
  ring.
Qed.

(* GENERAL ROTATIONS, kinetic energy of two primitives *)
Theorem kinetic_prim_rotation_covariant R sa sb ca cb alpha beta :
  orthogonal K R -> psum K alpha beta <> 0 ->
  Jsum K (fun a' => Jsum K (fun b' =>
       kin_prim K (rot_shell K R sa) (rot_shell K R sb) a' b' alpha beta)
     (rot_expand R cb)) (rot_expand R ca)
  = kin_prim K sa sb ca cb alpha beta.
Proof.
  intros HO Hp. rewrite kin_prim_is_kinT.
  rewrite (Jsum_ext K _ (fun a' => Jsum K (fun b' =>
             kinT K (1 / (1 + 1)) beta
               (fun b => ovl_prim K (rot_shell K R sa) (rot_shell K R sb) a' b alpha beta) b')
             (rot_expand R cb))).
  2:{ intro a'. apply Jsum_ext. intro b'. apply kin_prim_is_kinT. }
  unfold rot_expand.
  apply (kinT_covariant K Kf (transpose (matf R)) (1 / (1 + 1)) beta
           (fun a b => ovl_prim K sa sb a b alpha beta)
           (fun a b => ovl_prim K (rot_shell K R sa) (rot_shell K R sb) a b alpha beta)).
  - now apply orthogonal_cols.
  - exact (orthogonal_rows R HO).
  - intros a b. now apply overlap_prim_rotation_covariant.
Qed.

End Rot.

(* ------------------------------------------------------------------ *)
(* Examples over Qc: the hypotheses are satisfiable (a proper rational rotation - the 3-4-5 rotation about z -
   and an improper one, (1/3)[[1,2,2],[2,1,-2],[2,-2,1]], det = -1), and the STATEMENT of the theorems is
   re-checked by computation (vm_compute, independent of the proof) for every pair of p and d components. *)
From Coq Require Import ZArith QArith Qcanon.
Section Examples.
Let KQ : Fops Qc := QcK true (Q2Qc 3) (fun x => x) (fun _ => Q2Qc 1) (fun x => x) (fun _ x => x).
Let KQf : is_field KQ := QcK_field _ _ _ _ _ _.
Let q (n : Z) (d : positive) : Qc := qc_of n d.

Definition R345 : @mat3 Qc :=
  ((q 3 5, q (-4) 5, q 0 1), (q 4 5, q 3 5, q 0 1), (q 0 1, q 0 1, q 1 1)).
Definition Rimp : @mat3 Qc :=
  ((q 1 3, q 2 3, q 2 3), (q 2 3, q 1 3, q (-2) 3), (q 2 3, q (-2) 3, q 1 3)).
Definition exA : shell Qc := mkShell Qc 2 (q 1 2) (q (-1) 1) (q 2 1) [q 3 2] [[q 1 1]] false [] [].
Definition exB : shell Qc := mkShell Qc 2 (q 0 1) (q 1 3) (q (-1) 1) [q 2 3] [[q 1 1]] false [] [].
Definition exC : @vec3 Qc := (q 1 4, q (-2) 1, q 1 3).

Lemma KQ_exp_hom : forall x y, fexp KQ (fadd KQ x y) = fmul KQ (fexp KQ x) (fexp KQ y).
Proof. intros x y. apply Qc_is_canon. vm_compute. reflexivity. Qed.

Lemma orthogonal_R345 : orthogonal KQ R345.
Proof.
  intros i j Hi Hj. destruct i as [|[|[|i]]]; try lia; destruct j as [|[|[|j]]]; try lia;
    split; apply Qc_is_canon; vm_compute; reflexivity.
Qed.
Lemma orthogonal_Rimp : orthogonal KQ Rimp.
Proof.
  intros i j Hi Hj. destruct i as [|[|[|i]]]; try lia; destruct j as [|[|[|j]]]; try lia;
    split; apply Qc_is_canon; vm_compute; reflexivity.
Qed.
Lemma ex_psum : psum KQ (q 3 2) (q 2 3) <> f0 KQ.
Proof. intro H. apply (f_equal this) in H. vm_compute in H. discriminate H. Qed.

(* the theorems instantiated: nothing left to assume *)
Example overlap_rotation_345_pd :
  forall ca cb,
  Jsum KQ (fun a' => Jsum KQ (fun b' =>
       ovl_prim KQ (rot_shell KQ R345 exA) (rot_shell KQ R345 exB) a' b' (q 3 2) (q 2 3))
     (rot_expand KQ R345 cb)) (rot_expand KQ R345 ca)
  = ovl_prim KQ exA exB ca cb (q 3 2) (q 2 3).
Proof.
  intros. apply (overlap_prim_rotation_covariant KQ KQf KQ_exp_hom R345 exA exB ca cb _ _ orthogonal_R345 ex_psum).
Qed.
Example overlap_rotation_improper :
  forall ca cb,
  Jsum KQ (fun a' => Jsum KQ (fun b' =>
       ovl_prim KQ (rot_shell KQ Rimp exA) (rot_shell KQ Rimp exB) a' b' (q 3 2) (q 2 3))
     (rot_expand KQ Rimp cb)) (rot_expand KQ Rimp ca)
  = ovl_prim KQ exA exB ca cb (q 3 2) (q 2 3).
Proof.
  intros. apply (overlap_prim_rotation_covariant KQ KQf KQ_exp_hom Rimp exA exB ca cb _ _ orthogonal_Rimp ex_psum).
Qed.

(* the statement re-evaluated numerically: every (ca, cb) with ca, cb among the 3 p and the 6 d components *)
Definition pd_comps : list comp := default_comps 1 ++ default_comps 2.
Definition ovl_cov_check (R : @mat3 Qc) (ca cb : comp) : bool :=
  Qeq_bool
    (Jsum KQ (fun a' => Jsum KQ (fun b' =>
         ovl_prim KQ (rot_shell KQ R exA) (rot_shell KQ R exB) a' b' (q 3 2) (q 2 3))
       (rot_expand KQ R cb)) (rot_expand KQ R ca))
    (ovl_prim KQ exA exB ca cb (q 3 2) (q 2 3)).
Definition mom_cov_check (R : @mat3 Qc) (o ca cb : comp) : bool :=
  let C' := mapply KQ R exC in
  Qeq_bool
    (Jsum KQ (fun o' => Jsum KQ (fun a' => Jsum KQ (fun b' =>
         mom_prim KQ (vget C' 0) (vget C' 1) (vget C' 2) o' (rot_shell KQ R exA) (rot_shell KQ R exB) a' b'
                  (q 3 2) (q 2 3))
       (rot_expand KQ R cb)) (rot_expand KQ R ca)) (rot_expand KQ R o))
    (mom_prim KQ (vget exC 0) (vget exC 1) (vget exC 2) o exA exB ca cb (q 3 2) (q 2 3)).

Example overlap_rotation_345_computed :
  forallb (fun ca => forallb (fun cb => ovl_cov_check R345 ca cb) pd_comps) pd_comps = true.
Proof. vm_compute. reflexivity. Qed.
Example overlap_rotation_improper_computed :
  forallb (fun ca => forallb (fun cb => ovl_cov_check Rimp ca cb)
     [(0, 1, 0)%nat; (1, 0, 1)%nat; (0, 0, 2)%nat]) pd_comps = true.
Proof. vm_compute. reflexivity. Qed.
(* the covariance is not vacuous: without the representation matrices the d-d overlap DOES change *)
Example overlap_rotation_not_invariant :
  Qeq_bool (ovl_prim KQ (rot_shell KQ R345 exA) (rot_shell KQ R345 exB) (2, 0, 0)%nat (1, 1, 0)%nat (q 3 2) (q 2 3))
           (ovl_prim KQ exA exB (2, 0, 0)%nat (1, 1, 0)%nat (q 3 2) (q 2 3)) = false.
Proof. vm_compute. reflexivity. Qed.
Definition kin_cov_check (R : @mat3 Qc) (ca cb : comp) : bool :=
  Qeq_bool
    (Jsum KQ (fun a' => Jsum KQ (fun b' =>
         kin_prim KQ (rot_shell KQ R exA) (rot_shell KQ R exB) a' b' (q 3 2) (q 2 3))
       (rot_expand KQ R cb)) (rot_expand KQ R ca))
    (kin_prim KQ exA exB ca cb (q 3 2) (q 2 3)).
Example kinetic_rotation_computed :
  forallb (fun R => forallb (fun ca => forallb (fun cb => kin_cov_check R ca cb)
     [(0, 1, 0)%nat; (1, 0, 1)%nat; (0, 0, 2)%nat]) [(1, 0, 0)%nat; (1, 1, 0)%nat])
     [R345; Rimp] = true.
Proof. vm_compute. reflexivity. Qed.
Example kinetic_rotation_improper :
  forall ca cb,
  Jsum KQ (fun a' => Jsum KQ (fun b' =>
       kin_prim KQ (rot_shell KQ Rimp exA) (rot_shell KQ Rimp exB) a' b' (q 3 2) (q 2 3))
     (rot_expand KQ Rimp cb)) (rot_expand KQ Rimp ca)
  = kin_prim KQ exA exB ca cb (q 3 2) (q 2 3).
Proof.
  intros. apply (kinetic_prim_rotation_covariant KQ KQf KQ_exp_hom Rimp exA exB ca cb _ _ orthogonal_Rimp ex_psum).
Qed.
Example moment_rotation_computed :
  forallb (fun R => forallb (fun t => mom_cov_check R (fst (fst t)) (snd (fst t)) (snd t))
     [((1, 0, 0), (0, 1, 0), (2, 0, 0))%nat; ((0, 0, 1), (1, 0, 1), (0, 1, 1))%nat;
      ((0, 1, 1), (0, 1, 0), (1, 0, 1))%nat; ((1, 0, 0), (0, 0, 0), (1, 1, 0))%nat]) [R345; Rimp] = true.
Proof. vm_compute. reflexivity. Qed.
End Examples.

(* the hypotheses of the two theorems, packed for Props/C12_rotation.v *)
Lemma rotation_hypotheses_satisfiable :
  exists (F : Type) (K : Fops F) (R1 R2 : @mat3 F) (alpha beta : F),
    is_field K /\ (forall x y, fexp K (fadd K x y) = fmul K (fexp K x) (fexp K y))
    /\ orthogonal K R1 /\ orthogonal K R2 /\ psum K alpha beta <> f0 K.
Proof.
  exists Qc, (QcK true (Q2Qc 3) (fun x => x) (fun _ => Q2Qc 1) (fun x => x) (fun _ x => x)),
    R345, Rimp, (qc_of 3 2), (qc_of 2 3).
  split; [apply QcK_field|]. split; [apply KQ_exp_hom|]. split; [apply orthogonal_R345|].
  split; [apply orthogonal_Rimp|apply ex_psum].
Qed.
