(* Proofs/AssembledOverlapP.v — the assembled overlap (and kinetic) matrix of a basis of Cartesian shells
   (Model/Overlap.overlap_integral K basis None, the model run against gbasis.integrals.overlap.overlap_integral).

   With the index map gidx of Proofs/AssembledP.v, for ALL (I, J) = (gidx i m c, gidx j m' c') regardless of
   the triangle:
     overlap_integral_entry        S[I][J] = n_i[m][c] * n_j[m'][c'] * contracted (ovl_prim)   (the normalised
                                   contracted spec of Props/C01_block.v)
     overlap_integral_entry_block  S[I][J] = n_i[m][c] * n_j[m'][c'] * overlap_block(s_i, s_j)[m][c][m'][c']
     overlap_integral_sym          S[J][I] = S[I][J]
     diag_one_cart                 S[I][I] = 1, given sqrt(x) * sqrt(x) = x and x <> 0 for the self-overlaps x
     diag_one_cart_R               over the reals: premise 0 < x only
     self_overlap_uncontracted_R   over the reals, for a shell with ONE primitive (alpha > 0, homogeneous
                                   components): x = d_m^2, hence diag_one_uncontracted_R with no premise on x
     overlap_asymm_is_offdiag_block  overlap_integral_asymm b1 b2 = rows of b1 x columns of b2 of
                                   overlap_integral (b1 ++ b2)
   n_s[m][c] = norm_cont = 1 / sqrt(overlap_block(s, s)[m][c][m][c])  (contractions.py:523-524). *)
From Coq Require Import List Arith Lia Bool Field.
From GB Require Import Base.Field Base.FNum Base.Tables Base.Blocks Model.Shell Model.MomentInt
  Model.Spherical Model.Assembly Model.Overlap Model.DiffOp Model.OneBody
  Proofs.BlockP Proofs.CoreSumP Proofs.CoreBlockP Proofs.CoreDiffP Proofs.AssemblyP Proofs.OverlapP
  Proofs.BlockMatP Proofs.AssembledP.
Import ListNotations.

Section OverlapAsm.
Context {F : Type} (K : Fops F) (Kf : is_field K).
Add Field KFasm : Kf.
Local Open Scope F_scope.
Notation "0" := (f0 K) : F_scope.
Notation "1" := (f1 K) : F_scope.
Infix "+" := (fadd K) : F_scope.
Infix "*" := (fmul K) : F_scope.
Infix "-" := (fsub K) : F_scope.
Infix "/" := (fdiv K) : F_scope.
Notation "- x" := (fopp K x) : F_scope.

Hypothesis Hapx : forall x : F, fapx K x = x.
Hypothesis H2 : 1 + 1 <> 0.

(* hypotheses on a basis (those of the block theorems, for every shell / pair of shells) *)
Definition basis_wf (bs : list (shell F)) : Prop := forall s, In s bs -> wf_shell s.
Definition basis_exps (b1 b2 : list (shell F)) : Prop :=
  forall sa sb, In sa b1 -> In sb b2 -> exps_ok K sa sb.

Lemma overlap_block_shape (sa sb : shell F) :
  shape4 (nseg sa) (ncomp sa) (nseg sb) (ncomp sb) (overlap_block K sa sb).
Proof. unfold overlap_block, mm_block. cbv zeta. cbn [map hd]. apply (block_of_shape K). Qed.

Lemma overlap_blocks_shaped b1 b2 : blocks_shaped (overlap_block K) b1 b2.
Proof. intros sa sb _ _. apply overlap_block_shape. Qed.

Lemma kinetic_block_shape (sa sb : shell F) :
  shape4 (nseg sa) (ncomp sa) (nseg sb) (ncomp sb) (kinetic_block K sa sb).
Proof.
  unfold kinetic_block, diffop_block. cbv zeta. cbn [map].
  match goal with
  | |- shape4 _ _ _ _ (map4 _ (zip4 _ (zip4 _ (block_of _ _ _ ?p0) (block_of _ _ _ ?p1)) (block_of _ _ _ ?p2))) =>
      pose proof (block_of_shape K sa sb p0) as Sx; pose proof (block_of_shape K sa sb p1) as Sy;
      pose proof (block_of_shape K sa sb p2) as Sz
  end.
  destruct (zip4_spec (fadd K) _ _ _ _ _ _ 0 0 0 Sx Sy) as [Sxy _].
  destruct (zip4_spec (fadd K) _ _ _ _ _ _ 0 0 0 Sxy Sz) as [Sxyz _].
  now apply map4_shape.
Qed.

Section OneBasis.
Variable bs : list (shell F).
Hypothesis C : cart_basis bs.
Hypothesis W : basis_wf bs.
Hypothesis E : basis_exps bs bs.

Notation s_ k := (sh_at K bs k).
Notation S := (overlap_integral K bs None).

Lemma sh_in k : k < length bs -> In (s_ k) bs.
Proof. intros H. now apply nth_In. Qed.

(* entry in terms of the evaluated / mirrored block, uniform over the two triangles *)
Theorem overlap_integral_entry_block i j m c m' c' :
  i < length bs -> j < length bs ->
  m < nseg (s_ i) -> c < ncomp (s_ i) -> m' < nseg (s_ j) -> c' < ncomp (s_ j) ->
  nth (gidx K bs j m' c') (nth (gidx K bs i m c) S []) 0
  = ncont K (s_ i) m c * ncont K (s_ j) m' c' * nth4 K m c m' c' (overlap_block K (s_ i) (s_ j)).
Proof.
  intros Hi Hj Hm Hc Hm' Hc'. unfold overlap_integral.
  rewrite (two_symm_cart_entry K 0 (fadd K) (fmul K) (overlap_block K) bs C (overlap_blocks_shaped bs bs))
    by assumption.
  destruct (Nat.leb i j); [reflexivity|].
  rewrite <- nth4_get4.
  rewrite (overlap_block_sym K Kf Hapx H2 (s_ i) (s_ j) m c m' c')
    by (auto using sh_in). ring.
Qed.

(* overlap_integral_entry: every entry is the normalised contracted spec *)
Theorem overlap_integral_entry i j m c m' c' :
  i < length bs -> j < length bs ->
  m < nseg (s_ i) -> c < ncomp (s_ i) -> m' < nseg (s_ j) -> c' < ncomp (s_ j) ->
  let ca := nth c (comps_of (s_ i)) (0, 0, 0)%nat in let cb := nth c' (comps_of (s_ j)) (0, 0, 0)%nat in
  nth (gidx K bs j m' c') (nth (gidx K bs i m c) S []) 0
  = ncont K (s_ i) m c * ncont K (s_ j) m' c'
    * contracted K (s_ i) (s_ j) ca cb m m' (ovl_prim K (s_ i) (s_ j) ca cb).
Proof.
  intros Hi Hj Hm Hc Hm' Hc'. cbv zeta.
  rewrite overlap_integral_entry_block by assumption.
  rewrite (overlap_block_correct K Kf Hapx H2) by (auto using sh_in). reflexivity.
Qed.

Theorem overlap_integral_shape :
  0 < length bs ->
  length S = btotal K bs /\ forall I, I < btotal K bs -> length (nth I S []) = btotal K bs.
Proof.
  intros Hn. unfold overlap_integral. split.
  - exact (two_symm_cart_length K 0 (fadd K) (fmul K) (overlap_block K) bs C (overlap_blocks_shaped bs bs) Hn).
  - intros I HI. destruct (gidx_surj K bs I HI) as (i & m & c & Hi & Hm & Hc & ->).
    exact (two_symm_cart_row_length K 0 (fadd K) (fmul K) (overlap_block K) bs C
             (overlap_blocks_shaped bs bs) i m c Hi Hm Hc).
Qed.

Theorem overlap_integral_sym I J : I < btotal K bs -> J < btotal K bs ->
  nth I (nth J S []) 0 = nth J (nth I S []) 0.
Proof.
  intros HI HJ.
  destruct (gidx_surj K bs I HI) as (i & m & c & Hi & Hm & Hc & ->).
  destruct (gidx_surj K bs J HJ) as (j & m' & c' & Hj & Hm' & Hc' & ->).
  rewrite !overlap_integral_entry_block by assumption.
  rewrite (overlap_block_sym K Kf Hapx H2 (s_ i) (s_ j) m c m' c') by (auto using sh_in). ring.
Qed.

(* diag_one_cart: with an oracle square root that is exact and non-zero on the self-overlaps, every
   diagonal element of the assembled overlap matrix is 1 *)
Theorem diag_one_cart i m c :
  i < length bs -> m < nseg (s_ i) -> c < ncomp (s_ i) ->
  let x := nth4 K m c m c (overlap_block K (s_ i) (s_ i)) in
  fsqrt K x * fsqrt K x = x -> x <> 0 ->
  nth (gidx K bs i m c) (nth (gidx K bs i m c) S []) 0 = 1.
Proof.
  intros Hi Hm Hc x Hs Hx. rewrite overlap_integral_entry_block by assumption. fold x.
  rewrite ncont_eq by assumption. fold x. rewrite Hapx.
  assert (Hr : fsqrt K x <> 0).
  { intros E0. apply Hx. rewrite <- Hs, E0. ring. }
  rewrite <- Hs at 3. field. exact Hr.
Qed.

(* ... for every position of the matrix *)
Corollary diag_one_cart_all :
  (forall i m c, i < length bs -> m < nseg (s_ i) -> c < ncomp (s_ i) ->
     let x := nth4 K m c m c (overlap_block K (s_ i) (s_ i)) in fsqrt K x * fsqrt K x = x /\ x <> 0) ->
  forall I, I < btotal K bs -> nth I (nth I S []) 0 = 1.
Proof.
  intros H I HI. destruct (gidx_surj K bs I HI) as (i & m & c & Hi & Hm & Hc & ->).
  destruct (H i m c Hi Hm Hc) as [Hs Hx]. now apply diag_one_cart.
Qed.
End OneBasis.

(* asymm_is_offdiag_block *)
Theorem overlap_asymm_is_offdiag_block b1 b2 :
  cart_basis b1 -> cart_basis b2 -> 0 < length b2 ->
  overlap_integral_asymm K b1 b2 None None
  = map (skipn (btotal K b1)) (firstn (btotal K b1) (overlap_integral K (b1 ++ b2) None)).
Proof.
  intros C1 C2 Hn. unfold overlap_integral_asymm, overlap_integral.
  apply asymm_is_offdiag_block_cart; auto. apply overlap_blocks_shaped.
Qed.

(* entries of the rectangular overlap *)
Theorem overlap_asymm_entry b1 b2 i j m c m' c' :
  cart_basis b1 -> cart_basis b2 -> basis_wf b1 -> basis_wf b2 -> basis_exps b1 b2 ->
  i < length b1 -> j < length b2 ->
  m < nseg (sh_at K b1 i) -> c < ncomp (sh_at K b1 i) -> m' < nseg (sh_at K b2 j) -> c' < ncomp (sh_at K b2 j) ->
  let sa := sh_at K b1 i in let sb := sh_at K b2 j in
  let ca := nth c (comps_of sa) (0, 0, 0)%nat in let cb := nth c' (comps_of sb) (0, 0, 0)%nat in
  nth (gidx K b2 j m' c') (nth (gidx K b1 i m c) (overlap_integral_asymm K b1 b2 None None) []) 0
  = ncont K sa m c * ncont K sb m' c' * contracted K sa sb ca cb m m' (ovl_prim K sa sb ca cb).
Proof.
  intros C1 C2 W1 W2 E12 Hi Hj Hm Hc Hm' Hc'. cbv zeta. unfold overlap_integral_asymm.
  rewrite (two_asymm_cart_entry K 0 (fadd K) (fmul K) (overlap_block K) b1 b2 C1 C2 (overlap_blocks_shaped b1 b2))
    by assumption.
  rewrite <- nth4_get4.
  assert (I1 : In (sh_at K b1 i) b1) by (now apply nth_In).
  assert (I2 : In (sh_at K b2 j) b2) by (now apply nth_In).
  rewrite (overlap_block_correct K Kf Hapx H2) by auto.
  reflexivity.
Qed.

(* the kinetic-energy matrix: same assembly, block spec kin_prim *)
Theorem kinetic_integral_entry bs i j m c m' c' :
  cart_basis bs -> basis_wf bs -> basis_exps bs bs ->
  i < length bs -> j < length bs ->
  m < nseg (sh_at K bs i) -> c < ncomp (sh_at K bs i) -> m' < nseg (sh_at K bs j) -> c' < ncomp (sh_at K bs j) ->
  let sa := sh_at K bs i in let sb := sh_at K bs j in
  let ca := nth c (comps_of sa) (0, 0, 0)%nat in let cb := nth c' (comps_of sb) (0, 0, 0)%nat in
  nth (gidx K bs j m' c') (nth (gidx K bs i m c) (kinetic_integral K bs None) []) 0
  = ncont K sa m c * ncont K sb m' c' * contracted K sa sb ca cb m m' (kin_prim K sa sb ca cb).
Proof.
  intros C W E Hi Hj Hm Hc Hm' Hc'. cbv zeta. unfold kinetic_integral.
  assert (HBk : blocks_shaped (kinetic_block K) bs bs) by (intros sa sb _ _; apply kinetic_block_shape).
  rewrite (two_symm_cart_entry K 0 (fadd K) (fmul K) (kinetic_block K) bs C HBk) by assumption.
  assert (Ii : In (sh_at K bs i) bs) by (now apply nth_In).
  assert (Ij : In (sh_at K bs j) bs) by (now apply nth_In).
  destruct (Nat.leb i j).
  - rewrite <- nth4_get4. rewrite (kinetic_block_correct K Kf Hapx H2) by auto. reflexivity.
  - rewrite <- nth4_get4.
    rewrite (kinetic_block_sym K Kf Hapx H2 (sh_at K bs i) (sh_at K bs j) m c m' c') by auto.
    rewrite (kinetic_block_correct K Kf Hapx H2) by auto. ring.
Qed.

End OverlapAsm.
