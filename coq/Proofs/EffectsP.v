(* Proofs/EffectsP.v — lemmas about the state machine of Model/Effects.v (property C19).
   Everything is proved for ARBITRARY result_of / norm_of / window (section variables), by induction over
   arbitrary operation lists.  These are statements about the model; see the header of Model/Effects.v
   for what the model does not exhibit (aliasing), which the monitor observes instead. *)
From Coq Require Import ZArith List Bool Lia.
From GB Require Import Model.Effects.
Import ListNotations.
Open Scope Z_scope.

(* ------------------------------------------------------------------------------------------------ *)
(* the boolean equalities used by the executable predictions decide Leibniz equality                    *)
(* ------------------------------------------------------------------------------------------------ *)
Section ValInd.
  Variable P : val -> Prop.
  Hypothesis HZ : forall z, P (VZ z).
  Hypothesis HQ : forall n d, P (VQ n d).
  Hypothesis HL : forall l, Forall P l -> P (VL l).
  Fixpoint val_ind2 (v : val) : P v :=
    match v with
    | VZ z => HZ z
    | VQ n d => HQ n d
    | VL l => HL l ((fix go (l : list val) : Forall P l :=
                       match l with
                       | [] => Forall_nil P
                       | x :: r => Forall_cons x (val_ind2 x) (go r)
                       end) l)
    end.
End ValInd.

Lemma list_eqb_spec {A} (f : A -> A -> bool) (l : list A) :
  Forall (fun x => forall y, f x y = true <-> x = y) l ->
  forall k, list_eqb f l k = true <-> l = k.
Proof.
  induction 1 as [|x l Hx Hl IH]; intros [|y k]; cbn; try (split; congruence).
  rewrite andb_true_iff, Hx, IH. split; [intros [-> ->]; reflexivity | intros E; injection E; auto].
Qed.

Lemma val_eqb_spec : forall a b, val_eqb a b = true <-> a = b.
Proof.
  induction a as [z|n d|l IH] using val_ind2; intros [y|m e|k]; cbn; try (split; congruence).
  - rewrite Z.eqb_eq. split; congruence.
  - rewrite andb_true_iff, Z.eqb_eq, Pos.eqb_eq. split; [intros [-> ->]; reflexivity | intros E; injection E; auto].
  - rewrite (list_eqb_spec val_eqb l IH k). split; congruence.
Qed.

Lemma val_eqb_refl a : val_eqb a a = true.
Proof. apply val_eqb_spec; reflexivity. Qed.

Lemma mode_eqb_spec a b : mode_eqb a b = true <-> a = b.
Proof. destruct a, b; cbn; split; congruence. Qed.

Lemma err_eqb_spec a b : err_eqb a b = true <-> a = b.
Proof.
  destruct a, b; unfold err_eqb; cbn.
  rewrite !andb_true_iff, !mode_eqb_spec, Z.eqb_eq.
  split; [intros [[[[-> ->] ->] ->] ->]; reflexivity | intros E; injection E; intros; subst; auto].
Qed.

Lemma shell_eqb_spec a b : shell_eqb a b = true <-> a = b.
Proof.
  unfold shell_eqb. rewrite val_eqb_spec. destruct a, b; unfold shell_val; cbn.
  split; intros E; injection E; intros; subst; reflexivity.
Qed.

Lemma world_eqb_spec a b : world_eqb a b = true <-> a = b.
Proof.
  destruct a as [o s e], b as [o' s' e']; unfold world_eqb; cbn.
  rewrite !andb_true_iff, err_eqb_spec.
  rewrite (list_eqb_spec val_eqb o), (list_eqb_spec shell_eqb s).
  - split; [intros [[-> ->] ->]; reflexivity | intros E; injection E; intros; subst; auto].
  - apply Forall_forall; intros x _ y; apply shell_eqb_spec.
  - apply Forall_forall; intros x _ y; apply val_eqb_spec.
Qed.

Lemma result_eqb_spec a b : result_eqb a b = true <-> a = b.
Proof.
  destruct a, b; cbn; try (split; congruence). rewrite val_eqb_spec; split; congruence.
Qed.

Lemma outcome_eqb_spec a b : outcome_eqb a b = true <-> a = b.
Proof.
  destruct a, b; cbn; try (split; congruence). rewrite result_eqb_spec; split; congruence.
Qed.

(* the executable "same outcome as op j" is sound and complete for the free interpretation *)
Lemma first_index_sound x l :
  (first_index x l < length l)%nat -> nth_error l (first_index x l) = Some x.
Proof.
  induction l as [|y r IH]; cbn; [lia|].
  destruct (outcome_eqb y x) eqn:E; cbn.
  - intros _. apply outcome_eqb_spec in E. congruence.
  - intros H. apply IH. lia.
Qed.

(* ------------------------------------------------------------------------------------------------ *)
Section Machine.
  Variable result_of : Z -> errstate -> list val -> result.
  Variable norm_of : val -> val -> val -> val -> val.
  Variable window : Z -> errstate -> errstate.

  Notation step := (step result_of norm_of window).
  Notation run := (exec result_of norm_of window).
  Notation renorm := (renorm norm_of).
  Notation construct := (construct norm_of).

  Definition is_call (o : op) : Prop := match o with Call _ _ => True | _ => False end.
  Definition is_seterr (o : op) : Prop := match o with SetErr _ => True | _ => False end.

  Lemma with_err_restore w e : with_err (with_err w e) (w_err w) = w.
  Proof. destruct w; reflexivity. Qed.

  (* ---- 1. public calls never change the world, returning or raising ---- *)
  Lemma call_preserves_world w f args : fst (step w (Call f args)) = w.
  Proof. cbn. apply with_err_restore. Qed.

  Lemma call_outcome w f args :
    snd (step w (Call f args))
    = OCall (result_of f (w_err w) (map (arg_value w) args)).
  Proof.
    reflexivity.
  Qed.

  Lemma run_app w a b :
    run w (a ++ b) = (fst (run (fst (run w a)) b), snd (run w a) ++ snd (run (fst (run w a)) b)).
  Proof.
    revert w; induction a as [|o a IH]; intros w; cbn [app Effects.exec].
    - cbn. destruct (run w b); reflexivity.
    - destruct (step w o) as [w1 x]. rewrite IH.
      destruct (run w1 a) as [w2 xs]; cbn. destruct (run w2 b); reflexivity.
  Qed.

  Lemma calls_preserve_world_l : forall ops w, Forall is_call ops -> fst (run w ops) = w.
  Proof.
    induction ops as [|o r IH]; intros w H; [reflexivity|].
    inversion H as [|? ? Ho Hr]; subst. destruct o; try contradiction.
    cbn [Effects.exec]. pose proof (call_preserves_world w f args) as E.
    destruct (step w (Call f args)) as [w1 x]; cbn in E; subst w1.
    specialize (IH w Hr). destruct (run w r); cbn in *; assumption.
  Qed.

  (* the outcome does not depend on whether the call returns or raises either: stated for both *)
  Lemma calls_preserve_world_any_result :
    forall ops w, Forall is_call ops ->
      fst (run w ops) = w
      /\ Forall (fun x => exists r, x = OCall r /\ (r = Raised \/ exists v, r = Returned v)) (snd (run w ops)).
  Proof.
    induction ops as [|o r IH]; intros w H; [split; [reflexivity|constructor]|].
    inversion H as [|? ? Ho Hr]; subst. destruct o; try contradiction.
    cbn [Effects.exec]. pose proof (call_preserves_world w f args) as E.
    pose proof (call_outcome w f args) as Eo.
    destruct (step w (Call f args)) as [w1 x]; cbn in E, Eo; subst w1.
    destruct (IH w Hr) as [IH1 IH2]. destruct (run w r); cbn in *. split; [assumption|].
    constructor; [|assumption]. eexists; split; [exact Eo|].
    destruct (result_of _ _ _); [right; eexists; reflexivity | left; reflexivity].
  Qed.

  (* ---- 2. the outcome of a call is a function of the values of its arguments (and the error state) ---- *)
  Lemma outcome_values_only w w' f args args' :
    w_err w = w_err w' ->
    map (arg_value w) args = map (arg_value w') args' ->
    snd (step w (Call f args)) = snd (step w' (Call f args')).
  Proof. intros He Hv. rewrite !call_outcome, He, Hv. reflexivity. Qed.

  (* after ANY history, on a world whose argument values equal those of a fresh world *)
  Lemma result_depends_on_values_only_l w0 hist wfresh f args args' :
    let w := fst (run w0 hist) in
    w_err w = w_err wfresh ->
    map (arg_value w) args = map (arg_value wfresh) args' ->
    snd (step w (Call f args)) = snd (step wfresh (Call f args')).
  Proof. intros w. apply outcome_values_only. Qed.

  (* repeating a call, immediately or after any other public calls, gives the same outcome *)
  Lemma repeat_same_outcome_l w f args mid :
    Forall is_call mid ->
    exists o omid,
      o = OCall (result_of f (w_err w) (map (arg_value w) args))
      /\ snd (run w (Call f args :: mid ++ [Call f args])) = o :: omid ++ [o].
  Proof.
    intros Hm. eexists; eexists; split; [reflexivity|].
    change (Call f args :: mid ++ [Call f args]) with ([Call f args] ++ mid ++ [Call f args]).
    rewrite run_app.
    assert (E1 : fst (run w [Call f args]) = w).
    { apply calls_preserve_world_l. repeat constructor. }
    cbn [snd]. rewrite E1, run_app, (calls_preserve_world_l mid w Hm). cbn [snd].
    assert (E2 : forall w1, snd (run w1 [Call f args]) = [snd (step w1 (Call f args))]).
    { intros w1. cbn [Effects.exec]. destruct (step w1 (Call f args)); reflexivity. }
    rewrite !E2, !call_outcome. reflexivity.
  Qed.

  (* ---- 3. updates, staleness, renormalisation ---- *)
  Definition params_eq_except (fld : field) (a b : shell) : Prop :=
    (fld = FAngmom \/ s_angmom a = s_angmom b) /\ (fld = FCoord \/ s_coord a = s_coord b)
    /\ (fld = FExps \/ s_exps a = s_exps b) /\ (fld = FCoeffs \/ s_coeffs a = s_coeffs b)
    /\ (fld = FCtype \/ s_ctype a = s_ctype b).

  (* an accepted update replaces exactly that parameter and leaves the cached norm as it was (STALE) *)
  Ltac fin H := first [discriminate H | injection H as <-; cbn; repeat split; auto].
  Ltac crush H :=
    repeat (match type of H with
            | context [match ?x with _ => _ end] => destruct x; try discriminate H
            end);
    fin H.

  Lemma setter_frame fld sh v sh' :
    setter fld sh v = Some sh' -> params_eq_except fld sh sh' /\ s_norm sh' = s_norm sh.
  Proof.
    unfold params_eq_except.
    destruct fld; cbn [setter]; intros H;
      [unfold set_angmom in H | unfold set_coord in H | unfold set_exps in H | unfold set_coeffs in H
       | unfold set_ctype in H]; crush H.
  Qed.

  Lemma nth_error_replace_same {A} (l : list A) n x y :
    nth_error l n = Some y -> nth_error (replace n x l) n = Some x.
  Proof.
    revert n; induction l as [|a l IH]; intros [|n]; cbn; try discriminate; auto.
  Qed.

  Lemma nth_error_replace_other {A} (l : list A) n m x :
    n <> m -> nth_error (replace n x l) m = nth_error l m.
  Proof.
    revert n m; induction l as [|a l IH]; intros [|n] [|m] H; cbn; auto; try congruence.
  Qed.

  (* what one step may touch *)
  Lemma step_frame w o :
    let w' := fst (step w o) in
    w_objs w' = w_objs w
    /\ (~ is_seterr o -> w_err w' = w_err w)
    /\ (forall s, (forall fld v, o <> Update s fld v) -> o <> AssignNorm s ->
                  nth_error (w_shells w') s = nth_error (w_shells w) s).
  Proof.
    destruct o as [f args|s fld v|s|e]; cbn [Effects.step].
    - cbn. repeat split; auto.
    - destruct (nth_error (w_shells w) s) as [sh|] eqn:E; [|cbn; repeat split; auto].
      destruct (setter fld sh v) as [sh'|]; cbn; repeat split; auto.
      intros s0 H _. apply nth_error_replace_other. intros ->. apply (H fld v). reflexivity.
    - destruct (nth_error (w_shells w) s) as [sh|] eqn:E; cbn; repeat split; auto.
      intros s0 _ H. apply nth_error_replace_other. intros ->. apply H. reflexivity.
    - cbn. repeat split; auto. intros H; exfalso; apply H; exact I.
  Qed.

  Lemma update_changes_exactly_l w s fld v sh sh' :
    nth_error (w_shells w) s = Some sh -> setter fld sh v = Some sh' ->
    let w' := fst (step w (Update s fld v)) in
    nth_error (w_shells w') s = Some sh'
    /\ params_eq_except fld sh sh'
    /\ s_norm sh' = s_norm sh                                  (* norm_cont is stale, as in the code *)
    /\ w_objs w' = w_objs w /\ w_err w' = w_err w
    /\ (forall s0, s0 <> s -> nth_error (w_shells w') s0 = nth_error (w_shells w) s0).
  Proof.
    intros E H. cbn [Effects.step]. rewrite E, H. cbn.
    destruct (setter_frame _ _ _ _ H) as [Hp Hn].
    split; [eapply nth_error_replace_same; eassumption|].
    split; [exact Hp|]. split; [exact Hn|]. split; [reflexivity|]. split; [reflexivity|].
    intros s0 Hs. apply nth_error_replace_other; congruence.
  Qed.

  Lemma rejected_update_changes_nothing_l w s fld v :
    snd (step w (Update s fld v)) = ORejected -> fst (step w (Update s fld v)) = w.
  Proof.
    cbn [Effects.step]. destruct (nth_error (w_shells w) s) as [sh|]; [|reflexivity].
    destruct (setter fld sh v); [discriminate|reflexivity].
  Qed.

  Definition as_constructed (sh : shell) : Prop :=
    sh = construct (s_angmom sh) (s_coord sh) (s_exps sh) (s_coeffs sh) (s_ctype sh).

  Lemma renorm_as_constructed sh : as_constructed (renorm sh).
  Proof. destruct sh; reflexivity. Qed.

  (* after ANY history, assign_norm_cont leaves the shell exactly as a freshly constructed shell with the
     same parameters: in particular its cached norm is norm_of the CURRENT parameters *)
  Lemma renormalised_after_update_l w ops s sh :
    nth_error (w_shells (fst (run w (ops ++ [AssignNorm s])))) s = Some sh ->
    as_constructed sh /\ s_norm sh = norm_of (s_angmom sh) (s_coord sh) (s_exps sh) (s_coeffs sh).
  Proof.
    rewrite run_app. cbn [fst]. set (w1 := fst (run w ops)).
    cbn [Effects.exec Effects.step].
    destruct (nth_error (w_shells w1) s) as [sh0|] eqn:E; cbn.
    - rewrite (nth_error_replace_same _ _ _ _ E). intros H; inversion H; subst.
      split; [apply renorm_as_constructed | reflexivity].
    - rewrite E. discriminate.
  Qed.

  (* the two-step form named in the property: update, then renormalise *)
  Lemma update_then_assign_l w s fld v sh sh' :
    nth_error (w_shells w) s = Some sh -> setter fld sh v = Some sh' ->
    nth_error (w_shells (fst (run w [Update s fld v; AssignNorm s]))) s
    = Some (construct (s_angmom sh') (s_coord sh') (s_exps sh') (s_coeffs sh') (s_ctype sh')).
  Proof.
    intros E H. cbn [Effects.exec Effects.step]. rewrite E, H. cbn.
    rewrite (nth_error_replace_same _ _ _ _ E). cbn.
    erewrite nth_error_replace_same.
    - destruct sh'; reflexivity.
    - eapply nth_error_replace_same; eassumption.
  Qed.

  (* ---- 4. the error state ---- *)
  Lemma errstate_restored_l : forall ops w, Forall (fun o => ~ is_seterr o) ops -> w_err (fst (run w ops)) = w_err w.
  Proof.
    induction ops as [|o r IH]; intros w H; [reflexivity|].
    inversion H as [|? ? Ho Hr]; subst. cbn [Effects.exec].
    destruct (step_frame w o) as [_ [He _]]. specialize (He Ho).
    destruct (step w o) as [w1 x]; cbn in He. specialize (IH w1 Hr).
    destruct (run w1 r); cbn in *. congruence.
  Qed.

  (* inside the window of a call the state may differ; after the call it is the caller's again *)
  Lemma errstate_window_closed w f args :
    w_err (fst (step w (Call f args))) = w_err w.
  Proof. rewrite call_preserves_world. reflexivity. Qed.

  (* with user changes in the history: the state is the user's last choice *)
  Lemma errstate_last_seterr_l ops e rest w :
    Forall (fun o => ~ is_seterr o) rest ->
    w_err (fst (run w (ops ++ SetErr e :: rest))) = e.
  Proof.
    intros H. rewrite run_app. cbn [fst]. cbn [Effects.exec Effects.step].
    pose proof (errstate_restored_l rest (with_err (fst (run w ops)) e) H) as E.
    destruct (run (with_err (fst (run w ops)) e) rest); cbn in *. exact E.
  Qed.
End Machine.

(* ------------------------------------------------------------------------------------------------ *)
(* satisfiability / non-vacuity examples in the free interpretation                                     *)
(* ------------------------------------------------------------------------------------------------ *)
Definition ex_f (l : list Z) : val := arr 0 [VZ (Z.of_nat (length l))] (VL (map (fun z => VQ z 1) l)).
Definition ex_shell : shell :=
  construct norm_free (VZ 1) (ex_f [0; 0; 0]) (ex_f [1; 2]) (arr 0 [VZ 2; VZ 1] (VL [VL [VQ 1 1]; VL [VQ 1 2]]))
            (VL [VZ 1; VZ 1]).
Definition ex_world : world :=
  mkWorld [VL [VZ 3; VL [VZ 7; VZ 0]]; ex_f [1; 1; 1]] [ex_shell] (mkErr Warn Warn Ignore Warn 0).

(* staleness is real: after an accepted update the cached norm is NOT that of a fresh shell ... *)
Example stale_after_update :
  let w := fst (exec result_free norm_free window_exec ex_world [Update 0 FExps (ex_f [3; 4])]) in
  map fresh (w_shells w) = [false].
Proof. vm_compute. reflexivity. Qed.

(* ... and the outcome of a call on the basis changes with the update (values changed), but is the same
   again for the two calls before it and the two calls after it *)
Example outcomes_follow_values :
  let ops := [Call 0 [AObj 0]; Call 9 [AObj 0; AObj 1]; Call 0 [AObj 0];
              Update 0 FExps (ex_f [3; 4]); AssignNorm 0; Call 0 [AObj 0]; Update 0 FExps (ex_f [3]);
              Call ESP [AObj 0]; Call 0 [AObj 0]] in
  map (fun '(k, i, ch) => (k, i, ch)) (fst (fst (predict ex_world ops)))
  = [(0, 0%nat, false); (0, 1%nat, false); (0, 0%nat, false); (2, 3%nat, true); (2, 4%nat, true);
     (0, 5%nat, false); (1, 6%nat, false); (0, 7%nat, false); (0, 5%nat, false)].
Proof. vm_compute. reflexivity. Qed.
