(* Proofs/MomentIntP.v — the table built by the code's recursion holds, at every
   index, the Gaussian moment E((y+PC)^k (y+PA)^i (y+PB)^j) times the s-s
   prefactor; for all la lb km, all exponents and centres. *)
From Coq Require Import List Arith Lia Field.
From GB Require Import Base.Field Base.Tables Gauss.Moment1D Model.MomentInt.
Import ListNotations.

Section P.
Context {F : Type} (K : Fops F) (Kf : is_field K).
Add Field KF : Kf.
Local Open Scope F_scope.
Notation "0" := (f0 K) : F_scope.
Notation "1" := (f1 K) : F_scope.
Infix "+" := (fadd K) : F_scope.
Infix "*" := (fmul K) : F_scope.
Infix "-" := (fsub K) : F_scope.
Infix "/" := (fdiv K) : F_scope.
Notation "- x" := (fopp K x) : F_scope.
Notation "# n" := (ofnat K n) (at level 5) : F_scope.

Variables (Ax Bx Cx alpha beta : F) (la lb km : nat).
Hypothesis Hp : psum K alpha beta <> 0.
Hypothesis H2 : 1 + 1 <> 0.

Let tp := twop K alpha beta.
Let v := 1 / tp.
Let a := PA K Ax Bx alpha beta.
Let b := PB K Ax Bx alpha beta.
Let c := PC K Ax Bx Cx alpha beta.
Let B := base K Ax Bx alpha beta.
Let T := T3 K v a b c.

Lemma tp_nz : tp <> 0.
Proof. unfold tp, twop. intro H. apply Hp.
  assert (E : psum K alpha beta = ((1 + 1) * psum K alpha beta) / (1 + 1)) by (field; exact H2).
  rewrite E, H. field. exact H2. Qed.

Lemma T_Sa k i j : T k (S i) j = a * T k i j + v * lower K v a b c 0 k i j.
Proof. apply (OS3_a K Kf). Qed.
Lemma T_Sb k i j : T k i (S j) = b * T k i j + v * lower K v a b c 0 k i j.
Proof. apply (OS3_b K Kf). Qed.
Lemma T_Sc k i j : T (S k) i j = c * T k i j + v * lower K v a b c 0 k i j.
Proof. apply (OS3_c K Kf). Qed.

Lemma row_a_correct i : i <= la ->
  nth i (row_a K Ax Bx alpha beta la) 0 = B * T 0 i 0.
Proof.
  intros Hi. unfold row_a.
  pose (P := fun (i : nat) (x : F) => x = B * T 0 i 0).
  change (P i (nth i (iter2 (step_a K Ax Bx alpha beta) la 0 (base K Ax Bx alpha beta) 0) 0)).
  replace i with (0 + i)%nat at 1 by lia.
  apply (iter2_spec (step_a K Ax Bx alpha beta) P); [| | |exact Hi].
  - intros j x y Hx Hy. unfold P in *. unfold step_a. fold a tp.
    rewrite T_Sa. unfold lower, dn. fold T.
    pose proof tp_nz as Htp.
    destruct j as [|j'].
    + subst x. cbn [ofnat]. unfold v. field. exact Htp.
    + rewrite Hx. rewrite (Hy ltac:(lia)). replace (S j' - 1)%nat with j' by lia.
      change (S3 K v a b c 0 0 j' 0) with (T 0 j' 0). unfold v. field. exact Htp.
  - unfold P. unfold T, T3. rewrite (S3_000 K Kf). fold B. ring.
  - intros Hlt. lia.
Qed.

Definition Prow (j : nat) (row : list F) : Prop :=
  forall i, i <= la -> nth i row 0 = B * T 0 i j.

Lemma plane0_correct j : j <= lb -> Prow j (nth j (plane0 K Ax Bx alpha beta la lb) []).
Proof.
  intros Hj. unfold plane0.
  replace j with (0 + j)%nat at 1 by lia.
  apply (iter2_spec (step_b K Ax Bx alpha beta la) Prow); [| | |exact Hj].
  - intros j0 cur prev Hc Hpv i Hi. unfold step_b.
    rewrite nth_mk by lia. fold b tp.
    rewrite T_Sb. unfold lower, dn. fold T.
    pose proof tp_nz as Htp.
    rewrite (Hc i Hi).
    destruct i as [|i']; destruct j0 as [|j0'].
    + cbn [ofnat]. unfold v. field. exact Htp.
    + rewrite (Hpv ltac:(lia) 0%nat ltac:(lia)). replace (S j0' - 1)%nat with j0' by lia.
      change (S3 K v a b c 0 0 0 j0') with (T 0 0%nat j0').
      cbn [ofnat]. unfold v. field. exact Htp.
    + replace (S i' - 1)%nat with i' by lia. rewrite (Hc i' ltac:(lia)).
      change (S3 K v a b c 0 0 i' 0) with (T 0 i' 0%nat).
      cbn [ofnat]. unfold v. field. exact Htp.
    + replace (S i' - 1)%nat with i' by lia. rewrite (Hc i' ltac:(lia)).
      rewrite (Hpv ltac:(lia) (S i') ltac:(lia)). replace (S j0' - 1)%nat with j0' by lia.
      change (S3 K v a b c 0 0 i' (S j0')) with (T 0 i' (S j0')).
      change (S3 K v a b c 0 0 (S i') j0') with (T 0 (S i') j0').
      cbn [ofnat]. unfold v. field. exact Htp.
  - intros i Hi. now apply row_a_correct.
  - intros Hlt. lia.
Qed.

Definition Pplane (k : nat) (pl : list (list F)) : Prop :=
  forall j i, j <= lb -> i <= la -> nth2 K j i pl = B * T k i j.

Theorem table_correct k j i : k <= km -> j <= lb -> i <= la ->
  nth3 K k j i (table K Ax Bx Cx alpha beta la lb km) = B * T k i j.
Proof.
  intros Hk Hj Hi. unfold nth3, table.
  revert j i Hj Hi. change (Pplane k (nth k (iter2 (step_c K Ax Bx Cx alpha beta la lb) km 0
       (plane0 K Ax Bx alpha beta la lb) []) [])).
  replace k with (0 + k)%nat at 1 by lia.
  apply (iter2_spec (step_c K Ax Bx Cx alpha beta la lb) Pplane); [| | |exact Hk].
  - intros k0 cur prev Hc Hpv j i Hj Hi. unfold step_c, nth2.
    rewrite nth_mk by lia. rewrite nth_mk by lia. fold c tp.
    fold (nth2 K j i cur) (nth2 K j (i - 1) cur) (nth2 K (j - 1) i cur) (nth2 K j i prev).
    rewrite T_Sc. unfold lower, dn. fold T.
    pose proof tp_nz as Htp.
    rewrite (Hc j i Hj Hi).
    assert (Ei : #i * nth2 K j (i - 1) cur = B * dn K i (fun i' => T k0 i' j)).
    { destruct i as [|i']; unfold dn; [cbn [ofnat]; ring|].
      replace (S i' - 1)%nat with i' by lia. rewrite (Hc j i' Hj ltac:(lia)). ring. }
    assert (Ej : #j * nth2 K (j - 1) i cur = B * dn K j (fun j' => T k0 i j')).
    { destruct j as [|j']; unfold dn; [cbn [ofnat]; ring|].
      replace (S j' - 1)%nat with j' by lia. rewrite (Hc j' i ltac:(lia) Hi). ring. }
    assert (Ek : #k0 * nth2 K j i prev = B * dn K k0 (fun k' => T k' i j)).
    { destruct k0 as [|k0']; unfold dn; [cbn [ofnat]; ring|].
      rewrite (Hpv ltac:(lia) j i Hj Hi). replace (S k0' - 1)%nat with k0' by lia. ring. }
    rewrite Ei, Ej, Ek. unfold dn, T, T3. unfold v. field. exact Htp.
  - intros j i Hj Hi. unfold nth2. apply plane0_correct; assumption.
  - intros Hlt. lia.
Qed.

End P.
