(* Proofs/AssembledP.v — theorems about the ASSEMBLED whole-basis models (the functions the
   correspondence check runs against the public gbasis functions):
     Model/Overlap.two_symm_integral / two_asymm_integral   (overlap, kinetic, moments, point charges)
     Model/OneBody.two_symm_integral_h                      (momentum, angular momentum: real part R of -iR)
   for bases of CARTESIAN shells without a final transformation (T = None), any number of shells,
   any l, K, M.

   INDEX MAP (stated explicitly).  Shell k of the basis [bs] occupies [bdim s_k] = M_k * L_k
   consecutive positions (M_k = number of segmented contractions, L_k = number of Cartesian
   components) starting at [boff bs k] = sum_{t<k} bdim s_t; inside a shell the position of
   (segment m, component c) is m * L_k + c  (segment-major):
       gidx bs k m c = boff bs k + (m * L_k + c).
   [gidx_surj] / [gidx_inj]: every position below the total size is gidx of exactly one (k, m, c).

   Generic entry theorems (any element module A, any block function with blocks of the right shape):
     two_symm_cart_entry    entry (gidx i m c, gidx j m' c') = n_i[m][c] n_j[m'][c'] . block(i,j)[m][c][m'][c']  (i <= j)
                                                             = n_j[m'][c'] n_i[m][c] . block(j,i)[m'][c'][m][c]  (i > j)
     two_symm_h_cart_entry  same with i < j direct and i >= j conj(mirrored)
     two_asymm_cart_entry   every block direct
     asymm_is_offdiag_block_cart   two_asymm_integral b1 b2 = rows of b1 x columns of b2 of two_symm_integral (b1 ++ b2)
   Spherical / mixed bases: Proofs/AssembledSphP.v; final transformation: Proofs/AssembledLincombP.v. *)
From Coq Require Import List Arith Lia Bool.
From GB Require Import Base.Field Base.FNum Base.Tables Base.Blocks Model.Shell Model.MomentInt
  Model.Spherical Model.Assembly Model.Overlap Model.DiffOp Model.OneBody
  Proofs.BlockP Proofs.CoreBlockP Proofs.CoreDiffP Proofs.AssemblyP Proofs.OverlapP Proofs.BlockMatP.
Import ListNotations.

(* ---- small list facts ---- *)
Lemma Forall_of_nth {A} (Q : A -> Prop) (l : list A) d :
  (forall i, i < length l -> Q (nth i l d)) -> Forall Q l.
Proof.
  intros H. apply Forall_forall. intros x Hx. destruct (In_nth l x d Hx) as [i [Hi <-]]. now apply H.
Qed.

Lemma idx_lt m c M L : m < M -> c < L -> m * L + c < M * L.
Proof. intros Hm Hc. nia. Qed.

Lemma map4_shape {A B} (f : A -> B) n1 n2 n3 n4 (x : list (list (list (list A)))) :
  shape4 n1 n2 n3 n4 x -> shape4 n1 n2 n3 n4 (Model.DiffOp.map4 f x).
Proof.
  intros [X1 X2]. unfold Model.DiffOp.map4. split; [now rewrite map_length|]. intros i1 H1.
  destruct (X2 i1 H1) as [Xa Xb].
  rewrite (nth_map_d _ x i1 []) by lia. split; [now rewrite map_length|]. intros i2 H2.
  destruct (Xb i2 H2) as [Xc Xd].
  rewrite (nth_map_d _ _ i2 []) by lia. split; [now rewrite map_length|]. intros i3 H3.
  rewrite (nth_map_d _ _ i3 []) by lia. rewrite map_length. now apply Xd.
Qed.

Definition zipc {X Y Z} (f : X -> Y -> Z) (xs : list X) (ys : list Y) : list Z :=
  map (fun '(x, y) => f x y) (combine xs ys).

Lemma zipc_spec {X Y Z} (f : X -> Y -> Z) xs ys n dX dY dZ :
  length xs = n -> length ys = n ->
  length (zipc f xs ys) = n /\
  forall i, i < n -> nth i (zipc f xs ys) dZ = f (nth i xs dX) (nth i ys dY).
Proof.
  intros Hx Hy. unfold zipc. split; [rewrite map_length, combine_length; lia|].
  intros i Hi. now rewrite (nth_map_combine _ xs ys i dX dY dZ) by lia.
Qed.

Definition shape2 {A} (M L : nat) (n : list (list A)) : Prop :=
  length n = M /\ forall m, m < M -> length (nth m n []) = L.

(* ------------------------------------------------------------------ *)
(* One Cartesian shell pair: normalise + flatten                       *)
(* ------------------------------------------------------------------ *)
Section CartBlock.
Context {F : Type} (K : Fops F).
Context {A : Type} (azero : A) (aadd : A -> A -> A) (ascale : F -> A -> A).

Lemma normalise_zip n1 n2 (blk : list (list (list (list A)))) :
  normalise K ascale n1 n2 blk
  = zipc (fun nrow1 b1 => zipc (fun x1 b2 => zipc (fun nrow2 b3 =>
      zipc (fun x2 e => ascale (fmul K x1 x2) e) nrow2 b3) n2 b2) nrow1 b1) n1 blk.
Proof. reflexivity. Qed.

Lemma normalise_spec n1 n2 blk M1 L1 M2 L2 :
  shape2 M1 L1 n1 -> shape2 M2 L2 n2 -> shape4 M1 L1 M2 L2 blk ->
  shape4 M1 L1 M2 L2 (normalise K ascale n1 n2 blk) /\
  forall m1 c1 m2 c2, m1 < M1 -> c1 < L1 -> m2 < M2 -> c2 < L2 ->
    get4 azero m1 c1 m2 c2 (normalise K ascale n1 n2 blk)
    = ascale (fmul K (nth c1 (nth m1 n1 []) (f0 K)) (nth c2 (nth m2 n2 []) (f0 K)))
             (get4 azero m1 c1 m2 c2 blk).
Proof.
  intros [N1 N1r] [N2 N2r] [B1 B2]. rewrite normalise_zip.
  set (f4 := fun x1 x2 (e : A) => ascale (fmul K x1 x2) e).
  set (f3 := fun x1 (nrow2 : list F) (b3 : list A) => zipc (f4 x1) nrow2 b3).
  set (f2 := fun (x1 : F) (b2 : list (list A)) => zipc (f3 x1) n2 b2).
  set (f1 := fun (nrow1 : list F) (b1 : list (list (list A))) => zipc f2 nrow1 b1).
  change (zipc (fun nrow1 b1 => zipc (fun x1 b2 => zipc (fun nrow2 b3 =>
      zipc (fun x2 e => ascale (fmul K x1 x2) e) nrow2 b3) n2 b2) nrow1 b1) n1 blk)
    with (zipc f1 n1 blk).
  destruct (zipc_spec f1 n1 blk M1 [] [] [] N1 B1) as [Z1 E1].
  assert (S2 : forall m1, m1 < M1 ->
            length (f1 (nth m1 n1 []) (nth m1 blk [])) = L1 /\
            forall c1, c1 < L1 ->
              nth c1 (f1 (nth m1 n1 []) (nth m1 blk [])) []
              = f2 (nth c1 (nth m1 n1 []) (f0 K)) (nth c1 (nth m1 blk []) [])).
  { intros m1 H1. destruct (B2 m1 H1) as [Ba _]. unfold f1.
    exact (zipc_spec f2 _ _ L1 (f0 K) [] [] (N1r m1 H1) Ba). }
  assert (S3 : forall x1 m1 c1, m1 < M1 -> c1 < L1 ->
            length (f2 x1 (nth c1 (nth m1 blk []) [])) = M2 /\
            forall m2, m2 < M2 ->
              nth m2 (f2 x1 (nth c1 (nth m1 blk []) [])) []
              = f3 x1 (nth m2 n2 []) (nth m2 (nth c1 (nth m1 blk []) []) [])).
  { intros x1 m1 c1 H1 H2. destruct (B2 m1 H1) as [_ Bb]. destruct (Bb c1 H2) as [Bc _]. unfold f2.
    exact (zipc_spec (f3 x1) _ _ M2 [] [] [] N2 Bc). }
  assert (S4 : forall x1 m1 c1 m2, m1 < M1 -> c1 < L1 -> m2 < M2 ->
            length (f3 x1 (nth m2 n2 []) (nth m2 (nth c1 (nth m1 blk []) []) [])) = L2 /\
            forall c2, c2 < L2 ->
              nth c2 (f3 x1 (nth m2 n2 []) (nth m2 (nth c1 (nth m1 blk []) []) [])) azero
              = f4 x1 (nth c2 (nth m2 n2 []) (f0 K)) (nth c2 (nth m2 (nth c1 (nth m1 blk []) []) []) azero)).
  { intros x1 m1 c1 m2 H1 H2 H3. destruct (B2 m1 H1) as [_ Bb]. destruct (Bb c1 H2) as [_ Bd].
    unfold f3. exact (zipc_spec (f4 x1) _ _ L2 (f0 K) azero azero (N2r m2 H3) (Bd m2 H3)). }
  split.
  - split; [exact Z1|]. intros m1 H1. rewrite (E1 m1 H1). destruct (S2 m1 H1) as [La Ea].
    split; [exact La|]. intros c1 H2. rewrite (Ea c1 H2).
    destruct (S3 (nth c1 (nth m1 n1 []) (f0 K)) m1 c1 H1 H2) as [Lb Eb].
    split; [exact Lb|]. intros m2 H3. rewrite (Eb m2 H3).
    exact (proj1 (S4 _ m1 c1 m2 H1 H2 H3)).
  - intros m1 c1 m2 c2 H1 H2 H3 H4. unfold get4.
    rewrite (E1 m1 H1). rewrite (proj2 (S2 m1 H1) c1 H2).
    rewrite (proj2 (S3 _ m1 c1 H1 H2) m2 H3). rewrite (proj2 (S4 _ m1 c1 m2 H1 H2 H3) c2 H4).
    reflexivity.
Qed.

Lemma flatten_shape (blk : list (list (list (list A)))) M1 L1 M2 L2 :
  shape4 M1 L1 M2 L2 blk ->
  length (flatten_block blk) = M1 * L1 /\
  Forall (fun row => length row = M2 * L2) (flatten_block blk).
Proof.
  intros [B1 B2]. unfold flatten_block. rewrite flat_map_concat_map. split.
  - rewrite (length_concat_const _ L1); [now rewrite map_length, B1|].
    apply (Forall_of_nth _ _ []). rewrite map_length, B1. intros m1 H1.
    rewrite (nth_map_d _ blk m1 []) by lia. rewrite map_length. exact (proj1 (B2 m1 H1)).
  - apply Forall_concat. apply (Forall_of_nth _ _ []). rewrite map_length, B1. intros m1 H1.
    rewrite (nth_map_d _ blk m1 []) by lia. destruct (B2 m1 H1) as [Ba Bb].
    apply (Forall_of_nth _ _ []). rewrite map_length, Ba. intros c1 H2.
    rewrite (nth_map_d _ _ c1 []) by lia. destruct (Bb c1 H2) as [Bc Bd].
    rewrite (length_concat_const _ L2); [now rewrite Bc|].
    apply (Forall_of_nth _ _ []). rewrite Bc. exact Bd.
Qed.

Lemma flatten_entry (blk : list (list (list (list A)))) M1 L1 M2 L2 d m1 c1 m2 c2 :
  shape4 M1 L1 M2 L2 blk -> m1 < M1 -> c1 < L1 -> m2 < M2 -> c2 < L2 ->
  nth (m2 * L2 + c2) (nth (m1 * L1 + c1) (flatten_block blk) []) d = get4 d m1 c1 m2 c2 blk.
Proof.
  intros [B1 B2] H1 H2 H3 H4. unfold flatten_block, get4. rewrite flat_map_concat_map.
  destruct (B2 m1 H1) as [Ba Bb]. destruct (Bb c1 H2) as [Bc Bd].
  rewrite (nth_concat_const _ L1 [] m1 c1).
  - rewrite (nth_map_d _ blk m1 []) by lia. rewrite (nth_map_d _ _ c1 []) by lia.
    apply nth_concat_const; [|lia|exact H4]. apply (Forall_of_nth _ _ []). rewrite Bc. exact Bd.
  - apply (Forall_of_nth _ _ []). rewrite map_length, B1. intros k Hk.
    rewrite (nth_map_d _ blk k []) by lia. rewrite map_length. exact (proj1 (B2 k Hk)).
  - now rewrite map_length, B1.
  - exact H2.
Qed.

(* shell_block of two Cartesian shells *)
Lemma shell_block_cart_shape T1 T2 n1 n2 blk M1 L1 M2 L2 :
  shape2 M1 L1 n1 -> shape2 M2 L2 n2 -> shape4 M1 L1 M2 L2 blk ->
  length (shell_block K azero aadd ascale false false T1 T2 n1 n2 blk) = M1 * L1 /\
  Forall (fun row => length row = M2 * L2) (shell_block K azero aadd ascale false false T1 T2 n1 n2 blk).
Proof.
  intros Hn1 Hn2 Hb. unfold shell_block. cbv zeta.
  apply flatten_shape. exact (proj1 (normalise_spec n1 n2 blk M1 L1 M2 L2 Hn1 Hn2 Hb)).
Qed.

Lemma shell_block_cart_entry T1 T2 n1 n2 blk M1 L1 M2 L2 m1 c1 m2 c2 :
  shape2 M1 L1 n1 -> shape2 M2 L2 n2 -> shape4 M1 L1 M2 L2 blk ->
  m1 < M1 -> c1 < L1 -> m2 < M2 -> c2 < L2 ->
  nth (m2 * L2 + c2) (nth (m1 * L1 + c1)
     (shell_block K azero aadd ascale false false T1 T2 n1 n2 blk) []) azero
  = ascale (fmul K (nth c1 (nth m1 n1 []) (f0 K)) (nth c2 (nth m2 n2 []) (f0 K)))
           (get4 azero m1 c1 m2 c2 blk).
Proof.
  intros Hn1 Hn2 Hb H1 H2 H3 H4. unfold shell_block. cbv zeta.
  destruct (normalise_spec n1 n2 blk M1 L1 M2 L2 Hn1 Hn2 Hb) as [Hs He].
  rewrite (flatten_entry _ M1 L1 M2 L2 azero m1 c1 m2 c2 Hs H1 H2 H3 H4).
  now apply He.
Qed.
End CartBlock.

(* ------------------------------------------------------------------ *)
(* The index map of a Cartesian basis                                  *)
(* ------------------------------------------------------------------ *)
Section Index.
Context {F : Type} (K : Fops F).

Definition dshell : shell F := p_shell (dummy_p K).
Definition sh_at (bs : list (shell F)) (k : nat) : shell F := nth k bs dshell.
Definition ncomp (s : shell F) : nat := length (comps_of s).
Definition bdim (s : shell F) : nat := nseg s * ncomp s.
Definition boff (bs : list (shell F)) (k : nat) : nat := offs (fun t => bdim (sh_at bs t)) k.
Definition btotal (bs : list (shell F)) : nat := boff bs (length bs).
Definition gidx (bs : list (shell F)) (k m c : nat) : nat := boff bs k + (m * ncomp (sh_at bs k) + c).

Lemma default_comps_nonempty l : 0 < length (default_comps l).
Proof.
  unfold default_comps. rewrite <- cons_seq. cbn [flat_map]. rewrite app_length.
  rewrite map_length, seq_length. lia.
Qed.

Lemma ncomp_pos (s : shell F) : 0 < ncomp s.
Proof.
  unfold ncomp, comps_of. destruct (s_comps s) as [|c r]; [apply default_comps_nonempty|cbn; lia].
Qed.

(* every position is the index of exactly one (shell, segment, component) *)
Lemma gidx_surj bs I : I < btotal bs ->
  exists k m c, k < length bs /\ m < nseg (sh_at bs k) /\ c < ncomp (sh_at bs k) /\ I = gidx bs k m c.
Proof.
  intros H. destruct (offs_decompose _ _ I H) as (k & a & Hk & Ha & E).
  pose proof (ncomp_pos (sh_at bs k)) as Hp. unfold bdim in Ha.
  exists k, (a / ncomp (sh_at bs k)), (a mod ncomp (sh_at bs k)). repeat split.
  - exact Hk.
  - apply Nat.div_lt_upper_bound; lia.
  - apply Nat.mod_upper_bound. lia.
  - unfold gidx, boff. rewrite E. f_equal.
    rewrite (Nat.div_mod a (ncomp (sh_at bs k))) at 1 by lia. lia.
Qed.

Lemma gidx_inj bs k m c k' m' c' :
  m < nseg (sh_at bs k) -> c < ncomp (sh_at bs k) -> m' < nseg (sh_at bs k') -> c' < ncomp (sh_at bs k') ->
  gidx bs k m c = gidx bs k' m' c' -> k = k' /\ m = m' /\ c = c'.
Proof.
  intros Hm Hc Hm' Hc' E. unfold gidx, boff in E.
  destruct (offs_unique _ k _ k' _ (idx_lt _ _ _ _ Hm Hc) (idx_lt _ _ _ _ Hm' Hc') E) as [-> E2].
  split; [reflexivity|]. set (L := ncomp (sh_at bs k')) in *.
  assert (m = m') by nia. subst m'. split; [reflexivity|lia].
Qed.

Lemma gidx_lt bs k m c : k < length bs -> m < nseg (sh_at bs k) -> c < ncomp (sh_at bs k) ->
  gidx bs k m c < btotal bs.
Proof.
  intros Hk Hm Hc. unfold gidx, btotal, boff.
  pose proof (offs_mono (fun t => bdim (sh_at bs t)) k (length bs) Hk) as H. cbv beta in H.
  pose proof (idx_lt _ _ _ _ Hm Hc). unfold bdim in *. lia.
Qed.

(* entry of norm_cont *)
Definition ncont (s : shell F) (m c : nat) : F := nth c (nth m (norm_cont K s) []) (f0 K).

Lemma norm_cont_shape (s : shell F) : shape2 (nseg s) (ncomp s) (norm_cont K s).
Proof.
  unfold norm_cont. cbv zeta. split; [apply mk_length|]. intros m Hm.
  rewrite nth_mk by exact Hm. apply mk_length.
Qed.

Lemma ncont_eq (s : shell F) m c : m < nseg s -> c < ncomp s ->
  ncont s m c = fapx K (fdiv K (f1 K) (fsqrt K (nth4 K m c m c (overlap_block K s s)))).
Proof.
  intros Hm Hc. unfold ncont, norm_cont. cbv zeta.
  rewrite nth_mk by exact Hm. now rewrite nth_mk by exact Hc.
Qed.

Lemma nth_prep bs k : k < length bs -> nth k (map (prep K) bs) (dummy_p K) = prep K (sh_at bs k).
Proof.
  intros Hk. unfold sh_at. rewrite (nth_indep _ (dummy_p K) (prep K dshell)) by (now rewrite map_length).
  apply map_nth.
Qed.
End Index.

(* ------------------------------------------------------------------ *)
(* Assembled matrices of a Cartesian basis                             *)
(* ------------------------------------------------------------------ *)
Section Assembled.
Context {F : Type} (K : Fops F).
Context {A : Type} (azero : A) (aadd : A -> A -> A) (ascale : F -> A -> A).
Variable blockf : shell F -> shell F -> list (list (list (list A))).

(* hypotheses on a basis: Cartesian shells with at least one segment, blocks of the declared shape *)
Definition cart_basis (bs : list (shell F)) : Prop :=
  forall s, In s bs -> s_sph s = false /\ 0 < nseg s.
Definition blocks_shaped (b1 b2 : list (shell F)) : Prop :=
  forall sa sb, In sa b1 -> In sb b2 -> shape4 (nseg sa) (ncomp sa) (nseg sb) (ncomp sb) (blockf sa sb).

Notation pb := (pblock K azero aadd ascale blockf).

Lemma pblock_cart_shape (s1 s2 : shell F) :
  s_sph s1 = false -> s_sph s2 = false ->
  shape4 (nseg s1) (ncomp s1) (nseg s2) (ncomp s2) (blockf s1 s2) ->
  length (pb (prep K s1) (prep K s2)) = bdim s1 /\
  Forall (fun row => length row = bdim s2) (pb (prep K s1) (prep K s2)).
Proof.
  intros H1 H2 Hb. unfold pblock. cbn [prep p_shell p_T p_norm]. rewrite H1, H2.
  unfold bdim. apply (shell_block_cart_shape K azero aadd ascale _ _ _ _ _ (nseg s1) (ncomp s1) (nseg s2) (ncomp s2));
    auto using norm_cont_shape.
Qed.

Lemma pblock_cart_entry (s1 s2 : shell F) m1 c1 m2 c2 :
  s_sph s1 = false -> s_sph s2 = false ->
  shape4 (nseg s1) (ncomp s1) (nseg s2) (ncomp s2) (blockf s1 s2) ->
  m1 < nseg s1 -> c1 < ncomp s1 -> m2 < nseg s2 -> c2 < ncomp s2 ->
  nth (m2 * ncomp s2 + c2) (nth (m1 * ncomp s1 + c1) (pb (prep K s1) (prep K s2)) []) azero
  = ascale (fmul K (ncont K s1 m1 c1) (ncont K s2 m2 c2)) (get4 azero m1 c1 m2 c2 (blockf s1 s2)).
Proof.
  intros H1 H2 Hb Hm1 Hc1 Hm2 Hc2. unfold pblock. cbn [prep p_shell p_T p_norm]. rewrite H1, H2.
  unfold ncont.
  apply (shell_block_cart_entry K azero aadd ascale _ _ _ _ _ (nseg s1) (ncomp s1) (nseg s2) (ncomp s2));
    auto using norm_cont_shape.
Qed.

Lemma bdim_pos (s : shell F) : 0 < nseg s -> 0 < bdim s.
Proof. intros H. pose proof (ncomp_pos s). unfold bdim. nia. Qed.

(* ---- rectangular assembly (base_two_asymm) ---- *)
Section Asymm.
Variables b1 b2 : list (shell F).
Hypothesis C1 : cart_basis b1.
Hypothesis C2 : cart_basis b2.
Hypothesis HB : blocks_shaped b1 b2.

Let Bf := fun i j => pb (nth i (map (prep K) b1) (dummy_p K)) (nth j (map (prep K) b2) (dummy_p K)).

Lemma asymm_Bf_shape i j : i < length b1 -> j < length b2 ->
  length (Bf i j) = bdim (sh_at K b1 i) /\ Forall (fun row => length row = bdim (sh_at K b2 j)) (Bf i j).
Proof.
  intros Hi Hj. unfold Bf. rewrite !nth_prep by assumption.
  assert (I1 : In (sh_at K b1 i) b1) by (now apply nth_In).
  assert (I2 : In (sh_at K b2 j) b2) by (now apply nth_In).
  apply pblock_cart_shape; [exact (proj1 (C1 _ I1)) | exact (proj1 (C2 _ I2)) | now apply HB].
Qed.

Lemma asymm_is_blockmat :
  two_asymm_integral K azero aadd ascale blockf b1 b2 None None = two_asymm_blocks (length b1) (length b2) Bf.
Proof. unfold two_asymm_integral. cbv zeta. rewrite !map_length. reflexivity. Qed.

Lemma two_asymm_cart_length : 0 < length b2 ->
  length (two_asymm_integral K azero aadd ascale blockf b1 b2 None None) = btotal K b1.
Proof.
  intros Hn. rewrite asymm_is_blockmat.
  apply (blockmat_length (length b1) (length b2) Bf (fun t => bdim (sh_at K b1 t)) (fun t => bdim (sh_at K b2 t)));
    [exact asymm_Bf_shape | exact Hn].
Qed.

Lemma two_asymm_cart_row_length i m c :
  i < length b1 -> 0 < length b2 -> m < nseg (sh_at K b1 i) -> c < ncomp (sh_at K b1 i) ->
  length (nth (gidx K b1 i m c) (two_asymm_integral K azero aadd ascale blockf b1 b2 None None) []) = btotal K b2.
Proof.
  intros Hi Hn Hm Hc. rewrite asymm_is_blockmat.
  apply (blockmat_row_length (length b1) (length b2) Bf (fun t => bdim (sh_at K b1 t)) (fun t => bdim (sh_at K b2 t)));
    [exact asymm_Bf_shape | exact Hn | exact Hi | now apply idx_lt].
Qed.

Theorem two_asymm_cart_entry i j m c m' c' :
  i < length b1 -> j < length b2 ->
  m < nseg (sh_at K b1 i) -> c < ncomp (sh_at K b1 i) -> m' < nseg (sh_at K b2 j) -> c' < ncomp (sh_at K b2 j) ->
  nth (gidx K b2 j m' c') (nth (gidx K b1 i m c)
      (two_asymm_integral K azero aadd ascale blockf b1 b2 None None) []) azero
  = ascale (fmul K (ncont K (sh_at K b1 i) m c) (ncont K (sh_at K b2 j) m' c'))
           (get4 azero m c m' c' (blockf (sh_at K b1 i) (sh_at K b2 j))).
Proof.
  intros Hi Hj Hm Hc Hm' Hc'. rewrite asymm_is_blockmat.
  unfold gidx, boff.
  rewrite (blockmat_entry (length b1) (length b2) Bf (fun t => bdim (sh_at K b1 t)) (fun t => bdim (sh_at K b2 t))
             asymm_Bf_shape ltac:(lia) azero i j _ _ Hi Hj (idx_lt _ _ _ _ Hm Hc) (idx_lt _ _ _ _ Hm' Hc')).
  unfold Bf. rewrite !nth_prep by assumption.
  assert (I1 : In (sh_at K b1 i) b1) by (now apply nth_In).
  assert (I2 : In (sh_at K b2 j) b2) by (now apply nth_In).
  apply pblock_cart_entry; auto; [exact (proj1 (C1 _ I1)) | exact (proj1 (C2 _ I2))].
Qed.
End Asymm.

(* ---- square assemblies (base_two_symm), plain and conjugating ---- *)
Section Symm.
Variable bs : list (shell F).
Hypothesis C : cart_basis bs.
Hypothesis HB : blocks_shaped bs bs.
Variable aconj : A -> A.

Let n := length bs.
Let P := fun i j => pb (nth i (map (prep K) bs) (dummy_p K)) (nth j (map (prep K) bs) (dummy_p K)).
Let w := fun t => bdim (sh_at K bs t).
(* the block placed at block position (i, j) by the two assemblies *)
Let Bs := fun i j => if Nat.leb i j then P i j else transpose azero (P j i).
Let Bh := fun i j => if Nat.ltb i j then P i j else map (map aconj) (transpose azero (P j i)).

Lemma P_shape i j : i < n -> j < n ->
  length (P i j) = w i /\ Forall (fun row => length row = w j) (P i j).
Proof. exact (asymm_Bf_shape bs bs C C HB i j). Qed.

Lemma w_pos i : i < n -> 0 < w i.
Proof. intros Hi. apply bdim_pos. apply C. now apply nth_In. Qed.

Lemma Pt_shape i j : i < n -> j < n ->
  length (transpose azero (P j i)) = w i /\ Forall (fun row => length row = w j) (transpose azero (P j i)).
Proof.
  intros Hi Hj. destruct (P_shape j i Hj Hi) as [HL HF].
  exact (transpose_shape azero (P j i) (w j) (w i) (w_pos j Hj) HL HF).
Qed.

Lemma Bs_shape i j : i < n -> j < n ->
  length (Bs i j) = w i /\ Forall (fun row => length row = w j) (Bs i j).
Proof. intros Hi Hj. unfold Bs. destruct (Nat.leb i j); [now apply P_shape | now apply Pt_shape]. Qed.

Lemma Bh_shape i j : i < n -> j < n ->
  length (Bh i j) = w i /\ Forall (fun row => length row = w j) (Bh i j).
Proof.
  intros Hi Hj. unfold Bh. destruct (Nat.ltb i j); [now apply P_shape|].
  destruct (Pt_shape i j Hi Hj) as [HL HF]. split; [now rewrite map_length|].
  apply Forall_forall. intros row Hr. apply in_map_iff in Hr. destruct Hr as [r0 [<- Hr0]].
  rewrite map_length. rewrite Forall_forall in HF. now apply HF.
Qed.

Lemma symm_is_blockmat :
  two_symm_integral K azero aadd ascale blockf bs None = two_asymm_blocks n n Bs.
Proof. rewrite two_symm_integral_unfold. cbv zeta. rewrite map_length. reflexivity. Qed.

Lemma two_symm_blocks_h_ext nn (bf bf' : nat -> nat -> list (list A)) :
  (forall i j, i < nn -> j < nn -> i <= j -> bf i j = bf' i j) ->
  two_symm_blocks_h azero aconj nn bf = two_symm_blocks_h azero aconj nn bf'.
Proof.
  intros H. unfold two_symm_blocks_h. f_equal. apply mk_ext; intros i Hi. f_equal.
  apply mk_ext; intros j Hj. destruct (Nat.ltb_spec i j) as [Hlt|Hge].
  - apply H; lia.
  - rewrite (H j i) by lia. reflexivity.
Qed.

Lemma symm_h_is_blockmat :
  two_symm_integral_h K azero aadd ascale aconj blockf bs None = two_asymm_blocks n n Bh.
Proof.
  unfold two_symm_integral_h. cbv zeta. rewrite map_length. fold n.
  rewrite (two_symm_blocks_h_ext n _ P).
  - reflexivity.
  - intros i j Hi Hj Hle. rewrite nth_mk by exact Hi. rewrite nth_mk by exact Hj.
    destruct (Nat.leb_spec i j); [reflexivity|lia].
Qed.

Lemma P_entry i j m c m' c' : i < n -> j < n ->
  m < nseg (sh_at K bs i) -> c < ncomp (sh_at K bs i) -> m' < nseg (sh_at K bs j) -> c' < ncomp (sh_at K bs j) ->
  nth (m' * ncomp (sh_at K bs j) + c') (nth (m * ncomp (sh_at K bs i) + c) (P i j) []) azero
  = ascale (fmul K (ncont K (sh_at K bs i) m c) (ncont K (sh_at K bs j) m' c'))
           (get4 azero m c m' c' (blockf (sh_at K bs i) (sh_at K bs j))).
Proof.
  intros Hi Hj Hm Hc Hm' Hc'. unfold P. rewrite !nth_prep by assumption.
  assert (I1 : In (sh_at K bs i) bs) by (now apply nth_In).
  assert (I2 : In (sh_at K bs j) bs) by (now apply nth_In).
  apply pblock_cart_entry; auto; [exact (proj1 (C _ I1)) | exact (proj1 (C _ I2))].
Qed.

(* entry of the transposed mirrored block *)
Lemma Pt_entry i j m c m' c' : i < n -> j < n ->
  m < nseg (sh_at K bs i) -> c < ncomp (sh_at K bs i) -> m' < nseg (sh_at K bs j) -> c' < ncomp (sh_at K bs j) ->
  nth (m' * ncomp (sh_at K bs j) + c') (nth (m * ncomp (sh_at K bs i) + c) (transpose azero (P j i)) []) azero
  = ascale (fmul K (ncont K (sh_at K bs j) m' c') (ncont K (sh_at K bs i) m c))
           (get4 azero m' c' m c (blockf (sh_at K bs j) (sh_at K bs i))).
Proof.
  intros Hi Hj Hm Hc Hm' Hc'. destruct (P_shape j i Hj Hi) as [HL HF].
  assert (Hhd : length (hd [] (P j i)) = w i).
  { pose proof (w_pos j Hj). destruct (P j i) as [|r0 m0]; [cbn in HL; lia|].
    inversion HF as [|? ? Hr0 ?]. exact Hr0. }
  rewrite transpose_entry.
  - now apply P_entry.
  - rewrite HL. now apply idx_lt.
  - rewrite Hhd. now apply idx_lt.
Qed.

Theorem two_symm_cart_length : 0 < n ->
  length (two_symm_integral K azero aadd ascale blockf bs None) = btotal K bs.
Proof. intros Hn. rewrite symm_is_blockmat. exact (blockmat_length n n Bs w w Bs_shape Hn). Qed.

Theorem two_symm_cart_row_length i m c :
  i < n -> m < nseg (sh_at K bs i) -> c < ncomp (sh_at K bs i) ->
  length (nth (gidx K bs i m c) (two_symm_integral K azero aadd ascale blockf bs None) []) = btotal K bs.
Proof.
  intros Hi Hm Hc. rewrite symm_is_blockmat.
  exact (blockmat_row_length n n Bs w w Bs_shape ltac:(lia) i _ Hi (idx_lt _ _ _ _ Hm Hc)).
Qed.

Theorem two_symm_cart_entry i j m c m' c' :
  i < n -> j < n ->
  m < nseg (sh_at K bs i) -> c < ncomp (sh_at K bs i) -> m' < nseg (sh_at K bs j) -> c' < ncomp (sh_at K bs j) ->
  nth (gidx K bs j m' c') (nth (gidx K bs i m c)
      (two_symm_integral K azero aadd ascale blockf bs None) []) azero
  = if Nat.leb i j
    then ascale (fmul K (ncont K (sh_at K bs i) m c) (ncont K (sh_at K bs j) m' c'))
                (get4 azero m c m' c' (blockf (sh_at K bs i) (sh_at K bs j)))
    else ascale (fmul K (ncont K (sh_at K bs j) m' c') (ncont K (sh_at K bs i) m c))
                (get4 azero m' c' m c (blockf (sh_at K bs j) (sh_at K bs i))).
Proof.
  intros Hi Hj Hm Hc Hm' Hc'. rewrite symm_is_blockmat. unfold gidx, boff. fold w.
  rewrite (blockmat_entry n n Bs w w Bs_shape ltac:(lia) azero i j _ _ Hi Hj
             (idx_lt _ _ _ _ Hm Hc) (idx_lt _ _ _ _ Hm' Hc')).
  unfold Bs. destruct (Nat.leb i j); [now apply P_entry | now apply Pt_entry].
Qed.

Theorem two_symm_h_cart_length : 0 < n ->
  length (two_symm_integral_h K azero aadd ascale aconj blockf bs None) = btotal K bs.
Proof. intros Hn. rewrite symm_h_is_blockmat. exact (blockmat_length n n Bh w w Bh_shape Hn). Qed.

Theorem two_symm_h_cart_row_length i m c :
  i < n -> m < nseg (sh_at K bs i) -> c < ncomp (sh_at K bs i) ->
  length (nth (gidx K bs i m c) (two_symm_integral_h K azero aadd ascale aconj blockf bs None) []) = btotal K bs.
Proof.
  intros Hi Hm Hc. rewrite symm_h_is_blockmat.
  exact (blockmat_row_length n n Bh w w Bh_shape ltac:(lia) i _ Hi (idx_lt _ _ _ _ Hm Hc)).
Qed.

(* blocks strictly above the diagonal are evaluated; every other block, the DIAGONAL ones
   included, is the conjugated transpose of the mirrored evaluated block *)
Theorem two_symm_h_cart_entry i j m c m' c' :
  i < n -> j < n ->
  m < nseg (sh_at K bs i) -> c < ncomp (sh_at K bs i) -> m' < nseg (sh_at K bs j) -> c' < ncomp (sh_at K bs j) ->
  nth (gidx K bs j m' c') (nth (gidx K bs i m c)
      (two_symm_integral_h K azero aadd ascale aconj blockf bs None) []) (aconj azero)
  = if Nat.ltb i j
    then ascale (fmul K (ncont K (sh_at K bs i) m c) (ncont K (sh_at K bs j) m' c'))
                (get4 azero m c m' c' (blockf (sh_at K bs i) (sh_at K bs j)))
    else aconj (ascale (fmul K (ncont K (sh_at K bs j) m' c') (ncont K (sh_at K bs i) m c))
                (get4 azero m' c' m c (blockf (sh_at K bs j) (sh_at K bs i)))).
Proof.
  intros Hi Hj Hm Hc Hm' Hc'. rewrite symm_h_is_blockmat. unfold gidx, boff. fold w.
  rewrite (blockmat_entry n n Bh w w Bh_shape ltac:(lia) (aconj azero) i j _ _ Hi Hj
             (idx_lt _ _ _ _ Hm Hc) (idx_lt _ _ _ _ Hm' Hc')).
  unfold Bh. destruct (Nat.ltb i j).
  - destruct (P_shape i j Hi Hj) as [HL HF].
    rewrite (nth_indep _ (aconj azero) azero).
    + now apply P_entry.
    + rewrite (Forall_nth_in _ _ [] _ HF) by (rewrite HL; now apply idx_lt). now apply idx_lt.
  - destruct (Pt_shape i j Hi Hj) as [HL HF].
    rewrite (nth_map_d (map aconj) _ _ []) by (rewrite HL; now apply idx_lt).
    rewrite (nth_map_d aconj _ _ azero)
      by (rewrite (Forall_nth_in _ _ [] _ HF) by (rewrite HL; now apply idx_lt); now apply idx_lt).
    f_equal. now apply Pt_entry.
Qed.
End Symm.
End Assembled.

(* ------------------------------------------------------------------ *)
(* asymmetric assembly = off-diagonal block of the union                *)
(* ------------------------------------------------------------------ *)
Lemma nth_firstn_lt {A} (l : list A) k a d : a < k -> nth a (firstn k l) d = nth a l d.
Proof.
  revert k a. induction l as [|x l IH]; intros [|k] [|a] H; cbn; try reflexivity; try lia.
  apply IH. lia.
Qed.

Lemma nth_skipn_add {A} (l : list A) k b d : nth b (skipn k l) d = nth (k + b) l d.
Proof. revert l. induction k as [|k IH]; intros [|x l]; cbn; try reflexivity; [now destruct b|apply IH]. Qed.

Section OffDiag.
Context {F : Type} (K : Fops F).
Context {A : Type} (azero : A) (aadd : A -> A -> A) (ascale : F -> A -> A).
Variable blockf : shell F -> shell F -> list (list (list (list A))).
Variables b1 b2 : list (shell F).
Hypothesis C1 : cart_basis b1.
Hypothesis C2 : cart_basis b2.
Hypothesis HB : blocks_shaped blockf (b1 ++ b2) (b1 ++ b2).
Hypothesis Hn2 : 0 < length b2.

Let n1 := length b1.

Lemma sh_at_app_l t : t < n1 -> sh_at K (b1 ++ b2) t = sh_at K b1 t.
Proof. intros H. unfold sh_at. now rewrite app_nth1. Qed.
Lemma sh_at_app_r t : sh_at K (b1 ++ b2) (n1 + t) = sh_at K b2 t.
Proof. unfold sh_at. rewrite app_nth2 by (unfold n1; lia). f_equal. unfold n1. lia. Qed.

Lemma boff_app_l k : k <= n1 -> boff K (b1 ++ b2) k = boff K b1 k.
Proof. intros H. unfold boff. apply offs_ext. intros t Ht. rewrite sh_at_app_l by lia. reflexivity. Qed.
Lemma boff_app_r k : boff K (b1 ++ b2) (n1 + k) = btotal K b1 + boff K b2 k.
Proof.
  unfold boff at 1. rewrite offs_add. f_equal.
  - apply (boff_app_l n1). lia.
  - apply offs_ext. intros t _. now rewrite sh_at_app_r.
Qed.
Lemma btotal_app : btotal K (b1 ++ b2) = btotal K b1 + btotal K b2.
Proof. unfold btotal at 1. rewrite app_length. apply boff_app_r. Qed.

Lemma gidx_app_l i m c : i < n1 -> gidx K (b1 ++ b2) i m c = gidx K b1 i m c.
Proof. intros H. unfold gidx. rewrite boff_app_l, sh_at_app_l by lia. reflexivity. Qed.
Lemma gidx_app_r j m c : gidx K (b1 ++ b2) (n1 + j) m c = btotal K b1 + gidx K b2 j m c.
Proof. unfold gidx. rewrite boff_app_r, sh_at_app_r. lia. Qed.

Lemma cart_basis_app : cart_basis (b1 ++ b2).
Proof. intros s Hs. apply in_app_or in Hs. destruct Hs; [now apply C1 | now apply C2]. Qed.

Lemma blocks_shaped_12 : blocks_shaped blockf b1 b2.
Proof. intros sa sb Ha Hb. apply HB; apply in_or_app; auto. Qed.

(* The rectangular assembly of (b1, b2) is rows [0, |b1|) x columns [|b1|, |b1|+|b2|) of the square
   assembly of the union b1 ++ b2 (|b| = btotal b, the number of basis functions of b). *)
Theorem asymm_is_offdiag_block_cart :
  two_asymm_integral K azero aadd ascale blockf b1 b2 None None
  = map (skipn (btotal K b1)) (firstn (btotal K b1) (two_symm_integral K azero aadd ascale blockf (b1 ++ b2) None)).
Proof.
  set (U := two_symm_integral K azero aadd ascale blockf (b1 ++ b2) None).
  assert (HU : length U = btotal K b1 + btotal K b2).
  { unfold U. rewrite (two_symm_cart_length K azero aadd ascale blockf (b1 ++ b2) cart_basis_app HB).
    - apply btotal_app.
    - rewrite app_length. lia. }
  assert (Hrow : forall i m c, i < n1 -> m < nseg (sh_at K b1 i) -> c < ncomp (sh_at K b1 i) ->
            length (nth (gidx K b1 i m c) U []) = btotal K b1 + btotal K b2).
  { intros i m c Hi Hm Hc. rewrite <- gidx_app_l by exact Hi. unfold U.
    rewrite (two_symm_cart_row_length K azero aadd ascale blockf (b1 ++ b2) cart_basis_app HB).
    - apply btotal_app.
    - rewrite app_length. unfold n1 in Hi. lia.
    - now rewrite sh_at_app_l.
    - now rewrite sh_at_app_l. }
  apply (matrix_ext azero _ _ (btotal K b1) (btotal K b2)).
  - exact (two_asymm_cart_length K azero aadd ascale blockf b1 b2 C1 C2 blocks_shaped_12 Hn2).
  - rewrite map_length, firstn_length, HU. lia.
  - intros a Ha. destruct (gidx_surj K b1 a Ha) as (i & m & c & Hi & Hm & Hc & ->). split.
    + exact (two_asymm_cart_row_length K azero aadd ascale blockf b1 b2 C1 C2 blocks_shaped_12 i m c Hi Hn2 Hm Hc).
    + rewrite (nth_map_d _ _ _ []) by (rewrite firstn_length, HU; lia).
      rewrite nth_firstn_lt by exact Ha. rewrite skipn_length, Hrow by assumption. lia.
  - intros a b Ha Hb.
    destruct (gidx_surj K b1 a Ha) as (i & m & c & Hi & Hm & Hc & ->).
    destruct (gidx_surj K b2 b Hb) as (j & m' & c' & Hj & Hm' & Hc' & ->).
    rewrite (two_asymm_cart_entry K azero aadd ascale blockf b1 b2 C1 C2 blocks_shaped_12) by assumption.
    rewrite (nth_map_d _ _ _ []) by (rewrite firstn_length, HU; lia).
    rewrite nth_firstn_lt by exact Ha. rewrite nth_skipn_add.
    rewrite <- gidx_app_r, <- (gidx_app_l i m c) by exact Hi. unfold U.
    assert (Hij : n1 + j < length (b1 ++ b2)) by (rewrite app_length; unfold n1; lia).
    assert (Hi' : i < length (b1 ++ b2)) by (rewrite app_length; lia).
    rewrite (two_symm_cart_entry K azero aadd ascale blockf (b1 ++ b2) cart_basis_app HB i (n1 + j) m c m' c' Hi' Hij).
    + destruct (Nat.leb_spec i (n1 + j)) as [_|Hlt]; [|unfold n1 in *; lia].
      rewrite sh_at_app_r, (sh_at_app_l i) by exact Hi. reflexivity.
    + now rewrite sh_at_app_l.
    + now rewrite sh_at_app_l.
    + now rewrite sh_at_app_r.
    + now rewrite sh_at_app_r.
Qed.
End OffDiag.
