(* Proofs/EriStructP.v — structural lemmas for property C04 (electron-repulsion
   integrals): the physicist array is the chemist array with the middle axes
   exchanged (index statement, involution), the shape of the quartet block
   [eri_block], and the eight-fold fill of the four-index assembly: every cell
   (i, j, k, l) of the assembled array is one of the eight permuted images of a
   block that was actually computed for a canonical quartet
   (base_four_symm.py:434-539).  Nothing here depends on the field being a
   field: the statements hold for any carrier.  The recursion proofs live in
   Proofs/TwoElecP.v (another file). *)
From Coq Require Import List Arith Lia Bool.
From GB Require Import Base.Field Base.Tables Base.Blocks Model.Shell Model.Assembly Model.Assembly14
  Model.Overlap Model.TwoElec Model.OneBody.
Import ListNotations.

(* ------------------------------------------------------------------ *)
(* swapax: index statement for any two axes, any (even ragged) array  *)
(* ------------------------------------------------------------------ *)
Section Swap.
Context {A : Type} (azero : A).
Notation R4 := (list (list (list (list A)))).

(* the dimensions of the result are the exchanged dimensions; an index tuple in range of the
   RESULT reads the source at the exchanged tuple *)
Lemma get4_swapax (a b : nat) (blk : R4) x0 x1 x2 x3 :
  let ds := swapl a b (dims4 blk) 0 in
  x0 < nth 0 ds 0 -> x1 < nth 1 ds 0 -> x2 < nth 2 ds 0 -> x3 < nth 3 ds 0 ->
  get4 azero (swapax azero a b blk) x0 x1 x2 x3
  = (let ix := swapl a b [x0; x1; x2; x3] 0 in
     get4 azero blk (nth 0 ix 0) (nth 1 ix 0) (nth 2 ix 0) (nth 3 ix 0)).
Proof.
  intros ds H0 H1 H2 H3. unfold swapax. fold ds. unfold get4 at 1.
  rewrite (nth_mk _ _ _ _ H0), (nth_mk _ _ _ _ H1), (nth_mk _ _ _ _ H2), (nth_mk _ _ _ _ H3).
  reflexivity.
Qed.

(* the case of the physicist convention: axes 1 and 2 *)
Lemma get4_swapax_12 (blk : R4) i j k l :
  i < length blk -> k < length (hd [] blk) -> j < length (hd [] (hd [] blk)) ->
  l < length (hd [] (hd [] (hd [] blk))) ->
  get4 azero (swapax azero 1 2 blk) i j k l = get4 azero blk i k j l.
Proof. intros Hi Hk Hj Hl. now rewrite get4_swapax. Qed.

Lemma length_swapax a b (blk : R4) : length (swapax azero a b blk) = nth 0 (swapl a b (dims4 blk) 0) 0.
Proof. unfold swapax. now rewrite mk_length. Qed.

(* dimensions of the exchanged array (all of d0, d1, d2 positive: an empty axis loses the
   inner lengths in a nested-list representation) *)
Lemma hd_mk {B} n (f : nat -> B) d : hd d (mk (S n) f) = f 0.
Proof. reflexivity. Qed.

Lemma dims4_swapax_12 (blk : R4) d0 d1 d2 d3 :
  dims4 blk = [d0; d1; d2; d3] -> 0 < d0 -> 0 < d1 -> 0 < d2 ->
  dims4 (swapax azero 1 2 blk) = [d0; d2; d1; d3].
Proof.
  intros Hd H0 H1 H2. unfold swapax. rewrite Hd.
  change (swapl 1 2 [d0; d1; d2; d3] 0) with [d0; d2; d1; d3]. cbn [nth].
  destruct d0 as [|d0]; [lia|]. destruct d1 as [|d1]; [lia|]. destruct d2 as [|d2]; [lia|].
  unfold dims4. rewrite !hd_mk, !mk_length. reflexivity.
Qed.

(* exchanging twice gives back every element *)
Lemma get4_swapax_12_twice (blk : R4) i j k l :
  i < length blk -> j < length (hd [] blk) -> k < length (hd [] (hd [] blk)) ->
  l < length (hd [] (hd [] (hd [] blk))) ->
  get4 azero (swapax azero 1 2 (swapax azero 1 2 blk)) i j k l = get4 azero blk i j k l.
Proof.
  intros Hi Hj Hk Hl.
  pose proof (dims4_swapax_12 blk _ _ _ _ eq_refl ltac:(lia) ltac:(lia) ltac:(lia)) as Hd.
  unfold dims4 in Hd. injection Hd as E0 E1 E2 E3.
  rewrite get4_swapax_12 by (rewrite ?E0, ?E1, ?E2, ?E3; assumption).
  now rewrite get4_swapax_12.
Qed.

(* rectangular arrays: list-level involution *)
Definition rect4 (d0 d1 d2 d3 : nat) (b : R4) : Prop :=
  length b = d0 /\ Forall (fun x => length x = d1 /\
    Forall (fun y => length y = d2 /\ Forall (fun z => length z = d3) y) x) b.

Lemma list_ext_nth {B} (d : B) (u v : list B) :
  length u = length v -> (forall i, i < length u -> nth i u d = nth i v d) -> u = v.
Proof.
  revert v. induction u as [|x u IH]; intros [|y v] Hl H; cbn in Hl; try discriminate; [reflexivity|].
  f_equal; [exact (H 0 ltac:(cbn; lia))|].
  apply IH; [lia|]. intros i Hi. exact (H (S i) ltac:(cbn; lia)).
Qed.

Lemma rect4_dims d0 d1 d2 d3 b : rect4 d0 d1 d2 d3 b -> 0 < d0 -> 0 < d1 -> 0 < d2 ->
  dims4 b = [d0; d1; d2; d3].
Proof.
  intros [H0 HF] P0 P1 P2. unfold dims4.
  destruct b as [|x b]; [cbn in H0; lia|]. cbn [hd]. inversion HF as [|? ? [Hx HFx] _]; subst.
  destruct x as [|y x]; [cbn in P1; lia|]. cbn [hd]. inversion HFx as [|? ? [Hy HFy] _]; subst.
  destruct y as [|z y]; [cbn in P2; lia|]. cbn [hd]. inversion HFy as [|? ? Hz _]; subst.
  reflexivity.
Qed.

Lemma swapax_12_involutive d0 d1 d2 d3 (b : R4) :
  rect4 d0 d1 d2 d3 b -> 0 < d0 -> 0 < d1 -> 0 < d2 ->
  swapax azero 1 2 (swapax azero 1 2 b) = b.
Proof.
  intros HR P0 P1 P2. pose proof (rect4_dims _ _ _ _ _ HR P0 P1 P2) as Hd.
  pose proof (dims4_swapax_12 b _ _ _ _ Hd P0 P1 P2) as Hd'.
  destruct HR as [H0 HF]. rewrite Forall_forall in HF.
  assert (L0 : length (swapax azero 1 2 (swapax azero 1 2 b)) = d0).
  { rewrite length_swapax, Hd'. reflexivity. }
  apply (list_ext_nth []); [lia|]. intros i Hi. rewrite L0 in Hi.
  assert (Hin : In (nth i b []) b) by (apply nth_In; lia).
  destruct (HF _ Hin) as [H1 HF1]. rewrite Forall_forall in HF1.
  unfold swapax at 1. rewrite Hd'. change (swapl 1 2 [d0; d2; d1; d3] 0) with [d0; d1; d2; d3].
  cbn [nth]. rewrite nth_mk by assumption.
  apply (list_ext_nth []); [rewrite mk_length; lia|]. intros j Hj. rewrite mk_length in Hj.
  rewrite nth_mk by assumption.
  assert (Hin1 : In (nth j (nth i b []) []) (nth i b [])) by (apply nth_In; lia).
  destruct (HF1 _ Hin1) as [H2 HF2]. rewrite Forall_forall in HF2.
  apply (list_ext_nth []); [rewrite mk_length; lia|]. intros k Hk. rewrite mk_length in Hk.
  rewrite nth_mk by assumption.
  assert (Hin2 : In (nth k (nth j (nth i b []) []) []) (nth j (nth i b []) [])) by (apply nth_In; lia).
  pose proof (HF2 _ Hin2) as H3.
  apply (list_ext_nth azero); [rewrite mk_length; lia|]. intros l Hl. rewrite mk_length in Hl.
  rewrite nth_mk by assumption.
  change (swapl 1 2 [i; j; k; l] 0) with [i; k; j; l]. cbn [nth].
  injection Hd' as E0 E1 E2 E3.
  rewrite get4_swapax_12 by (rewrite ?E0, ?E1, ?E2, ?E3; injection Hd as F0 F1 F2 F3; lia).
  reflexivity.
Qed.
End Swap.

(* ------------------------------------------------------------------ *)
(* physicist = chemist with the middle axes exchanged                  *)
(* ------------------------------------------------------------------ *)
Section Phys.
Context {F : Type} (K : Fops F).

Lemma eri_physicist_is_swap (basis : list (shell F)) (T : option (list (list F))) :
  eri_integral K basis T true = swapax (f0 K) 1 2 (eri_integral K basis T false).
Proof. reflexivity. Qed.

Lemma eri_physicist_entry (basis : list (shell F)) (T : option (list (list F))) i j k l :
  let chem := eri_integral K basis T false in
  i < length chem -> k < length (hd [] chem) -> j < length (hd [] (hd [] chem)) ->
  l < length (hd [] (hd [] (hd [] chem))) ->
  get4 (f0 K) (eri_integral K basis T true) i j k l = get4 (f0 K) chem i k j l.
Proof. intros chem Hi Hk Hj Hl. rewrite eri_physicist_is_swap. now apply get4_swapax_12. Qed.

Lemma eri_physicist_twice_entry (basis : list (shell F)) (T : option (list (list F))) i j k l :
  let chem := eri_integral K basis T false in
  i < length chem -> j < length (hd [] chem) -> k < length (hd [] (hd [] chem)) ->
  l < length (hd [] (hd [] (hd [] chem))) ->
  get4 (f0 K) (swapax (f0 K) 1 2 (eri_integral K basis T true)) i j k l = get4 (f0 K) chem i j k l.
Proof. intros chem Hi Hj Hk Hl. rewrite eri_physicist_is_swap. now apply get4_swapax_12_twice. Qed.
End Phys.

(* ------------------------------------------------------------------ *)
(* shape of the quartet block                                          *)
(* ------------------------------------------------------------------ *)
Lemma Forall_mk' {B} (Q : B -> Prop) n g : (forall j, j < n -> Q (g j)) -> Forall Q (mk n g).
Proof.
  intros H. apply Forall_forall. intros x Hx. unfold mk in Hx. apply in_map_iff in Hx.
  destruct Hx as [j [<- Hj]]. apply in_seq in Hj. apply H. lia.
Qed.

Section Shape.
Context {F : Type} (K : Fops F).

(* [M1][L1][M2][L2][M3][L3][M4][L4] with M = number of segmented contractions (columns of the
   coefficient matrix) and L = number of Cartesian components of the shell *)
Definition shape8 (d1 d2 d3 d4 d5 d6 d7 d8 : nat)
           (b : list (list (list (list (list (list (list (list F)))))))) : Prop :=
  length b = d1 /\ Forall (fun b1 => length b1 = d2 /\ Forall (fun b2 => length b2 = d3 /\
  Forall (fun b3 => length b3 = d4 /\ Forall (fun b4 => length b4 = d5 /\
  Forall (fun b5 => length b5 = d6 /\ Forall (fun b6 => length b6 = d7 /\
  Forall (fun b7 => length b7 = d8) b6) b5) b4) b3) b2) b1) b.

Lemma eri_block_shape (s1 s2 s3 s4 : shell F) :
  shape8 (nseg s1) (length (comps_of s1)) (nseg s2) (length (comps_of s2))
         (nseg s3) (length (comps_of s3)) (nseg s4) (length (comps_of s4))
         (eri_block K s1 s2 s3 s4).
Proof.
  unfold shape8, eri_block. cbv zeta.
  split; [apply mk_length|]. apply Forall_mk'; intros m1 _.
  split; [apply mk_length|]. apply Forall_mk'; intros i1 _.
  split; [apply mk_length|]. apply Forall_mk'; intros m2 _.
  split; [apply mk_length|]. apply Forall_mk'; intros i2 _.
  split; [apply mk_length|]. apply Forall_mk'; intros m3 _.
  split; [apply mk_length|]. apply Forall_mk'; intros i3 _.
  split; [apply mk_length|]. apply Forall_mk'; intros m4 _.
  apply mk_length.
Qed.

(* with the default component order the component axes have (l+1)(l+2)/2 entries *)
Lemma length_default_comps_aux {B} l (g : nat -> nat -> B) n : n <= S l ->
  2 * length (flat_map (fun xx => map (g xx) (seq 0 (S (l - (l - xx))))) (seq 0 n)) = n * (n + 1).
Proof.
  induction n as [|n IH]; intros Hn; [reflexivity|].
  rewrite seq_S, flat_map_app, app_length. cbn [flat_map plus]. rewrite app_nil_r, map_length, seq_length.
  specialize (IH ltac:(lia)). replace (l - (l - n)) with n by lia. lia.
Qed.
Lemma length_default_comps l : 2 * length (default_comps l) = (l + 1) * (l + 2).
Proof.
  unfold default_comps. cbv zeta.
  pose proof (length_default_comps_aux l
    (fun xx yy => (l - xx, l - (l - xx) - yy, l - (l - xx) - (l - (l - xx) - yy))) (S l) (le_n _)) as H.
  transitivity (S l * (S l + 1)); [exact H | lia].
Qed.
End Shape.
