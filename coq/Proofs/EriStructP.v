(* Proofs/EriStructP.v — structural lemmas for property C04 (electron-repulsion
   integrals): the physicist array is the chemist array with the middle axes
   exchanged (index statement, involution), the shape of the quartet block
   [eri_block], and the eight-fold fill of the four-index assembly: every cell
   (i, j, k, l) of the assembled array is one of the eight permuted images of a
   block that was actually computed for a canonical quartet
   (base_four_symm.py:434-539).  Nothing here depends on the field being a
   field: the statements hold for any carrier.  The recursion proofs live in
   Proofs/TwoElecP.v (another file). *)
From Coq Require Import List Arith Lia Bool.
From GB Require Import Base.Field Base.Tables Base.Blocks Model.Shell Model.Assembly Model.Assembly14
  Model.Overlap Model.TwoElec Model.OneBody.
Import ListNotations.

(* ------------------------------------------------------------------ *)
(* swapax: index statement for any two axes, any (even ragged) array  *)
(* ------------------------------------------------------------------ *)
Section Swap.
Context {A : Type} (azero : A).
Notation R4 := (list (list (list (list A)))).

(* the dimensions of the result are the exchanged dimensions; an index tuple in range of the
   RESULT reads the source at the exchanged tuple *)
Lemma get4_swapax (a b : nat) (blk : R4) x0 x1 x2 x3 :
  let ds := swapl a b (dims4 blk) 0 in
  x0 < nth 0 ds 0 -> x1 < nth 1 ds 0 -> x2 < nth 2 ds 0 -> x3 < nth 3 ds 0 ->
  get4 azero (swapax azero a b blk) x0 x1 x2 x3
  = (let ix := swapl a b [x0; x1; x2; x3] 0 in
     get4 azero blk (nth 0 ix 0) (nth 1 ix 0) (nth 2 ix 0) (nth 3 ix 0)).
Proof.
  intros ds H0 H1 H2 H3. unfold swapax. fold ds. unfold get4 at 1.
  rewrite (nth_mk _ _ _ _ H0), (nth_mk _ _ _ _ H1), (nth_mk _ _ _ _ H2), (nth_mk _ _ _ _ H3).
  reflexivity.
Qed.

(* the case of the physicist convention: axes 1 and 2 *)
Lemma get4_swapax_12 (blk : R4) i j k l :
  i < length blk -> k < length (hd [] blk) -> j < length (hd [] (hd [] blk)) ->
  l < length (hd [] (hd [] (hd [] blk))) ->
  get4 azero (swapax azero 1 2 blk) i j k l = get4 azero blk i k j l.
Proof. intros Hi Hk Hj Hl. now rewrite get4_swapax. Qed.

Lemma length_swapax a b (blk : R4) : length (swapax azero a b blk) = nth 0 (swapl a b (dims4 blk) 0) 0.
Proof. unfold swapax. now rewrite mk_length. Qed.

(* dimensions of the exchanged array (all of d0, d1, d2 positive: an empty axis loses the
   inner lengths in a nested-list representation) *)
Lemma hd_mk {B} n (f : nat -> B) d : hd d (mk (S n) f) = f 0.
Proof. reflexivity. Qed.

Lemma dims4_swapax_12 (blk : R4) d0 d1 d2 d3 :
  dims4 blk = [d0; d1; d2; d3] -> 0 < d0 -> 0 < d1 -> 0 < d2 ->
  dims4 (swapax azero 1 2 blk) = [d0; d2; d1; d3].
Proof.
  intros Hd H0 H1 H2. unfold swapax. rewrite Hd.
  change (swapl 1 2 [d0; d1; d2; d3] 0) with [d0; d2; d1; d3]. cbn [nth].
  destruct d0 as [|d0]; [lia|]. destruct d1 as [|d1]; [lia|]. destruct d2 as [|d2]; [lia|].
  unfold dims4. rewrite !hd_mk, !mk_length. reflexivity.
Qed.

(* exchanging twice gives back every element *)
Lemma get4_swapax_12_twice (blk : R4) i j k l :
  i < length blk -> j < length (hd [] blk) -> k < length (hd [] (hd [] blk)) ->
  l < length (hd [] (hd [] (hd [] blk))) ->
  get4 azero (swapax azero 1 2 (swapax azero 1 2 blk)) i j k l = get4 azero blk i j k l.
Proof.
  intros Hi Hj Hk Hl.
  pose proof (dims4_swapax_12 blk _ _ _ _ eq_refl ltac:(lia) ltac:(lia) ltac:(lia)) as Hd.
  unfold dims4 in Hd. injection Hd as E0 E1 E2 E3.
  rewrite get4_swapax_12 by (rewrite ?E0, ?E1, ?E2, ?E3; assumption).
  now rewrite get4_swapax_12.
Qed.

(* rectangular arrays: list-level involution *)
Definition rect4 (d0 d1 d2 d3 : nat) (b : R4) : Prop :=
  length b = d0 /\ Forall (fun x => length x = d1 /\
    Forall (fun y => length y = d2 /\ Forall (fun z => length z = d3) y) x) b.

Lemma list_ext_nth {B} (d : B) (u v : list B) :
  length u = length v -> (forall i, i < length u -> nth i u d = nth i v d) -> u = v.
Proof.
  revert v. induction u as [|x u IH]; intros [|y v] Hl H; cbn in Hl; try discriminate; [reflexivity|].
  f_equal; [exact (H 0 ltac:(cbn; lia))|].
  apply IH; [lia|]. intros i Hi. exact (H (S i) ltac:(cbn; lia)).
Qed.

Lemma rect4_dims d0 d1 d2 d3 b : rect4 d0 d1 d2 d3 b -> 0 < d0 -> 0 < d1 -> 0 < d2 ->
  dims4 b = [d0; d1; d2; d3].
Proof.
  intros [H0 HF] P0 P1 P2. unfold dims4.
  destruct b as [|x b]; [cbn in H0; lia|]. cbn [hd]. inversion HF as [|? ? [Hx HFx] _]; subst.
  destruct x as [|y x]; [cbn in P1; lia|]. cbn [hd]. inversion HFx as [|? ? [Hy HFy] _]; subst.
  destruct y as [|z y]; [cbn in P2; lia|]. cbn [hd]. inversion HFy as [|? ? Hz _]; subst.
  reflexivity.
Qed.

Lemma swapax_12_involutive d0 d1 d2 d3 (b : R4) :
  rect4 d0 d1 d2 d3 b -> 0 < d0 -> 0 < d1 -> 0 < d2 ->
  swapax azero 1 2 (swapax azero 1 2 b) = b.
Proof.
  intros HR P0 P1 P2. pose proof (rect4_dims _ _ _ _ _ HR P0 P1 P2) as Hd.
  pose proof (dims4_swapax_12 b _ _ _ _ Hd P0 P1 P2) as Hd'.
  destruct HR as [H0 HF]. rewrite Forall_forall in HF.
  assert (L0 : length (swapax azero 1 2 (swapax azero 1 2 b)) = d0).
  { rewrite length_swapax, Hd'. reflexivity. }
  apply (list_ext_nth []); [lia|]. intros i Hi. rewrite L0 in Hi.
  assert (Hin : In (nth i b []) b) by (apply nth_In; lia).
  destruct (HF _ Hin) as [H1 HF1]. rewrite Forall_forall in HF1.
  unfold swapax at 1. rewrite Hd'. change (swapl 1 2 [d0; d2; d1; d3] 0) with [d0; d1; d2; d3].
  cbn [nth]. rewrite nth_mk by assumption.
  apply (list_ext_nth []); [rewrite mk_length; lia|]. intros j Hj. rewrite mk_length in Hj.
  rewrite nth_mk by assumption.
  assert (Hin1 : In (nth j (nth i b []) []) (nth i b [])) by (apply nth_In; lia).
  destruct (HF1 _ Hin1) as [H2 HF2]. rewrite Forall_forall in HF2.
  apply (list_ext_nth []); [rewrite mk_length; lia|]. intros k Hk. rewrite mk_length in Hk.
  rewrite nth_mk by assumption.
  assert (Hin2 : In (nth k (nth j (nth i b []) []) []) (nth j (nth i b []) [])) by (apply nth_In; lia).
  pose proof (HF2 _ Hin2) as H3.
  apply (list_ext_nth azero); [rewrite mk_length; lia|]. intros l Hl. rewrite mk_length in Hl.
  rewrite nth_mk by assumption.
  change (swapl 1 2 [i; j; k; l] 0) with [i; k; j; l]. cbn [nth].
  injection Hd' as E0 E1 E2 E3.
  rewrite get4_swapax_12 by (rewrite ?E0, ?E1, ?E2, ?E3; injection Hd as F0 F1 F2 F3; lia).
  reflexivity.
Qed.
End Swap.

(* ------------------------------------------------------------------ *)
(* physicist = chemist with the middle axes exchanged                  *)
(* ------------------------------------------------------------------ *)
Section Phys.
Context {F : Type} (K : Fops F).

Lemma eri_physicist_is_swap (basis : list (shell F)) (T : option (list (list F))) :
  eri_integral K basis T true = swapax (f0 K) 1 2 (eri_integral K basis T false).
Proof. reflexivity. Qed.

Lemma eri_physicist_entry (basis : list (shell F)) (T : option (list (list F))) i j k l :
  let chem := eri_integral K basis T false in
  i < length chem -> k < length (hd [] chem) -> j < length (hd [] (hd [] chem)) ->
  l < length (hd [] (hd [] (hd [] chem))) ->
  get4 (f0 K) (eri_integral K basis T true) i j k l = get4 (f0 K) chem i k j l.
Proof. intros chem Hi Hk Hj Hl. rewrite eri_physicist_is_swap. now apply get4_swapax_12. Qed.

Lemma eri_physicist_twice_entry (basis : list (shell F)) (T : option (list (list F))) i j k l :
  let chem := eri_integral K basis T false in
  i < length chem -> j < length (hd [] chem) -> k < length (hd [] (hd [] chem)) ->
  l < length (hd [] (hd [] (hd [] chem))) ->
  get4 (f0 K) (swapax (f0 K) 1 2 (eri_integral K basis T true)) i j k l = get4 (f0 K) chem i j k l.
Proof. intros chem Hi Hj Hk Hl. rewrite eri_physicist_is_swap. now apply get4_swapax_12_twice. Qed.
End Phys.

(* ------------------------------------------------------------------ *)
(* shape of the quartet block                                          *)
(* ------------------------------------------------------------------ *)
Lemma Forall_mk' {B} (Q : B -> Prop) n g : (forall j, j < n -> Q (g j)) -> Forall Q (mk n g).
Proof.
  intros H. apply Forall_forall. intros x Hx. unfold mk in Hx. apply in_map_iff in Hx.
  destruct Hx as [j [<- Hj]]. apply in_seq in Hj. apply H. lia.
Qed.

Section Shape.
Context {F : Type} (K : Fops F).

(* [M1][L1][M2][L2][M3][L3][M4][L4] with M = number of segmented contractions (columns of the
   coefficient matrix) and L = number of Cartesian components of the shell *)
Definition shape8 (d1 d2 d3 d4 d5 d6 d7 d8 : nat)
           (b : list (list (list (list (list (list (list (list F)))))))) : Prop :=
  length b = d1 /\ Forall (fun b1 => length b1 = d2 /\ Forall (fun b2 => length b2 = d3 /\
  Forall (fun b3 => length b3 = d4 /\ Forall (fun b4 => length b4 = d5 /\
  Forall (fun b5 => length b5 = d6 /\ Forall (fun b6 => length b6 = d7 /\
  Forall (fun b7 => length b7 = d8) b6) b5) b4) b3) b2) b1) b.

Lemma eri_block_shape (s1 s2 s3 s4 : shell F) :
  shape8 (nseg s1) (length (comps_of s1)) (nseg s2) (length (comps_of s2))
         (nseg s3) (length (comps_of s3)) (nseg s4) (length (comps_of s4))
         (eri_block K s1 s2 s3 s4).
Proof.
  unfold shape8, eri_block. cbv zeta.
  split; [apply mk_length|]. apply Forall_mk'; intros m1 _.
  split; [apply mk_length|]. apply Forall_mk'; intros i1 _.
  split; [apply mk_length|]. apply Forall_mk'; intros m2 _.
  split; [apply mk_length|]. apply Forall_mk'; intros i2 _.
  split; [apply mk_length|]. apply Forall_mk'; intros m3 _.
  split; [apply mk_length|]. apply Forall_mk'; intros i3 _.
  split; [apply mk_length|]. apply Forall_mk'; intros m4 _.
  apply mk_length.
Qed.

(* with the default component order the component axes have (l+1)(l+2)/2 entries *)
Lemma length_default_comps_aux {B} l (g : nat -> nat -> B) n : n <= S l ->
  2 * length (flat_map (fun xx => map (g xx) (seq 0 (S (l - (l - xx))))) (seq 0 n)) = n * (n + 1).
Proof.
  induction n as [|n IH]; intros Hn; [reflexivity|].
  rewrite seq_S, flat_map_app, app_length. cbn [flat_map plus]. rewrite app_nil_r, map_length, seq_length.
  specialize (IH ltac:(lia)). replace (l - (l - n)) with n by lia. lia.
Qed.
Lemma length_default_comps l : 2 * length (default_comps l) = (l + 1) * (l + 2).
Proof.
  unfold default_comps. cbv zeta.
  pose proof (length_default_comps_aux l
    (fun xx yy => (l - xx, l - (l - xx) - yy, l - (l - xx) - (l - (l - xx) - yy))) (S l) (le_n _)) as H.
  transitivity (S l * (S l + 1)); [exact H | lia].
Qed.
End Shape.

(* ------------------------------------------------------------------ *)
(* the eight-fold fill (base_four_symm.py:434-539)                     *)
(* ------------------------------------------------------------------ *)
Section Fill.
Context {A : Type} (azero : A).
Notation R4 := (list (list (list (list A)))).

Lemma key_eqb_eq (x y : key) : key_eqb x y = true <-> x = y.
Proof.
  destruct x as [[[a b] c] d], y as [[[a' b'] c'] d']. unfold key_eqb.
  rewrite !andb_true_iff, !Nat.eqb_eq. split.
  - intros [[[-> ->] ->] ->]. reflexivity.
  - intros E. injection E as -> -> -> ->. auto.
Qed.

Lemma pairs_in n i j : In (i, j) (pairs n) <-> i <= j < n.
Proof.
  unfold pairs. rewrite in_flat_map. split.
  - intros [i' [Hi Hj]]. apply in_seq in Hi. apply in_map_iff in Hj. destruct Hj as [j' [E Hj']].
    injection E as -> ->. apply in_seq in Hj'. lia.
  - intros H. exists i. split; [apply in_seq; lia|]. apply in_map_iff. exists j. split; [reflexivity|].
    apply in_seq. lia.
Qed.

Lemma tails_in {B} (l tl : list B) : In tl (tails l) -> tl <> [] /\ exists pre, l = pre ++ tl.
Proof.
  induction l as [|x r IH]; cbn [tails]; [intros []|]. intros [<-|H].
  - split; [discriminate|]. now exists [].
  - destruct (IH H) as [Hn [pre ->]]. split; [assumption|]. now exists (x :: pre).
Qed.

(* two members of a list: one of them heads a tail that contains the other *)
Lemma tails_cover {B} (l : list B) p q : In p l -> In q l ->
  exists r, (In (p :: r) (tails l) /\ In q (p :: r)) \/ (In (q :: r) (tails l) /\ In p (q :: r)).
Proof.
  induction l as [|x r IH]; [intros []|]. intros Hp Hq. cbn [tails].
  destruct Hp as [<-|Hp].
  - exists r. left. split; [now left|exact Hq].
  - destruct Hq as [<-|Hq].
    + exists r. right. split; [now left|now right].
    + destruct (IH Hp Hq) as [r' [[H1 H2]|[H1 H2]]]; exists r'; [left|right]; (split; [now right|assumption]).
Qed.

(* soundness: whatever is stored was written for a canonical quartet i <= j, k <= l *)
Lemma all_writes_in n (bf : nat -> nat -> nat -> nat -> R4) (x : key) (v : R4) :
  In (x, v) (all_writes azero n bf) ->
  exists i j k l, i <= j < n /\ k <= l < n /\ In (x, v) (writes8 azero i j k l (bf i j k l)).
Proof.
  unfold all_writes. rewrite in_flat_map. intros [tl [Htl Hin]].
  destruct (tails_in _ _ Htl) as [_ [pre Hpre]].
  destruct tl as [|[i j] r]; [destruct Hin|].
  rewrite in_flat_map in Hin. destruct Hin as [[k l] [Hkl Hw]].
  exists i, j, k, l. split; [|split; [|exact Hw]]; apply pairs_in; rewrite Hpre; apply in_or_app; right.
  - now left.
  - exact Hkl.
Qed.

(* completeness: every key below n is written *)
Lemma all_writes_complete n (bf : nat -> nat -> nat -> nat -> R4) a b c d :
  a < n -> b < n -> c < n -> d < n ->
  exists v, In ((a, b, c, d), v) (all_writes azero n bf).
Proof.
  intros Ha Hb Hc Hd.
  set (i := Nat.min a b). set (j := Nat.max a b). set (k := Nat.min c d). set (l := Nat.max c d).
  assert (Hij : In (i, j) (pairs n)) by (apply pairs_in; unfold i, j; lia).
  assert (Hkl : In (k, l) (pairs n)) by (apply pairs_in; unfold k, l; lia).
  assert (Eab : (a, b) = (i, j) \/ (a, b) = (j, i)).
  { unfold i, j. destruct (Nat.le_ge_cases a b);
      [left; rewrite Nat.min_l, Nat.max_r by assumption | right; rewrite Nat.min_r, Nat.max_l by assumption];
      reflexivity. }
  assert (Ecd : (c, d) = (k, l) \/ (c, d) = (l, k)).
  { unfold k, l. destruct (Nat.le_ge_cases c d);
      [left; rewrite Nat.min_l, Nat.max_r by assumption | right; rewrite Nat.min_r, Nat.max_l by assumption];
      reflexivity. }
  clearbody i j k l.
  destruct (tails_cover _ _ _ Hij Hkl) as [r [[Ht Hq]|[Ht Hq]]].
  - (* (k,l) in the tail headed by (i,j): writes8 i j k l *)
    assert (W : forall v, In v (writes8 azero i j k l (bf i j k l)) -> In v (all_writes azero n bf)).
    { intros v Hv. unfold all_writes. apply in_flat_map. exists ((i, j) :: r). split; [exact Ht|].
      apply in_flat_map. exists (k, l). split; assumption. }
    destruct Eab as [E1|E1], Ecd as [E2|E2]; injection E1 as -> ->; injection E2 as -> ->;
      eexists; apply W; unfold writes8.
    + left. reflexivity.
    + right. left. reflexivity.
    + right. right. left. reflexivity.
    + right. right. right. left. reflexivity.
  - (* (i,j) in the tail headed by (k,l): writes8 k l i j, images 5-8 *)
    assert (W : forall v, In v (writes8 azero k l i j (bf k l i j)) -> In v (all_writes azero n bf)).
    { intros v Hv. unfold all_writes. apply in_flat_map. exists ((k, l) :: r). split; [exact Ht|].
      apply in_flat_map. exists (i, j). split; assumption. }
    destruct Eab as [E1|E1], Ecd as [E2|E2]; injection E1 as -> ->; injection E2 as -> ->;
      eexists; apply W; unfold writes8.
    + do 4 right. left. reflexivity.
    + do 6 right. left. reflexivity.
    + do 5 right. left. reflexivity.
    + do 7 right. left. reflexivity.
Qed.

Lemma lookup_in (store : list (key * R4)) (x : key) :
  (exists v, In (x, v) store) -> In (x, lookup store x) store.
Proof.
  intros [v Hv]. unfold lookup.
  destruct (find (fun p => key_eqb (fst p) x) (rev store)) as [p|] eqn:E.
  - apply find_some in E. destruct E as [Hin Hk]. apply key_eqb_eq in Hk. apply in_rev in Hin.
    destruct p as [kx vx]. cbn [fst snd] in *. now subst kx.
  - exfalso. apply in_rev in Hv. pose proof (find_none _ _ E (x, v) Hv) as Hf.
    cbn [fst] in Hf. rewrite (proj2 (key_eqb_eq x x) eq_refl) in Hf. discriminate.
Qed.

(* the cell (a, b, c, d) of the store is one of the eight images of a computed block *)
Lemma lookup_all_writes n (bf : nat -> nat -> nat -> nat -> R4) a b c d :
  a < n -> b < n -> c < n -> d < n ->
  exists i j k l, i <= j < n /\ k <= l < n /\
    In ((a, b, c, d), lookup (all_writes azero n bf) (a, b, c, d)) (writes8 azero i j k l (bf i j k l)).
Proof.
  intros Ha Hb Hc Hd. apply all_writes_in. apply lookup_in. now apply all_writes_complete.
Qed.

(* the images, spelled out: the key is the permuted quartet and the value the block with the
   matching axes exchanged *)
Lemma writes8_images i j k l (blk : R4) x v : In (x, v) (writes8 azero i j k l blk) ->
  (x = (i, j, k, l) /\ v = blk) \/
  (x = (i, j, l, k) /\ v = swapax azero 2 3 blk) \/
  (x = (j, i, k, l) /\ v = swapax azero 0 1 blk) \/
  (x = (j, i, l, k) /\ v = swapax azero 0 1 (swapax azero 2 3 blk)) \/
  (x = (k, l, i, j) /\ v = swapax azero 0 2 (swapax azero 1 3 blk)) \/
  (x = (l, k, i, j) /\ v = swapax azero 0 1 (swapax azero 0 2 (swapax azero 1 3 blk))) \/
  (x = (k, l, j, i) /\ v = swapax azero 2 3 (swapax azero 0 2 (swapax azero 1 3 blk))) \/
  (x = (l, k, j, i) /\ v = swapax azero 0 3 (swapax azero 1 2 blk)).
Proof.
  unfold writes8. cbn [In].
  intros [E|[E|[E|[E|[E|[E|[E|[E|[]]]]]]]]]; injection E as <- <-; tauto.
Qed.
End Fill.

(* ------------------------------------------------------------------ *)
(* the assembled ERI array                                             *)
(* ------------------------------------------------------------------ *)
Section Asm.
Context {F : Type} (K : Fops F).

(* the processed block of the shells (i, j, k, l) of a basis *)
Definition eri_pblock (basis : list (shell F)) (i j k l : nat) : list (list (list (list F))) :=
  let ps := map (prep K) basis in
  let d := dummy_p K in
  let sh_of p := mkSh (s_sph (p_shell p)) (p_T p) (p_norm p) in
  let q x := nth x ps d in
  block4 (f0 K) (fadd K) (fmul K)
    (s_sph (p_shell (q i))) (s_sph (p_shell (q j))) (s_sph (p_shell (q k))) (s_sph (p_shell (q l)))
    (sh_of (q i)) (sh_of (q j)) (sh_of (q k)) (sh_of (q l))
    (eri_block K (p_shell (q i)) (p_shell (q j)) (p_shell (q k)) (p_shell (q l))).

Definition eri_cell (basis : list (shell F)) (a b c d : nat) : list (list (list (list F))) :=
  lookup (all_writes (f0 K) (length basis) (eri_pblock basis)) (a, b, c, d).

Lemma nth_map_dummy {B C} (f : B -> C) (l : list B) (db : B) (dc : C) i :
  i < length l -> nth i (map f l) dc = f (nth i l db).
Proof. intros Hi. rewrite (nth_indep _ dc (f db)) by (now rewrite map_length). apply map_nth. Qed.

Lemma all_writes_ext {A} (az : A) n (f g : nat -> nat -> nat -> nat -> list (list (list (list A)))) :
  (forall i j k l, i < n -> j < n -> k < n -> l < n -> f i j k l = g i j k l) ->
  all_writes az n f = all_writes az n g.
Proof.
  intros H. unfold all_writes.
  assert (E : forall tl, In tl (tails (pairs n)) ->
    match tl with [] => [] | (i, j) :: _ => flat_map (fun '(k, l) => writes8 az i j k l (f i j k l)) tl end
    = match tl with [] => [] | (i, j) :: _ => flat_map (fun '(k, l) => writes8 az i j k l (g i j k l)) tl end).
  { intros tl Htl. destruct (tails_in _ _ Htl) as [_ [pre Hpre]].
    destruct tl as [|[i j] r]; [reflexivity|].
    assert (Hij : i <= j < n) by (apply pairs_in; rewrite Hpre; apply in_or_app; right; now left).
    assert (Hall : forall kl, In kl ((i, j) :: r) -> fst kl <= snd kl < n).
    { intros [k l] Hkl. apply pairs_in. rewrite Hpre. apply in_or_app. now right. }
    revert Hall. generalize ((i, j) :: r). intros L HL.
    induction L as [|[k l] L IH]; [reflexivity|]. cbn [flat_map].
    pose proof (HL (k, l) (or_introl eq_refl)) as Hkl. cbn [fst snd] in Hkl.
    rewrite (H i j k l) by lia. f_equal. apply IH. intros kl Hin. apply HL. now right. }
  induction (tails (pairs n)) as [|tl T IH]; [reflexivity|]. cbn [flat_map].
  rewrite E by now left. f_equal. apply IH. intros t Ht. apply E. now right.
Qed.

(* chemist array without transform = nested concatenation of the cells *)
Lemma eri_integral_cells (basis : list (shell F)) :
  eri_integral K basis None false = four_concat (length basis) (eri_cell basis).
Proof.
  unfold eri_integral, four_symm, eri_cell. cbv zeta. rewrite !map_length.
  rewrite (all_writes_ext (f0 K) (length basis) _ (eri_pblock basis)); [reflexivity|].
  intros i j k l Hi Hj Hk Hl. unfold eri_pblock. cbv zeta.
  rewrite !(nth_map_dummy _ (map (prep K) basis) (dummy_p K)) by (now rewrite map_length).
  reflexivity.
Qed.

(* every cell of the assembled array is one of the eight permuted images of the processed block
   of a canonical quartet (i <= j, k <= l) of shells of the basis *)
Lemma eri_cell_is_image (basis : list (shell F)) a b c d :
  let n := length basis in
  a < n -> b < n -> c < n -> d < n ->
  exists i j k l, i <= j < n /\ k <= l < n /\
    In ((a, b, c, d), eri_cell basis a b c d) (writes8 (f0 K) i j k l (eri_pblock basis i j k l)).
Proof. intros n. unfold eri_cell. apply lookup_all_writes. Qed.
End Asm.

(* with a transform: T is applied to each of the four indices of the untransformed chemist array
   (construct_array_lincomb), and the physicist exchange comes last *)
Lemma eri_integral_transform {F} (K : Fops F) (basis : list (shell F)) (t : list (list F)) :
  eri_integral K basis (Some t) false
  = lincomb4 (f0 K) (fadd K) (fmul K) t (eri_integral K basis None false).
Proof. reflexivity. Qed.

(* ------------------------------------------------------------------ *)
(* the hypotheses above are satisfiable                                *)
(* ------------------------------------------------------------------ *)
(* a 1 x 2 x 3 x 1 array of distinct numbers: rectangular, in-range indices exist, and the
   exchanged array really differs from the source *)
Definition ex_arr : list (list (list (list nat))) := [[[[1]; [2]; [3]]; [[4]; [5]; [6]]]].
Lemma ex_arr_rect : rect4 1 2 3 1 ex_arr /\ 0 < 1 /\ 0 < 2 /\ 0 < 3.
Proof. unfold rect4, ex_arr. repeat (split || constructor || lia). Qed.
Lemma ex_arr_swap :
  0 < length ex_arr /\ 1 < length (hd [] ex_arr) /\ 2 < length (hd [] (hd [] ex_arr)) /\
  0 < length (hd [] (hd [] (hd [] ex_arr))) /\
  get4 0 (swapax 0 1 2 ex_arr) 0 2 1 0 = 6 /\ get4 0 ex_arr 0 1 2 0 = 6 /\
  swapax 0 1 2 ex_arr = [[[[1]; [4]]; [[2]; [5]]; [[3]; [6]]]].
Proof. cbn. repeat split; lia. Qed.

(* a one-shell basis has the cell (0,0,0,0) *)
Lemma ex_cell_range {F} (s : shell F) : let n := length [s] in 0 < n /\ 0 < n /\ 0 < n /\ 0 < n.
Proof. cbn. lia. Qed.
