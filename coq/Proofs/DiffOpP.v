(* Proofs/DiffOpP.v — the padded derivative recursion of _diff_operator_int.py.

   [negA] is minus the derivative of the LEFT primitive with respect to x
   (d/dx [x^i e^{-alpha x^2}] = (i x^{i-1} - 2 alpha x^{i+1}) e^{-alpha x^2}),
   [Bop] the derivative of the RIGHT primitive, both acting on tables
   T : nat -> nat -> F of one-dimensional integrals indexed (i, j).

   diffop_valid : entry (k, j, i) of the table the code builds equals
                  (negA^k S)(i, j) for every i with i + k <= la + D — in
                  particular on the whole returned slice i <= la (the padding
                  argument, for every la, lb, D);
   ibp_iter     : negA^k S = Bop^k S (integration by parts), so the entry is
                  the integral of  phi_a  d^k/dx^k phi_b. *)
From Coq Require Import List Arith Lia Field.
From GB Require Import Base.Field Base.Tables Gauss.Moment1D Model.Shell Model.MomentInt
  Model.DiffOp Proofs.MomentIntP.
Import ListNotations.

Section P.
Context {F : Type} (K : Fops F) (Kf : is_field K).
Add Field KF2 : Kf.
Local Open Scope F_scope.
Notation "0" := (f0 K) : F_scope.
Notation "1" := (f1 K) : F_scope.
Infix "+" := (fadd K) : F_scope.
Infix "*" := (fmul K) : F_scope.
Infix "-" := (fsub K) : F_scope.
Infix "/" := (fdiv K) : F_scope.
Notation "- x" := (fopp K x) : F_scope.
Notation "# n" := (ofnat K n) (at level 5) : F_scope.

Definition tfun := nat -> nat -> F.
Definition negA (alpha : F) (T : tfun) : tfun :=
  fun i j => (1 + 1) * alpha * T (S i) j - #i * T (i - 1)%nat j.
Definition Bop (beta : F) (T : tfun) : tfun :=
  fun i j => #j * T i (j - 1)%nat - (1 + 1) * beta * T i (S j).
Fixpoint iterop (op : tfun -> tfun) (k : nat) (T : tfun) : tfun :=
  match k with O => T | S k' => op (iterop op k' T) end.

Definition peq (T1 T2 : tfun) : Prop := forall i j, T1 i j = T2 i j.

Lemma negA_ext alpha T1 T2 : peq T1 T2 -> peq (negA alpha T1) (negA alpha T2).
Proof. intros H i j. unfold negA. now rewrite !H. Qed.
Lemma Bop_ext beta T1 T2 : peq T1 T2 -> peq (Bop beta T1) (Bop beta T2).
Proof. intros H i j. unfold Bop. now rewrite !H. Qed.
Lemma iterop_ext op k T1 T2 :
  (forall U1 U2, peq U1 U2 -> peq (op U1) (op U2)) -> peq T1 T2 -> peq (iterop op k T1) (iterop op k T2).
Proof. intros Hop H. induction k as [|k IH]; cbn [iterop]; [exact H|]. now apply Hop. Qed.

Lemma negA_Bop_comm alpha beta T : peq (negA alpha (Bop beta T)) (Bop beta (negA alpha T)).
Proof. intros i j. unfold negA, Bop. ring. Qed.

Lemma iterop_shift op k T : iterop op (S k) T = iterop op k (op T).
Proof. induction k as [|k IH]; [reflexivity|]. cbn [iterop] in *. now rewrite IH. Qed.

Lemma negA_iterB_comm alpha beta k T :
  peq (negA alpha (iterop (Bop beta) k T)) (iterop (Bop beta) k (negA alpha T)).
Proof.
  induction k as [|k IH]; cbn [iterop]; [intros i j; reflexivity|].
  intros i j. rewrite negA_Bop_comm. apply Bop_ext. exact IH.
Qed.

(* ---- one axis, one primitive pair ---- *)
Variables (Ax Bx alpha beta : F) (la lb D : nat).
Hypothesis Hp : psum K alpha beta <> 0.
Hypothesis H2 : 1 + 1 <> 0.

Let tp := twop K alpha beta.
Let v := 1 / tp.
Let a := PA K Ax Bx alpha beta.
Let b := PB K Ax Bx alpha beta.
Let B0 := base K Ax Bx alpha beta.
(* the 1-D overlap integrals (moment order 0; the moment centre plays no role) *)
Definition Sfun : tfun := fun i j => B0 * T3 K v a b 0 0 i j.

Lemma ibp : peq (negA alpha Sfun) (Bop beta Sfun).
Proof.
  intros i j. unfold negA, Bop, Sfun.
  pose proof (OS3_a K Kf v a b 0 0 i j) as Ea.
  pose proof (OS3_b K Kf v a b 0 0 i j) as Eb.
  unfold T3. rewrite Ea, Eb. unfold lower, dn.
  assert (Htp : tp <> 0) by (apply (tp_nz K Kf alpha beta Hp H2)).
  assert (Hps : alpha + beta <> 0) by exact Hp.
  destruct i as [|i']; destruct j as [|j']; cbn [ofnat];
    rewrite ?Nat.sub_0_r; cbn [Nat.sub];
    rewrite ?Nat.sub_0_r;
    unfold v, a, b, tp, PA, PB, Pw, twop, psum; field; repeat split; assumption.
Qed.

Theorem ibp_iter k : peq (iterop (negA alpha) k Sfun) (iterop (Bop beta) k Sfun).
Proof.
  induction k as [|k IH]; [intros i j; reflexivity|].
  intros i j. cbn [iterop].
  rewrite (negA_ext alpha _ _ IH i j).
  rewrite (negA_iterB_comm alpha beta k Sfun i j).
  rewrite (iterop_ext (Bop beta) k _ _ (Bop_ext beta) ibp i j).
  now rewrite <- iterop_shift.
Qed.

(* ---- the table ---- *)
Lemma iter_S {A} (f : A -> A) n x : Nat.iter (S n) f x = f (Nat.iter n f x).
Proof. reflexivity. Qed.
Lemma iter_succ_r {A} (f : A -> A) n x : Nat.iter (S n) f x = Nat.iter n f (f x).
Proof. induction n as [|n IH]; [reflexivity|]. rewrite iter_S, IH. reflexivity. Qed.

Lemma diter_nth n cur k : k <= n ->
  nth k (diter K alpha la D n cur) [] = Nat.iter k (dstep K alpha la D) cur.
Proof.
  revert cur k; induction n as [|n IH]; intros cur k Hk.
  - assert (k = 0%nat) by lia. subst. reflexivity.
  - destruct k as [|k]; cbn [diter nth]; [reflexivity|].
    rewrite IH by lia. symmetry. apply iter_succ_r.
Qed.

Lemma diter_length n cur : length (diter K alpha la D n cur) = S n.
Proof. revert cur; induction n as [|n IHn]; intros c; cbn [diter length]; [reflexivity|]. now rewrite IHn. Qed.

Lemma nth_nil {A} n (d : A) : nth n [] d = d.
Proof. destruct n; reflexivity. Qed.

Lemma dstep_length cur : length (dstep K alpha la D cur) = length cur.
Proof. unfold dstep. apply map_length. Qed.

Lemma dstep_nth2 cur j i : j < length cur -> i < ncol la D ->
  nth2 K j i (dstep K alpha la D cur) =
  if Nat.eqb i (la + D) then 0
  else (1 + 1) * alpha * nth2 K j (S i) cur - #i * nth2 K j (i - 1) cur.
Proof.
  intros Hj Hi. unfold nth2, dstep.
  rewrite (nth_indep _ [] (mk (ncol la D) (fun _ => 0))) by (now rewrite map_length).
  set (f := fun row : list F => mk (ncol la D) (fun i0 : nat =>
        if Nat.eqb i0 (la + D) then 0
        else (1 + 1) * alpha * nth (S i0) row 0 - # i0 * nth (i0 - 1) row 0)).
  replace (mk (ncol la D) (fun _ : nat => 0)) with (f []).
  2:{ unfold f. apply mk_ext. intros i0 _. destruct (Nat.eqb i0 (la + D)); [reflexivity|].
      rewrite !nth_nil. ring. }
  rewrite map_nth. unfold f. rewrite nth_mk by assumption. reflexivity.
Qed.

Lemma plane0_len : length (plane0 K Ax Bx alpha beta (la + D) lb) = S lb.
Proof. unfold plane0. apply iter2_length. Qed.

Lemma iter_dstep_len k : length (Nat.iter k (dstep K alpha la D) (plane0 K Ax Bx alpha beta (la + D) lb)) = S lb.
Proof. induction k as [|k IH]; [apply plane0_len|]. rewrite iter_S. now rewrite dstep_length. Qed.

Lemma iter_dstep_correct k : forall j i, j <= lb -> i + k <= la + D ->
  nth2 K j i (Nat.iter k (dstep K alpha la D) (plane0 K Ax Bx alpha beta (la + D) lb))
  = iterop (negA alpha) k Sfun i j.
Proof.
  induction k as [|k IH]; intros j i Hj Hi.
  - cbn [iterop]. change (Nat.iter 0 ?f ?x) with x. unfold nth2, Sfun.
    pose proof (plane0_correct K Kf Ax Bx 0 alpha beta (la + D) lb Hp H2 j Hj i ltac:(lia)) as E.
    rewrite E. reflexivity.
  - cbn [iterop]. rewrite iter_S.
    rewrite dstep_nth2 by (rewrite ?iter_dstep_len; unfold ncol; lia).
    destruct (Nat.eqb_spec i (la + D)) as [E|_]; [lia|].
    rewrite (IH j (S i)) by lia. rewrite (IH j (i - 1)%nat) by lia.
    reflexivity.
Qed.

Theorem diffop_valid k j i : k <= D -> j <= lb -> i + k <= la + D ->
  nth3 K k j i (dtable_full K Ax Bx alpha beta la lb D) = iterop (negA alpha) k Sfun i j.
Proof.
  intros Hk Hj Hi. unfold nth3, dtable_full. rewrite diter_nth by exact Hk.
  now apply iter_dstep_correct.
Qed.

Lemma nth_firstn {A} (l : list A) n i d : i < n -> nth i (firstn n l) d = nth i l d.
Proof. revert n i; induction l as [|x l IH]; intros n i Hi.
  - now rewrite firstn_nil.
  - destruct n; [lia|]. destruct i; cbn; [reflexivity|]. apply IH. lia. Qed.

(* the returned slice [:, :, : la+1] is entirely valid, at every order k <= D *)
Theorem diffop_slice_valid k j i : k <= D -> j <= lb -> i <= la ->
  nth3 K k j i (dtable K Ax Bx alpha beta la lb D) = iterop (negA alpha) k Sfun i j.
Proof.
  intros Hk Hj Hi. rewrite <- diffop_valid by lia.
  unfold nth3, nth2, dtable.
  assert (Hlen : length (dtable_full K Ax Bx alpha beta la lb D) = S D).
  { unfold dtable_full. apply diter_length. }
  rewrite (nth_indep _ [] (map (firstn (S la)) [])) by (rewrite map_length; lia).
  rewrite map_nth.
  set (pl := nth k (dtable_full K Ax Bx alpha beta la lb D) []).
  destruct (Nat.lt_ge_cases j (length pl)) as [Hlt|Hge].
  - rewrite (nth_indep _ [] (firstn (S la) [])) by (now rewrite map_length).
    rewrite map_nth. apply nth_firstn. lia.
  - rewrite (nth_overflow (map _ pl)) by (now rewrite map_length).
    rewrite (nth_overflow pl) by assumption. reflexivity.
Qed.

(* ... and equals the integral of phi_a times the k-th derivative of phi_b *)
Corollary diffop_slice_is_deriv_b k j i : k <= D -> j <= lb -> i <= la ->
  nth3 K k j i (dtable K Ax Bx alpha beta la lb D) = iterop (Bop beta) k Sfun i j.
Proof. intros. rewrite diffop_slice_valid by assumption. apply ibp_iter. Qed.

End P.
