(* Extract/RunScreen.v — runner commands 230-249 (C20, overlap screening). *)
From Coq Require Import ZArith QArith Qcanon List.
From GB Require Import Base.Field Base.FNum Model.Shell Model.MomentInt Model.Spherical
  Model.Assembly Model.Overlap Model.Screening Extract.Sx.
Import ListNotations.

Definition enc_bool (b : bool) : sx := SZ (if b then 1%Z else 0%Z).

Definition run_screen (K : Fops Qc) (c : Z) (args : list sx) : option sx :=
  match c, args with
  (* 230: is_integral_screened(sa, sb, tol) -> (bit d2 cutoff2 min_a min_b); tol = () for None, (t) else *)
  | 230%Z, [tol; sa; sb] =>
      let a := dec_shell sa in let b := dec_shell sb in
      let t := dec_opt dec_q tol in
      Some (SL [enc_bool (is_screened K t a b); enc_q (dist2 K a b);
                enc_q (match t with Some tv => cutoff2 K tv a b | None => qc_of 0 1 end);
                enc_q (min_exp K a); enc_q (min_exp K b)])
  (* 231: overlap_integral(basis, transform, tol_screen) *)
  | 231%Z, [basis; t; tol] =>
      Some (enc2 (overlap_integral_screened K (dec_list dec_shell basis) (dec_opt dec_mat t)
                    (dec_opt dec_q tol)))
  (* 232: Overlap.construct_array_contraction(sa, sb, tol_screen) -> [Ma][La][Mb][Lb] *)
  | 232%Z, [tol; sa; sb] =>
      Some (enc4 (overlap_block_screened K (dec_opt dec_q tol) (dec_shell sa) (dec_shell sb)))
  (* 233: norm_cont of a shell -> [M][L] *)
  | 233%Z, [sa] => Some (enc2 (norm_cont K (dec_shell sa)))
  | _, _ => None
  end.
