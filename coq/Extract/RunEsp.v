(* Extract/RunEsp.v — runner commands 250-269 (C14, electrostatic potential). *)
From Coq Require Import ZArith QArith Qcanon List.
From GB Require Import Base.Field Base.FNum Base.Tables Model.Shell Model.OneBody Model.Esp Extract.Sx.
Import ListNotations.

Definition dec_pt3 (s : sx) : Qc * Qc * Qc :=
  match s with
  | SL [x; y; z] => (dec_q x, dec_q y, dec_q z)
  | _ => (dec_q (SZ 0), dec_q (SZ 0), dec_q (SZ 0))
  end.
Definition enc_b (b : bool) : sx := SZ (if b then 1%Z else 0%Z).

(* per point, per nucleus: (masked d2 d) *)
Definition enc_pairs (K : Fops Qc) (points ncoords : list (Qc * Qc * Qc)) (thr : Qc) : sx :=
  enc_list (fun p => enc_list (fun n =>
    SL [enc_b (masked K thr p n); enc_q (dist2 K p n); enc_q (dist K p n)]) ncoords) points.

Definition run_esp (K : Fops Qc) (c : Z) (args : list sx) : option sx :=
  match c, args with
  (* 250: electrostatic_potential(basis, P, points, nuclear_coords, nuclear_charges, T, thr)
          -> (1 values undefined-bits pairs diagV squareb) or (0) when the call is refused;
          diagV[a][p] = untransformed integral V_aa at point p (for the tolerance scale);
          squareb = the shape hypothesis of the transform theorem holds for the integral array *)
  | 250%Z, [basis; pm; pts; nco; nch; t; thr] =>
      let bs := dec_list dec_shell basis in
      let points := dec_list dec_pt3 pts in
      let ncoords := dec_list dec_pt3 nco in
      let th := dec_q thr in
      let V := point_charge_integral K (unit_neg_points K points) bs None in
      match esp_with K V (nfun_basis bs) (dec_mat pm) points ncoords (dec_list dec_q nch)
                     (dec_opt dec_mat t) th with
      | None => Some (SL [SZ 0])
      | Some v =>
          Some (SL [SZ 1; enc1 v; enc_list enc_b (esp_undefined K points ncoords th);
                    enc_pairs K points ncoords th;
                    enc2 (mk (length V) (fun a => nth a (nth a V []) []));
                    enc_b (squareb (nfun_basis bs) (length points) V)])
      end
  (* 251: the nuclear part alone: (points ncoords ncharges thr) -> (values pairs), values[p] =
          sum over kept nuclei of Z / d  (= - external) *)
  | 251%Z, [pts; nco; nch; thr] =>
      let points := dec_list dec_pt3 pts in
      let ncoords := dec_list dec_pt3 nco in
      let th := dec_q thr in
      let nuclei := combine ncoords (dec_list dec_q nch) in
      Some (SL [enc1 (map (fun p => fopp K (external K th nuclei p)) points);
                enc_pairs K points ncoords th])
  (* 252: the electronic part alone from given integrals: (H P npoints) -> [hartree p] *)
  | 252%Z, [h; pm; np] =>
      let H := dec_list dec_mat h in
      Some (enc1 (mk (dec_nat np) (fun p => hartree K H (dec_mat pm) p)))
  (* 253: the argument checks alone: (nf P ncoords ncharges T thr) -> 1 accepted / 0 refused *)
  | 253%Z, [nf; pm; nco; nch; t; thr] =>
      Some (enc_b (match esp_with K [] (dec_nat nf) (dec_mat pm) [] (dec_list dec_pt3 nco)
                                  (dec_list dec_q nch) (dec_opt dec_mat t) (dec_q thr) with
                   | Some _ => true | None => false end))
  | _, _ => None
  end.
