(* Extract/Sx.v — the wire format between the harness and the model: a tiny
   S-expression type.  Decoding happens in Coq so that the OCaml glue is only a
   parser/printer of this type and the same decoder runs under vm_compute. *)
From Coq Require Import ZArith QArith Qcanon List.
From GB Require Import Base.Field Model.Shell.
Import ListNotations.

Inductive sx := SZ (z : Z) | SQ (n : Z) (d : positive) | SL (l : list sx).

Definition dec_q (s : sx) : Qc :=
  match s with SZ z => qc_of z 1 | SQ n d => qc_of n d | SL _ => qc_of 0 1 end.
Definition dec_nat (s : sx) : nat :=
  match s with SZ z => Z.to_nat z | _ => O end.
Definition dec_bool (s : sx) : bool :=
  match s with SZ z => negb (Z.eqb z 0) | _ => false end.
Definition dec_list {A} (f : sx -> A) (s : sx) : list A :=
  match s with SL l => map f l | _ => [] end.
Definition dec_opt {A} (f : sx -> A) (s : sx) : option A :=
  match s with SL [x] => Some (f x) | _ => None end.
Definition dec_comp (s : sx) : comp :=
  match s with SL [a; b; c] => (dec_nat a, dec_nat b, dec_nat c) | _ => (O, O, O) end.
Definition dec_label (s : sx) : label :=
  match s with SL [a; b; c] => (dec_bool a, dec_bool b, dec_nat c) | _ => (false, false, O) end.
Definition dec_mat (s : sx) : list (list Qc) := dec_list (dec_list dec_q) s.

(* (l (x y z) (exps) ((c11 c12 ..) ..) sph (comps) (labels)) *)
Definition dec_shell (s : sx) : shell Qc :=
  match s with
  | SL [l; SL [x; y; z]; es; cs; sph; comps; labels] =>
      mkShell Qc (dec_nat l) (dec_q x) (dec_q y) (dec_q z) (dec_list dec_q es) (dec_mat cs)
              (dec_bool sph) (dec_list dec_comp comps) (dec_list dec_label labels)
  | _ => mkShell Qc O (qc_of 0 1) (qc_of 0 1) (qc_of 0 1) [] [] false [] []
  end.

Definition enc_q (x : Qc) : sx := SQ (qc_num x) (qc_den x).
Definition enc_nat (n : nat) : sx := SZ (Z.of_nat n).
Definition enc_list {A} (f : A -> sx) (l : list A) : sx := SL (map f l).
Definition enc1 := enc_list enc_q.
Definition enc2 := enc_list enc1.
Definition enc3 := enc_list enc2.
Definition enc4 := enc_list enc3.
Definition enc5 := enc_list enc4.

Fixpoint sx_eqb (a b : sx) : bool :=
  match a, b with
  | SZ x, SZ y => Z.eqb x y
  | SQ n d, SQ m e => Z.eqb n m && Pos.eqb d e
  | SL l, SL k =>
      (fix go (l k : list sx) : bool :=
         match l, k with
         | [], [] => true
         | x :: l', y :: k' => sx_eqb x y && go l' k'
         | _, _ => false
         end) l k
  | _, _ => false
  end.
