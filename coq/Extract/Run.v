(* Extract/Run.v — the single entry point of the executable model:
   [run K cmd] decodes a command, runs the model at the exact rationals with
   the transcendental closures of [K], and encodes the result. *)
From Coq Require Import ZArith QArith Qcanon List.
From GB Require Import Base.Field Base.FNum Model.Shell Model.MomentInt Model.Spherical
  Model.Assembly Model.Overlap Extract.Sx Extract.RunScreen.
Import ListNotations.

Definition err (code : Z) : sx := SL [SZ (-1); SZ code].

(* Each area contributes a partial dispatcher [Z -> list sx -> option sx];
   command codes: core integrals 1-99, others see notes/AGENT_GUIDE.md. *)
Definition run_core (K : Fops Qc) (c : Z) (args : list sx) : option sx :=
  match c, args with
  (* 1: Overlap.construct_array_contraction(sa, sb) -> [Ma][La][Mb][Lb] *)
  | 1%Z, [sa; sb] => Some (enc4 (overlap_block K (dec_shell sa) (dec_shell sb)))
  (* 2: overlap_integral(basis, transform) *)
  | 2%Z, [basis; t] =>
      Some (enc2 (overlap_integral K (dec_list dec_shell basis) (dec_opt dec_mat t)))
  (* 3: overlap_integral_asymmetric(b1, b2, t1, t2) *)
  | 3%Z, [b1; b2; t1; t2] =>
      Some (enc2 (overlap_integral_asymm K (dec_list dec_shell b1) (dec_list dec_shell b2)
                (dec_opt dec_mat t1) (dec_opt dec_mat t2)))
  (* 4: generate_transformation(l, comps, labels, "left") *)
  | 4%Z, [l; comps; labels] =>
      Some (enc2 (sph_transform K (dec_nat l) (dec_list dec_comp comps) (dec_list dec_label labels)))
  (* 5: _compute_multipole_moment_integrals(C, orders, sa, sb) -> [D][Ma][La][Mb][Lb] *)
  | 5%Z, [SL [cx; cy; cz]; orders; sa; sb] =>
      Some (enc5 (mm_block K (dec_q cx) (dec_q cy) (dec_q cz) (dec_list dec_comp orders)
                (dec_shell sa) (dec_shell sb)))
  | _, _ => None
  end.

Definition dispatchers : list (Fops Qc -> Z -> list sx -> option sx) :=
  [run_core; run_screen].

Definition run (K : Fops Qc) (cmd : sx) : sx :=
  match cmd with
  | SL (SZ c :: args) =>
      match fold_left (fun acc d => match acc with Some r => Some r | None => d K c args end)
                      dispatchers None with
      | Some r => r
      | None => err 2
      end
  | _ => err 1
  end.
