(* Extract/Extract.v — extraction of the runner.  Directives used: exactly those
   of the two standard files ExtrOcamlBasic and ExtrOcamlZBigInt; none of ours. *)
From Coq Require Import Extraction ExtrOcamlBasic ExtrOcamlZBigInt.
From GB Require Import Base.Field Extract.Sx Extract.Run.
Extraction Language OCaml.
Extraction "model.ml" run QcK qc_of sx_eqb.
