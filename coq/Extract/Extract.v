(* Extract/Extract.v — extraction of the runner.  Directives used: those of the two
   standard files ExtrOcamlBasic and ExtrOcamlZBigInt, plus ONE of ours: Z.gcd is mapped
   to zarith's gcd (both return the non-negative gcd, gcd 0 0 = 0).  The in-Coq
   vm_compute cross-check of the harness re-evaluates sampled cases without it. *)
From Coq Require Import ZArith Extraction ExtrOcamlBasic ExtrOcamlZBigInt.
From GB Require Import Base.Field Extract.Sx Extract.Run.
Extract Constant Z.gcd => "Big_int_Z.gcd_big_int".
Extraction Language OCaml.
Extraction "model.ml" run QcK qc_of sx_eqb.
