(* Extract/RunEval.v — runner commands 100-119: basis-function values and derivatives (C05). *)
From Coq Require Import ZArith QArith Qcanon List.
From GB Require Import Base.Field Base.FNum Model.Shell Model.Overlap Model.Eval Extract.Sx.
Import ListNotations.

Definition dec_point (s : sx) : Qc * Qc * Qc :=
  match s with
  | SL [x; y; z] => (dec_q x, dec_q y, dec_q z)
  | _ => (qc_of 0 1, qc_of 0 1, qc_of 0 1)
  end.
(* deriv_type: 0 = "general", 1 = "direct", anything else = a name the code does not know *)
Definition dec_backend (s : sx) : backend :=
  match s with SZ 0%Z => General | SZ 1%Z => Direct | _ => OtherBackend end.
Definition rejected : sx := SL [SZ (-3)].
Definition enc_opt {A} (f : A -> sx) (o : option A) : sx :=
  match o with Some x => f x | None => rejected end.

Definition run_eval (K : Fops Qc) (c : Z) (args : list sx) : option sx :=
  match c, args with
  (* 100: EvalDeriv.construct_array_contraction(shell, points, orders, deriv_type) -> [M][L][N] | rejected *)
  | 100%Z, [s; pts; o; bk] =>
      Some (enc_opt enc3 (eval_block K (dec_shell s) (dec_list dec_point pts) (dec_comp o) (dec_backend bk)))
  (* 101: evaluate_deriv_basis(basis, points, orders, transform, deriv_type) -> [K][N] | rejected *)
  | 101%Z, [basis; pts; o; t; bk] =>
      Some (enc_opt enc2 (evaluate_deriv_basis_model K (dec_list dec_shell basis) (dec_list dec_point pts)
                            (dec_comp o) (dec_opt dec_mat t) (dec_backend bk)))
  (* 102: evaluate_basis(basis, points, transform) -> [K][N] *)
  | 102%Z, [basis; pts; t] =>
      Some (enc2 (evaluate_basis_model K (dec_list dec_shell basis) (dec_list dec_point pts) (dec_opt dec_mat t)))
  (* 103: sum of |terms| behind each entry of 101 (tolerance scale) -> [K][N];
          nog = 1: the same with every Gaussian factor replaced by 1 *)
  | 103%Z, [basis; pts; o; t; nog] =>
      Some (enc2 (evaluate_scale_model K (dec_bool nog) (dec_list dec_shell basis)
                    (dec_list dec_point pts) (dec_comp o) (dec_opt dec_mat t)))
  (* 104: sum of |terms| behind each entry of 100 -> [M][L][N] *)
  | 104%Z, [s; pts; o; nog] =>
      Some (enc3 (block_scale K (dec_bool nog) (dec_shell s) (dec_list dec_point pts) (dec_comp o)))
  (* 105: one axis: (n, l, alpha, x, has1, has2) -> (u, deriv_general, deriv_direct) *)
  | 105%Z, [n; l; a; x; h1; h2] =>
      Some (enc1 [u K (dec_q a) (dec_nat l) (dec_nat n) (dec_q x);
                  deriv_general K (dec_nat n) (dec_nat l) (dec_q a) (dec_q x);
                  deriv_direct K (dec_bool h1) (dec_bool h2) (dec_nat n) (dec_nat l) (dec_q a) (dec_q x)])
  (* 106: (Overlap.norm_cont, Eval.norm_cont_diag) of one shell: must be identical *)
  | 106%Z, [s] =>
      Some (SL [enc2 (norm_cont K (dec_shell s)); enc2 (norm_cont_diag K (dec_shell s))])
  | _, _ => None
  end.
