(* Extract/RunC19.v — runner commands of property C19 (codes 210-229).
   210: (210 (objs) (shells) err (ops)) -> ((kind first changed) ..) (final objs) (final shells) err (fresh ..)
   The decoders are structural: sx and Effects.val are the same tree type. *)
From Coq Require Import ZArith QArith Qcanon List.
From GB Require Import Base.Field Model.Effects Extract.Sx.
Import ListNotations.
Open Scope Z_scope.

Fixpoint val_of_sx (s : sx) : val :=
  match s with
  | SZ z => VZ z
  | SQ n d => VQ n d
  | SL l => VL (map val_of_sx l)
  end.
Fixpoint sx_of_val (v : val) : sx :=
  match v with
  | VZ z => SZ z
  | VQ n d => SQ n d
  | VL l => SL (map sx_of_val l)
  end.

Definition dec_err (s : sx) : errstate :=
  match s with
  | SL [SZ d; SZ o; SZ u; SZ i; SZ c] => mkErr (mode_of_code d) (mode_of_code o) (mode_of_code u) (mode_of_code i) c
  | _ => mkErr Warn Warn Ignore Warn 0
  end.
Definition enc_err (e : errstate) : sx := sx_of_val (err_val e).

(* (angmom coord exps coeffs ctype): a shell as constructed, i.e. with a fresh norm_cont *)
Definition dec_shell19 (s : sx) : shell :=
  match s with
  | SL [a; c; e; k; t] =>
      construct norm_free (val_of_sx a) (val_of_sx c) (val_of_sx e) (val_of_sx k) (val_of_sx t)
  | _ => construct norm_free (VZ 0) (VL []) (VL []) (VL []) (VL [])
  end.
Definition enc_shell19 (s : shell) : sx := sx_of_val (shell_val s).

Definition dec_arg (s : sx) : arg :=
  match s with
  | SL [SZ 0; SZ i] => AObj (Z.to_nat i)
  | SL [SZ 1; v] => AImm (val_of_sx v)
  | _ => AImm (VL [])
  end.
Definition dec_field (z : Z) : field :=
  match z with 0 => FAngmom | 1 => FCoord | 2 => FExps | 3 => FCoeffs | _ => FCtype end.
Definition dec_op (s : sx) : op :=
  match s with
  | SL [SZ 0; SZ f; SL args] => Call f (map dec_arg args)
  | SL [SZ 1; SZ sh; SZ fld; v] => Update (Z.to_nat sh) (dec_field fld) (val_of_sx v)
  | SL [SZ 2; SZ sh] => AssignNorm (Z.to_nat sh)
  | SL [SZ 3; e] => SetErr (dec_err e)
  | _ => SetErr (mkErr Warn Warn Ignore Warn (-1))
  end.

Definition enc_bool (b : bool) : sx := SZ (if b then 1 else 0).

Definition run_effects (K : Fops Qc) (c : Z) (args : list sx) : option sx :=
  match c, args with
  | 210, [SL objs; SL shells; e; SL ops] =>
      let w := mkWorld (map val_of_sx objs) (map dec_shell19 shells) (dec_err e) in
      let '(po, wf, fr) := predict w (map dec_op ops) in
      Some (SL [SL (map (fun '(k, i, ch) => SL [SZ k; SZ (Z.of_nat i); enc_bool ch]) po);
                SL (map sx_of_val (w_objs wf));
                SL (map enc_shell19 (w_shells wf));
                enc_err (w_err wf);
                SL (map enc_bool fr)])
  | _, _ => None
  end.
