(* Extract/RunC10.v — runner commands 170-189 (property C10): the exact
   r*sqrt(q) model of generate_transformation (Model/SphExact.v).
   Strings travel as lists of character codes; a code outside 0..255 is mapped
   to character 255, which occurs in no valid label. *)
From Coq Require Import ZArith NArith QArith Qcanon List String Ascii.
From GB Require Import Base.Field Model.Shell Model.SphExact Extract.Sx.
Import ListNotations.
Local Open Scope list_scope.

Definition dec_char (s : sx) : ascii :=
  match s with
  | SZ z => if (Z.leb 0 z && Z.ltb z 256)%bool then ascii_of_N (Z.to_N z) else ascii_of_N 255
  | _ => ascii_of_N 255
  end.
Fixpoint string_of_chars (l : list ascii) : string :=
  match l with [] => EmptyString | c :: l' => String c (string_of_chars l') end.
Definition dec_string (s : sx) : string := string_of_chars (dec_list dec_char s).
Fixpoint chars_of_string (s : string) : list ascii :=
  match s with EmptyString => [] | String c s' => c :: chars_of_string s' end.
Definition enc_string (s : string) : sx :=
  SL (map (fun c => SZ (Z.of_N (N_of_ascii c))) (chars_of_string s)).

Definition enc_surd (s : surd) : sx := SL [enc_q (fst s); enc_q (snd s)].
Definition enc_comp (c : comp) : sx :=
  let '(x, y, z) := c in SL [enc_nat x; enc_nat y; enc_nat z].

Definition run_c10 (K : Fops Qc) (c : Z) (args : list sx) : option sx :=
  match c, args with
  (* 170: generate_transformation(l, comps, label strings, side: 0 = left, 1 = right)
          -> () when rejected, ((rows)) when accepted; an entry is (r q) = r*sqrt(q) *)
  | 170%Z, [l; comps; labels; sd] =>
      Some (match generate_transformation (dec_nat l) (dec_list dec_comp comps) (dec_list dec_string labels)
                    (if dec_bool sd then SRight else SLeft) with
            | None => SL []
            | Some M => SL [enc_list (enc_list enc_surd) M]
            end)
  (* 171: default conventions of a shell: (components, label strings) *)
  | 171%Z, [l] =>
      Some (SL [enc_list enc_comp (default_comps (dec_nat l));
                enc_list enc_string (default_label_strings (dec_nat l))])
  (* 172: the Boolean checker of Props/C10.v (cross-check of the extraction) *)
  | 172%Z, [l] => Some (SZ (if check_l (dec_nat l) then 1 else 0))
  | _, _ => None
  end.
