(* Extract/RunCore.v — runner commands 1-99: the core integral models. *)
From Coq Require Import ZArith QArith Qcanon List.
From GB Require Import Base.Field Base.FNum Model.Shell Model.MomentInt Model.Spherical
  Model.Assembly Model.Overlap Model.DiffOp Model.OneElec Model.TwoElec Model.OneBody Extract.Sx.
Import ListNotations.

Definition err (code : Z) : sx := SL [SZ (-1); SZ code].

(* Each area contributes a partial dispatcher [Z -> list sx -> option sx];
   command codes: core integrals 1-99, others see notes/AGENT_GUIDE.md. *)
Definition dec_pt (s : sx) : Qc * Qc * Qc * Qc :=
  match s with
  | SL [x; y; z; q] => (dec_q x, dec_q y, dec_q z, dec_q q)
  | _ => (dec_q (SZ 0), dec_q (SZ 0), dec_q (SZ 0), dec_q (SZ 0))
  end.

(* 0..7 = electron_repulsion.py::_ORIENTATIONS in source order *)
Definition orient_of_nat (n : nat) : option orient :=
  match n with
  | 0 => Some O_abcd | 1 => Some O_bacd | 2 => Some O_abdc | 3 => Some O_badc
  | 4 => Some O_cdab | 5 => Some O_dcab | 6 => Some O_cdba | 7 => Some O_dcba
  | _ => None
  end%nat.

Definition run_core (K : Fops Qc) (c : Z) (args : list sx) : option sx :=
  match c, args with
  (* 1: Overlap.construct_array_contraction(sa, sb) -> [Ma][La][Mb][Lb] *)
  | 1%Z, [sa; sb] => Some (enc4 (overlap_block K (dec_shell sa) (dec_shell sb)))
  (* 2: overlap_integral(basis, transform) *)
  | 2%Z, [basis; t] =>
      Some (enc2 (overlap_integral K (dec_list dec_shell basis) (dec_opt dec_mat t)))
  (* 3: overlap_integral_asymmetric(b1, b2, t1, t2) *)
  | 3%Z, [b1; b2; t1; t2] =>
      Some (enc2 (overlap_integral_asymm K (dec_list dec_shell b1) (dec_list dec_shell b2)
                (dec_opt dec_mat t1) (dec_opt dec_mat t2)))
  (* 4: generate_transformation(l, comps, labels, "left") *)
  | 4%Z, [l; comps; labels] =>
      Some (enc2 (sph_transform K (dec_nat l) (dec_list dec_comp comps) (dec_list dec_label labels)))
  (* 5: _compute_multipole_moment_integrals(C, orders, sa, sb) -> [D][Ma][La][Mb][Lb] *)
  | 5%Z, [SL [cx; cy; cz]; orders; sa; sb] =>
      Some (enc5 (mm_block K (dec_q cx) (dec_q cy) (dec_q cz) (dec_list dec_comp orders)
                (dec_shell sa) (dec_shell sb)))
  (* 6/7: kinetic block / kinetic_energy_integral *)
  | 6%Z, [sa; sb] => Some (enc4 (kinetic_block K (dec_shell sa) (dec_shell sb)))
  | 7%Z, [basis; t] =>
      Some (enc2 (kinetic_integral K (dec_list dec_shell basis) (dec_opt dec_mat t)))
  (* 8/9: Moment.construct_array_contraction / moment_integral -> [..][..][D] *)
  | 8%Z, [SL [cx; cy; cz]; orders; sa; sb] =>
      Some (enc5 (moment_block K (dec_q cx) (dec_q cy) (dec_q cz) (dec_list dec_comp orders)
                (dec_shell sa) (dec_shell sb)))
  | 9%Z, [SL [cx; cy; cz]; orders; basis; t] =>
      Some (enc3 (moment_integral K (dec_q cx) (dec_q cy) (dec_q cz) (dec_list dec_comp orders)
                (dec_list dec_shell basis) (dec_opt dec_mat t)))
  (* 10/11: momentum block / integral, real part R of -i R *)
  | 10%Z, [sa; sb] => Some (enc5 (momentum_block_re K (dec_shell sa) (dec_shell sb)))
  | 11%Z, [basis; t] =>
      Some (enc3 (momentum_integral_re K (dec_list dec_shell basis) (dec_opt dec_mat t)))
  (* 12/13: angular momentum block / integral, real part R of -i R *)
  | 12%Z, [sa; sb] => Some (enc5 (angmom_block_re K (dec_shell sa) (dec_shell sb)))
  | 13%Z, [basis; t] =>
      Some (enc3 (angmom_integral_re K (dec_list dec_shell basis) (dec_opt dec_mat t)))
  (* 14/15/16: point-charge block / point_charge_integral / nuclear attraction;
     points = ((x y z q) ...) *)
  | 14%Z, [pts; sa; sb] =>
      Some (enc5 (point_charge_block K (dec_list dec_pt pts) (dec_shell sa) (dec_shell sb)))
  | 15%Z, [pts; basis; t] =>
      Some (enc3 (point_charge_integral K (dec_list dec_pt pts) (dec_list dec_shell basis)
                (dec_opt dec_mat t)))
  | 16%Z, [pts; basis; t] =>
      Some (enc2 (nuclear_attraction_integral K (dec_list dec_pt pts) (dec_list dec_shell basis)
                (dec_opt dec_mat t)))
  (* 20: ElectronRepulsionIntegral.construct_array_contraction -> [M1][L1][M2][L2][M3][L3][M4][L4]
     21: electron_repulsion_integral(basis, T, notation) (0 chemist, 1 physicist) *)
  | 20%Z, [s1; s2; s3; s4] =>
      Some (enc_list (enc_list (enc_list (enc_list enc4)))
              (eri_block K (dec_shell s1) (dec_shell s2) (dec_shell s3) (dec_shell s4)))
  | 21%Z, [basis; t; nota] =>
      Some (enc4 (eri_integral K (dec_list dec_shell basis) (dec_opt dec_mat t) (dec_bool nota)))
  (* 22: the block evaluated for orientation o = 0..7 of the quartet and transposed back
     (eri_block_oriented: what construct_array_contraction returns when its estimate picks o) *)
  | 22%Z, [o; s1; s2; s3; s4] =>
      match orient_of_nat (dec_nat o) with
      | Some oo =>
          Some (enc_list (enc_list (enc_list (enc_list enc4)))
                  (eri_block_oriented K oo (dec_shell s1) (dec_shell s2) (dec_shell s3) (dec_shell s4)))
      | None => None
      end
  | _, _ => None
  end.

