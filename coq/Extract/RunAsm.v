(* Extract/RunAsm.v — runner commands 150-169: the assembly models on caller-supplied
   (labelled) blocks, norms and transforms.  Element type: Qc (holding integers in
   the labelled checks). *)
From Coq Require Import ZArith QArith Qcanon List Bool.
From GB Require Import Base.Field Base.Tables Base.Blocks Model.Assembly Model.Assembly14 Extract.Sx.
Import ListNotations.

Definition dec_sh (s : sx) : @sh Qc :=
  match s with
  | SL [sph; t; n] => mkSh (dec_bool sph) (dec_mat t) (dec_mat n)
  | _ => mkSh false [] []
  end.
Definition dec_b2 := dec_list (dec_list dec_mat).                      (* [m][c] of matrices: 4 levels *)
Definition dec_b4 := dec_list (dec_list (dec_list (dec_list dec_b2))). (* 8 levels *)

Section R.
Variable K : Fops Qc.
Let z := f0 K. Let ad := fadd K. Let sc := fmul K.

Definition all_cart (ss : list (@sh Qc)) := forallb (fun s => negb (sh_sph s)) ss.
Definition all_sph (ss : list (@sh Qc)) := forallb (fun s => sh_sph s) ss.
(* construct_array_lincomb's dispatch (base_two_symm.py:396-405, base_two_asymm.py:426-446) *)
Definition dispatch (ss : list (@sh Qc)) : nat :=
  if all_cart ss then 0%nat else if all_sph ss then 1%nat else 2%nat.
Definition dispatch2 (s1 s2 : list (@sh Qc)) : nat :=
  if all_cart s1 && all_cart s2 then 0%nat else if all_sph s1 && all_sph s2 then 1%nat else 2%nat.

Definition run_asm (c : Z) (args : list sx) : option sx :=
  match c, args with
  (* 150: BaseOneIndex; mode 0 cartesian, 1 spherical, 2 mix, 3 lincomb *)
  | 150%Z, [mode; shells; blocks; t] =>
      let l := combine (dec_list dec_sh shells) (dec_list dec_mat blocks) in
      Some (enc1 (match dec_nat mode with
        | 0%nat => one_cartesian sc l
        | 1%nat => one_spherical z ad sc l
        | 2%nat => one_mix z ad sc l
        | _ => one_lincomb z ad sc (dec_mat t) l
        end))
  (* 151: BaseTwoIndexSymmetric *)
  | 151%Z, [mode; shells; blocks; t] =>
      let ss := dec_list dec_sh shells in
      let bl := dec_list (dec_list dec_b2) blocks in
      let bf i j := nth j (nth i bl []) [] in
      let md := dec_nat mode in
      Some (enc2 (match md with
        | 3%nat => lincomb2n z ad sc (Some (dec_mat t)) (Some (dec_mat t)) (two_symm_n z ad sc (dispatch ss) ss bf)
        | _ => two_symm_n z ad sc md ss bf
        end))
  (* 152: BaseTwoIndexAsymmetric *)
  | 152%Z, [mode; shells1; shells2; blocks; t1; t2] =>
      let ss1 := dec_list dec_sh shells1 in let ss2 := dec_list dec_sh shells2 in
      let bl := dec_list (dec_list dec_b2) blocks in
      let bf i j := nth j (nth i bl []) [] in
      let md := dec_nat mode in
      Some (enc2 (match md with
        | 3%nat => lincomb2n z ad sc (dec_opt dec_mat t1) (dec_opt dec_mat t2)
                 (two_asymm_n z ad sc (dispatch2 ss1 ss2) ss1 ss2 bf)
        | _ => two_asymm_n z ad sc md ss1 ss2 bf
        end))
  (* 153: BaseFourIndexSymmetric *)
  | 153%Z, [mode; shells; blocks; t] =>
      let ss := dec_list dec_sh shells in
      let bl := dec_list (dec_list (dec_list (dec_list dec_b4))) blocks in
      let bf i j k l := nth l (nth k (nth j (nth i bl []) []) []) [] in
      let md := dec_nat mode in
      Some (enc4 (match md with
        | 3%nat => lincomb4 z ad sc (dec_mat t) (four_symm z ad sc (dispatch ss) ss bf)
        | _ => four_symm z ad sc md ss bf
        end))
  (* 154: the two-index symmetric model used by the integral models
     (Assembly.shell_block / two_symm_blocks / lincomb2), mix path *)
  | 154%Z, [shells; blocks; t] =>
      let ss := dec_list dec_sh shells in
      let bl := dec_list (dec_list dec_b2) blocks in
      let d := mkSh false [] [] in
      let m := two_symm_blocks z (length ss) (fun i j =>
        let s1 := nth i ss d in let s2 := nth j ss d in
        shell_block K z ad sc (sh_sph s1) (sh_sph s2) (sh_T s1) (sh_T s2) (sh_n s1) (sh_n s2)
          (nth j (nth i bl []) [])) in
      Some (enc2 (match dec_opt dec_mat t with Some tm => lincomb2 z ad sc tm tm m | None => m end))
  (* 155: same for the asymmetric class *)
  | 155%Z, [shells1; shells2; blocks; t1; t2] =>
      let ss1 := dec_list dec_sh shells1 in let ss2 := dec_list dec_sh shells2 in
      let bl := dec_list (dec_list dec_b2) blocks in
      let d := mkSh false [] [] in
      let m := two_asymm_blocks (length ss1) (length ss2) (fun i j =>
        let s1 := nth i ss1 d in let s2 := nth j ss2 d in
        shell_block K z ad sc (sh_sph s1) (sh_sph s2) (sh_T s1) (sh_T s2) (sh_n s1) (sh_n s2)
          (nth j (nth i bl []) [])) in
      Some (enc2 (match dec_opt dec_mat t1, dec_opt dec_mat t2 with
                  | Some a, Some b => lincomb2 z ad sc a b m
                  | _, _ => m end))
  | _, _ => None
  end.
End R.
