(* Gauss/GaussInt.v — the value of the Gaussian integral,  int_R e^{-x^2} dx = sqrt PI,
   by the classical one-variable argument (no double integral):
       A(t) = int_0^t e^{-x^2} dx,     G(t) = int_0^1 e^{-t^2 (1+x^2)} / (1+x^2) dx,
       d/dt [A(t)^2 + G(t)] = 0,       A(0)^2 + G(0) = atan 1 = PI/4,      0 <= G(t) <= e^{-t^2} -> 0,
   so (2 A(t))^2 -> PI; and 2 A(t) = int_{-t}^{t} -> the improper integral, which exists by
   BridgeR.gaussian_integral_exists and is positive.  Differentiation under the integral sign is
   Coquelicot's [is_derive_RInt_param].  With this, bridge (B1) of DESIGN.md 2.6 holds without any
   hypothesis ([bridge_B1_closed]). *)
From Coq Require Import Reals Lra Lia List.
From Coquelicot Require Import Coquelicot.
From GB Require Import Base.Field Gauss.Moment1D Gauss.Bridge Gauss.DerivBridge Gauss.BridgeR.
Import ListNotations.
Open Scope R_scope.

Definition ug (x : R) : R := exp (- x ^ 2).
Definition uA (t : R) : R := RInt ug 0 t.
Definition uh (t x : R) : R := exp (- t ^ 2 * (1 + x ^ 2)) / (1 + x ^ 2).
Definition uk (t x : R) : R := - 2 * t * exp (- t ^ 2 * (1 + x ^ 2)).
Definition uG (t : R) : R := RInt (uh t) 0 1.

Lemma scal_R (a b : R) : scal a b = a * b.
Proof. reflexivity. Qed.

Lemma one_plus_sq_pos x : 0 < 1 + x ^ 2.
Proof. cbn [pow]. nra. Qed.

Lemma ug_continuous x : continuous ug x.
Proof. apply (ex_derive_continuous ug x). unfold ug. auto_derive. exact I. Qed.

Lemma ug_ex a b : ex_RInt ug a b.
Proof. apply (ex_RInt_continuous ug a b). intros z _. apply ug_continuous. Qed.

Lemma uA_derive t : is_derive uA t (ug t).
Proof.
  apply (is_derive_RInt ug uA 0 t).
  - apply filter_forall. intro b. apply (RInt_correct ug 0 b). apply ug_ex.
  - apply ug_continuous.
Qed.

Lemma uh_derive_t t x : is_derive (fun z => uh z x) t (uk t x).
Proof.
  unfold uh, uk. auto_derive.
  - pose proof (one_plus_sq_pos x). cbn [pow] in *. lra.
  - pose proof (one_plus_sq_pos x). cbn [pow] in *. field. lra.
Qed.

Lemma uh_continuous_x t x : continuous (uh t) x.
Proof.
  apply (ex_derive_continuous (uh t) x). unfold uh. auto_derive.
  pose proof (one_plus_sq_pos x). cbn [pow] in *. repeat split; try exact I. lra.
Qed.

Lemma uk_continuous_x t x : continuous (uk t) x.
Proof. apply (ex_derive_continuous (uk t) x). unfold uk. auto_derive. exact I. Qed.

Lemma uk_continuity_2d t x : continuity_2d_pt uk t x.
Proof.
  unfold uk.
  apply (continuity_2d_pt_mult (fun u _ => - 2 * u) (fun u v => exp (- u ^ 2 * (1 + v ^ 2)))).
  - apply (continuity_2d_pt_mult (fun _ _ => - 2) (fun u _ => u)).
    + apply continuity_2d_pt_const.
    + apply continuity_2d_pt_id1.
  - apply (continuity_1d_2d_pt_comp exp (fun u v => - u ^ 2 * (1 + v ^ 2))).
    + apply derivable_continuous_pt. apply derivable_pt_exp.
    + apply (continuity_2d_pt_mult (fun u _ => - u ^ 2) (fun _ v => 1 + v ^ 2)).
      * apply (continuity_2d_pt_opp (fun u _ => u ^ 2)).
        apply (continuity_2d_pt_ext (fun u _ => u * u)); [intros; ring|].
        apply (continuity_2d_pt_mult (fun u _ => u) (fun u _ => u)); apply continuity_2d_pt_id1.
      * apply (continuity_2d_pt_plus (fun _ _ => 1) (fun _ v => v ^ 2)).
        -- apply continuity_2d_pt_const.
        -- apply (continuity_2d_pt_ext (fun _ v => v * v)); [intros; ring|].
           apply (continuity_2d_pt_mult (fun _ v => v) (fun _ v => v)); apply continuity_2d_pt_id2.
Qed.

Lemma uG_derive t : is_derive uG t (RInt (uk t) 0 1).
Proof.
  replace (RInt (uk t) 0 1) with (RInt (fun x => Derive (fun u => uh u x) t) 0 1).
  - apply (is_derive_RInt_param uh 0 1 t).
    + apply filter_forall. intros u x _. exists (uk u x). apply uh_derive_t.
    + intros x _. apply (continuity_2d_pt_ext uk); [|apply uk_continuity_2d].
      intros u v. symmetry. apply is_derive_unique. apply uh_derive_t.
    + apply filter_forall. intro u. apply (ex_RInt_continuous (uh u) 0 1).
      intros z _. apply uh_continuous_x.
  - apply RInt_ext. intros x _. apply is_derive_unique. apply uh_derive_t.
Qed.

(* int_0^1 uk t x dx = - 2 e^{-t^2} A(t)   (substitution u = t x) *)
Lemma uk_int t : RInt (uk t) 0 1 = - 2 * exp (- t ^ 2) * uA t.
Proof.
  assert (Heq : forall x : R, (- 2 * exp (- t ^ 2)) * (t * ug (t * x + 0)) = uk t x).
  { intro x. unfold uk, ug.
    replace (- t ^ 2 * (1 + x ^ 2)) with (- t ^ 2 + - (t * x + 0) ^ 2) by ring.
    rewrite exp_plus. ring. }
  apply is_RInt_unique.
  apply (is_RInt_ext (fun x => scal (- 2 * exp (- t ^ 2)) (scal t (ug (t * x + 0))))).
  - intros x _. rewrite !scal_R. apply Heq.
  - apply (is_RInt_scal (fun x => scal t (ug (t * x + 0))) 0 1 (- 2 * exp (- t ^ 2)) (uA t)).
    apply (is_RInt_comp_lin ug t 0 0 1 (uA t)).
    replace (t * 0 + 0) with 0 by ring. replace (t * 1 + 0) with t by ring.
    apply (RInt_correct ug 0 t). apply ug_ex.
Qed.

Definition uH (t : R) : R := uA t * uA t + uG t.

Lemma uH_derive t : is_derive uH t 0.
Proof.
  unfold uH.
  replace 0 with ((ug t * uA t + uA t * ug t) + RInt (uk t) 0 1)
    by (rewrite uk_int; unfold ug; ring).
  apply (is_derive_plus (fun t => uA t * uA t) uG t).
  - apply (is_derive_mult uA uA t (ug t) (ug t)); [apply uA_derive | apply uA_derive | exact Rmult_comm].
  - apply uG_derive.
Qed.

Lemma uH_0 : uH 0 = PI / 4.
Proof.
  assert (H00 : RInt ug 0 0 = 0) by exact (RInt_point 0 ug).
  assert (Heq : forall x : R, / (1 + x²) = uh 0 x).
  { intro x. unfold uh, Rsqr.
    replace (- 0 ^ 2 * (1 + x ^ 2)) with 0 by ring. rewrite exp_0.
    pose proof (one_plus_sq_pos x). cbn [pow] in *. field. lra. }
  unfold uH, uA, uG. rewrite H00.
  replace (RInt (uh 0) 0 1) with (atan 1 - atan 0).
  - rewrite atan_1, atan_0. ring.
  - symmetry. apply is_RInt_unique.
    apply (is_RInt_ext (fun x => / (1 + x²))).
    + intros x _. apply Heq.
    + apply (is_RInt_derive atan (fun x => / (1 + x²)) 0 1).
      * intros x _. apply is_derive_atan.
      * intros x _. apply (ex_derive_continuous (fun x => / (1 + x²)) x). unfold Rsqr. auto_derive.
        pose proof (one_plus_sq_pos x). cbn [pow] in *. lra.
Qed.

Lemma uH_const t : uH t = PI / 4.
Proof.
  rewrite <- uH_0.
  assert (Hi : is_RInt (fun _ : R => 0) 0 t (uH t - uH 0)).
  { apply (is_RInt_derive uH (fun _ => 0) 0 t).
    - intros x _. apply uH_derive.
    - intros x _. apply continuous_const. }
  pose proof (is_RInt_const 0 t (0 : R)) as Hc.
  pose proof (is_RInt_unique _ _ _ _ Hi) as E1. pose proof (is_RInt_unique _ _ _ _ Hc) as E2.
  rewrite E1, scal_R in E2. lra.
Qed.

Lemma uG_bound t : 0 <= uG t <= exp (- t ^ 2).
Proof.
  assert (Hex : ex_RInt (uh t) 0 1)
    by (apply (ex_RInt_continuous (uh t) 0 1); intros z _; apply uh_continuous_x).
  split.
  - apply RInt_ge_0; [lra | exact Hex |]. intros x _. unfold uh.
    apply Rlt_le, Rdiv_lt_0_compat; [apply exp_pos | apply one_plus_sq_pos].
  - assert (Hc : @eq R (RInt (fun _ : R => exp (- t ^ 2)) 0 1) (exp (- t ^ 2))).
    { transitivity ((1 - 0) * exp (- t ^ 2)); [exact (RInt_const 0 1 (exp (- t ^ 2))) | ring]. }
    rewrite <- Hc.
    apply RInt_le; [lra | exact Hex | apply ex_RInt_const |].
    intros x _. unfold uh.
    pose proof (one_plus_sq_pos x) as Hx.
    assert (H1 : exp (- t ^ 2 * (1 + x ^ 2)) <= exp (- t ^ 2)).
    { apply exp_le_compat. assert (0 <= t ^ 2) by (cbn [pow]; nra).
      assert (0 <= x ^ 2) by (cbn [pow]; nra). nra. }
    pose proof (exp_pos (- t ^ 2 * (1 + x ^ 2))) as H2.
    apply Rle_trans with (exp (- t ^ 2 * (1 + x ^ 2)) / 1); [|lra].
    unfold Rdiv. apply Rmult_le_compat_l; [lra|]. apply Rinv_le_contravar; [lra|].
    assert (0 <= x ^ 2) by (cbn [pow]; nra). lra.
Qed.

(* the symmetric proper integral is 2 A(t) *)
Lemma ug_symmetric t : RInt ug (- t) t = 2 * uA t.
Proof.
  assert (Hneg : is_RInt ug (- t) 0 (uA t)).
  { apply (is_RInt_ext (fun y => opp (opp (ug (- y))))).
    - intros y _. rewrite opp_opp. unfold ug. f_equal. ring.
    - replace (uA t) with (opp (opp (uA t))) by apply opp_opp.
      apply (is_RInt_opp (fun y => opp (ug (- y))) (- t) 0 (opp (uA t))).
      apply (is_RInt_comp_opp ug (- t) 0 (opp (uA t))).
      rewrite Ropp_involutive, Ropp_0.
      apply (is_RInt_swap ug t 0 (uA t)). apply (RInt_correct ug 0 t). apply ug_ex. }
  pose proof (RInt_Chasles ug (- t) 0 t (ug_ex _ _) (ug_ex _ _)) as C.
  change (RInt ug (- t) 0 + RInt ug 0 t = RInt ug (- t) t) in C.
  rewrite (is_RInt_unique _ _ _ _ Hneg) in C. fold (uA t) in C. lra.
Qed.

Lemma uA_sq t : (2 * uA t) * (2 * uA t) = PI - 4 * uG t.
Proof. pose proof (uH_const t) as H. unfold uH in H. lra. Qed.

(* ------------------------------------------------------------------ *)
Theorem gaussian_integral_unit : gint (fun x => exp (- x ^ 2)) (sqrt PI).
Proof.
  destruct (gaussian_integral_exists 1 Rlt_0_1) as [J0 H1].
  pose proof (gaussian_integral_pos 1 Rlt_0_1 J0 H1) as Hpos.
  assert (Hg : gint ug J0).
  { apply (gint_ext (fun x => exp (- 1 * x ^ 2)) ug J0 J0);
      [intro x; unfold ug; f_equal; ring | reflexivity | exact H1]. }
  assert (L1 : filterlim (fun t => 2 * uA t) (Rbar_locally p_infty) (locally J0)).
  { intros P [eps HP]. destruct (proj1 (gint_spelled_out ug J0) Hg eps) as [M HM].
    exists (Rabs M). intros t Ht. apply HP. pose proof (Rle_abs M).
    destruct (HM (- t) t) as [y [Hy Hd]]; [lra | lra |].
    change (Rabs (2 * uA t - J0) < eps).
    rewrite <- ug_symmetric, (is_RInt_unique _ _ _ _ Hy). exact Hd. }
  assert (L2 : filterlim (fun t => (2 * uA t) * (2 * uA t)) (Rbar_locally p_infty)
                         (locally (J0 * J0))).
  { apply (filterlim_comp_2 (F := Rbar_locally p_infty) (fun t => 2 * uA t) (fun t => 2 * uA t)
             Rmult L1 L1).
    exact (filterlim_mult J0 J0). }
  assert (L3 : filterlim (fun t => (2 * uA t) * (2 * uA t)) (Rbar_locally p_infty) (locally PI)).
  { intros P [eps HP].
    assert (He : 0 < eps / 4) by (pose proof (cond_pos eps); lra).
    destruct (gw_lim_p 1 0 Rlt_0_1 (fun y => Rabs y < eps / 4)) as [M HM].
    { exists (mkposreal _ He). intros y Hy. change (Rabs (y - 0) < eps / 4) in Hy.
      now rewrite Rminus_0_r in Hy. }
    exists M. intros t Ht. apply HP.
    change (Rabs ((2 * uA t) * (2 * uA t) - PI) < eps). rewrite uA_sq.
    destruct (uG_bound t) as [G0 G1]. specialize (HM t Ht).
    assert (Hgw : gw 1 0 t = exp (- t ^ 2)).
    { unfold gw. rewrite pow_O, Rmult_1_l. f_equal. ring. }
    rewrite Hgw in HM. rewrite Rabs_pos_eq in HM by (left; apply exp_pos).
    replace (PI - 4 * uG t - PI) with (- (4 * uG t)) by ring.
    rewrite Rabs_Ropp, Rabs_pos_eq by lra. lra. }
  assert (Hsq : J0 * J0 = PI).
  { exact (filterlim_locally_unique (F := Rbar_locally p_infty) _ _ _ L2 L3). }
  apply (gint_ext ug _ J0 (sqrt PI)); [reflexivity | | exact Hg].
  symmetry. apply sqrt_lem_1; [left; apply PI_RGT_0 | lra | exact Hsq].
Qed.

Theorem gaussian_integral (p : R) : 0 < p -> gint (fun x => exp (- p * x ^ 2)) (sqrt (PI / p)).
Proof. intro Hp. apply gaussian_integral_from_unit; [exact Hp | exact gaussian_integral_unit]. Qed.

Corollary gaussian_integral_value (p : R) : 0 < p -> Gint (fun x => exp (- p * x ^ 2)) = sqrt (PI / p).
Proof. intro Hp. apply Gint_correct. now apply gaussian_integral. Qed.

(* Bridge (B1) of DESIGN.md 2.6, with no hypothesis: for every p > 0, centre P and coefficient list f,
   the improper integral over R of f(x-P) e^{-p (x-P)^2} exists and equals sqrt(PI/p) * E f *)
Theorem bridge_B1_closed (p P : R) (f : list R) : 0 < p ->
  gint (fun x => peval f (x - P) * exp (- p * (x - P) ^ 2)) (sqrt (PI / p) * E RKd (vR p) f)
  /\ Gint (fun x => peval f (x - P) * exp (- p * (x - P) ^ 2)) / sqrt (PI / p) = E RKd (vR p) f.
Proof. intro Hp. apply bridge_B1; [exact Hp | exact gaussian_integral_unit]. Qed.

Corollary bridge_B1_monomials_closed (p P : R) (n : nat) : 0 < p ->
  gint (fun x => (x - P) ^ n * exp (- p * (x - P) ^ 2)) (sqrt (PI / p) * momR p n).
Proof. intro Hp. apply bridge_B1_monomials; [exact Hp | now apply gaussian_integral]. Qed.

(* ------------------------------------------------------------------ *)
(* The one-dimensional factor of the overlap / multipole-moment integrals, as an honest integral:
     int_R (x-C)^k (x-A)^i (x-B)^j e^{-al (x-A)^2} e^{-be (x-B)^2} dx
       = e^{-mu (A-B)^2} sqrt(PI/p) * S3 0 k i j
   with p = al+be, P = (al A + be B)/p, mu = al be/p, and S3 of Gauss/Moment1D.v at v = 1/(2p),
   a = P-A, b = P-B, c = P-C — the quantity all separable-integral theorems (C01, C02, C07, C08) speak about. *)
Lemma peval_plin c f y : peval (plin RKd c f) y = (y + c) * peval f y.
Proof. unfold plin. rewrite peval_padd, peval_pscale, peval_pshift. ring. Qed.

Lemma peval_plin_pow c e f y : peval (plin_pow RKd c e f) y = (y + c) ^ e * peval f y.
Proof. induction e as [|e IH]; cbn [plin_pow pow]; [ring|]. rewrite peval_plin, IH. ring. Qed.

Lemma peval_g3 a b c k i j y :
  peval (g3 RKd a b c k i j) y = (y + c) ^ k * (y + a) ^ i * (y + b) ^ j.
Proof. unfold g3. rewrite !peval_plin_pow. cbn [peval f1 RKd]. ring. Qed.

Theorem overlap_1d_integral (al be A B C : R) (k i j : nat) : 0 < al -> 0 < be ->
  let p := al + be in let P := (al * A + be * B) / p in let mu := al * be / p in
  gint (fun x => (x - C) ^ k * (x - A) ^ i * (x - B) ^ j
                 * exp (- al * (x - A) ^ 2) * exp (- be * (x - B) ^ 2))
       (exp (- mu * (A - B) ^ 2) * sqrt (PI / p) * S3 RKd (vR p) (P - A) (P - B) (P - C) 0 k i j).
Proof.
  intros Hal Hbe p P mu. assert (Hp : 0 < p) by (unfold p; lra).
  destruct (bridge_B1_closed p P (g3 RKd (P - A) (P - B) (P - C) k i j) Hp) as [H _].
  apply (gint_ext (fun x => exp (- mu * (A - B) ^ 2)
                            * (peval (g3 RKd (P - A) (P - B) (P - C) k i j) (x - P)
                               * exp (- p * (x - P) ^ 2))) _
                  (exp (- mu * (A - B) ^ 2)
                   * (sqrt (PI / p) * E RKd (vR p) (g3 RKd (P - A) (P - B) (P - C) k i j)))).
  - intro x. rewrite peval_g3.
    replace (x - P + (P - C)) with (x - C) by ring.
    replace (x - P + (P - A)) with (x - A) by ring.
    replace (x - P + (P - B)) with (x - B) by ring.
    assert (Hexp : exp (- al * (x - A) ^ 2) * exp (- be * (x - B) ^ 2)
                   = exp (- mu * (A - B) ^ 2) * exp (- p * (x - P) ^ 2)).
    { rewrite <- !exp_plus. f_equal. unfold mu, P, p. field. lra. }
    rewrite (Rmult_assoc _ (exp (- al * (x - A) ^ 2))), Hexp. ring.
  - unfold S3, E. ring.
  - exact (gint_scal _ _ _ H).
Qed.
