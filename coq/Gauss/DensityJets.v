(* Gauss/DensityJets.v — jets for gbasis/evals/density.py (DESIGN.md 2.5, "C06").

   Above evaluate_deriv_basis everything in density.py is bilinear algebra in the numbers
   d^o phi_a (derivative o in nat^3 of basis function a at one point).  A formal symbol
   (o1,o2) stands for
         G(o1,o2) = sum_ab P_ab * d^o1 phi_a * d^o2 phi_b ,
   a jet is a formal linear combination of such symbols with coefficients in the field, and the
   total derivative along axis k is the product rule
         d_k G(o1,o2) = G(o1+e_k,o2) + G(o1,o2+e_k)
   extended linearly.  [eval g j] interprets a jet for ANY assignment g of values to the symbols,
   so an identity "forall g, eval g a = eval g b" is an identity of formal combinations; the
   identities that need a symmetric density matrix quantify over symmetric g only.

   This file: definitions (executable), the models of the density.py functions with the source
   lines they transcribe, and a normal form deciding equality of jets by computation. *)
From Coq Require Import List Arith Bool Lia.
From GB Require Import Base.Field.
Import ListNotations.

Definition ord := (nat * nat * nat)%type.
Definition ord0 : ord := (0, 0, 0).

(* o + e_k ; any k >= 2 is the z axis *)
Definition bump (k : nat) (o : ord) : ord :=
  let '(x, y, z) := o in
  match k with 0 => (S x, y, z) | 1 => (x, S y, z) | _ => (x, y, S z) end.
Fixpoint bumpn (k n : nat) (o : ord) : ord :=
  match n with 0 => o | S n' => bump k (bumpn k n' o) end.
Definition eax (k : nat) : ord := bump k ord0.
Definition oplus (a b : ord) : ord :=
  let '(x, y, z) := a in let '(x', y', z') := b in (x + x', y + y', z + z').

(* binomial coefficient by Pascal's rule (scipy.special.comb on small integers) *)
Fixpoint binom (n k : nat) : nat :=
  match n, k with
  | _, 0 => 1
  | 0, S _ => 0
  | S n', S k' => binom n' k' + binom n' (S k')
  end.

(* the factor of the l_x loop of evaluate_deriv_density, density.py:268-276 *)
Definition sfactor (lx ix : nat) : nat :=
  if (Nat.even lx && (ix =? lx / 2))%bool then 1 else 2.

(* order on symbols, for the normal form *)
Definition ord_cmp (a b : ord) : comparison :=
  let '(x, y, z) := a in let '(x', y', z') := b in
  match Nat.compare x x' with
  | Eq => match Nat.compare y y' with Eq => Nat.compare z z' | c => c end
  | c => c
  end.
Definition key_cmp (s t : ord * ord) : comparison :=
  match ord_cmp (fst s) (fst t) with Eq => ord_cmp (snd s) (snd t) | c => c end.
Definition ord_leb (a b : ord) : bool :=
  match ord_cmp a b with Gt => false | _ => true end.
(* canonical representative of {(a,b),(b,a)} : G(a,b) = G(b,a) for a symmetric density matrix *)
Definition canon_key (s : ord * ord) : ord * ord :=
  if ord_leb (fst s) (snd s) then s else (snd s, fst s).

Section Jets.
Context {F : Type} (K : Fops F).
Local Open Scope F_scope.
Notation "0" := (f0 K) : F_scope.
Notation "1" := (f1 K) : F_scope.
Infix "+" := (fadd K) : F_scope.
Infix "*" := (fmul K) : F_scope.
Infix "/" := (fdiv K) : F_scope.

Definition jet := list (F * (ord * ord)).

Fixpoint eval (g : ord -> ord -> F) (j : jet) : F :=
  match j with
  | [] => 0
  | t :: r => fst t * g (fst (snd t)) (snd (snd t)) + eval g r
  end.

Definition G00 : jet := [(1, (ord0, ord0))].
Definition scale (c : F) (j : jet) : jet := map (fun t => (c * fst t, snd t)) j.

(* total derivative along axis k (product rule), iterated *)
Definition D (k : nat) (j : jet) : jet :=
  flat_map (fun t => [(fst t, (bump k (fst (snd t)), snd (snd t)));
                      (fst t, (fst (snd t), bump k (snd (snd t))))]) j.
Fixpoint Dn (k n : nat) (j : jet) : jet :=
  match n with 0 => j | S n' => D k (Dn k n' j) end.
Definition Dord (L : ord) (j : jet) : jet :=
  let '(lx, ly, lz) := L in Dn 2 lz (Dn 1 ly (Dn 0 lx j)).
(* d^L rho : the defining object, the L-th total derivative of G(0,0) *)
Definition drho (L : ord) : jet := Dord L G00.

Definition cB (n k : nat) : F := ofnat K (binom n k).
Definition two : F := 1 + 1.
Definition half : F := 1 / two.

(* the Leibniz expansion of the docstring of evaluate_deriv_density (density.py:213-226):
   sum_{l <= L} binom(Lx,lx) binom(Ly,ly) binom(Lz,lz) G(l, L-l) *)
Definition leib_inner (lx ly lz ix : nat) : jet :=
  flat_map (fun iy => scale (cB ly iy)
     (map (fun iz => (cB lz iz, ((ix, iy, iz), (lx - ix, ly - iy, lz - iz)))) (seq 0 (S lz))))
   (seq 0 (S ly)).
Definition leibniz (L : ord) : jet :=
  let '(lx, ly, lz) := L in
  flat_map (fun ix => scale (cB lx ix) (leib_inner lx ly lz ix)) (seq 0 (S lx)).

(* evaluate_deriv_density as written, density.py:265-303: l_x runs over range(L_x//2 + 1) only, with
   factor 1 for the middle term of an even L_x and 2 otherwise; l_y, l_z run over their full ranges;
   each term is factor * comb*comb*comb * evaluate_deriv_reduced_density_matrix(l, L-l) = G(l, L-l)
   (density.py:180-200: the first order goes to the row index of P). *)
Definition shortcut (L : ord) : jet :=
  let '(lx, ly, lz) := L in
  flat_map (fun ix => scale (ofnat K (sfactor lx ix) * cB lx ix) (leib_inner lx ly lz ix))
           (seq 0 (S (lx / 2))).

(* evaluate_density(_using_evaluated_orbs), density.py:60-62 *)
Definition density_model : jet := G00.
(* evaluate_density_gradient, density.py:368-380: 2 * sum_a (P phi)_a (d_k phi)_a *)
Definition grad_model (k : nat) : jet := [(two, (eax k, ord0))].
(* evaluate_density_laplacian, density.py:445-477 *)
Definition lap_model : jet :=
  [(two, (bump 0 (eax 0), ord0)); (two, (bump 1 (eax 1), ord0)); (two, (bump 2 (eax 2), ord0));
   (two, (eax 0, eax 0)); (two, (eax 1, eax 1)); (two, (eax 2, eax 2))].
(* evaluate_density_hessian, density.py:574-614: the lower-triangle loop fills [j][i], j <= i, with
   2 G(0, e_i+e_j) + 2 G(e_j, e_i); the transposition/triu bookkeeping copies it to both halves, so
   entry (p,q) of the result is 2 G(0, e_p+e_q) + 2 G(e_min(p,q), e_max(p,q)) *)
Definition hess_model (p q : nat) : jet :=
  [(two, (ord0, oplus (eax p) (eax q))); (two, (eax (Nat.min p q), eax (Nat.max p q)))].
(* evaluate_posdef_kinetic_energy_density, density.py:675-690 (value returned before clipping) *)
Definition ked_model : jet :=
  [(half, (eax 0, eax 0)); (half, (eax 1, eax 1)); (half, (eax 2, eax 2))].
(* the definition of the Laplacian: sum_k d^{2 e_k} rho *)
Definition lap_def : jet :=
  drho (bump 0 (eax 0)) ++ drho (bump 1 (eax 1)) ++ drho (bump 2 (eax 2)).
(* evaluate_general_kinetic_energy_density, density.py:752-763 *)
Definition gked_model (alpha : F) : jet := ked_model ++ scale alpha lap_model.
Definition gked_def (alpha : F) : jet := ked_model ++ scale alpha lap_def.

(* ---- normal form: sorted by symbol, equal symbols merged, zero coefficients dropped ---- *)
Fixpoint insert (c : F) (s : ord * ord) (j : jet) : jet :=
  match j with
  | [] => [(c, s)]
  | t :: r =>
      match key_cmp s (snd t) with
      | Eq => (c + fst t, snd t) :: r
      | Lt => (c, s) :: j
      | Gt => t :: insert c s r
      end
  end.
Definition sortj (j : jet) : jet := fold_right (fun t acc => insert (fst t) (snd t) acc) [] j.
Definition dropz (j : jet) : jet := filter (fun t => negb (feqb K (fst t) 0)) j.
Definition normalize (j : jet) : jet := dropz (sortj j).
Fixpoint jet_eqb (a b : jet) : bool :=
  match a, b with
  | [], [] => true
  | t :: a', u :: b' =>
      feqb K (fst t) (fst u) && match key_cmp (snd t) (snd u) with Eq => true | _ => false end
      && jet_eqb a' b'
  | _, _ => false
  end.
(* equal as formal combinations *)
Definition jet_equiv_b (a b : jet) : bool := jet_eqb (normalize a) (normalize b).
(* equal as formal combinations modulo G(a,b) = G(b,a) *)
Definition canon (j : jet) : jet := map (fun t => (fst t, canon_key (snd t))) j.
Definition jet_equiv_sym_b (a b : jet) : bool := jet_equiv_b (canon a) (canon b).
End Jets.

Arguments jet F : clear implicits.
