(* Gauss/DerivBridge.v — analytic bridge for C05 (Coquelicot, over R): the polynomial [u] of
   Model/Eval.v, instantiated at the real numbers, times exp(-a x^2) IS the n-th derivative of
   x^l exp(-a x^2), for every n, l, a, x.  Axioms: those of the classical real numbers of the
   standard library (reported by Print Assumptions in Props/C05.v); none declared here. *)
From Coq Require Import Reals Lra List Arith Lia.
From Coquelicot Require Import Coquelicot.
From GB Require Import Base.Field Base.FNum Model.Eval.
Open Scope R_scope.

(* the real numbers as an instance of the number interface; only the arithmetic fields are
   used below (u is built from + * - and ofnat); fboys is a placeholder *)
Definition RKd : Fops R :=
  mkFops R 0 1 Rplus Rmult Rminus Ropp Rdiv Rinv
    (fun x y => if Rle_dec x y then true else false)
    (fun x y => if Req_EM_T x y then true else false)
    PI sqrt exp ln (fun _ _ => 0) (fun x => x).

Lemma RKd_field : is_field RKd.
Proof. exact RealField.Rfield. Qed.

Lemma fpow_pow (x : R) (l : nat) : FNum.fpow RKd x l = x ^ l.
Proof. induction l as [|l IH]; [reflexivity|]. cbn [FNum.fpow pow fmul RKd]. now rewrite IH. Qed.

Lemma ofnat_INR (n : nat) : ofnat RKd n = INR n.
Proof.
  induction n as [|n IH]; [reflexivity|].
  rewrite S_INR. cbn [ofnat fadd f1 RKd]. rewrite IH. ring.
Qed.

Lemma uR_S a l n x : u RKd a l (S n) x =
  (match l with O => 0 | S l' => ofnat RKd l * u RKd a l' n x end)
  - (1 + 1) * a * u RKd a (S l) n x.
Proof. reflexivity. Qed.

Lemma uR_0 a l x : u RKd a l 0 x = x ^ l.
Proof. apply fpow_pow. Qed.

Lemma is_derive_pow_l (l : nat) (x : R) :
  is_derive (fun t => t ^ l) x (match l with O => 0 | S l' => INR l * x ^ l' end).
Proof.
  destruct l as [|l'].
  - cbn [pow]. apply (is_derive_const (1 : R)).
  - auto_derive; [exact I|]. cbn [Nat.pred]. change (match l' with O => 1 | S _ => INR l' + 1 end) with (INR (S l')). ring.
Qed.

(* derivative of the polynomial with respect to x *)
Lemma du a : forall n l x,
  is_derive (fun t => u RKd a l n t) x (u RKd a l (S n) x + 2 * a * x * u RKd a l n x).
Proof.
  induction n as [|n IH]; intros l x.
  - apply (is_derive_ext (fun t => t ^ l)); [intros t; symmetry; apply uR_0|].
    replace (u RKd a l 1 x + 2 * a * x * u RKd a l 0 x)
      with (match l with O => 0 | S l' => INR l * x ^ l' end).
    + apply is_derive_pow_l.
    + destruct l as [|l']; rewrite uR_S, !uR_0; [|rewrite ofnat_INR]; cbn [pow]; ring.
  - destruct l as [|l'].
    + assert (D : is_derive (fun t => 0 - ((1 + 1) * a) * u RKd a 1 n t) x
                    (0 - ((1 + 1) * a) * (u RKd a 1 (S n) x + 2 * a * x * u RKd a 1 n x))).
      { apply (is_derive_minus (fun _ : R => 0) (fun t => ((1 + 1) * a) * u RKd a 1 n t) x 0).
        - apply (is_derive_const (0 : R)).
        - apply is_derive_scal. apply IH. }
      apply (is_derive_ext _ _ _ _ (fun t => eq_sym (uR_S a 0 n t))).
      replace (u RKd a 0 (S (S n)) x + 2 * a * x * u RKd a 0 (S n) x)
        with (0 - (1 + 1) * a * (u RKd a 1 (S n) x + 2 * a * x * u RKd a 1 n x)).
      * exact D.
      * rewrite (uR_S a 0 (S n)), (uR_S a 0 n). ring.
    + assert (D : is_derive
                    (fun t => ofnat RKd (S l') * u RKd a l' n t
                              - ((1 + 1) * a) * u RKd a (S (S l')) n t) x
                    (ofnat RKd (S l') * (u RKd a l' (S n) x + 2 * a * x * u RKd a l' n x)
                     - ((1 + 1) * a)
                       * (u RKd a (S (S l')) (S n) x + 2 * a * x * u RKd a (S (S l')) n x))).
      { apply (is_derive_minus (fun t => ofnat RKd (S l') * u RKd a l' n t)
                               (fun t => ((1 + 1) * a) * u RKd a (S (S l')) n t)).
        - apply is_derive_scal. apply IH.
        - apply is_derive_scal. apply IH. }
      apply (is_derive_ext _ _ _ _ (fun t => eq_sym (uR_S a (S l') n t))).
      replace (u RKd a (S l') (S (S n)) x + 2 * a * x * u RKd a (S l') (S n) x)
        with (ofnat RKd (S l') * (u RKd a l' (S n) x + 2 * a * x * u RKd a l' n x)
              - (1 + 1) * a
                * (u RKd a (S (S l')) (S n) x + 2 * a * x * u RKd a (S (S l')) n x)).
      * exact D.
      * rewrite (uR_S a (S l') (S n)), (uR_S a (S l') n). ring.
Qed.

Lemma gauss_derive (a x : R) :
  is_derive (fun t => exp (- a * t ^ 2)) x (- (2 * a * x) * exp (- a * x ^ 2)).
Proof. auto_derive; [exact I|]. cbn [pow]. ring. Qed.

(* one differentiation step: (P e^{-a x^2})' = P_next e^{-a x^2} *)
Lemma deriv_step a l n x :
  is_derive (fun t => u RKd a l n t * exp (- a * t ^ 2)) x
            (u RKd a l (S n) x * exp (- a * x ^ 2)).
Proof.
  pose proof (is_derive_mult (fun t => u RKd a l n t) (fun t => exp (- a * t ^ 2)) x _ _
                (du a n l x) (gauss_derive a x) Rmult_comm) as D.
  replace (u RKd a l (S n) x * exp (- a * x ^ 2))
    with ((u RKd a l (S n) x + 2 * a * x * u RKd a l n x) * exp (- a * x ^ 2)
          + u RKd a l n x * (- (2 * a * x) * exp (- a * x ^ 2))) by ring.
  exact D.
Qed.

(* the elementary rule d/dx [x^l e^{-a x^2}] = (l x^(l-1) - 2 a x^(l+1)) e^{-a x^2} *)
Lemma first_rule (a : R) (l : nat) (x : R) :
  is_derive (fun t => t ^ l * exp (- a * t ^ 2)) x
    ((match l with O => 0 | S l' => INR l * x ^ l' end - 2 * a * x ^ (S l)) * exp (- a * x ^ 2)).
Proof.
  apply (is_derive_ext (fun t => u RKd a l 0 t * exp (- a * t ^ 2)));
    [intros t; now rewrite uR_0|].
  replace (match l with O => 0 | S l' => INR l * x ^ l' end - 2 * a * x ^ S l)
    with (u RKd a l 1 x); [apply deriv_step|].
  destruct l as [|l']; rewrite uR_S, !uR_0; [|rewrite ofnat_INR]; cbn [pow]; ring.
Qed.

(* n-th derivative, as a function *)
Lemma Derive_n_gauss a l : forall n x,
  Derive_n (fun t => t ^ l * exp (- a * t ^ 2)) n x = u RKd a l n x * exp (- a * x ^ 2).
Proof.
  induction n as [|n IH]; intros x.
  - cbn [Derive_n]. now rewrite uR_0.
  - cbn [Derive_n]. rewrite (Derive_ext _ _ x IH). apply is_derive_unique. apply deriv_step.
Qed.

Lemma nth_derivative a l n x :
  is_derive_n (fun t => t ^ l * exp (- a * t ^ 2)) n x (u RKd a l n x * exp (- a * x ^ 2)).
Proof.
  destruct n as [|n].
  - cbn [is_derive_n]. now rewrite uR_0.
  - cbn [is_derive_n].
    apply (is_derive_ext (fun t => u RKd a l n t * exp (- a * t ^ 2)));
      [intros t; symmetry; apply Derive_n_gauss|].
    apply deriv_step.
Qed.
