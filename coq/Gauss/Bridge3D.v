(* Gauss/Bridge3D.v — the analytic bridge (B1) of DESIGN.md 2.6 carried from one dimension
   (Gauss/BridgeR.v, Gauss/GaussInt.v) to the three-dimensional PRIMITIVE integrals the block
   theorems of Proofs/CoreBlockP.v and Proofs/CoreDiffP.v speak about.

   MEANING OF "INTEGRAL OVER R^3" IN THIS FILE.  [gint3 F l] is the ITERATED improper Riemann
   integral: for every (x, y) the improper integral over z of F x y z exists (value Iz x y), for
   every x the improper integral over y of Iz x y exists (value Iyz x), and the improper integral over
   x of Iyz is l; each one-dimensional integral is [gint] of Gauss/BridgeR.v (spelled out by
   BRIDGE_gint_meaning).  That this iterated integral is THE (Lebesgue / absolutely convergent
   Riemann) integral over R^3 — Fubini-Tonelli for these continuous, absolutely integrable
   functions (polynomial x Gaussian) — is not proved here and is the residual trusted step for
   (B1) in three dimensions.  [gint3_unique]: the value is determined by F alone.

   Proved (all exponents > 0, all centres, all Cartesian powers):
     gint3_prod                   F = f(x) g(y) h(z)  ->  gint3 F (If * Ig * Ih)
     gint3_scal/plus/minus/ext/unique/fsum    linearity, uniqueness of the value
   PRIMITIVES  phi_a(x,y,z) = (x-A_x)^{a_x} (y-A_y)^{a_y} (z-A_z)^{a_z} exp(-alpha |r-A|^2)   ([cprim], [gprim]):
     mom_prim_3d_integral         iterated integral of (r-C)^o phi_a phi_b = mom_prim RK ... (CoreBlockP.v)
     overlap_prim_3d_integral     iterated integral of phi_a phi_b          = ovl_prim RK ... (CoreBlockP.v)
     deriv_1d_integral            int phi_a(x) d^k/dx^k phi_b(x) dx         = D1 RK ... k i j   (EVERY k)
                                  (D1 = iterop (Bop beta) k Sfun, the spec of C02_diffop_is_derivative_of_right)
     moment1_1d_integral          int phi_a x phi_b dx                      = M1o RK ...
     dprim_3d_integral            iterated integral of phi_a d^o phi_b      = dprim RK o ...     (EVERY order o)
     kinetic_prim_3d_integral     iterated integral of phi_a (-1/2 Laplacian phi_b) = kin_prim RK ...
     momentum_prim_3d_integral    iterated integral of phi_a d/dx_i phi_b   = mom_{x,y,z}_prim RK ...
     angmom_prim_3d_integral      iterated integral of phi_a (r x grad)_i phi_b = ang_{x,y,z}_prim RK ...
   BLOCK ENTRIES OF THE MODELS  chi = contracted Cartesian function [cfun] = sum_k d_k N_k phi_k  (N_k = norm_prim,
   the primitive norm; the contraction norm of the assembled level is a constant factor applied afterwards):
     overlap_block_is_integral    overlap_block RK sa sb [ma][ia][mb][ib]  = iterated integral of chi_a chi_b
     mm_block_is_integral         mm_block ... [d][ma][ia][mb][ib]         = ... of (r-C)^{o_d} chi_a chi_b
     diffop_block_is_integral     diffop_block ... [d][..]                 = ... of chi_a d^{o_d} chi_b   (every order)
     kinetic_block_is_integral    kinetic_block RK sa sb [..]              = ... of chi_a (-1/2 Laplacian) chi_b
     momentum_block_is_integral   momentum_block_re [..][i]                = ... of chi_a d/dx_i chi_b
     angmom_block_is_integral     angmom_block_re [..][i]                  = ... of chi_a (r x grad)_i chi_b
     (pd3_cfun: every mixed partial derivative of chi is the contraction of those of the primitives —
      linearity of Derive_n over the finite sum, proved for these smooth functions)
   The derivatives are Coquelicot's [Derive_n] of the honest functions ([pd3], [lap3]); RK is the
   instance of the number interface at the real numbers (Proofs/ScreeningP.v: real sqrt, exp, PI)
   used by Proofs/CoreNormP.v.  The right-hand sides are literally the Gallina definitions of the
   block theorems (mm_block_correct, overlap_block_correct, kinetic_block_correct, ...) and the model
   functions themselves, at F := R.  With KAB_closed_form and norm_prim_self_overlap of CoreNormP.v
   ([normalised_primitive] below) the normalisation is the textbook one.
   Assumptions: the classical real numbers of the standard library only. *)
From Coq Require Import Reals Lra Lia List.
From Coquelicot Require Import Coquelicot.
From GB Require Import Base.Field Base.FNum Base.Tables Gauss.Moment1D Gauss.Bridge Gauss.DerivBridge
  Gauss.BridgeR Gauss.GaussInt Model.Eval Model.Shell Model.MomentInt Model.Overlap Model.DiffOp Proofs.DiffOpP
  Proofs.CoreSumP Proofs.CoreBlockP Proofs.CoreDiffP Proofs.ScreeningP Proofs.CoreNormP.
Import ListNotations.
Open Scope R_scope.

(* ------------------------------------------------------------------ *)
(* 1. the iterated improper integral over R^3                          *)
(* ------------------------------------------------------------------ *)
Definition gint3 (F : R -> R -> R -> R) (l : R) : Prop :=
  exists (Iz : R -> R -> R) (Iyz : R -> R),
    (forall x y, gint (fun z => F x y z) (Iz x y)) /\
    (forall x, gint (fun y => Iz x y) (Iyz x)) /\
    gint Iyz l.

Lemma gint3_def (F : R -> R -> R -> R) (l : R) :
  gint3 F l <->
  exists (Iz : R -> R -> R) (Iyz : R -> R),
    (forall x y, gint (fun z => F x y z) (Iz x y)) /\
    (forall x, gint (fun y => Iz x y) (Iyz x)) /\
    gint Iyz l.
Proof. split; intro H; exact H. Qed.

Lemma gint3_ext (F G : R -> R -> R -> R) (l l' : R) :
  (forall x y z, F x y z = G x y z) -> l = l' -> gint3 F l -> gint3 G l'.
Proof.
  intros HFG <- [Iz [Iyz [H1 [H2 H3]]]]. exists Iz, Iyz. split; [|split; assumption].
  intros x y. apply (gint_ext (fun z => F x y z) _ (Iz x y) _); [intro z; apply HFG | reflexivity | apply H1].
Qed.

Lemma gint3_unique (F : R -> R -> R -> R) (l l' : R) : gint3 F l -> gint3 F l' -> l = l'.
Proof.
  intros [Iz [Iyz [H1 [H2 H3]]]] [Iz' [Iyz' [H1' [H2' H3']]]].
  assert (E1 : forall x y, Iz x y = Iz' x y) by (intros x y; exact (gint_unique _ _ _ (H1 x y) (H1' x y))).
  assert (E2 : forall x, Iyz x = Iyz' x).
  { intro x. apply (gint_unique (fun y => Iz x y)); [apply H2|].
    apply (gint_ext (fun y => Iz' x y) _ (Iyz' x) _); [intro y; symmetry; apply E1 | reflexivity | apply H2']. }
  apply (gint_unique Iyz); [exact H3|].
  apply (gint_ext Iyz' _ l' _); [intro x; symmetry; apply E2 | reflexivity | exact H3'].
Qed.

Lemma gint3_scal (k : R) (F : R -> R -> R -> R) (l : R) :
  gint3 F l -> gint3 (fun x y z => k * F x y z) (k * l).
Proof.
  intros [Iz [Iyz [H1 [H2 H3]]]]. exists (fun x y => k * Iz x y), (fun x => k * Iyz x).
  split; [|split].
  - intros x y. exact (gint_scal k _ _ (H1 x y)).
  - intro x. exact (gint_scal k _ _ (H2 x)).
  - exact (gint_scal k _ _ H3).
Qed.

Lemma gint3_plus (F G : R -> R -> R -> R) (lf lg : R) :
  gint3 F lf -> gint3 G lg -> gint3 (fun x y z => F x y z + G x y z) (lf + lg).
Proof.
  intros [Iz [Iyz [H1 [H2 H3]]]] [Jz [Jyz [K1 [K2 K3]]]].
  exists (fun x y => Iz x y + Jz x y), (fun x => Iyz x + Jyz x). split; [|split].
  - intros x y. exact (gint_plus _ _ _ _ (H1 x y) (K1 x y)).
  - intro x. exact (gint_plus _ _ _ _ (H2 x) (K2 x)).
  - exact (gint_plus _ _ _ _ H3 K3).
Qed.

Lemma gint3_minus (F G : R -> R -> R -> R) (lf lg : R) :
  gint3 F lf -> gint3 G lg -> gint3 (fun x y z => F x y z - G x y z) (lf - lg).
Proof.
  intros [Iz [Iyz [H1 [H2 H3]]]] [Jz [Jyz [K1 [K2 K3]]]].
  exists (fun x y => Iz x y - Jz x y), (fun x => Iyz x - Jyz x). split; [|split].
  - intros x y. exact (gint_minus _ _ _ _ (H1 x y) (K1 x y)).
  - intro x. exact (gint_minus _ _ _ _ (H2 x) (K2 x)).
  - exact (gint_minus _ _ _ _ H3 K3).
Qed.

(* product functions: the iterated integral is the product of the three one-dimensional ones *)
Theorem gint3_prod (f g h : R -> R) (If Ig Ih : R) :
  gint f If -> gint g Ig -> gint h Ih ->
  gint3 (fun x y z => f x * g y * h z) (If * Ig * Ih).
Proof.
  intros Hf Hg Hh.
  exists (fun x y => f x * g y * Ih), (fun x => f x * Ig * Ih). split; [|split].
  - intros x y. exact (gint_scal (f x * g y) h Ih Hh).
  - intro x.
    apply (gint_ext (fun y => (f x * Ih) * g y) _ ((f x * Ih) * Ig) _);
      [intro y; ring | ring | exact (gint_scal (f x * Ih) g Ig Hg)].
  - apply (gint_ext (fun x => (Ig * Ih) * f x) _ ((Ig * Ih) * If) _);
      [intro x; ring | ring | exact (gint_scal (Ig * Ih) f If Hf)].
Qed.

(* what gint3 says, spelled out with the values as the (unique) limits [Gint] *)
Lemma gint3_as_Gint (F : R -> R -> R -> R) (l : R) : gint3 F l ->
  Gint (fun x => Gint (fun y => Gint (fun z => F x y z))) = l.
Proof.
  intros [Iz [Iyz [H1 [H2 H3]]]]. apply Gint_correct.
  apply (gint_ext Iyz _ l l); [|reflexivity|exact H3].
  intro x. symmetry. apply Gint_correct.
  apply (gint_ext (fun y => Iz x y) _ (Iyz x) _); [|reflexivity|apply H2].
  intro y. symmetry. apply Gint_correct. apply H1.
Qed.

(* ------------------------------------------------------------------ *)
(* 2. the two instances of the number interface at R agree on the moment functional *)
(* ------------------------------------------------------------------ *)
Lemma S3_RK_RKd v a b c n k i j : S3 RK v a b c n k i j = S3 RKd v a b c n k i j.
Proof. reflexivity. Qed.

(* ------------------------------------------------------------------ *)
(* 3. Cartesian Gaussian primitives and the overlap / multipole-moment integrals *)
(* ------------------------------------------------------------------ *)
(* one axis: (x - A)^a e^{-al (x-A)^2} *)
Definition cg1 (al A : R) (a : nat) (x : R) : R := (x - A) ^ a * exp (- al * (x - A) ^ 2).

(* the Cartesian primitive (not normalised) of exponent al, centre (Ax, Ay, Az), powers c *)
Definition cprim (al Ax Ay Az : R) (c : Shell.comp) (x y z : R) : R :=
  (x - Ax) ^ cx c * (y - Ay) ^ cy c * (z - Az) ^ cz c
  * exp (- al * ((x - Ax) ^ 2 + (y - Ay) ^ 2 + (z - Az) ^ 2)).

Lemma cprim_split al Ax Ay Az c x y z :
  cprim al Ax Ay Az c x y z = cg1 al Ax (cx c) x * cg1 al Ay (cy c) y * cg1 al Az (cz c) z.
Proof.
  unfold cprim, cg1.
  replace (- al * ((x - Ax) ^ 2 + (y - Ay) ^ 2 + (z - Az) ^ 2))
    with (- al * (x - Ax) ^ 2 + - al * (y - Ay) ^ 2 + - al * (z - Az) ^ 2) by ring.
  rewrite !exp_plus. ring.
Qed.

(* the primitive of a shell *)
Definition gprim (s : shell R) (al : R) (c : Shell.comp) : R -> R -> R -> R :=
  cprim al (s_x s) (s_y s) (s_z s) c.

(* one axis of the spec: prefactor x T1, as the honest one-dimensional integral *)
Lemma base_T1_integral (al be A B C : R) (k i j : nat) : 0 < al -> 0 < be ->
  gint (fun x => (x - C) ^ k * cg1 al A i x * cg1 be B j x)
       (base RK A B al be * T1 RK A B C al be k i j).
Proof.
  intros Ha Hb. pose proof (overlap_1d_integral al be A B C k i j Ha Hb) as H. cbv zeta in H.
  refine (gint_ext _ _ _ _ _ _ H); [intro x|].
  - unfold cg1. ring.
  - unfold base, T1, T3, hmean, psum, twop, PA, PB, PC, Pw, psum, vR.
    change (fmul RK) with Rmult. change (fdiv RK) with Rdiv. change (fsqrt RK) with sqrt.
    change (fadd RK) with Rplus. change (fsub RK) with Rminus. change (fopp RK) with Ropp.
    change (fexp RK) with exp. change (fpi RK) with PI. change (f1 RK) with 1.
    change (@S3 R RK) with (@S3 R RKd).
    replace (1 / ((1 + 1) * (al + be))) with (/ (2 * (al + be))) by (field; lra).
    replace (- (al * be / (al + be) * ((A - B) * (A - B)))) with (- (al * be / (al + be)) * (A - B) ^ 2)
      by (field; lra).
    ring.
Qed.

(* the 1-D overlap spec Sfun of Proofs/DiffOpP.v (moment order 0) *)
Lemma Sfun_integral (al be A B : R) (i j : nat) : 0 < al -> 0 < be ->
  gint (fun x => cg1 al A i x * cg1 be B j x) (Sfun RK A B al be i j).
Proof.
  intros Ha Hb.
  apply (gint_ext (fun x => (x - 0) ^ 0 * cg1 al A i x * cg1 be B j x) _
                  (base RK A B al be * T1 RK A B 0 al be 0 i j) _);
    [intro x; cbn [pow]; ring | reflexivity | now apply base_T1_integral].
Qed.

(* multipole moments: iterated integral of (r - C)^o phi_a phi_b = mom_prim of Proofs/CoreBlockP.v *)
Theorem mom_prim_3d_integral (Cx Cy Cz : R) (o : Shell.comp) (sa sb : shell R) (ca cb : Shell.comp)
        (al be : R) : 0 < al -> 0 < be ->
  gint3 (fun x y z => (x - Cx) ^ cx o * (y - Cy) ^ cy o * (z - Cz) ^ cz o
                      * gprim sa al ca x y z * gprim sb be cb x y z)
        (mom_prim RK Cx Cy Cz o sa sb ca cb al be).
Proof.
  intros Ha Hb.
  pose proof (base_T1_integral al be (s_x sa) (s_x sb) Cx (cx o) (cx ca) (cx cb) Ha Hb) as Hx.
  pose proof (base_T1_integral al be (s_y sa) (s_y sb) Cy (cy o) (cy ca) (cy cb) Ha Hb) as Hy.
  pose proof (base_T1_integral al be (s_z sa) (s_z sb) Cz (cz o) (cz ca) (cz cb) Ha Hb) as Hz.
  refine (gint3_ext _ _ _ _ _ _ (gint3_prod _ _ _ _ _ _ Hx Hy Hz)); [intros x y z|].
  - unfold gprim. rewrite !cprim_split. ring.
  - unfold mom_prim, KAB. change (fmul RK) with Rmult. ring.
Qed.

Theorem overlap_prim_3d_integral (sa sb : shell R) (ca cb : Shell.comp) (al be : R) :
  0 < al -> 0 < be ->
  gint3 (fun x y z => gprim sa al ca x y z * gprim sb be cb x y z) (ovl_prim RK sa sb ca cb al be).
Proof.
  intros Ha Hb.
  refine (gint3_ext _ _ _ _ _ eq_refl
           (mom_prim_3d_integral 0 0 0 (0, 0, 0)%nat sa sb ca cb al be Ha Hb)). intros x y z.
  change (cx (0, 0, 0)%nat) with 0%nat. change (cy (0, 0, 0)%nat) with 0%nat.
  change (cz (0, 0, 0)%nat) with 0%nat. cbn [pow]. ring.
Qed.

(* ------------------------------------------------------------------ *)
(* 4. derivatives of the right-hand primitive, one axis                *)
(* ------------------------------------------------------------------ *)
(* the k-th derivative of (x-B)^j e^{-be (x-B)^2}: polynomial [u] of Model/Eval.v times the Gaussian
   (Gauss/DerivBridge.v, translated to the centre B) *)
Lemma cg1_is_derive_n be B j k x :
  is_derive_n (cg1 be B j) k x (u RKd be j k (x - B) * exp (- be * (x - B) ^ 2)).
Proof.
  apply (is_derive_n_comp_trans (fun t => t ^ j * exp (- be * t ^ 2)) k x (- B)).
  apply nth_derivative.
Qed.

Lemma cg1_Derive_n be B j k x :
  Derive_n (cg1 be B j) k x = u RKd be j k (x - B) * exp (- be * (x - B) ^ 2).
Proof. apply is_derive_n_unique. apply cg1_is_derive_n. Qed.

Lemma D1_0 A B al be i j : D1 RK A B al be 0 i j = Sfun RK A B al be i j.
Proof. reflexivity. Qed.
Lemma D1_S A B al be k i j :
  D1 RK A B al be (S k) i j
  = INR j * D1 RK A B al be k i (j - 1) - 2 * be * D1 RK A B al be k i (S j).
Proof.
  unfold D1. cbn [iterop]. unfold Bop at 1. rewrite ofnat_R.
  change (fmul RK) with Rmult. change (fadd RK) with Rplus. change (fsub RK) with Rminus.
  change (f1 RK) with 1. ring.
Qed.

Lemma u_integral (al be A B : R) (i : nat) : 0 < al -> 0 < be -> forall k j,
  gint (fun x => cg1 al A i x * (u RKd be j k (x - B) * exp (- be * (x - B) ^ 2)))
       (D1 RK A B al be k i j).
Proof.
  intros Ha Hb. induction k as [|k IH]; intro j.
  - refine (gint_ext _ _ _ _ _ (eq_sym (D1_0 A B al be i j)) (Sfun_integral al be A B i j Ha Hb)).
    intro x. rewrite uR_0. reflexivity.
  - rewrite D1_S.
    refine (gint_ext _ _ _ _ _ eq_refl
              (gint_minus _ _ _ _ (gint_scal (INR j) _ _ (IH (j - 1)%nat))
                                  (gint_scal (2 * be) _ _ (IH (S j))))).
    intro x. cbv beta. rewrite (uR_S be j k). destruct j as [|j'].
    + cbn [INR]. ring.
    + rewrite ofnat_INR. replace (S j' - 1)%nat with j' by lia. ring.
Qed.

(* int phi_a(x) d^k/dx^k phi_b(x) dx = (Bop beta)^k Sfun (i, j): the spec of the differential-operator
   tables (C02_diffop_is_derivative_of_right), for EVERY order k *)
Theorem deriv_1d_integral (al be A B : R) (k i j : nat) : 0 < al -> 0 < be ->
  gint (fun x => cg1 al A i x * Derive_n (cg1 be B j) k x) (D1 RK A B al be k i j).
Proof.
  intros Ha Hb.
  refine (gint_ext _ _ _ _ _ eq_refl (u_integral al be A B i Ha Hb k j)).
  intro x. now rewrite cg1_Derive_n.
Qed.

(* first moment about the coordinate origin (used by the angular momentum) *)
Theorem moment1_1d_integral (al be A B : R) (i j : nat) : 0 < al -> 0 < be ->
  gint (fun x => cg1 al A i x * (x * cg1 be B j x)) (M1o RK A B al be i j).
Proof.
  intros Ha Hb.
  refine (gint_ext _ _ _ _ _ eq_refl (base_T1_integral al be A B 0 1 i j Ha Hb)).
  intro x. cbn [pow]. ring.
Qed.

(* ------------------------------------------------------------------ *)
(* 5. three dimensions: mixed partial derivatives of the right primitive *)
(* ------------------------------------------------------------------ *)
(* the mixed partial derivative d^ox/dx^ox d^oy/dy^oy d^oz/dz^oz G at (x, y, z), by Coquelicot's Derive_n *)
Definition pd3 (ox oy oz : nat) (G : R -> R -> R -> R) (x y z : R) : R :=
  Derive_n (fun x' => Derive_n (fun y' => Derive_n (fun z' => G x' y' z') oz z) oy y) ox x.

Lemma pd3_cprim ox oy oz be Bx By Bz cb x y z :
  pd3 ox oy oz (cprim be Bx By Bz cb) x y z
  = Derive_n (cg1 be Bx (cx cb)) ox x * Derive_n (cg1 be By (cy cb)) oy y
    * Derive_n (cg1 be Bz (cz cb)) oz z.
Proof.
  unfold pd3.
  set (gx := cg1 be Bx (cx cb)). set (gy := cg1 be By (cy cb)). set (gz := cg1 be Bz (cz cb)).
  transitivity (Derive_n (fun x' => gx x' * (Derive_n gy oy y * Derive_n gz oz z)) ox x).
  - apply Derive_n_ext. intro x'.
    transitivity (Derive_n (fun y' => gy y' * (gx x' * Derive_n gz oz z)) oy y).
    + apply Derive_n_ext. intro y'.
      transitivity (Derive_n (fun z' => (gx x' * gy y') * gz z') oz z).
      * apply Derive_n_ext. intro z'. apply cprim_split.
      * rewrite Derive_n_scal_l. ring.
    + rewrite Derive_n_scal_r. ring.
  - rewrite Derive_n_scal_r. ring.
Qed.

(* every differential-operator primitive: iterated integral of phi_a d^o phi_b = dprim of CoreDiffP.v *)
Theorem dprim_3d_integral (o : Shell.comp) (sa sb : shell R) (ca cb : Shell.comp) (al be : R) :
  0 < al -> 0 < be ->
  gint3 (fun x y z => gprim sa al ca x y z * pd3 (cx o) (cy o) (cz o) (gprim sb be cb) x y z)
        (dprim RK o sa sb ca cb al be).
Proof.
  intros Ha Hb.
  pose proof (deriv_1d_integral al be (s_x sa) (s_x sb) (cx o) (cx ca) (cx cb) Ha Hb) as Hx.
  pose proof (deriv_1d_integral al be (s_y sa) (s_y sb) (cy o) (cy ca) (cy cb) Ha Hb) as Hy.
  pose proof (deriv_1d_integral al be (s_z sa) (s_z sb) (cz o) (cz ca) (cz cb) Ha Hb) as Hz.
  refine (gint3_ext _ _ _ _ _ eq_refl (gint3_prod _ _ _ _ _ _ Hx Hy Hz)).
  intros x y z. unfold gprim. rewrite pd3_cprim, cprim_split. ring.
Qed.

(* Laplacian *)
Definition lap3 (G : R -> R -> R -> R) (x y z : R) : R :=
  pd3 2 0 0 G x y z + pd3 0 2 0 G x y z + pd3 0 0 2 G x y z.

(* kinetic energy: iterated integral of phi_a (-1/2 Laplacian) phi_b = kin_prim of CoreDiffP.v *)
Theorem kinetic_prim_3d_integral (sa sb : shell R) (ca cb : Shell.comp) (al be : R) :
  0 < al -> 0 < be ->
  gint3 (fun x y z => gprim sa al ca x y z * (- (1 / 2) * lap3 (gprim sb be cb) x y z))
        (kin_prim RK sa sb ca cb al be).
Proof.
  intros Ha Hb.
  pose proof (dprim_3d_integral (2, 0, 0)%nat sa sb ca cb al be Ha Hb) as Hx.
  pose proof (dprim_3d_integral (0, 2, 0)%nat sa sb ca cb al be Ha Hb) as Hy.
  pose proof (dprim_3d_integral (0, 0, 2)%nat sa sb ca cb al be Ha Hb) as Hz.
  refine (gint3_ext _ _ _ _ _ _
            (gint3_scal (- (1 / 2)) _ _ (gint3_plus _ _ _ _ (gint3_plus _ _ _ _ Hx Hy) Hz))).
  - intros x y z. cbv beta. unfold lap3, cx, cy, cz. cbn [fst snd]. ring.
  - unfold kin_prim, dprim, S1, cx, cy, cz. cbn [fst snd].
    rewrite !D1_0.
    change (fmul RK) with Rmult. change (fadd RK) with Rplus. change (fdiv RK) with Rdiv.
    change (fopp RK) with Ropp. change (f1 RK) with 1. field.
Qed.

(* momentum (the real matrix R of the value -i R): iterated integral of phi_a d/dx_i phi_b *)
Theorem momentum_prim_3d_integral (sa sb : shell R) (ca cb : Shell.comp) (al be : R) :
  0 < al -> 0 < be ->
  gint3 (fun x y z => gprim sa al ca x y z * pd3 1 0 0 (gprim sb be cb) x y z)
        (mom_x_prim RK sa sb ca cb al be) /\
  gint3 (fun x y z => gprim sa al ca x y z * pd3 0 1 0 (gprim sb be cb) x y z)
        (mom_y_prim RK sa sb ca cb al be) /\
  gint3 (fun x y z => gprim sa al ca x y z * pd3 0 0 1 (gprim sb be cb) x y z)
        (mom_z_prim RK sa sb ca cb al be).
Proof.
  intros Ha Hb. split; [|split].
  - exact (dprim_3d_integral (1, 0, 0)%nat sa sb ca cb al be Ha Hb).
  - exact (dprim_3d_integral (0, 1, 0)%nat sa sb ca cb al be Ha Hb).
  - exact (dprim_3d_integral (0, 0, 1)%nat sa sb ca cb al be Ha Hb).
Qed.

(* angular momentum about the coordinate origin (the real matrix R of the value -i R):
   iterated integral of phi_a (r x grad)_i phi_b = ang_{x,y,z}_prim of CoreDiffP.v *)
Lemma ang_term (sa sb : shell R) (ca cb : Shell.comp) (al be : R) : 0 < al -> 0 < be ->
  (* y d/dz, z d/dy *)
  gint3 (fun x y z => gprim sa al ca x y z * (y * pd3 0 0 1 (gprim sb be cb) x y z))
        (S1 RK (s_x sa) (s_x sb) al be (cx ca) (cx cb) * M1o RK (s_y sa) (s_y sb) al be (cy ca) (cy cb)
         * D1 RK (s_z sa) (s_z sb) al be 1 (cz ca) (cz cb)) /\
  gint3 (fun x y z => gprim sa al ca x y z * (z * pd3 0 1 0 (gprim sb be cb) x y z))
        (S1 RK (s_x sa) (s_x sb) al be (cx ca) (cx cb) * D1 RK (s_y sa) (s_y sb) al be 1 (cy ca) (cy cb)
         * M1o RK (s_z sa) (s_z sb) al be (cz ca) (cz cb)) /\
  (* z d/dx, x d/dz *)
  gint3 (fun x y z => gprim sa al ca x y z * (z * pd3 1 0 0 (gprim sb be cb) x y z))
        (D1 RK (s_x sa) (s_x sb) al be 1 (cx ca) (cx cb) * S1 RK (s_y sa) (s_y sb) al be (cy ca) (cy cb)
         * M1o RK (s_z sa) (s_z sb) al be (cz ca) (cz cb)) /\
  gint3 (fun x y z => gprim sa al ca x y z * (x * pd3 0 0 1 (gprim sb be cb) x y z))
        (M1o RK (s_x sa) (s_x sb) al be (cx ca) (cx cb) * S1 RK (s_y sa) (s_y sb) al be (cy ca) (cy cb)
         * D1 RK (s_z sa) (s_z sb) al be 1 (cz ca) (cz cb)) /\
  (* x d/dy, y d/dx *)
  gint3 (fun x y z => gprim sa al ca x y z * (x * pd3 0 1 0 (gprim sb be cb) x y z))
        (M1o RK (s_x sa) (s_x sb) al be (cx ca) (cx cb) * D1 RK (s_y sa) (s_y sb) al be 1 (cy ca) (cy cb)
         * S1 RK (s_z sa) (s_z sb) al be (cz ca) (cz cb)) /\
  gint3 (fun x y z => gprim sa al ca x y z * (y * pd3 1 0 0 (gprim sb be cb) x y z))
        (D1 RK (s_x sa) (s_x sb) al be 1 (cx ca) (cx cb) * M1o RK (s_y sa) (s_y sb) al be (cy ca) (cy cb)
         * S1 RK (s_z sa) (s_z sb) al be (cz ca) (cz cb)).
Proof.
  intros Ha Hb.
  pose proof (fun A B i j => deriv_1d_integral al be A B 0 i j Ha Hb) as HS.
  pose proof (fun A B i j => deriv_1d_integral al be A B 1 i j Ha Hb) as HD.
  pose proof (fun A B i j => moment1_1d_integral al be A B i j Ha Hb) as HM.
  repeat split.
  - refine (gint3_ext _ _ _ _ _ eq_refl (gint3_prod _ _ _ _ _ _ (HS _ _ _ _) (HM _ _ _ _) (HD _ _ _ _))).
    intros x y z. unfold gprim. rewrite pd3_cprim, cprim_split. cbn [Derive_n]. ring.
  - refine (gint3_ext _ _ _ _ _ eq_refl (gint3_prod _ _ _ _ _ _ (HS _ _ _ _) (HD _ _ _ _) (HM _ _ _ _))).
    intros x y z. unfold gprim. rewrite pd3_cprim, cprim_split. cbn [Derive_n]. ring.
  - refine (gint3_ext _ _ _ _ _ eq_refl (gint3_prod _ _ _ _ _ _ (HD _ _ _ _) (HS _ _ _ _) (HM _ _ _ _))).
    intros x y z. unfold gprim. rewrite pd3_cprim, cprim_split. cbn [Derive_n]. ring.
  - refine (gint3_ext _ _ _ _ _ eq_refl (gint3_prod _ _ _ _ _ _ (HM _ _ _ _) (HS _ _ _ _) (HD _ _ _ _))).
    intros x y z. unfold gprim. rewrite pd3_cprim, cprim_split. cbn [Derive_n]. ring.
  - refine (gint3_ext _ _ _ _ _ eq_refl (gint3_prod _ _ _ _ _ _ (HM _ _ _ _) (HD _ _ _ _) (HS _ _ _ _))).
    intros x y z. unfold gprim. rewrite pd3_cprim, cprim_split. cbn [Derive_n]. ring.
  - refine (gint3_ext _ _ _ _ _ eq_refl (gint3_prod _ _ _ _ _ _ (HD _ _ _ _) (HM _ _ _ _) (HS _ _ _ _))).
    intros x y z. unfold gprim. rewrite pd3_cprim, cprim_split. cbn [Derive_n]. ring.
Qed.

Theorem angmom_prim_3d_integral (sa sb : shell R) (ca cb : Shell.comp) (al be : R) :
  0 < al -> 0 < be ->
  gint3 (fun x y z => gprim sa al ca x y z
                      * (y * pd3 0 0 1 (gprim sb be cb) x y z - z * pd3 0 1 0 (gprim sb be cb) x y z))
        (ang_x_prim RK sa sb ca cb al be) /\
  gint3 (fun x y z => gprim sa al ca x y z
                      * (z * pd3 1 0 0 (gprim sb be cb) x y z - x * pd3 0 0 1 (gprim sb be cb) x y z))
        (ang_y_prim RK sa sb ca cb al be) /\
  gint3 (fun x y z => gprim sa al ca x y z
                      * (x * pd3 0 1 0 (gprim sb be cb) x y z - y * pd3 1 0 0 (gprim sb be cb) x y z))
        (ang_z_prim RK sa sb ca cb al be).
Proof.
  intros Ha Hb. destruct (ang_term sa sb ca cb al be Ha Hb) as [X1 [X2 [Y1 [Y2 [Z1 Z2]]]]].
  split; [|split].
  - refine (gint3_ext _ _ _ _ _ _ (gint3_minus _ _ _ _ X1 X2)); [intros x y z; cbv beta; ring|].
    unfold ang_x_prim. change (fmul RK) with Rmult. change (fsub RK) with Rminus.
    fold (S1 RK (s_x sa) (s_x sb) al be). ring.
  - refine (gint3_ext _ _ _ _ _ _ (gint3_minus _ _ _ _ Y1 Y2)); [intros x y z; cbv beta; ring|].
    unfold ang_y_prim. change (fmul RK) with Rmult. change (fsub RK) with Rminus.
    fold (S1 RK (s_y sa) (s_y sb) al be). ring.
  - refine (gint3_ext _ _ _ _ _ _ (gint3_minus _ _ _ _ Z1 Z2)); [intros x y z; cbv beta; ring|].
    unfold ang_z_prim. change (fmul RK) with Rmult. change (fsub RK) with Rminus.
    fold (S1 RK (s_z sa) (s_z sb) al be). ring.
Qed.

(* ------------------------------------------------------------------ *)
(* 6. contracted functions: the BLOCK ENTRIES of the models are iterated integrals *)
(* ------------------------------------------------------------------ *)
Notation fsumR := (FNum.fsum RK).

Lemma fsumR_S n (f : nat -> R) : fsumR (Tables.mk (S n) f) = fsumR (Tables.mk n f) + f n.
Proof. exact (fsum_mk_S RK RK_field n f). Qed.

Lemma gint3_zero : gint3 (fun _ _ _ => 0) 0.
Proof. exists (fun _ _ => 0), (fun _ => 0). repeat split; intros; exact gint_zero. Qed.

Lemma gint3_fsum n (G : nat -> R -> R -> R -> R) (l : nat -> R) :
  (forall i, (i < n)%nat -> gint3 (G i) (l i)) ->
  gint3 (fun x y z => fsumR (Tables.mk n (fun i => G i x y z))) (fsumR (Tables.mk n l)).
Proof.
  induction n as [|n IH]; intro H.
  - exact gint3_zero.
  - refine (gint3_ext _ _ _ _ _ (eq_sym (fsumR_S n l))
              (gint3_plus _ _ _ _ (IH (fun i Hi => H i (Nat.lt_lt_succ_r _ _ Hi))) (H n (Nat.lt_succ_diag_r n)))).
    intros x y z. cbv beta. now rewrite fsumR_S.
Qed.

(* coefficient x primitive norm of primitive k of segment m, component c *)
Definition cw (s : shell R) (m : nat) (c : Shell.comp) (k : nat) : R :=
  nth m (nth k (s_coeffs s) []) 0 * norm_prim RK (s_l s) c (nth k (s_exps s) 0).

(* the contracted, normalised Cartesian basis function: segment m, component c of shell s *)
Definition cfun (s : shell R) (m : nat) (c : Shell.comp) (x y z : R) : R :=
  fsumR (Tables.mk (length (s_exps s)) (fun k => cw s m c k * gprim s (nth k (s_exps s) 0) c x y z)).

Definition pos_exps3 (s : shell R) : Prop := forall a, In a (s_exps s) -> 0 < a.

(* any primitive-pair integrand G al be, contracted *)
Theorem contracted_integral (sa sb : shell R) (ca cb : Shell.comp) (ma mb : nat)
        (G : R -> R -> R -> R -> R -> R) (prim : R -> R -> R) :
  (forall al be, In al (s_exps sa) -> In be (s_exps sb) -> gint3 (G al be) (prim al be)) ->
  gint3 (fun x y z =>
           fsumR (Tables.mk (length (s_exps sa)) (fun ka =>
             fsumR (Tables.mk (length (s_exps sb)) (fun kb =>
               cw sa ma ca ka * cw sb mb cb kb * G (nth ka (s_exps sa) 0) (nth kb (s_exps sb) 0) x y z)))))
        (contracted RK sa sb ca cb ma mb prim).
Proof.
  intro H. unfold contracted.
  apply (gint3_fsum (length (s_exps sa))
           (fun ka x y z => fsumR (Tables.mk (length (s_exps sb)) (fun kb =>
               cw sa ma ca ka * cw sb mb cb kb * G (nth ka (s_exps sa) 0) (nth kb (s_exps sb) 0) x y z)))).
  intros ka Hka.
  apply (gint3_fsum (length (s_exps sb))
           (fun kb x y z => cw sa ma ca ka * cw sb mb cb kb
                            * G (nth ka (s_exps sa) 0) (nth kb (s_exps sb) 0) x y z)).
  intros kb Hkb.
  refine (gint3_ext _ _ _ _ _ _
            (gint3_scal (cw sa ma ca ka * cw sb mb cb kb) _ _
               (H (nth ka (s_exps sa) 0) (nth kb (s_exps sb) 0) (nth_In _ _ Hka) (nth_In _ _ Hkb)))).
  - intros x y z. reflexivity.
  - unfold cw. change (fmul RK) with Rmult. change (f0 RK) with 0. ring.
Qed.

(* product of two contracted functions with a common factor: the double sum over the primitives *)
Lemma cfun_product (sa sb : shell R) (ca cb : Shell.comp) (ma mb : nat) (w : R) (x y z : R) :
  w * cfun sa ma ca x y z * cfun sb mb cb x y z
  = fsumR (Tables.mk (length (s_exps sa)) (fun ka =>
      fsumR (Tables.mk (length (s_exps sb)) (fun kb =>
        cw sa ma ca ka * cw sb mb cb kb
        * (w * gprim sa (nth ka (s_exps sa) 0) ca x y z * gprim sb (nth kb (s_exps sb) 0) cb x y z))))).
Proof.
  unfold cfun.
  set (fa := fun ka => cw sa ma ca ka * gprim sa (nth ka (s_exps sa) 0) ca x y z).
  set (fb := fun kb => cw sb mb cb kb * gprim sb (nth kb (s_exps sb) 0) cb x y z).
  rewrite Rmult_assoc.
  change (w * (fsumR (Tables.mk (length (s_exps sa)) fa) * fsumR (Tables.mk (length (s_exps sb)) fb)))
    with (fmul RK w (fmul RK (fsumR (Tables.mk (length (s_exps sa)) fa)) (fsumR (Tables.mk (length (s_exps sb)) fb)))).
  rewrite (fsum_mk_scale_r RK RK_field), (fsum_mk_scale_l RK RK_field).
  apply fsum_mk_ext. intros ka _. cbv beta.
  rewrite (fsum_mk_scale_l RK RK_field), (fsum_mk_scale_l RK RK_field).
  apply fsum_mk_ext. intros kb _. unfold fa, fb. change (fmul RK) with Rmult. ring.
Qed.

Section Blocks.
Variables (sa sb : shell R) (ma ia mb ib : nat).
Hypothesis Wa : wf_shell sa.
Hypothesis Wb : wf_shell sb.
Hypothesis Pa : pos_exps3 sa.
Hypothesis Pb : pos_exps3 sb.
Hypothesis Hma : (ma < nseg sa)%nat.
Hypothesis Hia : (ia < length (comps_of sa))%nat.
Hypothesis Hmb : (mb < nseg sb)%nat.
Hypothesis Hib : (ib < length (comps_of sb))%nat.
Let ca := nth ia (comps_of sa) (0, 0, 0)%nat.
Let cb := nth ib (comps_of sb) (0, 0, 0)%nat.

(* the entry of the model's overlap block IS the iterated integral of the product of the two
   contracted, normalised basis functions *)
Theorem overlap_block_is_integral :
  gint3 (fun x y z => cfun sa ma ca x y z * cfun sb mb cb x y z)
        (Overlap.nth4 RK ma ia mb ib (overlap_block RK sa sb)).
Proof.
  rewrite (overlap_block_correct RK RK_field fapx_id_R two_neq_0_R sa sb ma ia mb ib Wa Wb
             (exps_ok_pos_R sa sb Pa Pb) Hma Hia Hmb Hib).
  fold ca cb.
  refine (gint3_ext _ _ _ _ _ eq_refl
            (contracted_integral sa sb ca cb ma mb
               (fun al be x y z => 1 * gprim sa al ca x y z * gprim sb be cb x y z) _ _)).
  - intros x y z. cbv beta. rewrite <- cfun_product. ring.
  - intros al be Ha Hb.
    refine (gint3_ext _ _ _ _ _ eq_refl (overlap_prim_3d_integral sa sb ca cb al be (Pa _ Ha) (Pb _ Hb))).
    intros x y z. ring.
Qed.

(* every slice of the multipole-moment block: iterated integral of (r-C)^o chi_a chi_b *)
Theorem mm_block_is_integral (Cx Cy Cz : R) (orders : list Shell.comp) (d : nat) :
  (d < length orders)%nat ->
  let o := nth d orders (0, 0, 0)%nat in
  gint3 (fun x y z => (x - Cx) ^ cx o * (y - Cy) ^ cy o * (z - Cz) ^ cz o
                      * cfun sa ma ca x y z * cfun sb mb cb x y z)
        (Overlap.nth4 RK ma ia mb ib (nth d (mm_block RK Cx Cy Cz orders sa sb) [])).
Proof.
  intros Hd o.
  rewrite (mm_block_correct RK RK_field fapx_id_R two_neq_0_R Cx Cy Cz orders sa sb Wa Wb
             (exps_ok_pos_R sa sb Pa Pb) d ma ia mb ib Hd Hma Hia Hmb Hib).
  fold ca cb o.
  refine (gint3_ext _ _ _ _ _ eq_refl
            (contracted_integral sa sb ca cb ma mb
               (fun al be x y z => ((x - Cx) ^ cx o * (y - Cy) ^ cy o * (z - Cz) ^ cz o)
                                   * gprim sa al ca x y z * gprim sb be cb x y z) _ _)).
  - intros x y z. cbv beta. now rewrite <- cfun_product.
  - intros al be Ha Hb.
    exact (mom_prim_3d_integral Cx Cy Cz o sa sb ca cb al be (Pa _ Ha) (Pb _ Hb)).
Qed.
End Blocks.

(* ------------------------------------------------------------------ *)
(* 7. differential operators applied to the CONTRACTED function (linearity of Derive_n over the
      finite contraction sum, proved for these smooth functions) *)
(* ------------------------------------------------------------------ *)
(* a function all of whose derivatives exist *)
Definition smooth (a : R -> R) : Prop :=
  forall j x, is_derive (Derive_n a j) x (Derive_n a (S j) x).

Lemma smooth_cg1 be B j : smooth (cg1 be B j).
Proof.
  intros k x. pose proof (cg1_is_derive_n be B j (S k) x) as H. cbn [is_derive_n] in H.
  rewrite (cg1_Derive_n be B j (S k) x). exact H.
Qed.

Lemma smooth_scal_r a w : smooth a -> smooth (fun t => a t * w).
Proof.
  intros Ha k x. rewrite Derive_n_scal_r.
  apply (is_derive_ext (fun t => Derive_n a k t * w)); [intro t; symmetry; apply Derive_n_scal_r|].
  apply (is_derive_ext (fun t => w * Derive_n a k t)); [intro t; apply Rmult_comm|].
  rewrite (Rmult_comm _ w). apply (is_derive_scal (Derive_n a k) x w). apply Ha.
Qed.

Lemma smooth_ext a b : (forall t, a t = b t) -> smooth a -> smooth b.
Proof.
  intros E Ha k x. rewrite <- (Derive_n_ext a b (S k) x E).
  apply (is_derive_ext (Derive_n a k)); [intro t; apply Derive_n_ext, E | apply Ha].
Qed.

Lemma is_derive_fsum n (c : nat -> R) (h : nat -> R -> R) (d : nat -> R) x :
  (forall i, is_derive (h i) x (d i)) ->
  is_derive (fun t => fsumR (Tables.mk n (fun i => c i * h i t))) x (fsumR (Tables.mk n (fun i => c i * d i))).
Proof.
  intro H. induction n as [|n IH].
  - apply (is_derive_const (0 : R)).
  - rewrite fsumR_S.
    apply (is_derive_ext (fun t => fsumR (Tables.mk n (fun i => c i * h i t)) + c n * h n t));
      [intro t; symmetry; apply fsumR_S|].
    apply (is_derive_plus (fun t => fsumR (Tables.mk n (fun i => c i * h i t))) (fun t => c n * h n t));
      [exact IH | apply (is_derive_scal (h n) x (c n)); apply H].
Qed.

Lemma Derive_n_fsum n (c : nat -> R) (g : nat -> R -> R) : (forall i, smooth (g i)) ->
  forall k x, Derive_n (fun t => fsumR (Tables.mk n (fun i => c i * g i t))) k x
              = fsumR (Tables.mk n (fun i => c i * Derive_n (g i) k x)).
Proof.
  intro Hs. induction k as [|k IH]; intro x; [reflexivity|].
  cbn [Derive_n]. rewrite (Derive_ext _ _ x IH). apply is_derive_unique.
  apply (is_derive_fsum n c (fun i t => Derive_n (g i) k t)). intro i. apply Hs.
Qed.

Lemma fsumR_ext n (f g : nat -> R) : (forall i, f i = g i) -> fsumR (Tables.mk n f) = fsumR (Tables.mk n g).
Proof. intro H. apply fsum_mk_ext. intros i _. apply H. Qed.

(* every mixed partial derivative of the contracted function is the contraction of the
   partial derivatives of the primitives *)
Theorem pd3_cfun (s : shell R) (m : nat) (c : Shell.comp) (ox oy oz : nat) (x y z : R) :
  pd3 ox oy oz (cfun s m c) x y z
  = fsumR (Tables.mk (length (s_exps s)) (fun k =>
      cw s m c k * pd3 ox oy oz (gprim s (nth k (s_exps s) 0) c) x y z)).
Proof.
  set (n := length (s_exps s)).
  set (gx := fun k => cg1 (nth k (s_exps s) 0) (s_x s) (cx c)).
  set (gy := fun k => cg1 (nth k (s_exps s) 0) (s_y s) (cy c)).
  set (gz := fun k => cg1 (nth k (s_exps s) 0) (s_z s) (cz c)).
  transitivity (fsumR (Tables.mk n (fun k => cw s m c k *
                  (Derive_n (gx k) ox x * Derive_n (gy k) oy y * Derive_n (gz k) oz z)))).
  2:{ apply fsumR_ext. intro k. unfold gprim. now rewrite pd3_cprim. }
  unfold pd3.
  (* z *)
  assert (Ez : forall x' y', Derive_n (fun z' => cfun s m c x' y' z') oz z
                = fsumR (Tables.mk n (fun k => cw s m c k * (gx k x' * gy k y' * Derive_n (gz k) oz z)))).
  { intros x' y'.
    rewrite (Derive_n_ext _ (fun z' => fsumR (Tables.mk n (fun k => cw s m c k * (gz k z' * (gx k x' * gy k y'))))) oz z).
    - rewrite (Derive_n_fsum n (cw s m c) (fun k z' => gz k z' * (gx k x' * gy k y'))).
      + apply fsumR_ext. intro k. rewrite Derive_n_scal_r. ring.
      + intro k. apply smooth_scal_r, smooth_cg1.
    - intro z'. unfold cfun. apply fsumR_ext. intro k. unfold gprim. rewrite cprim_split. unfold gx, gy, gz. ring. }
  (* y *)
  assert (Ey : forall x', Derive_n (fun y' => Derive_n (fun z' => cfun s m c x' y' z') oz z) oy y
                = fsumR (Tables.mk n (fun k => cw s m c k * (gx k x' * Derive_n (gy k) oy y * Derive_n (gz k) oz z)))).
  { intro x'.
    rewrite (Derive_n_ext _ (fun y' => fsumR (Tables.mk n (fun k => cw s m c k
                 * (gy k y' * (gx k x' * Derive_n (gz k) oz z))))) oy y).
    - rewrite (Derive_n_fsum n (cw s m c) (fun k y' => gy k y' * (gx k x' * Derive_n (gz k) oz z))).
      + apply fsumR_ext. intro k. rewrite Derive_n_scal_r. ring.
      + intro k. apply smooth_scal_r, smooth_cg1.
    - intro y'. rewrite Ez. apply fsumR_ext. intro k. ring. }
  (* x *)
  rewrite (Derive_n_ext _ (fun x' => fsumR (Tables.mk n (fun k => cw s m c k
               * (gx k x' * (Derive_n (gy k) oy y * Derive_n (gz k) oz z))))) ox x).
  - rewrite (Derive_n_fsum n (cw s m c) (fun k x' => gx k x' * (Derive_n (gy k) oy y * Derive_n (gz k) oz z))).
    + apply fsumR_ext. intro k. rewrite Derive_n_scal_r. ring.
    + intro k. apply smooth_scal_r, smooth_cg1.
  - intro x'. rewrite Ey. apply fsumR_ext. intro k. ring.
Qed.

Lemma fsumR_prod n m (f g : nat -> R) :
  fsumR (Tables.mk n f) * fsumR (Tables.mk m g)
  = fsumR (Tables.mk n (fun i => fsumR (Tables.mk m (fun j => f i * g j)))).
Proof.
  change (fmul RK (fsumR (Tables.mk n f)) (fsumR (Tables.mk m g)) = fsumR (Tables.mk n (fun i => fsumR (Tables.mk m (fun j => fmul RK (f i) (g j)))))).
  rewrite (fsum_mk_scale_r RK RK_field). apply fsum_mk_ext. intros i _.
  now rewrite (fsum_mk_scale_l RK RK_field).
Qed.

(* any operator that is linear over the contraction sum of the right function *)
Theorem contracted_op_integral (sa sb : shell R) (ca cb : Shell.comp) (ma mb : nat)
        (Lop : (R -> R -> R -> R) -> R -> R -> R -> R) (prim : R -> R -> R) :
  (forall x y z, Lop (cfun sb mb cb) x y z
                 = fsumR (Tables.mk (length (s_exps sb)) (fun kb =>
                     cw sb mb cb kb * Lop (gprim sb (nth kb (s_exps sb) 0) cb) x y z))) ->
  (forall al be, In al (s_exps sa) -> In be (s_exps sb) ->
     gint3 (fun x y z => gprim sa al ca x y z * Lop (gprim sb be cb) x y z) (prim al be)) ->
  gint3 (fun x y z => cfun sa ma ca x y z * Lop (cfun sb mb cb) x y z)
        (contracted RK sa sb ca cb ma mb prim).
Proof.
  intros Hlin H.
  refine (gint3_ext _ _ _ _ _ eq_refl
            (contracted_integral sa sb ca cb ma mb
               (fun al be x y z => gprim sa al ca x y z * Lop (gprim sb be cb) x y z) prim H)).
  intros x y z. cbv beta. rewrite Hlin. unfold cfun at 1. rewrite fsumR_prod.
  apply fsumR_ext. intro ka. apply fsumR_ext. intro kb. ring.
Qed.

Section DiffBlocks.
Variables (sa sb : shell R) (ma ia mb ib : nat).
Hypothesis Wa : wf_shell sa.
Hypothesis Wb : wf_shell sb.
Hypothesis Pa : pos_exps3 sa.
Hypothesis Pb : pos_exps3 sb.
Hypothesis Hma : (ma < nseg sa)%nat.
Hypothesis Hia : (ia < length (comps_of sa))%nat.
Hypothesis Hmb : (mb < nseg sb)%nat.
Hypothesis Hib : (ib < length (comps_of sb))%nat.
Let ca := nth ia (comps_of sa) (0, 0, 0)%nat.
Let cb := nth ib (comps_of sb) (0, 0, 0)%nat.

(* _compute_differential_operator_integrals, every order: the entry IS the iterated integral of
   chi_a times the mixed partial derivative of chi_b *)
Theorem diffop_block_is_integral (orders : list Shell.comp) (d : nat) : (d < length orders)%nat ->
  let o := nth d orders (0, 0, 0)%nat in
  gint3 (fun x y z => cfun sa ma ca x y z * pd3 (cx o) (cy o) (cz o) (cfun sb mb cb) x y z)
        (Overlap.nth4 RK ma ia mb ib (nth d (diffop_block RK orders sa sb) [])).
Proof.
  intros Hd o.
  rewrite (diffop_block_correct RK RK_field fapx_id_R two_neq_0_R orders sa sb Wa Wb
             (exps_ok_pos_R sa sb Pa Pb) d ma ia mb ib Hd Hma Hia Hmb Hib).
  fold ca cb o.
  apply (contracted_op_integral sa sb ca cb ma mb (pd3 (cx o) (cy o) (cz o))).
  - intros x y z. apply pd3_cfun.
  - intros al be Ha Hb. exact (dprim_3d_integral o sa sb ca cb al be (Pa _ Ha) (Pb _ Hb)).
Qed.

(* kinetic energy: the entry IS the iterated integral of chi_a (-1/2 Laplacian) chi_b *)
Theorem kinetic_block_is_integral :
  gint3 (fun x y z => cfun sa ma ca x y z * (- (1 / 2) * lap3 (cfun sb mb cb) x y z))
        (Overlap.nth4 RK ma ia mb ib (kinetic_block RK sa sb)).
Proof.
  rewrite (kinetic_block_correct RK RK_field fapx_id_R two_neq_0_R sa sb ma ia mb ib Wa Wb
             (exps_ok_pos_R sa sb Pa Pb) Hma Hia Hmb Hib).
  fold ca cb.
  apply (contracted_op_integral sa sb ca cb ma mb (fun G x y z => - (1 / 2) * lap3 G x y z)).
  - intros x y z. unfold lap3. rewrite !pd3_cfun.
    change (fsumR (Tables.mk ?n ?f) + fsumR (Tables.mk ?n ?g) + fsumR (Tables.mk ?n ?h))
      with (fadd RK (fadd RK (fsumR (Tables.mk n f)) (fsumR (Tables.mk n g))) (fsumR (Tables.mk n h))).
    rewrite !(fsum_mk_add RK RK_field).
    change (- (1 / 2) * fsumR ?l) with (fmul RK (- (1 / 2)) (fsumR l)).
    rewrite (fsum_mk_scale_l RK RK_field). apply fsumR_ext. intro k.
    change (fmul RK) with Rmult. change (fadd RK) with Rplus. ring.
  - intros al be Ha Hb. exact (kinetic_prim_3d_integral sa sb ca cb al be (Pa _ Ha) (Pb _ Hb)).
Qed.
(* momentum: the three components of the real matrix R (value -i R) *)
Theorem momentum_block_is_integral :
  let e := get4 [] ma ia mb ib (momentum_block_re RK sa sb) in
  gint3 (fun x y z => cfun sa ma ca x y z * pd3 1 0 0 (cfun sb mb cb) x y z) (nth 0 e 0) /\
  gint3 (fun x y z => cfun sa ma ca x y z * pd3 0 1 0 (cfun sb mb cb) x y z) (nth 1 e 0) /\
  gint3 (fun x y z => cfun sa ma ca x y z * pd3 0 0 1 (cfun sb mb cb) x y z) (nth 2 e 0).
Proof.
  cbv zeta.
  rewrite (momentum_block_correct RK RK_field fapx_id_R two_neq_0_R sa sb ma ia mb ib Wa Wb
             (exps_ok_pos_R sa sb Pa Pb) Hma Hia Hmb Hib).
  cbv zeta. fold ca cb. cbn [nth].
  repeat split.
  - apply (contracted_op_integral sa sb ca cb ma mb (pd3 1 0 0)); [intros; apply pd3_cfun|].
    intros al be Ha Hb. exact (proj1 (momentum_prim_3d_integral sa sb ca cb al be (Pa _ Ha) (Pb _ Hb))).
  - apply (contracted_op_integral sa sb ca cb ma mb (pd3 0 1 0)); [intros; apply pd3_cfun|].
    intros al be Ha Hb. exact (proj1 (proj2 (momentum_prim_3d_integral sa sb ca cb al be (Pa _ Ha) (Pb _ Hb)))).
  - apply (contracted_op_integral sa sb ca cb ma mb (pd3 0 0 1)); [intros; apply pd3_cfun|].
    intros al be Ha Hb. exact (proj2 (proj2 (momentum_prim_3d_integral sa sb ca cb al be (Pa _ Ha) (Pb _ Hb)))).
Qed.

(* angular momentum about the origin: the three components of the real matrix R (value -i R) *)
Lemma angop_linear (w1 w2 : R -> R -> R -> R) (o1 o2 : Shell.comp) (x y z : R) :
  w1 x y z * pd3 (cx o1) (cy o1) (cz o1) (cfun sb mb cb) x y z
  - w2 x y z * pd3 (cx o2) (cy o2) (cz o2) (cfun sb mb cb) x y z
  = fsumR (Tables.mk (length (s_exps sb)) (fun kb => cw sb mb cb kb *
      (w1 x y z * pd3 (cx o1) (cy o1) (cz o1) (gprim sb (nth kb (s_exps sb) 0) cb) x y z
       - w2 x y z * pd3 (cx o2) (cy o2) (cz o2) (gprim sb (nth kb (s_exps sb) 0) cb) x y z))).
Proof.
  rewrite !pd3_cfun.
  transitivity (fadd RK (fmul RK (w1 x y z) (fsumR (Tables.mk (length (s_exps sb)) (fun k =>
                   cw sb mb cb k * pd3 (cx o1) (cy o1) (cz o1) (gprim sb (nth k (s_exps sb) 0) cb) x y z))))
                        (fmul RK (- w2 x y z) (fsumR (Tables.mk (length (s_exps sb)) (fun k =>
                   cw sb mb cb k * pd3 (cx o2) (cy o2) (cz o2) (gprim sb (nth k (s_exps sb) 0) cb) x y z))))).
  { change (fmul RK) with Rmult. change (fadd RK) with Rplus. ring. }
  rewrite !(fsum_mk_scale_l RK RK_field), (fsum_mk_add RK RK_field).
  apply fsumR_ext. intro k. change (fmul RK) with Rmult. change (fadd RK) with Rplus. ring.
Qed.

Theorem angmom_block_is_integral :
  let e := get4 [] ma ia mb ib (angmom_block_re RK sa sb) in
  gint3 (fun x y z => cfun sa ma ca x y z
           * (y * pd3 0 0 1 (cfun sb mb cb) x y z - z * pd3 0 1 0 (cfun sb mb cb) x y z)) (nth 0 e 0) /\
  gint3 (fun x y z => cfun sa ma ca x y z
           * (z * pd3 1 0 0 (cfun sb mb cb) x y z - x * pd3 0 0 1 (cfun sb mb cb) x y z)) (nth 1 e 0) /\
  gint3 (fun x y z => cfun sa ma ca x y z
           * (x * pd3 0 1 0 (cfun sb mb cb) x y z - y * pd3 1 0 0 (cfun sb mb cb) x y z)) (nth 2 e 0).
Proof.
  cbv zeta.
  rewrite (angmom_block_correct RK RK_field fapx_id_R two_neq_0_R sa sb ma ia mb ib Wa Wb
             (exps_ok_pos_R sa sb Pa Pb) Hma Hia Hmb Hib).
  cbv zeta. fold ca cb. cbn [nth].
  repeat split.
  - apply (contracted_op_integral sa sb ca cb ma mb
             (fun G x y z => y * pd3 0 0 1 G x y z - z * pd3 0 1 0 G x y z)).
    + intros x y z. exact (angop_linear (fun _ y _ => y) (fun _ _ z => z) (0, 0, 1)%nat (0, 1, 0)%nat x y z).
    + intros al be Ha Hb. exact (proj1 (angmom_prim_3d_integral sa sb ca cb al be (Pa _ Ha) (Pb _ Hb))).
  - apply (contracted_op_integral sa sb ca cb ma mb
             (fun G x y z => z * pd3 1 0 0 G x y z - x * pd3 0 0 1 G x y z)).
    + intros x y z. exact (angop_linear (fun _ _ z => z) (fun x _ _ => x) (1, 0, 0)%nat (0, 0, 1)%nat x y z).
    + intros al be Ha Hb. exact (proj1 (proj2 (angmom_prim_3d_integral sa sb ca cb al be (Pa _ Ha) (Pb _ Hb)))).
  - apply (contracted_op_integral sa sb ca cb ma mb
             (fun G x y z => x * pd3 0 1 0 G x y z - y * pd3 1 0 0 G x y z)).
    + intros x y z. exact (angop_linear (fun x _ _ => x) (fun _ y _ => y) (0, 1, 0)%nat (1, 0, 0)%nat x y z).
    + intros al be Ha Hb. exact (proj2 (proj2 (angmom_prim_3d_integral sa sb ca cb al be (Pa _ Ha) (Pb _ Hb)))).
Qed.
End DiffBlocks.

(* ------------------------------------------------------------------ *)
(* 8. the hypotheses are satisfiable; concrete instances               *)
(* ------------------------------------------------------------------ *)
Definition ex_shell_d : shell R := mkShell R 2 0 0 0 [3 / 2; 1 / 4] [[1; 2]; [3; 4]] false [] [].
Definition ex_shell_p : shell R := mkShell R 1 1 (-1) (1 / 2) [2] [[1]] false [] [].

Example block_hypotheses_satisfiable :
  wf_shell ex_shell_d /\ wf_shell ex_shell_p /\ pos_exps3 ex_shell_d /\ pos_exps3 ex_shell_p /\
  (1 < nseg ex_shell_d)%nat /\ (4 < length (comps_of ex_shell_d))%nat /\
  (0 < nseg ex_shell_p)%nat /\ (2 < length (comps_of ex_shell_p))%nat.
Proof.
  split; [apply wf_shell_default; reflexivity|].
  split; [apply wf_shell_default; reflexivity|].
  split; [intros a [<-|[<-|[]]]; lra|].
  split; [intros a [<-|[]]; lra|].
  cbn. lia.
Qed.

(* ... so e.g. this entry of the kinetic block of a (d, p) pair of shells is the iterated integral *)
Example kinetic_block_instance :
  gint3 (fun x y z => cfun ex_shell_d 1 (0, 1, 1)%nat x y z
                      * (- (1 / 2) * lap3 (cfun ex_shell_p 0 (0, 0, 1)%nat) x y z))
        (Overlap.nth4 RK 1 4 0 2 (kinetic_block RK ex_shell_d ex_shell_p)).
Proof.
  destruct block_hypotheses_satisfiable as [W1 [W2 [P1 [P2 [H1 [H2 [H3 H4]]]]]]].
  exact (kinetic_block_is_integral ex_shell_d ex_shell_p 1 4 0 2 W1 W2 P1 P2 H1 H2 H3 H4).
Qed.

(* the iterated integral of a normalised primitive squared is 1 (with Proofs/CoreNormP.v) *)
Example normalised_primitive (s : shell R) (c : Shell.comp) (al : R) :
  0 < al -> (cx c + cy c + cz c)%nat = s_l s ->
  gint3 (fun x y z => (norm_prim RK (s_l s) c al * gprim s al c x y z)
                      * (norm_prim RK (s_l s) c al * gprim s al c x y z)) 1.
Proof.
  intros Ha Hl.
  refine (gint3_ext _ _ _ _ _ (norm_prim_self_overlap s c al Ha Hl)
            (gint3_scal (norm_prim RK (s_l s) c al * norm_prim RK (s_l s) c al) _ _
               (overlap_prim_3d_integral s s c c al al Ha Ha))).
  intros x y z. ring.
Qed.
