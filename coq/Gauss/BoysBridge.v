(* Gauss/BoysBridge.v — analytic bridge (B2) of DESIGN.md 2.4/2.6, narrowed: the Boys functional.

   The one-electron Coulomb models (point charge, nuclear attraction; Proofs/OneElecP.v) are specified
   as   Phi beta 0 (prim_poly ...)  :  the linear map  s^k |-> beta_k  applied to a polynomial in s whose
   value at every s is the product over the axes of exact Gaussian moments (prim_poly_eval), with
   beta_k = pref * F_k(T) the Boys values.  Here, with the HONEST Boys function
        Fboys m T := RInt (fun t => t^(2m) exp(-T t^2)) 0 1        (Coquelicot's Riemann integral)
   it is proved that
     Phi_boys        Phi (fun k => c * Fboys k T) m f = c * int_0^1 f(t^2) t^(2m) exp(-T t^2) dt
                     for every coefficient list f, every m, c, T  (no sign condition on T is needed)
     prim_val_is_t_integral
                     prim_val RKB ... (the spec of one primitive pair of OneElecP.v, at the reals with
                     fboys := Fboys) = (2 PI/p) exp(-mu |A-B|^2) *
                       int_0^1 [prod_axes S3(v (1-t^2); PA - t^2 PC, PB - t^2 PC; 0, a_i, b_i)] exp(-p |PC|^2 t^2) dt
   and the facts that make the Boys oracle meaningful:
     Fboys_0         F_m(0) = 1/(2m+1)
     Fboys_rec       (2m+1) F_m(T) = 2 T F_{m+1}(T) + exp(-T)      (integration by parts; every T)
     Fboys_pos, Fboys_le   0 < F_m(T),  F_m(T) <= 1/(2m+1) for T >= 0
     Fboys_decr      F_{m+1}(T) <= F_m(T)

   WHAT REMAINS TRUSTED FOR (B2) AFTER THIS FILE — one analytic identity, for Cartesian Gaussian
   primitives phi_a, phi_b (centres A, B, exponents al, be > 0, powers a, b), a point C,
   p = al+be, P = (al A + be B)/p, mu = al be/p, v = 1/(2p):
        int_{R^3} phi_a(r) phi_b(r) / |r - C| d^3r
          = (2 PI / p) exp(-mu |A-B|^2)
            * int_0^1 [prod_{i in x,y,z} S3 RK (v (1-t^2)) (P_i-A_i - t^2 (P_i-C_i)) (P_i-B_i - t^2 (P_i-C_i)) 0 0 a_i b_i]
                      * exp(-p |P-C|^2 t^2) dt
   i.e. (i) the Laplace representation 1/r = (2/sqrt PI) int_0^oo exp(-u^2 r^2) du, (ii) exchange of
   the u-integral with the integral over R^3, (iii) at fixed u the three one-dimensional Gaussian
   integrals — which ARE bridge (B1) (overlap_1d_integral with a third Gaussian factor, combined
   exponent p+u^2) — and (iv) the substitution t^2 = u^2/(p+u^2).  Step (iii) is covered by
   Gauss/GaussInt.v; (i), (iii), (iv) are proved in Gauss/CoulombBridge.v; only the exchange (ii) remains trusted.  The right-hand side of that identity is
   exactly the right-hand side of [prim_val_is_t_integral].
   Assumptions: the classical real numbers of the standard library only. *)
From Coq Require Import Reals Lra Lia List.
From Coquelicot Require Import Coquelicot.
From GB Require Import Base.Field Base.FNum Gauss.Moment1D Gauss.SPoly Gauss.DerivBridge Gauss.BridgeR
  Model.Shell Proofs.ScreeningP Proofs.OneElecP.
Import ListNotations.
Open Scope R_scope.

(* ------------------------------------------------------------------ *)
(* the Boys function *)
Definition boys_fn (T : R) (m : nat) (t : R) : R := t ^ (2 * m) * exp (- T * t ^ 2).
Definition Fboys (m : nat) (T : R) : R := RInt (boys_fn T m) 0 1.

Lemma boys_fn_gw T m t : boys_fn T m t = gw T (2 * m) t.
Proof. reflexivity. Qed.

Lemma boys_fn_continuous T m t : continuous (boys_fn T m) t.
Proof. apply (gw_continuous T (2 * m) t). Qed.

Lemma boys_fn_ex T m a b : ex_RInt (boys_fn T m) a b.
Proof. apply (ex_RInt_continuous (boys_fn T m) a b). intros z _. apply boys_fn_continuous. Qed.

Lemma Fboys_correct m T : is_RInt (boys_fn T m) 0 1 (Fboys m T).
Proof. apply (RInt_correct (boys_fn T m) 0 1). apply boys_fn_ex. Qed.

(* linear combinations of Riemann integrals, in R notation *)
Lemma is_RInt_lin (f g : R -> R) (a b k lf lg : R) :
  is_RInt f a b lf -> is_RInt g a b lg -> is_RInt (fun x => k * f x + g x) a b (k * lf + lg).
Proof.
  intros Hf Hg.
  exact (is_RInt_plus (fun x => k * f x) g a b (k * lf) lg (is_RInt_scal f a b k lf Hf) Hg).
Qed.

Lemma is_RInt_extR (f g : R -> R) (a b l : R) :
  (forall x : R, f x = g x) -> is_RInt f a b l -> is_RInt g a b l.
Proof. intros H. apply is_RInt_ext. intros x _. apply H. Qed.

Lemma is_RInt_zero (a b : R) : is_RInt (fun _ : R => 0) a b 0.
Proof.
  refine (eq_rect _ (fun l : R => is_RInt (fun _ : R => 0) a b l) (is_RInt_const a b (0 : R)) 0 _).
  unfold scal; cbn; unfold mult; cbn; ring.
Qed.

(* ------------------------------------------------------------------ *)
(* Phi with Boys values is the t-integral over [0,1] of the polynomial evaluated at s = t^2 *)
Lemma Phi_boys_is_RInt (T : R) (f : list R) : forall m,
  is_RInt (fun t => SPoly.peval RK f (t ^ 2) * t ^ (2 * m) * exp (- T * t ^ 2)) 0 1
          (Phi RK (fun k => Fboys k T) m f).
Proof.
  induction f as [|a f IH]; intro m.
  - cbn [Phi SPoly.peval]. change (f0 RK) with 0.
    apply (is_RInt_extR (fun _ : R => 0)); [intros t; ring | apply is_RInt_zero].
  - cbn [Phi SPoly.peval].
    change (fadd RK) with Rplus. change (fmul RK) with Rmult.
    apply (is_RInt_extR (fun t => a * boys_fn T m t
                                 + SPoly.peval RK f (t ^ 2) * t ^ (2 * S m) * exp (- T * t ^ 2))).
    + intros t. unfold boys_fn. replace (2 * S m)%nat with (S (S (2 * m))) by lia. cbn [pow]. ring.
    + apply (is_RInt_lin (boys_fn T m) _ 0 1 a); [apply Fboys_correct | apply (IH (S m))].
Qed.

Lemma Phi_scal (c : R) (beta : nat -> R) (f : list R) : forall m,
  Phi RK (fun k => c * beta k) m f = c * Phi RK beta m f.
Proof.
  induction f as [|a f IH]; intro m; cbn [Phi].
  - change (f0 RK) with 0. ring.
  - rewrite IH. change (fadd RK) with Rplus. change (fmul RK) with Rmult. ring.
Qed.

Theorem Phi_boys (c T : R) (m : nat) (f : list R) :
  Phi RK (fun k => c * Fboys k T) m f
  = c * RInt (fun t => SPoly.peval RK f (t ^ 2) * t ^ (2 * m) * exp (- T * t ^ 2)) 0 1.
Proof.
  rewrite Phi_scal. f_equal. symmetry. apply is_RInt_unique. apply Phi_boys_is_RInt.
Qed.

(* the integrand of Phi_boys is integrable (so the RInt above is a genuine integral, not a default) *)
Lemma Phi_boys_ex (T : R) (m : nat) (f : list R) :
  ex_RInt (fun t => SPoly.peval RK f (t ^ 2) * t ^ (2 * m) * exp (- T * t ^ 2)) 0 1.
Proof. eexists. apply Phi_boys_is_RInt. Qed.

(* ------------------------------------------------------------------ *)
(* standard facts about the Boys function *)
Theorem Fboys_0 (m : nat) : Fboys m 0 = / INR (2 * m + 1).
Proof.
  assert (Hn : INR (2 * m + 1) <> 0) by (apply not_0_INR; lia).
  apply is_RInt_unique.
  apply (is_RInt_extR (fun t => t ^ (2 * m))).
  - intros t. unfold boys_fn. replace (- 0 * t ^ 2) with 0 by ring. rewrite exp_0. ring.
  - replace (/ INR (2 * m + 1))
      with (minus (/ INR (2 * m + 1) * 1 ^ (2 * m + 1)) (/ INR (2 * m + 1) * 0 ^ (2 * m + 1))).
    + apply (is_RInt_derive (fun t => / INR (2 * m + 1) * t ^ (2 * m + 1)) (fun t => t ^ (2 * m)) 0 1).
      * intros x _.
        replace (x ^ (2 * m)) with (/ INR (2 * m + 1) * (INR (2 * m + 1) * x ^ (2 * m))) by (field; exact Hn).
        apply (is_derive_scal (fun t => t ^ (2 * m + 1)) x (/ INR (2 * m + 1))).
        replace (2 * m + 1)%nat with (S (2 * m)) by lia.
        apply (is_derive_pow_l (S (2 * m)) x).
      * intros x _. apply (ex_derive_continuous (fun t => t ^ (2 * m)) x).
        eexists. apply is_derive_pow_l.
    + unfold minus, plus, opp; cbn. rewrite pow1, pow_i by lia. ring.
Qed.

(* integration by parts: d/dt [t^(2m+1) e^{-T t^2}] = (2m+1) t^(2m) e^{-T t^2} - 2T t^(2m+2) e^{-T t^2} *)
Theorem Fboys_rec (m : nat) (T : R) :
  INR (2 * m + 1) * Fboys m T = 2 * T * Fboys (S m) T + exp (- T).
Proof.
  pose proof (is_RInt_derive (gw T (S (2 * m))) (dgw T (S (2 * m))) 0 1
                (fun x _ => gw_derive T (S (2 * m)) x) (fun x _ => dgw_continuous T (S (2 * m)) x)) as H1.
  assert (H2 : is_RInt (dgw T (S (2 * m))) 0 1 (INR (S (2 * m)) * Fboys m T + - (2 * T) * Fboys (S m) T)).
  { apply (is_RInt_extR (fun t => INR (S (2 * m)) * boys_fn T m t + - (2 * T) * boys_fn T (S m) t)).
    - intros t. rewrite dgw_gw. unfold boys_fn, gw.
      replace (2 * S m)%nat with (S (S (2 * m))) by lia. ring.
    - apply (is_RInt_lin (boys_fn T m) (fun t => - (2 * T) * boys_fn T (S m) t) 0 1); [apply Fboys_correct|].
      exact (is_RInt_scal (boys_fn T (S m)) 0 1 (- (2 * T)) _ (Fboys_correct (S m) T)). }
  pose proof (is_RInt_unique _ _ _ _ H1) as E1. pose proof (is_RInt_unique _ _ _ _ H2) as E2.
  assert (Hv : RInt (dgw T (S (2 * m))) 0 1 = exp (- T)).
  { rewrite E1. change (gw T (S (2 * m)) 1 + - gw T (S (2 * m)) 0 = exp (- T)).
    unfold gw. rewrite pow1, pow_i by lia.
    replace (- T * 1 ^ 2) with (- T) by ring. ring. }
  rewrite Hv in E2. replace (2 * m + 1)%nat with (S (2 * m)) by lia. lra.
Qed.

Theorem Fboys_pos (m : nat) (T : R) : 0 < Fboys m T.
Proof.
  (* on [1/2, 1] the integrand is >= (1/2)^(2m) e^{-|T|} > 0 *)
  set (c := (/ 2) ^ (2 * m) * exp (- Rabs T)).
  assert (Hc : 0 < c) by (unfold c; apply Rmult_lt_0_compat; [apply pow_lt; lra | apply exp_pos]).
  pose proof (RInt_Chasles (boys_fn T m) 0 (/ 2) 1 (boys_fn_ex _ _ _ _) (boys_fn_ex _ _ _ _)) as C.
  change (RInt (boys_fn T m) 0 (/ 2) + RInt (boys_fn T m) (/ 2) 1 = Fboys m T) in C.
  assert (P1 : 0 <= RInt (boys_fn T m) 0 (/ 2)).
  { apply RInt_ge_0; [lra | apply boys_fn_ex |]. intros x Hx. unfold boys_fn.
    apply Rmult_le_pos; [apply pow_le; lra | left; apply exp_pos]. }
  assert (P2 : c * / 2 <= RInt (boys_fn T m) (/ 2) 1).
  { replace (c * / 2) with (RInt (fun _ => c) (/ 2) 1).
    - apply RInt_le; [lra | apply ex_RInt_const | apply boys_fn_ex |].
      intros x Hx. unfold boys_fn, c.
      apply Rmult_le_compat; [apply pow_le; lra | left; apply exp_pos | apply pow_incr; lra |].
      apply exp_le_compat. pose proof (Rle_abs (- T)) as Ha. rewrite Rabs_Ropp in Ha.
      assert (0 <= x ^ 2 <= 1) by (cbn [pow]; nra). pose proof (Rabs_pos T).
      destruct (Rle_dec 0 T) as [HT|HT].
      + rewrite (Rabs_pos_eq T HT). nra.
      + rewrite (Rabs_left T) by lra. nra.
    - rewrite RInt_const. unfold scal; cbn. unfold mult; cbn. field. }
  nra.
Qed.

Theorem Fboys_le (m : nat) (T : R) : 0 <= T -> Fboys m T <= / INR (2 * m + 1).
Proof.
  intro HT. rewrite <- Fboys_0. unfold Fboys.
  apply RInt_le; [lra | apply boys_fn_ex | apply boys_fn_ex |].
  intros x Hx. unfold boys_fn. apply Rmult_le_compat_l; [apply pow_le; lra|].
  apply exp_le_compat. assert (H2 : 0 <= x ^ 2) by apply pow2_ge_0.
  revert H2. generalize (x ^ 2). intros y Hy. pose proof (Rmult_le_pos T y HT Hy). lra.
Qed.

Theorem Fboys_decr (m : nat) (T : R) : Fboys (S m) T <= Fboys m T.
Proof.
  unfold Fboys. apply RInt_le; [lra | apply boys_fn_ex | apply boys_fn_ex |].
  intros x Hx. unfold boys_fn. apply Rmult_le_compat_r; [left; apply exp_pos|].
  replace (2 * S m)%nat with (S (S (2 * m))) by lia. cbn [pow].
  assert (Hw : 0 <= x ^ (2 * m)) by (apply pow_le; lra).
  assert (Hxx : 0 <= 1 - x * x) by nra.
  pose proof (Rmult_le_pos _ _ Hxx Hw). lra.
Qed.

(* ------------------------------------------------------------------ *)
(* the number interface at R with the honest Boys function in the oracle slot *)
Definition RKB : Fops R :=
  mkFops R 0 1 Rplus Rmult Rminus Ropp Rdiv Rinv Rleb Reqb PI sqrt exp ln Fboys (fun x => x).

Lemma RKB_field : is_field RKB.
Proof. exact RealField.Rfield. Qed.

Lemma Phi_RKB beta m f : Phi RKB beta m f = Phi RK beta m f.
Proof. reflexivity. Qed.
Lemma peval_RKB f s : SPoly.peval RKB f s = SPoly.peval RK f s.
Proof. reflexivity. Qed.

(* the spec of one primitive pair of the one-electron Coulomb models (Proofs/OneElecP.v: prim_val,
   the summand of one_elec_spec), at the reals with the honest Boys function, IS the t-integral *)
Theorem prim_val_is_t_integral (Cx Cy Cz Ax Ay Az Bx By Bz al be : R) (ca cb : Shell.comp) :
  let p := al + be in
  let Px := (al * Ax + be * Bx) / p in let Py := (al * Ay + be * By) / p in
  let Pz := (al * Az + be * Bz) / p in
  let mu := al * be / p in
  let ab2 := (Ax - Bx) * (Ax - Bx) + (Ay - By) * (Ay - By) + (Az - Bz) * (Az - Bz) in
  let pc2 := (Px - Cx) * (Px - Cx) + (Py - Cy) * (Py - Cy) + (Pz - Cz) * (Pz - Cz) in
  let v := 1 / ((1 + 1) * p) in
  prim_val RKB Cx Cy Cz Ax Ay Az Bx By Bz al be ca cb
  = (1 + 1) * PI / p * exp (- (mu * ab2))
    * RInt (fun t =>
              S3 RKB (v * (1 - t ^ 2)) (Px - Ax - t ^ 2 * (Px - Cx)) (Px - Bx - t ^ 2 * (Px - Cx)) 0 0 0
                 (fst (fst ca)) (fst (fst cb))
              * S3 RKB (v * (1 - t ^ 2)) (Py - Ay - t ^ 2 * (Py - Cy)) (Py - By - t ^ 2 * (Py - Cy)) 0 0 0
                   (snd (fst ca)) (snd (fst cb))
              * S3 RKB (v * (1 - t ^ 2)) (Pz - Az - t ^ 2 * (Pz - Cz)) (Pz - Bz - t ^ 2 * (Pz - Cz)) 0 0 0
                   (snd ca) (snd cb)
              * exp (- (p * pc2) * t ^ 2)) 0 1.
Proof.
  cbv zeta. unfold prim_val.
  set (f := prim_poly RKB Cx Cy Cz Ax Ay Az Bx By Bz al be ca cb).
  change (Phi RKB (boys_seq RKB Ax Ay Az Bx By Bz Cx Cy Cz al be) 0 f)
    with (Phi RK (fun k => ((1 + 1) * PI / (al + be)
                            * exp (- (al * be / (al + be)
                                      * ((Ax - Bx) * (Ax - Bx) + (Ay - By) * (Ay - By) + (Az - Bz) * (Az - Bz)))))
                           * Fboys k ((al + be) * (((al * Ax + be * Bx) / (al + be) - Cx) * ((al * Ax + be * Bx) / (al + be) - Cx)
                                                   + ((al * Ay + be * By) / (al + be) - Cy) * ((al * Ay + be * By) / (al + be) - Cy)
                                                   + ((al * Az + be * Bz) / (al + be) - Cz) * ((al * Az + be * Bz) / (al + be) - Cz))))
              0 f).
  rewrite Phi_boys. f_equal. apply RInt_ext. intros t _.
  rewrite <- peval_RKB. unfold f.
  rewrite (prim_poly_eval RKB RKB_field Cx Cy Cz Ax Ay Az Bx By Bz al be ca cb (t ^ 2)).
  cbv zeta. change (fmul RKB) with Rmult. change (fadd RKB) with Rplus. change (fsub RKB) with Rminus.
  change (fdiv RKB) with Rdiv. change (f1 RKB) with 1. change (f0 RKB) with 0.
  change (2 * 0)%nat with 0%nat. match goal with |- @eq _ ?a ?b => change (@eq R a b) end. ring.
Qed.

(* sanity: the integrand of the trusted identity at t = 0 is the overlap moment, at t = 1 the
   variance vanishes — visible on the s-s case, where the integral is the Boys function itself *)
Example prim_val_ss (Cx Cy Cz Ax Ay Az Bx By Bz al be : R) :
  let p := al + be in
  let Px := (al * Ax + be * Bx) / p in let Py := (al * Ay + be * By) / p in
  let Pz := (al * Az + be * Bz) / p in
  let mu := al * be / p in
  let ab2 := (Ax - Bx) * (Ax - Bx) + (Ay - By) * (Ay - By) + (Az - Bz) * (Az - Bz) in
  let pc2 := (Px - Cx) * (Px - Cx) + (Py - Cy) * (Py - Cy) + (Pz - Cz) * (Pz - Cz) in
  prim_val RKB Cx Cy Cz Ax Ay Az Bx By Bz al be (0, 0, 0)%nat (0, 0, 0)%nat
  = (1 + 1) * PI / p * exp (- (mu * ab2)) * Fboys 0 (p * pc2).
Proof.
  cbv zeta. rewrite prim_val_is_t_integral. cbv zeta. f_equal.
  apply RInt_ext. intros t _. cbn [fst snd]. rewrite !(S3_000 RKB RKB_field).
  unfold boys_fn. change (f1 RKB) with 1. change (2 * 0)%nat with 0%nat.
  match goal with |- @eq _ ?a ?b => change (@eq R a b) end. ring.
Qed.
