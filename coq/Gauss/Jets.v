(* Gauss/Jets.v — formal linear combinations of derivatives of the one-electron
   reduced density matrix (DESIGN.md 2.5).

   A symbol G(o1,o2), o1 o2 : nat^3, stands for

        sum_ab P_ab (d^o1 phi_a)(r) (d^o2 phi_b)(r)

   i.e. what [evaluate_deriv_reduced_density_matrix(o1, o2, ...)] of
   gbasis/evals/density.py:113-200 returns.  A *combination* is a list of
   (coefficient, o1, o2); coefficients are affine forms c1 + ca*alpha + cb*beta
   with canonical rational c1 ca cb (the two parameters of the stress tensor stay
   symbolic), so that equivalence of two combinations under G(o1,o2) = G(o2,o1)
   is decided by computation ([equivb], sound by [equivb_sound]).

   Semantics.  Level 1 (section [Eval]): any commutative ring R, any ring
   homomorphism inj : Qc -> R, any alpha beta : R, any symmetric G.  Level 2
   (section [Deriv]): R additionally carries three derivations D AX, D AY, D AZ
   (additive + Leibniz, killing the constants), phi o a are elements with
   D k (phi o a) = phi (o + e_k) a and P a b are constants; then G is *defined*
   as the double sum and [eval (dk k c) = D k (eval c)]: the formal total
   derivative [dk] (product rule on symbols) is the derivative.
   Everything assumed is a section hypothesis; nothing is an axiom. *)
From Coq Require Import ZArith QArith Qcanon Ring List Arith Lia Bool.
From GB Require Import Base.Field Base.Tables.
Import ListNotations.
Local Close Scope Qc_scope.
Local Close Scope Q_scope.
Local Close Scope Z_scope.
Local Open Scope nat_scope.

(* ------------------------------------------------------------------ *)
(* Orders, axes, keys                                                  *)
(* ------------------------------------------------------------------ *)
Inductive axis := AX | AY | AZ.
Definition axes : list axis := [AX; AY; AZ].

Definition order := (nat * nat * nat)%type.
Definition o0 : order := (0, 0, 0).
Definition oadd (a b : order) : order :=
  let '(a1, a2, a3) := a in let '(b1, b2, b3) := b in (a1 + b1, a2 + b2, a3 + b3).
Definition e_ (k : axis) : order :=
  match k with AX => (1, 0, 0) | AY => (0, 1, 0) | AZ => (0, 0, 1) end.
Definition osucc (k : axis) (o : order) : order :=
  let '(a1, a2, a3) := o in
  match k with AX => (S a1, a2, a3) | AY => (a1, S a2, a3) | AZ => (a1, a2, S a3) end.

Definition oeqb (a b : order) : bool :=
  let '(a1, a2, a3) := a in let '(b1, b2, b3) := b in
  Nat.eqb a1 b1 && Nat.eqb a2 b2 && Nat.eqb a3 b3.
Lemma oeqb_eq a b : oeqb a b = true -> a = b.
Proof.
  destruct a as [[a1 a2] a3], b as [[b1 b2] b3]. cbn [oeqb].
  rewrite !andb_true_iff, !Nat.eqb_eq. intros [[-> ->] ->]. reflexivity.
Qed.
(* lexicographic "a <= b", used only to choose a representative of {o1,o2} *)
Definition oleb (a b : order) : bool :=
  let '(a1, a2, a3) := a in let '(b1, b2, b3) := b in
  if Nat.ltb a1 b1 then true else if Nat.ltb b1 a1 then false else
  if Nat.ltb a2 b2 then true else if Nat.ltb b2 a2 then false else Nat.leb a3 b3.

Definition key := (order * order)%type.
Definition keqb (a b : key) : bool := oeqb (fst a) (fst b) && oeqb (snd a) (snd b).
Lemma keqb_eq a b : keqb a b = true -> a = b.
Proof.
  destruct a, b. unfold keqb. cbn [fst snd]. rewrite andb_true_iff.
  intros [H1 H2]. apply oeqb_eq in H1, H2. now subst.
Qed.
(* representative under G(o1,o2) = G(o2,o1) *)
Definition kcanon (k : key) : key := let '(a, b) := k in if oleb a b then (a, b) else (b, a).

(* ------------------------------------------------------------------ *)
(* Coefficients: c1 + ca*alpha + cb*beta over Qc                       *)
(* ------------------------------------------------------------------ *)
Definition coef := (Qc * Qc * Qc)%type.
Definition czero : coef := (0, 0, 0)%Qc.
Definition cone : coef := (1, 0, 0)%Qc.
Definition cplus (x y : coef) : coef :=
  let '(x1, xa, xb) := x in let '(y1, ya, yb) := y in (x1 + y1, xa + ya, xb + yb)%Qc.
Definition csmul (q : Qc) (x : coef) : coef :=
  let '(x1, xa, xb) := x in (q * x1, q * xa, q * xb)%Qc.
Definition copp (x : coef) : coef := csmul (- (1))%Qc x.
Definition ceqb (x y : coef) : bool :=
  let '(x1, xa, xb) := x in let '(y1, ya, yb) := y in
  Qc_eq_bool x1 y1 && Qc_eq_bool xa ya && Qc_eq_bool xb yb.
Lemma ceqb_eq x y : ceqb x y = true -> x = y.
Proof.
  destruct x as [[x1 xa] xb], y as [[y1 ya] yb]. cbn [ceqb].
  rewrite !andb_true_iff. intros [[H1 H2] H3].
  apply Qc_eq_bool_correct in H1, H2, H3. now subst.
Qed.
(* substitute a rational value for alpha and/or beta *)
Definition csubst (a b : option Qc) (x : coef) : coef :=
  let '(x1, xa, xb) := x in
  let '(x1, xa) := match a with Some v => (x1 + xa * v, 0)%Qc | None => (x1, xa) end in
  match b with Some v => (x1 + xb * v, xa, 0)%Qc | None => (x1, xa, xb) end.

(* ------------------------------------------------------------------ *)
(* Combinations                                                        *)
(* ------------------------------------------------------------------ *)
Definition comb := list (coef * key).      (* coefficients affine in alpha, beta *)
Definition qcomb := list (Qc * key).       (* rational coefficients (derivatives of rho) *)

Definition lscale (q : Qc) (l : comb) : comb := map (fun t => (csmul q (fst t), snd t)) l.
Definition lopp (l : comb) : comb := lscale (- (1))%Qc l.
Definition lsubst (a b : option Qc) (l : comb) : comb := map (fun t => (csubst a b (fst t), snd t)) l.
(* affine coefficient times a rational combination *)
Definition scal (c : coef) (l : qcomb) : comb := map (fun t => (csmul (fst t) c, snd t)) l.
Definition lsum {A B} (f : A -> list B) (l : list A) : list B := flat_map f l.

(* formal total derivative: product rule on every symbol *)
Definition dkey (k : axis) (x : key) : list key :=
  let '(a, b) := x in [(osucc k a, b); (a, osucc k b)].
Definition dk (k : axis) (l : comb) : comb :=
  flat_map (fun t => map (fun x => (fst t, x)) (dkey k (snd t))) l.
Definition dkq (k : axis) (l : qcomb) : qcomb :=
  flat_map (fun t => map (fun x => (fst t, x)) (dkey k (snd t))) l.
(* d^L applied to a rational combination: z first, then y, then x (they commute) *)
Fixpoint iterq (n : nat) (k : axis) (l : qcomb) : qcomb :=
  match n with O => l | S m => dkq k (iterq m k l) end.
Definition dordq (L : order) (l : qcomb) : qcomb :=
  let '(lx, ly, lz) := L in iterq lx AX (iterq ly AY (iterq lz AZ l)).

(* merging equal symbols *)
Fixpoint add_term (c : coef) (k : key) (l : comb) : comb :=
  match l with
  | [] => [(c, k)]
  | t :: r => if keqb k (snd t) then (cplus c (fst t), snd t) :: r else t :: add_term c k r
  end.
Definition merge (l : comb) : comb :=
  fold_right (fun t acc => add_term (fst t) (kcanon (snd t)) acc) [] l.
Definition nonzero (l : comb) : comb := filter (fun t => negb (ceqb (fst t) czero)) l.
(* normal form up to the order of the terms (used for display / diagnostics) *)
Definition norm (l : comb) : comb := nonzero (merge l).
Definition zerob (l : comb) : bool := forallb (fun t => ceqb (fst t) czero) (merge l).
(* the decision procedure: a - b merges to zero coefficients only *)
Definition equivb (a b : comb) : bool := zerob (a ++ lopp b).

(* ------------------------------------------------------------------ *)
(* Level 1: evaluation in a commutative ring                           *)
(* ------------------------------------------------------------------ *)
(* inj is a ring homomorphism from the canonical rationals *)
Definition is_qhom {R} (K : Fops R) (inj : Qc -> R) : Prop :=
  inj 1%Qc = f1 K
  /\ (forall a b, inj (a + b)%Qc = fadd K (inj a) (inj b))
  /\ (forall a b, inj (a * b)%Qc = fmul K (inj a) (inj b)).

Section Eval.
Context {R : Type} (K : Fops R) (Kr : is_ring K).
Add Ring KR : Kr.
Local Open Scope F_scope.
Notation "0" := (f0 K) : F_scope.
Notation "1" := (f1 K) : F_scope.
Infix "+" := (fadd K) : F_scope.
Infix "*" := (fmul K) : F_scope.
Infix "-" := (fsub K) : F_scope.
Notation "- x" := (fopp K x) : F_scope.

Variable inj : Qc -> R.
Hypothesis Hinj : is_qhom K inj.
Variables (alpha beta : R) (G : order -> order -> R).

Definition cev (c : coef) : R :=
  let '(c1, ca, cb) := c in inj c1 + inj ca * alpha + inj cb * beta.
Definition kev (k : key) : R := G (fst k) (snd k).
Fixpoint eval (l : comb) : R :=
  match l with [] => 0 | t :: r => cev (fst t) * kev (snd t) + eval r end.
Fixpoint evalq (l : qcomb) : R :=
  match l with [] => 0 | t :: r => inj (fst t) * kev (snd t) + evalq r end.

Lemma inj_1 : inj 1%Qc = 1. Proof. apply Hinj. Qed.
Lemma inj_add a b : inj (a + b)%Qc = inj a + inj b. Proof. apply Hinj. Qed.
Lemma inj_mul a b : inj (a * b)%Qc = inj a * inj b. Proof. apply Hinj. Qed.
Lemma inj_0 : inj 0%Qc = 0.
Proof.
  assert (E : inj 0%Qc + inj 0%Qc = inj 0%Qc) by (rewrite <- inj_add; f_equal; ring).
  assert (E2 : inj 0%Qc = (inj 0%Qc + inj 0%Qc) - inj 0%Qc) by ring.
  rewrite E in E2. rewrite E2. ring.
Qed.
Lemma inj_opp a : inj (- a)%Qc = - inj a.
Proof.
  assert (E : inj (- a)%Qc + inj a = 0) by (rewrite <- inj_add, <- inj_0; f_equal; ring).
  assert (E2 : inj (- a)%Qc = (inj (- a)%Qc + inj a) - inj a) by ring.
  rewrite E2, E. ring.
Qed.

Lemma cev_zero : cev czero = 0.
Proof. unfold cev, czero. rewrite inj_0. ring. Qed.
Lemma cev_one : cev cone = 1.
Proof. unfold cev, cone. rewrite inj_0, inj_1. ring. Qed.
Lemma cev_plus x y : cev (cplus x y) = cev x + cev y.
Proof. destruct x as [[x1 xa] xb], y as [[y1 ya] yb]. cbn [cev cplus]. rewrite !inj_add. ring. Qed.
Lemma cev_smul q x : cev (csmul q x) = inj q * cev x.
Proof. destruct x as [[x1 xa] xb]. cbn [cev csmul]. rewrite !inj_mul. ring. Qed.
Lemma cev_opp x : cev (copp x) = - cev x.
Proof. unfold copp. rewrite cev_smul, inj_opp, inj_1. ring. Qed.

Lemma eval_app a b : eval (a ++ b) = eval a + eval b.
Proof. induction a as [|t a IH]; cbn [app eval]; [ring|]. rewrite IH. ring. Qed.
Lemma eval_lscale q l : eval (lscale q l) = inj q * eval l.
Proof.
  induction l as [|t l IH]; cbn [lscale map eval fst snd]; [ring|].
  fold (lscale q l). rewrite IH, cev_smul. ring.
Qed.
Lemma eval_lopp l : eval (lopp l) = - eval l.
Proof. unfold lopp. rewrite eval_lscale, inj_opp, inj_1. ring. Qed.
Lemma eval_scal c l : eval (scal c l) = cev c * evalq l.
Proof.
  induction l as [|t l IH]; cbn [scal map eval evalq fst snd]; [ring|].
  fold (scal c l). rewrite IH, cev_smul. ring.
Qed.
Lemma eval_lsum {A} (f : A -> comb) l :
  eval (lsum f l) = fold_right (fun x acc => eval (f x) + acc) 0 l.
Proof. induction l as [|x l IH]; cbn [lsum flat_map fold_right eval]; [reflexivity|].
  rewrite eval_app. fold (lsum f l). now rewrite IH. Qed.

(* substituting a value for a parameter agrees with evaluating at that value *)
Lemma cev_subst a b x :
  (forall v, a = Some v -> alpha = inj v) -> (forall v, b = Some v -> beta = inj v) ->
  cev (csubst a b x) = cev x.
Proof.
  intros Ha Hb. destruct x as [[x1 xa] xb]. unfold csubst.
  destruct a as [va|], b as [vb|]; cbn [cev];
    rewrite ?(Ha _ eq_refl), ?(Hb _ eq_refl), ?inj_add, ?inj_mul, ?inj_0; ring.
Qed.
Lemma eval_lsubst a b l :
  (forall v, a = Some v -> alpha = inj v) -> (forall v, b = Some v -> beta = inj v) ->
  eval (lsubst a b l) = eval l.
Proof.
  intros Ha Hb. induction l as [|t l IH]; cbn [lsubst map eval fst snd]; [reflexivity|].
  fold (lsubst a b l). now rewrite IH, cev_subst.
Qed.

(* --- soundness of the decision procedure (needs symmetric G) --- *)
Hypothesis Gsym : forall a b, G a b = G b a.

Lemma kev_canon k : kev (kcanon k) = kev k.
Proof. destruct k as [a b]. unfold kcanon. destruct (oleb a b); [reflexivity|]. unfold kev. cbn [fst snd]. apply Gsym. Qed.

Lemma eval_add_term c k l : eval (add_term c k l) = cev c * kev k + eval l.
Proof.
  induction l as [|t l IH]; cbn [add_term eval fst snd]; [ring|].
  destruct (keqb k (snd t)) eqn:E.
  - apply keqb_eq in E. subst k. cbn [eval fst snd]. rewrite cev_plus. ring.
  - cbn [eval]. rewrite IH. ring.
Qed.
Lemma eval_merge l : eval (merge l) = eval l.
Proof.
  induction l as [|t l IH]; cbn [merge fold_right eval]; [reflexivity|].
  fold (merge l). now rewrite eval_add_term, IH, kev_canon.
Qed.
Lemma eval_nonzero l : eval (nonzero l) = eval l.
Proof.
  induction l as [|t l IH]; cbn [nonzero filter eval]; [reflexivity|]. fold (nonzero l).
  destruct (ceqb (fst t) czero) eqn:E; cbn [negb eval].
  - apply ceqb_eq in E. rewrite E, cev_zero, IH. ring.
  - now rewrite IH.
Qed.
Lemma eval_norm l : eval (norm l) = eval l.
Proof. unfold norm. now rewrite eval_nonzero, eval_merge. Qed.
Lemma zerob_sound l : zerob l = true -> eval l = 0.
Proof.
  unfold zerob. rewrite <- (eval_merge l). generalize (merge l) as m.
  induction m as [|t m IH]; cbn [forallb eval]; [reflexivity|].
  rewrite andb_true_iff. intros [E Hm]. apply ceqb_eq in E. rewrite E, cev_zero, (IH Hm). ring.
Qed.
Theorem equivb_sound a b : equivb a b = true -> eval a = eval b.
Proof.
  unfold equivb. intros H. apply zerob_sound in H. rewrite eval_app, eval_lopp in H.
  assert (E : eval a = (eval a + - eval b) + eval b) by ring. rewrite E, H. ring.
Qed.
End Eval.

(* ------------------------------------------------------------------ *)
(* Level 2: the formal derivative is the derivative                    *)
(* ------------------------------------------------------------------ *)
Section Deriv.
Context {R : Type} (K : Fops R) (Kr : is_ring K).
Add Ring KR2 : Kr.
Local Open Scope F_scope.
Notation "0" := (f0 K) : F_scope.
Notation "1" := (f1 K) : F_scope.
Infix "+" := (fadd K) : F_scope.
Infix "*" := (fmul K) : F_scope.
Infix "-" := (fsub K) : F_scope.
Notation "- x" := (fopp K x) : F_scope.

Variable inj : Qc -> R.
Hypothesis Hinj : is_qhom K inj.
Variables (alpha beta : R).
(* three derivations of the ring ("d/dx, d/dy, d/dz" on functions of r) *)
Variable D : axis -> R -> R.
Hypothesis D_add : forall k x y, D k (x + y) = D k x + D k y.
Hypothesis D_mul : forall k x y, D k (x * y) = D k x * y + x * D k y.
(* the scalars are constants *)
Hypothesis D_inj : forall k q, D k (inj q) = 0.
Hypothesis D_alpha : forall k, D k alpha = 0.
Hypothesis D_beta : forall k, D k beta = 0.

Lemma D_0 k : D k 0 = 0.
Proof.
  assert (E : D k 0 + D k 0 = D k 0) by (rewrite <- D_add; f_equal; ring).
  assert (E2 : D k 0 = (D k 0 + D k 0) - D k 0) by ring. rewrite E in E2. rewrite E2. ring.
Qed.
Lemma D_cev k c : D k (cev K inj alpha beta c) = 0.
Proof. destruct c as [[c1 ca] cb]. cbn [cev]. rewrite !D_add, !D_mul, !D_inj, D_alpha, D_beta. ring. Qed.

(* (a) abstract symbols obeying the product rule *)
Section Abstract.
Variable G : order -> order -> R.
Hypothesis DG : forall k a b, D k (G a b) = G (osucc k a) b + G a (osucc k b).

Lemma eval_dk k l : eval K inj alpha beta G (dk k l) = D k (eval K inj alpha beta G l).
Proof.
  induction l as [|t l IH]; cbn [dk flat_map eval].
  - now rewrite D_0.
  - fold (dk k l). rewrite (eval_app K Kr), IH, D_add, D_mul, D_cev.
    destruct t as [c [a b]]. cbn [dkey map eval fst snd kev]. unfold kev; cbn [fst snd]. rewrite DG. ring.
Qed.
Lemma evalq_dkq k l : evalq K inj G (dkq k l) = D k (evalq K inj G l).
Proof.
  induction l as [|t l IH]; cbn [dkq flat_map evalq].
  - now rewrite D_0.
  - fold (dkq k l).
    assert (App : forall a b, evalq K inj G (a ++ b) = evalq K inj G a + evalq K inj G b).
    { intros a b. induction a as [|u a IHa]; cbn [app evalq]; [ring|]. rewrite IHa. ring. }
    rewrite App, IH, D_add, D_mul, D_inj.
    destruct t as [c [a b]]. cbn [dkey map evalq fst snd kev]. unfold kev; cbn [fst snd]. rewrite DG. ring.
Qed.
End Abstract.

(* (b) the symbols of the density matrix: G o1 o2 = sum_ab P_ab phi^o1_a phi^o2_b *)
Variable nb : nat.
Variable P : nat -> nat -> R.
Variable phi : order -> nat -> R.
Hypothesis D_P : forall k a b, D k (P a b) = 0.
Hypothesis D_phi : forall k o a, D k (phi o a) = phi (osucc k o) a.

Notation sum := (sumn 0 (fadd K)).
Definition Gphi (o1 o2 : order) : R :=
  sum nb (fun a => sum nb (fun b => P a b * phi o1 a * phi o2 b)).

Lemma sum_add n f g : sum n (fun i => f i + g i) = sum n f + sum n g.
Proof. induction n as [|n IH]; cbn [sumn]; [ring|]. rewrite IH. ring. Qed.
Lemma D_sum k n f : D k (sum n f) = sum n (fun i => D k (f i)).
Proof. induction n as [|n IH]; cbn [sumn]; [apply D_0|]. now rewrite D_add, IH. Qed.
Lemma sum_swap n m (f : nat -> nat -> R) :
  sum n (fun a => sum m (fun b => f a b)) = sum m (fun b => sum n (fun a => f a b)).
Proof.
  induction n as [|n IH]; cbn [sumn].
  - induction m as [|m IHm]; cbn [sumn]; [reflexivity|]. rewrite <- IHm. ring.
  - rewrite IH, <- sum_add. reflexivity.
Qed.

Lemma Gphi_deriv k a b : D k (Gphi a b) = Gphi (osucc k a) b + Gphi a (osucc k b).
Proof.
  unfold Gphi. rewrite D_sum, <- sum_add. apply sumn_ext. intros i _.
  rewrite D_sum, <- sum_add. apply sumn_ext. intros j _.
  rewrite !D_mul, D_P, !D_phi. ring.
Qed.
Lemma Gphi_sym : (forall a b, P a b = P b a) -> forall o1 o2, Gphi o1 o2 = Gphi o2 o1.
Proof.
  intros Ps o1 o2. unfold Gphi. rewrite sum_swap. apply sumn_ext. intros i _.
  apply sumn_ext. intros j _. rewrite (Ps j i). ring.
Qed.
Theorem eval_dk_phi k l : eval K inj alpha beta Gphi (dk k l) = D k (eval K inj alpha beta Gphi l).
Proof. apply eval_dk. apply Gphi_deriv. Qed.
End Deriv.

(* ------------------------------------------------------------------ *)
(* The hypotheses of level 2, packaged (used to state Props/C15.v)     *)
(* ------------------------------------------------------------------ *)
Record dmodel {R : Type} (K : Fops R) := mkdmodel {
  m_inj : Qc -> R;                 (* the rationals inside the ring *)
  m_alpha : R; m_beta : R;         (* the two parameters *)
  m_D : axis -> R -> R;            (* d/dx, d/dy, d/dz *)
  m_nb : nat;                      (* number of basis functions *)
  m_P : nat -> nat -> R;           (* density matrix *)
  m_phi : order -> nat -> R        (* phi o a = d^o phi_a *)
}.
Arguments m_inj {R K}. Arguments m_alpha {R K}. Arguments m_beta {R K}. Arguments m_D {R K}.
Arguments m_nb {R K}. Arguments m_P {R K}. Arguments m_phi {R K}.

Record dmodel_ok {R : Type} (K : Fops R) (M : dmodel K) : Prop := mkdmodel_ok {
  ok_inj : is_qhom K (m_inj M);
  ok_add : forall k x y, m_D M k (fadd K x y) = fadd K (m_D M k x) (m_D M k y);
  ok_mul : forall k x y, m_D M k (fmul K x y) = fadd K (fmul K (m_D M k x) y) (fmul K x (m_D M k y));
  ok_cinj : forall k q, m_D M k (m_inj M q) = f0 K;
  ok_alpha : forall k, m_D M k (m_alpha M) = f0 K;
  ok_beta : forall k, m_D M k (m_beta M) = f0 K;
  ok_P : forall k a b, m_D M k (m_P M a b) = f0 K;
  ok_phi : forall k o a, m_D M k (m_phi M o a) = m_phi M (osucc k o) a;
  ok_Psym : forall a b, m_P M a b = m_P M b a
}.
(* the symbols and the evaluation of a combination in such a model *)
Definition m_G {R} (K : Fops R) (M : dmodel K) : order -> order -> R :=
  Gphi K (m_nb M) (m_P M) (m_phi M).
Definition m_eval {R} (K : Fops R) (M : dmodel K) : comb -> R :=
  eval K (m_inj M) (m_alpha M) (m_beta M) (m_G K M).
Definition m_evalq {R} (K : Fops R) (M : dmodel K) : qcomb -> R :=
  evalq K (m_inj M) (m_G K M).
