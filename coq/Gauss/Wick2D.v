(* Gauss/Wick2D.v — bivariate Gaussian moments by Wick's (Isserlis') recursion,
   over any field (only ring identities are used).

   (y1, y2) centred Gaussian with covariance ((s11 s12) (s12 s22));
     M i k = E[(y1 + a1)^i (y2 + c1)^k].
   DEFINITION (raising the first exponent; the marginal of the second variable is
   the univariate recursion):
     M 0 0 = 1
     M 0 (k+1) = c1 M 0 k + k s22 M 0 (k-1)
     M (i+1) k = a1 M i k + i s11 M (i-1) k + k s12 M i (k-1)
   THEOREMS
     wick_second_rule : M i (k+1) = c1 M i k + k s22 M i (k-1) + i s12 M (i-1) k      (all i k)
     M_swap           : M[a1 c1 s11 s12 s22] i k = M[c1 a1 s22 s12 s11] k i         (roles exchanged)
     M_unique         : a family with M 0 0 = 1 obeying both rules is M
     M_i0 / M_0k      : the marginals are the one-dimensional Gaussian moments of Moment1D
                        (S3 with variance s11 resp. s22)
     etransfer_gen    : if c1 + r a1 = coef, s12 + r s11 = h, s22 + r s12 = h then
                        M i (k+1) = coef M i k + h i M (i-1) k + h k M i (k-1) - r M (i+1) k
   and, in section ERI, the instance used by the electron-repulsion code
   (DESIGN.md 2.4: s = t^2, rho = p q/(p+q)):
     s11 = (1 - s rho/p)/(2p)   s12 = s/(2(p+q))   s22 = (1 - s rho/q)/(2q)
     a1 = PA - s (rho/p) PQ     c1 = QC + s (rho/q) PQ
     etransfer_correct : M i (k+1) = (QC + (p/q) PA) M i k + i/(2q) M (i-1) k + k/(2q) M i (k-1)
                                     - (p/q) M (i+1) k        for every s, i, k. *)
From Coq Require Import List Arith Lia Field.
From GB Require Import Base.Field Gauss.Moment1D.
Import ListNotations.

Section Wick2D.
Context {F : Type} (K : Fops F) (Kf : is_field K).
Add Field KFw : Kf.
Local Open Scope F_scope.
Notation "0" := (f0 K) : F_scope.
Notation "1" := (f1 K) : F_scope.
Infix "+" := (fadd K) : F_scope.
Infix "*" := (fmul K) : F_scope.
Infix "-" := (fsub K) : F_scope.
Notation "- x" := (fopp K x) : F_scope.
Notation "# n" := (ofnat K n) (at level 5) : F_scope.

(* n * f (n-1), with the boundary convention 0 * (anything) = 0 *)
Definition lo (n : nat) (f : nat -> F) : F := match n with O => 0 | S n' => #n * f n' end.
Lemma lo_0 f : lo 0 f = 0. Proof. reflexivity. Qed.
Lemma lo_S n f : lo (S n) f = #(S n) * f n. Proof. reflexivity. Qed.
Lemma lo_ext n f g : (forall j, j < n -> f j = g j) -> lo n f = lo n g.
Proof. intros H. destruct n as [|n]; [reflexivity|]. rewrite !lo_S, H by lia. reflexivity. Qed.
(* the form the array code uses: n * f (n - 1) with truncated subtraction *)
Lemma lo_pred n f : lo n f = #n * f (n - 1)%nat.
Proof. destruct n as [|n]; [cbn [lo ofnat]; ring|]. rewrite lo_S. now replace (S n - 1)%nat with n by lia. Qed.

Variables (a1 c1 s11 s12 s22 : F).

(* marginal of the second variable: U k = E[(y2 + c1)^k] *)
Fixpoint U2 (k : nat) : F * F :=            (* (U k, U (k+1)) *)
  match k with
  | O => (1, c1)
  | S k' => let '(x, y) := U2 k' in (y, c1 * y + #(S k') * s22 * x)
  end.
Definition U k := fst (U2 k).
Lemma U_0 : U 0 = 1. Proof. reflexivity. Qed.
Lemma U_1 : U 1 = c1. Proof. reflexivity. Qed.
Lemma U_SS k : U (S (S k)) = c1 * U (S k) + #(S k) * s22 * U k.
Proof. unfold U. cbn [U2]. destruct (U2 k) as [x y]. reflexivity. Qed.
Lemma U_S k : U (S k) = c1 * U k + s22 * lo k U.
Proof. destruct k as [|k]; [rewrite U_1, U_0, lo_0; ring|]. rewrite U_SS, lo_S. ring. Qed.

Fixpoint M2 (i : nat) : (nat -> F) * (nat -> F) :=       (* (M i, M (i+1)) *)
  match i with
  | O => (U, fun k => a1 * U k + s12 * lo k U)
  | S i' => let '(Mi, Mi1) := M2 i' in
            (Mi1, fun k => a1 * Mi1 k + #(S i') * s11 * Mi k + s12 * lo k Mi1)
  end.
Definition M (i : nat) : nat -> F := fst (M2 i).

Lemma M_0 k : M 0 k = U k. Proof. reflexivity. Qed.
Lemma M_00 : M 0 0 = 1. Proof. reflexivity. Qed.
Lemma M_1 k : M 1 k = a1 * U k + s12 * lo k U. Proof. reflexivity. Qed.
Lemma M_SS i k : M (S (S i)) k = a1 * M (S i) k + #(S i) * s11 * M i k + s12 * lo k (M (S i)).
Proof. unfold M. cbn [M2]. destruct (M2 i) as [Mi Mi1]. reflexivity. Qed.

(* the defining rule, uniform in i: raising the exponent of y1 + a1 *)
Theorem wick_first_rule i k :
  M (S i) k = a1 * M i k + s11 * lo i (fun i' => M i' k) + s12 * lo k (M i).
Proof.
  destruct i as [|i].
  - rewrite M_1, lo_0. change (M 0) with U. ring.
  - rewrite M_SS, lo_S. ring.
Qed.

(* the rule for the second variable *)
Definition R2 (i k : nat) : Prop :=
  M i (S k) = c1 * M i k + s22 * lo k (M i) + s12 * lo i (fun i' => M i' k).

Lemma R2_0 k : R2 0 k.
Proof. unfold R2. change (M 0) with U. rewrite U_S, lo_0. ring. Qed.

Lemma R2_1 k : R2 1 k.
Proof.
  unfold R2. rewrite !M_1, !lo_S. change (M 0) with U.
  destruct k as [|k].
  - rewrite !lo_0, U_1, U_0. cbn [ofnat]. ring.
  - rewrite !lo_S, M_1, (U_S (S k)), lo_S, (U_S k). cbn [ofnat]. ring.
Qed.

Lemma R2_SS i : (forall k, R2 i k) -> (forall k, R2 (S i) k) -> forall k, R2 (S (S i)) k.
Proof.
  intros H0 H1 k. unfold R2 in *.
  rewrite (wick_first_rule (S i) (S k)), !lo_S, (H1 k), (H0 k), !lo_S.
  rewrite (wick_first_rule (S i) k), !lo_S.
  destruct k as [|k].
  - rewrite !lo_0. rewrite (wick_first_rule i 0%nat), lo_0. cbn [ofnat]. ring.
  - rewrite !lo_S. rewrite (wick_first_rule (S i) k), !lo_S.
    pose proof (wick_first_rule i (S k)) as E1. rewrite lo_S in E1.
    pose proof (H1 k) as E2. rewrite lo_S in E2.
    change (#(S (S k))) with (1 + #(S k)). change (#(S (S i))) with (1 + #(S i)).
    set (sk := #(S k)) in *. set (si := #(S i)) in *.
    set (X := M (S i) (S k)) in *. set (y := M i k) in *.
    set (A := M i (S k)) in *. set (B := M (S i) k) in *.
    set (Li := lo i (fun i' => M i' (S k))) in *. set (Lk := lo k (M (S i))) in *.
    match type of E1 with _ = ?e1 => match type of E2 with _ = ?e2 =>
      transitivity (c1 * (a1 * X + s11 * (si * A) + s12 * (sk * B))
                    + s22 * (sk * (a1 * B + s11 * (si * y) + s12 * Lk)) + s12 * ((1 + si) * X)
                    + s12 * si * (e1 - X) - s12 * sk * (e2 - X));
      [ring | rewrite <- E1, <- E2; ring] end end.
Qed.

Theorem wick_second_rule i k :
  M i (S k) = c1 * M i k + s22 * lo k (M i) + s12 * lo i (fun i' => M i' k).
Proof.
  assert (H : forall j, (forall n, R2 j n) /\ (forall n, R2 (S j) n)).
  { induction j as [|j [IH0 IH1]]; split.
    - apply R2_0. - apply R2_1. - exact IH1. - now apply R2_SS. }
  apply (H i).
Qed.

(* uniqueness: the two rules and the value at (0,0) determine the family *)
Theorem M_unique (N : nat -> nat -> F) :
  N 0%nat 0%nat = 1 ->
  (forall k, N 0%nat (S k) = c1 * N 0%nat k + s22 * lo k (N 0%nat)) ->
  (forall i k, N (S i) k = a1 * N i k + s11 * lo i (fun i' => N i' k) + s12 * lo k (N i)) ->
  forall i k, N i k = M i k.
Proof.
  intros N00 N0 N1.
  assert (HU : forall k, N 0%nat k = U k /\ N 0%nat (S k) = U (S k)).
  { induction k as [|k [IH0 IH1]].
    - split; [now rewrite N00, U_0|]. rewrite N0, N00, U_1, lo_0. ring.
    - split; [exact IH1|]. rewrite N0, IH1, lo_S, IH0, U_SS. ring. }
  assert (H : forall i, (forall k, N i k = M i k) /\ (forall k, N (S i) k = M (S i) k)).
  { induction i as [|i [IH0 IH1]].
    - split; [intros k; rewrite M_0; apply HU|].
      intros k. rewrite N1, lo_0, M_1. rewrite (proj1 (HU k)).
      rewrite (lo_ext k (N 0%nat) U) by (intros; apply HU). ring.
    - split; [exact IH1|]. intros k. rewrite N1, lo_S, M_SS, IH1, IH0.
      rewrite (lo_ext k (N (S i)) (M (S i))) by (intros; apply IH1). ring. }
  intros i k. apply (H i).
Qed.

(* the marginal of the first variable obeys the univariate recursion with variance s11 *)
Lemma M_S0 i : M (S i) 0 = a1 * M i 0 + s11 * lo i (fun i' => M i' 0%nat).
Proof. rewrite wick_first_rule, lo_0. ring. Qed.

(* the marginals are the one-dimensional Gaussian moments of Moment1D *)
Lemma M_0k k : M 0 k = S3 K s22 c1 0 0 0 0 k 0 /\ M 0 (S k) = S3 K s22 c1 0 0 0 0 (S k) 0.
Proof.
  induction k as [|k [IH0 IH1]].
  - split; [rewrite M_00; symmetry; apply (S3_000 K Kf)|].
    rewrite M_0, U_1, (OS3_a K Kf), (S3_000 K Kf). unfold lower, dn. ring.
  - split; [exact IH1|]. rewrite M_0, U_SS, (OS3_a K Kf). unfold lower, dn.
    rewrite <- IH1, <- IH0. change (M 0) with U. ring.
Qed.
Lemma M_i0 i : M i 0 = S3 K s11 a1 0 0 0 0 i 0 /\ M (S i) 0 = S3 K s11 a1 0 0 0 0 (S i) 0.
Proof.
  induction i as [|i [IH0 IH1]].
  - split; [rewrite M_00; symmetry; apply (S3_000 K Kf)|].
    rewrite M_S0, lo_0, M_00, (OS3_a K Kf), (S3_000 K Kf). unfold lower, dn. ring.
  - split; [exact IH1|]. rewrite M_S0, lo_S, (OS3_a K Kf). unfold lower, dn.
    rewrite <- IH1, <- IH0. ring.
Qed.

(* electron transfer, abstract form: trade one power of (y1 + a1) for one of (y2 + c1) *)
Theorem etransfer_gen (r coef h : F) :
  c1 + r * a1 = coef -> s12 + r * s11 = h -> s22 + r * s12 = h ->
  forall i k, M i (S k) = coef * M i k + h * lo i (fun i' => M i' k) + h * lo k (M i) - r * M (S i) k.
Proof.
  intros Hc H1 H2 i k. rewrite wick_second_rule, wick_first_rule, <- Hc.
  rewrite <- H1 at 1. rewrite <- H2. ring.
Qed.

End Wick2D.

(* exchanging the roles of the two variables *)
Section Swap.
Context {F : Type} (K : Fops F) (Kf : is_field K).
Add Field KFws : Kf.
Variables (a1 c1 s11 s12 s22 : F).
Let N i k := M K c1 a1 s22 s12 s11 k i.
Lemma swap_rule_k k : N 0 (S k) = fadd K (fmul K c1 (N 0 k)) (fmul K s22 (lo K k (N 0))).
Proof. unfold N. rewrite (wick_first_rule K Kf), lo_0. ring. Qed.
Lemma swap_rule_i i k :
  N (S i) k = fadd K (fadd K (fmul K a1 (N i k)) (fmul K s11 (lo K i (fun i' => N i' k))))
                     (fmul K s12 (lo K k (N i))).
Proof. unfold N. rewrite (wick_second_rule K Kf).
  change (fun i' : nat => M K c1 a1 s22 s12 s11 k i') with (M K c1 a1 s22 s12 s11 k). ring. Qed.
Theorem M_swap i k : M K a1 c1 s11 s12 s22 i k = M K c1 a1 s22 s12 s11 k i.
Proof. symmetry.
  apply (M_unique K Kf a1 c1 s11 s12 s22 N); [reflexivity|exact swap_rule_k|exact swap_rule_i]. Qed.
End Swap.

(* ---- the instance of the electron-repulsion integrals (one axis, one value of s = t^2) ---- *)
Section ERI.
Context {F : Type} (K : Fops F) (Kf : is_field K).
Add Field KFwe : Kf.
Local Open Scope F_scope.
Notation "0" := (f0 K) : F_scope.
Notation "1" := (f1 K) : F_scope.
Infix "+" := (fadd K) : F_scope.
Infix "*" := (fmul K) : F_scope.
Infix "-" := (fsub K) : F_scope.
Infix "/" := (fdiv K) : F_scope.
Notation "# n" := (ofnat K n) (at level 5) : F_scope.

Variables (p q PA QC PQ : F).       (* p = alpha+beta, q = gamma+delta, P-A, Q-C, P-Q along the axis *)
Hypothesis Hp : p <> 0.
Hypothesis Hq : q <> 0.
Hypothesis Hpq : p + q <> 0.
Hypothesis H2 : 1 + 1 <> 0.

Definition rho : F := p * q / (p + q).
Definition sig11 (s : F) : F := (1 - s * (rho / p)) / ((1 + 1) * p).
Definition sig12 (s : F) : F := s / ((1 + 1) * (p + q)).
Definition sig22 (s : F) : F := (1 - s * (rho / q)) / ((1 + 1) * q).
Definition mean1 (s : F) : F := PA - s * (rho / p) * PQ.
Definition mean2 (s : F) : F := QC + s * (rho / q) * PQ.

(* the per-axis integrand of (a0|c0) at s = t^2 *)
Definition Ms (s : F) (i k : nat) : F := M K (mean1 s) (mean2 s) (sig11 s) (sig12 s) (sig22 s) i k.

Lemma eri_cancel_mean s : mean2 s + p / q * mean1 s = QC + p / q * PA.
Proof. unfold mean1, mean2, rho. field. repeat split; assumption. Qed.
Lemma eri_cancel_1 s : sig12 s + p / q * sig11 s = 1 / ((1 + 1) * q).
Proof. unfold sig12, sig11, rho. field. repeat split; assumption. Qed.
Lemma eri_cancel_2 s : sig22 s + p / q * sig12 s = 1 / ((1 + 1) * q).
Proof. unfold sig12, sig22, rho. field. repeat split; assumption. Qed.

(* _two_elec_int.py:413-526, for the exact integrand at every s:
   E[c+1][a] = (QC + (p/q) PA) E[c][a] + a/(2q) E[c][a-1] + c/(2q) E[c-1][a] - (p/q) E[c][a+1] *)
Theorem etransfer_correct s a c :
  Ms s a (S c) = (QC + p / q * PA) * Ms s a c
                 + #a / ((1 + 1) * q) * Ms s (a - 1) c
                 + #c / ((1 + 1) * q) * Ms s a (c - 1)
                 - p / q * Ms s (S a) c.
Proof.
  unfold Ms.
  rewrite (etransfer_gen K Kf _ _ _ _ _ (p / q) (QC + p / q * PA) (1 / ((1 + 1) * q))
             (eri_cancel_mean s) (eri_cancel_1 s) (eri_cancel_2 s)).
  rewrite !(lo_pred K Kf). field. split; assumption.
Qed.
End ERI.
