(* Gauss/Bridge.v — algebraic half of the analytic bridge (B1) of DESIGN.md 2.6, over any field.

   Polynomials in y = x - P are coefficient lists (low degree first), as in Gauss/Moment1D.v.
   [gderiv p f] is the polynomial q with  d/dy [ f(y) e^{-p y^2} ] = q(y) e^{-p y^2},
   i.e. q = f' - 2 p y f   (proved as [is_derive] over R in Gauss/BridgeR.v).

   UNIQUENESS ([bridge_uniqueness]): a functional I on coefficient lists that is additive for
   [padd], homogeneous for [pscale] and vanishes on [gderiv p (y^n)] for every n equals
   I [1] * E, where E is the moment functional of Moment1D.v with v = 1/(2p) (given division-free
   as 2 p v = 1).  Nothing is assumed about trailing zeros or extensional equality of lists: it
   follows.  CONVERSE ([E_linear], [E_kills_derivatives]): E satisfies these laws, for every f.
   Hence [bridge_characterisation]: among linear functionals, "kills derivatives of
   polynomial x Gaussian" <-> "is a multiple of E".

   Also: the Gaussian product identity a(x-A)^2 + b(x-B)^2 = p(x-P)^2 + mu(A-B)^2.
   No axioms, no ordered structure, no ofnat-injectivity needed. *)
From Coq Require Import List Arith Lia Field.
From GB Require Import Base.Field Gauss.Moment1D.
Import ListNotations.

Section Bridge.
Context {F : Type} (K : Fops F) (Kf : is_field K).
Add Field KFbr : Kf.
Local Open Scope F_scope.
Notation "0" := (f0 K) : F_scope.
Notation "1" := (f1 K) : F_scope.
Infix "+" := (fadd K) : F_scope.
Infix "*" := (fmul K) : F_scope.
Infix "-" := (fsub K) : F_scope.
Infix "/" := (fdiv K) : F_scope.
Notation "- x" := (fopp K x) : F_scope.
Notation "# n" := (ofnat K n) (at level 5) : F_scope.

Notation poly := (list F).
Notation padd := (padd K).
Notation pscale := (pscale K).
Notation pshift := (pshift K).
Notation pderiv := (pderiv K).
Notation pderiv_aux := (pderiv_aux K).

(* ------------------------------------------------------------------ *)
(* 1. the moment sequence is the only solution of the Gaussian recurrence *)

Section Sequence.
Variables p v : F.
Hypothesis Hpv : (1 + 1) * p * v = 1.          (* v = 1/(2p), division-free *)

(* J 1 = 0 and n J(n-1) - 2p J(n+1) = 0 for n >= 1 (written with n-1 =: n) *)
Definition gauss_moment_laws (J : nat -> F) : Prop :=
  J 1%nat = 0 /\ forall n, #(S n) * J n - (1 + 1) * p * J (S (S n)) = 0.

Lemma moments_unique (J : nat -> F) :
  gauss_moment_laws J -> forall n, J n = J 0%nat * mom K v n.
Proof.
  intros [H1 Hrec].
  assert (Hstep : forall n, J (S (S n)) = #(S n) * v * J n).
  { intro n. pose proof (Hrec n) as Hn.
    assert (E1 : #(S n) * J n = (1 + 1) * p * J (S (S n))).
    { transitivity (#(S n) * J n - (1 + 1) * p * J (S (S n)) + (1 + 1) * p * J (S (S n))); [ring|].
      rewrite Hn. ring. }
    transitivity (((1 + 1) * p * v) * J (S (S n))); [rewrite Hpv; ring|].
    transitivity (v * ((1 + 1) * p * J (S (S n)))); [ring|]. rewrite <- E1. ring. }
  assert (Hboth : forall n, J n = J 0%nat * mom K v n /\ J (S n) = J 0%nat * mom K v (S n)).
  { induction n as [|n [IH0 IH1]].
    - split; [rewrite mom_0; ring | rewrite mom_1, H1; ring].
    - split; [exact IH1|]. rewrite Hstep, (mom_SS K), IH0. ring. }
  intro n. apply Hboth.
Qed.

(* converse: every multiple of the moment sequence satisfies the laws *)
Lemma mom_satisfies_laws (c0 : F) : gauss_moment_laws (fun n => c0 * mom K v n).
Proof.
  split; [rewrite mom_1; ring|]. intro n. rewrite (mom_SS K).
  transitivity (#(S n) * (c0 * mom K v n) * (1 - (1 + 1) * p * v)); [ring|]. rewrite Hpv. ring.
Qed.
End Sequence.

(* ------------------------------------------------------------------ *)
(* 2. a linear ([plinear]) functional on coefficient lists is determined by its values on monomials *)

Fixpoint shiftn (n : nat) (f : poly) : poly :=      (* y^n f *)
  match n with O => f | S k => 0 :: shiftn k f end.
Definition mono (n : nat) : poly := shiftn n [1].   (* y^n *)

Fixpoint Jsum (J : nat -> F) (n : nat) (f : poly) : F :=   (* sum_k f_k J(n+k) *)
  match f with [] => 0 | c :: f' => c * J n + Jsum J (S n) f' end.

Definition plinear (I : poly -> F) : Prop :=
  (forall f g, I (padd f g) = I f + I g) /\ (forall c f, I (pscale c f) = c * I f).

Lemma shiftn_cons n c f : shiftn n (c :: f) = padd (pscale c (mono n)) (shiftn (S n) f).
Proof.
  induction n as [|n IH].
  - cbn. f_equal. ring.
  - change (shiftn (S n) (c :: f)) with (0 :: shiftn n (c :: f)).
    change (mono (S n)) with (0 :: mono n).
    change (shiftn (S (S n)) f) with (0 :: shiftn (S n) f).
    change (pscale c (0 :: mono n)) with ((c * 0) :: pscale c (mono n)).
    cbn [Moment1D.padd]. rewrite <- IH. f_equal. ring.
Qed.

Lemma shiftn_nil_zero n : shiftn n [] = pscale 0 (shiftn n []).
Proof. induction n as [|n IH]; [reflexivity|]. cbn [shiftn Moment1D.pscale map].
  fold (pscale 0 (shiftn n [])). rewrite <- IH. f_equal. ring. Qed.

Lemma linear_expand (I : poly -> F) : plinear I ->
  forall f n, I (shiftn n f) = Jsum (fun k => I (mono k)) n f.
Proof.
  intros [Hadd Hsc]. induction f as [|c f IH]; intro n.
  - cbn [Jsum]. rewrite shiftn_nil_zero, Hsc. ring.
  - rewrite shiftn_cons, Hadd, Hsc, IH. reflexivity.
Qed.

Corollary linear_determined (I : poly -> F) : plinear I ->
  forall f, I f = Jsum (fun k => I (mono k)) 0 f.
Proof. intros H f. exact (linear_expand I H f 0%nat). Qed.

(* Jsum against the moment sequence is Eaux *)
Lemma Jsum_ext J J' : (forall n, J n = J' n) -> forall f n, Jsum J n f = Jsum J' n f.
Proof. intros H. induction f as [|c f IH]; intro n; cbn [Jsum]; [reflexivity|]. now rewrite H, IH. Qed.

Lemma Jsum_mom v c0 f : forall n, Jsum (fun k => c0 * mom K v k) n f = c0 * Eaux K v n f.
Proof. induction f as [|c f IH]; intro n; cbn [Jsum Eaux]; [ring|]. rewrite IH. ring. Qed.

(* Jsum is linear and computes on shifted / differentiated monomials *)
Lemma Jsum_padd J n f g : Jsum J n (padd f g) = Jsum J n f + Jsum J n g.
Proof. revert n g; induction f as [|a f IH]; intros n g; cbn [Moment1D.padd Jsum]; [ring|].
  destruct g as [|b g]; cbn [Moment1D.padd Jsum]; [ring|]. rewrite IH. ring. Qed.
Lemma Jsum_pscale J n c f : Jsum J n (pscale c f) = c * Jsum J n f.
Proof. revert n; induction f as [|a f IH]; intros n; cbn [Moment1D.pscale map Jsum]; [ring|].
  fold (pscale c f). rewrite IH. ring. Qed.
Lemma Jsum_pshift J n f : Jsum J n (pshift f) = Jsum J (S n) f.
Proof. cbn [Moment1D.pshift Jsum]. ring. Qed.
Lemma Jsum_shiftn J k f : forall n, Jsum J n (shiftn k f) = Jsum J (k + n) f.
Proof. induction k as [|k IH]; intro n; [reflexivity|]. cbn [shiftn Jsum]. rewrite IH.
  replace (k + S n)%nat with (S k + n)%nat by lia. ring. Qed.
Lemma Jsum_mono J n k : Jsum J n (mono k) = J (k + n)%nat.
Proof. unfold mono. rewrite Jsum_shiftn. cbn [Jsum]. ring. Qed.
Lemma Jsum_pderiv_aux_mono J k : forall n j,
  Jsum J n (pderiv_aux j (mono k)) = #(j + k) * J (k + n)%nat.
Proof. induction k as [|k IH]; intros n j.
  - cbn [mono shiftn Moment1D.pderiv_aux Jsum]. rewrite Nat.add_0_r. cbn [Nat.add]. ring.
  - change (mono (S k)) with (0 :: mono k). cbn [Moment1D.pderiv_aux Jsum]. rewrite IH.
    replace (S j + k)%nat with (j + S k)%nat by lia.
    replace (k + S n)%nat with (S k + n)%nat by lia. ring. Qed.

(* ------------------------------------------------------------------ *)
(* 3. functionals that kill derivatives of polynomial x Gaussian *)

Variables p v : F.
Hypothesis Hpv : (1 + 1) * p * v = 1.

(* d/dy [f e^{-p y^2}] = (gderiv f) e^{-p y^2} *)
Definition gderiv (f : poly) : poly := padd (pderiv f) (pscale (- ((1 + 1) * p)) (pshift f)).

Definition kills_derivatives (I : poly -> F) : Prop := forall n, I (gderiv (mono n)) = 0.
Definition kills_all_derivatives (I : poly -> F) : Prop := forall f, I (gderiv f) = 0.

Lemma kills_all_kills I : kills_all_derivatives I -> kills_derivatives I.
Proof. intros H n. apply H. Qed.

Lemma Jsum_gderiv_mono J n :
  Jsum J 0 (gderiv (mono n)) =
  match n with O => 0 | S k => #n * J k end - (1 + 1) * p * J (S n).
Proof.
  unfold gderiv. rewrite Jsum_padd, Jsum_pscale, Jsum_pshift, Jsum_mono.
  replace (n + 1)%nat with (S n) by lia.
  destruct n as [|k].
  - cbn [mono shiftn Moment1D.pderiv Moment1D.pderiv_aux Jsum]. ring.
  - change (mono (S k)) with (0 :: mono k). cbn [Moment1D.pderiv].
    rewrite Jsum_pderiv_aux_mono. rewrite Nat.add_0_r. change (1 + k)%nat with (S k). ring.
Qed.

Lemma kills_gives_laws I : plinear I -> kills_derivatives I ->
  gauss_moment_laws p (fun k => I (mono k)).
Proof.
  intros HL HK. split.
  - pose proof (HK 0%nat) as H0. rewrite (linear_determined I HL), Jsum_gderiv_mono in H0.
    transitivity (v * (- (0 - (1 + 1) * p * I (mono 1)))).
    + transitivity (((1 + 1) * p * v) * I (mono 1)); [rewrite Hpv|]; ring.
    + rewrite H0. ring.
  - intro n. pose proof (HK (S n)) as Hn.
    rewrite (linear_determined I HL), Jsum_gderiv_mono in Hn. exact Hn.
Qed.

(* UNIQUENESS: the bridge functional is c0 * E *)
Theorem bridge_uniqueness (I : poly -> F) :
  plinear I -> kills_derivatives I -> forall f, I f = I [1] * E K v f.
Proof.
  intros HL HK f. rewrite (linear_determined I HL). unfold E.
  rewrite <- Jsum_mom. apply Jsum_ext. intro n.
  exact (moments_unique p v Hpv _ (kills_gives_laws I HL HK) n).
Qed.

Corollary bridge_uniqueness_c0 (I : poly -> F) (c0 : F) :
  plinear I -> kills_derivatives I -> I [1] = c0 -> forall f, I f = c0 * E K v f.
Proof. intros HL HK <-. now apply bridge_uniqueness. Qed.

(* two such functionals with the same value on the bare Gaussian agree everywhere *)
Corollary bridge_unique_pair (I I' : poly -> F) :
  plinear I -> kills_derivatives I -> plinear I' -> kills_derivatives I' ->
  I [1] = I' [1] -> forall f, I f = I' f.
Proof. intros A B C D H f. rewrite (bridge_uniqueness I A B), (bridge_uniqueness I' C D), H. reflexivity. Qed.

(* CONVERSE: E (and every multiple) is linear and kills every derivative *)
Lemma E_linear : plinear (E K v).
Proof. split; intros; unfold E; [apply (Eaux_padd K Kf) | apply (Eaux_pscale K Kf)]. Qed.

Lemma E_kills_derivatives : kills_all_derivatives (E K v).
Proof.
  intro f. unfold gderiv, E. rewrite (Eaux_padd K Kf), (Eaux_pscale K Kf).
  fold (E K v (pshift f)) (E K v (pderiv f)). rewrite (stein K Kf).
  transitivity (E K v (pderiv f) * (1 - (1 + 1) * p * v)); [ring|]. rewrite Hpv. ring.
Qed.

Lemma E_one : E K v [1] = 1.
Proof. unfold E. cbn [Eaux]. rewrite mom_0. ring. Qed.

Lemma cE_linear c0 : plinear (fun f => c0 * E K v f).
Proof. destruct E_linear as [A B]. split; intros; rewrite ?A, ?B; ring. Qed.
Lemma cE_kills c0 : kills_all_derivatives (fun f => c0 * E K v f).
Proof. intro f. rewrite E_kills_derivatives. ring. Qed.

Theorem bridge_characterisation (I : poly -> F) : plinear I ->
  (kills_derivatives I <-> forall f, I f = I [1] * E K v f).
Proof.
  intro HL. split; [now apply bridge_uniqueness|].
  intros H n. rewrite H, E_kills_derivatives. ring.
Qed.

(* consequences that were NOT assumed: I sees only the polynomial, not the list *)
Corollary bridge_trailing_zero (I : poly -> F) : plinear I -> forall f, I (f ++ [0]) = I f.
Proof.
  intros HL f. rewrite !(linear_determined I HL).
  generalize 0%nat. induction f as [|c f IH]; intro n; cbn [app Jsum]; [ring|]. now rewrite IH.
Qed.

End Bridge.

(* ------------------------------------------------------------------ *)
(* 4. Gaussian product identity *)
Section Product.
Context {F : Type} (K : Fops F) (Kf : is_field K).
Add Field KFbp : Kf.
Local Open Scope F_scope.
Infix "+" := (fadd K) : F_scope.
Infix "*" := (fmul K) : F_scope.
Infix "-" := (fsub K) : F_scope.
Infix "/" := (fdiv K) : F_scope.

Theorem gauss_product_identity (al be A B x : F) :
  al + be <> f0 K ->
  let p := al + be in let P := (al * A + be * B) / p in let mu := al * be / p in
  al * ((x - A) * (x - A)) + be * ((x - B) * (x - B))
  = p * ((x - P) * (x - P)) + mu * ((A - B) * (A - B)).
Proof. intros Hp p P mu. unfold P, mu, p. field. exact Hp. Qed.

(* the two displacements P - A, P - B used by the recurrences *)
Lemma gauss_product_PA (al be A B : F) : al + be <> f0 K ->
  (al * A + be * B) / (al + be) - A = be * (B - A) / (al + be).
Proof. intro Hp. field. exact Hp. Qed.
Lemma gauss_product_PB (al be A B : F) : al + be <> f0 K ->
  (al * A + be * B) / (al + be) - B = al * (A - B) / (al + be).
Proof. intro Hp. field. exact Hp. Qed.
End Product.

(* ------------------------------------------------------------------ *)
(* the hypotheses are satisfiable: over Qc with p = 1, v = 1/2, I = 3 * E *)
From Coq Require Import QArith Qcanon.
Section Examples.
Let KQ : Fops Qc := QcK true (Q2Qc 0) (fun x => x) (fun x => x) (fun x => x) (fun _ x => x).
Let KQf : is_field KQ := QcK_field _ _ _ _ _ _.
Let pQ : Qc := Q2Qc 1.
Let vQ : Qc := Q2Qc (1 # 2).
Fact Hpv_Q : fmul KQ (fmul KQ (fadd KQ (f1 KQ) (f1 KQ)) pQ) vQ = f1 KQ.
Proof. apply Qc_is_canon. vm_compute. reflexivity. Qed.

Example bridge_hypotheses_satisfiable :
  exists (I : list Qc -> Qc),
    plinear KQ I /\ kills_derivatives KQ pQ I /\ I [f1 KQ] = Q2Qc 3.
Proof.
  exists (fun f => fmul KQ (Q2Qc 3) (E KQ vQ f)). split; [|split].
  - apply (cE_linear KQ KQf).
  - apply (kills_all_kills KQ). apply (cE_kills KQ KQf pQ vQ Hpv_Q).
  - rewrite (E_one KQ KQf). apply Qc_is_canon. vm_compute. reflexivity.
Qed.

Example gauss_moment_laws_satisfiable :
  gauss_moment_laws KQ pQ (fun n => fmul KQ (Q2Qc 3) (mom KQ vQ n)).
Proof. apply (mom_satisfies_laws KQ KQf pQ vQ Hpv_Q). Qed.
End Examples.

(* the same, packed for Props/BRIDGE.v *)
Lemma bridge_hypotheses_satisfiable_packed :
  exists (F : Type) (K : Fops F) (p v : F) (I : list F -> F),
    is_field K /\ fmul K (fmul K (fadd K (f1 K) (f1 K)) p) v = f1 K /\
    plinear K I /\ kills_derivatives K p I /\ I [f1 K] <> f0 K.
Proof.
  set (KQ := QcK true (Q2Qc 0) (fun x => x) (fun x => x) (fun x => x) (fun _ x => x)).
  assert (KQf : is_field KQ) by apply QcK_field.
  assert (Hpv : fmul KQ (fmul KQ (fadd KQ (f1 KQ) (f1 KQ)) (Q2Qc 1)) (Q2Qc (1 # 2)) = f1 KQ)
    by (apply Qc_is_canon; vm_compute; reflexivity).
  exists Qc, KQ, (Q2Qc 1), (Q2Qc (1 # 2)), (fun f => fmul KQ (Q2Qc 3) (E KQ (Q2Qc (1 # 2)) f)).
  split; [exact KQf|]. split; [exact Hpv|]. split; [|split].
  - apply (cE_linear KQ KQf).
  - apply (kills_all_kills KQ). apply (cE_kills KQ KQf _ _ Hpv).
  - rewrite (E_one KQ KQf). intro H. apply (f_equal this) in H. vm_compute in H. discriminate H.
Qed.
