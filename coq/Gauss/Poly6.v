(* Gauss/Poly6.v — polynomials in SIX variables (y1 in R^3 for electron 1, y2 in R^3 for electron 2), the
   six-dimensional Gaussian moment functional with covariance  [[s11 I, s12 I], [s12 I, s22 I]]  and means (a1, c1),
   and its behaviour under the SIMULTANEOUS orthogonal substitution (Q + Q).  Any field, no analysis, no axioms.

   A monomial is a pair of exponent triples (Poly3.mon * Poly3.mon); a polynomial is a monomial list seen through
   the functionals  Jsum6 J f = sum over the entries (m, c) of f of  c * J m   (style of Gauss/Poly3.v).
   Six-variable polynomials are built as TENSOR PRODUCTS  tens f g = f(y1) g(y2)  of three-variable ones, so that the
   whole three-variable development of Poly3.v (substitution, chain rule, products of shifted monomials) is reused:

     E6 f          = Jsum6 M6 f,  M6 (m1, m2) = prod over the axes i of  M_i (m1_i, m2_i),  M_i the bivariate Wick moments
                     of Gauss/Wick2D.v with means (a1 i, c1 i) and the SAME covariance s11, s12, s22 on the three axes
     stein6_1/2    E6 (y1_i f) = a1_i E6 f + s11 E6 (d1_i f) + s12 E6 (d2_i f)
                   E6 (y2_i f) = c1_i E6 f + s12 E6 (d1_i f) + s22 E6 (d2_i f)              (i = x, y, z; every f)
     moments6_unique   a function J on monomials with J(0) = c0 obeying the six recurrences is c0 * M6
     gauss6_uniqueness a linear functional on monomial lists obeying the six Stein rules on monomials is I(1) * E6
     subst6 Q f    = f o (Q + Q): y1_i |-> sum_j Q i j y1_j and y2_i |-> sum_j Q i j y2_j
     subst6_tens   (f (x) g) o (Q + Q) == (f o Q) (x) (g o Q)
     E6_subst6_orth   Q Q^T = 1  ==>  E6[means a1, c1] (f o (Q + Q)) = E6[means Q a1, Q c1] f  for every polynomial f:
                   the functional is covariant under the simultaneous rotation, proper or improper.
     E6_tens_smono  E6 of ((y1+cB)^b y1^a) (x) ((y2+cD)^d y2^c) = product over the axes of the four-index quantities
                   Hf cB_i (fun a' => Hf cD_i (M_i a') d_i c_i) b_i a_i  (the [hh] of Proofs/TwoElecP.v). *)
From Coq Require Import List Arith Lia Field.
From GB Require Import Base.Field Base.FNum Gauss.Moment1D Gauss.Poly3 Gauss.Wick2D.
Import ListNotations.

Definition mon6 := (mon * mon)%type.
Inductive el : Set := E1 | E2.
Definition expo6 (e : el) (i : axis) (m : mon6) : nat :=
  match e with E1 => expo i (fst m) | E2 => expo i (snd m) end.
Definition bump6 (e : el) (i : axis) (m : mon6) : mon6 :=
  match e with E1 => (bump i (fst m), snd m) | E2 => (fst m, bump i (snd m)) end.
Definition mlower6 (e : el) (i : axis) (m : mon6) : mon6 :=
  match e with E1 => (mlower i (fst m), snd m) | E2 => (fst m, mlower i (snd m)) end.
Definition zero6 : mon6 := ((0, 0, 0), (0, 0, 0))%nat.

Section Poly6.
Context {F : Type} (K : Fops F) (Kf : is_field K).
Add Field KFp6 : Kf.
Local Open Scope F_scope.
Notation "0" := (f0 K) : F_scope.
Notation "1" := (f1 K) : F_scope.
Infix "+" := (fadd K) : F_scope.
Infix "*" := (fmul K) : F_scope.
Infix "-" := (fsub K) : F_scope.
Notation "- x" := (fopp K x) : F_scope.
Notation "# n" := (ofnat K n) (at level 5) : F_scope.
Notation poly3 := (poly3 (F:=F)).
Notation Jsum := (Jsum K).

Definition poly6 := list (mon6 * F).
Definition mono6 (m : mon6) : poly6 := [(m, 1)].
Definition one6 : poly6 := mono6 zero6.

(* ------------------------------------------------------------------ *)
(* 1. functionals, operators, adjoints                                  *)
Fixpoint Jsum6 (J : mon6 -> F) (f : poly6) : F :=
  match f with [] => 0 | mc :: f' => snd mc * J (fst mc) + Jsum6 J f' end.
Definition peq6 (f g : poly6) : Prop := forall J, Jsum6 J f = Jsum6 J g.

Definition pscale6 (c : F) (f : poly6) : poly6 := map (fun mc => (fst mc, c * snd mc)) f.
Definition mulv6 (e : el) (i : axis) (f : poly6) : poly6 := map (fun mc => (bump6 e i (fst mc), snd mc)) f.
Definition dv6 (e : el) (i : axis) (f : poly6) : poly6 :=
  map (fun mc => (mlower6 e i (fst mc), #(expo6 e i (fst mc)) * snd mc)) f.
Definition lift6 (T : mon6 -> poly6) (f : poly6) : poly6 :=
  flat_map (fun mc => pscale6 (snd mc) (T (fst mc))) f.

Lemma Jsum6_ext J J' : (forall m, J m = J' m) -> forall f, Jsum6 J f = Jsum6 J' f.
Proof. intros H f. induction f as [|mc f IH]; cbn [Jsum6]; [reflexivity|]. now rewrite H, IH. Qed.
Lemma Jsum6_app J f g : Jsum6 J (f ++ g) = Jsum6 J f + Jsum6 J g.
Proof. induction f as [|mc f IH]; cbn [app Jsum6]; [ring|]. rewrite IH. ring. Qed.
Lemma Jsum6_pscale6 J c f : Jsum6 J (pscale6 c f) = c * Jsum6 J f.
Proof. induction f as [|mc f IH]; cbn [pscale6 map Jsum6 fst snd]; [ring|].
  fold (pscale6 c f). rewrite IH. ring. Qed.
Lemma Jsum6_Jadd J J' f : Jsum6 (fun m => J m + J' m) f = Jsum6 J f + Jsum6 J' f.
Proof. induction f as [|mc f IH]; cbn [Jsum6]; [ring|]. rewrite IH. ring. Qed.
Lemma Jsum6_Jscale c J f : Jsum6 (fun m => c * J m) f = c * Jsum6 J f.
Proof. induction f as [|mc f IH]; cbn [Jsum6]; [ring|]. rewrite IH. ring. Qed.

Definition mulv6T (e : el) (i : axis) (J : mon6 -> F) : mon6 -> F := fun m => J (bump6 e i m).
Definition dv6T (e : el) (i : axis) (J : mon6 -> F) : mon6 -> F :=
  fun m => #(expo6 e i m) * J (mlower6 e i m).
Lemma Jsum6_mulv6 e i J f : Jsum6 J (mulv6 e i f) = Jsum6 (mulv6T e i J) f.
Proof. induction f as [|mc f IH]; cbn [mulv6 map Jsum6 fst snd]; [reflexivity|].
  fold (mulv6 e i f). rewrite IH. reflexivity. Qed.
Lemma Jsum6_dv6 e i J f : Jsum6 J (dv6 e i f) = Jsum6 (dv6T e i J) f.
Proof. induction f as [|mc f IH]; cbn [dv6 map Jsum6 fst snd]; [reflexivity|].
  fold (dv6 e i f). rewrite IH. unfold dv6T. ring. Qed.
Lemma Jsum6_lift6 T J f : Jsum6 J (lift6 T f) = Jsum6 (fun m => Jsum6 J (T m)) f.
Proof. induction f as [|mc f IH]; cbn [lift6 flat_map Jsum6]; [reflexivity|].
  fold (lift6 T f). rewrite Jsum6_app, Jsum6_pscale6, IH. reflexivity. Qed.
Lemma Jsum6_mono6 J m : Jsum6 J (mono6 m) = J m.
Proof. unfold mono6. cbn [Jsum6 fst snd]. ring. Qed.

(* ------------------------------------------------------------------ *)
(* 2. tensor products  f(y1) g(y2)                                      *)
Definition tens (f g : poly3) : poly6 :=
  flat_map (fun mc1 => map (fun mc2 => ((fst mc1, fst mc2), snd mc1 * snd mc2)) g) f.

Lemma Jsum6_tens J f g : Jsum6 J (tens f g) = Jsum (fun m1 => Jsum (fun m2 => J (m1, m2)) g) f.
Proof.
  induction f as [|[m1 k1] f IH]; cbn [tens flat_map Poly3.Jsum fst snd]; [reflexivity|].
  fold (tens f g). rewrite Jsum6_app, IH. f_equal. clear IH.
  induction g as [|[m2 k2] g IHg]; cbn [map Jsum6 Poly3.Jsum fst snd]; [ring|]. rewrite IHg. ring.
Qed.
Lemma Jsum6_tens' J f g : Jsum6 J (tens f g) = Jsum (fun m2 => Jsum (fun m1 => J (m1, m2)) f) g.
Proof. rewrite Jsum6_tens. apply (Jsum_swap K Kf). Qed.
Lemma tens_cong f f' g g' : peq K f f' -> peq K g g' -> peq6 (tens f g) (tens f' g').
Proof.
  intros Hf Hg J. rewrite !Jsum6_tens, Hf. apply Jsum_ext. intro m1. apply Hg.
Qed.
Lemma tens_one : peq6 (tens (one3 K) (one3 K)) one6.
Proof. intro J. rewrite Jsum6_tens. unfold one3, mono3, one6, mono6, zero6. cbn [Poly3.Jsum Jsum6 fst snd].
  unfold mon. ring. Qed.

Lemma tens_mulv1 J i f g : Jsum6 J (tens (mulv i f) g) = Jsum6 J (mulv6 E1 i (tens f g)).
Proof. rewrite Jsum6_mulv6, !Jsum6_tens, (Jsum_mulv K). reflexivity. Qed.
Lemma tens_mulv2 J i f g : Jsum6 J (tens f (mulv i g)) = Jsum6 J (mulv6 E2 i (tens f g)).
Proof. rewrite Jsum6_mulv6, !Jsum6_tens. apply Jsum_ext. intro m1. rewrite (Jsum_mulv K). reflexivity. Qed.
Lemma tens_dv1 J i f g : Jsum6 J (tens (dv K i f) g) = Jsum6 J (dv6 E1 i (tens f g)).
Proof.
  rewrite Jsum6_dv6, !Jsum6_tens, (Jsum_dv K Kf). apply Jsum_ext. intro m1.
  unfold dvT, dv6T. cbn [expo6 mlower6 fst snd]. now rewrite (Jsum_Jscale K Kf).
Qed.
Lemma tens_dv2 J i f g : Jsum6 J (tens f (dv K i g)) = Jsum6 J (dv6 E2 i (tens f g)).
Proof. rewrite Jsum6_dv6, !Jsum6_tens. apply Jsum_ext. intro m1. rewrite (Jsum_dv K Kf). reflexivity. Qed.

(* ------------------------------------------------------------------ *)
(* 3. simultaneous linear substitution                                  *)
Definition subst6_mon (Q : mat (F:=F)) (m : mon6) : poly6 := tens (subst_mon K Q (fst m)) (subst_mon K Q (snd m)).
Definition subst6 (Q : mat (F:=F)) (f : poly6) : poly6 := lift6 (subst6_mon Q) f.

Lemma subst6_app Q f g : subst6 Q (f ++ g) = subst6 Q f ++ subst6 Q g.
Proof. unfold subst6, lift6. apply flat_map_app. Qed.
Lemma subst6_pscale6 Q c f : peq6 (subst6 Q (pscale6 c f)) (pscale6 c (subst6 Q f)).
Proof. intro J. unfold subst6. rewrite Jsum6_lift6, !Jsum6_pscale6, Jsum6_lift6. reflexivity. Qed.
Lemma subst6_one6 Q : peq6 (subst6 Q one6) one6.
Proof.
  intro J. unfold subst6. rewrite Jsum6_lift6. unfold one6 at 1. rewrite Jsum6_mono6.
  unfold subst6_mon, zero6. cbn [fst snd]. rewrite Jsum6_tens.
  unfold subst_mon. cbn [expo fst snd powop]. unfold one3, mono3, one6, mono6, zero6.
  cbn [Poly3.Jsum Jsum6 fst snd]. unfold mon. ring.
Qed.
(* (f (x) g) o (Q + Q) == (f o Q) (x) (g o Q) *)
Theorem subst6_tens Q f g : peq6 (subst6 Q (tens f g)) (tens (subst K Q f) (subst K Q g)).
Proof.
  intro J. unfold subst6, subst. rewrite Jsum6_lift6, !Jsum6_tens, (Jsum_lift K Kf).
  apply Jsum_ext. intro m1. unfold liftT.
  transitivity (Jsum (fun n2 => Jsum (fun n1 => J (n1, n2)) (subst_mon K Q m1)) (lift K (subst_mon K Q) g)).
  - rewrite (Jsum_lift K Kf). apply Jsum_ext. intro m2. unfold liftT, subst6_mon. cbn [fst snd]. apply Jsum6_tens'.
  - apply (Jsum_swap K Kf (fun n2 n1 => J (n1, n2))).
Qed.

(* ------------------------------------------------------------------ *)
(* 4. the Gaussian moment functional                                    *)
Lemma lo_pred' n (f : nat -> F) : lo K n f = #n * f (Nat.pred n).
Proof. destruct n as [|n]; cbn [lo Nat.pred ofnat]; ring. Qed.

Section Moments.
Variables (a1 c1 : axis -> F) (s11 s12 s22 : F).
Definition Mw (i : axis) : nat -> nat -> F := Wick2D.M K (a1 i) (c1 i) s11 s12 s22.
Definition M6 (m : mon6) : F :=
  Mw AX (expo AX (fst m)) (expo AX (snd m)) * Mw AY (expo AY (fst m)) (expo AY (snd m))
  * Mw AZ (expo AZ (fst m)) (expo AZ (snd m)).
Definition E6 (f : poly6) : F := Jsum6 M6 f.

Lemma E6_one : E6 one6 = 1.
Proof. unfold E6, one6. rewrite Jsum6_mono6. unfold M6, zero6, Mw. cbn [expo fst snd]. rewrite !M_00. ring. Qed.
Lemma E6_app f g : E6 (f ++ g) = E6 f + E6 g.
Proof. apply Jsum6_app. Qed.
Lemma E6_pscale6 c f : E6 (pscale6 c f) = c * E6 f.
Proof. apply Jsum6_pscale6. Qed.

(* the six Stein rules *)
Theorem stein6_1 i f :
  E6 (mulv6 E1 i f) = a1 i * E6 f + s11 * E6 (dv6 E1 i f) + s12 * E6 (dv6 E2 i f).
Proof.
  unfold E6. rewrite Jsum6_mulv6, !Jsum6_dv6, <- !Jsum6_Jscale, <- !Jsum6_Jadd. apply Jsum6_ext.
  intros [[[x1 y1] z1] [[x2 y2] z2]]. unfold mulv6T, dv6T, M6, Mw.
  destruct i; cbn [bump6 mlower6 expo6 bump mlower expo fst snd];
    rewrite (wick_first_rule K Kf), !lo_pred'; ring.
Qed.
Theorem stein6_2 i f :
  E6 (mulv6 E2 i f) = c1 i * E6 f + s12 * E6 (dv6 E1 i f) + s22 * E6 (dv6 E2 i f).
Proof.
  unfold E6. rewrite Jsum6_mulv6, !Jsum6_dv6, <- !Jsum6_Jscale, <- !Jsum6_Jadd. apply Jsum6_ext.
  intros [[[x1 y1] z1] [[x2 y2] z2]]. unfold mulv6T, dv6T, M6, Mw.
  destruct i; cbn [bump6 mlower6 expo6 bump mlower expo fst snd];
    rewrite (wick_second_rule K Kf), !lo_pred'; ring.
Qed.

(* the bivariate moments are the only solution of the two Wick recurrences, up to the value at (0, 0) *)
Lemma M_unique_scaled (a c : F) (N : nat -> nat -> F) (k0 : F) :
  N 0%nat 0%nat = k0 ->
  (forall k, N 0%nat (S k) = c * N 0%nat k + s22 * (#k * N 0%nat (Nat.pred k))) ->
  (forall i k, N (S i) k = a * N i k + s11 * (#i * N (Nat.pred i) k) + s12 * (#k * N i (Nat.pred k))) ->
  forall i k, N i k = k0 * Wick2D.M K a c s11 s12 s22 i k.
Proof.
  intros N00 N0 N1.
  assert (HU : forall k, N 0%nat k = k0 * U K c s22 k /\ N 0%nat (S k) = k0 * U K c s22 (S k)).
  { induction k as [|k [IH0 IH1]].
    - split; [rewrite N00, U_0; ring|]. rewrite N0, N00, U_1. cbn [ofnat]. ring.
    - split; [exact IH1|]. rewrite N0, IH1. cbn [Nat.pred]. rewrite IH0, U_SS. ring. }
  assert (H : forall i, (forall k, N i k = k0 * Wick2D.M K a c s11 s12 s22 i k)
                        /\ (forall k, N (S i) k = k0 * Wick2D.M K a c s11 s12 s22 (S i) k)).
  { induction i as [|i [IH0 IH1]].
    - split; [intros k; rewrite M_0; apply HU|].
      intros k. rewrite N1, M_1, lo_pred'. rewrite (proj1 (HU k)), (proj1 (HU (Nat.pred k))).
      cbn [ofnat]. ring.
    - split; [exact IH1|]. intros k. rewrite N1, M_SS, lo_pred'. cbn [Nat.pred].
      rewrite !IH1, IH0. ring. }
  intros i k. apply (H i).
Qed.

Definition stein6_laws (c0 : F) (J : mon6 -> F) : Prop :=
  J zero6 = c0
  /\ (forall i m, J (bump6 E1 i m) = a1 i * J m + s11 * (#(expo6 E1 i m) * J (mlower6 E1 i m))
                                     + s12 * (#(expo6 E2 i m) * J (mlower6 E2 i m)))
  /\ (forall i m, J (bump6 E2 i m) = c1 i * J m + s12 * (#(expo6 E1 i m) * J (mlower6 E1 i m))
                                     + s22 * (#(expo6 E2 i m) * J (mlower6 E2 i m))).

Lemma M6_stein6_laws c0 : stein6_laws c0 (fun m => c0 * M6 m).
Proof.
  split; [|split].
  - unfold M6, zero6, Mw. cbn [expo fst snd]. rewrite !M_00. ring.
  - intros i [[[x1 y1] z1] [[x2 y2] z2]]. unfold M6, Mw.
    destruct i; cbn [bump6 mlower6 expo6 bump mlower expo fst snd];
      rewrite (wick_first_rule K Kf), !lo_pred'; ring.
  - intros i [[[x1 y1] z1] [[x2 y2] z2]]. unfold M6, Mw.
    destruct i; cbn [bump6 mlower6 expo6 bump mlower expo fst snd];
      rewrite (wick_second_rule K Kf), !lo_pred'; ring.
Qed.

(* UNIQUENESS of the moment sequence in six variables *)
Theorem moments6_unique (J : mon6 -> F) c0 : stein6_laws c0 J -> forall m, J m = c0 * M6 m.
Proof.
  intros [H0 [L1 L2]].
  assert (HX : forall x1 y1 z1 x2 y2 z2,
             J ((x1, y1, z1), (x2, y2, z2)) = J ((0, y1, z1), (0, y2, z2))%nat * Mw AX x1 x2).
  { intros x1 y1 z1 x2 y2 z2.
    apply (M_unique_scaled (a1 AX) (c1 AX) (fun i k => J ((i, y1, z1), (k, y2, z2)))); [reflexivity| |].
    - intro k. cbv beta. pose proof (L2 AX ((0, y1, z1), (k, y2, z2))%nat) as E.
      cbn [bump6 mlower6 expo6 bump mlower expo fst snd] in E.
      etransitivity; [exact E|]. cbn [ofnat]. unfold mon6, mon. ring.
    - intros i k. cbv beta. pose proof (L1 AX ((i, y1, z1), (k, y2, z2))) as E.
      cbn [bump6 mlower6 expo6 bump mlower expo fst snd] in E. exact E. }
  assert (HY : forall y1 z1 y2 z2,
             J ((0, y1, z1), (0, y2, z2))%nat = J ((0, 0, z1), (0, 0, z2))%nat * Mw AY y1 y2).
  { intros y1 z1 y2 z2.
    apply (M_unique_scaled (a1 AY) (c1 AY) (fun i k => J ((0, i, z1), (0, k, z2))%nat)); [reflexivity| |].
    - intro k. cbv beta. pose proof (L2 AY ((0, 0, z1), (0, k, z2))%nat) as E.
      cbn [bump6 mlower6 expo6 bump mlower expo fst snd] in E.
      etransitivity; [exact E|]. cbn [ofnat]. unfold mon6, mon. ring.
    - intros i k. cbv beta. pose proof (L1 AY ((0, i, z1), (0, k, z2))%nat) as E.
      cbn [bump6 mlower6 expo6 bump mlower expo fst snd] in E. exact E. }
  assert (HZ : forall z1 z2, J ((0, 0, z1), (0, 0, z2))%nat = J zero6 * Mw AZ z1 z2).
  { intros z1 z2.
    apply (M_unique_scaled (a1 AZ) (c1 AZ) (fun i k => J ((0, 0, i), (0, 0, k))%nat)); [reflexivity| |].
    - intro k. cbv beta. pose proof (L2 AZ ((0, 0, 0), (0, 0, k))%nat) as E.
      cbn [bump6 mlower6 expo6 bump mlower expo fst snd] in E.
      etransitivity; [exact E|]. cbn [ofnat]. unfold mon6, mon. ring.
    - intros i k. cbv beta. pose proof (L1 AZ ((0, 0, i), (0, 0, k))%nat) as E.
      cbn [bump6 mlower6 expo6 bump mlower expo fst snd] in E. exact E. }
  intros [[[x1 y1] z1] [[x2 y2] z2]]. rewrite HX, HY, HZ, H0. unfold M6. cbn [expo fst snd]. ring.
Qed.

(* abstract linear functionals on monomial lists *)
Definition plinear6 (I : poly6 -> F) : Prop :=
  (forall f g, I (f ++ g) = I f + I g) /\ (forall c f, I (pscale6 c f) = c * I f).
Lemma linear_determined6 (I : poly6 -> F) : plinear6 I -> forall f, I f = Jsum6 (fun m => I (mono6 m)) f.
Proof.
  intros [Hadd Hsc]. induction f as [|[m c] f IH].
  - cbn [Jsum6]. pose proof (Hsc 0 []) as E. cbn [pscale6 map] in E.
    transitivity (0 * I []); [exact E|ring].
  - change ((m, c) :: f) with ([(m, c)] ++ f). rewrite Hadd, IH. cbn [Jsum6 app fst snd]. f_equal.
    replace [(m, c)] with (pscale6 c (mono6 m)); [apply Hsc|].
    unfold mono6. cbn [pscale6 map fst snd]. do 2 f_equal. ring.
Qed.
Definition stein6_on_monomials (I : poly6 -> F) : Prop :=
  (forall i m, I (mulv6 E1 i (mono6 m))
               = a1 i * I (mono6 m) + s11 * I (dv6 E1 i (mono6 m)) + s12 * I (dv6 E2 i (mono6 m)))
  /\ (forall i m, I (mulv6 E2 i (mono6 m))
               = c1 i * I (mono6 m) + s12 * I (dv6 E1 i (mono6 m)) + s22 * I (dv6 E2 i (mono6 m))).

(* UNIQUENESS of the functional *)
Theorem gauss6_uniqueness (I : poly6 -> F) :
  plinear6 I -> stein6_on_monomials I -> forall f, I f = I one6 * E6 f.
Proof.
  intros HL [S1 S2] f. rewrite (linear_determined6 I HL). unfold E6.
  rewrite <- Jsum6_Jscale. apply Jsum6_ext. apply moments6_unique.
  destruct HL as [_ Hsc]. split; [reflexivity|split].
  - intros i m. pose proof (S1 i m) as E.
    change (mulv6 E1 i (mono6 m)) with (mono6 (bump6 E1 i m)) in E.
    change (dv6 E1 i (mono6 m)) with (pscale6 #(expo6 E1 i m) (mono6 (mlower6 E1 i m))) in E.
    change (dv6 E2 i (mono6 m)) with (pscale6 #(expo6 E2 i m) (mono6 (mlower6 E2 i m))) in E.
    rewrite !Hsc in E. exact E.
  - intros i m. pose proof (S2 i m) as E.
    change (mulv6 E2 i (mono6 m)) with (mono6 (bump6 E2 i m)) in E.
    change (dv6 E1 i (mono6 m)) with (pscale6 #(expo6 E1 i m) (mono6 (mlower6 E1 i m))) in E.
    change (dv6 E2 i (mono6 m)) with (pscale6 #(expo6 E2 i m) (mono6 (mlower6 E2 i m))) in E.
    rewrite !Hsc in E. exact E.
Qed.
End Moments.


(* ------------------------------------------------------------------ *)
(* 5. covariance under the simultaneous orthogonal substitution         *)
Section Invariance.
Variables (Q : mat (F:=F)) (a1 c1 : axis -> F) (s11 s12 s22 : F).
Hypothesis HQ : orth_rows K Q.
Notation E6o := (E6 a1 c1 s11 s12 s22).
Notation M6o := (M6 a1 c1 s11 s12 s22).

(* Stein's rule for a linear form of the electron-1 (electron-2) variables on a tensor product *)
Lemma E6_tens_mullin1 l f g :
  E6o (tens (mullin K l f) g)
  = sum3 K (fun j => l j * (a1 j * E6o (tens f g) + s11 * E6o (tens (dv K j f) g) + s12 * E6o (tens f (dv K j g)))).
Proof.
  unfold E6. rewrite Jsum6_tens, (Jsum_mullin_exp K Kf).
  rewrite <- (Jsum6_tens M6o (mulv AX f) g), <- (Jsum6_tens M6o (mulv AY f) g), <- (Jsum6_tens M6o (mulv AZ f) g).
  rewrite !tens_mulv1. fold (E6o (mulv6 E1 AX (tens f g))) (E6o (mulv6 E1 AY (tens f g)))
    (E6o (mulv6 E1 AZ (tens f g))).
  rewrite !stein6_1. unfold sum3, E6. rewrite !tens_dv1, !tens_dv2. ring.
Qed.
Lemma E6_tens_mullin2 l f g :
  E6o (tens f (mullin K l g))
  = sum3 K (fun j => l j * (c1 j * E6o (tens f g) + s12 * E6o (tens (dv K j f) g) + s22 * E6o (tens f (dv K j g)))).
Proof.
  unfold E6. rewrite Jsum6_tens', (Jsum_mullin_exp K Kf).
  rewrite <- (Jsum6_tens' M6o f (mulv AX g)), <- (Jsum6_tens' M6o f (mulv AY g)), <- (Jsum6_tens' M6o f (mulv AZ g)).
  rewrite !tens_mulv2. fold (E6o (mulv6 E2 AX (tens f g))) (E6o (mulv6 E2 AY (tens f g)))
    (E6o (mulv6 E2 AZ (tens f g))).
  rewrite !stein6_2. unfold sum3, E6. rewrite !tens_dv1, !tens_dv2. ring.
Qed.

(* chain rule on the monomials of either electron *)
Lemma E6_tens_dv_subst1 j m1 g :
  E6o (tens (dv K j (subst_mon K Q m1)) g)
  = sum3 K (fun k => Q k j * (#(expo k m1) * E6o (tens (subst_mon K Q (mlower k m1)) g))).
Proof. unfold E6, sum3. rewrite !Jsum6_tens, (dv_subst_mon K Kf). reflexivity. Qed.
Lemma E6_tens_dv_subst2 j f m2 :
  E6o (tens f (dv K j (subst_mon K Q m2)))
  = sum3 K (fun k => Q k j * (#(expo k m2) * E6o (tens f (subst_mon K Q (mlower k m2))))).
Proof. unfold E6, sum3. rewrite !Jsum6_tens', (dv_subst_mon K Kf). reflexivity. Qed.

Definition JQ (m : mon6) : F := E6o (subst6_mon Q m).

Lemma JQ_laws :
  stein6_laws (fun i => dot K (Q i) a1) (fun i => dot K (Q i) c1) s11 s12 s22 1 JQ.
Proof.
  split; [|split].
  - unfold JQ, subst6_mon, zero6. cbn [fst snd]. unfold subst_mon. cbn [expo fst snd powop].
    unfold E6. rewrite tens_one. fold (E6o one6). apply E6_one.
  - intros i [m1 m2]. unfold JQ, subst6_mon. cbn [bump6 mlower6 expo6 fst snd].
    unfold E6 at 1.
    rewrite (tens_cong _ _ _ _ (subst_mon_bump K Kf Q i m1) (peq_refl K (subst_mon K Q m2))).
    fold (E6o (tens (mullin K (Q i) (subst_mon K Q m1)) (subst_mon K Q m2))).
    rewrite E6_tens_mullin1. unfold sum3. rewrite !E6_tens_dv_subst1, !E6_tens_dv_subst2. unfold sum3, dot.
    pose proof (HQ i AX) as H1. pose proof (HQ i AY) as H2. pose proof (HQ i AZ) as H3.
    unfold sum3 in H1, H2, H3.
    set (T := E6o (tens (subst_mon K Q m1) (subst_mon K Q m2))).
    set (XX := #(expo AX m1) * E6o (tens (subst_mon K Q (mlower AX m1)) (subst_mon K Q m2))).
    set (XY := #(expo AY m1) * E6o (tens (subst_mon K Q (mlower AY m1)) (subst_mon K Q m2))).
    set (XZ := #(expo AZ m1) * E6o (tens (subst_mon K Q (mlower AZ m1)) (subst_mon K Q m2))).
    set (YX := #(expo AX m2) * E6o (tens (subst_mon K Q m1) (subst_mon K Q (mlower AX m2)))).
    set (YY := #(expo AY m2) * E6o (tens (subst_mon K Q m1) (subst_mon K Q (mlower AY m2)))).
    set (YZ := #(expo AZ m2) * E6o (tens (subst_mon K Q m1) (subst_mon K Q (mlower AZ m2)))).
    transitivity ((Q i AX * a1 AX + Q i AY * a1 AY + Q i AZ * a1 AZ) * T
      + s11 * ((Q i AX * Q AX AX + Q i AY * Q AX AY + Q i AZ * Q AX AZ) * XX
               + (Q i AX * Q AY AX + Q i AY * Q AY AY + Q i AZ * Q AY AZ) * XY
               + (Q i AX * Q AZ AX + Q i AY * Q AZ AY + Q i AZ * Q AZ AZ) * XZ)
      + s12 * ((Q i AX * Q AX AX + Q i AY * Q AX AY + Q i AZ * Q AX AZ) * YX
               + (Q i AX * Q AY AX + Q i AY * Q AY AY + Q i AZ * Q AY AZ) * YY
               + (Q i AX * Q AZ AX + Q i AY * Q AZ AY + Q i AZ * Q AZ AZ) * YZ)); [ring|].
    rewrite H1, H2, H3. unfold delta3, XX, XY, XZ, YX, YY, YZ, T, dot, sum3. destruct i; cbn [axis_eqb]; ring.
  - intros i [m1 m2]. unfold JQ, subst6_mon. cbn [bump6 mlower6 expo6 fst snd].
    unfold E6 at 1.
    rewrite (tens_cong _ _ _ _ (peq_refl K (subst_mon K Q m1)) (subst_mon_bump K Kf Q i m2)).
    fold (E6o (tens (subst_mon K Q m1) (mullin K (Q i) (subst_mon K Q m2)))).
    rewrite E6_tens_mullin2. unfold sum3. rewrite !E6_tens_dv_subst1, !E6_tens_dv_subst2. unfold sum3, dot.
    pose proof (HQ i AX) as H1. pose proof (HQ i AY) as H2. pose proof (HQ i AZ) as H3.
    unfold sum3 in H1, H2, H3.
    set (T := E6o (tens (subst_mon K Q m1) (subst_mon K Q m2))).
    set (XX := #(expo AX m1) * E6o (tens (subst_mon K Q (mlower AX m1)) (subst_mon K Q m2))).
    set (XY := #(expo AY m1) * E6o (tens (subst_mon K Q (mlower AY m1)) (subst_mon K Q m2))).
    set (XZ := #(expo AZ m1) * E6o (tens (subst_mon K Q (mlower AZ m1)) (subst_mon K Q m2))).
    set (YX := #(expo AX m2) * E6o (tens (subst_mon K Q m1) (subst_mon K Q (mlower AX m2)))).
    set (YY := #(expo AY m2) * E6o (tens (subst_mon K Q m1) (subst_mon K Q (mlower AY m2)))).
    set (YZ := #(expo AZ m2) * E6o (tens (subst_mon K Q m1) (subst_mon K Q (mlower AZ m2)))).
    transitivity ((Q i AX * c1 AX + Q i AY * c1 AY + Q i AZ * c1 AZ) * T
      + s12 * ((Q i AX * Q AX AX + Q i AY * Q AX AY + Q i AZ * Q AX AZ) * XX
               + (Q i AX * Q AY AX + Q i AY * Q AY AY + Q i AZ * Q AY AZ) * XY
               + (Q i AX * Q AZ AX + Q i AY * Q AZ AY + Q i AZ * Q AZ AZ) * XZ)
      + s22 * ((Q i AX * Q AX AX + Q i AY * Q AX AY + Q i AZ * Q AX AZ) * YX
               + (Q i AX * Q AY AX + Q i AY * Q AY AY + Q i AZ * Q AY AZ) * YY
               + (Q i AX * Q AZ AX + Q i AY * Q AZ AY + Q i AZ * Q AZ AZ) * YZ)); [ring|].
    rewrite H1, H2, H3. unfold delta3, XX, XY, XZ, YX, YY, YZ, T, dot, sum3. destruct i; cbn [axis_eqb]; ring.
Qed.

(* THE SIX-DIMENSIONAL GAUSSIAN MOMENT FUNCTIONAL IS COVARIANT UNDER THE SIMULTANEOUS ORTHOGONAL SUBSTITUTION:
   the functional with means (a1, c1) of f o (Q + Q) is the functional with means (Q a1, Q c1) of f *)
Theorem E6_subst6_orth f :
  E6o (subst6 Q f) = E6 (fun i => dot K (Q i) a1) (fun i => dot K (Q i) c1) s11 s12 s22 f.
Proof.
  unfold E6 at 1. unfold subst6. rewrite Jsum6_lift6. unfold E6. apply Jsum6_ext. intro m.
  fold (E6o (subst6_mon Q m)). fold (JQ m).
  rewrite (moments6_unique _ _ _ _ _ JQ 1 JQ_laws m). ring.
Qed.
End Invariance.

(* the functional depends on the means through their values only *)
Lemma E6_means_ext a1 c1 a1' c1' s11 s12 s22 f :
  (forall i, a1 i = a1' i) -> (forall i, c1 i = c1' i) -> E6 a1 c1 s11 s12 s22 f = E6 a1' c1' s11 s12 s22 f.
Proof.
  intros Ha Hc. unfold E6. apply Jsum6_ext. intro m. unfold M6, Mw.
  now rewrite (Ha AX), (Ha AY), (Ha AZ), (Hc AX), (Hc AY), (Hc AZ).
Qed.

(* ------------------------------------------------------------------ *)
(* 6. E6 of a tensor product of shifted monomials factorises over the axes *)
(* the horizontal recursion  H[b+1][a] = H[b][a+1] + c H[b][a]  (the [Hf] of Proofs/TwoElecP.v) *)
Fixpoint shf (c : F) (T : nat -> F) (b a : nat) : F :=
  match b with O => T a | S b' => shf c T b' (S a) + c * shf c T b' a end.
Lemma shf_shift c T : forall b a, shf c (fun n => T (S n)) b a = shf c T b (S a).
Proof. induction b as [|b IH]; intro a; cbn [shf]; [reflexivity|]. now rewrite !IH. Qed.

(* functionals of product form *)
Definition pj (jx jy jz : nat -> F) : mon -> F := fun m => jx (expo AX m) * jy (expo AY m) * jz (expo AZ m).

Lemma pj_powop_plin3 i c n g : forall jx jy jz,
  Jsum (pj jx jy jz) (powop (plin3 K i c) n g)
  = Jsum (pj (match i with AX => (fun a => shf c jx n a) | _ => jx end)
             (match i with AY => (fun a => shf c jy n a) | _ => jy end)
             (match i with AZ => (fun a => shf c jz n a) | _ => jz end)) g.
Proof.
  induction n as [|n IH]; intros jx jy jz; cbn [powop].
  - apply Jsum_ext. intro m. unfold pj. destruct i; reflexivity.
  - rewrite (Jsum_plin3_exp K Kf), (Jsum_mulv K), IH.
    rewrite (Jsum_ext K (mulvT i (pj jx jy jz))
               (pj (match i with AX => (fun a => jx (S a)) | _ => jx end)
                   (match i with AY => (fun a => jy (S a)) | _ => jy end)
                   (match i with AZ => (fun a => jz (S a)) | _ => jz end))).
    2:{ intros [[x y] z]. unfold mulvT, pj. destruct i; reflexivity. }
    rewrite IH, <- (Jsum_Jscale K Kf), <- (Jsum_Jadd K Kf). apply Jsum_ext. intro m. unfold pj.
    destruct i; cbn [shf]; rewrite shf_shift; ring.
Qed.

Lemma pj_smono c b g jx jy jz :
  Jsum (pj jx jy jz) (smono K c b g)
  = Jsum (pj (fun a => shf (c AX) jx (expo AX b) a) (fun a => shf (c AY) jy (expo AY b) a)
             (fun a => shf (c AZ) jz (expo AZ b) a)) g.
Proof. unfold smono. rewrite (pj_powop_plin3 AX), (pj_powop_plin3 AY), (pj_powop_plin3 AZ). reflexivity. Qed.

Lemma pj_smono_mono3 c b a jx jy jz :
  Jsum (pj jx jy jz) (smono K c b (mono3 K a))
  = shf (c AX) jx (expo AX b) (expo AX a) * shf (c AY) jy (expo AY b) (expo AY a)
    * shf (c AZ) jz (expo AZ b) (expo AZ a).
Proof. rewrite pj_smono. unfold mono3, pj. cbn [Poly3.Jsum fst snd]. ring. Qed.

(* ((y1 + cB)^b y1^a) (x) ((y2 + cD)^d y2^c) under E6: the product over the axes of the four-index quantities *)
Theorem E6_tens_smono a1 c1 s11 s12 s22 (cB cD : axis -> F) (a b c d : mon) :
  E6 a1 c1 s11 s12 s22 (tens (smono K cB b (mono3 K a)) (smono K cD d (mono3 K c)))
  = shf (cB AX) (fun a' => shf (cD AX) (Mw a1 c1 s11 s12 s22 AX a') (expo AX d) (expo AX c)) (expo AX b) (expo AX a)
    * shf (cB AY) (fun a' => shf (cD AY) (Mw a1 c1 s11 s12 s22 AY a') (expo AY d) (expo AY c)) (expo AY b) (expo AY a)
    * shf (cB AZ) (fun a' => shf (cD AZ) (Mw a1 c1 s11 s12 s22 AZ a') (expo AZ d) (expo AZ c)) (expo AZ b) (expo AZ a).
Proof.
  unfold E6. rewrite Jsum6_tens.
  rewrite (Jsum_ext K _ (pj (fun a' => shf (cD AX) (Mw a1 c1 s11 s12 s22 AX a') (expo AX d) (expo AX c))
                            (fun a' => shf (cD AY) (Mw a1 c1 s11 s12 s22 AY a') (expo AY d) (expo AY c))
                            (fun a' => shf (cD AZ) (Mw a1 c1 s11 s12 s22 AZ a') (expo AZ d) (expo AZ c)))).
  - apply pj_smono_mono3.
  - intro m1. unfold pj. rewrite <- pj_smono_mono3. apply Jsum_ext. intro m2. reflexivity.
Qed.

End Poly6.
